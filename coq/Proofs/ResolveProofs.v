(** Proofs for C34 (placeholder resolution).  Model: Model/Resolve.v. *)
From Coq Require Import List NArith Bool String Decimal DecimalString DecimalN DecimalPos Lia.
From QV Require Import Model.Resolve.
Import ListNotations.
Open Scope N_scope.

(** ** Specification vocabulary *)

(** What a default qubit resolution [f] must satisfy on body [b]. *)
Definition QDefaultOK (b : list instr) (f : N -> option N) : Prop :=
  (forall p, In (QPh p) (all_qubits b) ->
             exists v, f p = Some v /\ ~ In (QFixed v) (all_qubits b))
  /\ (forall p1 p2 v, In (QPh p1) (all_qubits b) -> In (QPh p2) (all_qubits b) ->
                      f p1 = Some v -> f p2 = Some v -> p1 = p2).

Definition TDefaultOK (b : list instr) (f : N -> string -> option string) : Prop :=
  (forall p base, In (TPh p base) (all_targets b) ->
                  exists s, f p base = Some s /\ ~ In (TFixed s) (all_targets b))
  /\ (forall p1 b1 p2 b2 s, In (TPh p1 b1) (all_targets b) -> In (TPh p2 b2) (all_targets b) ->
                            f p1 b1 = Some s -> f p2 b2 = Some s -> p1 = p2).

(** What the instance checker establishes about an observed output [o]. *)
Definition CheckedOK (b : list instr) (tm : tmode) (qm : qmode) (o : list instr) : Prop :=
  exists (fq : N -> option N) (ft : N -> option string),
    o = subst_body (resolve_qubit fq) (resolve_target (fun p _ => ft p)) b
    /\ match qm with Some tbl => fq = lookupN tbl | None => QDefaultOK b fq end
    /\ match tm with Some tbl => ft = lookupS tbl | None => TDefaultOK b (fun p _ => ft p) end.

(** ** Small facts *)

Lemma mem_In x l : mem x l = true <-> In x l.
Proof.
  unfold mem. rewrite existsb_exists. split.
  - intros (y & Hy & E). apply N.eqb_eq in E. now subst.
  - intros H. exists x. split; [assumption | apply N.eqb_refl].
Qed.

Lemma mem_false x l : mem x l = false <-> ~ In x l.
Proof. rewrite <- mem_In. destruct (mem x l); split; congruence. Qed.

Lemma smem_In x l : smem x l = true <-> In x l.
Proof.
  unfold smem. rewrite existsb_exists. split.
  - intros (y & Hy & E). apply String.eqb_eq in E. now subst.
  - intros H. exists x. split; [assumption | apply String.eqb_refl].
Qed.

Lemma pmem_In x l : pmem x l = true <-> In x (map fst l).
Proof.
  unfold pmem. rewrite existsb_exists, in_map_iff. split.
  - intros (y & Hy & E). apply N.eqb_eq in E. exists y. split; [now symmetry | assumption].
  - intros (y & E & Hy). exists y. split; [assumption | apply N.eqb_eq; now symmetry].
Qed.

Lemma iinsert_In x p l : In x (iinsert p l) <-> x = p \/ In x l.
Proof.
  unfold iinsert. destruct (mem p l) eqn:E.
  - apply mem_In in E. split; [now right | intros [-> | H]; assumption].
  - rewrite in_app_iff. cbn. split; [intros [H | [H | []]]; auto | intros [H | H]; auto].
Qed.

Lemma pinsert_In x p b l : In x (map fst (pinsert p b l)) <-> x = p \/ In x (map fst l).
Proof.
  unfold pinsert. destruct (pmem p l) eqn:E.
  - apply pmem_In in E. split; [now right | intros [-> | H]; assumption].
  - rewrite map_app, in_app_iff. cbn. split; [intros [H | [H | []]]; auto | intros [H | H]; auto].
Qed.

(** ** The search loop: pigeonhole *)

Section FirstFree.
  Context {A : Type} (eq_dec : forall x y : A, {x = y} + {x <> y}).
  Variable name : N -> A.
  Hypothesis name_inj : forall i j, name i = name j -> i = j.
  Variable taken : list A.
  Variable tk : N -> bool.
  Hypothesis tk_spec : forall i, tk i = true <-> In (name i) taken.

  Lemma first_free_gen : forall fuel k (R : list A),
      (forall j, k <= j -> In (name j) taken -> In (name j) R) ->
      (List.length R < fuel)%nat ->
      k <= first_free tk fuel k /\ tk (first_free tk fuel k) = false.
  Proof.
    induction fuel as [| f IH]; intros k R HR Hlen.
    - inversion Hlen.
    - cbn [first_free]. destruct (tk k) eqn:Ek.
      + assert (HkR : In (name k) R).
        { apply HR; [lia | now apply tk_spec]. }
        destruct (IH (N.succ k) (remove eq_dec (name k) R)) as [Hle Hfree].
        * intros j Hj Hin. apply in_in_remove.
          -- intros E. apply name_inj in E. lia.
          -- apply HR; [lia | assumption].
        * pose proof (remove_length_lt eq_dec R (name k) HkR). lia.
        * split; [lia | assumption].
      + split; [lia | assumption].
  Qed.

  Lemma first_free_ok : forall k,
      k <= first_free tk (S (List.length taken)) k
      /\ ~ In (name (first_free tk (S (List.length taken)) k)) taken.
  Proof.
    intros k. destruct (first_free_gen (S (List.length taken)) k taken) as [H1 H2].
    - auto.
    - lia.
    - split; [assumption |]. rewrite <- tk_spec. congruence.
  Qed.
End FirstFree.

(** ** Decimal printing and label names are injective *)

Lemma to_uint_nonnil n : N.to_uint n <> Nil.
Proof.
  destruct n as [| p]; cbn.
  - discriminate.
  - apply DecimalPos.Unsigned.to_uint_nonnil.
Qed.

Lemma dec_inj i j : dec i = dec j -> i = j.
Proof.
  unfold dec. intros E.
  pose proof (NilZero.usu (N.to_uint i) (to_uint_nonnil i)) as Hi.
  pose proof (NilZero.usu (N.to_uint j) (to_uint_nonnil j)) as Hj.
  rewrite E in Hi. rewrite Hi in Hj. injection Hj as Hj.
  now apply DecimalN.Unsigned.to_uint_inj.
Qed.

Lemma append_cancel_l (a s1 s2 : string) : (a ++ s1 = a ++ s2)%string -> s1 = s2.
Proof.
  induction a as [| c a IH]; cbn; intros E; [assumption |].
  injection E as E. now apply IH.
Qed.

Lemma label_name_inj base i j : label_name base i = label_name base j -> i = j.
Proof.
  unfold label_name. intros E. apply append_cancel_l in E. cbn in E.
  injection E as E. now apply dec_inj.
Qed.

(** ** Association lists *)

Lemma lookupN_In m p v : lookupN m p = Some v -> In (p, v) m.
Proof.
  induction m as [| [k w] m IH]; cbn; [discriminate |].
  destruct (N.eqb p k) eqn:E.
  - apply N.eqb_eq in E. intros [= ->]. left. now subst.
  - intros H. right. now apply IH.
Qed.

Lemma lookupN_dom m p : In p (map fst m) -> exists v, lookupN m p = Some v.
Proof.
  induction m as [| [k w] m IH]; cbn; [intros [] |].
  destruct (N.eqb p k) eqn:E; [eauto |].
  intros [H | H]; [apply N.eqb_neq in E; congruence | now apply IH].
Qed.

Lemma lookupS_In m p v : lookupS m p = Some v -> In (p, v) m.
Proof.
  induction m as [| [k w] m IH]; cbn; [discriminate |].
  destruct (N.eqb p k) eqn:E.
  - apply N.eqb_eq in E. intros [= ->]. left. now subst.
  - intros H. right. now apply IH.
Qed.

Lemma lookupS_dom m p : In p (map fst m) -> exists v, lookupS m p = Some v.
Proof.
  induction m as [| [k w] m IH]; cbn; [intros [] |].
  destruct (N.eqb p k) eqn:E; [eauto |].
  intros [H | H]; [apply N.eqb_neq in E; congruence | now apply IH].
Qed.

Lemma nodup_snd_inj {K V} (m : list (K * V)) a b v :
  NoDup (map snd m) -> In (a, v) m -> In (b, v) m -> a = b.
Proof.
  induction m as [| [k w] m IH]; cbn; [intros _ [] |].
  intros Hnd Ha Hb. inversion Hnd as [| x l Hnotin Hnd']; subst.
  destruct Ha as [Ha | Ha], Hb as [Hb | Hb].
  - congruence.
  - injection Ha as -> ->. exfalso. apply Hnotin. change v with (snd (b, v)). now apply in_map.
  - injection Hb as -> ->. exfalso. apply Hnotin. change v with (snd (a, v)). now apply in_map.
  - now apply IH.
Qed.

(** ** default_qubit_resolver *)

Lemma scan_qubits_spec : forall qs used phs used' phs',
    scan_qubits qs used phs = (used', phs') ->
    (forall n, In n used' <-> In n used \/ In (QFixed n) qs)
    /\ (forall p, In p phs' <-> In p phs \/ In (QPh p) qs).
Proof.
  induction qs as [| q qs IH]; intros used phs used' phs' E; cbn in E.
  - injection E as <- <-. split; intros x; cbn; tauto.
  - destruct q as [n | p | v]; apply IH in E; destruct E as [E1 E2]; split; intros x;
      rewrite ?E1, ?E2; cbn; rewrite ?iinsert_In.
    + split; [intros [[H | H] | H]; subst; auto | intros [H | [H | H]]; auto].
      injection H as ->. auto.
    + split; [intros [H | H]; auto | intros [H | [H | H]]; auto; discriminate].
    + split; [intros [H | H]; auto | intros [H | [H | H]]; auto; discriminate].
    + split; [intros [[H | H] | H]; subst; auto | intros [H | [H | H]]; auto].
      injection H as ->. auto.
    + split; [intros [H | H]; auto | intros [H | [H | H]]; auto; discriminate].
    + split; [intros [H | H]; auto | intros [H | [H | H]]; auto; discriminate].
Qed.

Lemma zip_free_spec used : forall phs k,
    map fst (zip_free phs used k) = phs
    /\ Forall (fun pv => k <= snd pv /\ ~ In (snd pv) used) (zip_free phs used k)
    /\ NoDup (map snd (zip_free phs used k)).
Proof.
  induction phs as [| p t IH]; intros k; cbn [zip_free].
  - cbn. repeat split; constructor.
  - set (v := first_free (fun i => mem i used) (S (List.length used)) k).
    destruct (first_free_ok N.eq_dec (fun i => i) (fun i j H => H) used (fun i => mem i used)
                (fun i => mem_In i used) k) as [Hle Hfree].
    fold v in Hle, Hfree.
    destruct (IH (N.succ v)) as (Hfst & Hall & Hnd).
    cbn [map fst snd]. repeat split.
    + now rewrite Hfst.
    + constructor; [cbn; split; assumption |].
      eapply Forall_impl; [| exact Hall]. cbn. intros [a w] [H1 H2]. cbn in *. split; [lia | assumption].
    + constructor; [| assumption].
      intros Hin. apply in_map_iff in Hin. destruct Hin as ([a w] & Ew & Hin). cbn in Ew. subst w.
      rewrite Forall_forall in Hall. specialize (Hall _ Hin). cbn in Hall. lia.
Qed.

Lemma wf_get_qubits i : wf_instr i = true -> get_qubits i = iqubits i.
Proof.
  destruct i as [k qs ts]. unfold wf_instr, get_qubits. cbn.
  destruct k; cbn; try reflexivity; destruct qs; cbn; try reflexivity; discriminate.
Qed.

Lemma wf_all_qubits b : wf_body b = true -> flat_map get_qubits b = all_qubits b.
Proof.
  unfold wf_body, all_qubits. induction b as [| i b IH]; cbn; [reflexivity |].
  intros H. apply andb_true_iff in H. destruct H as [Hi Hb].
  now rewrite (wf_get_qubits i Hi), IH.
Qed.

Lemma wf_all_targets b : wf_body b = true -> get_targets b = all_targets b.
Proof.
  unfold wf_body, all_targets, get_targets. induction b as [| i b IH]; cbn; [reflexivity |].
  intros H. apply andb_true_iff in H. destruct H as [Hi Hb]. rewrite (IH Hb). f_equal.
  destruct i as [k qs ts]. unfold wf_instr in Hi. cbn in *.
  apply andb_true_iff in Hi. destruct Hi as [_ Hi].
  destruct k; cbn in *; try reflexivity; destruct ts; try reflexivity; discriminate.
Qed.

Lemma default_qubits_ok b : wf_body b = true -> QDefaultOK b (default_qubit_resolver b).
Proof.
  intros Hwf. unfold default_qubit_resolver, default_qubit_map.
  rewrite (wf_all_qubits b Hwf).
  destruct (scan_qubits (all_qubits b) [] []) as [used phs] eqn:Es.
  apply scan_qubits_spec in Es. destruct Es as [Hused Hphs].
  destruct (zip_free_spec used phs 0) as (Hfst & Hall & Hnd).
  split.
  - intros p Hp.
    destruct (lookupN_dom (zip_free phs used 0) p) as [v Hv].
    { rewrite Hfst. apply Hphs. now right. }
    exists v. split; [assumption |].
    apply lookupN_In in Hv. rewrite Forall_forall in Hall. specialize (Hall _ Hv). cbn in Hall.
    intros Hin. apply (proj2 Hall). apply Hused. now right.
  - intros p1 p2 v _ _ H1 H2. apply lookupN_In in H1, H2.
    eapply nodup_snd_inj; eassumption.
Qed.

(** ** default_target_resolver *)

Lemma scan_targets_spec : forall ts fixed phs fixed' phs',
    scan_targets ts fixed phs = (fixed', phs') ->
    (forall s, In s fixed' <-> In s fixed \/ In (TFixed s) ts)
    /\ (forall p, In p (map fst phs') <-> In p (map fst phs) \/ exists base, In (TPh p base) ts).
Proof.
  induction ts as [| t ts IH]; intros fixed phs fixed' phs' E; cbn in E.
  - injection E as <- <-. split; intros x; cbn; [tauto |].
    split; [auto | intros [H | [base []]]; assumption].
  - destruct t as [s | p base]; apply IH in E; destruct E as [E1 E2]; split; intros x;
      rewrite ?E1, ?E2; cbn; rewrite ?pinsert_In.
    + split; [intros [[H | H] | H]; subst; auto | intros [H | [H | H]]; auto].
      injection H as ->. auto.
    + split.
      * intros [H | [base H]]; [auto | right; exists base; auto].
      * intros [H | [base [H | H]]]; [auto | discriminate | right; exists base; assumption].
    + split; [intros [H | H]; auto | intros [H | [H | H]]; auto; discriminate].
    + split.
      * intros [[H | H] | [base' H]]; subst; [right; exists base; auto | auto | right; exists base'; auto].
      * intros [H | [base' [H | H]]]; [auto | | right; exists base'; assumption].
        injection H as -> _. auto.
Qed.

Lemma assign_labels_spec : forall phs fixed,
    map fst (assign_labels phs fixed) = map fst phs
    /\ Forall (fun pl => ~ In (snd pl) fixed) (assign_labels phs fixed)
    /\ NoDup (map snd (assign_labels phs fixed)).
Proof.
  induction phs as [| [p base] t IH]; intros fixed; cbn [assign_labels].
  - cbn. repeat split; constructor.
  - set (k := first_free (fun i => smem (label_name base i) fixed) (S (List.length fixed)) 0).
    destruct (first_free_ok string_dec (label_name base) (label_name_inj base) fixed
                (fun i => smem (label_name base i) fixed)
                (fun i => smem_In (label_name base i) fixed) 0) as [_ Hfree].
    fold k in Hfree.
    destruct (IH (label_name base k :: fixed)) as (Hfst & Hall & Hnd).
    cbn [map fst snd]. repeat split.
    + now rewrite Hfst.
    + constructor; [exact Hfree |].
      eapply Forall_impl; [| exact Hall]. cbn. intros [a w] H. cbn in *. tauto.
    + constructor; [| assumption].
      intros Hin. apply in_map_iff in Hin. destruct Hin as ([a w] & Ew & Hin). cbn in Ew. subst w.
      rewrite Forall_forall in Hall. specialize (Hall _ Hin). cbn in Hall. tauto.
Qed.

Lemma default_targets_ok b : wf_body b = true -> TDefaultOK b (default_target_resolver b).
Proof.
  intros Hwf. unfold default_target_resolver, default_target_map.
  rewrite (wf_all_targets b Hwf).
  destruct (scan_targets (all_targets b) [] []) as [fixed phs] eqn:Es.
  apply scan_targets_spec in Es. destruct Es as [Hfixed Hphs].
  destruct (assign_labels_spec phs fixed) as (Hfst & Hall & Hnd).
  split.
  - intros p base Hp.
    destruct (lookupS_dom (assign_labels phs fixed) p) as [s Hs].
    { rewrite Hfst. apply Hphs. right. now exists base. }
    exists s. split; [assumption |].
    apply lookupS_In in Hs. rewrite Forall_forall in Hall. specialize (Hall _ Hs). cbn in Hall.
    intros Hin. apply Hall. apply Hfixed. now right.
  - intros p1 b1 p2 b2 s _ _ H1 H2. apply lookupS_In in H1, H2.
    eapply nodup_snd_inj; eassumption.
Qed.

(** The generated label is the base followed by "_" and a decimal number (form of the names). *)
Lemma assign_labels_form : forall phs fixed p s,
    In (p, s) (assign_labels phs fixed) -> exists base k, In (p, base) phs /\ s = label_name base k.
Proof.
  induction phs as [| [q base] t IH]; intros fixed p s; cbn [assign_labels]; [intros [] |].
  intros [H | H].
  - injection H as <- <-. eexists _, _. split; [left; reflexivity | reflexivity].
  - apply IH in H. destruct H as (b' & k & Hin & E). exists b', k. split; [now right | assumption].
Qed.

(** ** Resolution replaces at every occurrence *)

Lemma resolve_instr_subst tr qr i :
  wf_instr i = true ->
  resolve_instr tr qr i = subst_instr (resolve_qubit qr) (resolve_target tr) i.
Proof.
  destruct i as [k qs ts]. unfold wf_instr, resolve_instr, subst_instr. cbn.
  destruct k; cbn; intros H;
    try (destruct ts; [cbn; reflexivity | discriminate]);
    try (destruct qs; [cbn; reflexivity | discriminate]).
  destruct qs; [| discriminate]. destruct ts; [reflexivity | discriminate].
Qed.

Lemma resolve_with_subst tr qr b :
  wf_body b = true ->
  resolve_with tr qr b = subst_body (resolve_qubit qr) (resolve_target tr) b.
Proof.
  unfold wf_body, resolve_with, subst_body. induction b as [| i b IH]; cbn; [reflexivity |].
  intros H. apply andb_true_iff in H. destruct H as [Hi Hb].
  now rewrite (resolve_instr_subst tr qr i Hi), IH.
Qed.

Lemma all_qubits_subst fq ft b : all_qubits (subst_body fq ft b) = map fq (all_qubits b).
Proof.
  unfold all_qubits, subst_body. induction b as [| i b IH]; cbn; [reflexivity |].
  now rewrite map_app, IH.
Qed.

Lemma all_targets_subst fq ft b : all_targets (subst_body fq ft b) = map ft (all_targets b).
Proof.
  unfold all_targets, subst_body. induction b as [| i b IH]; cbn; [reflexivity |].
  now rewrite map_app, IH.
Qed.

Lemma no_qph_after b f :
  (forall p, In (QPh p) (all_qubits b) -> exists v, f p = Some v) ->
  forall fq' p, ~ In (QPh p) (all_qubits (subst_body (resolve_qubit f) fq' b)).
Proof.
  intros Hf ft p. rewrite all_qubits_subst. intros Hin. apply in_map_iff in Hin.
  destruct Hin as (q & E & Hq). destruct q as [n | p' | v]; cbn in E; try discriminate.
  destruct (Hf p' Hq) as [v Hv]. rewrite Hv in E. discriminate.
Qed.

Lemma no_tph_after b f :
  (forall p base, In (TPh p base) (all_targets b) -> exists s, f p base = Some s) ->
  forall fq p base, ~ In (TPh p base) (all_targets (subst_body fq (resolve_target f) b)).
Proof.
  intros Hf fq p base. rewrite all_targets_subst. intros Hin. apply in_map_iff in Hin.
  destruct Hin as (t & E & Ht). destruct t as [s | p' base']; cbn in E; try discriminate.
  destruct (Hf p' base' Ht) as [s Hs]. rewrite Hs in E. discriminate.
Qed.

Lemma default_no_placeholder b :
  wf_body b = true ->
  (forall p, ~ In (QPh p) (all_qubits (resolve_default b)))
  /\ (forall p base, ~ In (TPh p base) (all_targets (resolve_default b))).
Proof.
  intros Hwf. unfold resolve_default. rewrite (resolve_with_subst _ _ b Hwf).
  destruct (default_qubits_ok b Hwf) as [Hq _]. destruct (default_targets_ok b Hwf) as [Ht _].
  split.
  - intros p. apply no_qph_after. intros p' Hp'. destruct (Hq p' Hp') as (v & Hv & _). eauto.
  - intros p base. apply no_tph_after. intros p' b' Hp'. destruct (Ht p' b' Hp') as (s & Hs & _). eauto.
Qed.

(** ** Checker soundness *)

Lemma kind_eqb_eq a b : kind_eqb a b = true -> a = b.
Proof. destruct a, b; cbn; congruence. Qed.

Lemma qubit_eqb_eq a b : qubit_eqb a b = true -> a = b.
Proof. destruct a, b; cbn; try discriminate; intros H; apply N.eqb_eq in H; now subst. Qed.

Lemma target_eqb_eq a b : target_eqb a b = true -> a = b.
Proof.
  destruct a, b; cbn; try discriminate.
  - intros H. apply String.eqb_eq in H. now subst.
  - intros H. apply andb_true_iff in H. destruct H as [H1 H2].
    apply N.eqb_eq in H1. apply String.eqb_eq in H2. now subst.
Qed.

Lemma list_eqb_eq {A} (eqb : A -> A -> bool) :
  (forall x y, eqb x y = true -> x = y) -> forall a b, list_eqb eqb a b = true -> a = b.
Proof.
  intros Heq. induction a as [| x a IH]; destruct b as [| y b]; cbn; try discriminate; [reflexivity |].
  intros H. apply andb_true_iff in H. destruct H as [H1 H2]. f_equal; auto.
Qed.

Lemma instr_eqb_eq a b : instr_eqb a b = true -> a = b.
Proof.
  destruct a as [k qs ts], b as [k' qs' ts']. unfold instr_eqb. cbn. intros H.
  apply andb_true_iff in H. destruct H as [H H3]. apply andb_true_iff in H. destruct H as [H1 H2].
  apply kind_eqb_eq in H1. apply (list_eqb_eq _ qubit_eqb_eq) in H2.
  apply (list_eqb_eq _ target_eqb_eq) in H3. now subst.
Qed.

Lemma body_eqb_eq a b : body_eqb a b = true -> a = b.
Proof. apply list_eqb_eq. exact instr_eqb_eq. Qed.

Lemma fixed_qubits_In n qs : In n (fixed_qubits qs) <-> In (QFixed n) qs.
Proof.
  unfold fixed_qubits. rewrite in_flat_map. split.
  - intros (q & Hq & Hn). destruct q; cbn in Hn; try contradiction. destruct Hn as [-> | []]. assumption.
  - intros H. exists (QFixed n). split; [assumption | now left].
Qed.

Lemma fixed_targets_In s ts : In s (fixed_targets ts) <-> In (TFixed s) ts.
Proof.
  unfold fixed_targets. rewrite in_flat_map. split.
  - intros (q & Hq & Hn). destruct q; cbn in Hn; try contradiction. destruct Hn as [-> | []]. assumption.
  - intros H. exists (TFixed s). split; [assumption | now left].
Qed.

Lemma ph_ids_q_In p qs : In p (ph_ids_q qs) <-> In (QPh p) qs.
Proof.
  unfold ph_ids_q. rewrite in_flat_map. split.
  - intros (q & Hq & Hn). destruct q; cbn in Hn; try contradiction. destruct Hn as [-> | []]. assumption.
  - intros H. exists (QPh p). split; [assumption | now left].
Qed.

Lemma ph_ids_t_In p ts : In p (ph_ids_t ts) <-> exists base, In (TPh p base) ts.
Proof.
  unfold ph_ids_t. rewrite in_flat_map. split.
  - intros (q & Hq & Hn). destruct q; cbn in Hn; try contradiction. destruct Hn as [-> | []]. eauto.
  - intros [base H]. exists (TPh p base). split; [assumption | now left].
Qed.

Lemma injective_on_spec {V} (eqb : V -> V -> bool) (f : N -> option V) ids :
  (forall x y, eqb x y = true <-> x = y) ->
  injective_on eqb f ids = true ->
  forall p1 p2 v, In p1 ids -> In p2 ids -> f p1 = Some v -> f p2 = Some v -> p1 = p2.
Proof.
  intros Heq H p1 p2 v H1 H2 E1 E2. unfold injective_on in H.
  rewrite forallb_forall in H. specialize (H p1 H1). rewrite forallb_forall in H. specialize (H p2 H2).
  rewrite E1, E2 in H. apply orb_true_iff in H. destruct H as [H | H].
  - now apply N.eqb_eq.
  - apply negb_true_iff in H. assert (eqb v v = true) by now apply Heq. congruence.
Qed.

Lemma existsb_false {A} (f : A -> bool) l : existsb f l = false -> forall x, In x l -> f x = false.
Proof.
  intros H x Hx. destruct (f x) eqn:E; [| reflexivity].
  assert (existsb f l = true) by (apply existsb_exists; eauto). congruence.
Qed.

Theorem chk_sound b tm qm o : chk b tm qm o = 0 -> CheckedOK b tm qm o.
Proof.
  unfold chk.
  set (fq := lookupN (match qm with Some tbl => tbl | None => extract_q (all_qubits b) (all_qubits o) [] end)).
  set (ft := lookupS (match tm with Some tbl => tbl | None => extract_t (all_targets b) (all_targets o) [] end)).
  destruct (_ || _) eqn:E3; [discriminate |].
  destruct (negb (body_eqb _ _)) eqn:E2; [discriminate |].
  destruct (_ || _) eqn:E4 in |- *; [discriminate |].
  match goal with |- (if ?c then _ else _) = _ -> _ => destruct c eqn:E5; [discriminate |] end.
  match goal with |- (if ?c then _ else _) = _ -> _ => destruct c eqn:E6; [discriminate |] end.
  intros _.
  apply negb_false_iff in E2. apply body_eqb_eq in E2.
  apply orb_false_iff in E3. destruct E3 as [E3q E3t].
  apply orb_false_iff in E4. destruct E4 as [E4q E4t].
  exists fq, ft. split; [exact E2 |]. split.
  - destruct qm as [tbl |]; [reflexivity |].
    apply negb_false_iff in E4q.
    split.
    + intros p Hp.
      destruct (fq p) as [v |] eqn:Ev.
      * exists v. split; [reflexivity |].
        pose proof (existsb_false _ _ E5 p (proj2 (ph_ids_q_In p _) Hp)) as Hm. cbn in Hm.
        rewrite Ev in Hm. apply mem_false in Hm. now rewrite fixed_qubits_In in Hm.
      * exfalso.
        assert (Hin : In (QPh p) (all_qubits o)).
        { rewrite E2, all_qubits_subst. apply in_map_iff. exists (QPh p). split; [| assumption].
          cbn. now rewrite Ev. }
        pose proof (existsb_false _ _ E3q _ Hin) as Hc. discriminate.
    + intros p1 p2 v H1 H2. apply (injective_on_spec N.eqb fq _ N.eqb_eq E4q).
      * now apply ph_ids_q_In.
      * now apply ph_ids_q_In.
  - destruct tm as [tbl |]; [reflexivity |].
    apply negb_false_iff in E4t.
    split.
    + intros p base Hp.
      destruct (ft p) as [s |] eqn:Es.
      * exists s. split; [reflexivity |].
        pose proof (existsb_false _ _ E6 p (proj2 (ph_ids_t_In p _) (ex_intro _ base Hp))) as Hm.
        cbn in Hm. rewrite Es in Hm. intros Hin. apply fixed_targets_In in Hin.
        apply smem_In in Hin. congruence.
      * exfalso.
        assert (Hin : In (TPh p base) (all_targets o)).
        { rewrite E2, all_targets_subst. apply in_map_iff. exists (TPh p base). split; [| assumption].
          cbn. now rewrite Es. }
        pose proof (existsb_false _ _ E3t _ Hin) as Hc. discriminate.
    + intros p1 b1 p2 b2 s H1 H2. apply (injective_on_spec String.eqb ft _ String.eqb_eq E4t).
      * apply ph_ids_t_In. eauto.
      * apply ph_ids_t_In. eauto.
Qed.

(** The model's own output satisfies what the checker establishes. *)
Theorem model_checked_ok b tm qm : wf_body b = true -> CheckedOK b tm qm (model_out b tm qm).
Proof.
  intros Hwf. unfold model_out. rewrite (resolve_with_subst _ _ b Hwf).
  exists (match qm with Some tbl => lookupN tbl | None => default_qubit_resolver b end),
         (match tm with Some tbl => lookupS tbl | None => lookupS (default_target_map b) end).
  split; [| split].
  - destruct tm; reflexivity.
  - destruct qm; [reflexivity | now apply default_qubits_ok].
  - destruct tm; [reflexivity | now apply (default_targets_ok b Hwf)].
Qed.
