(** Proofs about Model/Loop.v: running the wrapped program executes the body exactly n times. *)
From Coq Require Import List NArith ZArith Bool Arith Lia.
From QV Require Import Model.Loop.
Import ListNotations.

(** ** Memory *)

Lemma ref_eqb_refl r : ref_eqb r r = true.
Proof. unfold ref_eqb. now rewrite !N.eqb_refl. Qed.

Lemma ref_eqb_eq a b : ref_eqb a b = true <-> a = b.
Proof.
  unfold ref_eqb. rewrite andb_true_iff, !N.eqb_eq. destruct a, b; cbn [fst snd].
  split; [intros [-> ->]; reflexivity | intros [= -> ->]; auto].
Qed.

Lemma get_set_same r v m : get r (set r v m) = v.
Proof. unfold set. cbn [get]. now rewrite ref_eqb_refl. Qed.

Lemma get_set_other_region r r' v m : fst r' <> fst r -> get r (set r' v m) = get r m.
Proof.
  intros H. unfold set. cbn [get]. unfold ref_eqb.
  destruct (N.eqb_spec (fst r) (fst r')); [congruence | reflexivity].
Qed.

(** ** Straight-line segments *)

Definition straight (i : instr) : bool :=
  match i with
  | IEvent _ | IUse _ | IMove _ _ | ISub _ _ | ILabel _ => true
  | _ => false
  end.

Definition mem_step (i : instr) (m : mem) : mem :=
  match i with
  | IMove r v => set r v m
  | ISub r v => set r (get r m - v)%Z m
  | _ => m
  end.

Fixpoint mem_after (seg : list instr) (m : mem) : mem :=
  match seg with
  | [] => m
  | i :: t => mem_after t (mem_step i m)
  end.

Lemma ok_instr_straight cname l i : ok_instr cname l i = true -> straight i = true.
Proof. destruct i; cbn; auto. Qed.

Lemma ok_body_straight cname l b : ok_body cname l b = true -> forallb straight b = true.
Proof.
  unfold ok_body. rewrite !forallb_forall. intros H i Hi. eapply ok_instr_straight; eauto.
Qed.

Lemma nth_error_mid {A} (pre : list A) x post : nth_error (pre ++ x :: post) (length pre) = Some x.
Proof. rewrite nth_error_app2, Nat.sub_diag by lia. reflexivity. Qed.

(** Executing a straight-line segment: one step per instruction, events appended in order. *)
Lemma exec_seg seg : forall pre post f m rtr,
  forallb straight seg = true ->
  exec (length seg + f) (pre ++ seg ++ post) (length pre) m rtr =
  exec f (pre ++ seg ++ post) (length pre + length seg) (mem_after seg m)
       (rev (events seg) ++ rtr).
Proof.
  induction seg as [|i seg IH]; intros pre post f m rtr Hs.
  - cbn [length Nat.add mem_after events rev app]. now rewrite Nat.add_0_r.
  - cbn [forallb] in Hs. apply andb_prop in Hs as [Hi Hs].
    cbn [length Nat.add]. cbn [exec]. cbn [app]. rewrite nth_error_mid.
    assert (HW : pre ++ i :: seg ++ post = (pre ++ [i]) ++ seg ++ post)
      by (rewrite <- app_assoc; reflexivity).
    assert (HL : S (length pre) = length (pre ++ [i]))
      by (rewrite app_length; cbn [length]; lia).
    assert (HL2 : length pre + S (length seg) = length (pre ++ [i]) + length seg)
      by (rewrite app_length; cbn [length]; lia).
    destruct i; try discriminate Hi; cbn [mem_after mem_step events];
      rewrite HW, HL, HL2, IH by exact Hs; try reflexivity.
    + cbn [rev]. rewrite <- (app_assoc (rev (events seg)) [e] rtr). reflexivity.
    + cbn [rev]. rewrite <- (app_assoc (rev (events seg)) [e] rtr). reflexivity.
Qed.

(** A body that does not mention the counter region leaves the counter cell alone. *)
Lemma mem_after_counter cname l b : forall m c,
  ok_body cname l b = true -> fst c = cname -> get c (mem_after b m) = get c m.
Proof.
  induction b as [|i b IH]; intros m c Hok Hc; [reflexivity|].
  cbn [ok_body forallb] in Hok. apply andb_prop in Hok as [Hi Hok].
  cbn [mem_after]. rewrite (IH _ c Hok Hc).
  destruct i; cbn [mem_step]; try reflexivity; cbn [ok_instr] in Hi;
    apply negb_true_iff, N.eqb_neq in Hi; apply get_set_other_region; congruence.
Qed.

(** ** The wrapped program *)

Definition wrapped (c : ref) (l : N) (n : Z) (b : list instr) : list instr :=
  [IMove c n; ILabel l] ++ b ++ [ISub c 1%Z; IJumpWhen l c].

Lemma wrapped_length c l n b : length (wrapped c l n b) = length b + 4.
Proof. unfold wrapped. rewrite !app_length. cbn [length]. lia. Qed.

Lemma wrapped_label c l n b : find_label l (wrapped c l n b) 0 = Some 1.
Proof. unfold wrapped. cbn [app find_label]. now rewrite N.eqb_refl. Qed.

Lemma wrapped_sub c l n b : nth_error (wrapped c l n b) (2 + length b) = Some (ISub c 1%Z).
Proof.
  unfold wrapped. rewrite nth_error_app2 by (cbn [length]; lia). cbn [length].
  replace (2 + length b - 2) with (length b) by lia. apply (nth_error_mid b).
Qed.

Lemma wrapped_jump c l n b : nth_error (wrapped c l n b) (3 + length b) = Some (IJumpWhen l c).
Proof.
  unfold wrapped. rewrite nth_error_app2 by (cbn [length]; lia). cbn [length].
  replace (3 + length b - 2) with (S (length b)) by lia.
  rewrite nth_error_app2 by lia. replace (S (length b) - length b) with 1 by lia. reflexivity.
Qed.

Lemma wrapped_end c l n b : nth_error (wrapped c l n b) (4 + length b) = None.
Proof. apply nth_error_None. rewrite wrapped_length. lia. Qed.

Lemma repeat_list_succ_rev {A} (ev : list A) k rtr :
  rev (repeat_list ev (S k)) ++ rtr = rev (repeat_list ev k) ++ rev ev ++ rtr.
Proof. cbn [repeat_list]. rewrite rev_app_distr, <- app_assoc. reflexivity. Qed.

(** Loop invariant: at the label with [k+1] iterations to go, after [(k+1) * (|b| + 3)] steps
    control is past the end, the body's events were emitted [k+1] more times and the counter
    is 0. *)
Lemma loop_iterations c l n0 b :
  ok_body (fst c) l b = true ->
  forall k m rtr f,
    get c m = Z.of_nat (S k) ->
    exists m',
      get c m' = 0%Z /\
      exec (S k * (length b + 3) + f) (wrapped c l n0 b) 1 m rtr =
      exec f (wrapped c l n0 b) (4 + length b) m' (rev (repeat_list (events b) (S k)) ++ rtr).
Proof.
  intros Hok. set (W := wrapped c l n0 b).
  induction k as [|k IH]; intros m rtr f Hc.
  - (* last iteration *)
    replace (1 * (length b + 3) + f) with (S (length b + S (S f))) by lia.
    cbn [exec]. unfold W at 1. unfold wrapped at 1. cbn [app nth_error].
    fold (wrapped c l n0 b). fold W.
    pose proof (exec_seg b [IMove c n0; ILabel l] [ISub c 1%Z; IJumpWhen l c] (S (S f)) m rtr
                  (ok_body_straight _ _ _ Hok)) as Hseg.
    cbn [length] in Hseg. change ([IMove c n0; ILabel l] ++ b ++ [ISub c 1%Z; IJumpWhen l c])
      with W in Hseg. rewrite Hseg. clear Hseg.
    set (m1 := mem_after b m).
    assert (Hc1 : get c m1 = 1%Z).
    { unfold m1. rewrite (mem_after_counter (fst c) l b m c Hok eq_refl), Hc. reflexivity. }
    cbn [exec]. unfold W at 1. rewrite wrapped_sub. fold W.
    set (m2 := set c (get c m1 - 1)%Z m1).
    assert (Hc2 : get c m2 = 0%Z) by (unfold m2; rewrite get_set_same, Hc1; reflexivity).
    cbn [exec]. replace (S (2 + length b)) with (3 + length b) by lia.
    unfold W at 1. rewrite wrapped_jump. fold W. rewrite Hc2. cbn [Z.eqb].
    exists m2. split; [exact Hc2|].
    replace (S (3 + length b)) with (4 + length b) by lia.
    cbn [repeat_list]. rewrite app_nil_r. reflexivity.
  - replace (S (S k) * (length b + 3) + f)
      with (S (length b + S (S (S k * (length b + 3) + f)))) by lia.
    cbn [exec]. unfold W at 1. unfold wrapped at 1. cbn [app nth_error].
    fold (wrapped c l n0 b). fold W.
    pose proof (exec_seg b [IMove c n0; ILabel l] [ISub c 1%Z; IJumpWhen l c]
                  (S (S (S k * (length b + 3) + f))) m rtr
                  (ok_body_straight _ _ _ Hok)) as Hseg.
    cbn [length] in Hseg. change ([IMove c n0; ILabel l] ++ b ++ [ISub c 1%Z; IJumpWhen l c])
      with W in Hseg. rewrite Hseg. clear Hseg.
    set (m1 := mem_after b m).
    assert (Hc1 : get c m1 = Z.of_nat (S (S k))).
    { unfold m1. rewrite (mem_after_counter (fst c) l b m c Hok eq_refl), Hc. reflexivity. }
    cbn [exec]. unfold W at 1. rewrite wrapped_sub. fold W.
    set (m2 := set c (get c m1 - 1)%Z m1).
    assert (Hc2 : get c m2 = Z.of_nat (S k)) by (unfold m2; rewrite get_set_same, Hc1; lia).
    cbn [exec]. replace (S (2 + length b)) with (3 + length b) by lia.
    unfold W at 1. rewrite wrapped_jump. fold W. rewrite Hc2.
    replace (Z.of_nat (S k) =? 0)%Z with false by (symmetry; apply Z.eqb_neq; lia).
    unfold W at 1. rewrite wrapped_label. fold W.
    destruct (IH m2 (rev (events b) ++ rtr) f Hc2) as [m' [Hm' Hex]].
    exists m'. split; [exact Hm'|]. rewrite Hex. rewrite (repeat_list_succ_rev _ (S k)).
    reflexivity.
Qed.

(** Running the wrapped program from any memory, with the stated fuel (or more): it runs off the
    end, has emitted the body's events exactly [n] times, and the counter is 0. *)
Theorem wrapped_runs c l b (n : nat) m extra :
  ok_body (fst c) l b = true -> 1 <= n ->
  exists m',
    exec (loop_fuel b n + extra) (wrapped c l (Z.of_nat n) b) 0 m [] =
      Done (length (wrapped c l (Z.of_nat n) b)) m' (repeat_list (events b) n)
    /\ get c m' = 0%Z.
Proof.
  intros Hok Hn. destruct n as [|k]; [lia|]. unfold loop_fuel.
  replace (S k * (length b + 3) + 2 + extra) with (S (S k * (length b + 3) + S extra)) by lia.
  cbn [exec]. unfold wrapped at 1. cbn [app nth_error]. fold (wrapped c l (Z.of_nat (S k)) b).
  destruct (loop_iterations c l (Z.of_nat (S k)) b Hok k (set c (Z.of_nat (S k)) m) [] (S extra)
              (get_set_same _ _ _)) as [m' [Hm' Hex]].
  exists m'. split; [|exact Hm']. rewrite Hex. cbn [exec]. rewrite wrapped_end, wrapped_length.
  rewrite app_nil_r, rev_involutive. f_equal. lia.
Qed.

(** ** [wrap] *)

Lemma wrap_body_ge2 p c l n :
  (2 <= n)%N -> p_body (wrap p c l n) = wrapped c l (Z.of_N n) (p_body p).
Proof.
  intros Hn. unfold wrap.
  destruct (N.eqb_spec n 0); [lia|]. destruct (N.eqb_spec n 1); [lia|]. reflexivity.
Qed.

Theorem wrap_runs p c l (n : N) m extra :
  ok_body (fst c) l (p_body p) = true -> (2 <= n)%N ->
  let w := p_body (wrap p c l n) in
  exists m',
    exec (loop_fuel (p_body p) (N.to_nat n) + extra) w 0 m [] =
      Done (length w) m' (repeat_list (events (p_body p)) (N.to_nat n))
    /\ get c m' = 0%Z.
Proof.
  intros Hok Hn. cbn zeta. rewrite (wrap_body_ge2 p c l n Hn).
  rewrite <- (N_nat_Z n).
  apply wrapped_runs; auto. lia.
Qed.

Theorem wrap_zero p c l : wrap p c l 0 = mkprog (p_decls p) (p_defs p) [].
Proof. reflexivity. Qed.

Theorem wrap_one p c l : wrap p c l 1 = p.
Proof. reflexivity. Qed.

Theorem wrap_defs p c l n : p_defs (wrap p c l n) = p_defs p.
Proof. unfold wrap. destruct (N.eqb n 0), (N.eqb n 1); reflexivity. Qed.

Fixpoint find_decl (name : N) (ds : list decl) : option (N * N) :=
  match ds with
  | [] => None
  | (n', v) :: t => if N.eqb n' name then Some v else find_decl name t
  end.

Lemma find_insert_decl name v ds name' :
  find_decl name' (insert_decl name v ds) =
  if N.eqb name name' then Some v else find_decl name' ds.
Proof.
  induction ds as [|[n0 v0] t IH]; cbn [insert_decl find_decl].
  - reflexivity.
  - destruct (N.eqb_spec n0 name) as [-> | Hne]; cbn [find_decl].
    + destruct (N.eqb_spec name name'); reflexivity.
    + rewrite IH. destruct (N.eqb_spec n0 name') as [-> | Hne'].
      * destruct (N.eqb_spec name name'); [congruence | reflexivity].
      * reflexivity.
Qed.

Lemma names_insert_decl name v ds :
  map fst (insert_decl name v ds) =
  if existsb (fun d => N.eqb (fst d) name) ds then map fst ds else map fst ds ++ [name].
Proof.
  induction ds as [|[n0 v0] t IH]; cbn [insert_decl existsb map fst]; [reflexivity|].
  destruct (N.eqb_spec n0 name) as [-> | Hne]; cbn [orb map fst]; [reflexivity|].
  rewrite IH. match goal with |- context [existsb ?f t] => destruct (existsb f t) end; reflexivity.
Qed.

(** Declarations: untouched for n < 2; for n >= 2 the counter region is (re)declared
    INTEGER[index+1] — in place if it existed, else appended — and nothing else changes. *)
Theorem wrap_decls p c l n :
  ((n < 2)%N -> p_decls (wrap p c l n) = p_decls p)
  /\ ((2 <= n)%N ->
      (forall name, find_decl name (p_decls (wrap p c l n)) =
                    if N.eqb (fst c) name then Some (T_INTEGER, (snd c + 1)%N)
                    else find_decl name (p_decls p))
      /\ map fst (p_decls (wrap p c l n)) =
         if existsb (fun d => N.eqb (fst d) (fst c)) (p_decls p)
         then map fst (p_decls p) else map fst (p_decls p) ++ [fst c]).
Proof.
  unfold wrap. split; intros Hn.
  - destruct (N.eqb_spec n 0); [reflexivity|]. destruct (N.eqb_spec n 1); [reflexivity | lia].
  - destruct (N.eqb_spec n 0); [lia|]. destruct (N.eqb_spec n 1); [lia|]. cbn [p_decls]. split.
    + intros name. apply find_insert_decl.
    + apply names_insert_decl.
Qed.

(** ** The instance checker *)

Lemma listN_eqb_eq a : forall b, listN_eqb a b = true <-> a = b.
Proof.
  induction a as [|x a IH]; intros [|y b]; cbn [listN_eqb];
    try (split; [reflexivity || discriminate | reflexivity || discriminate]).
  rewrite andb_true_iff, N.eqb_eq, IH. split; [intros [-> ->]; reflexivity | intros [= -> ->]; auto].
Qed.

Theorem chk_run_sound b w c n :
  chk_run b w c n = true ->
  exists m', exec (loop_fuel b n) w 0 [] [] = Done (length w) m' (repeat_list (events b) n)
             /\ get c m' = 0%Z.
Proof.
  unfold chk_run. destruct (exec (loop_fuel b n) w 0 [] []) as [pc m tr| |]; try discriminate.
  rewrite !andb_true_iff, Nat.eqb_eq, listN_eqb_eq, Z.eqb_eq. intros [[-> ->] Hc].
  exists m. auto.
Qed.

(** The checker accepts the model's own output (completeness on the model). *)
Theorem chk_run_wrap p c l (n : N) :
  ok_body (fst c) l (p_body p) = true -> (2 <= n)%N ->
  chk_run (p_body p) (p_body (wrap p c l n)) c (N.to_nat n) = true.
Proof.
  intros Hok Hn. unfold chk_run.
  destruct (wrap_runs p c l n [] 0 Hok Hn) as [m' [Hex Hc]]. cbn zeta in Hex.
  rewrite Nat.add_0_r in Hex. rewrite Hex.
  rewrite Nat.eqb_refl, Hc. cbn [andb Z.eqb].
  rewrite andb_true_r. now apply listN_eqb_eq.
Qed.
