(** Order independence of the model of [ScheduledBasicBlock::build] (Model/Graph.v).

    The implementation iterates over [HashSet]s (the regions an instruction reads / writes /
    captures, the frames it uses / blocks) in an arbitrary order; the model takes LISTS.  This
    file proves that permuting any of the five lists of any instruction (and of the terminator)
    changes neither the outcome (same error at the same node) nor the SET of labelled edges —
    hence not the set of stored (source, target, kind) edges.

    Route: (1) the per-resource access subsequences [macc_i] / [facc_i] / [tacc_i] only count the
    occurrences of the resource in the lists, so they are EQUAL for permuted lists; (2) by the
    projection theorems of Proofs/GraphProofs.v ([step_proj], [mem_deps_proj]) the queue of every
    resource after a step, the labelled edges of every resource and the set of memory
    dependencies of the step are functions of those subsequences; (3) the leading / trailing
    classical rules read only the SET of nodes of the step's memory dependencies; (4) the final
    linking loops read the key sets and the queues of the two frame maps. *)
From Coq Require Import List NArith Bool Lia Permutation.
From QV Require Import Model.DepQueue Proofs.DepQueueProofs Model.Graph Proofs.GraphProofs.
Import ListNotations.
Local Open Scope N_scope.

(** ** the relation between the two handler answers *)

Definition info_perm (i i' : info) : Prop :=
  i_role i = i_role i' /\ i_memerr i = i_memerr i' /\ i_sched i = i_sched i' /\
  Permutation (i_reads i) (i_reads i') /\ Permutation (i_writes i) (i_writes i') /\
  Permutation (i_caps i) (i_caps i') /\
  Permutation (i_used i) (i_used i') /\ Permutation (i_blocked i) (i_blocked i').

Definition term_perm (t t' : option info) : Prop :=
  match t, t' with
  | Some i, Some i' => info_perm i i'
  | None, None => True
  | _, _ => False
  end.

Lemma info_perm_refl i : info_perm i i.
Proof. unfold info_perm. repeat split; reflexivity. Qed.

Lemma info_perm_sym i i' : info_perm i i' -> info_perm i' i.
Proof.
  unfold info_perm. intros (H1 & H2 & H3 & H4 & H5 & H6 & H7 & H8).
  repeat split; try (symmetry; assumption).
Qed.

Lemma term_perm_refl t : term_perm t t.
Proof. destruct t; cbn; [apply info_perm_refl|exact I]. Qed.

Lemma blocks_perm_refl is : Forall2 info_perm is is.
Proof. induction is; constructor; [apply info_perm_refl|assumption]. Qed.

(** ** (1) access subsequences are equal *)

Lemma rep_perm r node a keys keys' :
  Permutation keys keys' -> rep r keys node a = rep r keys' node a.
Proof.
  induction 1 as [|x l l' _ IH|x y l|l1 l2 l3 _ IH1 _ IH2].
  - reflexivity.
  - rewrite !rep_cons, IH. reflexivity.
  - rewrite !rep_cons. destruct (N.eqb r x), (N.eqb r y); reflexivity.
  - congruence.
Qed.

Lemma is_rf_perm i i' : info_perm i i' -> is_rf i = is_rf i'.
Proof. unfold is_rf. intros (-> & _). reflexivity. Qed.

Lemma macc_i_perm r node i i' : info_perm i i' -> macc_i r node i = macc_i r node i'.
Proof.
  intros (_ & _ & _ & Hr & Hw & Hc & _). unfold macc_i.
  rewrite (rep_perm r node AR _ _ Hr), (rep_perm r node AW _ _ Hw), (rep_perm r node AC _ _ Hc).
  reflexivity.
Qed.

Lemma facc_i_perm f node i i' : info_perm i i' -> facc_i f node i = facc_i f node i'.
Proof.
  intros Hp. unfold facc_i. rewrite (is_rf_perm _ _ Hp).
  destruct Hp as (_ & _ & _ & _ & _ & _ & Hu & Hb).
  rewrite (rep_perm f node AW _ _ Hu), (rep_perm f node AR _ _ Hb). reflexivity.
Qed.

Lemma tacc_i_perm f node i i' : info_perm i i' -> tacc_i f node i = tacc_i f node i'.
Proof.
  intros Hp. rewrite !tacc_i_facc, (facc_i_perm f node _ _ Hp).
  destruct Hp as (_ & _ & -> & _). reflexivity.
Qed.

(** ** small list facts *)

Lemma keyed_In k d ds : In (k, d) ds <-> In d (keyed k ds).
Proof.
  unfold keyed. rewrite in_map_iff. split.
  - intros Hin. exists (k, d). split; [reflexivity|]. apply filter_In. split; [exact Hin|].
    cbn [fst]. apply N.eqb_refl.
  - intros [[k' d'] [Heq Hin]]. cbn [snd] in Heq. subst d'. apply filter_In in Hin.
    destruct Hin as [Hin Hk]. cbn [fst] in Hk. apply N.eqb_eq in Hk. subst k'. exact Hin.
Qed.

Lemma keyed_same_In ds ds' :
  (forall r, keyed r ds = keyed r ds') -> forall x, In x ds <-> In x ds'.
Proof. intros H [k d]. rewrite !keyed_In, H. reflexivity. Qed.

Lemma same_In_nil {A} (l l' : list A) :
  (forall x, In x l <-> In x l') -> (l = [] <-> l' = []).
Proof.
  intros H. split; intros ->.
  - destruct l' as [|y t]; [reflexivity|]. exfalso. apply (proj2 (H y)). now left.
  - destruct l as [|y t]; [reflexivity|]. exfalso. apply (proj1 (H y)). now left.
Qed.

Lemma same_In_filter {A} (p : A -> bool) (l l' : list A) :
  (forall x, In x l <-> In x l') -> forall x, In x (filter p l) <-> In x (filter p l').
Proof. intros H x. rewrite !filter_In, H. reflexivity. Qed.

Lemma same_In_map {A B} (g : A -> B) (l l' : list A) :
  (forall x, In x l <-> In x l') -> forall y, In y (map g l) <-> In y (map g l').
Proof.
  intros H y. rewrite !in_map_iff. split; intros [x [Hx Hin]]; exists x; split; auto; now apply H.
Qed.

Lemma same_In_memN (l l' : list N) :
  (forall x, In x l <-> In x l') -> forall t, memN t l = memN t l'.
Proof.
  intros H t. destruct (memN t l) eqn:E1, (memN t l') eqn:E2; try reflexivity.
  - apply memN_In, H, memN_In in E1. congruence.
  - apply memN_In, H, memN_In in E2. congruence.
Qed.

(** ** (3) what one step does to the trailing set and when it adds the leading edge *)

Definition real_nodes (node : N) (ds : list (N * dep)) : list N :=
  map dep_node (filter (not_self node) ds).

Definition trail_after (s : st) (node : N) (ds : list (N * dep)) : list N :=
  filter (fun t => negb (memN t (real_nodes node ds))) (s_trail s).

Lemma step_shape s node e i s1 es :
  step s node e i = inr (s1, es) ->
  exists m' ds,
    mem_deps (s_mem s) node i = (m', ds) /\
    s_trail s1 = match i_role i with
                 | RClassical => trail_insert (trail_after s node ds) node
                 | _ => trail_after s node ds
                 end /\
    forall a b, In (a, b, LLead) es <->
                i_role i = RClassical /\ filter (not_self node) ds = [] /\ a = 0 /\ b = node.
Proof.
  unfold step. destruct (i_memerr i); [discriminate|].
  destruct (mem_deps (s_mem s) node i) as [m' ds] eqn:Hmd.
  assert (Hme : forall a b, ~ In (a, b, LLead) (mem_edges node ds)).
  { intros a b Hin. apply mem_edges_In in Hin. destruct Hin as [_ [r [k Hk]]]. discriminate. }
  assert (Hst : forall d a b, ~ In (a, b, LLead) (stable_edges node d)).
  { intros d a b Hin. apply stable_edges_In in Hin. destruct Hin as [_ [r [k Hk]]]. discriminate. }
  assert (Hsc : forall d a b, ~ In (a, b, LLead) (sched_edges node d)).
  { intros d a b Hin. apply sched_edges_In in Hin. destruct Hin as [_ [r [k Hk]]]. discriminate. }
  destruct (i_role i) eqn:Hrole.
  - intros H. inversion H; subst s1 es. clear H. exists m', ds. split; [reflexivity|].
    split; [reflexivity|]. intros a b. rewrite in_app_iff. split.
    + intros [Hin|Hin]; [exfalso; exact (Hme _ _ Hin)|].
      destruct (filter (not_self node) ds); [|contradiction]. destruct Hin as [Heq|[]].
      inversion Heq; subst. auto.
    + intros (_ & -> & -> & ->). right. now left.
  - destruct (feed finit (s_all s) node AW (i_used i)) as [a1 dau] eqn:Ha1.
    destruct (feed finit a1 node AR (i_blocked i)) as [a2 dab] eqn:Ha2.
    destruct (if i_sched i then feed finit (s_timed s) node AW (i_used i) else (s_timed s, []))
      as [t1 dtu] eqn:Ht1.
    destruct (if i_sched i then feed finit t1 node AR (i_blocked i) else (t1, [])) as [t2 dtb] eqn:Ht2.
    intros H. inversion H; subst s1 es. clear H. exists m', ds. split; [reflexivity|].
    split; [reflexivity|]. intros a b. split.
    + intros Hin. exfalso.
      repeat (apply in_app_or in Hin; destruct Hin as [Hin|Hin]);
        first [exact (Hme _ _ Hin) | exact (Hst _ _ _ Hin) | exact (Hsc _ _ _ Hin)].
    + intros (Hr & _). discriminate.
  - destruct e; [|discriminate]. intros H. inversion H; subst s1 es. clear H.
    exists m', ds. split; [reflexivity|]. split; [reflexivity|]. intros a b. split.
    + intros Hin. exfalso. exact (Hme _ _ Hin).
    + intros (Hr & _). discriminate.
  - discriminate.
Qed.

(** ** (4) the key sets of the two frame maps, exactly *)

Definition fkey (i : info) (f : N) : Prop :=
  is_rf i = true /\ (In f (i_used i) \/ In f (i_blocked i)).

Lemma step_keys_iff s node e i s1 es :
  step s node e i = inr (s1, es) ->
  (forall f, In f (qkeys (s_all s1)) <-> In f (qkeys (s_all s)) \/ fkey i f) /\
  (forall f, In f (qkeys (s_timed s1)) <-> In f (qkeys (s_timed s)) \/ (i_sched i = true /\ fkey i f)).
Proof.
  unfold step, fkey, is_rf. destruct (i_memerr i); [discriminate|].
  destruct (mem_deps (s_mem s) node i) as [m' ds] eqn:Hmd.
  destruct (i_role i) eqn:Hrole.
  - intros H; inversion H; subst; cbn [s_all s_timed]. split; intros f; intuition discriminate.
  - destruct (feed finit (s_all s) node AW (i_used i)) as [a1 dau] eqn:Ha1.
    destruct (feed finit a1 node AR (i_blocked i)) as [a2 dab] eqn:Ha2.
    assert (HA : forall f, In f (qkeys a2) <->
                           (In f (qkeys (s_all s)) \/ In f (i_used i)) \/ In f (i_blocked i)).
    { intros f. rewrite (feed_keys _ _ _ _ _ _ _ Ha2 f), (feed_keys _ _ _ _ _ _ _ Ha1 f). tauto. }
    destruct (i_sched i) eqn:Hs.
    + destruct (feed finit (s_timed s) node AW (i_used i)) as [t1 dtu] eqn:Ht1.
      destruct (feed finit t1 node AR (i_blocked i)) as [t2 dtb] eqn:Ht2.
      assert (HT : forall f, In f (qkeys t2) <->
                             (In f (qkeys (s_timed s)) \/ In f (i_used i)) \/ In f (i_blocked i)).
      { intros f. rewrite (feed_keys _ _ _ _ _ _ _ Ht2 f), (feed_keys _ _ _ _ _ _ _ Ht1 f). tauto. }
      intros H. inversion H; subst s1 es. cbn [s_all s_timed].
      split; intros f; [rewrite HA|rewrite HT]; tauto.
    + intros H. inversion H; subst s1 es. cbn [s_all s_timed].
      split; intros f; [rewrite HA; tauto|intuition discriminate].
  - destruct e; [|discriminate]. intros H; inversion H; subst; cbn [s_all s_timed].
    split; intros f; intuition discriminate.
  - discriminate.
Qed.

Lemma fkey_perm i i' f : info_perm i i' -> fkey i f -> fkey i' f.
Proof.
  intros Hp [Hrf Hin]. unfold fkey. rewrite <- (is_rf_perm _ _ Hp). split; [exact Hrf|].
  destruct Hp as (_ & _ & _ & _ & _ & _ & Hu & Hb).
  destruct Hin as [Hin|Hin]; [left|right]; eapply Permutation_in; eauto.
Qed.

(** ** errors depend on role / memory-access error / position only *)

Lemma step_err_perm s s' node e i i' x :
  info_perm i i' -> step s node e i = inl x -> step s' node e i' = inl x.
Proof.
  intros (Hr & Hm & Hs & _). unfold step. rewrite <- Hr, <- Hm, <- Hs.
  destruct (i_memerr i); [auto|].
  destruct (mem_deps (s_mem s) node i) as [m1 ds]. destruct (mem_deps (s_mem s') node i') as [m1' ds'].
  destruct (i_role i).
  - discriminate.
  - destruct (i_sched i).
    + destruct (feed finit (s_timed s) node AW (i_used i)) as [t1 dtu].
      destruct (feed finit (s_all s) node AW (i_used i)) as [a1 dau].
      destruct (feed finit t1 node AR (i_blocked i)) as [t2 dtb].
      destruct (feed finit a1 node AR (i_blocked i)) as [a2 dab]. discriminate.
    + destruct (feed finit (s_all s) node AW (i_used i)) as [a1 dau].
      destruct (feed finit a1 node AR (i_blocked i)) as [a2 dab]. discriminate.
  - destruct e; [discriminate|auto].
  - auto.
Qed.

(** ** (2) one step on equivalent states *)

Definition st_equiv (s s' : st) : Prop :=
  (forall r, qm_get minit (s_mem s) r = qm_get minit (s_mem s') r) /\
  (forall f, qm_get finit (s_all s) f = qm_get finit (s_all s') f) /\
  (forall f, qm_get finit (s_timed s) f = qm_get finit (s_timed s') f) /\
  (forall f, In f (qkeys (s_all s)) <-> In f (qkeys (s_all s'))) /\
  (forall f, In f (qkeys (s_timed s)) <-> In f (qkeys (s_timed s'))) /\
  s_trail s = s_trail s'.

Lemma st_equiv_refl s : st_equiv s s.
Proof. unfold st_equiv. repeat split; auto. Qed.

Lemma st_equiv_sym s s' : st_equiv s s' -> st_equiv s' s.
Proof.
  unfold st_equiv. intros (H1 & H2 & H3 & H4 & H5 & H6).
  repeat split; try (intros; symmetry; auto); try (apply H4; assumption); try (apply H5; assumption).
Qed.

Lemma step_perm s s' node e i i' s1 es s1' es' :
  st_equiv s s' -> info_perm i i' ->
  step s node e i = inr (s1, es) -> step s' node e i' = inr (s1', es') ->
  st_equiv s1 s1' /\ forall x, In x es <-> In x es'.
Proof.
  intros (EM & EA & ET & KA & KT & ETr) Hp Hst Hst'.
  destruct (step_proj _ _ _ _ _ _ Hst) as [M [A T]].
  destruct (step_proj _ _ _ _ _ _ Hst') as [M' [A' T']].
  destruct (step_keys_iff _ _ _ _ _ _ Hst) as [K1 K2].
  destruct (step_keys_iff _ _ _ _ _ _ Hst') as [K1' K2'].
  destruct (step_shape _ _ _ _ _ _ Hst) as (m1 & ds & Hmd & Htr & Hlead).
  destruct (step_shape _ _ _ _ _ _ Hst') as (m1' & ds' & Hmd' & Htr' & Hlead').
  assert (Hpm : forall r, pmem r es = pmem r es').
  { intros r. rewrite (proj2 (M r)), (proj2 (M' r)), EM, (macc_i_perm r node _ _ Hp). reflexivity. }
  assert (Hps : forall f, pstable f es = pstable f es').
  { intros f. rewrite (proj2 (A f)), (proj2 (A' f)), EA, (facc_i_perm f node _ _ Hp). reflexivity. }
  assert (Hpt : forall f, psched f es = psched f es').
  { intros f. rewrite (proj2 (T f)), (proj2 (T' f)), ET, (tacc_i_perm f node _ _ Hp). reflexivity. }
  (* the memory dependencies of the step, as a set *)
  assert (Hds : forall x, In x ds <-> In x ds').
  { apply keyed_same_In. intros r.
    rewrite (proj2 (mem_deps_proj r _ _ _ _ _ Hmd)), (proj2 (mem_deps_proj r _ _ _ _ _ Hmd')).
    rewrite EM, (macc_i_perm r node _ _ Hp). reflexivity. }
  pose proof (same_In_filter (not_self node) _ _ Hds) as Hreal.
  assert (Htrail : trail_after s node ds = trail_after s' node ds').
  { unfold trail_after. rewrite <- ETr. apply filter_ext. intros t. f_equal.
    apply same_In_memN. unfold real_nodes. now apply same_In_map. }
  assert (Hrole : i_role i = i_role i') by (destruct Hp as (H & _); exact H).
  assert (Hsch : i_sched i = i_sched i') by (destruct Hp as (_ & _ & H & _); exact H).
  split.
  - unfold st_equiv. repeat split.
    + intros r. rewrite (proj1 (M r)), (proj1 (M' r)), EM, (macc_i_perm r node _ _ Hp). reflexivity.
    + intros f. rewrite (proj1 (A f)), (proj1 (A' f)), EA, (facc_i_perm f node _ _ Hp). reflexivity.
    + intros f. rewrite (proj1 (T f)), (proj1 (T' f)), ET, (tacc_i_perm f node _ _ Hp). reflexivity.
    + rewrite K1, K1', KA. intros [H|H]; [auto|right; eapply fkey_perm; eauto].
    + rewrite K1, K1', KA. intros [H|H]; [auto|right; eapply fkey_perm; eauto using info_perm_sym].
    + rewrite K2, K2', KT, Hsch. intros [H|[H1 H2]]; [auto|right; split; [exact H1|eapply fkey_perm; eauto]].
    + rewrite K2, K2', KT, Hsch.
      intros [H|[H1 H2]]; [auto|right; split; [exact H1|eapply fkey_perm; eauto using info_perm_sym]].
    + rewrite Htr, Htr', <- Hrole, Htrail. reflexivity.
  - intros [[a b] l].
    pose proof (step_labels _ _ _ _ _ _ Hst a b l) as HL.
    pose proof (step_labels _ _ _ _ _ _ Hst' a b l) as HL'.
    destruct l as [r k|f k|f k| | |].
    + rewrite <- !pmem_In, Hpm. reflexivity.
    + rewrite <- !psched_In, Hpt. reflexivity.
    + rewrite <- !pstable_In, Hps. reflexivity.
    + rewrite Hlead, Hlead', <- Hrole, (same_In_nil _ _ Hreal). reflexivity.
    + split; intros Hin; [destruct (HL Hin) as [_ []]|destruct (HL' Hin) as [_ []]].
    + split; intros Hin; [destruct (HL Hin) as [_ []]|destruct (HL' Hin) as [_ []]].
Qed.

Definition outcome_rel {S} (R : S -> S -> Prop)
           (x y : (err * N) + (S * list ledge)) : Prop :=
  match x, y with
  | inl e, inl e' => e = e'
  | inr (s1, es), inr (s1', es') => R s1 s1' /\ forall x, In x es <-> In x es'
  | _, _ => False
  end.

Lemma step_perm_rel s s' node e i i' :
  st_equiv s s' -> info_perm i i' ->
  outcome_rel st_equiv (step s node e i) (step s' node e i').
Proof.
  intros Hs Hp. unfold outcome_rel.
  destruct (step s node e i) as [x|[s1 es]] eqn:H1; destruct (step s' node e i') as [y|[s1' es']] eqn:H2.
  - rewrite (step_err_perm _ s' _ _ _ _ _ Hp H1) in H2. congruence.
  - rewrite (step_err_perm _ s' _ _ _ _ _ Hp H1) in H2. discriminate.
  - rewrite (step_err_perm _ s _ _ _ _ _ (info_perm_sym _ _ Hp) H2) in H1. discriminate.
  - exact (step_perm _ _ _ _ _ _ _ _ _ _ Hs Hp H1 H2).
Qed.

(** ** the main loop *)

Lemma run_perm : forall is is', Forall2 info_perm is is' ->
  forall s s' node term term', st_equiv s s' -> term_perm term term' ->
  outcome_rel st_equiv (run s node is term) (run s' node is' term').
Proof.
  induction 1 as [|i i' t t' Hp _ IH]; intros s s' node term term' Hs Ht; cbn [run].
  - destruct term as [i|], term' as [i'|]; cbn in Ht; try contradiction.
    + now apply step_perm_rel.
    + cbn. split; [exact Hs|reflexivity].
  - pose proof (step_perm_rel s s' node false i i' Hs Hp) as Hstep. unfold outcome_rel in Hstep.
    destruct (step s node false i) as [x|[s1 es]]; destruct (step s' node false i') as [y|[s1' es']];
      try contradiction; [exact Hstep|].
    destruct Hstep as [Hs1 Hes].
    specialize (IH s1 s1' (N.succ node) term term' Hs1 Ht). unfold outcome_rel in IH |- *.
    destruct (run s1 (N.succ node) t term) as [x|[s2 es2]];
      destruct (run s1' (N.succ node) t' term') as [y|[s2' es2']]; try contradiction; [exact IH|].
    destruct IH as [Hs2 Hes2]. split; [exact Hs2|]. intros x. rewrite !in_app_iff, Hes, Hes2. reflexivity.
Qed.

(** ** the final linking loops *)

Lemma qmap_same_entries init m m' :
  NoDup (qkeys m) -> NoDup (qkeys m') ->
  (forall f, In f (qkeys m) <-> In f (qkeys m')) ->
  (forall f, qm_get init m f = qm_get init m' f) ->
  forall f q, In (f, q) m -> In (f, q) m'.
Proof.
  intros Hnd Hnd' Hk Hg f q Hin.
  assert (Hf : qm_find m f = Some q) by (now apply qm_in_find).
  assert (Hkey : In f (qkeys m')).
  { apply Hk. unfold qkeys. apply in_map_iff. exists (f, q). auto. }
  destruct (qm_key_find _ _ Hkey) as [q' Hf'].
  specialize (Hg f). unfold qm_get in Hg. rewrite Hf, Hf' in Hg. subst q'.
  now apply qm_find_in.
Qed.

Lemma pend_edges_perm init L e m m' :
  NoDup (qkeys m) -> NoDup (qkeys m') ->
  (forall f, In f (qkeys m) <-> In f (qkeys m')) ->
  (forall f, qm_get init m f = qm_get init m' f) ->
  forall x, In x (pend_edges L e m) <-> In x (pend_edges L e m').
Proof.
  intros Hnd Hnd' Hk Hg [[a b] l]. rewrite !pend_edges_In.
  split; intros [Hb [f [q [k [Hin H]]]]]; (split; [exact Hb|]); exists f, q, k; (split; [|exact H]).
  - eapply (qmap_same_entries init m m'); eauto.
  - eapply (qmap_same_entries init m' m); eauto; intros; symmetry; auto.
Qed.

(** ** the whole builder *)

Lemma blocks_perm_length is is' : Forall2 info_perm is is' -> length is = length is'.
Proof. induction 1; cbn [length]; congruence. Qed.

Theorem build_l_perm is is' term term' :
  Forall2 info_perm is is' -> term_perm term term' ->
  match build_l is term, build_l is' term' with
  | inl e, inl e' => e = e'
  | inr L, inr L' => forall x, In x L <-> In x L'
  | _, _ => False
  end.
Proof.
  intros His Ht. unfold build_l.
  pose proof (run_perm _ _ His st0 st0 1 term term' (st_equiv_refl st0) Ht) as Hrun.
  unfold outcome_rel in Hrun.
  destruct (run st0 1 is term) as [x|[s es]] eqn:R1; destruct (run st0 1 is' term') as [y|[s' es']] eqn:R2;
    try contradiction; [exact Hrun|].
  destruct Hrun as [(EM & EA & ET & KA & KT & ETr) Hes].
  destruct (run_frames _ _ _ _ _ _ R1) as [ND _]. destruct (ND (NoDup_nil _) (NoDup_nil _)) as [NDa NDt].
  destruct (run_frames _ _ _ _ _ _ R2) as [ND' _]. destruct (ND' (NoDup_nil _) (NoDup_nil _)) as [NDa' NDt'].
  assert (Hend : end_node is = end_node is').
  { unfold end_node. rewrite (blocks_perm_length _ _ His). reflexivity. }
  intros x. rewrite !in_app_iff, Hes, <- Hend. unfold final. rewrite !in_app_iff, ETr.
  rewrite (pend_edges_perm finit LSched (end_node is) _ _ NDt NDt' KT ET x).
  rewrite (pend_edges_perm finit LStable (end_node is) _ _ NDa NDa' KA EA x).
  destruct His; reflexivity.
Qed.

Theorem build_perm is is' term term' :
  Forall2 info_perm is is' -> term_perm term term' ->
  match build is term, build is' term' with
  | inl e, inl e' => e = e'
  | inr E, inr E' => forall x, In x E <-> In x E'
  | _, _ => False
  end.
Proof.
  intros His Ht. pose proof (build_l_perm _ _ _ _ His Ht) as H. unfold build.
  destruct (build_l is term) as [e|L]; destruct (build_l is' term') as [e'|L']; try contradiction;
    [exact H|].
  intros x. rewrite !in_map_iff. split; intros [y [Hy Hin]]; exists y; (split; [exact Hy|]); now apply H.
Qed.

(** the well-formedness premise of C22 / C24 is invariant as well *)

Lemma memN_perm x l l' : Permutation l l' -> memN x l = memN x l'.
Proof.
  intros Hp. apply same_In_memN. intros y. split; apply Permutation_in; [exact Hp|now symmetry].
Qed.

Lemma nodupb_NoDup l : nodupb l = true <-> NoDup l.
Proof.
  induction l as [|x t IH]; cbn [nodupb].
  - split; [constructor|reflexivity].
  - rewrite andb_true_iff, negb_true_iff, IH. split.
    + intros [Hm Hn]. constructor; [|exact Hn]. intros Hin. apply memN_In in Hin. congruence.
    + intros Hn. inversion Hn as [|? ? Hnin Hn']; subst. split; [|exact Hn'].
      destruct (memN x t) eqn:E; [|reflexivity]. apply memN_In in E. contradiction.
Qed.

Lemma wf_info_perm i i' : info_perm i i' -> wf_info i = true -> wf_info i' = true.
Proof.
  intros (Hr & _ & _ & _ & _ & _ & Hu & Hb). unfold wf_info. rewrite <- Hr.
  destruct (i_role i); auto. rewrite !nodupb_NoDup. apply Permutation_NoDup.
  now apply Permutation_app.
Qed.

Lemma wf_block_perm is is' term term' :
  Forall2 info_perm is is' -> term_perm term term' ->
  wf_block is term = true -> wf_block is' term' = true.
Proof.
  intros His Ht. unfold wf_block. rewrite !andb_true_iff. intros [H1 H2]. split.
  - clear Ht H2. induction His as [|i i' t t' Hp _ IH]; [reflexivity|]. cbn [forallb] in *.
    apply andb_prop in H1. destruct H1 as [Ha Hb]. rewrite (wf_info_perm _ _ Hp Ha). cbn. auto.
  - unfold wf_term in *. destruct term as [i|], term' as [i'|]; cbn in Ht; try contradiction; auto.
    destruct Ht as (<- & _). exact H2.
Qed.
