(** Proofs about Model/Frames.v (C26). *)
From Coq Require Import List NArith Bool Lia.
From QV Require Import Model.Frames.
Import ListNotations.

(** * Reflection of the boolean helpers *)

Lemma memN_In : forall n l, memN n l = true <-> In n l.
Proof.
  intros n l; induction l as [|x t IH]; cbn [memN In].
  - split; [discriminate | tauto].
  - destruct (N.eqb_spec n x) as [E|E].
    + subst; split; auto.
    + rewrite IH. split; [auto | intros [H|H]; [congruence | exact H]].
Qed.

Lemma listN_eqb_eq : forall a b, listN_eqb a b = true <-> a = b.
Proof.
  induction a as [|x a IH]; destruct b as [|y b]; cbn [listN_eqb]; try (split; [discriminate|discriminate]).
  - tauto.
  - rewrite andb_true_iff, IH, N.eqb_eq. split; [intros [-> ->]; reflexivity | intros H; inversion H; auto].
Qed.

Lemma frame_eqb_eq : forall f g, frame_eqb f g = true <-> f = g.
Proof.
  intros [qa na] [qb nb]; unfold frame_eqb, fq, fnm; cbn [fst snd].
  rewrite andb_true_iff, listN_eqb_eq, N.eqb_eq.
  split; [intros [-> ->]; reflexivity | intros H; inversion H; auto].
Qed.

Lemma frame_eqb_refl : forall f, frame_eqb f f = true.
Proof. intros f; apply frame_eqb_eq; reflexivity. Qed.

Lemma frame_eqb_sym : forall f g, frame_eqb f g = frame_eqb g f.
Proof.
  intros f g. destruct (frame_eqb f g) eqn:E1, (frame_eqb g f) eqn:E2; auto.
  - apply frame_eqb_eq in E1; subst. rewrite frame_eqb_refl in E2; discriminate.
  - apply frame_eqb_eq in E2; subst. rewrite frame_eqb_refl in E1; discriminate.
Qed.

Lemma memF_In : forall f l, memF f l = true <-> In f l.
Proof.
  intros f l; induction l as [|g t IH]; cbn [memF In].
  - split; [discriminate | tauto].
  - destruct (frame_eqb f g) eqn:E.
    + apply frame_eqb_eq in E; subst; split; auto.
    + rewrite IH. split; [auto | intros [H|H]; [|exact H]].
      subst. rewrite frame_eqb_refl in E; discriminate.
Qed.

Lemma memF_false : forall f l, memF f l = false <-> ~ In f l.
Proof.
  intros f l. rewrite <- memF_In. destruct (memF f l); split; intros H.
  - discriminate.
  - exfalso; apply H; reflexivity.
  - discriminate.
  - reflexivity.
Qed.

Lemma subsetN_spec : forall a b, subsetN a b = true <-> (forall x, In x a -> In x b).
Proof.
  intros a b; unfold subsetN. rewrite forallb_forall.
  split; intros H x Hx; [apply memN_In | apply memN_In]; auto.
Qed.

(** [same_qubits]: the frame's qubit *set* equals the given qubit set *)
Lemma same_qubits_spec : forall a b, same_qubits a b = true <-> (forall x, In x a <-> In x b).
Proof.
  intros a b; unfold same_qubits. rewrite andb_true_iff, !subsetN_spec.
  split; [intros [H1 H2] x; split; auto | intros H; split; intros x; apply H].
Qed.

(** [shares_qubit]: the two qubit lists intersect *)
Lemma shares_qubit_spec : forall a b, shares_qubit a b = true <-> (exists q, In q a /\ In q b).
Proof.
  intros a b; unfold shares_qubit. rewrite existsb_exists.
  split; intros [q [H1 H2]]; exists q; split; auto; apply memN_In; auto.
Qed.

Lemma shares_qubit_single : forall l q, shares_qubit l [q] = memN q l.
Proof.
  intros l q. destruct (memN q l) eqn:E.
  - apply shares_qubit_spec. exists q; split; [apply memN_In; exact E | left; reflexivity].
  - destruct (shares_qubit l [q]) eqn:E2; auto.
    apply shares_qubit_spec in E2. destruct E2 as [x [H1 [H2|[]]]]. subst x.
    apply memN_In in H1. congruence.
Qed.

Lemma subsetF_spec : forall a b, subsetF a b = true <-> (forall f, In f a -> In f b).
Proof.
  intros a b; unfold subsetF. rewrite forallb_forall.
  split; intros H f Hf; apply memF_In; auto.
Qed.

Lemma In_dedupF : forall f l, In f (dedupF l) <-> In f l.
Proof.
  intros f l; induction l as [|g t IH]; cbn [dedupF]; [tauto|].
  destruct (memF g t) eqn:E.
  - rewrite IH. cbn [In]. split; auto. intros [->|H]; auto. apply memF_In; exact E.
  - cbn [In]. rewrite IH. tauto.
Qed.

(** * A usable induction principle for the nested type [cond] *)
Section CondInd.
  Variable P : cond -> Prop.
  Hypothesis HAll : P CAll.
  Hypothesis HNames : forall ns, P (CAnyOfNames ns).
  Hypothesis HAny : forall qs, P (CAnyOfQubits qs).
  Hypothesis HExact : forall qs, P (CExactQubits qs).
  Hypothesis HSpec : forall f, P (CSpecific f).
  Hypothesis HAnd : forall cs, Forall P cs -> P (CAnd cs).
  Hypothesis HOr : forall cs, Forall P cs -> P (COr cs).

  Fixpoint cond_ind' (c : cond) : P c :=
    match c with
    | CAll => HAll
    | CAnyOfNames ns => HNames ns
    | CAnyOfQubits qs => HAny qs
    | CExactQubits qs => HExact qs
    | CSpecific f => HSpec f
    | CAnd cs =>
        HAnd cs ((fix go (l : list cond) : Forall P l :=
                    match l with
                    | [] => Forall_nil P
                    | x :: t => Forall_cons x (cond_ind' x) (go t)
                    end) cs)
    | COr cs =>
        HOr cs ((fix go (l : list cond) : Forall P l :=
                   match l with
                   | [] => Forall_nil P
                   | x :: t => Forall_cons x (cond_ind' x) (go t)
                   end) cs)
    end.
End CondInd.

(** * What [matching] computes: exactly the defined frames satisfying the condition *)

Lemma In_inter : forall f acc el, In f (inter acc el) <-> In f acc /\ In f el.
Proof. intros f acc el; unfold inter. rewrite filter_In, memF_In. tauto. Qed.

Lemma In_fold_inter : forall f els acc,
    In f (fold_left inter els acc) <-> In f acc /\ (forall el, In el els -> In f el).
Proof.
  intros f els; induction els as [|e t IH]; intros acc; cbn [fold_left].
  - split; [intros H; split; [exact H | intros el []] | tauto].
  - rewrite IH, In_inter. split.
    + intros [[Ha He] Ht]. split; [exact Ha|]. intros el [<-|Hel]; auto.
    + intros [Ha H]. split; [split; [exact Ha | apply H; left; reflexivity]|].
      intros el Hel; apply H; right; exact Hel.
Qed.

Theorem matching_sat : forall keys c f,
    In f (matching keys c) <-> In f keys /\ sat c f = true.
Proof.
  intros keys c; induction c as [ | ns | qs | qs | g | cs IH | cs IH ] using cond_ind'; intros f;
    cbn [matching sat].
  - tauto.
  - apply filter_In.
  - apply filter_In.
  - apply filter_In.
  - apply filter_In.
  - destruct cs as [|c0 rest]; cbn [is_nil negb andb].
    + cbn [In]. split; [tauto | intros [_ H]; discriminate].
    + inversion IH as [|c0' rest' H0 Hrest]; subst.
      rewrite In_fold_inter, H0. cbn [forallb]. rewrite andb_true_iff, forallb_forall.
      rewrite Forall_forall in Hrest.
      split.
      * intros [[Hk Hs] Hall]. split; [exact Hk|]. split; [exact Hs|].
        intros c' Hc'. apply (Hrest c' Hc' f). apply Hall. apply in_map; exact Hc'.
      * intros [Hk [Hs Hall]]. split; [tauto|].
        intros el Hel. apply in_map_iff in Hel. destruct Hel as [c' [<- Hc']].
        apply (Hrest c' Hc' f). split; [exact Hk | apply Hall; exact Hc'].
  - rewrite In_dedupF, in_flat_map, existsb_exists. rewrite Forall_forall in IH.
    split.
    + intros [c' [Hc' Hin]]. apply (IH c' Hc' f) in Hin. destruct Hin as [Hk Hs].
      split; [exact Hk | exists c'; tauto].
    + intros [Hk [c' [Hc' Hs]]]. exists c'. split; [exact Hc'|]. apply (IH c' Hc' f). tauto.
Qed.

Corollary matching_subset : forall keys c f, In f (matching keys c) -> In f keys.
Proof. intros keys c f H; apply matching_sat in H; tauto. Qed.

(** * [FrameSet::filter] *)

Lemma filter_frames_spec : forall keys cu cb u b,
    filter_frames keys (cu, cb) = (u, b) ->
    forall f,
      (In f u <-> In f keys /\ osat cu f = true) /\
      (In f b <-> In f keys /\ (osat cb f && negb (osat cu f)) = true).
Proof.
  intros keys cu cb u b H f. unfold filter_frames in H. inversion H as [[Hu Hb]]; clear H.
  assert (HU : In f (match cu with Some c => matching keys c | None => [] end)
               <-> In f keys /\ osat cu f = true).
  { destruct cu as [c|]; cbn [osat]; [apply matching_sat|].
    cbn [In]. split; [tauto | intros [_ H]; discriminate]. }
  split; [exact HU|].
  set (used := match cu with Some c => matching keys c | None => [] end) in *.
  destruct cb as [c|]; cbn [osat andb].
  - assert (HB : In f (if is_nil used then matching keys c
                       else filter (fun f0 => negb (memF f0 used)) (matching keys c))
                 <-> In f (matching keys c) /\ ~ In f used).
    { destruct used as [|x t] eqn:Eu; cbn [is_nil].
      - cbn [In]. tauto.
      - rewrite filter_In, negb_true_iff, memF_false. tauto. }
    rewrite HB, matching_sat, HU, andb_true_iff, negb_true_iff.
    destruct (osat cu f); split; intros K.
    + exfalso. destruct K as [[Hk _] K]. apply K. split; auto.
    + destruct K as [_ [_ K]]; discriminate.
    + tauto.
    + split; [tauto|]. intros [_ K']; discriminate.
  - cbn [In]. split; [tauto | intros [_ K]; discriminate].
Qed.

(** * The default conditions against the property's own wording *)

Lemma default_used_spec : forall avail i cu cb f,
    default_conds avail i = Some (cu, cb) -> osat cu f = spec_used avail i f.
Proof.
  intros avail i cu cb f H.
  destruct i as [k bl g | qs names | qs | [q|] | k g | g1 g2 | ]; cbn [default_conds] in H;
    inversion H; subst; clear H; cbn [osat spec_used sat].
  - reflexivity.
  - destruct names as [|n t]; cbn [is_nil sat negb andb orb forallb].
    + rewrite andb_true_r; reflexivity.
    + rewrite andb_true_r; reflexivity.
  - destruct qs; reflexivity.
  - reflexivity.
  - reflexivity.
  - reflexivity.
  - cbn [existsb]. rewrite orb_false_r; reflexivity.
Qed.

Lemma default_blocked_spec : forall avail i cu cb f,
    default_conds avail i = Some (cu, cb) ->
    osat cb f && negb (osat cu f) = spec_blocked avail i f.
Proof.
  intros avail i cu cb f H.
  destruct i as [k bl g | qs names | qs | [q|] | k g | g1 g2 | ]; cbn [default_conds] in H;
    inversion H; subst; clear H; cbn [osat spec_blocked sat andb].
  - destruct bl; cbn [osat sat andb]; [|reflexivity].
    apply andb_comm.
  - reflexivity.
  - reflexivity.
  - rewrite shares_qubit_single; reflexivity.
  - reflexivity.
  - reflexivity.
  - reflexivity.
Qed.

Lemma default_conds_some : forall avail i,
    default_conds avail i = None <-> i = FOther.
Proof.
  intros avail i; destruct i; cbn [default_conds]; split; intros H; try discriminate; reflexivity.
Qed.

(** * Main theorem: the reported sets are exactly the set-builder sets of the property *)

Theorem matching_frames_spec : forall keys avail i u b,
    matching_frames keys avail i = Some (u, b) ->
    forall f,
      (In f u <-> In f keys /\ spec_used avail i f = true) /\
      (In f b <-> In f keys /\ spec_blocked avail i f = true).
Proof.
  intros keys avail i u b H f. unfold matching_frames in H.
  destruct (default_conds avail i) as [[cu cb]|] eqn:E; cbn [option_map] in H; [|discriminate].
  assert (H' : filter_frames keys (cu, cb) = (u, b)) by congruence.
  destruct (filter_frames_spec keys cu cb u b H' f) as [HU HB].
  rewrite (default_used_spec avail i cu cb f E) in HU.
  rewrite (default_blocked_spec avail i cu cb f E) in HB.
  split; assumption.
Qed.

Theorem matching_frames_none : forall keys avail i,
    matching_frames keys avail i = None <-> i = FOther.
Proof.
  intros keys avail i. unfold matching_frames.
  destruct (default_conds avail i) eqn:E; cbn [option_map].
  - split; [discriminate|]. intros ->. cbn in E. discriminate.
  - apply default_conds_some in E. tauto.
Qed.

Lemma spec_disjoint : forall avail i f,
    spec_used avail i f = true -> spec_blocked avail i f = true -> False.
Proof.
  intros avail i f; destruct i as [k bl g | qs names | qs | [q|] | k g | g1 g2 | ];
    cbn [spec_used spec_blocked]; intros HU HB; try discriminate.
  - rewrite HU in HB. rewrite andb_false_r in HB. discriminate.
  - rewrite HU in HB. rewrite andb_false_r in HB. discriminate.
  - rewrite HU in HB. rewrite andb_false_r in HB. discriminate.
Qed.

Theorem matching_frames_disjoint : forall keys avail i u b,
    matching_frames keys avail i = Some (u, b) ->
    forall f, In f u -> In f b -> False.
Proof.
  intros keys avail i u b H f Hu Hb.
  destruct (matching_frames_spec keys avail i u b H f) as [HU HB].
  apply HU in Hu. apply HB in Hb. eapply spec_disjoint; [apply Hu | apply Hb].
Qed.

Theorem matching_frames_defined : forall keys avail i u b,
    matching_frames keys avail i = Some (u, b) ->
    forall f, In f u \/ In f b -> In f keys.
Proof.
  intros keys avail i u b H f [Hf|Hf];
    destruct (matching_frames_spec keys avail i u b H f) as [HU HB];
    [apply HU in Hf | apply HB in Hf]; tauto.
Qed.

(** * Per-kind readings in Prop form *)

Definition touches (f g : frame) : Prop := exists q, In q (fq f) /\ In q (fq g).
Definition on_exactly (f : frame) (qs : list N) : Prop := forall x, In x (fq f) <-> In x qs.
Definition on_some_of (f : frame) (qs : list N) : Prop := exists q, In q (fq f) /\ In q qs.

Theorem play_spec : forall keys avail k blocking g u b,
    matching_frames keys avail (FPlay k blocking g) = Some (u, b) ->
    forall f,
      (In f u <-> In f keys /\ f = g) /\
      (In f b <-> blocking = true /\ In f keys /\ f <> g /\ touches f g).
Proof.
  intros keys avail k bl g u b H f.
  destruct (matching_frames_spec _ _ _ _ _ H f) as [HU HB]. cbn [spec_used spec_blocked] in HU, HB.
  split.
  - rewrite HU, frame_eqb_eq. split; intros [A B]; split; auto.
  - rewrite HB, !andb_true_iff, negb_true_iff, shares_qubit_spec. unfold touches.
    split.
    + intros [Hk [[Hb Hne] Hs]]. repeat split; auto.
      intros ->. rewrite frame_eqb_refl in Hne; discriminate.
    + intros [Hb [Hk [Hne Hs]]]. repeat split; auto.
      destruct (frame_eqb g f) eqn:E; auto. apply frame_eqb_eq in E. congruence.
Qed.

Theorem update_spec : forall keys avail k g u b,
    matching_frames keys avail (FUpdate k g) = Some (u, b) ->
    forall f, (In f u <-> In f keys /\ f = g) /\ ~ In f b.
Proof.
  intros keys avail k g u b H f.
  destruct (matching_frames_spec _ _ _ _ _ H f) as [HU HB]. cbn [spec_used spec_blocked] in HU, HB.
  split.
  - rewrite HU, frame_eqb_eq. split; intros [A B]; split; auto.
  - rewrite HB. intros [_ K]; discriminate.
Qed.

Theorem swap_phases_spec : forall keys avail g1 g2 u b,
    matching_frames keys avail (FSwapPhases g1 g2) = Some (u, b) ->
    forall f, (In f u <-> In f keys /\ (f = g1 \/ f = g2)) /\ ~ In f b.
Proof.
  intros keys avail g1 g2 u b H f.
  destruct (matching_frames_spec _ _ _ _ _ H f) as [HU HB]. cbn [spec_used spec_blocked] in HU, HB.
  split.
  - rewrite HU, orb_true_iff, !frame_eqb_eq. split; intros [A [B|B]]; split; auto.
  - rewrite HB. intros [_ K]; discriminate.
Qed.

Theorem fence_all_spec : forall keys avail u b,
    matching_frames keys avail (FFence []) = Some (u, b) ->
    forall f, (In f u <-> In f keys) /\ ~ In f b.
Proof.
  intros keys avail u b H f.
  destruct (matching_frames_spec _ _ _ _ _ H f) as [HU HB].
  cbn [spec_used spec_blocked is_nil] in HU, HB.
  split; [rewrite HU; tauto | rewrite HB; intros [_ K]; discriminate].
Qed.

Theorem fence_qubits_spec : forall keys avail qs u b,
    qs <> [] ->
    matching_frames keys avail (FFence qs) = Some (u, b) ->
    forall f, (In f u <-> In f keys /\ on_some_of f qs) /\ ~ In f b.
Proof.
  intros keys avail qs u b Hne H f.
  destruct (matching_frames_spec _ _ _ _ _ H f) as [HU HB].
  cbn [spec_used spec_blocked] in HU, HB.
  destruct qs as [|q t]; [congruence|]. cbn [is_nil] in HU.
  split; [rewrite HU, shares_qubit_spec; reflexivity | rewrite HB; intros [_ K]; discriminate].
Qed.

Theorem delay_spec : forall keys avail qs names u b,
    matching_frames keys avail (FDelay qs names) = Some (u, b) ->
    forall f,
      (In f u <-> In f keys /\ on_exactly f qs /\ (names = [] \/ In (fnm f) names)) /\ ~ In f b.
Proof.
  intros keys avail qs names u b H f.
  destruct (matching_frames_spec _ _ _ _ _ H f) as [HU HB].
  cbn [spec_used spec_blocked] in HU, HB.
  split; [| rewrite HB; intros [_ K]; discriminate].
  rewrite HU, andb_true_iff, orb_true_iff, same_qubits_spec, memN_In. unfold on_exactly.
  destruct names as [|n t]; cbn [is_nil].
  - split; [intros [A [B _]]; auto | intros [A [B _]]; auto].
  - split; intros [A [B [C|C]]]; try discriminate; auto.
Qed.

Theorem reset_qubit_spec : forall keys avail q u b,
    matching_frames keys avail (FReset (Some q)) = Some (u, b) ->
    forall f,
      (In f u <-> In f keys /\ on_exactly f [q]) /\
      (In f b <-> In f keys /\ In q (fq f) /\ ~ on_exactly f [q]).
Proof.
  intros keys avail q u b H f.
  destruct (matching_frames_spec _ _ _ _ _ H f) as [HU HB].
  cbn [spec_used spec_blocked] in HU, HB. unfold on_exactly.
  split.
  - rewrite HU, same_qubits_spec; reflexivity.
  - rewrite HB, andb_true_iff, negb_true_iff, memN_In.
    rewrite <- same_qubits_spec. destruct (same_qubits (fq f) [q]); split; intros K.
    + destruct K as [_ [_ K]]; discriminate.
    + exfalso; tauto.
    + split; [tauto|]. split; [tauto|]. discriminate.
    + tauto.
Qed.

Theorem reset_all_spec : forall keys avail u b,
    matching_frames keys avail (FReset None) = Some (u, b) ->
    forall f,
      (In f u <-> In f keys /\ on_exactly f avail) /\
      (In f b <-> In f keys /\ on_some_of f avail /\ ~ on_exactly f avail).
Proof.
  intros keys avail u b H f.
  destruct (matching_frames_spec _ _ _ _ _ H f) as [HU HB].
  cbn [spec_used spec_blocked] in HU, HB. unfold on_exactly, on_some_of.
  split.
  - rewrite HU, same_qubits_spec; reflexivity.
  - rewrite HB, andb_true_iff, negb_true_iff, shares_qubit_spec.
    rewrite <- same_qubits_spec. destruct (same_qubits (fq f) avail); split; intros K.
    + destruct K as [_ [_ K]]; discriminate.
    + exfalso; tauto.
    + split; [tauto|]. split; [tauto|]. discriminate.
    + tauto.
Qed.

(** * The instance checker *)

Definition FramesOK (keys : list frame) (avail : list N) (i : finstr)
           (obs : option (list frame * list frame)) : Prop :=
  match obs with
  | None => i = FOther
  | Some (u, b) =>
      i <> FOther /\
      (forall f, In f u -> In f b -> False) /\
      (forall f, In f u <-> In f keys /\ spec_used avail i f = true) /\
      (forall f, In f b <-> In f keys /\ spec_blocked avail i f = true)
  end.

Theorem chk_frames_sound : forall keys avail i obs,
    chk_frames keys avail i obs = true -> FramesOK keys avail i obs.
Proof.
  intros keys avail i [[u b]|] H; unfold chk_frames in H; cbn [FramesOK].
  - rewrite !andb_true_iff in H. destruct H as [[[[Hrel Hu] Hb] Hdis] Hall].
    rewrite subsetF_spec in Hu, Hb. rewrite forallb_forall in Hdis, Hall.
    split; [intros ->; discriminate|].
    split.
    { intros f Hfu Hfb. specialize (Hdis f Hfu). apply negb_true_iff in Hdis.
      apply memF_false in Hdis. auto. }
    split; intros f.
    + split.
      * intros Hf. split; [auto|]. specialize (Hall f (Hu f Hf)).
        apply andb_true_iff in Hall. destruct Hall as [Hall _]. apply eqb_prop in Hall.
        rewrite <- Hall. apply memF_In; exact Hf.
      * intros [Hk Hs]. specialize (Hall f Hk).
        apply andb_true_iff in Hall. destruct Hall as [Hall _]. apply eqb_prop in Hall.
        apply memF_In. congruence.
    + split.
      * intros Hf. split; [auto|]. specialize (Hall f (Hb f Hf)).
        apply andb_true_iff in Hall. destruct Hall as [_ Hall]. apply eqb_prop in Hall.
        rewrite <- Hall. apply memF_In; exact Hf.
      * intros [Hk Hs]. specialize (Hall f Hk).
        apply andb_true_iff in Hall. destruct Hall as [_ Hall]. apply eqb_prop in Hall.
        apply memF_In. congruence.
  - apply negb_true_iff in H. destruct i; try discriminate; reflexivity.
Qed.

(** The model's own output satisfies the same predicate, so an accepted implementation result
    and the model's result are equal as sets. *)
Theorem model_FramesOK : forall keys avail i, FramesOK keys avail i (matching_frames keys avail i).
Proof.
  intros keys avail i. destruct (matching_frames keys avail i) as [[u b]|] eqn:E; cbn [FramesOK].
  - split; [intros ->; cbn in E; discriminate|].
    split; [exact (matching_frames_disjoint _ _ _ _ _ E)|].
    split; intros f; apply (matching_frames_spec _ _ _ _ _ E f).
  - apply matching_frames_none in E; exact E.
Qed.

Theorem FramesOK_unique : forall keys avail i u b u' b',
    FramesOK keys avail i (Some (u, b)) -> FramesOK keys avail i (Some (u', b')) ->
    forall f, (In f u <-> In f u') /\ (In f b <-> In f b').
Proof.
  intros keys avail i u b u' b' [_ [_ [HU HB]]] [_ [_ [HU' HB']]] f.
  rewrite HU, HU', HB, HB'. tauto.
Qed.

Theorem accepted_equals_model : forall keys avail i u b u' b',
    chk_frames keys avail i (Some (u, b)) = true ->
    matching_frames keys avail i = Some (u', b') ->
    forall f, (In f u <-> In f u') /\ (In f b <-> In f b').
Proof.
  intros keys avail i u b u' b' H E.
  apply (FramesOK_unique keys avail i u b u' b' (chk_frames_sound _ _ _ _ H)).
  rewrite <- E. apply model_FramesOK.
Qed.
