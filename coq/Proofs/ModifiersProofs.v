(** Proofs about gate modifiers and program unitaries (Model/Modifiers.v). *)
From Coq Require Import List NArith Bool Lia Ring ZArith.
From QV Require Import Model.Unitary Model.Modifiers Proofs.UnitaryProofs.
Import ListNotations.
Open Scope N_scope.

Lemma existsb_rev {T} (f : T -> bool) l : existsb f (rev l) = existsb f l.
Proof.
  induction l as [|x t IH]; [reflexivity|]. cbn [rev]. rewrite existsb_app, IH. cbn.
  rewrite orb_false_r. apply orb_comm.
Qed.

Section Laws.
  Variable C : Type.
  Variables (c0 c1 : C) (cadd cmul csub : C -> C -> C) (copp : C -> C) (cconj : C -> C).
  Hypothesis Cring : ring_theory c0 c1 cadd cmul csub copp (@eq C).
  Hypothesis conj_0 : cconj c0 = c0.
  Hypothesis conj_1 : cconj c1 = c1.
  Hypothesis conj_add : forall a b, cconj (cadd a b) = cadd (cconj a) (cconj b).
  Hypothesis conj_mul : forall a b, cconj (cmul a b) = cmul (cconj a) (cconj b).
  Hypothesis conj_invol : forall a, cconj (cconj a) = a.

  Add Ring CR : Cring.

  Notation mat := (mat C).
  Notation dagger := (dagger C cconj).
  Notation controlled := (controlled C c0 c1 cadd cmul).
  Notation forked := (forked C c0 c1 cadd cmul).
  Notation pzero := (pzero C c0 c1).
  Notation pone := (pone C c0 c1).
  Notation eye := (eye C c0 c1).
  Notation kron2 := (kron2 C cmul).

  (** ** Extensional equality of matrices and results *)
  Definition meq (a b : mat) : Prop := mq C a = mq C b /\ forall r c, ment C a r c = ment C b r c.
  Definition req (x y : result mat) : Prop :=
    match x, y with
    | Ok a, Ok b => meq a b
    | Err e, Err f => e = f
    | _, _ => False
    end.

  Lemma meq_refl a : meq a a. Proof. split; reflexivity. Qed.
  Lemma meq_sym a b : meq a b -> meq b a.
  Proof. intros [H1 H2]. split; [now symmetry | intros r c; now rewrite H2]. Qed.
  Lemma meq_trans a b c : meq a b -> meq b c -> meq a c.
  Proof. intros [H1 H2] [H3 H4]. split; [congruence | intros r k; now rewrite H2, H4]. Qed.

  Lemma req_refl x : req x x. Proof. destruct x; cbn; [apply meq_refl | reflexivity]. Qed.
  Lemma req_sym x y : req x y -> req y x.
  Proof. destruct x, y; cbn; auto using meq_sym. Qed.
  Lemma req_trans x y z : req x y -> req y z -> req x z.
  Proof. destruct x, y, z; cbn; try tauto; [apply meq_trans | congruence]. Qed.

  Lemma mdim_eq a b : meq a b -> mdim C a = mdim C b.
  Proof. intros [H _]. unfold mdim. now rewrite H. Qed.

  Lemma dagger_cong a b : meq a b -> meq (dagger a) (dagger b).
  Proof. intros [H1 H2]. split; [exact H1 | intros r c; cbn; now rewrite H2]. Qed.
  Lemma controlled_cong a b : meq a b -> meq (controlled a) (controlled b).
  Proof.
    intros H. pose proof (mdim_eq _ _ H) as Hd. destruct H as [H1 H2].
    split; cbn; [now rewrite H1|]. intros r c. unfold Modifiers.kron2. now rewrite Hd, H2.
  Qed.
  Lemma forked_cong a a' b b' : meq a a' -> meq b b' -> meq (forked a b) (forked a' b').
  Proof.
    intros Ha Hb. pose proof (mdim_eq _ _ Ha) as Hd. destruct Ha as [H1 H2], Hb as [H3 H4].
    split; cbn; [now rewrite H1|]. intros r c. unfold Modifiers.kron2. now rewrite Hd, H2, H4.
  Qed.

  Lemma rmap_dagger_cong x y : req x y -> req (rmap C dagger x) (rmap C dagger y).
  Proof. destruct x, y; cbn; auto using dagger_cong. Qed.
  Lemma rmap_controlled_cong x y : req x y -> req (rmap C controlled x) (rmap C controlled y).
  Proof. destruct x, y; cbn; auto using controlled_cong. Qed.
  Lemma rfork_cong x x' y y' :
    req x x' -> req y y' -> req (rfork C c0 c1 cadd cmul x y) (rfork C c0 c1 cadd cmul x' y').
  Proof.
    destruct x, x'; cbn; try tauto; intros Hx; destruct y, y'; cbn; try tauto; intros Hy;
      auto using forked_cong.
  Qed.

  (** ** DAGGER commutes with CONTROLLED and FORKED, and is an involution *)
  Lemma conj_pzero a b : cconj (pzero a b) = pzero b a.
  Proof.
    unfold Modifiers.pzero. rewrite (andb_comm (b =? 0)). destruct ((a =? 0) && (b =? 0)); auto.
  Qed.
  Lemma conj_pone a b : cconj (pone a b) = pone b a.
  Proof.
    unfold Modifiers.pone. rewrite (andb_comm (b =? 1)). destruct ((a =? 1) && (b =? 1)); auto.
  Qed.
  Lemma conj_eye a b : cconj (eye a b) = eye b a.
  Proof. unfold Modifiers.eye. rewrite (N.eqb_sym b a). destruct (a =? b); auto. Qed.

  Lemma controlled_dagger m : meq (controlled (dagger m)) (dagger (controlled m)).
  Proof.
    split; [reflexivity|]. intros r c. cbn. unfold Modifiers.kron2, mdim. cbn.
    rewrite conj_add, !conj_mul, conj_pzero, conj_pone, conj_eye. reflexivity.
  Qed.

  Lemma forked_dagger m0 m1 : meq (forked (dagger m0) (dagger m1)) (dagger (forked m0 m1)).
  Proof.
    split; [reflexivity|]. intros r c. cbn. unfold Modifiers.kron2, mdim. cbn.
    rewrite conj_add, !conj_mul, conj_pzero, conj_pone. reflexivity.
  Qed.

  Lemma dagger_dagger m : meq (dagger (dagger m)) m.
  Proof. split; [reflexivity|]. intros r c. cbn. apply conj_invol. Qed.

  Lemma rmap_controlled_dagger x :
    req (rmap C controlled (rmap C dagger x)) (rmap C dagger (rmap C controlled x)).
  Proof. destruct x; cbn; [apply controlled_dagger | reflexivity]. Qed.
  Lemma rfork_dagger x y :
    req (rfork C c0 c1 cadd cmul (rmap C dagger x) (rmap C dagger y))
        (rmap C dagger (rfork C c0 c1 cadd cmul x y)).
  Proof. destruct x, y; cbn; try reflexivity. apply forked_dagger. Qed.

  (** ** Block form of CONTROLLED and FORKED: the new leading qubit selects the block *)
  Lemma div_mod_low r d : r < d -> r / d = 0 /\ r mod d = r.
  Proof. intros H. split; [now apply N.div_small | now apply N.mod_small]. Qed.
  Lemma div_mod_high r d : d <= r < 2 * d -> r / d = 1 /\ r mod d = r - d.
  Proof.
    intros H. assert (Hd : d <> 0) by lia.
    assert (E : r = d * 1 + (r - d)) by lia.
    split.
    - symmetry. apply (N.div_unique r d 1 (r - d)); lia.
    - symmetry. apply (N.mod_unique r d 1 (r - d)); lia.
  Qed.

  Lemma forked_blocks m0 m1 r c :
    let d := mdim C m0 in
    r < 2 * d -> c < 2 * d ->
    ment C (forked m0 m1) r c
    = if (r <? d) && (c <? d) then ment C m0 r c
      else if (d <=? r) && (d <=? c) then ment C m1 (r - d) (c - d)
      else c0.
  Proof.
    intros d Hr Hc. cbn. unfold Modifiers.kron2. fold d.
    destruct (r <? d) eqn:Er; destruct (c <? d) eqn:Ec; cbn [andb];
      [apply N.ltb_lt in Er; apply N.ltb_lt in Ec
      |apply N.ltb_lt in Er; apply N.ltb_ge in Ec
      |apply N.ltb_ge in Er; apply N.ltb_lt in Ec
      |apply N.ltb_ge in Er; apply N.ltb_ge in Ec].
    - destruct (div_mod_low r d Er) as [-> ->], (div_mod_low c d Ec) as [-> ->].
      unfold Modifiers.pzero, Modifiers.pone. cbn. ring.
    - destruct (div_mod_low r d Er) as [-> ->], (div_mod_high c d (conj Ec Hc)) as [-> ->].
      unfold Modifiers.pzero, Modifiers.pone. cbn.
      assert (Hf : (d <=? r) = false) by (apply N.leb_gt; lia). rewrite Hf. cbn. ring.
    - destruct (div_mod_high r d (conj Er Hr)) as [-> ->], (div_mod_low c d Ec) as [-> ->].
      unfold Modifiers.pzero, Modifiers.pone. cbn.
      assert (Hf : (d <=? c) = false) by (apply N.leb_gt; lia). rewrite Hf, andb_false_r. ring.
    - destruct (div_mod_high r d (conj Er Hr)) as [-> ->], (div_mod_high c d (conj Ec Hc)) as [-> ->].
      unfold Modifiers.pzero, Modifiers.pone. cbn.
      assert (H1 : (d <=? r) = true) by (apply N.leb_le; lia).
      assert (H2 : (d <=? c) = true) by (apply N.leb_le; lia). rewrite H1, H2. cbn. ring.
  Qed.

  Lemma controlled_blocks m r c :
    let d := mdim C m in
    r < 2 * d -> c < 2 * d ->
    ment C (controlled m) r c
    = if (r <? d) && (c <? d) then eye r c
      else if (d <=? r) && (d <=? c) then ment C m (r - d) (c - d)
      else c0.
  Proof.
    intros d Hr Hc.
    change (ment C (controlled m) r c)
      with (ment C (forked (Mat (mq C m) eye) m) r c).
    apply (forked_blocks (Mat (mq C m) eye) m r c Hr Hc).
  Qed.

  (** ** gate_matrix (modifiers popped from the back) against the Quil semantics *)
  Section Stacks.
    Variable P : Type.
    Variable base : gate -> option P -> N -> N -> C.
    Notation gm := (gm C c0 c1 cadd cmul cconj P base).
    Notation gate_matrix := (gate_matrix C c0 c1 cadd cmul cconj P base).
    Notation spec_matrix := (spec_matrix C c0 c1 cadd cmul cconj P base).

    (** DAGGER innermost = DAGGER outermost, for every stack. *)
    Lemma gm_snoc_dagger g s : forall p, req (gm g (s ++ [MDagger]) p) (gm g (MDagger :: s) p).
    Proof.
      induction s as [|m s IH]; intros p; [apply req_refl|].
      destruct m; cbn [app Modifiers.gm].
      - eapply req_trans; [apply rmap_controlled_cong, IH|]. cbn [Modifiers.gm].
        apply rmap_controlled_dagger.
      - apply rmap_dagger_cong, IH.
      - destruct (Nat.odd (length p)); [reflexivity|].
        eapply req_trans; [apply rfork_cong; apply IH|]. cbn [Modifiers.gm]. apply rfork_dagger.
    Qed.

    Lemma gm_snoc_controlled g s :
      has MForked s = false ->
      forall p, req (gm g (s ++ [MControlled]) p) (gm g (MControlled :: s) p).
    Proof.
      induction s as [|m s IH]; intros Hs p; [apply req_refl|].
      destruct m; cbn [app Modifiers.gm]; cbn in Hs.
      - apply rmap_controlled_cong, IH, Hs.
      - eapply req_trans; [apply rmap_dagger_cong, IH, Hs|]. cbn [Modifiers.gm].
        apply req_sym, rmap_controlled_dagger.
      - discriminate.
    Qed.

    Lemma gm_snoc_forked g s :
      has MControlled s = false ->
      forall p, req (gm g (s ++ [MForked]) p) (gm g (MForked :: s) p).
    Proof.
      induction s as [|m s IH]; intros Hs p; [apply req_refl|].
      destruct m; cbn [app]; cbn in Hs.
      - discriminate.
      - cbn [Modifiers.gm]. eapply req_trans; [apply rmap_dagger_cong, IH, Hs|]. cbn [Modifiers.gm].
        destruct (Nat.odd (length p)); [reflexivity|]. apply req_sym, rfork_dagger.
      - change (gm g (MForked :: s ++ [MForked]) p)
          with (if Nat.odd (length p) then Err ErrForkedOdd
                else rfork C c0 c1 cadd cmul (gm g (s ++ [MForked]) (firstn (Nat.div (length p) 2) p))
                                             (gm g (s ++ [MForked]) (skipn (Nat.div (length p) 2) p))).
        change (gm g (MForked :: MForked :: s) p)
          with (if Nat.odd (length p) then Err ErrForkedOdd
                else rfork C c0 c1 cadd cmul (gm g (MForked :: s) (firstn (Nat.div (length p) 2) p))
                                             (gm g (MForked :: s) (skipn (Nat.div (length p) 2) p))).
        destruct (Nat.odd (length p)); [reflexivity|].
        apply rfork_cong; apply IH, Hs.
    Qed.

    Lemma has_rev m s : has m (rev s) = has m s.
    Proof. unfold has. apply existsb_rev. Qed.

    Lemma mixed_cons m s :
      mixed (m :: s) = false ->
      mixed s = false /\ (m = MControlled -> has MForked s = false)
      /\ (m = MForked -> has MControlled s = false).
    Proof.
      unfold mixed.
      change (has MControlled (m :: s))
        with ((match m with MControlled => true | _ => false end) || has MControlled s).
      change (has MForked (m :: s))
        with ((match m with MForked => true | _ => false end) || has MForked s).
      destruct m, (has MControlled s), (has MForked s); cbn;
        intros H; repeat split; intros; try discriminate; try reflexivity; try assumption.
    Qed.

    (** For every stack that does not contain both CONTROLLED and FORKED (any depth), every gate
        and all parameters, gate_matrix computes the Quil semantics — same error or same matrix. *)
    Lemma gate_matrix_spec g s :
      mixed s = false -> forall p, req (gate_matrix g s p) (spec_matrix g s p).
    Proof.
      unfold Modifiers.gate_matrix, Modifiers.spec_matrix.
      induction s as [|m s IH]; intros Hm p; [apply req_refl|].
      cbn [rev].
      destruct (mixed_cons m s Hm) as [Hs [Hf Hc]].
      destruct m.
      - (* CONTROLLED outermost: no FORKED below *)
        eapply req_trans; [apply gm_snoc_controlled; rewrite has_rev; now apply Hf|].
        cbn [Modifiers.gm]. apply rmap_controlled_cong, IH, Hs.
      - eapply req_trans; [apply gm_snoc_dagger|].
        cbn [Modifiers.gm]. apply rmap_dagger_cong, IH, Hs.
      - eapply req_trans; [apply gm_snoc_forked; rewrite has_rev; now apply Hc|].
        cbn [Modifiers.gm]. destruct (Nat.odd (length p)); [reflexivity|].
        apply rfork_cong; apply IH, Hs.
    Qed.

    (** Adding DAGGER through the API (inserted at the FRONT, evaluated INNERMOST by gate_matrix)
        conjugate-transposes the matrix of every gate, mixed stacks included. *)
    Lemma gate_matrix_dagger g s p :
      req (gate_matrix g (MDagger :: s) p) (rmap C dagger (gate_matrix g s p)).
    Proof. unfold Modifiers.gate_matrix. cbn [rev]. apply gm_snoc_dagger. Qed.
  End Stacks.

  (** ** Finite sums and products of dense matrices *)
  Notation msum := (msum C c0 cadd).
  Notation mmul := (mmul C c0 cadd cmul).
  Notation madj := (madj C cconj).

  Lemma msum_ext f g k : (forall i, (i < N.of_nat k) -> f i = g i) -> msum f k = msum g k.
  Proof.
    induction k as [|k IH]; intros H; cbn; [reflexivity|].
    rewrite IH, H; [reflexivity|lia|]. intros i Hi. apply H. lia.
  Qed.
  Lemma msum_add f g k : msum (fun i => cadd (f i) (g i)) k = cadd (msum f k) (msum g k).
  Proof. induction k as [|k IH]; cbn; [ring|]. rewrite IH. ring. Qed.
  Lemma msum_zero k : msum (fun _ => c0) k = c0.
  Proof. induction k as [|k IH]; cbn; [reflexivity|]. rewrite IH. ring. Qed.
  Lemma msum_mul_l x f k : cmul x (msum f k) = msum (fun i => cmul x (f i)) k.
  Proof. induction k as [|k IH]; cbn; [ring|]. rewrite <- IH. ring. Qed.
  Lemma msum_mul_r x f k : cmul (msum f k) x = msum (fun i => cmul (f i) x) k.
  Proof. induction k as [|k IH]; cbn; [ring|]. rewrite <- IH. ring. Qed.
  Lemma msum_conj f k : cconj (msum f k) = msum (fun i => cconj (f i)) k.
  Proof. induction k as [|k IH]; cbn; [apply conj_0|]. now rewrite conj_add, IH. Qed.
  Lemma msum_swap (F : N -> N -> C) d e :
    msum (fun k => msum (fun j => F k j) e) d = msum (fun j => msum (fun k => F k j) d) e.
  Proof.
    induction d as [|d IH]; cbn.
    - now rewrite msum_zero.
    - rewrite IH, <- msum_add. reflexivity.
  Qed.
  Lemma msum_delta_l f r k :
    r < N.of_nat k -> msum (fun i => cmul (eye r i) (f i)) k = f r.
  Proof.
    induction k as [|k IH]; intros H; [lia|]. cbn.
    destruct (N.eq_dec r (N.of_nat k)) as [->|Hne].
    - unfold Modifiers.eye at 2. rewrite N.eqb_refl.
      rewrite (msum_ext _ (fun _ => c0)); [rewrite msum_zero; ring|].
      intros i Hi. unfold Modifiers.eye.
      assert (E : (N.of_nat k =? i) = false) by (apply N.eqb_neq; lia). rewrite E. ring.
    - rewrite IH by lia. unfold Modifiers.eye.
      assert (E : (r =? N.of_nat k) = false) by (now apply N.eqb_neq). rewrite E. ring.
  Qed.

  Lemma mmul_ext d A A' B B' r c :
    (forall k, k < N.of_nat d -> A r k = A' r k) -> (forall k, k < N.of_nat d -> B k c = B' k c) ->
    mmul d A B r c = mmul d A' B' r c.
  Proof. intros HA HB. unfold Modifiers.mmul. apply msum_ext. intros k Hk. now rewrite HA, HB. Qed.

  Lemma mmul_assoc d A B X r c : mmul d (mmul d A B) X r c = mmul d A (mmul d B X) r c.
  Proof.
    unfold Modifiers.mmul.
    rewrite (msum_ext _ (fun k => msum (fun j => cmul (cmul (A r j) (B j k)) (X k c)) d)).
    2:{ intros k _. apply msum_mul_r. }
    rewrite msum_swap. apply msum_ext. intros j _.
    rewrite msum_mul_l. apply msum_ext. intros k _. ring.
  Qed.

  Lemma mmul_eye_l d A r c : r < N.of_nat d -> mmul d eye A r c = A r c.
  Proof. intros H. unfold Modifiers.mmul. now apply (msum_delta_l (fun k => A k c)). Qed.

  Lemma mmul_eye_r d A r c : c < N.of_nat d -> mmul d A eye r c = A r c.
  Proof.
    intros H. unfold Modifiers.mmul.
    rewrite (msum_ext _ (fun k => cmul (eye c k) (A r k))).
    - now apply (msum_delta_l (fun k => A r k)).
    - intros k _. unfold Modifiers.eye. rewrite (N.eqb_sym k c). ring.
  Qed.

  Lemma madj_mmul d A B r c : madj (mmul d A B) r c = mmul d (madj B) (madj A) r c.
  Proof.
    unfold Modifiers.madj, Modifiers.mmul. rewrite msum_conj. apply msum_ext. intros k _.
    rewrite conj_mul. ring.
  Qed.

  Lemma madj_eye r c : madj eye r c = eye r c.
  Proof. unfold Modifiers.madj. apply conj_eye. Qed.

  (** ** Unitarity is preserved by adjoints and products *)
  Definition unitary (d : nat) (A : N -> N -> C) : Prop :=
    (forall r c, r < N.of_nat d -> c < N.of_nat d -> mmul d (madj A) A r c = eye r c) /\
    (forall r c, r < N.of_nat d -> c < N.of_nat d -> mmul d A (madj A) r c = eye r c).

  Lemma unitary_eye d : unitary d eye.
  Proof.
    split; intros r c Hr Hc.
    - rewrite mmul_eye_r by assumption. apply madj_eye.
    - rewrite mmul_eye_l by assumption. apply madj_eye.
  Qed.

  Lemma madj_madj A r c : madj (madj A) r c = A r c.
  Proof. unfold Modifiers.madj. apply conj_invol. Qed.

  Lemma unitary_adj d A : unitary d A -> unitary d (madj A).
  Proof.
    intros [H1 H2]. split; intros r c Hr Hc.
    - rewrite <- (H2 r c Hr Hc). apply mmul_ext; intros k _; [apply madj_madj | reflexivity].
    - rewrite <- (H1 r c Hr Hc). apply mmul_ext; intros k _; [reflexivity | apply madj_madj].
  Qed.

  Lemma mul_adj_cancel d X Y Z r c :
    r < N.of_nat d -> c < N.of_nat d ->
    (forall a b, a < N.of_nat d -> b < N.of_nat d -> mmul d Y Z a b = eye a b) ->
    forall W, mmul d (mmul d X Y) (mmul d Z W) r c = mmul d X W r c.
  Proof.
    intros Hr Hc H W. rewrite mmul_assoc.
    apply mmul_ext; [reflexivity|]. intros k Hk.
    rewrite <- mmul_assoc.
    rewrite (mmul_ext d (mmul d Y Z) eye W W k c); [now apply mmul_eye_l| |reflexivity].
    intros j Hj. now apply H.
  Qed.

  Lemma unitary_mul d A B : unitary d A -> unitary d B -> unitary d (mmul d A B).
  Proof.
    intros [A1 A2] [B1 B2]. split; intros r c Hr Hc.
    - rewrite (mmul_ext d (madj (mmul d A B)) (mmul d (madj B) (madj A)) (mmul d A B) (mmul d A B) r c);
        [|intros k _; apply madj_mmul|reflexivity].
      rewrite (mul_adj_cancel d (madj B) (madj A) A r c Hr Hc A1 B). now apply B1.
    - rewrite (mmul_ext d (mmul d A B) (mmul d A B) (madj (mmul d A B)) (mmul d (madj B) (madj A)) r c);
        [|reflexivity|intros k _; apply madj_mmul].
      rewrite (mul_adj_cancel d A B (madj B) r c Hr Hc B2 (madj A)). now apply A2.
  Qed.

  (** ** Programs *)
  Section Programs.
    Variable G : Type.
    Variable U : G -> N -> N -> C.
    Variable d : nat.
    Notation PU := (program_unitary C c0 c1 cadd cmul U d).

    (** "A program's unitary is the product of its gates' unitaries in order": appending a gate
        multiplies its unitary on the left. *)
    Lemma program_unitary_nil : PU [] = eye.
    Proof. reflexivity. Qed.
    Lemma program_unitary_snoc p g : PU (p ++ [g]) = mmul d (U g) (PU p).
    Proof. unfold program_unitary. now rewrite fold_left_app. Qed.

    Lemma fold_acc (p : list G) : forall (X : N -> N -> C) r c,
      r < N.of_nat d -> c < N.of_nat d ->
      fold_left (fun acc g => mmul d (U g) acc) p X r c = mmul d (PU p) X r c.
    Proof.
      induction p as [|g p IH] using rev_ind; intros X r c Hr Hc.
      - cbn. now rewrite mmul_eye_l.
      - rewrite fold_left_app. cbn [fold_left]. rewrite program_unitary_snoc.
        rewrite mmul_assoc. apply mmul_ext; [reflexivity|]. intros k Hk. now apply IH.
    Qed.

    Lemma program_unitary_cons g p r c :
      r < N.of_nat d -> c < N.of_nat d -> PU (g :: p) r c = mmul d (PU p) (U g) r c.
    Proof.
      intros Hr Hc. unfold program_unitary at 1. cbn [fold_left].
      rewrite fold_acc by assumption.
      apply mmul_ext; [reflexivity|]. intros k Hk. now apply mmul_eye_r.
    Qed.

    (** The unitary of the dagger program is the adjoint of the program's unitary, provided each
        daggered gate's unitary is the adjoint of the gate's. *)
    Lemma program_dagger_adjoint (dag : G -> G) :
      (forall g r c, r < N.of_nat d -> c < N.of_nat d -> U (dag g) r c = madj (U g) r c) ->
      forall p r c, r < N.of_nat d -> c < N.of_nat d ->
        PU (program_dagger dag p) r c = madj (PU p) r c.
    Proof.
      intros Hdag p. induction p as [|g p IH] using rev_ind; intros r c Hr Hc.
      - cbn. now rewrite madj_eye.
      - unfold program_dagger. rewrite rev_app_distr. cbn [rev app map].
        rewrite program_unitary_cons by assumption.
        rewrite program_unitary_snoc, madj_mmul.
        apply mmul_ext; intros k Hk.
        + now apply IH.
        + now apply Hdag.
    Qed.

    (** A program of unitary gates has a unitary unitary. *)
    Lemma program_unitary_unitary p : (forall g, In g p -> unitary d (U g)) -> unitary d (PU p).
    Proof.
      induction p as [|g p IH] using rev_ind; intros H.
      - apply unitary_eye.
      - rewrite program_unitary_snoc. apply unitary_mul.
        + apply H, in_or_app. right. now left.
        + apply IH. intros x Hx. apply H, in_or_app. now left.
    Qed.
  End Programs.
End Laws.

(** * The specification's lifting commutes with the adjoint *)
Lemma rest_agree_sym others r c : rest_agree others r c = rest_agree others c r.
Proof.
  unfold rest_agree. induction others as [|p t IH]; [reflexivity|]. cbn.
  rewrite IH. f_equal. destruct (N.testbit r p), (N.testbit c p); reflexivity.
Qed.

Lemma lift_idx_spec_sym qs n r c :
  lift_idx_spec qs n c r = option_map (fun ab => (snd ab, fst ab)) (lift_idx_spec qs n r c).
Proof.
  unfold lift_idx_spec. rewrite (rest_agree_sym _ c r).
  destruct (rest_agree _ r c); reflexivity.
Qed.

(** * A mixed stack on which gate_matrix differs from the Quil semantics (over the ring Z) *)
Definition zbase (_ : gate) (p : option Z) (a b : N) : Z :=
  match p with Some x => (x * 10 + 2 * Z.of_N a + Z.of_N b + 2)%Z | None => 7%Z end.

Lemma mixed_stack_differs :
  let impl := gate_matrix Z 0%Z 1%Z Z.add Z.mul (fun x => x) Z zbase GRX [MControlled; MForked] [1%Z; 2%Z] in
  let spec := spec_matrix Z 0%Z 1%Z Z.add Z.mul (fun x => x) Z zbase GRX [MControlled; MForked] [1%Z; 2%Z] in
  match impl, spec with
  | Ok a, Ok b => mq Z a = 3 /\ mq Z b = 3 /\ ment Z b 2 2 = 1%Z /\ ment Z a 2 2 = 12%Z
  | _, _ => False
  end.
Proof. vm_compute. repeat split; reflexivity. Qed.

(** * The instance checker *)
Lemma obs_eqb_eq a b : obs_eqb a b = true -> a = b.
Proof.
  destruct a as [x|e|], b as [y|f|]; cbn; try discriminate.
  - intros H. apply rows_eqb_eq in H. now subst.
  - destruct e, f; cbn; try discriminate; try reflexivity.
    + intros H. apply Bool.eqb_prop in H. now subst.
    + intros H. apply Nat.eqb_eq in H. now subst.
Qed.

(** Verdict 0 certifies: the implementation's unitary has exactly the class structure of the Quil
    semantics of the modifier stack lifted with qubit 0 least significant (or the same error), it is
    numerically unitary, and adding DAGGER conjugate-transposes it. *)
Definition Case15OK (x : case15) : Prop :=
  case15_wf x = true /\ k_obs x = spec_obs x /\ k_unitary x = true /\ k_dagger x = true.

Lemma case15_sound x : case15_verdict x = 0 -> Case15OK x.
Proof.
  unfold case15_verdict, Case15OK.
  destruct (case15_wf x); [|discriminate]. cbn [negb].
  destruct (obs_eqb (k_obs x) (spec_obs x)) eqn:E; [|discriminate]. cbn [negb].
  destruct (k_unitary x); [|discriminate]. destruct (k_dagger x); [|discriminate]. cbn [negb].
  intros _. apply obs_eqb_eq in E. auto.
Qed.
