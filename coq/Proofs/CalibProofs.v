(** Proofs about Model/Calib.v: calibration lookup precedence and replace-in-place. *)
From Coq Require Import List NArith Bool PeanoNat Lia.
From QV Require Import Model.Calib.
Import ListNotations.

(** * Boolean equalities reflect Leibniz equality *)

Lemma qubit_eqb_eq a b : qubit_eqb a b = true <-> a = b.
Proof.
  destruct a, b; cbn [qubit_eqb]; rewrite ?N.eqb_eq; split; intros H; try discriminate;
    try (now f_equal); try (now inversion H).
Qed.

Lemma gmod_eqb_eq a b : gmod_eqb a b = true <-> a = b.
Proof. destruct a, b; cbn; split; intros H; try discriminate; reflexivity. Qed.

Lemma sform_eqb_eq a b : sform_eqb a b = true <-> a = b.
Proof.
  destruct a, b; cbn [sform_eqb]; rewrite ?N.eqb_eq; split; intros H; try discriminate;
    try (now f_equal); try (now inversion H).
Qed.

Lemma optN_eqb_eq a b : optN_eqb a b = true <-> a = b.
Proof.
  destruct a, b; cbn [optN_eqb]; rewrite ?N.eqb_eq; split; intros H; try discriminate;
    try (now f_equal); try (now inversion H).
Qed.

Lemma list_eqb_eq {A} (e : A -> A -> bool) :
  (forall x y, e x y = true <-> x = y) -> forall a b, list_eqb e a b = true <-> a = b.
Proof.
  intros He. induction a as [|x a IH]; destruct b as [|y b]; cbn [list_eqb];
    try (split; [reflexivity + discriminate | reflexivity + discriminate]).
  rewrite andb_true_iff, He, IH. split.
  - intros [-> ->]. reflexivity.
  - intros H. inversion H. auto.
Qed.

Lemma gate_eqb_eq a b : gate_eqb a b = true <-> a = b.
Proof.
  unfold gate_eqb. rewrite !andb_true_iff.
  rewrite (list_eqb_eq gmod_eqb gmod_eqb_eq), N.eqb_eq,
    (list_eqb_eq N.eqb N.eqb_eq), (list_eqb_eq qubit_eqb qubit_eqb_eq).
  destruct a, b; cbn. split.
  - intros [[[-> ->] ->] ->]. reflexivity.
  - intros H. inversion H. auto.
Qed.

Lemma meas_eqb_eq a b : meas_eqb a b = true <-> a = b.
Proof.
  unfold meas_eqb. rewrite !andb_true_iff, !optN_eqb_eq, qubit_eqb_eq.
  destruct a, b; cbn. split.
  - intros [[-> ->] ->]. reflexivity.
  - intros H. inversion H. auto.
Qed.

(** * Generic list facts *)

Lemma forallb_combine {A B} (f : A * B -> bool) (a : list A) (b : list B) :
  forallb f (combine a b) = true <->
  (forall i x y, nth_error a i = Some x -> nth_error b i = Some y -> f (x, y) = true).
Proof.
  revert b. induction a as [|x a IH]; intros b.
  - cbn. split; [|reflexivity]. intros _ [|i] ? ? H; discriminate H.
  - destruct b as [|y b].
    + cbn. split; [|reflexivity]. intros _ [|i] ? ? _ H; discriminate H.
    + cbn [combine forallb]. rewrite andb_true_iff, IH. split.
      * intros [H0 H] [|i] x' y' Hx Hy; cbn in Hx, Hy.
        -- inversion Hx; inversion Hy; subst. exact H0.
        -- eauto.
      * intros H. split.
        -- apply (H 0); reflexivity.
        -- intros i x' y' Hx Hy. apply (H (S i)); assumption.
Qed.

Lemma enumerate_from_app {A} k (a b : list A) :
  enumerate_from k (a ++ b) = enumerate_from k a ++ enumerate_from (k + length a) b.
Proof.
  revert k. induction a as [|x a IH]; intros k; cbn [app enumerate_from length].
  - now rewrite Nat.add_0_r.
  - rewrite IH. replace (k + S (length a)) with (S k + length a) by lia. reflexivity.
Qed.

Lemma nth_app_l {A} (d : A) (l : list A) x j : j < length l -> nth j (l ++ [x]) d = nth j l d.
Proof. intros. now apply app_nth1. Qed.

Lemma nth_app_last {A} (d : A) (l : list A) x : nth (length l) (l ++ [x]) d = x.
Proof. rewrite app_nth2 by lia. now rewrite Nat.sub_diag. Qed.

Lemma nth_error_nth_iff {A} (d : A) (l : list A) i c :
  nth_error l i = Some c <-> i < length l /\ nth i l d = c.
Proof.
  split.
  - intros H. split; [apply nth_error_Some; congruence|]. now apply nth_error_nth.
  - intros [Hlt <-]. now apply nth_error_nth'.
Qed.

(** * The lexicographic optimum *)

Definition Best (n : nat) (P : nat -> Prop) (rank : nat -> nat) (i : nat) : Prop :=
  i < n /\ P i /\ forall j, j < n -> P j -> rank j < rank i \/ (rank j = rank i /\ j <= i).

Lemma Best_unique n P rank i i' : Best n P rank i -> Best n P rank i' -> i = i'.
Proof.
  intros (Hi & HP & H) (Hi' & HP' & H').
  specialize (H i' Hi' HP'). specialize (H' i Hi HP). lia.
Qed.

Lemma Best_ext n P P' rank rank' i :
  (forall j, j < n -> (P j <-> P' j)) -> (forall j, j < n -> rank j = rank' j) ->
  Best n P rank i -> Best n P' rank' i.
Proof.
  intros HP Hr (Hi & HPi & H). split; [exact Hi|]. split; [now apply HP|].
  intros j Hj HPj. rewrite <- !Hr by assumption. apply H; [assumption|now apply HP].
Qed.

(** * [matches] is the declarative rule *)

Definition no_ph (q : qubit) : Prop := forall p, q <> QPh p.

(** Qubit rule: a fixed qubit of the calibration equals the gate's qubit at that position (a
    variable one matches anything); the code additionally refuses placeholders on either side. *)
Definition QubitOK (cq gq : qubit) : Prop :=
  no_ph cq /\ no_ph gq /\ forall n, cq = QFixed n -> gq = QFixed n.

(** Parameter rule: a calibration parameter that is (after simplification) a variable matches
    anything; any other must equal the gate's (after simplification). *)
Definition ParamOK (simp : N -> sform) (cp gp : N) : Prop :=
  (exists v, simp cp = SVar v) \/ simp cp = simp gp.

Definition Match (simp : N -> sform) (c g : gate) : Prop :=
  g_name c = g_name g /\ g_mods c = g_mods g /\
  length (g_params c) = length (g_params g) /\ length (g_qubits c) = length (g_qubits g) /\
  (forall i cq gq, nth_error (g_qubits c) i = Some cq -> nth_error (g_qubits g) i = Some gq ->
                   QubitOK cq gq) /\
  (forall i cp gp, nth_error (g_params c) i = Some cp -> nth_error (g_params g) i = Some gp ->
                   ParamOK simp cp gp).

Lemma qubit_match_iff cq gq : qubit_match cq gq = true <-> QubitOK cq gq.
Proof.
  unfold QubitOK, no_ph. destruct cq as [a|v|p], gq as [b|w|r]; cbn [qubit_match];
    rewrite ?N.eqb_eq; split; intros H; try discriminate.
  - subst. repeat split; try discriminate. intros n E. now inversion E.
  - destruct H as (_ & _ & H). specialize (H a eq_refl). now inversion H.
  - destruct H as (_ & _ & H). specialize (H a eq_refl). discriminate.
  - destruct H as (_ & H & _). now specialize (H r).
  - repeat split; discriminate.
  - reflexivity.
  - repeat split; discriminate.
  - reflexivity.
  - destruct H as (_ & H & _). now specialize (H r).
  - destruct H as (H & _). now specialize (H p).
  - destruct H as (H & _). now specialize (H p).
  - destruct H as (H & _). now specialize (H p).
Qed.

Lemma param_match_iff simp cp gp : param_match simp cp gp = true <-> ParamOK simp cp gp.
Proof.
  unfold param_match, ParamOK. destruct (simp cp) as [v|k] eqn:Ec.
  - split; [intros _; left; now exists v | reflexivity].
  - rewrite sform_eqb_eq. split.
    + intros H. now right.
    + intros [[v Hv] | H]; [discriminate | exact H].
Qed.

Lemma matches_iff simp c g : matches simp c g = true <-> Match simp c g.
Proof.
  unfold matches, Match.
  destruct (N.eqb_spec (g_name c) (g_name g)) as [Hn|Hn]; cbn [negb orb].
  2:{ split; [discriminate | intros (H & _); contradiction]. }
  destruct (list_eqb gmod_eqb (g_mods c) (g_mods g)) eqn:Hm; cbn [negb orb].
  2:{ split; [discriminate|]. intros (_ & H & _).
      apply (list_eqb_eq gmod_eqb gmod_eqb_eq) in H. congruence. }
  apply (list_eqb_eq gmod_eqb gmod_eqb_eq) in Hm.
  destruct (Nat.eqb_spec (length (g_params c)) (length (g_params g))) as [Hp|Hp]; cbn [negb orb].
  2:{ split; [discriminate | intros (_ & _ & H & _); contradiction]. }
  destruct (Nat.eqb_spec (length (g_qubits c)) (length (g_qubits g))) as [Hq|Hq]; cbn [negb orb].
  2:{ split; [discriminate | intros (_ & _ & _ & H & _); contradiction]. }
  destruct (forallb (fun p => qubit_match (fst p) (snd p)) (combine (g_qubits c) (g_qubits g))) eqn:Hfq;
    cbn [negb].
  - rewrite forallb_combine in Hfq. rewrite forallb_combine. split.
    + intros Hfp. repeat (split; [assumption|]). split.
      * intros i cq gq H1 H2. apply qubit_match_iff. apply (Hfq i cq gq H1 H2).
      * intros i cp gp H1 H2. apply param_match_iff. apply (Hfp i cp gp H1 H2).
    + intros (_ & _ & _ & _ & _ & H) i x y H1 H2. apply param_match_iff. eapply H; eassumption.
  - split; [discriminate|]. intros (_ & _ & _ & _ & H & _).
    assert (Hc : forallb (fun p => qubit_match (fst p) (snd p)) (combine (g_qubits c) (g_qubits g)) = true).
    { apply forallb_combine. intros i x y H1 H2. apply qubit_match_iff. eapply H; eassumption. }
    congruence.
Qed.

(** Without placeholders the rule is literally the property's wording. *)
Definition PlainMatch (simp : N -> sform) (c g : gate) : Prop :=
  g_name c = g_name g /\ g_mods c = g_mods g /\
  length (g_params c) = length (g_params g) /\ length (g_qubits c) = length (g_qubits g) /\
  (forall i n gq, nth_error (g_qubits c) i = Some (QFixed n) -> nth_error (g_qubits g) i = Some gq ->
                  gq = QFixed n) /\
  (forall i cp gp, nth_error (g_params c) i = Some cp -> nth_error (g_params g) i = Some gp ->
                   (forall v, simp cp <> SVar v) -> simp cp = simp gp).

Lemma Match_plain simp c g :
  (forall q, In q (g_qubits c) -> no_ph q) -> (forall q, In q (g_qubits g) -> no_ph q) ->
  (Match simp c g <-> PlainMatch simp c g).
Proof.
  intros Hc Hg. unfold Match, PlainMatch. split.
  - intros (H1 & H2 & H3 & H4 & Hq & Hp). repeat (split; [assumption|]). split.
    + intros i n gq E1 E2. destruct (Hq i _ _ E1 E2) as (_ & _ & H). now apply H.
    + intros i cp gp E1 E2 Hnv. destruct (Hp i _ _ E1 E2) as [[v Hv]|H]; [now apply Hnv in Hv | exact H].
  - intros (H1 & H2 & H3 & H4 & Hq & Hp). repeat (split; [assumption|]). split.
    + intros i cq gq E1 E2. split; [apply Hc; eapply nth_error_In; eassumption|].
      split; [apply Hg; eapply nth_error_In; eassumption|].
      intros n ->. eapply Hq; eassumption.
    + intros i cp gp E1 E2. destruct (simp cp) as [v|k] eqn:E.
      * left. now exists v.
      * right. specialize (Hp i cp gp E1 E2). rewrite E in Hp. rewrite E. apply Hp. intros v; discriminate.
Qed.

(** * [get_match_for_gate] *)

Section Gate.
  Variable simp : N -> sform.
  Variable g : gate.

  Definition okb (l : list calib) (j : nat) : bool := matches simp (c_id (nth j l dummy_calib)) g.
  Definition rk (l : list calib) (j : nat) : nat := fixed_count (c_id (nth j l dummy_calib)).

  Fixpoint scan (k : nat) (l : list calib) (acc : option (nat * calib)) : option (nat * calib) :=
    match l with
    | [] => acc
    | c :: t => scan (S k) t (if matches simp (c_id c) g then gate_step acc (k, c) else acc)
    end.

  Lemma fold_scan k l acc :
    fold_left gate_step (filter (fun ic => matches simp (c_id (snd ic)) g) (enumerate_from k l)) acc
    = scan k l acc.
  Proof.
    revert k acc. induction l as [|c t IH]; intros k acc; cbn [enumerate_from filter scan snd].
    - reflexivity.
    - destruct (matches simp (c_id c) g); cbn [fold_left]; apply IH.
  Qed.

  Definition AccSpec (l : list calib) (acc : option (nat * calib)) : Prop :=
    match acc with
    | None => forall j, j < length l -> okb l j = false
    | Some (i, c) => nth_error l i = Some c /\ Best (length l) (fun j => okb l j = true) (rk l) i
    end.

  Lemma AccSpec_step pre c acc :
    AccSpec pre acc ->
    AccSpec (pre ++ [c]) (if matches simp (c_id c) g then gate_step acc (length pre, c) else acc).
  Proof.
    intros HA.
    assert (Hlen : length (pre ++ [c]) = S (length pre)) by (rewrite app_length; cbn; lia).
    assert (Hok : forall j, j < length pre -> okb (pre ++ [c]) j = okb pre j).
    { intros j Hj. unfold okb. now rewrite nth_app_l. }
    assert (Hrk : forall j, j < length pre -> rk (pre ++ [c]) j = rk pre j).
    { intros j Hj. unfold rk. now rewrite nth_app_l. }
    assert (Hokl : okb (pre ++ [c]) (length pre) = matches simp (c_id c) g).
    { unfold okb. now rewrite nth_app_last. }
    assert (Hrkl : rk (pre ++ [c]) (length pre) = fixed_count (c_id c)).
    { unfold rk. now rewrite nth_app_last. }
    destruct (matches simp (c_id c) g) eqn:Hm.
    - (* the new calibration matches *)
      destruct acc as [[i ci]|]; cbn [gate_step snd].
      + destruct HA as (Hnth & Hi & Hoki & Hbest).
        assert (Hci : nth i pre dummy_calib = ci) by (now apply nth_error_nth).
        assert (Hrki : rk pre i = fixed_count (c_id ci)) by (unfold rk; now rewrite Hci).
        destruct (Nat.leb_spec (fixed_count (c_id ci)) (fixed_count (c_id c))) as [Hle|Hgt].
        * cbn [AccSpec]. split.
          { rewrite nth_error_app2 by lia. now rewrite Nat.sub_diag. }
          split; [lia|]. split; [exact Hokl|].
          intros j Hj Hokj. rewrite Hrkl.
          destruct (Nat.eq_dec j (length pre)) as [->|Hne]; [rewrite Hrkl; lia|].
          assert (Hj' : j < length pre) by lia.
          rewrite Hrk by assumption. rewrite Hok in Hokj by assumption.
          specialize (Hbest j Hj' Hokj). lia.
        * cbn [AccSpec]. split.
          { rewrite nth_error_app1 by assumption. exact Hnth. }
          split; [lia|]. split; [now rewrite Hok|].
          intros j Hj Hokj. rewrite (Hrk i) by assumption.
          destruct (Nat.eq_dec j (length pre)) as [->|Hne].
          { rewrite Hrkl. lia. }
          assert (Hj' : j < length pre) by lia.
          rewrite Hrk by assumption. rewrite Hok in Hokj by assumption. now apply Hbest.
      + cbn [AccSpec] in *. split.
        { rewrite nth_error_app2 by lia. now rewrite Nat.sub_diag. }
        split; [lia|]. split; [exact Hokl|].
        intros j Hj Hokj.
        destruct (Nat.eq_dec j (length pre)) as [->|Hne]; [lia|].
        assert (Hj' : j < length pre) by lia.
        rewrite Hok in Hokj by assumption. rewrite HA in Hokj by assumption. discriminate.
    - (* it does not match *)
      destruct acc as [[i ci]|]; cbn [AccSpec] in *.
      + destruct HA as (Hnth & Hi & Hoki & Hbest). split.
        { rewrite nth_error_app1 by assumption. exact Hnth. }
        split; [lia|]. split; [now rewrite Hok|].
        intros j Hj Hokj. rewrite (Hrk i) by assumption.
        destruct (Nat.eq_dec j (length pre)) as [->|Hne]; [congruence|].
        assert (Hj' : j < length pre) by lia.
        rewrite Hrk by assumption. rewrite Hok in Hokj by assumption. now apply Hbest.
      + intros j Hj. destruct (Nat.eq_dec j (length pre)) as [->|Hne]; [congruence|].
        rewrite Hok by lia. apply HA. lia.
  Qed.

  Lemma scan_spec rest : forall pre acc,
    AccSpec pre acc -> AccSpec (pre ++ rest) (scan (length pre) rest acc).
  Proof.
    induction rest as [|c t IH]; intros pre acc HA; cbn [scan].
    - now rewrite app_nil_r.
    - replace (pre ++ c :: t) with ((pre ++ [c]) ++ t) by (now rewrite <- app_assoc).
      replace (S (length pre)) with (length (pre ++ [c])) by (rewrite app_length; cbn; lia).
      apply IH. now apply AccSpec_step.
  Qed.

  Lemma get_match_for_gate_AccSpec cs : AccSpec cs (get_match_for_gate simp cs g).
  Proof.
    unfold get_match_for_gate, enumerate. rewrite fold_scan.
    apply (scan_spec cs [] None). intros j Hj. cbn in Hj. lia.
  Qed.
End Gate.

Definition GateBest (simp : N -> sform) (cs : list calib) (g : gate) (i : nat) : Prop :=
  Best (length cs) (fun j => Match simp (c_id (nth j cs dummy_calib)) g)
       (fun j => fixed_count (c_id (nth j cs dummy_calib))) i.

Lemma GateBest_okb simp cs g i :
  Best (length cs) (fun j => okb simp g cs j = true) (rk cs) i <-> GateBest simp cs g i.
Proof.
  unfold GateBest. split; apply Best_ext; intros j _; try reflexivity;
    unfold okb; rewrite matches_iff; reflexivity.
Qed.

Theorem get_match_for_gate_Some simp cs g i c :
  get_match_for_gate simp cs g = Some (i, c) <-> nth_error cs i = Some c /\ GateBest simp cs g i.
Proof.
  pose proof (get_match_for_gate_AccSpec simp g cs) as HA. split.
  - intros E. rewrite E in HA. cbn [AccSpec] in HA. destruct HA as [H1 H2].
    split; [exact H1 | now apply GateBest_okb].
  - intros [Hnth HB]. apply GateBest_okb in HB.
    destruct (get_match_for_gate simp cs g) as [[i' c']|]; cbn [AccSpec] in HA.
    + destruct HA as [Hnth' HB']. pose proof (Best_unique _ _ _ _ _ HB HB'). subst i'.
      congruence.
    + destruct HB as (Hi & Hok & _). rewrite HA in Hok by assumption. discriminate.
Qed.

Theorem get_match_for_gate_None simp cs g :
  get_match_for_gate simp cs g = None <-> forall c, In c cs -> ~ Match simp (c_id c) g.
Proof.
  pose proof (get_match_for_gate_AccSpec simp g cs) as HA. split.
  - intros E c Hin HM. rewrite E in HA. cbn [AccSpec] in HA.
    destruct (In_nth _ _ dummy_calib Hin) as (j & Hj & Hc).
    specialize (HA j Hj). unfold okb in HA. rewrite Hc in HA.
    apply matches_iff in HM. congruence.
  - intros H. destruct (get_match_for_gate simp cs g) as [[i c]|]; [|reflexivity].
    cbn [AccSpec] in HA. destruct HA as (Hnth & Hi & Hok & _).
    exfalso. apply (H c); [eapply nth_error_In; eassumption|].
    apply matches_iff. unfold okb in Hok. now rewrite (nth_error_nth _ _ _ Hnth) in Hok.
Qed.

(** * [get_match_for_measurement] *)

(** Declarative rule: same name, same record/effect kind, and the calibration's qubit is a variable
    or the measured fixed qubit.  [mrank] is 1 for an exact (fixed) match and 0 for a variable. *)
Definition MMatch (c m : meas) : Prop :=
  m_name c = m_name m /\ (is_some (m_target c) = is_some (m_target m)) /\
  ((exists v, m_qubit c = QVar v) \/ (exists a, m_qubit c = QFixed a /\ m_qubit m = QFixed a)).

Lemma mclass_iff c m e :
  mclass c m = Some e <-> MMatch c m /\ e = is_fixed (m_qubit c).
Proof.
  unfold mclass, MMatch.
  destruct (optN_eqb (m_name m) (m_name c)) eqn:En; cbn [andb negb].
  2:{ split; [discriminate|]. intros [(H & _) _].
      assert (optN_eqb (m_name m) (m_name c) = true) by (apply optN_eqb_eq; congruence). congruence. }
  apply optN_eqb_eq in En.
  destruct (Bool.eqb (is_some (m_target m)) (is_some (m_target c))) eqn:Et; cbn [negb].
  2:{ split; [discriminate|]. intros [(_ & H & _) _]. rewrite H in Et.
      now rewrite Bool.eqb_reflx in Et. }
  apply Bool.eqb_prop in Et.
  destruct (m_qubit c) as [a|v|p] eqn:Eq; cbn [is_fixed].
  - destruct (qubit_eqb (m_qubit m) (QFixed a)) eqn:Eqq.
    + apply qubit_eqb_eq in Eqq. split.
      * intros H; inversion H. split; [|reflexivity]. repeat split; try congruence.
        right. exists a. auto.
      * intros [_ ->]. reflexivity.
    + split; [discriminate|]. intros [(_ & _ & [[v Hv]|[a' [Ha Hm]]]) _]; [discriminate|].
      inversion Ha; subst a'. rewrite Hm in Eqq. cbn in Eqq. now rewrite N.eqb_refl in Eqq.
  - split.
    + intros H; inversion H. split; [|reflexivity]. repeat split; try congruence. left. now exists v.
    + intros [_ ->]. reflexivity.
  - split; [discriminate|]. intros [(_ & _ & [[v Hv]|[a [Ha _]]]) _]; discriminate.
Qed.

Lemma mclass_is_some c m : is_some (mclass c m) = true <-> MMatch c m.
Proof.
  destruct (mclass c m) as [e|] eqn:E; cbn [is_some].
  - apply mclass_iff in E. tauto.
  - split; [discriminate|]. intros H.
    assert (mclass c m = Some (is_fixed (m_qubit c))) by (apply mclass_iff; auto). congruence.
Qed.

Lemma hd_filter_rev_enum {A} (p : nat * A -> bool) (ms : list A) :
  match hd_error (filter p (rev (enumerate ms))) with
  | Some (i, c) => nth_error ms i = Some c /\ p (i, c) = true /\
                   forall j c', i < j -> nth_error ms j = Some c' -> p (j, c') = false
  | None => forall j c', nth_error ms j = Some c' -> p (j, c') = false
  end.
Proof.
  unfold enumerate. induction ms as [|c ms IH] using rev_ind.
  - cbn. intros [|j] c' H; discriminate H.
  - rewrite enumerate_from_app, rev_app_distr. cbn [enumerate_from rev app filter].
    cbn [Nat.add].
    destruct (p (length ms, c)) eqn:Hp; cbn [hd_error].
    + split; [rewrite nth_error_app2 by lia; now rewrite Nat.sub_diag|].
      split; [exact Hp|]. intros j c' Hj Hn.
      assert (j < length (ms ++ [c])) by (apply nth_error_Some; congruence).
      rewrite app_length in H. cbn in H. lia.
    + destruct (hd_error (filter p (rev (enumerate_from 0 ms)))) as [[i ci]|].
      * destruct IH as (Hn & Hpi & Hafter). split.
        { rewrite nth_error_app1; [exact Hn | apply nth_error_Some; congruence]. }
        split; [exact Hpi|]. intros j c' Hj Hnj.
        destruct (Nat.lt_ge_cases j (length ms)) as [Hlt|Hge].
        -- rewrite nth_error_app1 in Hnj by assumption. eapply Hafter; eassumption.
        -- assert (j < length (ms ++ [c])) by (apply nth_error_Some; congruence).
           rewrite app_length in H. cbn in H. assert (j = length ms) by lia. subst j.
           rewrite nth_error_app2 in Hnj by lia. rewrite Nat.sub_diag in Hnj. cbn in Hnj.
           inversion Hnj; subst. exact Hp.
      * intros j c' Hnj.
        destruct (Nat.lt_ge_cases j (length ms)) as [Hlt|Hge].
        -- rewrite nth_error_app1 in Hnj by assumption. eapply IH; eassumption.
        -- assert (j < length (ms ++ [c])) by (apply nth_error_Some; congruence).
           rewrite app_length in H. cbn in H. assert (j = length ms) by lia. subst j.
           rewrite nth_error_app2 in Hnj by lia. rewrite Nat.sub_diag in Hnj. cbn in Hnj.
           inversion Hnj; subst. exact Hp.
Qed.

Definition bool_opt_is (e : bool) (o : option bool) : bool :=
  match o with Some b => Bool.eqb b e | None => false end.

Lemma filter_cands {A} (h : A -> option bool) (e : bool) (L : list A) :
  filter (fun x : A * bool => Bool.eqb (snd x) e)
         (filter_map (fun ic => option_map (fun b : bool => (ic, b)) (h ic)) L)
  = map (fun ic => (ic, e)) (filter (fun ic => bool_opt_is e (h ic)) L).
Proof.
  induction L as [|x L IH]; cbn [filter_map filter map]; [reflexivity|].
  destruct (h x) as [b|]; cbn [option_map bool_opt_is].
  - cbn [filter snd]. destruct (Bool.eqb b e) eqn:E; cbn [map]; rewrite IH; [|reflexivity].
    apply Bool.eqb_prop in E. now subst.
  - exact IH.
Qed.

Definition MeasBest (ms : list mcalib) (m : meas) (i : nat) : Prop :=
  Best (length ms) (fun j => MMatch (mc_id (nth j ms dummy_mcalib)) m)
       (fun j => mrank (mc_id (nth j ms dummy_mcalib))) i.

Lemma get_match_for_measurement_unfold ms m :
  get_match_for_measurement ms m =
  let pe := fun ic : nat * mcalib => bool_opt_is true (mclass (mc_id (snd ic)) m) in
  let pw := fun ic : nat * mcalib => bool_opt_is false (mclass (mc_id (snd ic)) m) in
  match hd_error (filter pe (rev (enumerate ms))) with
  | Some ic => Some ic
  | None => hd_error (filter pw (rev (enumerate ms)))
  end.
Proof.
  unfold get_match_for_measurement. cbv zeta.
  set (F := fun ic : nat * mcalib => option_map (fun e : bool => (ic, e)) (mclass (mc_id (snd ic)) m)).
  assert (E1 : filter (fun x : nat * mcalib * bool => snd x) (filter_map F (rev (enumerate ms)))
               = filter (fun x : nat * mcalib * bool => Bool.eqb (snd x) true) (filter_map F (rev (enumerate ms)))).
  { apply filter_ext. intros [? []]; reflexivity. }
  assert (E2 : filter (fun x : nat * mcalib * bool => negb (snd x)) (filter_map F (rev (enumerate ms)))
               = filter (fun x : nat * mcalib * bool => Bool.eqb (snd x) false) (filter_map F (rev (enumerate ms)))).
  { apply filter_ext. intros [? []]; reflexivity. }
  rewrite E1, E2. unfold F.
  rewrite (filter_cands (fun ic : nat * mcalib => mclass (mc_id (snd ic)) m) true).
  rewrite (filter_cands (fun ic : nat * mcalib => mclass (mc_id (snd ic)) m) false).
  destruct (filter _ (rev (enumerate ms))) as [|x l]; cbn [map hd_error fst].
  - destruct (filter _ (rev (enumerate ms))) as [|y l']; reflexivity.
  - reflexivity.
Qed.

Lemma bool_opt_is_true c m : bool_opt_is true (mclass c m) = true <-> MMatch c m /\ mrank c = 1.
Proof.
  unfold bool_opt_is, mrank. destruct (mclass c m) as [b|] eqn:E.
  - apply mclass_iff in E. destruct E as [HM ->]. destruct (is_fixed (m_qubit c)); cbn; split;
      intros H; try discriminate; try tauto. destruct H; discriminate.
  - split; [discriminate|]. intros [HM _].
    apply mclass_is_some in HM. rewrite E in HM. discriminate.
Qed.

Lemma bool_opt_is_false c m : bool_opt_is false (mclass c m) = true <-> MMatch c m /\ mrank c = 0.
Proof.
  unfold bool_opt_is, mrank. destruct (mclass c m) as [b|] eqn:E.
  - apply mclass_iff in E. destruct E as [HM ->]. destruct (is_fixed (m_qubit c)); cbn; split;
      intros H; try discriminate; try tauto. destruct H; discriminate.
  - split; [discriminate|]. intros [HM _].
    apply mclass_is_some in HM. rewrite E in HM. discriminate.
Qed.

Lemma mrank_01 c : mrank c = 0 \/ mrank c = 1.
Proof. unfold mrank. destruct (is_fixed (m_qubit c)); auto. Qed.

Lemma get_match_for_measurement_spec ms m :
  match get_match_for_measurement ms m with
  | Some (i, c) => nth_error ms i = Some c /\ MeasBest ms m i
  | None => forall c, In c ms -> ~ MMatch (mc_id c) m
  end.
Proof.
  rewrite get_match_for_measurement_unfold. cbv zeta.
  pose proof (hd_filter_rev_enum (fun ic : nat * mcalib => bool_opt_is true (mclass (mc_id (snd ic)) m)) ms) as He.
  pose proof (hd_filter_rev_enum (fun ic : nat * mcalib => bool_opt_is false (mclass (mc_id (snd ic)) m)) ms) as Hw.
  cbn [snd] in He, Hw.
  destruct (hd_error (filter (fun ic : nat * mcalib => bool_opt_is true (mclass (mc_id (snd ic)) m)) (rev (enumerate ms))))
    as [[i c]|].
  - (* an exact match exists: the last one *)
    destruct He as (Hn & Hp & Hafter). apply bool_opt_is_true in Hp. destruct Hp as [HM Hr].
    split; [exact Hn|]. unfold MeasBest, Best.
    assert (Hi : i < length ms) by (apply nth_error_Some; congruence).
    rewrite (nth_error_nth _ _ dummy_mcalib Hn).
    split; [exact Hi|]. split; [exact HM|].
    intros j Hj HMj. rewrite Hr.
    destruct (mrank_01 (mc_id (nth j ms dummy_mcalib))) as [H0|H1]; [lia|].
    right. split; [exact H1|].
    destruct (Nat.le_gt_cases j i) as [|Hgt]; [assumption|]. exfalso.
    assert (Hnj : nth_error ms j = Some (nth j ms dummy_mcalib)) by (now apply nth_error_nth').
    specialize (Hafter j _ Hgt Hnj).
    assert (bool_opt_is true (mclass (mc_id (nth j ms dummy_mcalib)) m) = true)
      by (apply bool_opt_is_true; auto).
    congruence.
  - (* no exact match *)
    destruct (hd_error (filter (fun ic : nat * mcalib => bool_opt_is false (mclass (mc_id (snd ic)) m)) (rev (enumerate ms))))
      as [[i c]|].
    + destruct Hw as (Hn & Hp & Hafter). apply bool_opt_is_false in Hp. destruct Hp as [HM Hr].
      split; [exact Hn|]. unfold MeasBest, Best.
      assert (Hi : i < length ms) by (apply nth_error_Some; congruence).
      rewrite (nth_error_nth _ _ dummy_mcalib Hn).
      split; [exact Hi|]. split; [exact HM|].
      intros j Hj HMj. rewrite Hr.
      assert (Hnj : nth_error ms j = Some (nth j ms dummy_mcalib)) by (now apply nth_error_nth').
      destruct (mrank_01 (mc_id (nth j ms dummy_mcalib))) as [H0|H1].
      * right. split; [exact H0|].
        destruct (Nat.le_gt_cases j i) as [|Hgt]; [assumption|]. exfalso.
        specialize (Hafter j _ Hgt Hnj).
        assert (bool_opt_is false (mclass (mc_id (nth j ms dummy_mcalib)) m) = true)
          by (apply bool_opt_is_false; auto).
        congruence.
      * exfalso. specialize (He j _ Hnj).
        assert (bool_opt_is true (mclass (mc_id (nth j ms dummy_mcalib)) m) = true)
          by (apply bool_opt_is_true; auto).
        congruence.
    + intros c Hin HM.
      destruct (In_nth _ _ dummy_mcalib Hin) as (j & Hj & Hc).
      assert (Hnj : nth_error ms j = Some c) by (rewrite <- Hc; now apply nth_error_nth').
      destruct (mrank_01 (mc_id c)) as [H0|H1].
      * specialize (Hw j _ Hnj).
        assert (bool_opt_is false (mclass (mc_id c) m) = true) by (apply bool_opt_is_false; auto).
        congruence.
      * specialize (He j _ Hnj).
        assert (bool_opt_is true (mclass (mc_id c) m) = true) by (apply bool_opt_is_true; auto).
        congruence.
Qed.

Theorem get_match_for_measurement_Some ms m i c :
  get_match_for_measurement ms m = Some (i, c) <-> nth_error ms i = Some c /\ MeasBest ms m i.
Proof.
  pose proof (get_match_for_measurement_spec ms m) as HS. split.
  - intros E. now rewrite E in HS.
  - intros [Hn HB]. destruct (get_match_for_measurement ms m) as [[i' c']|].
    + destruct HS as [Hn' HB']. pose proof (Best_unique _ _ _ _ _ HB HB'). subst i'. congruence.
    + exfalso. destruct HB as (Hi & HM & _). apply (HS c); [eapply nth_error_In; eassumption|].
      now rewrite (nth_error_nth _ _ dummy_mcalib Hn) in HM.
Qed.

Theorem get_match_for_measurement_None ms m :
  get_match_for_measurement ms m = None <-> forall c, In c ms -> ~ MMatch (mc_id c) m.
Proof.
  pose proof (get_match_for_measurement_spec ms m) as HS. split.
  - intros E. now rewrite E in HS.
  - intros H. destruct (get_match_for_measurement ms m) as [[i c]|]; [|reflexivity].
    destruct HS as (Hn & Hi & HM & _). exfalso. apply (H c); [eapply nth_error_In; eassumption|].
    now rewrite (nth_error_nth _ _ dummy_mcalib Hn) in HM.
Qed.

(** * The instance checkers *)

Lemma chk_best_sound n ok rank ans :
  chk_best n ok rank ans = true ->
  match ans with
  | Some i => Best n (fun j => ok j = true) rank i
  | None => forall j, j < n -> ok j = false
  end.
Proof.
  unfold chk_best. destruct ans as [i|].
  - rewrite !andb_true_iff, forallb_forall, Nat.ltb_lt. intros [[Hi Hok] Hall].
    split; [exact Hi|]. split; [exact Hok|]. intros j Hj Hokj.
    specialize (Hall j). rewrite in_seq in Hall. specialize (Hall ltac:(lia)).
    rewrite Hokj in Hall. rewrite orb_true_iff, andb_true_iff, Nat.ltb_lt, Nat.eqb_eq, Nat.leb_le in Hall.
    exact Hall.
  - rewrite forallb_forall. intros Hall j Hj. specialize (Hall j). rewrite in_seq in Hall.
    specialize (Hall ltac:(lia)). now apply negb_true_iff in Hall.
Qed.

Lemma chk_best_complete n ok rank ans :
  match ans with
  | Some i => Best n (fun j => ok j = true) rank i
  | None => forall j, j < n -> ok j = false
  end -> chk_best n ok rank ans = true.
Proof.
  unfold chk_best. destruct ans as [i|].
  - intros (Hi & Hok & H). rewrite !andb_true_iff, forallb_forall, Nat.ltb_lt.
    split; [split; assumption|]. intros j Hj. apply in_seq in Hj.
    destruct (ok j) eqn:E; [|reflexivity].
    rewrite orb_true_iff, andb_true_iff, Nat.ltb_lt, Nat.eqb_eq, Nat.leb_le. apply H; [lia|exact E].
  - intros H. rewrite forallb_forall. intros j Hj. apply in_seq in Hj.
    apply negb_true_iff. apply H. lia.
Qed.

Theorem chk_gate_sound simp cs g ans :
  chk_gate simp cs g ans = true ->
  match ans with
  | Some i => GateBest simp cs g i
  | None => forall c, In c cs -> ~ Match simp (c_id c) g
  end.
Proof.
  unfold chk_gate. intros H. apply chk_best_sound in H. destruct ans as [i|].
  - now apply GateBest_okb.
  - intros c Hin HM. destruct (In_nth _ _ dummy_calib Hin) as (j & Hj & Hc).
    specialize (H j Hj). cbv beta in H. rewrite Hc in H. apply matches_iff in HM. congruence.
Qed.

(** The checker accepts exactly the model's answer. *)
Theorem chk_gate_iff_model simp cs g ans :
  chk_gate simp cs g ans = true <-> option_map fst (get_match_for_gate simp cs g) = ans.
Proof.
  split.
  - intros H. apply chk_gate_sound in H.
    destruct (get_match_for_gate simp cs g) as [[i c]|] eqn:E; cbn [option_map fst].
    + apply get_match_for_gate_Some in E. destruct E as [Hn HB]. destruct ans as [i'|].
      * f_equal. eapply Best_unique; eassumption.
      * exfalso. apply (H c); [eapply nth_error_In; eassumption|].
        destruct HB as (_ & HM & _). now rewrite (nth_error_nth _ _ dummy_calib Hn) in HM.
    + destruct ans as [i'|]; [|reflexivity]. exfalso.
      rewrite get_match_for_gate_None in E. destruct H as (Hi & HM & _).
      apply (E (nth i' cs dummy_calib)); [now apply nth_In | exact HM].
  - intros <-. unfold chk_gate. apply chk_best_complete.
    destruct (get_match_for_gate simp cs g) as [[i c]|] eqn:E; cbn [option_map fst].
    + apply get_match_for_gate_Some in E. destruct E as [_ HB]. now apply GateBest_okb in HB.
    + rewrite get_match_for_gate_None in E. intros j Hj.
      destruct (matches simp (c_id (nth j cs dummy_calib)) g) eqn:Em; [|reflexivity].
      exfalso. apply (E (nth j cs dummy_calib)); [now apply nth_In | now apply matches_iff].
Qed.

Theorem chk_meas_sound ms m ans :
  chk_meas ms m ans = true ->
  match ans with
  | Some i => MeasBest ms m i
  | None => forall c, In c ms -> ~ MMatch (mc_id c) m
  end.
Proof.
  unfold chk_meas. intros H. apply chk_best_sound in H. destruct ans as [i|].
  - unfold MeasBest. revert H. apply Best_ext; intros j _; [|reflexivity]. apply mclass_is_some.
  - intros c Hin HM. destruct (In_nth _ _ dummy_mcalib Hin) as (j & Hj & Hc).
    specialize (H j Hj). cbv beta in H. rewrite Hc in H. apply mclass_is_some in HM. congruence.
Qed.

Theorem chk_meas_iff_model ms m ans :
  chk_meas ms m ans = true <-> option_map fst (get_match_for_measurement ms m) = ans.
Proof.
  split.
  - intros H. apply chk_meas_sound in H.
    destruct (get_match_for_measurement ms m) as [[i c]|] eqn:E; cbn [option_map fst].
    + apply get_match_for_measurement_Some in E. destruct E as [Hn HB]. destruct ans as [i'|].
      * f_equal. eapply Best_unique; eassumption.
      * exfalso. apply (H c); [eapply nth_error_In; eassumption|].
        destruct HB as (_ & HM & _). now rewrite (nth_error_nth _ _ dummy_mcalib Hn) in HM.
    + destruct ans as [i'|]; [|reflexivity]. exfalso.
      rewrite get_match_for_measurement_None in E. destruct H as (Hi & HM & _).
      apply (E (nth i' ms dummy_mcalib)); [now apply nth_In | exact HM].
  - intros <-. unfold chk_meas. apply chk_best_complete.
    destruct (get_match_for_measurement ms m) as [[i c]|] eqn:E; cbn [option_map fst].
    + apply get_match_for_measurement_Some in E. destruct E as [_ HB].
      revert HB. apply Best_ext; intros j _; [|reflexivity]. symmetry. apply mclass_is_some.
    + rewrite get_match_for_measurement_None in E. intros j Hj.
      destruct (is_some (mclass (mc_id (nth j ms dummy_mcalib)) m)) eqn:Em; [|reflexivity].
      exfalso. apply (E (nth j ms dummy_mcalib)); [now apply nth_In | now apply mclass_is_some].
Qed.

(** * [CalibrationSet::replace] *)

Section Replace.
  Context {A : Type} (same_sig : A -> A -> bool).

  Lemma sig_position_Some v l i :
    sig_position same_sig v l = Some i <->
    (exists x, nth_error l i = Some x /\ same_sig x v = true) /\
    (forall j y, j < i -> nth_error l j = Some y -> same_sig y v = false).
  Proof.
    revert i. induction l as [|x t IH]; intros i; cbn [sig_position].
    - split; [discriminate|]. intros [[y [H _]] _]. destruct i; discriminate H.
    - destruct (same_sig x v) eqn:E.
      + split.
        * intros H; inversion H; subst i. split; [exists x; auto|]. intros j y Hj; lia.
        * intros [[y [Hn Hy]] Hfirst]. destruct i as [|i]; [reflexivity|].
          specialize (Hfirst 0 x ltac:(lia) eq_refl). congruence.
      + destruct (sig_position same_sig v t) as [k|] eqn:Ek; cbn [option_map].
        * split.
          -- intros H; inversion H; subst i. destruct (proj1 (IH k) eq_refl) as [[y [Hn Hy]] Hf].
             split; [exists y; auto|]. intros [|j] z Hj Hz; cbn in Hz.
             ++ inversion Hz; subst; exact E.
             ++ eapply Hf; [|eassumption]. lia.
          -- intros [[y [Hn Hy]] Hf]. destruct i as [|i]; cbn in Hn.
             ++ inversion Hn; subst. congruence.
             ++ f_equal. symmetry. assert (Some k = Some i) as HH; [|now inversion HH].
                apply IH. split; [exists y; auto|].
                intros j z Hj Hz. apply (Hf (S j) z); [lia | exact Hz].
        * split; [discriminate|]. intros [[y [Hn Hy]] Hf]. destruct i as [|i]; cbn in Hn.
          -- inversion Hn; subst. congruence.
          -- exfalso. assert (None = Some i) as HH; [|discriminate HH].
             apply IH. split; [exists y; auto|].
             intros j z Hj Hz. apply (Hf (S j) z); [lia | exact Hz].
  Qed.

  Lemma sig_position_None v l :
    sig_position same_sig v l = None <-> forall x, In x l -> same_sig x v = false.
  Proof.
    induction l as [|x t IH]; cbn [sig_position].
    - split; [intros _ ? []| reflexivity].
    - destruct (same_sig x v) eqn:E.
      + split; [discriminate|]. intros H. specialize (H x (or_introl eq_refl)). congruence.
      + destruct (sig_position same_sig v t) as [k|]; cbn [option_map].
        * split; [discriminate|]. intros H.
          assert (Some k = None) as HH; [|discriminate HH]. apply IH. intros y Hy. apply H. now right.
        * split; [|reflexivity]. intros _ y [<-|Hy]; [exact E|]. now apply (proj1 IH).
  Qed.

  Lemma set_nth_length i v (l : list A) : length (set_nth i v l) = length l.
  Proof. revert i. induction l as [|x t IH]; intros [|i]; cbn; auto. Qed.

  Lemma set_nth_same i v (l : list A) : i < length l -> nth_error (set_nth i v l) i = Some v.
  Proof.
    revert i. induction l as [|x t IH]; intros [|i] H; cbn in *; try lia; auto. apply IH. lia.
  Qed.

  Lemma set_nth_other i j v (l : list A) : i <> j -> nth_error (set_nth i v l) j = nth_error l j.
  Proof.
    revert i j. induction l as [|x t IH]; intros [|i] [|j] H; cbn; auto; try lia.
  Qed.

  (** Redefinition with an existing signature: same length, the new value sits at the position of
      the first element with that signature, every other position is untouched. *)
  Lemma replace_existing l v i :
    sig_position same_sig v l = Some i ->
    length (replace same_sig l v) = length l /\
    nth_error (replace same_sig l v) i = Some v /\
    forall j, j <> i -> nth_error (replace same_sig l v) j = nth_error l j.
  Proof.
    intros E. unfold replace. rewrite E.
    assert (Hi : i < length l).
    { apply sig_position_Some in E. destruct E as [[x [Hn _]] _]. apply nth_error_Some. congruence. }
    split; [apply set_nth_length|]. split; [now apply set_nth_same|].
    intros j Hj. apply set_nth_other. congruence.
  Qed.

  (** New signature: appended at the end. *)
  Lemma replace_fresh l v :
    sig_position same_sig v l = None -> replace same_sig l v = l ++ [v].
  Proof. intros E. unfold replace. now rewrite E. Qed.
End Replace.

Lemma nth_error_ext' {A} (l l' : list A) : (forall j, nth_error l j = nth_error l' j) -> l = l'.
Proof.
  revert l'. induction l as [|x l IH]; intros [|y l'] H.
  - reflexivity.
  - specialize (H 0). discriminate H.
  - specialize (H 0). discriminate H.
  - pose proof (H 0) as H0. cbn in H0. inversion H0; subst. f_equal. apply IH.
    intros j. apply (H (S j)).
Qed.

(** After a redefinition the lookups answer from the same position and return the NEW body. *)
Lemma replace_ids cs c i :
  sig_position calib_sig_eqb c cs = Some i ->
  map c_id (replace calib_sig_eqb cs c) = map c_id cs.
Proof.
  intros E. pose proof (replace_existing calib_sig_eqb cs c i E) as (Hlen & Hi & Hother).
  apply sig_position_Some in E. destruct E as [[x [Hn Hx]] _].
  unfold calib_sig_eqb in Hx. apply gate_eqb_eq in Hx.
  apply nth_error_ext'. intros j. rewrite !nth_error_map.
  destruct (Nat.eq_dec j i) as [->|Hne].
  - rewrite Hi, Hn. cbn. congruence.
  - now rewrite Hother.
Qed.

Lemma GateBest_ids simp cs cs' g i :
  map c_id cs = map c_id cs' -> GateBest simp cs g i -> GateBest simp cs' g i.
Proof.
  intros E. assert (Hlen : length cs = length cs') by (rewrite <- (map_length c_id cs), E; apply map_length).
  assert (Hid : forall j, c_id (nth j cs dummy_calib) = c_id (nth j cs' dummy_calib)).
  { intros j. change (c_id (nth j cs dummy_calib)) with (c_id (nth j cs dummy_calib)).
    rewrite <- !(map_nth c_id). now rewrite E. }
  unfold GateBest. rewrite <- Hlen. apply Best_ext; intros j _; now rewrite Hid.
Qed.

Theorem lookup_after_replace simp cs c i g :
  sig_position calib_sig_eqb c cs = Some i ->
  option_map fst (get_match_for_gate simp (replace calib_sig_eqb cs c) g)
  = option_map fst (get_match_for_gate simp cs g) /\
  (forall c', get_match_for_gate simp (replace calib_sig_eqb cs c) g = Some (i, c') -> c' = c).
Proof.
  intros E. pose proof (replace_ids cs c i E) as Hids. split.
  - apply chk_gate_iff_model.
    destruct (get_match_for_gate simp cs g) as [[k ck]|] eqn:Eg; cbn [option_map fst].
    + apply chk_gate_iff_model.
      destruct (get_match_for_gate simp (replace calib_sig_eqb cs c) g) as [[k' ck']|] eqn:Eg'.
      * cbn. f_equal. apply get_match_for_gate_Some in Eg, Eg'.
        destruct Eg as [_ HB], Eg' as [_ HB'].
        apply (GateBest_ids simp _ _ g k (eq_sym Hids)) in HB. eapply Best_unique; eassumption.
      * exfalso. apply get_match_for_gate_Some in Eg. destruct Eg as [Hn HB].
        rewrite get_match_for_gate_None in Eg'.
        apply (GateBest_ids simp _ _ g k (eq_sym Hids)) in HB. destruct HB as (Hk & HM & _).
        apply (Eg' (nth k (replace calib_sig_eqb cs c) dummy_calib)); [now apply nth_In | exact HM].
    + apply chk_gate_iff_model.
      destruct (get_match_for_gate simp (replace calib_sig_eqb cs c) g) as [[k' ck']|] eqn:Eg'; [|reflexivity].
      exfalso. apply get_match_for_gate_Some in Eg'. destruct Eg' as [_ HB].
      apply (GateBest_ids simp _ _ g k' Hids) in HB. destruct HB as (Hk & HM & _).
      rewrite get_match_for_gate_None in Eg.
      apply (Eg (nth k' cs dummy_calib)); [now apply nth_In | exact HM].
  - intros c' Eg. apply get_match_for_gate_Some in Eg. destruct Eg as [Hn _].
    destruct (replace_existing calib_sig_eqb cs c i E) as (_ & Hi & _). congruence.
Qed.

(** * The set checker *)

Section ChkSetProofs.
  Context {A : Type} (same_sig : A -> A -> bool) (d : A).

  (** What a sequence of [replace] calls must leave, stated on positions into the definition
      sequence: elements are definitions; each is the last definition with its signature; an
      element standing before another has a definition of its signature before every definition
      of the other's signature (order of first definition); every definition's signature is
      represented. *)
  Definition SetSpec (defs : list A) (s : list nat) : Prop :=
    (forall k, In k s -> k < length defs) /\
    (forall k, In k s -> forall j, j < length defs ->
        same_sig (nth j defs d) (nth k defs d) = true -> j <= k) /\
    (forall a b k k', a < b -> nth_error s a = Some k -> nth_error s b = Some k' ->
        exists f, f < length defs /\ same_sig (nth f defs d) (nth k defs d) = true /\
          forall j, j < length defs -> same_sig (nth j defs d) (nth k' defs d) = true -> f < j) /\
    (forall v, In v defs -> exists k, In k s /\ same_sig (nth k defs d) v = true).

  Lemma last_pos_acc v l i acc :
    last_pos same_sig v l i acc = acc \/ i <= last_pos same_sig v l i acc.
  Proof.
    revert i acc. induction l as [|x t IH]; intros i acc; cbn [last_pos]; [now left|].
    destruct (same_sig x v).
    - right. destruct (IH (S i) i) as [->|H]; lia.
    - destruct (IH (S i) acc) as [->|H]; [now left | right; lia].
  Qed.

  Lemma last_pos_ge v l : forall i acc j,
    j < length l -> same_sig (nth j l d) v = true -> i + j <= last_pos same_sig v l i acc.
  Proof.
    induction l as [|x t IH]; intros i acc j Hj Hs; cbn in Hj; [lia|].
    cbn [last_pos]. destruct j as [|j]; cbn [nth] in Hs.
    - rewrite Hs. destruct (last_pos_acc v t (S i) i) as [->|H]; lia.
    - specialize (IH (S i) (if same_sig x v then i else acc) j ltac:(lia) Hs). lia.
  Qed.

  Lemma first_pos_bounds v l i :
    i <= first_pos same_sig v l i <= i + length l.
  Proof.
    revert i. induction l as [|x t IH]; intros i; cbn [first_pos length]; [lia|].
    destruct (same_sig x v); [lia|]. specialize (IH (S i)). lia.
  Qed.

  Lemma first_pos_le v l : forall i j,
    j < length l -> same_sig (nth j l d) v = true -> first_pos same_sig v l i <= i + j.
  Proof.
    induction l as [|x t IH]; intros i j Hj Hs; cbn in Hj; [lia|].
    cbn [first_pos]. destruct (same_sig x v) eqn:E; [lia|].
    destruct j as [|j]; cbn [nth] in Hs; [congruence|].
    specialize (IH (S i) j ltac:(lia) Hs). lia.
  Qed.

  Lemma first_pos_hit v l : forall i,
    first_pos same_sig v l i < i + length l ->
    same_sig (nth (first_pos same_sig v l i - i) l d) v = true.
  Proof.
    induction l as [|x t IH]; intros i H; cbn [first_pos length] in *; [lia|].
    destruct (same_sig x v) eqn:E.
    - now rewrite Nat.sub_diag.
    - pose proof (first_pos_bounds v t (S i)) as Hb.
      specialize (IH (S i) ltac:(lia)).
      replace (first_pos same_sig v t (S i) - i) with (S (first_pos same_sig v t (S i) - S i)) by lia.
      exact IH.
  Qed.

  Lemma increasing_nth l : increasing l = true ->
    forall a b x y, a < b -> nth_error l a = Some x -> nth_error l b = Some y -> x < y.
  Proof.
    induction l as [|u t IH]; intros H a b x y Hab Ha Hb.
    - destruct a; discriminate Ha.
    - destruct t as [|w t'].
      + destruct b as [|[|b]]; [lia| discriminate Hb | discriminate Hb].
      + cbn [increasing] in H. apply andb_true_iff in H. destruct H as [Huw Hinc].
        apply Nat.ltb_lt in Huw.
        destruct b as [|b]; [lia|]. cbn [nth_error] in Hb.
        destruct a as [|a]; cbn [nth_error] in Ha.
        * inversion Ha; subst x. destruct b as [|b].
          -- cbn in Hb. inversion Hb; subst. exact Huw.
          -- assert (w < y); [|lia]. apply (IH Hinc 0 (S b) w y); [lia | reflexivity | exact Hb].
        * apply (IH Hinc a b x y); [lia | exact Ha | exact Hb].
  Qed.

  Theorem chk_set_sound defs s : chk_set same_sig d defs s = true -> SetSpec defs s.
  Proof.
    unfold chk_set. rewrite !andb_true_iff, !forallb_forall.
    intros [[[Hlt Hlast] Hinc] Hcov]. repeat split.
    - intros k Hk. apply Nat.ltb_lt. now apply Hlt.
    - intros k Hk j Hj Hs. specialize (Hlast k Hk). apply Nat.eqb_eq in Hlast.
      pose proof (last_pos_ge (nth k defs d) defs 0 k j Hj Hs) as H. lia.
    - intros a b k k' Hab Ha Hb.
      pose proof (increasing_nth _ Hinc a b
                    (first_pos same_sig (nth k defs d) defs 0) (first_pos same_sig (nth k' defs d) defs 0) Hab) as H.
      rewrite !nth_error_map, Ha, Hb in H. specialize (H eq_refl eq_refl).
      pose proof (first_pos_bounds (nth k' defs d) defs 0) as Hb'.
      exists (first_pos same_sig (nth k defs d) defs 0). split; [lia|]. split.
      + pose proof (first_pos_hit (nth k defs d) defs 0 ltac:(lia)) as Hh.
        now rewrite Nat.sub_0_r in Hh.
      + intros j Hj Hs. pose proof (first_pos_le (nth k' defs d) defs 0 j Hj Hs). lia.
    - intros v Hv. specialize (Hcov v Hv). apply existsb_exists in Hcov.
      destruct Hcov as (k & Hk & Hs). exists k. auto.
  Qed.
End ChkSetProofs.

(** * [build]: a definition sequence inserted one by one *)

Section Build.
  Context {A : Type} (same_sig : A -> A -> bool).
  Hypothesis sig_refl : forall x, same_sig x x = true.
  Hypothesis sig_sym : forall x y, same_sig x y = same_sig y x.
  Hypothesis sig_trans : forall x y z, same_sig x y = true -> same_sig y z = true -> same_sig x z = true.

  Lemma build_snoc l v : build same_sig (l ++ [v]) = replace same_sig (build same_sig l) v.
  Proof. unfold build, extend. now rewrite fold_left_app. Qed.

  Lemma extend_app l vs ws : extend same_sig l (vs ++ ws) = extend same_sig (extend same_sig l vs) ws.
  Proof. unfold extend. apply fold_left_app. Qed.

  (** Signatures in the set are pairwise distinct. *)
  Definition SigUnique (l : list A) : Prop :=
    forall i j x y, i < j -> nth_error l i = Some x -> nth_error l j = Some y -> same_sig x y = false.

  Lemma replace_SigUnique l v : SigUnique l -> SigUnique (replace same_sig l v).
  Proof.
    intros HU. destruct (sig_position same_sig v l) as [p|] eqn:E.
    - destruct (replace_existing same_sig l v p E) as (Hlen & Hp & Hother).
      apply sig_position_Some in E. destruct E as [[xp [Hnp Hsp]] Hfirst].
      intros i j x y Hij Hi Hj.
      destruct (Nat.eq_dec i p) as [->|Hip]; destruct (Nat.eq_dec j p) as [->|Hjp]; try lia.
      + rewrite Hp in Hi. inversion Hi; subst x. rewrite Hother in Hj by assumption.
        destruct (same_sig v y) eqn:Evy; [|reflexivity].
        rewrite <- (HU p j xp y Hij Hnp Hj). symmetry. apply sig_trans with v; assumption.
      + rewrite Hp in Hj. inversion Hj; subst y. rewrite Hother in Hi by assumption.
        apply (Hfirst i x Hij Hi).
      + rewrite Hother in Hi, Hj by assumption. exact (HU i j x y Hij Hi Hj).
    - rewrite (replace_fresh same_sig l v E).
      rewrite sig_position_None in E.
      intros i j x y Hij Hi Hj.
      assert (Hjl : j < length (l ++ [v])) by (apply nth_error_Some; congruence).
      rewrite app_length in Hjl. cbn in Hjl.
      rewrite nth_error_app1 in Hi by lia.
      destruct (Nat.eq_dec j (length l)) as [->|Hne].
      + rewrite nth_error_app2 in Hj by lia. rewrite Nat.sub_diag in Hj. cbn in Hj.
        inversion Hj; subst y. apply E. eapply nth_error_In; eassumption.
      + rewrite nth_error_app1 in Hj by lia. exact (HU i j x y Hij Hi Hj).
  Qed.

  Theorem extend_SigUnique vs : forall l, SigUnique l -> SigUnique (extend same_sig l vs).
  Proof.
    induction vs as [|v vs IH]; intros l HU; cbn; [exact HU|].
    apply IH. now apply replace_SigUnique.
  Qed.

  Theorem build_SigUnique vs : SigUnique (build same_sig vs).
  Proof. apply extend_SigUnique. intros i j x y _ Hi. destruct i; discriminate Hi. Qed.

  (** Every element of the set is one of the definitions, and every definition's signature is
      represented by the LAST definition carrying it. *)
  Lemma replace_In l v x : In x (replace same_sig l v) -> In x l \/ x = v.
  Proof.
    destruct (sig_position same_sig v l) as [p|] eqn:E.
    - destruct (replace_existing same_sig l v p E) as (Hlen & Hp & Hother).
      intros Hin. apply In_nth_error in Hin. destruct Hin as [j Hj].
      destruct (Nat.eq_dec j p) as [->|Hne].
      + rewrite Hp in Hj. inversion Hj. now right.
      + rewrite Hother in Hj by assumption. left. eapply nth_error_In; eassumption.
    - rewrite (replace_fresh same_sig l v E). intros Hin. apply in_app_or in Hin.
      destruct Hin as [H|[H|[]]]; auto.
  Qed.

  Lemma replace_has_new l v : In v (replace same_sig l v).
  Proof.
    destruct (sig_position same_sig v l) as [p|] eqn:E.
    - destruct (replace_existing same_sig l v p E) as (_ & Hp & _). eapply nth_error_In; eassumption.
    - rewrite (replace_fresh same_sig l v E). apply in_or_app. right. now left.
  Qed.

  (** An element with a different signature survives a [replace]; one with the same signature is
      overwritten by the new value. *)
  Lemma replace_keeps l v x : In x l -> same_sig x v = false -> In x (replace same_sig l v).
  Proof.
    intros Hin Hs. destruct (sig_position same_sig v l) as [p|] eqn:E.
    - destruct (replace_existing same_sig l v p E) as (_ & _ & Hother).
      apply In_nth_error in Hin. destruct Hin as [j Hj].
      apply sig_position_Some in E. destruct E as [[xp [Hnp Hsp]] _].
      assert (j <> p) by (intros ->; congruence).
      rewrite <- Hother in Hj by assumption. eapply nth_error_In; eassumption.
    - rewrite (replace_fresh same_sig l v E). apply in_or_app. now left.
  Qed.

  Lemma replace_drops l v x : SigUnique l -> In x (replace same_sig l v) -> same_sig x v = true -> x = v.
  Proof.
    intros HU Hin Hs. pose proof (replace_SigUnique l v HU) as HU'.
    pose proof (replace_has_new l v) as Hv.
    apply In_nth_error in Hin. destruct Hin as [i Hi].
    apply In_nth_error in Hv. destruct Hv as [j Hj].
    destruct (Nat.lt_trichotomy i j) as [Hlt|[->|Hgt]].
    - rewrite (HU' i j x v Hlt Hi Hj) in Hs. discriminate.
    - congruence.
    - rewrite sig_sym in Hs. rewrite (HU' j i v x Hgt Hj Hi) in Hs. discriminate.
  Qed.

  (** The element representing a signature after [build (l1 ++ v :: l2)], when no later
      definition has [v]'s signature, is [v] itself: the last definition wins. *)
  Theorem build_last_wins l1 v l2 :
    (forall y, In y l2 -> same_sig y v = false) ->
    In v (build same_sig (l1 ++ v :: l2)) /\
    forall x, In x (build same_sig (l1 ++ v :: l2)) -> same_sig x v = true -> x = v.
  Proof.
    intros Hl2. unfold build.
    replace (l1 ++ v :: l2) with ((l1 ++ [v]) ++ l2) by (now rewrite <- app_assoc).
    rewrite extend_app. fold (build same_sig (l1 ++ [v])). rewrite build_snoc.
    set (s0 := replace same_sig (build same_sig l1) v).
    assert (HU0 : SigUnique s0) by (apply replace_SigUnique, build_SigUnique).
    assert (H0 : In v s0 /\ forall x, In x s0 -> same_sig x v = true -> x = v).
    { split; [apply replace_has_new|]. intros x Hx Hs.
      exact (replace_drops (build same_sig l1) v x (build_SigUnique l1) Hx Hs). }
    clearbody s0. revert s0 HU0 H0. induction l2 as [|w l2 IH]; intros s0 HU0 [Hin Huniq]; cbn [extend fold_left].
    - split; assumption.
    - apply IH.
      + intros y Hy. apply Hl2. now right.
      + now apply replace_SigUnique.
      + assert (Hwv : same_sig w v = false) by (apply Hl2; now left).
        split.
        * apply replace_keeps; [exact Hin|]. now rewrite sig_sym.
        * intros x Hx Hs. destruct (replace_In _ _ _ Hx) as [Hx' | ->]; [now apply Huniq | congruence].
  Qed.

  (** Every definition's signature is represented. *)
  Theorem build_covers vs v : In v vs -> exists x, In x (build same_sig vs) /\ same_sig x v = true.
  Proof.
    induction vs as [|w vs IH] using rev_ind; [intros []|].
    intros Hin. rewrite build_snoc. apply in_app_or in Hin. destruct Hin as [Hin|[<-|[]]].
    - destruct (IH Hin) as (x & Hx & Hs). destruct (same_sig x w) eqn:Exw.
      + exists w. split; [apply replace_has_new|]. apply sig_trans with x; [|exact Hs].
        now rewrite sig_sym.
      + exists x. split; [now apply replace_keeps | exact Hs].
    - exists w. split; [apply replace_has_new | apply sig_refl].
  Qed.

  Theorem build_from_defs vs x : In x (build same_sig vs) -> In x vs.
  Proof.
    induction vs as [|w vs IH] using rev_ind; [intros []|].
    rewrite build_snoc. intros H. apply in_or_app. destruct (replace_In _ _ _ H) as [H' | ->].
    - left. now apply IH.
    - right. now left.
  Qed.

  (** Order: [replace] never moves an element, so the set after more insertions keeps the earlier
      set's elements' positions (possibly overwritten in place) and only appends. *)
  Theorem replace_prefix_positions l v i x :
    nth_error l i = Some x ->
    exists x', nth_error (replace same_sig l v) i = Some x' /\ same_sig x' x = true.
  Proof.
    intros Hi. destruct (sig_position same_sig v l) as [p|] eqn:E.
    - destruct (replace_existing same_sig l v p E) as (_ & Hp & Hother).
      destruct (Nat.eq_dec i p) as [->|Hne].
      + exists v. split; [exact Hp|]. apply sig_position_Some in E.
        destruct E as [[xp [Hnp Hsp]] _]. rewrite Hnp in Hi. inversion Hi; subst. now rewrite sig_sym.
      + exists x. split; [now rewrite Hother | apply sig_refl].
    - rewrite (replace_fresh same_sig l v E). exists x. split; [|apply sig_refl].
      rewrite nth_error_app1; [exact Hi | apply nth_error_Some; congruence].
  Qed.
End Build.

Lemma calib_sig_refl x : calib_sig_eqb x x = true.
Proof. unfold calib_sig_eqb. now apply gate_eqb_eq. Qed.
Lemma calib_sig_sym x y : calib_sig_eqb x y = calib_sig_eqb y x.
Proof.
  unfold calib_sig_eqb. destruct (gate_eqb (c_id x) (c_id y)) eqn:E1, (gate_eqb (c_id y) (c_id x)) eqn:E2;
    try reflexivity.
  - apply gate_eqb_eq in E1. rewrite E1 in E2. now rewrite (proj2 (gate_eqb_eq _ _) eq_refl) in E2.
  - apply gate_eqb_eq in E2. rewrite E2 in E1. now rewrite (proj2 (gate_eqb_eq _ _) eq_refl) in E1.
Qed.
Lemma calib_sig_trans x y z : calib_sig_eqb x y = true -> calib_sig_eqb y z = true -> calib_sig_eqb x z = true.
Proof. unfold calib_sig_eqb. rewrite !gate_eqb_eq. congruence. Qed.

Lemma mcalib_sig_refl x : mcalib_sig_eqb x x = true.
Proof. unfold mcalib_sig_eqb. now apply meas_eqb_eq. Qed.
Lemma mcalib_sig_sym x y : mcalib_sig_eqb x y = mcalib_sig_eqb y x.
Proof.
  unfold mcalib_sig_eqb. destruct (meas_eqb (mc_id x) (mc_id y)) eqn:E1, (meas_eqb (mc_id y) (mc_id x)) eqn:E2;
    try reflexivity.
  - apply meas_eqb_eq in E1. rewrite E1 in E2. now rewrite (proj2 (meas_eqb_eq _ _) eq_refl) in E2.
  - apply meas_eqb_eq in E2. rewrite E2 in E1. now rewrite (proj2 (meas_eqb_eq _ _) eq_refl) in E1.
Qed.
Lemma mcalib_sig_trans x y z : mcalib_sig_eqb x y = true -> mcalib_sig_eqb y z = true -> mcalib_sig_eqb x z = true.
Proof. unfold mcalib_sig_eqb. rewrite !meas_eqb_eq. congruence. Qed.

(** * Explicit forms of the optimum used in the pinned statements *)

Lemma GateBest_explicit simp cs g i c :
  nth_error cs i = Some c ->
  (GateBest simp cs g i <->
   Match simp (c_id c) g /\
   forall j c', nth_error cs j = Some c' -> Match simp (c_id c') g ->
     fixed_count (c_id c') < fixed_count (c_id c) \/
     (fixed_count (c_id c') = fixed_count (c_id c) /\ j <= i)).
Proof.
  intros Hn. pose proof (nth_error_nth _ _ dummy_calib Hn) as Hc.
  assert (Hi : i < length cs) by (apply nth_error_Some; congruence).
  unfold GateBest, Best. rewrite Hc. split.
  - intros (_ & HM & H). split; [exact HM|]. intros j c' Hj HM'.
    pose proof (nth_error_nth _ _ dummy_calib Hj) as Hc'.
    assert (Hjl : j < length cs) by (apply nth_error_Some; congruence).
    specialize (H j Hjl). rewrite Hc' in H. now apply H.
  - intros (HM & H). split; [exact Hi|]. split; [exact HM|]. intros j Hj HM'.
    apply (H j (nth j cs dummy_calib)); [now apply nth_error_nth' | exact HM'].
Qed.

Lemma MeasBest_explicit ms m i c :
  nth_error ms i = Some c ->
  (MeasBest ms m i <->
   MMatch (mc_id c) m /\
   forall j c', nth_error ms j = Some c' -> MMatch (mc_id c') m ->
     mrank (mc_id c') < mrank (mc_id c) \/ (mrank (mc_id c') = mrank (mc_id c) /\ j <= i)).
Proof.
  intros Hn. pose proof (nth_error_nth _ _ dummy_mcalib Hn) as Hc.
  assert (Hi : i < length ms) by (apply nth_error_Some; congruence).
  unfold MeasBest, Best. rewrite Hc. split.
  - intros (_ & HM & H). split; [exact HM|]. intros j c' Hj HM'.
    pose proof (nth_error_nth _ _ dummy_mcalib Hj) as Hc'.
    assert (Hjl : j < length ms) by (apply nth_error_Some; congruence).
    specialize (H j Hjl). rewrite Hc' in H. now apply H.
  - intros (HM & H). split; [exact Hi|]. split; [exact HM|]. intros j Hj HM'.
    apply (H j (nth j ms dummy_mcalib)); [now apply nth_error_nth' | exact HM'].
Qed.

Theorem gate_lookup_explicit simp cs g i c :
  get_match_for_gate simp cs g = Some (i, c) <->
  nth_error cs i = Some c /\ Match simp (c_id c) g /\
  forall j c', nth_error cs j = Some c' -> Match simp (c_id c') g ->
    fixed_count (c_id c') < fixed_count (c_id c) \/
    (fixed_count (c_id c') = fixed_count (c_id c) /\ j <= i).
Proof.
  rewrite get_match_for_gate_Some. split.
  - intros [Hn HB]. split; [exact Hn|]. now apply (GateBest_explicit simp cs g i c Hn).
  - intros [Hn H]. split; [exact Hn|]. now apply (GateBest_explicit simp cs g i c Hn).
Qed.

Theorem meas_lookup_explicit ms m i c :
  get_match_for_measurement ms m = Some (i, c) <->
  nth_error ms i = Some c /\ MMatch (mc_id c) m /\
  forall j c', nth_error ms j = Some c' -> MMatch (mc_id c') m ->
    mrank (mc_id c') < mrank (mc_id c) \/ (mrank (mc_id c') = mrank (mc_id c) /\ j <= i).
Proof.
  rewrite get_match_for_measurement_Some. split.
  - intros [Hn HB]. split; [exact Hn|]. now apply (MeasBest_explicit ms m i c Hn).
  - intros [Hn H]. split; [exact Hn|]. now apply (MeasBest_explicit ms m i c Hn).
Qed.
