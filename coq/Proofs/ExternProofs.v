(** Proofs about the extern-signature / CALL-resolution model (C31). *)
From Coq Require Import String Ascii Decimal DecimalN.
From Coq Require Import List NArith Bool Lia.
From QV Require Import Model.Extern.
Import ListNotations.
Open Scope N_scope.

(** * Part A — CALL resolution *)

Definition oks {A B} (rs : list (A + B)) : list A :=
  flat_map (fun r => match r with inl x => [x] | inr _ => [] end) rs.
Definition errs {A B} (rs : list (A + B)) : list B :=
  flat_map (fun r => match r with inl _ => [] | inr e => [e] end) rs.

Lemma errs_cons_inl : forall {A B} (x : A) (rs : list (A + B)), errs (inl x :: rs) = errs rs.
Proof. reflexivity. Qed.
Lemma errs_cons_inr : forall {A B} (e : B) (rs : list (A + B)), errs (inr e :: rs) = e :: errs rs.
Proof. reflexivity. Qed.

Lemma fold_inr : forall (rs : list (rarg + cerr)) es,
  fold_left fold_step rs (inr es) = inr (es ++ errs rs).
Proof.
  induction rs as [|r rs IH]; intros es; cbn [fold_left errs flat_map].
  - rewrite app_nil_r; reflexivity.
  - destruct r as [x|e]; cbn [fold_step].
    + rewrite IH; reflexivity.
    + rewrite IH, <- app_assoc; reflexivity.
Qed.

Lemma fold_inl : forall (rs : list (rarg + cerr)) acc,
  fold_left fold_step rs (inl acc) =
  match errs rs with [] => inl (acc ++ oks rs) | es => inr es end.
Proof.
  induction rs as [|r rs IH]; intros acc; cbn [fold_left errs oks flat_map].
  - rewrite app_nil_r; reflexivity.
  - destruct r as [x|e]; cbn [fold_step app].
    + rewrite IH, <- app_assoc; reflexivity.
    + rewrite fold_inr; reflexivity.
Qed.

Lemma scalar_eqb_eq : forall x y, scalar_eqb x y = true <-> x = y.
Proof. intros [] []; cbn; split; intros H; try reflexivity; discriminate H. Qed.

Definition is_inl {A B} (x : A + B) : bool := match x with inl _ => true | inr _ => false end.

Lemma resolve_ref_ok : forall D v i t m, is_inl (resolve_ref D v i t m) = has_type D v t.
Proof.
  intros D v i t m; unfold resolve_ref, has_type, ty_of.
  destruct (lookup D v) as [[t' n']|]; cbn [option_map fst]; [|reflexivity].
  destruct (scalar_eqb t' t); reflexivity.
Qed.

Lemma resolve_param_ok : forall D a p, is_inl (resolve_param D a p) = slot_rule_b D p a.
Proof.
  intros D a p; unfold resolve_param, slot_rule_b.
  destruct a as [v|v i|]; destruct (pty p) as [t|t n|t]; try apply resolve_ref_ok; try reflexivity.
  - destruct (lookup D v) as [[t' n']|]; [|reflexivity].
    destruct (scalar_eqb t' t && N.eqb n' n); reflexivity.
  - unfold has_type, ty_of. destruct (lookup D v) as [[t' n']|]; cbn [option_map fst]; [|reflexivity].
    destruct (scalar_eqb t' t); reflexivity.
  - destruct (pmut p); reflexivity.
  - destruct (pmut p); reflexivity.
  - destruct (pmut p); reflexivity.
Qed.

Lemma resolve_return_ok : forall D a t, is_inl (resolve_return D a t) = ret_rule_b D t a.
Proof. intros D [v|v i|] t; cbn [resolve_return ret_rule_b]; try apply resolve_ref_ok; reflexivity. Qed.

(** errors among the parameter slots = exactly the failing slots, in order *)
Lemma errs_slot_results : forall D ps args k,
  Forall2 (fun e j => exists r, e = CArg j r) (errs (slot_results D k ps args)) (failing_slots D k ps args).
Proof.
  intros D ps; induction ps as [|p ps IH]; intros [|a args] k;
    cbn [slot_results failing_slots errs flat_map]; try constructor.
  pose proof (resolve_param_ok D a p) as Hok.
  destruct (resolve_param D a p) as [r|e]; cbn [is_inl] in Hok; rewrite <- Hok; cbn [app].
  - apply IH.
  - constructor; [exists e; reflexivity | apply IH].
Qed.

Lemma failing_slots_nil : forall D ps args k,
  length ps = length args ->
  (failing_slots D k ps args = [] <-> slots_rule_b D ps args = true).
Proof.
  intros D ps; induction ps as [|p ps IH]; intros [|a args] k Hlen; cbn in Hlen; try discriminate Hlen;
    cbn [failing_slots slots_rule_b].
  - split; reflexivity.
  - injection Hlen as Hlen. destruct (slot_rule_b D p a); cbn [app andb].
    + apply IH, Hlen.
    + split; intros H; discriminate H.
Qed.

Lemma slots_rule_length : forall D ps args, slots_rule_b D ps args = true -> length ps = length args.
Proof.
  intros D ps; induction ps as [|p ps IH]; intros [|a args] H; cbn [slots_rule_b] in H;
    try discriminate H; [reflexivity|].
  apply andb_true_iff in H; destruct H as [_ H]; cbn [length]; f_equal; apply IH, H.
Qed.

Lemma errs_nil_slots : forall D ps args k,
  length ps = length args ->
  (errs (slot_results D k ps args) = [] <-> slots_rule_b D ps args = true).
Proof.
  intros D ps args k Hlen; rewrite <- (failing_slots_nil D ps args k Hlen).
  pose proof (errs_slot_results D ps args k) as HF.
  split; intros H; rewrite H in HF; inversion HF; reflexivity.
Qed.

Definition expected_count (s : signature) : N :=
  N.of_nat (length (snd s)) + (match fst s with Some _ => 1 | None => 0 end).

Lemma resolve_call_count : forall D s args,
  N.of_nat (length args) <> expected_count s ->
  resolve_call D s args = CCount (expected_count s) (N.of_nat (length args)).
Proof.
  intros D s args H; unfold resolve_call; fold (expected_count s).
  destruct (N.eqb (N.of_nat (length args)) (expected_count s)) eqn:E; cbn [negb]; [|reflexivity].
  apply N.eqb_eq in E; contradiction.
Qed.

Lemma resolve_call_fold : forall D s args,
  N.of_nat (length args) = expected_count s ->
  resolve_call D s args =
  match errs (all_results D s args) with
  | [] => COk (oks (all_results D s args))
  | es => CArgs es
  end.
Proof.
  intros D s args H; unfold resolve_call; fold (expected_count s).
  rewrite H, N.eqb_refl; cbn [negb]. rewrite fold_inl; cbn [app].
  destruct (errs (all_results D s args)); reflexivity.
Qed.

(** acceptance is exactly: arity, return-slot rule, per-slot rule *)
Theorem resolve_call_ok : forall D s args, is_cok (resolve_call D s args) = call_rule_b D s args.
Proof.
  intros D [ret ps] args.
  destruct (N.eq_dec (N.of_nat (length args)) (expected_count (ret, ps))) as [Hc|Hc].
  - rewrite (resolve_call_fold _ _ _ Hc). unfold expected_count, all_results, call_rule_b in *.
    cbn [fst snd] in *. destruct ret as [t|].
    + destruct args as [|a args]; [cbn in Hc; lia|].
      assert (Hlen : length ps = length args) by (cbn [length] in Hc; lia).
      pose proof (resolve_return_ok D a t) as Hr.
      destruct (resolve_return D a t) as [r|e]; cbn [is_inl] in Hr; rewrite <- Hr; cbn [andb];
        [rewrite errs_cons_inl | rewrite errs_cons_inr].
      * destruct (errs (slot_results D 0 ps args)) eqn:E; cbn [is_cok].
        -- symmetry; apply errs_nil_slots with (k := 0); assumption.
        -- destruct (slots_rule_b D ps args) eqn:S; [|reflexivity].
           apply (errs_nil_slots D ps args 0 Hlen) in S; rewrite S in E; discriminate E.
      * reflexivity.
    + assert (Hlen : length ps = length args) by lia.
      destruct (errs (slot_results D 0 ps args)) eqn:E; cbn [is_cok].
      * symmetry; apply errs_nil_slots with (k := 0); assumption.
      * destruct (slots_rule_b D ps args) eqn:S; [|reflexivity].
        apply (errs_nil_slots D ps args 0 Hlen) in S; rewrite S in E; discriminate E.
  - rewrite (resolve_call_count _ _ _ Hc); cbn [is_cok]. symmetry.
    unfold expected_count, call_rule_b in *; cbn [fst snd] in *.
    destruct ret as [t|].
    + destruct args as [|a args]; [reflexivity|].
      destruct (slots_rule_b D ps args) eqn:S; [|apply andb_false_r].
      apply slots_rule_length in S; cbn [length] in Hc; lia.
    + destruct (slots_rule_b D ps args) eqn:S; [|reflexivity].
      apply slots_rule_length in S; lia.
Qed.

(** ** The rules as worded in the property *)

(** region [v] is declared with scalar type [t] *)
Definition declared_as (D : decls) (v : name) (t : scalar) : Prop :=
  exists n, lookup D v = Some (t, n).

(** return slot: a declared memory reference or name of the return type *)
Definition ret_rule (D : decls) (t : scalar) (a : arg) : Prop :=
  exists v, (a = AIdent v \/ exists i, a = ARef v i) /\ declared_as D v t.

(** parameter slot *)
Definition slot_rule (D : decls) (p : param) (a : arg) : Prop :=
  match pty p with
  | PScalar t =>
      (* a declared reference (or bare name) of its type, or - if immutable - an immediate *)
      (exists v, (a = AIdent v \/ exists i, a = ARef v i) /\ declared_as D v t)
      \/ (a = AImm /\ pmut p = false)
  | PFixed t n =>
      (* the name of a region whose type and size match *)
      exists v, a = AIdent v /\ lookup D v = Some (t, n)
  | PVar t =>
      (* the name of a region whose type matches *)
      exists v, a = AIdent v /\ declared_as D v t
  end.

Definition call_rule (D : decls) (s : signature) (args : list arg) : Prop :=
  match fst s with
  | None => Forall2 (slot_rule D) (snd s) args
  | Some t => exists a args', args = a :: args' /\ ret_rule D t a /\ Forall2 (slot_rule D) (snd s) args'
  end.

Lemma has_type_spec : forall D v t, has_type D v t = true <-> declared_as D v t.
Proof.
  intros D v t; unfold has_type, ty_of, declared_as.
  destruct (lookup D v) as [[t' n']|]; cbn [option_map fst].
  - rewrite scalar_eqb_eq; split; [intros ->; exists n'; reflexivity | intros [n H]; congruence].
  - split; [intros H; discriminate H | intros [n H]; discriminate H].
Qed.

Lemma ret_rule_spec : forall D t a, ret_rule_b D t a = true <-> ret_rule D t a.
Proof.
  intros D t [v|v i|]; cbn [ret_rule_b]; unfold ret_rule.
  - rewrite has_type_spec; split.
    + intros H; exists v; split; [left; reflexivity | exact H].
    + intros (w & [E | [i E]] & H); [injection E as -> | discriminate E]; exact H.
  - rewrite has_type_spec; split.
    + intros H; exists v; split; [right; exists i; reflexivity | exact H].
    + intros (w & [E | [j E]] & H); [discriminate E | injection E as -> _]; exact H.
  - split; [intros H; discriminate H|].
    intros (w & [E | [j E]] & _); discriminate E.
Qed.

Lemma slot_rule_spec : forall D p a, slot_rule_b D p a = true <-> slot_rule D p a.
Proof.
  intros D p a; unfold slot_rule_b, slot_rule. destruct (pty p) as [t|t n|t].
  - destruct a as [v|v i|].
    + rewrite has_type_spec; split.
      * intros H; left; exists v; split; [left; reflexivity | exact H].
      * intros [(w & [E | [i E]] & H) | [E _]]; try discriminate E. injection E as ->; exact H.
    + rewrite has_type_spec; split.
      * intros H; left; exists v; split; [right; exists i; reflexivity | exact H].
      * intros [(w & [E | [j E]] & H) | [E _]]; try discriminate E. injection E as -> _; exact H.
    + rewrite negb_true_iff; split.
      * intros H; right; split; [reflexivity | exact H].
      * intros [(w & [E | [j E]] & _) | [_ H]]; try discriminate E. exact H.
  - destruct a as [v|v i|].
    + destruct (lookup D v) as [[t' n']|] eqn:L.
      * rewrite andb_true_iff, scalar_eqb_eq, N.eqb_eq; split.
        -- intros [-> ->]; exists v; split; [reflexivity | exact L].
        -- intros (w & E & H); injection E as <-; rewrite L in H; injection H as -> ->; split; reflexivity.
      * split; [intros H; discriminate H|].
        intros (w & E & H); injection E as <-; rewrite L in H; discriminate H.
    + split; [intros H; discriminate H | intros (w & E & _); discriminate E].
    + split; [intros H; discriminate H | intros (w & E & _); discriminate E].
  - destruct a as [v|v i|].
    + rewrite has_type_spec; split.
      * intros H; exists v; split; [reflexivity | exact H].
      * intros (w & E & H); injection E as <-; exact H.
    + split; [intros H; discriminate H | intros (w & E & _); discriminate E].
    + split; [intros H; discriminate H | intros (w & E & _); discriminate E].
Qed.

Lemma slots_rule_spec : forall D ps args,
  slots_rule_b D ps args = true <-> Forall2 (slot_rule D) ps args.
Proof.
  intros D ps; induction ps as [|p ps IH]; intros [|a args]; cbn [slots_rule_b].
  - split; [constructor | reflexivity].
  - split; [intros H; discriminate H | intros H; inversion H].
  - split; [intros H; discriminate H | intros H; inversion H].
  - rewrite andb_true_iff, slot_rule_spec, IH; split.
    + intros [H1 H2]; constructor; assumption.
    + intros H; inversion H; subst; split; assumption.
Qed.

Lemma call_rule_spec : forall D s args, call_rule_b D s args = true <-> call_rule D s args.
Proof.
  intros D [ret ps] args; unfold call_rule_b, call_rule; cbn [fst snd]. destruct ret as [t|].
  - destruct args as [|a args].
    + split; [intros H; discriminate H | intros (a & args' & E & _); discriminate E].
    + rewrite andb_true_iff, ret_rule_spec, slots_rule_spec; split.
      * intros [H1 H2]; exists a, args; repeat split; assumption.
      * intros (a' & args' & E & H1 & H2); injection E as <- <-; split; assumption.
  - apply slots_rule_spec.
Qed.

Theorem resolve_call_ok_iff : forall D s args,
  (exists rs, resolve_call D s args = COk rs) <-> call_rule D s args.
Proof.
  intros D s args; rewrite <- call_rule_spec, <- resolve_call_ok; split.
  - intros [rs ->]; reflexivity.
  - destruct (resolve_call D s args) as [rs| |]; intros H; try discriminate H; exists rs; reflexivity.
Qed.

Theorem resolve_call_count_iff : forall D s args,
  (exists e f, resolve_call D s args = CCount e f) <-> N.of_nat (length args) <> expected_count s.
Proof.
  intros D s args; split.
  - intros (e & f & H) Hc. rewrite (resolve_call_fold _ _ _ Hc) in H.
    destruct (errs (all_results D s args)); discriminate H.
  - intros Hc; eexists; eexists; apply resolve_call_count, Hc.
Qed.

(** failing slots, spelled out *)
Lemma failing_slots_spec : forall D ps args k j,
  In j (failing_slots D k ps args) <->
  exists i p a, j = k + N.of_nat i /\ nth_error ps i = Some p /\ nth_error args i = Some a
                /\ slot_rule_b D p a = false.
Proof.
  intros D ps; induction ps as [|p ps IH]; intros [|a args] k j; cbn [failing_slots].
  - split; [intros [] | intros (i & p & a & _ & H & _); destruct i; discriminate H].
  - split; [intros [] | intros (i & p & a' & _ & H & _); destruct i; discriminate H].
  - split; [intros [] | intros (i & p' & a & _ & _ & H & _); destruct i; discriminate H].
  - rewrite in_app_iff, IH; split.
    + intros [H | (i & p' & a' & -> & Hp & Ha & Hr)].
      * destruct (slot_rule_b D p a) eqn:R; [destruct H|].
        destruct H as [<-|[]]. exists O, p, a; repeat split; [cbn; lia | exact R].
      * exists (S i), p', a'; repeat split; try assumption. lia.
    + intros (i & p' & a' & -> & Hp & Ha & Hr). destruct i as [|i]; cbn [nth_error] in Hp, Ha.
      * injection Hp as <-; injection Ha as <-; left; rewrite Hr; left; cbn; lia.
      * right; exists i, p', a'; repeat split; try assumption. lia.
Qed.

Lemma Forall2_err_in : forall (es : list cerr) (ks : list N),
  Forall2 (fun e j => exists r, e = CArg j r) es ks ->
  (forall j, In j ks <-> exists r, In (CArg j r) es) /\ (forall r, ~ In (CReturn r) es).
Proof.
  intros es ks H; induction H as [|e j es ks [r ->] _ [IH1 IH2]].
  - split; [intros j; split; [intros [] | intros [r []]] | intros r []].
  - split.
    + intros k; cbn [In]; rewrite IH1; split.
      * intros [<- | [r' H]]; [exists r; left; reflexivity | exists r'; right; exact H].
      * intros [r' [E | H]]; [injection E as <- _; left; reflexivity | right; exists r'; exact H].
    + intros r' [E | H]; [discriminate E | exact (IH2 r' H)].
Qed.

(** the error list names every failing slot (and only failing slots), and has a return error iff
    the return-slot rule fails *)
Theorem resolve_call_errors : forall D s args es,
  resolve_call D s args = CArgs es ->
  let args' := match fst s with Some _ => tl args | None => args end in
  N.of_nat (length args) = expected_count s
  /\ (forall j, In j (failing_slots D 0 (snd s) args') <-> exists r, In (CArg j r) es)
  /\ ((exists r, In (CReturn r) es) <->
      match fst s, args with Some t, a :: _ => ret_rule_b D t a = false | _, _ => False end).
Proof.
  intros D [ret ps] args es H; cbn [fst snd].
  destruct (N.eq_dec (N.of_nat (length args)) (expected_count (ret, ps))) as [Hc|Hc];
    [|rewrite (resolve_call_count _ _ _ Hc) in H; discriminate H].
  split; [exact Hc|].
  rewrite (resolve_call_fold _ _ _ Hc) in H. unfold all_results in H; cbn [fst snd] in H.
  destruct ret as [t|].
  - destruct args as [|a args]; [unfold expected_count in Hc; cbn in Hc; lia|]. cbn [tl].
    pose proof (resolve_return_ok D a t) as Hr.
    pose proof (Forall2_err_in _ _ (errs_slot_results D ps args 0)) as [F1 F2].
    destruct (resolve_return D a t) as [r|e]; cbn [is_inl] in Hr;
      [rewrite errs_cons_inl in H | rewrite errs_cons_inr in H].
    + destruct (errs (slot_results D 0 ps args)) eqn:E; [discriminate H|]. injection H as <-.
      split; [exact F1|]. rewrite <- Hr; split; [intros [r' Hin]; destruct (F2 r' Hin) | intros H; discriminate H].
    + injection H as <-. split.
      * intros j; rewrite F1; split.
        -- intros [r H]; exists r; right; exact H.
        -- intros [r [H | H]]; [discriminate H | exists r; exact H].
      * split; [intros _; symmetry; exact Hr | intros _; exists e; left; reflexivity].
  - pose proof (Forall2_err_in _ _ (errs_slot_results D ps args 0)) as [F1 F2].
    destruct (errs (slot_results D 0 ps args)) eqn:E; [discriminate H|]. injection H as <-.
    split; [exact F1|]. split; [intros [r Hin]; destruct (F2 r Hin) | intros []].
Qed.

(** the instance checker on an observed result *)
Theorem chk_call_sound : forall D s args r,
  chk_call D s args r = 0 ->
  ((exists rs, r = COk rs) <-> call_rule D s args)
  /\ (forall es, r = CArgs es ->
        let args' := match fst s with Some _ => tl args | None => args end in
        (forall j, In j (failing_slots D 0 (snd s) args') -> exists e, In (CArg j e) es)
        /\ (forall j e, In (CArg j e) es -> In j (failing_slots D 0 (snd s) args'))).
Proof.
  intros D s args r; unfold chk_call.
  destruct (Bool.eqb (is_cok r) (call_rule_b D s args)) eqn:E1; cbn [negb]; [|intros H; discriminate H].
  apply eqb_prop in E1. intros H; split.
  - rewrite <- call_rule_spec, <- E1; split.
    + intros [rs ->]; reflexivity.
    + destruct r as [rs| |]; intros H'; try discriminate H'; exists rs; reflexivity.
  - intros es ->. cbn zeta.
    set (args' := match fst s with Some _ => tl args | None => args end) in *.
    set (fs := failing_slots D 0 (snd s) args') in *.
    destruct (forallb (has_arg_err es) fs) eqn:F1; cbn [andb] in H; [|discriminate H].
    match type of H with (if ?c && ?d then _ else _) = _ => destruct c; cbn [andb] in H; [|discriminate H];
                                                             destruct d eqn:F3; [|discriminate H] end.
    split.
    + intros j Hj. rewrite forallb_forall in F1. specialize (F1 j Hj).
      unfold has_arg_err in F1; apply existsb_exists in F1; destruct F1 as (e & Hin & He).
      destruct e as [r|k r]; [discriminate He|]. apply N.eqb_eq in He; subst k. exists r; exact Hin.
    + intros j e Hin. rewrite forallb_forall in F3. specialize (F3 _ Hin); cbn in F3.
      apply existsb_exists in F3; destruct F3 as (k & Hk & Ek). apply N.eqb_eq in Ek; subst k; exact Hk.
Qed.

(** * Part B — print / parse round trip *)

(** ** Characters *)

Ltac charb :=
  unfold is_end, is_lead, is_upper, is_lower, is_digit, is_dash, is_sp in *;
  repeat match goal with
         | H : context [?a <=? ?c] |- _ => destruct (N.leb_spec a c)
         | H : context [?a =? ?c] |- _ => destruct (N.eqb_spec a c)
         | |- context [?a <=? ?c] => destruct (N.leb_spec a c)
         | |- context [?a =? ?c] => destruct (N.eqb_spec a c)
         end;
  cbn in *; try reflexivity; try discriminate; try lia.

Lemma is_end_not_dash : forall c, is_end c = true -> is_dash c = false.
Proof. intros c H; charb. Qed.

Lemma is_lead_is_end : forall c, is_lead c = true -> is_end c = true.
Proof. intros c H; unfold is_end; rewrite H; reflexivity. Qed.

Definition is_sepchar (c : N) : bool :=
  (c =? 32) || (c =? 40) || (c =? 41) || (c =? 44) || (c =? 58) || (c =? 91) || (c =? 93).

Definition head_sep (rest : bytes) : bool :=
  match rest with [] => true | c :: _ => is_sepchar c end.

Lemma sepchar_facts : forall c, is_sepchar c = true ->
  is_end c = false /\ is_dash c = false /\ is_digit c = false /\ (c =? 46) = false.
Proof. intros c H; unfold is_sepchar in H; repeat split; charb. Qed.

(** ** Identifiers *)

Lemma dashes_then_end_app : forall t rest,
  tail_shape t = true -> t <> [] -> dashes_then_end (t ++ rest) = true.
Proof.
  induction t as [|c t IH]; intros rest Hs Hne; [contradiction|].
  cbn [app dashes_then_end]. cbn [tail_shape] in Hs. destruct t as [|d t].
  - rewrite (is_end_not_dash c Hs); exact Hs.
  - apply andb_true_iff in Hs; destruct Hs as [Hc Ht].
    destruct (is_dash c) eqn:Dc.
    + apply IH; [exact Ht | discriminate].
    + rewrite orb_false_r in Hc; exact Hc.
Qed.

Lemma scan_ident_sep : forall rest, head_sep rest = true -> scan_ident rest = [].
Proof.
  intros [|c r] H; [reflexivity|]. cbn [head_sep] in H.
  destruct (sepchar_facts c H) as (He & Hd & _). cbn [scan_ident]; rewrite He, Hd; reflexivity.
Qed.

Lemma scan_ident_app : forall t rest,
  tail_shape t = true -> head_sep rest = true -> scan_ident (t ++ rest) = t.
Proof.
  induction t as [|c t IH]; intros rest Hs Hr; [apply scan_ident_sep, Hr|].
  cbn [app scan_ident]. cbn [tail_shape] in Hs. destruct t as [|d t].
  - rewrite Hs. cbn [app]. rewrite (scan_ident_sep rest Hr); reflexivity.
  - apply andb_true_iff in Hs; destruct Hs as [Hc Ht].
    destruct (is_end c) eqn:Ec.
    + rewrite (IH rest Ht Hr); reflexivity.
    + cbn [orb] in Hc. rewrite Hc. rewrite (dashes_then_end_app (d :: t) rest Ht) by discriminate.
      cbn [andb]. rewrite (IH rest Ht Hr); reflexivity.
Qed.

Lemma lead_not_punct : forall c, is_lead c = true ->
  (c =? 40) = false /\ (c =? 41) = false /\ (c =? 44) = false /\ (c =? 58) = false
  /\ (c =? 91) = false /\ (c =? 93) = false /\ is_dash c = false /\ is_sp c = false.
Proof. intros c H; repeat split; charb. Qed.

Lemma digit_not_punct : forall c, is_digit c = true ->
  (c =? 40) = false /\ (c =? 41) = false /\ (c =? 44) = false /\ (c =? 58) = false
  /\ (c =? 91) = false /\ (c =? 93) = false /\ is_dash c = false /\ is_lead c = false /\ is_sp c = false.
Proof. intros c H; repeat split; charb. Qed.

Lemma lex_tok0_word : forall w rest,
  ident_shape w = true -> head_sep rest = true ->
  lex_tok0 (w ++ rest) = LTok (classify w) (length w).
Proof.
  intros [|c t] rest Hw Hr; [discriminate Hw|]. cbn [ident_shape] in Hw.
  apply andb_true_iff in Hw; destruct Hw as [Hc Ht].
  destruct (lead_not_punct c Hc) as (H1 & H2 & H3 & H4 & H5 & H6 & H7 & _).
  cbn [app lex_tok0]. rewrite H1, H2, H3, H4, H5, H6, H7, Hc.
  rewrite (scan_ident_app t rest Ht Hr); reflexivity.
Qed.

(** ** Decimal numbers *)

Lemma bytes_of_uint_digits : forall u, forallb is_digit (bytes_of_uint u) = true.
Proof. induction u; cbn [bytes_of_uint forallb]; try reflexivity; rewrite IHu; reflexivity. Qed.

Lemma uint_of_bytes_of_uint : forall u, uint_of_bytes (bytes_of_uint u) = u.
Proof.
  induction u; cbn [bytes_of_uint uint_of_bytes]; try reflexivity; rewrite IHu; reflexivity.
Qed.

Lemma dec_value : forall n, N.of_uint (uint_of_bytes (dec n)) = n.
Proof. intros n; unfold dec; rewrite uint_of_bytes_of_uint; apply Unsigned.of_to. Qed.

Lemma dec_nonempty : forall n, dec n <> [].
Proof.
  intros n H. pose proof (dec_value n) as V. rewrite H in V. cbn in V. subst n.
  vm_compute in H; discriminate H.
Qed.

Lemma take_while_app : forall p l rest,
  forallb p l = true -> (match rest with [] => true | c :: _ => negb (p c) end) = true ->
  take_while p (l ++ rest) = l /\ drop_while p (l ++ rest) = rest.
Proof.
  induction l as [|c l IH]; intros rest Hl Hr.
  - destruct rest as [|d r]; [split; reflexivity|]. cbn [app take_while drop_while].
    apply negb_true_iff in Hr; rewrite Hr; split; reflexivity.
  - cbn [forallb] in Hl; apply andb_true_iff in Hl; destruct Hl as [Hc Hl].
    cbn [app take_while drop_while]; rewrite Hc. destruct (IH rest Hl Hr) as [-> ->]; split; reflexivity.
Qed.

Lemma lex_tok0_int : forall n rest,
  n < 18446744073709551616 -> head_sep rest = true ->
  lex_tok0 (dec n ++ rest) = LTok (TInt n) (length (dec n)).
Proof.
  intros n rest Hn Hr. pose proof (dec_nonempty n) as Hne. pose proof (dec_value n) as Hv.
  assert (Hd : forallb is_digit (dec n) = true) by apply bytes_of_uint_digits.
  destruct (dec n) as [|c ds]; [contradiction|]. cbn [forallb] in Hd.
  apply andb_true_iff in Hd; destruct Hd as [Hc Hds].
  destruct (digit_not_punct c Hc) as (H1 & H2 & H3 & H4 & H5 & H6 & H7 & H8 & _).
  cbn [app lex_tok0]. rewrite H1, H2, H3, H4, H5, H6, H7, H8, Hc.
  assert (Hr' : match rest with [] => true | d :: _ => negb (is_digit d) end = true).
  { destruct rest as [|d r]; [reflexivity|]. cbn [head_sep] in Hr.
    destruct (sepchar_facts d Hr) as (_ & _ & Hdig & _); rewrite Hdig; reflexivity. }
  destruct (take_while_app is_digit ds rest Hds Hr') as [-> ->].
  rewrite Hv. assert (Hlt : (18446744073709551616 <=? n) = false) by (apply N.leb_gt; exact Hn).
  destruct rest as [|d r].
  - rewrite Hlt; reflexivity.
  - cbn [head_sep] in Hr. destruct (sepchar_facts d Hr) as (He & _ & _ & H46).
    rewrite He, H46. cbn [orb]. rewrite Hlt; reflexivity.
Qed.

(** ** One token, optionally preceded by one blank *)

Lemma shift_0 : forall r, shift 0 r = r.
Proof. intros [t n| | |]; reflexivity. Qed.

Lemma starts4_second : forall c1 c2 r, is_sp c2 = false -> starts4 (c1 :: c2 :: r) = false.
Proof.
  intros c1 c2 [|c3 [|c4 r]] H; cbn [starts4]; try reflexivity.
  rewrite H, andb_false_r; reflexivity.
Qed.

Lemma starts4_first : forall c1 r, is_sp c1 = false -> starts4 (c1 :: r) = false.
Proof. intros c1 [|c2 [|c3 [|c4 r]]] H; cbn [starts4]; try reflexivity. rewrite H; reflexivity. Qed.

Lemma lex_token_nosp : forall c r, is_sp c = false -> lex_token (c :: r) = lex_tok0 (c :: r).
Proof.
  intros c r H; unfold lex_token. rewrite (starts4_first c r H). cbn [count_spaces]; rewrite H.
  cbn [skipn]; apply shift_0.
Qed.

Lemma lex_token_sp : forall c r, is_sp c = false ->
  lex_token (32 :: c :: r) = shift 1 (lex_tok0 (c :: r)).
Proof.
  intros c r H; unfold lex_token. rewrite (starts4_second 32 c r H).
  cbn [count_spaces]. change (is_sp 32) with true; cbn iota. rewrite H. reflexivity.
Qed.

Lemma lex_go_skip : forall w rest, lex_go (length w) (w ++ rest) = lex_go 0 rest.
Proof. induction w as [|c w IH]; intros rest; [reflexivity|]. cbn [length app lex_go]; apply IH. Qed.

(** ** Token lists with blanks *)

Definition is_punct (t : token) : bool :=
  match t with
  | TLParen | TRParen | TComma | TColon | TLBracket | TRBracket => true
  | _ => false
  end.

Definition tok_wf (t : token) : bool :=
  match t with
  | TIdent w => valid_name w
  | TInt n => n <? 18446744073709551616
  | TOther _ => false
  | _ => true
  end.

Definition next_sep (l : list ptok) : bool :=
  match l with
  | [] => true
  | (sp, t) :: _ => sp || is_punct t
  end.

Fixpoint lexable (l : list ptok) : bool :=
  match l with
  | [] => true
  | (sp, t) :: l' => tok_wf t && (is_punct t || next_sep l') && lexable l'
  end.

Lemma mem_app : forall w l1 l2, mem w (l1 ++ l2) = mem w l1 || mem w l2.
Proof. intros w l1 l2; unfold mem; apply existsb_app. Qed.

Lemma classify_valid : forall w, valid_name w = true -> classify w = TIdent w.
Proof.
  intros w H; unfold valid_name in H; apply andb_true_iff in H; destruct H as [_ H].
  apply negb_true_iff in H. unfold reserved in H. rewrite !mem_app in H.
  repeat (apply orb_false_iff in H; destruct H as [? H]).
  unfold classify.
  match goal with Hm : mem w kw_mut = false |- _ => rewrite Hm end.
  match goal with Hm : mem w lexer_other = false |- _ => rewrite Hm end.
  match goal with Hm : mem w kw_data = false |- _ =>
    unfold mem, kw_data in Hm; cbn [existsb] in Hm;
    repeat (apply orb_false_iff in Hm; destruct Hm as [? Hm]) end.
  unfold data_of.
  repeat match goal with Hb : bytes_eqb w _ = false |- _ => rewrite Hb; clear Hb end.
  reflexivity.
Qed.

Lemma head_sep_render : forall l, lexable l = true -> next_sep l = true -> head_sep (render l) = true.
Proof.
  intros [|[sp t] l] Hl Hn; [reflexivity|]. cbn [render]. cbn [next_sep] in Hn.
  destruct sp; [reflexivity|]. cbn [orb] in Hn. destruct t; try discriminate Hn; reflexivity.
Qed.

(** the token at the head of [tok_bytes t ++ rest] *)
Lemma lex_tok0_tok : forall t rest,
  tok_wf t = true -> is_punct t || head_sep rest = true ->
  exists c w, tok_bytes t = c :: w /\ is_sp c = false
              /\ lex_tok0 (tok_bytes t ++ rest) = LTok t (length (tok_bytes t)).
Proof.
  intros t rest Hwf Hs.
  assert (Hword : forall w, ident_shape w = true -> head_sep rest = true ->
                            exists c w', w = c :: w' /\ is_sp c = false
                                         /\ lex_tok0 (w ++ rest) = LTok (classify w) (length w)).
  { intros w Hw Hr. pose proof (lex_tok0_word w rest Hw Hr) as L.
    destruct w as [|c w']; [discriminate Hw|]. exists c, w'. repeat split; [|exact L].
    cbn [ident_shape] in Hw; apply andb_true_iff in Hw; destruct Hw as [Hc _].
    destruct (lead_not_punct c Hc) as (_ & _ & _ & _ & _ & _ & _ & Hsp); exact Hsp. }
  destruct t as [s| | | | | | | |n|w|k]; cbn [is_punct orb] in Hs; cbn [tok_bytes].
  - destruct s;
      match goal with |- exists c w, ?x = _ /\ _ =>
        destruct (Hword x eq_refl Hs) as (c & w' & E & Hsp & L); exists c, w'; repeat split;
          [exact E | exact Hsp | exact L] end.
  - exists 40, []; repeat split.
  - exists 41, []; repeat split.
  - exists 44, []; repeat split.
  - exists 58, []; repeat split.
  - destruct (Hword (b "mut") eq_refl Hs) as (c & w' & E & Hsp & L); exists c, w'; repeat split;
      [exact E | exact Hsp | exact L].
  - exists 91, []; repeat split.
  - exists 93, []; repeat split.
  - cbn [tok_wf] in Hwf; apply N.ltb_lt in Hwf.
    pose proof (lex_tok0_int n rest Hwf Hs) as L. pose proof (dec_nonempty n) as Hne.
    assert (Hd : forallb is_digit (dec n) = true) by apply bytes_of_uint_digits.
    destruct (dec n) as [|c ds]; [contradiction|]. exists c, ds; repeat split; [|exact L].
    cbn [forallb] in Hd; apply andb_true_iff in Hd; destruct Hd as [Hc _].
    destruct (digit_not_punct c Hc) as (_ & _ & _ & _ & _ & _ & _ & _ & Hsp); exact Hsp.
  - cbn [tok_wf] in Hwf. pose proof Hwf as Hv. unfold valid_name in Hv.
    apply andb_true_iff in Hv; destruct Hv as [Hshape _].
    destruct (Hword w Hshape Hs) as (c & w' & E & Hsp & L). exists c, w'; repeat split; try assumption.
    rewrite (classify_valid w Hwf) in L; exact L.
  - discriminate Hwf.
Qed.

Theorem lex_render : forall l, lexable l = true -> lex (render l) = LexOk (map snd l).
Proof.
  unfold lex. induction l as [|[sp t] l IH]; intros Hl; [reflexivity|].
  cbn [lexable] in Hl. apply andb_true_iff in Hl; destruct Hl as [Hl Hl'].
  apply andb_true_iff in Hl; destruct Hl as [Hwf Hsep].
  assert (Hs : is_punct t || head_sep (render l) = true).
  { destruct (is_punct t); [reflexivity|]. cbn [orb] in *. apply head_sep_render; assumption. }
  destruct (lex_tok0_tok t (render l) Hwf Hs) as (c & w & E & Hsp & L).
  cbn [render map snd]. rewrite E in *. cbn [app length] in *.
  destruct sp; cbn [app].
  - cbn [lex_go]. rewrite (lex_token_sp c _ Hsp), L. cbn [shift Nat.add pred].
    change (lex_go (S (length w)) (c :: w ++ render l)) with (lex_go (length w) (w ++ render l)).
    rewrite lex_go_skip, (IH Hl'); reflexivity.
  - cbn [lex_go]. rewrite (lex_token_nosp c _ Hsp), L. cbn [pred].
    rewrite lex_go_skip, (IH Hl'); reflexivity.
Qed.

(** ** The printer is [render] of the token view *)

Lemma render_app : forall l1 l2, render (l1 ++ l2) = render l1 ++ render l2.
Proof.
  induction l1 as [|[sp t] l1 IH]; intros l2; [reflexivity|].
  cbn [app render]. rewrite IH, !app_assoc; reflexivity.
Qed.

Lemma render_ptype : forall ty, render (ptoks_ptype ty) = 32 :: print_ptype ty.
Proof.
  intros [t|t n|t]; cbn [ptoks_ptype render print_ptype tok_bytes app];
    rewrite ?app_nil_r, <- ?app_assoc; reflexivity.
Qed.

Lemma render_param : forall first p,
  render (ptoks_param first p) = (if first then [] else [44; 32]) ++ print_param p.
Proof.
  intros first p; unfold ptoks_param, print_param.
  rewrite !render_app, render_ptype.
  change (b "mut ") with [109; 117; 116; 32].
  destruct first, (pmut p); cbn [render tok_bytes negb app];
    change (b "mut") with [109; 117; 116]; rewrite <- ?app_assoc; cbn [app]; reflexivity.
Qed.

Lemma render_params : forall ps first, render (ptoks_params first ps) = print_params first ps.
Proof.
  induction ps as [|p ps IH]; intros first; [reflexivity|].
  cbn [ptoks_params print_params]. rewrite render_app, render_param, IH, <- app_assoc; reflexivity.
Qed.

Theorem print_sig_render : forall s, print_sig s = render (ptoks_sig s).
Proof.
  intros [ret ps]; unfold print_sig, ptoks_sig; cbn [fst snd].
  rewrite render_app. destruct ret as [t|]; destruct ps as [|p ps]; cbn [render tok_bytes app];
    rewrite ?app_nil_r; try reflexivity.
  - rewrite !render_app, render_params. cbn [render tok_bytes app].
    rewrite <- !app_assoc; reflexivity.
  - rewrite !render_app, render_params. cbn [render tok_bytes app]. reflexivity.
Qed.

(** ** Valid signatures print to lexable token lists *)

Lemma lexable_ptype : forall ty rest,
  (match ty with PFixed _ n => n <? 18446744073709551616 | _ => true end) = true ->
  lexable rest = true -> next_sep rest = true ->
  lexable (ptoks_ptype ty ++ rest) = true.
Proof.
  intros [t|t n|t] rest Hn Hr Hs; cbn [ptoks_ptype app lexable tok_wf is_punct next_sep orb andb];
    rewrite ?Hn; cbn [andb]; repeat (apply andb_true_iff; split); try assumption; reflexivity.
Qed.

Lemma lexable_param : forall first p rest,
  valid_name (pname p) = true ->
  (match pty p with PFixed _ n => n <? 18446744073709551616 | _ => true end) = true ->
  lexable rest = true -> next_sep rest = true ->
  lexable (ptoks_param first p ++ rest) = true.
Proof.
  intros first p rest Hv Hn Hr Hs; unfold ptoks_param.
  rewrite <- !app_assoc.
  pose proof (lexable_ptype (pty p) rest Hn Hr Hs) as HT.
  assert (HN : next_sep (ptoks_ptype (pty p) ++ rest) = true) by (destruct (pty p); reflexivity).
  destruct first, (pmut p); cbn [app lexable tok_wf is_punct next_sep orb andb negb];
    rewrite ?Hv; cbn [andb]; repeat (apply andb_true_iff; split); try assumption; reflexivity.
Qed.

Lemma next_sep_params : forall ps rest, next_sep rest = true -> next_sep (ptoks_params false ps ++ rest) = true.
Proof. intros [|p ps] rest H; [exact H | reflexivity]. Qed.

Lemma lexable_params : forall ps first rest,
  forallb (fun p => valid_name (pname p)) ps = true ->
  forallb (fun p => match pty p with PFixed _ n => n <? 18446744073709551616 | _ => true end) ps = true ->
  lexable rest = true -> next_sep rest = true ->
  lexable (ptoks_params first ps ++ rest) = true.
Proof.
  induction ps as [|p ps IH]; intros first rest Hv Hn Hr Hs; [exact Hr|].
  cbn [forallb] in Hv, Hn. apply andb_true_iff in Hv, Hn. destruct Hv as [Hv Hvs], Hn as [Hn Hns].
  cbn [ptoks_params]. rewrite <- app_assoc. apply lexable_param; try assumption.
  - apply IH; assumption.
  - apply next_sep_params, Hs.
Qed.

Lemma valid_sig_parts : forall s, valid_sig s = true ->
  (fst s <> None \/ snd s <> [])
  /\ forallb (fun p => valid_name (pname p)) (snd s) = true
  /\ forallb (fun p => match pty p with PFixed _ n => n <? 18446744073709551616 | _ => true end) (snd s) = true.
Proof.
  intros [ret ps] H; unfold valid_sig in H; cbn [fst snd] in *.
  apply andb_true_iff in H; destruct H as [H H3]. apply andb_true_iff in H; destruct H as [H1 H2].
  repeat split; try assumption.
  destruct ret; [left; discriminate|]. destruct ps; [discriminate H1 | right; discriminate].
Qed.

Theorem lexable_sig : forall s, valid_sig s = true -> lexable (ptoks_sig s) = true.
Proof.
  intros s H; destruct (valid_sig_parts s H) as (_ & Hv & Hn). destruct s as [ret ps]; cbn [fst snd] in *.
  unfold ptoks_sig; cbn [fst snd].
  assert (HP : ps <> [] -> lexable (ptoks_params true ps ++ [(false, TRParen)]) = true).
  { intros _; apply lexable_params; try assumption; reflexivity. }
  destruct ret as [t|]; destruct ps as [|p ps]; try reflexivity.
  - cbn [app lexable tok_wf is_punct next_sep orb andb]. apply HP; discriminate.
  - cbn [app lexable tok_wf is_punct next_sep orb andb]. apply HP; discriminate.
Qed.

(** ** The parser inverts the token view *)

Definition toks_ptype (ty : ptype) : list token :=
  match ty with
  | PScalar t => [TData t]
  | PFixed t n => [TData t; TLBracket; TInt n; TRBracket]
  | PVar t => [TData t; TLBracket; TRBracket]
  end.

Definition toks_param (p : param) : list token :=
  TIdent (pname p) :: TColon :: (if pmut p then [TMut] else []) ++ toks_ptype (pty p).

Definition no_lbracket (r : list token) : Prop :=
  match r with TLBracket :: _ => False | _ => True end.

Lemma parse_type_toks : forall ty r, no_lbracket r -> parse_type (toks_ptype ty ++ r) = Some (ty, r).
Proof.
  intros [t|t n|t] r H; cbn [toks_ptype app parse_type]; try reflexivity.
  destruct r as [|[] r]; try reflexivity. destruct H.
Qed.

Lemma parse_param_toks : forall p r, no_lbracket r -> parse_param (toks_param p ++ r) = Some (p, r).
Proof.
  intros [w m ty] r H; unfold toks_param; cbn [pname pmut pty app parse_param].
  destruct m; cbn [app].
  - rewrite (parse_type_toks ty r H); reflexivity.
  - destruct ty as [t|t n|t]; cbn [toks_ptype app]; rewrite (parse_type_toks _ r H) || idtac.
    + change (TData t :: r) with (toks_ptype (PScalar t) ++ r). rewrite (parse_type_toks _ r H); reflexivity.
    + change (TData t :: TLBracket :: TInt n :: TRBracket :: r) with (toks_ptype (PFixed t n) ++ r).
      rewrite (parse_type_toks _ r H); reflexivity.
    + change (TData t :: TLBracket :: TRBracket :: r) with (toks_ptype (PVar t) ++ r).
      rewrite (parse_type_toks _ r H); reflexivity.
Qed.

Definition toks_rest (ps : list param) : list token :=
  flat_map (fun p => TComma :: toks_param p) ps.

Lemma no_lbracket_rest : forall ps r, no_lbracket (toks_rest ps ++ TRParen :: r).
Proof. intros [|p ps] r; exact I. Qed.

Lemma params_rest_toks : forall ps fuel r,
  (length ps <= fuel)%nat ->
  params_rest fuel (toks_rest ps ++ TRParen :: r) = (ps, TRParen :: r).
Proof.
  induction ps as [|p ps IH]; intros fuel r Hf.
  - destruct fuel; reflexivity.
  - destruct fuel as [|fuel]; [cbn in Hf; lia|].
    cbn [toks_rest flat_map]. fold (toks_rest ps). rewrite <- app_assoc.
    cbn [app params_rest].
    rewrite (parse_param_toks p _ (no_lbracket_rest ps r)).
    rewrite IH by (cbn in Hf; lia). reflexivity.
Qed.

Lemma toks_rest_length : forall ps r, (length ps <= length (toks_rest ps ++ r))%nat.
Proof.
  induction ps as [|p ps IH]; intros r; [cbn; lia|].
  cbn [toks_rest flat_map]. fold (toks_rest ps). rewrite <- app_assoc. cbn [app length].
  rewrite app_length. specialize (IH r). unfold toks_param. cbn [length]. lia.
Qed.

Lemma snd_ptoks_ptype : forall ty, map snd (ptoks_ptype ty) = toks_ptype ty.
Proof. intros [t|t n|t]; reflexivity. Qed.

Lemma snd_ptoks_param : forall first p,
  map snd (ptoks_param first p) = (if first then [] else [TComma]) ++ toks_param p.
Proof.
  intros first p; unfold ptoks_param, toks_param. rewrite !map_app, snd_ptoks_ptype.
  destruct first, (pmut p); reflexivity.
Qed.

Lemma snd_ptoks_params_false : forall ps, map snd (ptoks_params false ps) = toks_rest ps.
Proof.
  induction ps as [|p ps IH]; [reflexivity|].
  cbn [ptoks_params toks_rest flat_map]. fold (toks_rest ps).
  rewrite map_app, snd_ptoks_param, IH. reflexivity.
Qed.

Lemma params0_toks : forall p ps r,
  params0 (toks_param p ++ toks_rest ps ++ TRParen :: r) = (p :: ps, TRParen :: r).
Proof.
  intros p ps r; unfold params0.
  rewrite (parse_param_toks p _ (no_lbracket_rest ps r)).
  rewrite params_rest_toks by apply toks_rest_length. reflexivity.
Qed.

Theorem parse_tokens_sig : forall s,
  valid_sig s = true -> parse_sig_tokens (map snd (ptoks_sig s)) = POk s.
Proof.
  intros s H; destruct (valid_sig_parts s H) as (Hne & Hv & _). destruct s as [ret ps]; cbn [fst snd] in *.
  unfold ptoks_sig; cbn [fst snd]. destruct ps as [|p ps].
  - destruct ret as [t|]; [|destruct Hne as [Hne|Hne]; contradiction].
    cbn [app map snd parse_sig_tokens finish forallb]. reflexivity.
  - rewrite !map_app. cbn [ptoks_params]. rewrite map_app, snd_ptoks_param, snd_ptoks_params_false.
    destruct ret as [t|]; cbn [map snd app]; rewrite <- app_assoc; cbn [app];
      unfold parse_sig_tokens; cbv beta iota; rewrite (params0_toks p ps []); cbn [finish];
      rewrite Hv; reflexivity.
Qed.

(** ** Round trip *)

Theorem roundtrip : forall s, valid_sig s = true -> parse_sig (print_sig s) = POk s.
Proof.
  intros s H; unfold parse_sig.
  rewrite print_sig_render, (lex_render _ (lexable_sig s H)). apply parse_tokens_sig, H.
Qed.

(** the empty signature is the only shape-valid one that does not round-trip *)
Lemma print_empty : parse_sig (print_sig (None, [])) = PErrEmpty.
Proof. reflexivity. Qed.

(** ** Soundness of the round-trip part of the case evaluator *)

Lemma bytes_eqb_eq : forall x y, bytes_eqb x y = true <-> x = y.
Proof.
  induction x as [|c x IH]; intros [|d y]; cbn [bytes_eqb]; split; intros H; try reflexivity; try discriminate H.
  - apply andb_true_iff in H; destruct H as [H1 H2]. apply N.eqb_eq in H1; apply IH in H2; subst; reflexivity.
  - injection H as -> ->. rewrite N.eqb_refl; cbn [andb]; apply IH; reflexivity.
Qed.

Lemma ptype_eqb_eq : forall x y, ptype_eqb x y = true <-> x = y.
Proof.
  intros [a|a n|a] [c|c m|c]; cbn [ptype_eqb]; split; intros H; try discriminate H;
    try (apply scalar_eqb_eq in H; subst; reflexivity);
    try (injection H as ->; apply scalar_eqb_eq; reflexivity).
  - apply andb_true_iff in H; destruct H as [H1 H2]. apply scalar_eqb_eq in H1; apply N.eqb_eq in H2; subst; reflexivity.
  - injection H as -> ->. rewrite N.eqb_refl, andb_true_r; apply scalar_eqb_eq; reflexivity.
Qed.

Lemma param_eqb_eq : forall x y, param_eqb x y = true <-> x = y.
Proof.
  intros [w m t] [w' m' t']; unfold param_eqb; cbn [pname pmut pty].
  rewrite !andb_true_iff, bytes_eqb_eq, ptype_eqb_eq, eqb_true_iff; split.
  - intros [[-> ->] ->]; reflexivity.
  - intros H; injection H as -> -> ->; repeat split.
Qed.

Lemma params_eqb_eq : forall x y, params_eqb x y = true <-> x = y.
Proof.
  induction x as [|p x IH]; intros [|q y]; cbn [params_eqb]; split; intros H; try reflexivity; try discriminate H.
  - apply andb_true_iff in H; destruct H as [H1 H2]. apply param_eqb_eq in H1; apply IH in H2; subst; reflexivity.
  - injection H as -> ->. apply andb_true_iff; split; [apply param_eqb_eq | apply IH]; reflexivity.
Qed.

Lemma sig_eqb_eq : forall x y, sig_eqb x y = true <-> x = y.
Proof.
  intros [r ps] [r' ps']; unfold sig_eqb; cbn [fst snd]. rewrite andb_true_iff, params_eqb_eq. split.
  - intros [H ->]. destruct r as [a|], r' as [c|]; cbn in H; try discriminate H; [|reflexivity].
    apply scalar_eqb_eq in H; subst; reflexivity.
  - intros H; injection H as -> ->; split; [|reflexivity]. destruct r' as [c|]; [apply scalar_eqb_eq|]; reflexivity.
Qed.

Theorem case_sig_sound : forall s printed parsed,
  case_code (CSig s printed parsed) = 0 ->
  printed = print_sig s /\ (valid_sig s = true -> parsed = POk s).
Proof.
  intros s printed parsed; cbn [case_code].
  destruct (valid_sig s && negb (presult_eqb parsed (POk s))) eqn:E1; [intros H; discriminate H|].
  destruct (bytes_eqb printed (print_sig s) && presult_eqb parsed (parse_sig printed)) eqn:E2;
    [|intros H; discriminate H].
  intros _. apply andb_true_iff in E2; destruct E2 as [E2 _]. apply bytes_eqb_eq in E2. split; [exact E2|].
  intros Hv; rewrite Hv in E1; cbn [andb] in E1. apply negb_false_iff in E1.
  destruct parsed as [s'| | | | |]; cbn [presult_eqb] in E1; try discriminate E1.
  apply sig_eqb_eq in E1; subst; reflexivity.
Qed.

Theorem print_lexes : forall s : signature,
  valid_sig s = true -> lex (print_sig s) = LexOk (map snd (ptoks_sig s)).
Proof. intros s H; rewrite print_sig_render; apply lex_render, lexable_sig, H. Qed.

Theorem failing_slots_prop : forall (D : decls) (ps : list param) (args : list arg) (j : N),
  In j (failing_slots D 0 ps args) <->
  exists i p a, j = 0 + N.of_nat i /\ nth_error ps i = Some p /\ nth_error args i = Some a
                /\ ~ slot_rule D p a.
Proof.
  intros D ps args j; rewrite failing_slots_spec; split;
    intros (i & p & a & E & Hp & Ha & Hr); exists i, p, a; repeat split; try assumption.
  - rewrite <- slot_rule_spec, Hr; discriminate.
  - rewrite <- slot_rule_spec in Hr. destruct (slot_rule_b D p a); [exfalso; apply Hr|]; reflexivity.
Qed.
