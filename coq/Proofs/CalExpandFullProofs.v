(** Proofs about Model/CalExpandFull.v (properties C17 and C19). *)
From Coq Require Import List NArith ZArith Bool Lia Arith.
From QV Require Import Model.CalExpandFull.
Import ListNotations.

(** * Part A: the boolean equalities decide Leibniz equality *)

Lemma qubit_eqb_spec a b : qubit_eqb a b = true <-> a = b.
Proof.
  destruct a, b; cbn; rewrite ?N.eqb_eq; split; intro H; try congruence; try discriminate.
Qed.

Lemma memref_eqb_spec (a b : memref) : memref_eqb a b = true <-> a = b.
Proof.
  destruct a, b; unfold memref_eqb; cbn. rewrite andb_true_iff, !N.eqb_eq.
  split; [intros [-> ->]; reflexivity | intro H; inversion H; auto].
Qed.

Lemma expr_eqb_spec a : forall b, expr_eqb a b = true <-> a = b.
Proof.
  induction a as [z| |v|m|e IH|op l IHl r IHr|f e IH]; intros [z'| |v'|m'|e'|op' l' r'|f' e']; cbn;
    try (split; [discriminate | congruence]).
  - rewrite Z.eqb_eq. split; congruence.
  - split; auto.
  - rewrite N.eqb_eq. split; congruence.
  - rewrite memref_eqb_spec. split; congruence.
  - rewrite IH. split; congruence.
  - rewrite !andb_true_iff, N.eqb_eq, IHl, IHr. split; [intros [[-> ->] ->]; reflexivity | intro H; inversion H; auto].
  - rewrite andb_true_iff, N.eqb_eq, IH. split; [intros [-> ->]; reflexivity | intro H; inversion H; auto].
Qed.

Lemma list_eqb_spec {A} (eq : A -> A -> bool) (Heq : forall x y, eq x y = true <-> x = y) l1 :
  forall l2, list_eqb eq l1 l2 = true <-> l1 = l2.
Proof.
  induction l1 as [|x t IH]; intros [|y u]; cbn; try (split; [discriminate | congruence]).
  - split; auto.
  - rewrite andb_true_iff, Heq, IH. split; [intros [-> ->]; reflexivity | intro H; inversion H; auto].
Qed.

Lemma option_eqb_spec {A} (eq : A -> A -> bool) (Heq : forall x y, eq x y = true <-> x = y) (a b : option A) :
  option_eqb eq a b = true <-> a = b.
Proof.
  destruct a, b; cbn; try (split; [discriminate | congruence]).
  - rewrite Heq. split; congruence.
  - split; auto.
Qed.

Lemma frame_eqb_spec (a b : frame) : frame_eqb a b = true <-> a = b.
Proof.
  destruct a, b; unfold frame_eqb; cbn.
  rewrite andb_true_iff, N.eqb_eq, (list_eqb_spec qubit_eqb qubit_eqb_spec).
  split; [intros [-> ->]; reflexivity | intro H; inversion H; auto].
Qed.

Lemma wparam_eqb_spec (a b : N * expr) : wparam_eqb a b = true <-> a = b.
Proof.
  destruct a, b; unfold wparam_eqb; cbn. rewrite andb_true_iff, N.eqb_eq, expr_eqb_spec.
  split; [intros [-> ->]; reflexivity | intro H; inversion H; auto].
Qed.

Lemma wform_eqb_spec (a b : wform) : wform_eqb a b = true <-> a = b.
Proof.
  destruct a, b; unfold wform_eqb; cbn.
  rewrite andb_true_iff, N.eqb_eq, (list_eqb_spec wparam_eqb wparam_eqb_spec).
  split; [intros [-> ->]; reflexivity | intro H; inversion H; auto].
Qed.

Lemma operand_eqb_spec a b : operand_eqb a b = true <-> a = b.
Proof.
  destruct a, b; cbn; try (split; [discriminate | congruence]).
  - rewrite Z.eqb_eq. split; congruence.
  - rewrite memref_eqb_spec. split; congruence.
Qed.

Lemma pdata_eqb_spec a b : pdata_eqb a b = true <-> a = b.
Proof.
  destruct a, b; cbn; try (split; [discriminate | congruence]).
  - rewrite N.eqb_eq. split; congruence.
  - rewrite memref_eqb_spec. split; congruence.
Qed.

Lemma bool_eqb_spec (a b : bool) : Bool.eqb a b = true <-> a = b.
Proof. apply Bool.eqb_true_iff. Qed.

Lemma N_eqb_spec (a b : N) : N.eqb a b = true <-> a = b.
Proof. apply N.eqb_eq. Qed.

Ltac eqb_to_eq :=
  rewrite ?andb_true_iff, ?N.eqb_eq, ?bool_eqb_spec, ?frame_eqb_spec, ?wform_eqb_spec,
    ?memref_eqb_spec, ?operand_eqb_spec, ?expr_eqb_spec, ?qubit_eqb_spec,
    ?(list_eqb_spec expr_eqb expr_eqb_spec), ?(list_eqb_spec qubit_eqb qubit_eqb_spec),
    ?(list_eqb_spec N.eqb N_eqb_spec), ?(option_eqb_spec N.eqb N_eqb_spec),
    ?(option_eqb_spec memref_eqb memref_eqb_spec), ?(option_eqb_spec qubit_eqb qubit_eqb_spec),
    ?(option_eqb_spec pdata_eqb pdata_eqb_spec).

Lemma instr_eqb_spec a b : instr_eqb a b = true <-> a = b.
Proof.
  destruct a, b; cbn [instr_eqb]; try (split; [discriminate | congruence]); eqb_to_eq;
    (split; [intro H; repeat match goal with H : _ /\ _ |- _ => destruct H end; subst; reflexivity
            | intro H; inversion H; subst; repeat split; reflexivity]).
Qed.

Lemma instr_eqb_refl a : instr_eqb a a = true.
Proof. apply instr_eqb_spec; reflexivity. Qed.

Lemma mem_instr_spec i l : mem_instr i l = true <-> In i l.
Proof.
  induction l as [|x t IH]; cbn.
  - split; [discriminate | tauto].
  - rewrite orb_true_iff, instr_eqb_spec, IH. tauto.
Qed.

Lemma mem_instr_false i l : mem_instr i l = false <-> ~ In i l.
Proof. rewrite <- mem_instr_spec. destruct (mem_instr i l); split; congruence. Qed.

Lemma calsrc_eqb_spec a b : calsrc_eqb a b = true <-> a = b.
Proof.
  destruct a, b; cbn [calsrc_eqb]; try (split; [discriminate | congruence]); eqb_to_eq;
    (split; [intro H; repeat match goal with H : _ /\ _ |- _ => destruct H end; subst; reflexivity
            | intro H; inversion H; subst; repeat split; reflexivity]).
Qed.

(** * Part B: expansion against an independent big-step relation *)

Section ExpandsSec.
  Variable inst : instr -> option (list instr * calsrc).

  (** [Expands path i r]: with [path] the instructions being expanded around [i] (innermost first),
      [r = None] when no calibration matches [i], and [r = Some out] when the matching calibration's
      substituted body expands, instruction by instruction, to [out].  An instruction already on the
      path has no expansion (the implementation reports [RecursiveCalibration]). *)
  Inductive Expands : list instr -> instr -> option (list instr) -> Prop :=
  | Ex_nomatch path i :
      ~ In i path -> inst i = None -> Expands path i None
  | Ex_match path i body src out :
      ~ In i path -> inst i = Some (body, src) -> ExpandsList (i :: path) body out ->
      Expands path i (Some out)
  with ExpandsList : list instr -> list instr -> list instr -> Prop :=
  | EL_nil path : ExpandsList path [] []
  | EL_keep path j t r :
      Expands path j None -> ExpandsList path t r -> ExpandsList path (j :: t) (j :: r)
  | EL_expand path j o t r :
      Expands path j (Some o) -> ExpandsList path t r -> ExpandsList path (j :: t) (o ++ r).

  Scheme Expands_mind := Induction for Expands Sort Prop
    with ExpandsList_mind := Induction for ExpandsList Sort Prop.
  Combined Scheme Expands_mutind from Expands_mind, ExpandsList_mind.

  Lemma expand_list_sound (rec : instr -> res (option (list instr))) path
        (Hrec : forall j r, rec j = Ok r -> Expands path j r) :
    forall l out, expand_list rec l = Ok out -> ExpandsList path l out.
  Proof.
    induction l as [|j t IH]; cbn; intros out H.
    - inversion H; constructor.
    - destruct (rec j) as [[o|]| |] eqn:Hj; try discriminate;
        destruct (expand_list rec t) as [r| |] eqn:Ht; cbn in H; try discriminate;
        inversion H; subst; constructor; auto.
  Qed.

  Lemma expand_sound : forall fuel path i r, expand inst fuel path i = Ok r -> Expands path i r.
  Proof.
    induction fuel as [|f IH]; cbn; intros path i r H; [discriminate|].
    destruct (mem_instr i path) eqn:Hm; [discriminate|].
    apply mem_instr_false in Hm.
    destruct (inst i) as [[body src]|] eqn:Hi.
    - destruct (expand_list (expand inst f (i :: path)) body) as [out| |] eqn:Hl; cbn in H; try discriminate.
      inversion H; subst. eapply Ex_match; eauto.
      eapply expand_list_sound; eauto.
    - inversion H; subst. constructor; auto.
  Qed.

  Lemma expand_complete_mut :
    (forall path i r, Expands path i r -> exists n, forall fuel, n <= fuel -> expand inst fuel path i = Ok r) /\
    (forall path l out, ExpandsList path l out ->
       exists n, forall fuel, n <= fuel -> expand_list (expand inst fuel path) l = Ok out).
  Proof.
    apply Expands_mutind.
    - intros path i Hn Hi. exists 1. intros [|f] Hf; [lia|]. cbn.
      apply mem_instr_false in Hn. rewrite Hn, Hi. reflexivity.
    - intros path i body src out Hn Hi _ [n IH]. exists (S n). intros [|f] Hf; [lia|]. cbn.
      apply mem_instr_false in Hn. rewrite Hn, Hi, IH by lia. reflexivity.
    - intros path. exists 0. reflexivity.
    - intros path j t r _ [n1 IH1] _ [n2 IH2]. exists (Nat.max n1 n2). intros fuel Hf. cbn.
      rewrite IH1, IH2 by lia. reflexivity.
    - intros path j o t r _ [n1 IH1] _ [n2 IH2]. exists (Nat.max n1 n2). intros fuel Hf. cbn.
      rewrite IH1, IH2 by lia. reflexivity.
  Qed.

  Lemma expand_complete path i r :
    Expands path i r -> exists n, forall fuel, n <= fuel -> expand inst fuel path i = Ok r.
  Proof. apply expand_complete_mut. Qed.

  Lemma Expands_deterministic path i r1 r2 : Expands path i r1 -> Expands path i r2 -> r1 = r2.
  Proof.
    intros H1 H2. apply expand_complete in H1, H2. destruct H1 as [n1 H1], H2 as [n2 H2].
    specialize (H1 (Nat.max n1 n2)). specialize (H2 (Nat.max n1 n2)).
    rewrite H1 in H2 by lia. specialize (H2 ltac:(lia)). congruence.
  Qed.

  (** more fuel never changes a successful result *)
  Lemma expand_fuel_mono fuel fuel' path i r :
    expand inst fuel path i = Ok r -> fuel <= fuel' -> exists n, forall k, n <= k -> expand inst k path i = Ok r.
  Proof. intros H _. apply expand_complete, expand_sound with (fuel := fuel); exact H. Qed.

  (** the result is a fixpoint: nothing in it has a matching calibration *)
  Lemma Expands_fixpoint_mut :
    (forall path i r, Expands path i r -> forall out, r = Some out -> forall j, In j out -> inst j = None) /\
    (forall path l out, ExpandsList path l out -> forall j, In j out -> inst j = None).
  Proof.
    apply Expands_mutind.
    - intros; discriminate.
    - intros path i body src out _ _ _ IH out' E j Hj. inversion E; subst. eauto.
    - intros path j [].
    - intros path j t r He _ _ IH x [<-|Hx]; [inversion He; auto | auto].
    - intros path j o t r _ IH1 _ IH2 x Hx. apply in_app_or in Hx. destruct Hx; eauto.
  Qed.

  Lemma Expands_fixpoint path i out : Expands path i (Some out) -> forall j, In j out -> inst j = None.
  Proof. intros H. eapply (proj1 Expands_fixpoint_mut); eauto. Qed.

  (** ** the two code paths of [expand_inner] ([build_source_map] on / off) agree *)

  Definition detail_instrs (d : option detail) : option (list instr) := option_map fst d.

  Lemma expand_d_list_sim (recd : instr -> res (option detail)) (rec : instr -> res (option (list instr)))
        (Hrec : forall j, res_map detail_instrs (recd j) = rec j) :
    forall l k acc es,
      res_map fst (expand_d_list recd l k acc es) = res_map (fun r => acc ++ r) (expand_list rec l).
  Proof.
    induction l as [|j t IH]; cbn; intros k acc es.
    - rewrite app_nil_r. reflexivity.
    - rewrite <- Hrec. destruct (recd j) as [[[o [[src rg] sub]]|]| |]; cbn; auto.
      + rewrite IH. destruct (expand_list rec t); cbn; auto. rewrite <- app_assoc. reflexivity.
      + rewrite IH. destruct (expand_list rec t); cbn; auto. rewrite <- app_assoc. reflexivity.
  Qed.

  Lemma expand_d_sim : forall fuel path i,
      res_map detail_instrs (expand_d inst fuel path i) = expand inst fuel path i.
  Proof.
    induction fuel as [|f IH]; cbn; intros path i; [reflexivity|].
    destruct (mem_instr i path); [reflexivity|].
    destruct (inst i) as [[body src]|]; [|reflexivity].
    pose proof (expand_d_list_sim (expand_d inst f (i :: path)) (expand inst f (i :: path))
                                  (IH (i :: path)) body 0%N [] []) as H.
    destruct (expand_d_list (expand_d inst f (i :: path)) body 0 [] []) as [[a e]| |];
      destruct (expand_list (expand inst f (i :: path)) body); cbn in *; congruence.
  Qed.

  (** ** Program level *)

  (** what one body instruction contributes to the expanded program *)
  Inductive ExpandsTop (i : instr) : list instr -> Prop :=
  | ET_keep : Expands [] i None -> ExpandsTop i [i]
  | ET_expand o : Expands [] i (Some o) -> ExpandsTop i o.

  Definition not_hoisted (i : instr) : bool := negb (hoisted i).

  Definition declared_region (i : instr) : list region :=
    match i with IDeclare nm ty ln => [(nm, (ty, ln))] | _ => [] end.

  Lemma add_instruction_body p i :
    body (add_instruction p i) = body p ++ filter not_hoisted [i].
  Proof. destruct i; cbn; rewrite ?app_nil_r; reflexivity. Qed.

  Lemma add_instruction_regions p i :
    regions (add_instruction p i) = fold_left (fun rs r => region_insert r rs) (declared_region i) (regions p).
  Proof. destruct i; reflexivity. Qed.

  Lemma add_instructions_body l : forall p,
    body (add_instructions p l) = body p ++ filter not_hoisted l.
  Proof.
    unfold add_instructions. induction l as [|i t IH]; intros p; cbn [fold_left].
    - cbn. rewrite app_nil_r. reflexivity.
    - rewrite IH, add_instruction_body. cbn [filter]. destruct (not_hoisted i); cbn; rewrite <- ?app_assoc, ?app_nil_r; reflexivity.
  Qed.

  Lemma add_instructions_regions l : forall p,
    regions (add_instructions p l) =
    fold_left (fun rs r => region_insert r rs) (flat_map declared_region l) (regions p).
  Proof.
    unfold add_instructions. induction l as [|i t IH]; intros p; cbn [fold_left flat_map]; [reflexivity|].
    rewrite IH, add_instruction_regions, fold_left_app. reflexivity.
  Qed.

  Lemma add_instructions_app p l1 l2 :
    add_instructions p (l1 ++ l2) = add_instructions (add_instructions p l1) l2.
  Proof. unfold add_instructions. apply fold_left_app. Qed.

  Lemma expand_program_from_sound fuel : forall src p p',
      expand_program_from inst fuel src p = Ok p' ->
      exists outs, Forall2 ExpandsTop src outs /\ p' = add_instructions p (concat outs).
  Proof.
    induction src as [|i t IH]; cbn; intros p p' H.
    - inversion H; subst. exists []. split; constructor.
    - destruct (expand_d inst fuel [] i) as [[[o d]|]| |] eqn:Hd; try discriminate.
      + apply IH in H. destruct H as [outs [HF ->]]. exists (o :: outs). split.
        * constructor; auto. apply ET_expand. apply expand_sound with (fuel := fuel).
          rewrite <- expand_d_sim, Hd. reflexivity.
        * cbn [concat]. rewrite add_instructions_app. reflexivity.
      + apply IH in H. destruct H as [outs [HF ->]]. exists ([i] :: outs). split.
        * constructor; auto. apply ET_keep. apply expand_sound with (fuel := fuel).
          rewrite <- expand_d_sim, Hd. reflexivity.
        * cbn [concat]. rewrite add_instructions_app. reflexivity.
  Qed.

  Lemma expand_program_from_complete : forall src outs,
      Forall2 ExpandsTop src outs ->
      exists n, forall fuel, n <= fuel -> forall p,
          expand_program_from inst fuel src p = Ok (add_instructions p (concat outs)).
  Proof.
    induction 1 as [|i o src outs Hi _ [n IH]].
    - exists 0. reflexivity.
    - destruct Hi as [Hi|o Hi]; apply expand_complete in Hi; destruct Hi as [m Hi];
        exists (Nat.max n m); intros fuel Hf p; cbn [expand_program_from];
        specialize (Hi fuel ltac:(lia)); rewrite <- expand_d_sim in Hi;
        destruct (expand_d inst fuel [] i) as [[[o' d]|]| |]; cbn in Hi; try discriminate; inversion Hi; subst.
      + rewrite IH by lia. cbn [concat]. rewrite add_instructions_app. reflexivity.
      + rewrite IH by lia. cbn [concat]. rewrite add_instructions_app. reflexivity.
  Qed.

  (** the no-source-map and with-source-map entry points build the same program *)
  Lemma append_loop_program base : forall l p lo hi sub,
      fst (append_loop base l p lo hi sub) = add_instructions p l.
  Proof.
    induction l as [|i t IH]; intros p lo hi sub; cbn [append_loop]; [reflexivity|].
    destruct (N.eqb (len (body p)) (len (body (add_instruction p i)))).
    - destruct (remove_target_index lo hi sub (len (body p) - base)) as [[lo' hi'] sub']. apply IH.
    - apply IH.
  Qed.

  Lemma append_expansion_program p m s o d :
    fst (append_expansion p m s (o, d)) = add_instructions p o.
  Proof.
    unfold append_expansion. destruct d as [[src [lo hi]] sub].
    pose proof (append_loop_program (len (body p)) o p lo hi sub) as H.
    destruct (append_loop (len (body p)) o p lo hi sub) as [p' [[a b] sub']]. cbn in *. exact H.
  Qed.

  Lemma expand_program_sm_from_program fuel : forall src k p m,
      res_map fst (expand_program_sm_from inst fuel src k p m) = expand_program_from inst fuel src p.
  Proof.
    induction src as [|i t IH]; intros k p m; cbn; [reflexivity|].
    destruct (expand_d inst fuel [] i) as [[[o d]|]| |]; auto.
    pose proof (append_expansion_program p m k o d) as H.
    destruct (append_expansion p m k (o, d)) as [p' m']. cbn in H. subst. apply IH.
  Qed.

  Lemma expand_program_sm_program fuel p :
    res_map fst (expand_program_sm inst fuel p) = expand_program inst fuel p.
  Proof. apply expand_program_sm_from_program. Qed.
End ExpandsSec.

(** * Part D: the substitution clauses, as the property words them *)

(** Apply [fq] to every qubit position, [fe] to every expression position, [fm] to every
    memory-reference position and [fp] to the text of a LOAD-MEMORY pragma. *)
Definition map_operand (fm : memref -> memref) (o : operand) : operand :=
  match o with ORef m => ORef (fm m) | OInt _ => o end.

Definition map_instr (fq : qubit -> qubit) (fe : expr -> expr) (fm : memref -> memref)
           (fp : option pdata -> option pdata) (i : instr) : instr :=
  match i with
  | IGate nm ps qs => IGate nm (map fe ps) (map fq qs)
  | IMeasure mn q t => IMeasure mn (fq q) (option_map fm t)
  | IReset q => IReset (option_map fq q)
  | IFence qs => IFence (map fq qs)
  | IDelay qs fs d => IDelay (map fq qs) fs (fe d)
  | IPulse b f w => IPulse b (fmap_q fq f) (wmap_e fe w)
  | ICapture b f m w => ICapture b (fmap_q fq f) (fm m) (wmap_e fe w)
  | IRawCapture b f d m => IRawCapture b (fmap_q fq f) (fe d) (fm m)
  | IFrameSet k f e => IFrameSet k (fmap_q fq f) (fe e)
  | ISwapPhases f g => ISwapPhases (fmap_q fq f) (fmap_q fq g)
  | IMove d s => IMove (fm d) (map_operand fm s)
  | ILoad d s o => ILoad (fm d) s (fm o)
  | IDeclare _ _ _ => i
  | IPragma nm args data => IPragma nm args (if N.eqb nm load_memory then fp data else data)
  | IOther _ => i
  end.

(** memory references inside an expression *)
Fixpoint emap_m (fm : memref -> memref) (e : expr) : expr :=
  match e with
  | EAddr m => EAddr (fm m)
  | ENeg x => ENeg (emap_m fm x)
  | EBin op l r => EBin op (emap_m fm l) (emap_m fm r)
  | EFun f x => EFun f (emap_m fm x)
  | _ => e
  end.

(** Gate calibration: "the gate's qubits and parameters substituted for the calibration's
    variables", everything else as written. *)
Definition spec_gate (c : gcal) (ps : list expr) (qs : list qubit) : list instr :=
  map (map_instr (qsub (qubit_bindings (gc_qubits c) qs)) (esub (param_bindings (gc_params c) ps))
                 (fun m => m) (fun d => d))
      (gc_body c).

(** Measurement calibration: "its qubit replaces the qubit variable and its target replaces uses of
    the target name, and other memory references stay as written". *)
Definition retarget_memref (formal : option N) (t : option memref) (m : memref) : memref :=
  match formal, t with
  | Some f, Some tm => if N.eqb (fst m) f then tm else m
  | _, _ => m
  end.

Definition retarget_pdata (formal : option N) (t : option memref) (d : option pdata) : option pdata :=
  match formal, t, d with
  | Some f, Some tm, Some (PName n) => if N.eqb n f then Some (PRef tm) else d
  | _, _, _ => d
  end.

Definition spec_meas (c : mcal) (q : qubit) (t : option memref) : list instr :=
  map (map_instr (qsub (meas_qubit_bindings c q)) (emap_m (retarget_memref (mc_target c) t))
                 (retarget_memref (mc_target c) t) (retarget_pdata (mc_target c) t))
      (mc_body c).

Lemma map_id {A} (l : list A) : map (fun x => x) l = l.
Proof. apply map_id. Qed.

Lemma subst_gate_instr_spec fq fe i :
  subst_exprs fe (subst_qubits fq i) = map_instr fq fe (fun m => m) (fun d => d) i.
Proof.
  destruct i as [nm ps qs|mn q t|[q|]|qs|qs fs d|b f w|b f m w|b f d m|k f e|f g|d [z|m]|d s o|nm ty ln|nm args data|k];
    cbn; try reflexivity.
  - destruct t; reflexivity.
  - destruct (N.eqb nm load_memory); reflexivity.
Qed.

Lemma subst_gate_spec c ps qs : subst_gate c ps qs = spec_gate c ps qs.
Proof. unfold subst_gate, spec_gate. apply map_ext. intro i. apply subst_gate_instr_spec. Qed.

(** the named class of the open finding [measure-calibration-target-uses]: the calibration's body
    uses its formal target name somewhere other than as the target of a CAPTURE or the text of a
    LOAD-MEMORY pragma *)
Definition memref_named (f : N) (m : memref) : bool := N.eqb (fst m) f.

Definition target_elsewhere (f : N) (i : instr) : bool :=
  existsb (memref_named f) (flat_map expr_memrefs (instr_exprs i)) ||
  match i with
  | IMeasure _ _ (Some m) => memref_named f m
  | IRawCapture _ _ _ m => memref_named f m
  | IMove d s => memref_named f d || match s with ORef m => memref_named f m | OInt _ => false end
  | ILoad d _ o => memref_named f d || memref_named f o
  | _ => false
  end.

Definition Known_measure_target_uses (c : mcal) : bool :=
  match mc_target c with Some f => existsb (target_elsewhere f) (mc_body c) | None => false end.

Lemma emap_m_clean f tm e :
  existsb (memref_named f) (expr_memrefs e) = false ->
  emap_m (retarget_memref (Some f) (Some tm)) e = e.
Proof.
  induction e as [z| |v|m|e IH|op l IHl r IHr|g e IH]; cbn; intro H; try reflexivity.
  - rewrite orb_false_r in H. unfold memref_named in H. rewrite H. reflexivity.
  - rewrite IH; auto.
  - rewrite existsb_app, orb_false_iff in H. destruct H. rewrite IHl, IHr; auto.
  - rewrite IH; auto.
Qed.

Lemma emap_m_id_none formal t e : (formal = None \/ t = None) -> emap_m (retarget_memref formal t) e = e.
Proof.
  intro H. assert (E : forall m, retarget_memref formal t m = m).
  { intro m. unfold retarget_memref. destruct H; subst; [reflexivity | destruct formal; reflexivity]. }
  induction e; cbn; rewrite ?E; congruence.
Qed.

Lemma map_emap_clean f tm (l : list expr) :
  existsb (memref_named f) (flat_map expr_memrefs l) = false ->
  map (emap_m (retarget_memref (Some f) (Some tm))) l = l.
Proof.
  induction l as [|e t IH]; cbn; intro H; [reflexivity|].
  rewrite existsb_app, orb_false_iff in H. destruct H. rewrite emap_m_clean, IH; auto.
Qed.

Lemma wmap_emap_clean f tm (w : wform) :
  existsb (memref_named f) (flat_map expr_memrefs (map snd (snd w))) = false ->
  wmap_e (emap_m (retarget_memref (Some f) (Some tm))) w = w.
Proof.
  destruct w as [n ps]. unfold wmap_e. cbn. intro H. f_equal.
  induction ps as [|[k e] t IH]; cbn in *; [reflexivity|].
  rewrite existsb_app, orb_false_iff in H. destruct H. rewrite emap_m_clean, IH; auto.
Qed.

Lemma subst_meas_instr_spec_some f tm fq i :
  target_elsewhere f i = false ->
  retarget (Some f) (Some tm) (subst_qubits fq i) =
  map_instr fq (emap_m (retarget_memref (Some f) (Some tm))) (retarget_memref (Some f) (Some tm))
            (retarget_pdata (Some f) (Some tm)) i.
Proof.
  unfold target_elsewhere.
  destruct i as [nm ps qs|mn q t|[q|]|qs|qs fs d|b fr w|b fr m w|b fr d m|k fr e|fr g|d [z|m]|d s o|nm ty ln|nm args data|k];
    cbn [instr_exprs subst_qubits retarget map_instr]; rewrite ?orb_false_iff; intro H;
    repeat match goal with H : _ /\ _ |- _ => destruct H end.
  - rewrite map_emap_clean; auto.
  - destruct t as [m|]; cbn; [|reflexivity]. unfold memref_named in *. rewrite H0. reflexivity.
  - reflexivity.
  - reflexivity.
  - reflexivity.
  - cbn in H. rewrite app_nil_r in H. rewrite emap_m_clean; auto.
  - rewrite wmap_emap_clean; auto.
  - rewrite wmap_emap_clean; auto. cbn. destruct (N.eqb (fst m) f); reflexivity.
  - cbn in H. rewrite app_nil_r in H. rewrite emap_m_clean; auto.
    cbn. unfold memref_named in *. rewrite H0. reflexivity.
  - cbn in H. rewrite app_nil_r in H. rewrite emap_m_clean; auto.
  - reflexivity.
  - cbn. unfold memref_named in *. rewrite H0. reflexivity.
  - cbn. unfold memref_named in *. rewrite H0, H1. reflexivity.
  - cbn. unfold memref_named in *. rewrite H0, H1. reflexivity.
  - reflexivity.
  - cbn. destruct (N.eqb nm load_memory); cbn; [|reflexivity].
    destruct data as [[n|m]|]; cbn; try reflexivity.
    destruct (N.eqb n f); reflexivity.
  - reflexivity.
Qed.

Lemma subst_meas_instr_spec_none formal t fq i :
  (formal = None \/ t = None) -> Bool.eqb (is_some t) (is_some formal) = true ->
  retarget formal t (subst_qubits fq i) =
  map_instr fq (emap_m (retarget_memref formal t)) (retarget_memref formal t) (retarget_pdata formal t) i.
Proof.
  intros H Hb.
  assert (formal = None /\ t = None) as [-> ->].
  { destruct H; subst; [destruct t | destruct formal]; cbn in Hb; try discriminate; auto. }
  assert (Ee : forall e, emap_m (retarget_memref None None) e = e) by (intro; apply emap_m_id_none; auto).
  assert (El : forall l, map (emap_m (retarget_memref None None)) l = l).
  { induction l; cbn; rewrite ?Ee; congruence. }
  assert (Ew : forall w, wmap_e (emap_m (retarget_memref None None)) w = w).
  { intros [n ps]. unfold wmap_e; cbn. f_equal. induction ps as [|[k e] r IH]; cbn; rewrite ?Ee; congruence. }
  destruct i as [nm ps qs|mn q t|[q|]|qs|qs fs d|b fr w|b fr m w|b fr d m|k fr e|fr g|d [z|m]|d s o|nm ty ln|nm args data|k];
    cbn [instr_exprs subst_qubits retarget map_instr retarget_memref retarget_pdata option_map map_operand];
    rewrite ?Ee, ?El, ?Ew; try reflexivity.
  - destruct t; reflexivity.
  - destruct (N.eqb nm load_memory); cbn; [|reflexivity].
    destruct (option_eqb pdata_eqb data None); reflexivity.
Qed.

(** C17, measurement clause: outside the known class the implemented substitution is the specified one *)
Lemma subst_meas_spec c q t :
  Known_measure_target_uses c = false -> Bool.eqb (is_some t) (is_some (mc_target c)) = true ->
  subst_meas c q t = spec_meas c q t.
Proof.
  unfold Known_measure_target_uses, subst_meas, spec_meas. intros Hk Hb.
  destruct (mc_target c) as [f|] eqn:Hf; destruct t as [tm|]; cbn in Hb; try discriminate.
  - apply map_ext_in. intros i Hi. apply subst_meas_instr_spec_some.
    destruct (target_elsewhere f i) eqn:E; [|reflexivity].
    assert (existsb (target_elsewhere f) (mc_body c) = true) by (apply existsb_exists; eauto). congruence.
  - apply map_ext. intro i. apply subst_meas_instr_spec_none; auto.
Qed.

(** ... and inside the class it is not: [DEFCAL MEASURE q addr: MOVE addr 1] applied to
    [MEASURE 0 ro[1]] leaves [MOVE addr[0] 1] (names: addr = 1, ro = 2, q = 3) *)
Definition kf_mcal : mcal :=
  {| mc_name := None; mc_qubit := QV 3; mc_target := Some 1%N; mc_body := [IMove (1%N, 0%N) (OInt 1)] |}.

Lemma subst_meas_spec_refuted :
  exists c q t, Known_measure_target_uses c = true /\ Bool.eqb (is_some t) (is_some (mc_target c)) = true /\
                subst_meas c q t <> spec_meas c q t.
Proof. exists kf_mcal, (QF 0), (Some (2%N, 1%N)). repeat split; vm_compute; discriminate. Qed.

(** match and substitute, as specified *)
Definition instantiate_spec (cs : cals) (i : instr) : option (list instr * calsrc) :=
  match i with
  | IGate nm ps qs =>
      match gate_match (gcals cs) nm ps qs with
      | Some c => Some (spec_gate c ps qs, CSGate (gc_name c) (gc_params c) (gc_qubits c))
      | None => None
      end
  | IMeasure mn q t =>
      match meas_match (mcals cs) mn q t with
      | Some c => Some (spec_meas c q t, CSMeas (mc_name c) (mc_qubit c) (mc_target c))
      | None => None
      end
  | _ => None
  end.

Lemma find_some_prop {A} (f : A -> bool) l x : find f l = Some x -> In x l /\ f x = true.
Proof. apply find_some. Qed.

Lemma meas_match_applicable cs mn q t c :
  meas_match cs mn q t = Some c -> In c cs /\ mcal_applicable c mn t = true.
Proof.
  unfold meas_match. destruct (find (mcal_exact mn q t) (rev cs)) eqn:E1.
  - intro H; inversion H; subst. apply find_some in E1. destruct E1 as [Hin Hx].
    unfold mcal_exact in Hx. apply andb_true_iff in Hx. rewrite <- in_rev in Hin. tauto.
  - intro E2. apply find_some in E2. destruct E2 as [Hin Hx].
    unfold mcal_wild in Hx. apply andb_true_iff in Hx. rewrite <- in_rev in Hin. tauto.
Qed.

Definition cals_clean (cs : cals) : bool := forallb (fun c => negb (Known_measure_target_uses c)) (mcals cs).

Lemma instantiate_is_spec cs i : cals_clean cs = true -> instantiate cs i = instantiate_spec cs i.
Proof.
  intro Hc. destruct i; cbn; try reflexivity.
  - destruct (gate_match (gcals cs) nm ps qs); [|reflexivity]. rewrite subst_gate_spec. reflexivity.
  - destruct (meas_match (mcals cs) mn q t) as [c|] eqn:E; [|reflexivity].
    apply meas_match_applicable in E. destruct E as [Hin Ha].
    unfold cals_clean in Hc. rewrite forallb_forall in Hc. specialize (Hc c Hin).
    apply negb_true_iff in Hc. unfold mcal_applicable in Ha. apply andb_true_iff in Ha.
    rewrite subst_meas_spec; tauto.
Qed.

Lemma Expands_ext inst1 inst2 (E : forall i, inst1 i = inst2 i) :
  (forall path i r, Expands inst1 path i r -> Expands inst2 path i r) /\
  (forall path l out, ExpandsList inst1 path l out -> ExpandsList inst2 path l out).
Proof.
  apply Expands_mutind; intros.
  - apply Ex_nomatch; auto. rewrite <- E; auto.
  - eapply Ex_match; eauto. rewrite <- E; eauto.
  - constructor.
  - constructor; auto.
  - constructor; auto.
Qed.

(** * Part E: soundness of the C17 instance checkers *)

Lemma chk_fixpoint_sound cs out :
  chk_fixpoint cs out = true -> forall j, In j out -> instantiate cs j = None.
Proof.
  unfold chk_fixpoint. rewrite forallb_forall. intros H j Hj. specialize (H j Hj).
  destruct (instantiate cs j); [discriminate | reflexivity].
Qed.

Lemma chk_closed_sound cs src out :
  chk_closed cs src out = true -> cals_scoped cs = true -> (forall i, In i src -> closed_instr i = true) ->
  forall j, In j out -> closed_instr j = true.
Proof.
  unfold chk_closed. intros H Hs Hc. rewrite Hs in H.
  assert (E : forallb closed_instr src = true) by (apply forallb_forall; auto).
  rewrite E in H. cbn in H. rewrite forallb_forall in H. exact H.
Qed.

Lemma chk_targets_sound cs p out :
  chk_targets cs p out = true -> formals_private cs p = true ->
  forall j, In j out -> forall r, In r (instr_regions j) -> ~ In r (formals cs).
Proof.
  unfold chk_targets. intros H Hp. rewrite Hp in H. rewrite forallb_forall in H.
  intros j Hj r Hr Hf. specialize (H j Hj). unfold mentions_none in H. apply negb_true_iff in H.
  assert (existsb (fun r => memN r (formals cs)) (instr_regions j) = true); [|congruence].
  apply existsb_exists. exists r. split; auto. unfold memN. apply existsb_exists. exists r.
  split; auto. apply N.eqb_refl.
Qed.

Lemma chk_hoisted_sound out : chk_hoisted out = true -> forall j, In j out -> hoisted j = false.
Proof.
  unfold chk_hoisted. rewrite forallb_forall. intros H j Hj. apply negb_true_iff. auto.
Qed.

Inductive Subseq : list instr -> list instr -> Prop :=
| SS_nil l : Subseq [] l
| SS_take x a b : Subseq a b -> Subseq (x :: a) (x :: b)
| SS_skip a y b : Subseq a b -> Subseq a (y :: b).

Lemma is_subseq_sound : forall b a, is_subseq a b = true -> Subseq a b.
Proof.
  induction b as [|y b IH]; intros [|x a] H.
  - constructor.
  - discriminate.
  - constructor.
  - cbn in H. destruct (instr_eqb x y) eqn:E.
    + apply instr_eqb_spec in E. subst. apply SS_take. auto.
    + apply SS_skip. auto.
Qed.

Lemma chk_unmatched_sound cs src out :
  chk_unmatched cs src out = true ->
  Subseq (filter (fun i => negb (is_some (instantiate cs i))) src) out.
Proof. apply is_subseq_sound. Qed.

(** ** order: unmatched source instructions survive, in order *)

Lemma Subseq_refl l : Subseq l l.
Proof. induction l; constructor; auto. Qed.

Lemma Subseq_app_skip o : forall a b, Subseq a b -> Subseq a (o ++ b).
Proof. induction o; cbn; intros; [auto | apply SS_skip; auto]. Qed.

Lemma Subseq_filter f a b : Subseq a b -> Subseq (filter f a) (filter f b).
Proof.
  induction 1; cbn.
  - constructor.
  - destruct (f x); [apply SS_take|]; auto.
  - destruct (f y); [apply SS_skip|]; auto.
Qed.

Lemma ExpandsTop_unmatched_subseq inst src outs :
  Forall2 (ExpandsTop inst) src outs ->
  Subseq (filter (fun i => negb (is_some (inst i))) src) (concat outs).
Proof.
  induction 1 as [|i o src outs Hi _ IH]; cbn; [constructor|].
  destruct Hi as [Hi|o Hi]; inversion Hi; subst.
  - match goal with H : inst i = None |- _ => rewrite H end. cbn. apply SS_take. exact IH.
  - match goal with H : inst i = Some _ |- _ => rewrite H end. cbn. apply Subseq_app_skip. exact IH.
Qed.

Lemma expand_program_spec inst fuel p p' :
  expand_program inst fuel p = Ok p' ->
  exists outs,
    Forall2 (ExpandsTop inst) (body p) outs /\
    body p' = filter not_hoisted (concat outs) /\
    regions p' = fold_left (fun rs r => region_insert r rs) (flat_map declared_region (concat outs)) (regions p).
Proof.
  unfold expand_program. intro H. apply expand_program_from_sound in H. destruct H as [outs [HF ->]].
  exists outs. split; [exact HF|]. rewrite add_instructions_body, add_instructions_regions. cbn. auto.
Qed.

Lemma expand_program_complete inst p outs :
  Forall2 (ExpandsTop inst) (body p) outs ->
  exists n, forall fuel, n <= fuel ->
      expand_program inst fuel p = Ok (add_instructions (clone_without_body p) (concat outs)).
Proof.
  intro H. apply expand_program_from_complete in H. destruct H as [n H]. exists n. intros fuel Hf.
  apply H; auto.
Qed.

Lemma expand_program_unmatched_in_order inst fuel p p' :
  expand_program inst fuel p = Ok p' ->
  Subseq (filter not_hoisted (filter (fun i => negb (is_some (inst i))) (body p))) (body p').
Proof.
  intro H. apply expand_program_spec in H. destruct H as [outs [HF [Hb _]]]. rewrite Hb.
  apply Subseq_filter, ExpandsTop_unmatched_subseq; auto.
Qed.

Lemma expand_program_hoisted inst fuel p p' :
  expand_program inst fuel p = Ok p' -> forall j, In j (body p') -> hoisted j = false.
Proof.
  intro H. apply expand_program_spec in H. destruct H as [outs [_ [Hb _]]]. rewrite Hb.
  intros j Hj. apply filter_In in Hj. destruct Hj as [_ Hj]. unfold not_hoisted in Hj.
  apply negb_true_iff in Hj. exact Hj.
Qed.

Lemma region_insert_In r : forall l, exists x, In (fst r, x) (region_insert r l).
Proof.
  induction l as [|y t [x IH]]; cbn.
  - exists (snd r). left. destruct r; reflexivity.
  - destruct (N.eqb (fst y) (fst r)).
    + exists (snd r). left. destruct r; reflexivity.
    + exists x. right. exact IH.
Qed.

Lemma region_insert_keeps r n : forall l, (exists x, In (n, x) l) -> exists x, In (n, x) (region_insert r l).
Proof.
  induction l as [|y t IH]; intros [x Hx]; [destruct Hx|]. cbn.
  destruct (N.eqb (fst y) (fst r)) eqn:E.
  - destruct Hx as [->|Hx].
    + cbn in E. apply N.eqb_eq in E. subst. exists (snd r). left. destruct r; reflexivity.
    + exists x. right. exact Hx.
  - destruct Hx as [->|Hx].
    + exists x. left. reflexivity.
    + destruct IH as [x' Hx']; [eauto|]. exists x'. right. exact Hx'.
Qed.

Lemma fold_insert_keeps n : forall ds l, (exists x, In (n, x) l) ->
  exists x, In (n, x) (fold_left (fun rs r => region_insert r rs) ds l).
Proof.
  induction ds as [|d t IH]; cbn; intros l H; [exact H|]. apply IH. apply region_insert_keeps. exact H.
Qed.

Lemma fold_insert_declares n : forall ds l, (exists x, In (n, x) ds) ->
  exists x, In (n, x) (fold_left (fun rs r => region_insert r rs) ds l).
Proof.
  induction ds as [|d t IH]; intros l [x Hx]; [destruct Hx|]. cbn. destruct Hx as [->|Hx].
  - apply fold_insert_keeps. apply (region_insert_In (n, x)).
  - apply IH. eauto.
Qed.

(** every declaration emitted by an expansion ends up among the program's memory regions *)
Lemma expand_program_declared inst fuel p p' :
  expand_program inst fuel p = Ok p' ->
  exists outs, Forall2 (ExpandsTop inst) (body p) outs /\
    forall nm ty ln, In (IDeclare nm ty ln) (concat outs) -> exists x, In (nm, x) (regions p').
Proof.
  intro H. apply expand_program_spec in H. destruct H as [outs [HF [_ Hr]]]. exists outs. split; [exact HF|].
  intros nm ty ln Hin. rewrite Hr. apply fold_insert_declares. exists (ty, ln).
  apply in_flat_map. exists (IDeclare nm ty ln). split; [exact Hin | left; reflexivity].
Qed.
