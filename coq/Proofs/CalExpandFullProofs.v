(** Proofs about Model/CalExpandFull.v (properties C17 and C19). *)
From Coq Require Import List NArith ZArith Bool Lia Arith Sorted.
From QV Require Import Model.CalExpandFull.
Import ListNotations.

(** * Part A: the boolean equalities decide Leibniz equality *)

Lemma qubit_eqb_spec a b : qubit_eqb a b = true <-> a = b.
Proof.
  destruct a, b; cbn; rewrite ?N.eqb_eq; split; intro H; try congruence; try discriminate.
Qed.

Lemma memref_eqb_spec (a b : memref) : memref_eqb a b = true <-> a = b.
Proof.
  destruct a, b; unfold memref_eqb; cbn. rewrite andb_true_iff, !N.eqb_eq.
  split; [intros [-> ->]; reflexivity | intro H; inversion H; auto].
Qed.

Lemma expr_eqb_spec a : forall b, expr_eqb a b = true <-> a = b.
Proof.
  induction a as [z| |v|m|e IH|op l IHl r IHr|f e IH]; intros [z'| |v'|m'|e'|op' l' r'|f' e']; cbn;
    try (split; [discriminate | congruence]).
  - rewrite Z.eqb_eq. split; congruence.
  - split; auto.
  - rewrite N.eqb_eq. split; congruence.
  - rewrite memref_eqb_spec. split; congruence.
  - rewrite IH. split; congruence.
  - rewrite !andb_true_iff, N.eqb_eq, IHl, IHr. split; [intros [[-> ->] ->]; reflexivity | intro H; inversion H; auto].
  - rewrite andb_true_iff, N.eqb_eq, IH. split; [intros [-> ->]; reflexivity | intro H; inversion H; auto].
Qed.

Lemma list_eqb_spec {A} (eq : A -> A -> bool) (Heq : forall x y, eq x y = true <-> x = y) l1 :
  forall l2, list_eqb eq l1 l2 = true <-> l1 = l2.
Proof.
  induction l1 as [|x t IH]; intros [|y u]; cbn; try (split; [discriminate | congruence]).
  - split; auto.
  - rewrite andb_true_iff, Heq, IH. split; [intros [-> ->]; reflexivity | intro H; inversion H; auto].
Qed.

Lemma option_eqb_spec {A} (eq : A -> A -> bool) (Heq : forall x y, eq x y = true <-> x = y) (a b : option A) :
  option_eqb eq a b = true <-> a = b.
Proof.
  destruct a, b; cbn; try (split; [discriminate | congruence]).
  - rewrite Heq. split; congruence.
  - split; auto.
Qed.

Lemma frame_eqb_spec (a b : frame) : frame_eqb a b = true <-> a = b.
Proof.
  destruct a, b; unfold frame_eqb; cbn.
  rewrite andb_true_iff, N.eqb_eq, (list_eqb_spec qubit_eqb qubit_eqb_spec).
  split; [intros [-> ->]; reflexivity | intro H; inversion H; auto].
Qed.

Lemma wparam_eqb_spec (a b : N * expr) : wparam_eqb a b = true <-> a = b.
Proof.
  destruct a, b; unfold wparam_eqb; cbn. rewrite andb_true_iff, N.eqb_eq, expr_eqb_spec.
  split; [intros [-> ->]; reflexivity | intro H; inversion H; auto].
Qed.

Lemma wform_eqb_spec (a b : wform) : wform_eqb a b = true <-> a = b.
Proof.
  destruct a, b; unfold wform_eqb; cbn.
  rewrite andb_true_iff, N.eqb_eq, (list_eqb_spec wparam_eqb wparam_eqb_spec).
  split; [intros [-> ->]; reflexivity | intro H; inversion H; auto].
Qed.

Lemma operand_eqb_spec a b : operand_eqb a b = true <-> a = b.
Proof.
  destruct a, b; cbn; try (split; [discriminate | congruence]).
  - rewrite Z.eqb_eq. split; congruence.
  - rewrite memref_eqb_spec. split; congruence.
Qed.

Lemma pdata_eqb_spec a b : pdata_eqb a b = true <-> a = b.
Proof.
  destruct a, b; cbn; try (split; [discriminate | congruence]).
  - rewrite N.eqb_eq. split; congruence.
  - rewrite memref_eqb_spec. split; congruence.
Qed.

Lemma bool_eqb_spec (a b : bool) : Bool.eqb a b = true <-> a = b.
Proof. apply Bool.eqb_true_iff. Qed.

Lemma N_eqb_spec (a b : N) : N.eqb a b = true <-> a = b.
Proof. apply N.eqb_eq. Qed.

Ltac eqb_to_eq :=
  rewrite ?andb_true_iff, ?N.eqb_eq, ?bool_eqb_spec, ?frame_eqb_spec, ?wform_eqb_spec,
    ?memref_eqb_spec, ?operand_eqb_spec, ?expr_eqb_spec, ?qubit_eqb_spec,
    ?(list_eqb_spec expr_eqb expr_eqb_spec), ?(list_eqb_spec qubit_eqb qubit_eqb_spec),
    ?(list_eqb_spec N.eqb N_eqb_spec), ?(option_eqb_spec N.eqb N_eqb_spec),
    ?(option_eqb_spec memref_eqb memref_eqb_spec), ?(option_eqb_spec qubit_eqb qubit_eqb_spec),
    ?(option_eqb_spec pdata_eqb pdata_eqb_spec).

Lemma instr_eqb_spec a b : instr_eqb a b = true <-> a = b.
Proof.
  destruct a, b; cbn [instr_eqb]; try (split; [discriminate | congruence]); eqb_to_eq;
    (split; [intro H; repeat match goal with H : _ /\ _ |- _ => destruct H end; subst; reflexivity
            | intro H; inversion H; subst; repeat split; reflexivity]).
Qed.

Lemma instr_eqb_refl a : instr_eqb a a = true.
Proof. apply instr_eqb_spec; reflexivity. Qed.

Lemma mem_instr_spec i l : mem_instr i l = true <-> In i l.
Proof.
  induction l as [|x t IH]; cbn.
  - split; [discriminate | tauto].
  - rewrite orb_true_iff, instr_eqb_spec, IH. tauto.
Qed.

Lemma mem_instr_false i l : mem_instr i l = false <-> ~ In i l.
Proof. rewrite <- mem_instr_spec. destruct (mem_instr i l); split; congruence. Qed.

Lemma calsrc_eqb_spec a b : calsrc_eqb a b = true <-> a = b.
Proof.
  destruct a, b; cbn [calsrc_eqb]; try (split; [discriminate | congruence]); eqb_to_eq;
    (split; [intro H; repeat match goal with H : _ /\ _ |- _ => destruct H end; subst; reflexivity
            | intro H; inversion H; subst; repeat split; reflexivity]).
Qed.

(** * Part B: expansion against an independent big-step relation *)

Section ExpandsSec.
  Variable inst : instr -> option (list instr * calsrc).

  (** [Expands path i r]: with [path] the instructions being expanded around [i] (innermost first),
      [r = None] when no calibration matches [i], and [r = Some out] when the matching calibration's
      substituted body expands, instruction by instruction, to [out].  An instruction already on the
      path has no expansion (the implementation reports [RecursiveCalibration]). *)
  Inductive Expands : list instr -> instr -> option (list instr) -> Prop :=
  | Ex_nomatch path i :
      ~ In i path -> inst i = None -> Expands path i None
  | Ex_match path i body src out :
      ~ In i path -> inst i = Some (body, src) -> ExpandsList (i :: path) body out ->
      Expands path i (Some out)
  with ExpandsList : list instr -> list instr -> list instr -> Prop :=
  | EL_nil path : ExpandsList path [] []
  | EL_keep path j t r :
      Expands path j None -> ExpandsList path t r -> ExpandsList path (j :: t) (j :: r)
  | EL_expand path j o t r :
      Expands path j (Some o) -> ExpandsList path t r -> ExpandsList path (j :: t) (o ++ r).

  Scheme Expands_mind := Induction for Expands Sort Prop
    with ExpandsList_mind := Induction for ExpandsList Sort Prop.
  Combined Scheme Expands_mutind from Expands_mind, ExpandsList_mind.

  Lemma expand_list_sound (rec : instr -> res (option (list instr))) path
        (Hrec : forall j r, rec j = Ok r -> Expands path j r) :
    forall l out, expand_list rec l = Ok out -> ExpandsList path l out.
  Proof.
    induction l as [|j t IH]; cbn; intros out H.
    - inversion H; constructor.
    - destruct (rec j) as [[o|]| |] eqn:Hj; try discriminate;
        destruct (expand_list rec t) as [r| |] eqn:Ht; cbn in H; try discriminate;
        inversion H; subst; constructor; auto.
  Qed.

  Lemma expand_sound : forall fuel path i r, expand inst fuel path i = Ok r -> Expands path i r.
  Proof.
    induction fuel as [|f IH]; cbn; intros path i r H; [discriminate|].
    destruct (mem_instr i path) eqn:Hm; [discriminate|].
    apply mem_instr_false in Hm.
    destruct (inst i) as [[body src]|] eqn:Hi.
    - destruct (expand_list (expand inst f (i :: path)) body) as [out| |] eqn:Hl; cbn in H; try discriminate.
      inversion H; subst. eapply Ex_match; eauto.
      eapply expand_list_sound; eauto.
    - inversion H; subst. constructor; auto.
  Qed.

  Lemma expand_complete_mut :
    (forall path i r, Expands path i r -> exists n, forall fuel, n <= fuel -> expand inst fuel path i = Ok r) /\
    (forall path l out, ExpandsList path l out ->
       exists n, forall fuel, n <= fuel -> expand_list (expand inst fuel path) l = Ok out).
  Proof.
    apply Expands_mutind.
    - intros path i Hn Hi. exists 1. intros [|f] Hf; [lia|]. cbn.
      apply mem_instr_false in Hn. rewrite Hn, Hi. reflexivity.
    - intros path i body src out Hn Hi _ [n IH]. exists (S n). intros [|f] Hf; [lia|]. cbn.
      apply mem_instr_false in Hn. rewrite Hn, Hi, IH by lia. reflexivity.
    - intros path. exists 0. reflexivity.
    - intros path j t r _ [n1 IH1] _ [n2 IH2]. exists (Nat.max n1 n2). intros fuel Hf. cbn.
      rewrite IH1, IH2 by lia. reflexivity.
    - intros path j o t r _ [n1 IH1] _ [n2 IH2]. exists (Nat.max n1 n2). intros fuel Hf. cbn.
      rewrite IH1, IH2 by lia. reflexivity.
  Qed.

  Lemma expand_complete path i r :
    Expands path i r -> exists n, forall fuel, n <= fuel -> expand inst fuel path i = Ok r.
  Proof. apply expand_complete_mut. Qed.

  Lemma Expands_deterministic path i r1 r2 : Expands path i r1 -> Expands path i r2 -> r1 = r2.
  Proof.
    intros H1 H2. apply expand_complete in H1, H2. destruct H1 as [n1 H1], H2 as [n2 H2].
    specialize (H1 (Nat.max n1 n2)). specialize (H2 (Nat.max n1 n2)).
    rewrite H1 in H2 by lia. specialize (H2 ltac:(lia)). congruence.
  Qed.

  (** more fuel never changes a successful result *)
  Lemma expand_fuel_mono fuel fuel' path i r :
    expand inst fuel path i = Ok r -> fuel <= fuel' -> exists n, forall k, n <= k -> expand inst k path i = Ok r.
  Proof. intros H _. apply expand_complete, expand_sound with (fuel := fuel); exact H. Qed.

  (** the result is a fixpoint: nothing in it has a matching calibration *)
  Lemma Expands_fixpoint_mut :
    (forall path i r, Expands path i r -> forall out, r = Some out -> forall j, In j out -> inst j = None) /\
    (forall path l out, ExpandsList path l out -> forall j, In j out -> inst j = None).
  Proof.
    apply Expands_mutind.
    - intros; discriminate.
    - intros path i body src out _ _ _ IH out' E j Hj. inversion E; subst. eauto.
    - intros path j [].
    - intros path j t r He _ _ IH x [<-|Hx]; [inversion He; auto | auto].
    - intros path j o t r _ IH1 _ IH2 x Hx. apply in_app_or in Hx. destruct Hx; eauto.
  Qed.

  Lemma Expands_fixpoint path i out : Expands path i (Some out) -> forall j, In j out -> inst j = None.
  Proof. intros H. eapply (proj1 Expands_fixpoint_mut); eauto. Qed.

  (** ** the two code paths of [expand_inner] ([build_source_map] on / off) agree *)

  Definition detail_instrs (d : option detail) : option (list instr) := option_map fst d.

  Lemma expand_d_list_sim (recd : instr -> res (option detail)) (rec : instr -> res (option (list instr)))
        (Hrec : forall j, res_map detail_instrs (recd j) = rec j) :
    forall l k acc es,
      res_map fst (expand_d_list recd l k acc es) = res_map (fun r => acc ++ r) (expand_list rec l).
  Proof.
    induction l as [|j t IH]; cbn; intros k acc es.
    - rewrite app_nil_r. reflexivity.
    - rewrite <- Hrec. destruct (recd j) as [[[o [[src rg] sub]]|]| |]; cbn; auto.
      + rewrite IH. destruct (expand_list rec t); cbn; auto. rewrite <- app_assoc. reflexivity.
      + rewrite IH. destruct (expand_list rec t); cbn; auto. rewrite <- app_assoc. reflexivity.
  Qed.

  Lemma expand_d_sim : forall fuel path i,
      res_map detail_instrs (expand_d inst fuel path i) = expand inst fuel path i.
  Proof.
    induction fuel as [|f IH]; cbn; intros path i; [reflexivity|].
    destruct (mem_instr i path); [reflexivity|].
    destruct (inst i) as [[body src]|]; [|reflexivity].
    pose proof (expand_d_list_sim (expand_d inst f (i :: path)) (expand inst f (i :: path))
                                  (IH (i :: path)) body 0%N [] []) as H.
    destruct (expand_d_list (expand_d inst f (i :: path)) body 0 [] []) as [[a e]| |];
      destruct (expand_list (expand inst f (i :: path)) body); cbn in *; congruence.
  Qed.

  (** ** Program level *)

  (** what one body instruction contributes to the expanded program *)
  Inductive ExpandsTop (i : instr) : list instr -> Prop :=
  | ET_keep : Expands [] i None -> ExpandsTop i [i]
  | ET_expand o : Expands [] i (Some o) -> ExpandsTop i o.

  Definition not_hoisted (i : instr) : bool := negb (hoisted i).

  Definition declared_region (i : instr) : list region :=
    match i with IDeclare nm ty ln => [(nm, (ty, ln))] | _ => [] end.

  Lemma add_instruction_body p i :
    body (add_instruction p i) = body p ++ filter not_hoisted [i].
  Proof. destruct i; cbn; rewrite ?app_nil_r; reflexivity. Qed.

  Lemma add_instruction_regions p i :
    regions (add_instruction p i) = fold_left (fun rs r => region_insert r rs) (declared_region i) (regions p).
  Proof. destruct i; reflexivity. Qed.

  Lemma add_instructions_body l : forall p,
    body (add_instructions p l) = body p ++ filter not_hoisted l.
  Proof.
    unfold add_instructions. induction l as [|i t IH]; intros p; cbn [fold_left].
    - cbn. rewrite app_nil_r. reflexivity.
    - rewrite IH, add_instruction_body. cbn [filter]. destruct (not_hoisted i); cbn; rewrite <- ?app_assoc, ?app_nil_r; reflexivity.
  Qed.

  Lemma add_instructions_regions l : forall p,
    regions (add_instructions p l) =
    fold_left (fun rs r => region_insert r rs) (flat_map declared_region l) (regions p).
  Proof.
    unfold add_instructions. induction l as [|i t IH]; intros p; cbn [fold_left flat_map]; [reflexivity|].
    rewrite IH, add_instruction_regions, fold_left_app. reflexivity.
  Qed.

  Lemma add_instructions_app p l1 l2 :
    add_instructions p (l1 ++ l2) = add_instructions (add_instructions p l1) l2.
  Proof. unfold add_instructions. apply fold_left_app. Qed.

  Lemma expand_program_from_sound fuel : forall src p p',
      expand_program_from inst fuel src p = Ok p' ->
      exists outs, Forall2 ExpandsTop src outs /\ p' = add_instructions p (concat outs).
  Proof.
    induction src as [|i t IH]; cbn; intros p p' H.
    - inversion H; subst. exists []. split; constructor.
    - destruct (expand_d inst fuel [] i) as [[[o d]|]| |] eqn:Hd; try discriminate.
      + apply IH in H. destruct H as [outs [HF ->]]. exists (o :: outs). split.
        * constructor; auto. apply ET_expand. apply expand_sound with (fuel := fuel).
          rewrite <- expand_d_sim, Hd. reflexivity.
        * cbn [concat]. rewrite add_instructions_app. reflexivity.
      + apply IH in H. destruct H as [outs [HF ->]]. exists ([i] :: outs). split.
        * constructor; auto. apply ET_keep. apply expand_sound with (fuel := fuel).
          rewrite <- expand_d_sim, Hd. reflexivity.
        * cbn [concat]. rewrite add_instructions_app. reflexivity.
  Qed.

  Lemma expand_program_from_complete : forall src outs,
      Forall2 ExpandsTop src outs ->
      exists n, forall fuel, n <= fuel -> forall p,
          expand_program_from inst fuel src p = Ok (add_instructions p (concat outs)).
  Proof.
    induction 1 as [|i o src outs Hi _ [n IH]].
    - exists 0. reflexivity.
    - destruct Hi as [Hi|o Hi]; apply expand_complete in Hi; destruct Hi as [m Hi];
        exists (Nat.max n m); intros fuel Hf p; cbn [expand_program_from];
        specialize (Hi fuel ltac:(lia)); rewrite <- expand_d_sim in Hi;
        destruct (expand_d inst fuel [] i) as [[[o' d]|]| |]; cbn in Hi; try discriminate; inversion Hi; subst.
      + rewrite IH by lia. cbn [concat]. rewrite add_instructions_app. reflexivity.
      + rewrite IH by lia. cbn [concat]. rewrite add_instructions_app. reflexivity.
  Qed.

  (** the no-source-map and with-source-map entry points build the same program *)
  Lemma append_loop_program base : forall l p lo hi sub,
      fst (append_loop base l p lo hi sub) = add_instructions p l.
  Proof.
    induction l as [|i t IH]; intros p lo hi sub; cbn [append_loop]; [reflexivity|].
    destruct (N.eqb (len (body p)) (len (body (add_instruction p i)))).
    - destruct (remove_target_index lo hi sub (len (body p) - base)) as [[lo' hi'] sub']. apply IH.
    - apply IH.
  Qed.

  Lemma append_expansion_program p m s o d :
    fst (append_expansion p m s (o, d)) = add_instructions p o.
  Proof.
    unfold append_expansion. destruct d as [[src [lo hi]] sub].
    pose proof (append_loop_program (len (body p)) o p lo hi sub) as H.
    destruct (append_loop (len (body p)) o p lo hi sub) as [p' [[a b] sub']]. cbn in *. exact H.
  Qed.

  Lemma expand_program_sm_from_program fuel : forall src k p m,
      res_map fst (expand_program_sm_from inst fuel src k p m) = expand_program_from inst fuel src p.
  Proof.
    induction src as [|i t IH]; intros k p m; cbn; [reflexivity|].
    destruct (expand_d inst fuel [] i) as [[[o d]|]| |]; auto.
    pose proof (append_expansion_program p m k o d) as H.
    destruct (append_expansion p m k (o, d)) as [p' m']. cbn in H. subst. apply IH.
  Qed.

  Lemma expand_program_sm_program fuel p :
    res_map fst (expand_program_sm inst fuel p) = expand_program inst fuel p.
  Proof. apply expand_program_sm_from_program. Qed.
End ExpandsSec.

(** * Part D: the substitution clauses, as the property words them *)

(** Apply [fq] to every qubit position, [fe] to every expression position, [fm] to every
    memory-reference position and [fp] to the text of a LOAD-MEMORY pragma. *)
(** memory references inside an expression *)
(** Gate calibration: "the gate's qubits and parameters substituted for the calibration's
    variables", everything else as written. *)
(** Measurement calibration: "its qubit replaces the qubit variable and its target replaces uses of
    the target name, and other memory references stay as written". *)
Lemma map_id {A} (l : list A) : map (fun x => x) l = l.
Proof. apply map_id. Qed.

Lemma subst_gate_instr_spec fq fe i :
  subst_exprs fe (subst_qubits fq i) = map_instr fq fe (fun m => m) (fun d => d) i.
Proof.
  destruct i as [nm ps qs|mn q t|[q|]|qs|qs fs d|b f w|b f m w|b f d m|k f e|f g|d [z|m]|d s o|nm ty ln|nm args data|k];
    cbn; try reflexivity.
  - destruct t; reflexivity.
  - destruct (N.eqb nm load_memory); reflexivity.
Qed.

Lemma subst_gate_spec c ps qs : subst_gate c ps qs = spec_gate c ps qs.
Proof. unfold subst_gate, spec_gate. apply map_ext. intro i. apply subst_gate_instr_spec. Qed.

(** the named class of the open finding [measure-calibration-target-uses]: the calibration's body
    uses its formal target name somewhere other than as the target of a CAPTURE or as the whole
    text of a LOAD-MEMORY pragma (i.e. in an expression, a MEASURE / RAW-CAPTURE / MOVE / LOAD
    operand, or as the printed reference [name[i]] in a LOAD-MEMORY pragma) *)
Definition memref_named (f : N) (m : memref) : bool := N.eqb (fst m) f.

Definition target_elsewhere (f : N) (i : instr) : bool :=
  existsb (memref_named f) (flat_map expr_memrefs (instr_exprs i)) ||
  match i with
  | IMeasure _ _ (Some m) => memref_named f m
  | IRawCapture _ _ _ m => memref_named f m
  | IMove d s => memref_named f d || match s with ORef m => memref_named f m | OInt _ => false end
  | ILoad d s o => memref_named f d || N.eqb s f || memref_named f o
  | IPragma nm _ (Some (PRef m)) => N.eqb nm load_memory && memref_named f m
  | _ => false
  end.

Definition Known_measure_target_uses (c : mcal) : bool :=
  match mc_target c with Some f => existsb (target_elsewhere f) (mc_body c) | None => false end.

Lemma emap_m_clean f tm e :
  existsb (memref_named f) (expr_memrefs e) = false ->
  emap_m (retarget_memref (Some f) (Some tm)) e = e.
Proof.
  induction e as [z| |v|m|e IH|op l IHl r IHr|g e IH]; cbn; intro H; try reflexivity.
  - rewrite orb_false_r in H. unfold memref_named in H. rewrite H. reflexivity.
  - rewrite IH; auto.
  - rewrite existsb_app, orb_false_iff in H. destruct H. rewrite IHl, IHr; auto.
  - rewrite IH; auto.
Qed.

Lemma emap_m_id_none formal t e : (formal = None \/ t = None) -> emap_m (retarget_memref formal t) e = e.
Proof.
  intro H. assert (E : forall m, retarget_memref formal t m = m).
  { intro m. unfold retarget_memref. destruct H; subst; [reflexivity | destruct formal; reflexivity]. }
  induction e; cbn; rewrite ?E; congruence.
Qed.

Lemma map_emap_clean f tm (l : list expr) :
  existsb (memref_named f) (flat_map expr_memrefs l) = false ->
  map (emap_m (retarget_memref (Some f) (Some tm))) l = l.
Proof.
  induction l as [|e t IH]; cbn; intro H; [reflexivity|].
  rewrite existsb_app, orb_false_iff in H. destruct H. rewrite emap_m_clean, IH; auto.
Qed.

Lemma wmap_emap_clean f tm (w : wform) :
  existsb (memref_named f) (flat_map expr_memrefs (map snd (snd w))) = false ->
  wmap_e (emap_m (retarget_memref (Some f) (Some tm))) w = w.
Proof.
  destruct w as [n ps]. unfold wmap_e. cbn. intro H. f_equal.
  induction ps as [|[k e] t IH]; cbn in *; [reflexivity|].
  rewrite existsb_app, orb_false_iff in H. destruct H. rewrite emap_m_clean, IH; auto.
Qed.

Lemma subst_meas_instr_spec_some f tm fq i :
  target_elsewhere f i = false ->
  retarget (Some f) (Some tm) (subst_qubits fq i) =
  map_instr fq (emap_m (retarget_memref (Some f) (Some tm))) (retarget_memref (Some f) (Some tm))
            (retarget_pdata (Some f) (Some tm)) i.
Proof.
  unfold target_elsewhere.
  destruct i as [nm ps qs|mn q t|[q|]|qs|qs fs d|b fr w|b fr m w|b fr d m|k fr e|fr g|d [z|m]|d s o|nm ty ln|nm args data|k];
    cbn [instr_exprs subst_qubits retarget map_instr]; rewrite ?orb_false_iff; intro H;
    repeat match goal with H : _ /\ _ |- _ => destruct H end.
  - rewrite map_emap_clean; auto.
  - destruct t as [m|]; cbn; [|reflexivity]. unfold memref_named in *. rewrite H0. reflexivity.
  - reflexivity.
  - reflexivity.
  - reflexivity.
  - cbn in H. rewrite app_nil_r in H. rewrite emap_m_clean; auto.
  - rewrite wmap_emap_clean; auto.
  - rewrite wmap_emap_clean; auto. cbn. destruct (N.eqb (fst m) f); reflexivity.
  - cbn in H. rewrite app_nil_r in H. rewrite emap_m_clean; auto.
    cbn. unfold memref_named in *. rewrite H0. reflexivity.
  - cbn in H. rewrite app_nil_r in H. rewrite emap_m_clean; auto.
  - reflexivity.
  - cbn. unfold memref_named in *. rewrite H0. reflexivity.
  - cbn. unfold memref_named in *. rewrite H0, H1. reflexivity.
  - cbn. unfold memref_named in *.
    repeat match goal with H : (_ =? _)%N = false |- _ => rewrite H; clear H end. reflexivity.
  - reflexivity.
  - cbn. destruct (N.eqb nm load_memory); cbn; [|reflexivity].
    destruct data as [[n|m]|]; cbn; try reflexivity.
    destruct (N.eqb n f); reflexivity.
  - reflexivity.
Qed.

Lemma subst_meas_instr_spec_none formal t fq i :
  (formal = None \/ t = None) -> Bool.eqb (is_some t) (is_some formal) = true ->
  retarget formal t (subst_qubits fq i) =
  map_instr fq (emap_m (retarget_memref formal t)) (retarget_memref formal t) (retarget_pdata formal t) i.
Proof.
  intros H Hb.
  assert (formal = None /\ t = None) as [-> ->].
  { destruct H; subst; [destruct t | destruct formal]; cbn in Hb; try discriminate; auto. }
  assert (Ee : forall e, emap_m (retarget_memref None None) e = e) by (intro; apply emap_m_id_none; auto).
  assert (El : forall l, map (emap_m (retarget_memref None None)) l = l).
  { induction l; cbn; rewrite ?Ee; congruence. }
  assert (Ew : forall w, wmap_e (emap_m (retarget_memref None None)) w = w).
  { intros [n ps]. unfold wmap_e; cbn. f_equal. induction ps as [|[k e] r IH]; cbn; rewrite ?Ee; congruence. }
  destruct i as [nm ps qs|mn q t|[q|]|qs|qs fs d|b fr w|b fr m w|b fr d m|k fr e|fr g|d [z|m]|d s o|nm ty ln|nm args data|k];
    cbn [instr_exprs subst_qubits retarget map_instr retarget_memref retarget_pdata option_map map_operand];
    rewrite ?Ee, ?El, ?Ew; try reflexivity.
  - destruct t; reflexivity.
  - destruct (N.eqb nm load_memory); cbn; [|reflexivity].
    destruct (option_eqb pdata_eqb data None); reflexivity.
Qed.

(** C17, measurement clause: outside the known class the implemented substitution is the specified one *)
Lemma subst_meas_spec c q t :
  Known_measure_target_uses c = false -> Bool.eqb (is_some t) (is_some (mc_target c)) = true ->
  subst_meas c q t = spec_meas c q t.
Proof.
  unfold Known_measure_target_uses, subst_meas, spec_meas. intros Hk Hb.
  destruct (mc_target c) as [f|] eqn:Hf; destruct t as [tm|]; cbn in Hb; try discriminate.
  - apply map_ext_in. intros i Hi. apply subst_meas_instr_spec_some.
    destruct (target_elsewhere f i) eqn:E; [|reflexivity].
    assert (existsb (target_elsewhere f) (mc_body c) = true) by (apply existsb_exists; eauto). congruence.
  - apply map_ext. intro i. apply subst_meas_instr_spec_none; auto.
Qed.

(** ... and inside the class it is not: [DEFCAL MEASURE q addr: MOVE addr 1] applied to
    [MEASURE 0 ro[1]] leaves [MOVE addr[0] 1] (names: addr = 1, ro = 2, q = 3) *)
Definition kf_mcal : mcal :=
  {| mc_name := None; mc_qubit := QV 3; mc_target := Some 1%N; mc_body := [IMove (1%N, 0%N) (OInt 1)] |}.

Lemma subst_meas_spec_refuted :
  exists c q t, Known_measure_target_uses c = true /\ Bool.eqb (is_some t) (is_some (mc_target c)) = true /\
                subst_meas c q t <> spec_meas c q t.
Proof. exists kf_mcal, (QF 0), (Some (2%N, 1%N)). repeat split; vm_compute; discriminate. Qed.

(** match and substitute, as specified *)
Lemma find_some_prop {A} (f : A -> bool) l x : find f l = Some x -> In x l /\ f x = true.
Proof. apply find_some. Qed.

Lemma meas_match_applicable cs mn q t c :
  meas_match cs mn q t = Some c -> In c cs /\ mcal_applicable c mn t = true.
Proof.
  unfold meas_match. destruct (find (mcal_exact mn q t) (rev cs)) eqn:E1.
  - intro H; inversion H; subst. apply find_some in E1. destruct E1 as [Hin Hx].
    unfold mcal_exact in Hx. apply andb_true_iff in Hx. rewrite <- in_rev in Hin. tauto.
  - intro E2. apply find_some in E2. destruct E2 as [Hin Hx].
    unfold mcal_wild in Hx. apply andb_true_iff in Hx. rewrite <- in_rev in Hin. tauto.
Qed.

Definition cals_clean (cs : cals) : bool := forallb (fun c => negb (Known_measure_target_uses c)) (mcals cs).

Lemma instantiate_is_spec cs i : cals_clean cs = true -> instantiate cs i = instantiate_spec cs i.
Proof.
  intro Hc. destruct i; cbn; try reflexivity.
  - destruct (gate_match (gcals cs) nm ps qs); [|reflexivity]. rewrite subst_gate_spec. reflexivity.
  - destruct (meas_match (mcals cs) mn q t) as [c|] eqn:E; [|reflexivity].
    apply meas_match_applicable in E. destruct E as [Hin Ha].
    unfold cals_clean in Hc. rewrite forallb_forall in Hc. specialize (Hc c Hin).
    apply negb_true_iff in Hc. unfold mcal_applicable in Ha. apply andb_true_iff in Ha.
    rewrite subst_meas_spec; tauto.
Qed.

Lemma Expands_ext inst1 inst2 (E : forall i, inst1 i = inst2 i) :
  (forall path i r, Expands inst1 path i r -> Expands inst2 path i r) /\
  (forall path l out, ExpandsList inst1 path l out -> ExpandsList inst2 path l out).
Proof.
  apply Expands_mutind; intros.
  - apply Ex_nomatch; auto. rewrite <- E; auto.
  - eapply Ex_match; eauto. rewrite <- E; eauto.
  - constructor.
  - constructor; auto.
  - constructor; auto.
Qed.

(** * Part E: soundness of the C17 instance checkers *)

Lemma chk_fixpoint_sound cs out :
  chk_fixpoint cs out = true -> forall j, In j out -> instantiate cs j = None.
Proof.
  unfold chk_fixpoint. rewrite forallb_forall. intros H j Hj. specialize (H j Hj).
  destruct (instantiate cs j); [discriminate | reflexivity].
Qed.

Lemma chk_closed_sound cs src out :
  chk_closed cs src out = true -> cals_scoped cs = true -> (forall i, In i src -> closed_instr i = true) ->
  forall j, In j out -> closed_instr j = true.
Proof.
  unfold chk_closed. intros H Hs Hc. rewrite Hs in H.
  assert (E : forallb closed_instr src = true) by (apply forallb_forall; auto).
  rewrite E in H. cbn in H. rewrite forallb_forall in H. exact H.
Qed.

Lemma chk_targets_sound cs p out :
  chk_targets cs p out = true -> formals_private cs p = true ->
  forall j, In j out -> forall r, In r (instr_regions j) -> ~ In r (formals cs).
Proof.
  unfold chk_targets. intros H Hp. rewrite Hp in H. rewrite forallb_forall in H.
  intros j Hj r Hr Hf. specialize (H j Hj). unfold mentions_none in H. apply negb_true_iff in H.
  assert (existsb (fun r => memN r (formals cs)) (instr_regions j) = true); [|congruence].
  apply existsb_exists. exists r. split; auto. unfold memN. apply existsb_exists. exists r.
  split; auto. apply N.eqb_refl.
Qed.

Lemma chk_hoisted_sound out : chk_hoisted out = true -> forall j, In j out -> hoisted j = false.
Proof.
  unfold chk_hoisted. rewrite forallb_forall. intros H j Hj. apply negb_true_iff. auto.
Qed.

Inductive Subseq : list instr -> list instr -> Prop :=
| SS_nil l : Subseq [] l
| SS_take x a b : Subseq a b -> Subseq (x :: a) (x :: b)
| SS_skip a y b : Subseq a b -> Subseq a (y :: b).

Lemma is_subseq_sound : forall b a, is_subseq a b = true -> Subseq a b.
Proof.
  induction b as [|y b IH]; intros [|x a] H.
  - constructor.
  - discriminate.
  - constructor.
  - cbn in H. destruct (instr_eqb x y) eqn:E.
    + apply instr_eqb_spec in E. subst. apply SS_take. auto.
    + apply SS_skip. auto.
Qed.

Lemma chk_unmatched_sound cs src out :
  chk_unmatched cs src out = true ->
  Subseq (filter (fun i => negb (is_some (instantiate cs i))) src) out.
Proof. apply is_subseq_sound. Qed.

(** ** order: unmatched source instructions survive, in order *)

Lemma Subseq_refl l : Subseq l l.
Proof. induction l; constructor; auto. Qed.

Lemma Subseq_app_skip o : forall a b, Subseq a b -> Subseq a (o ++ b).
Proof. induction o; cbn; intros; [auto | apply SS_skip; auto]. Qed.

Lemma Subseq_filter f a b : Subseq a b -> Subseq (filter f a) (filter f b).
Proof.
  induction 1; cbn.
  - constructor.
  - destruct (f x); [apply SS_take|]; auto.
  - destruct (f y); [apply SS_skip|]; auto.
Qed.

Lemma ExpandsTop_unmatched_subseq inst src outs :
  Forall2 (ExpandsTop inst) src outs ->
  Subseq (filter (fun i => negb (is_some (inst i))) src) (concat outs).
Proof.
  induction 1 as [|i o src outs Hi _ IH]; cbn; [constructor|].
  destruct Hi as [Hi|o Hi]; inversion Hi; subst.
  - match goal with H : inst i = None |- _ => rewrite H end. cbn. apply SS_take. exact IH.
  - match goal with H : inst i = Some _ |- _ => rewrite H end. cbn. apply Subseq_app_skip. exact IH.
Qed.

Lemma expand_program_spec inst fuel p p' :
  expand_program inst fuel p = Ok p' ->
  exists outs,
    Forall2 (ExpandsTop inst) (body p) outs /\
    body p' = filter not_hoisted (concat outs) /\
    regions p' = fold_left (fun rs r => region_insert r rs) (flat_map declared_region (concat outs)) (regions p).
Proof.
  unfold expand_program. intro H. apply expand_program_from_sound in H. destruct H as [outs [HF ->]].
  exists outs. split; [exact HF|]. rewrite add_instructions_body, add_instructions_regions. cbn. auto.
Qed.

Lemma expand_program_complete inst p outs :
  Forall2 (ExpandsTop inst) (body p) outs ->
  exists n, forall fuel, n <= fuel ->
      expand_program inst fuel p = Ok (add_instructions (clone_without_body p) (concat outs)).
Proof.
  intro H. apply expand_program_from_complete in H. destruct H as [n H]. exists n. intros fuel Hf.
  apply H; auto.
Qed.

Lemma expand_program_unmatched_in_order inst fuel p p' :
  expand_program inst fuel p = Ok p' ->
  Subseq (filter not_hoisted (filter (fun i => negb (is_some (inst i))) (body p))) (body p').
Proof.
  intro H. apply expand_program_spec in H. destruct H as [outs [HF [Hb _]]]. rewrite Hb.
  apply Subseq_filter, ExpandsTop_unmatched_subseq; auto.
Qed.

Lemma expand_program_hoisted inst fuel p p' :
  expand_program inst fuel p = Ok p' -> forall j, In j (body p') -> hoisted j = false.
Proof.
  intro H. apply expand_program_spec in H. destruct H as [outs [_ [Hb _]]]. rewrite Hb.
  intros j Hj. apply filter_In in Hj. destruct Hj as [_ Hj]. unfold not_hoisted in Hj.
  apply negb_true_iff in Hj. exact Hj.
Qed.

Lemma region_insert_In r : forall l, exists x, In (fst r, x) (region_insert r l).
Proof.
  induction l as [|y t [x IH]]; cbn.
  - exists (snd r). left. destruct r; reflexivity.
  - destruct (N.eqb (fst y) (fst r)).
    + exists (snd r). left. destruct r; reflexivity.
    + exists x. right. exact IH.
Qed.

Lemma region_insert_keeps r n : forall l, (exists x, In (n, x) l) -> exists x, In (n, x) (region_insert r l).
Proof.
  induction l as [|y t IH]; intros [x Hx]; [destruct Hx|]. cbn.
  destruct (N.eqb (fst y) (fst r)) eqn:E.
  - destruct Hx as [->|Hx].
    + cbn in E. apply N.eqb_eq in E. subst. exists (snd r). left. destruct r; reflexivity.
    + exists x. right. exact Hx.
  - destruct Hx as [->|Hx].
    + exists x. left. reflexivity.
    + destruct IH as [x' Hx']; [eauto|]. exists x'. right. exact Hx'.
Qed.

Lemma fold_insert_keeps n : forall ds l, (exists x, In (n, x) l) ->
  exists x, In (n, x) (fold_left (fun rs r => region_insert r rs) ds l).
Proof.
  induction ds as [|d t IH]; cbn; intros l H; [exact H|]. apply IH. apply region_insert_keeps. exact H.
Qed.

Lemma fold_insert_declares n : forall ds l, (exists x, In (n, x) ds) ->
  exists x, In (n, x) (fold_left (fun rs r => region_insert r rs) ds l).
Proof.
  induction ds as [|d t IH]; intros l [x Hx]; [destruct Hx|]. cbn. destruct Hx as [->|Hx].
  - apply fold_insert_keeps. apply (region_insert_In (n, x)).
  - apply IH. eauto.
Qed.

(** every declaration emitted by an expansion ends up among the program's memory regions *)
Lemma expand_program_declared inst fuel p p' :
  expand_program inst fuel p = Ok p' ->
  exists outs, Forall2 (ExpandsTop inst) (body p) outs /\
    forall nm ty ln, In (IDeclare nm ty ln) (concat outs) -> exists x, In (nm, x) (regions p').
Proof.
  intro H. apply expand_program_spec in H. destruct H as [outs [HF [_ Hr]]]. exists outs. split; [exact HF|].
  intros nm ty ln Hin. rewrite Hr. apply fold_insert_declares. exists (ty, ln).
  apply in_flat_map. exists (IDeclare nm ty ln). split; [exact Hin | left; reflexivity].
Qed.

(** * Part F: the source map (C19) *)

Section WFSec.
  Variable inst : instr -> option (list instr * calsrc).

  (** Well-formed walk over the entries of one level.  [WFentry srcl outl ns c e ns' c']: with [ns]
      the least admissible source index and [c] the next uncovered target index, entry [e] is
      correct and moves the state to [(ns', c')].  [srcl]: the source instructions of this level
      (program body, or the substituted body of the calibration one level up); [outl]: the output
      instructions of this level (the parent's range). *)
  Inductive WFentry : list instr -> list instr -> N -> N -> entry -> N -> N -> Prop :=
  | WFE_unmod srcl outl ns c s x :
      (ns <= s)%N -> nthN srcl s = Some x -> nthN outl c = Some x ->
      WFentry srcl outl ns c (EUnmod s c) (N.succ s) (N.succ c)
  | WFE_rewr srcl outl ns c s src hi sub x body nsb :
      (ns <= s)%N -> (c <= hi)%N -> (hi <= len outl)%N ->
      nthN srcl s = Some x -> inst x = Some (body, src) ->
      WFwalk body (slice outl c hi) 0 0 sub nsb (hi - c) ->
      WFentry srcl outl ns c (ERewr s src c hi sub) (N.succ s) hi
  with WFwalk : list instr -> list instr -> N -> N -> list entry -> N -> N -> Prop :=
  | WFW_nil srcl outl ns c : WFwalk srcl outl ns c [] ns c
  | WFW_cons srcl outl ns c e r ns1 c1 ns' c' :
      WFentry srcl outl ns c e ns1 c1 -> WFwalk srcl outl ns1 c1 r ns' c' ->
      WFwalk srcl outl ns c (e :: r) ns' c'.

  Scheme WFentry_mind := Induction for WFentry Sort Prop
    with WFwalk_mind := Induction for WFwalk Sort Prop.

  (** the whole map: the walk starts at (0,0) and covers the output exactly *)
  Definition WFmap (src out : list instr) (m : list entry) : Prop :=
    exists ns, WFwalk src out 0 0 m ns (len out).

  (** ** basic facts *)

  Lemma len_app {A} (a b : list A) : len (a ++ b) = (len a + len b)%N.
  Proof. unfold len. rewrite app_length. lia. Qed.

  Lemma nthN_app_l {A} (l a : list A) n x : nthN l n = Some x -> nthN (l ++ a) n = Some x.
  Proof.
    unfold nthN. intro H. rewrite nth_error_app1; auto. apply nth_error_Some. congruence.
  Qed.

  Lemma nthN_app_len {A} (l : list A) x r : nthN (l ++ x :: r) (len l) = Some x.
  Proof.
    unfold nthN, len. rewrite Nat2N.id, nth_error_app2 by lia. rewrite Nat.sub_diag. reflexivity.
  Qed.

  Lemma slice_app_l {A} (l a : list A) lo hi : (lo <= hi)%N -> (hi <= len l)%N -> slice (l ++ a) lo hi = slice l lo hi.
  Proof.
    unfold slice, len. intros H1 H2. rewrite skipn_app, firstn_app.
    replace (N.to_nat (hi - lo) - length (skipn (N.to_nat lo) l)) with 0.
    - cbn. rewrite app_nil_r. reflexivity.
    - rewrite skipn_length. lia.
  Qed.

  Lemma slice_app_exact {A} (l o r : list A) : slice (l ++ o ++ r) (len l) (len l + len o) = o.
  Proof.
    unfold slice, len. replace (N.to_nat (N.of_nat (length l) + N.of_nat (length o) - N.of_nat (length l))) with (length o) by lia.
    rewrite Nat2N.id, skipn_app, Nat.sub_diag, skipn_all. cbn.
    rewrite firstn_app, Nat.sub_diag, firstn_all. cbn. apply app_nil_r.
  Qed.

  Lemma WFwalk_app srcl outl ns c es ns1 c1 :
    WFwalk srcl outl ns c es ns1 c1 -> forall es' ns' c',
      WFwalk srcl outl ns1 c1 es' ns' c' -> WFwalk srcl outl ns c (es ++ es') ns' c'.
  Proof.
    induction 1 as [|srcl outl ns c e r ns1 c1 ns2 c2 He Hr IH]; intros es' ns' c' H'; cbn; [exact H'|].
    eapply WFW_cons; eauto.
  Qed.

  Lemma WFentry_extend srcl outl ns c e ns' c' a b :
    WFentry srcl outl ns c e ns' c' -> WFentry (srcl ++ a) (outl ++ b) ns c e ns' c'.
  Proof.
    intro H. destruct H.
    - apply WFE_unmod with (x := x); auto using nthN_app_l.
    - eapply WFE_rewr with (x := x) (body := body) (nsb := nsb); auto using nthN_app_l.
      + rewrite len_app. lia.
      + rewrite slice_app_l; auto.
  Qed.

  Lemma WFwalk_extend srcl outl ns c es ns' c' a b :
    WFwalk srcl outl ns c es ns' c' -> WFwalk (srcl ++ a) (outl ++ b) ns c es ns' c'.
  Proof.
    induction 1 as [|srcl outl ns c e r ns1 c1 ns2 c2 He Hr IH]; [constructor|].
    eapply WFW_cons; eauto using WFentry_extend.
  Qed.

  Lemma WFwalk_weaken_ns srcl outl ns c es ns' c' k :
    WFwalk srcl outl ns c es ns' c' -> (k <= ns)%N -> exists ns'', WFwalk srcl outl k c es ns'' c' /\ (ns'' <= ns')%N.
  Proof.
    intros H Hk. destruct H as [|srcl outl ns c e r ns1 c1 ns2 c2 He Hr].
    - exists k. split; [constructor | exact Hk].
    - exists ns2. split; [|lia]. eapply WFW_cons; [|exact Hr].
      destruct He; [eapply WFE_unmod | eapply WFE_rewr]; eauto; lia.
  Qed.

  (** ** the detail computed by [expand_d] is a well-formed walk of the substituted body *)

  Definition detail_ok (i : instr) (d : detail) : Prop :=
    let '(o, (src, rg, sub)) := d in
    exists body nsb, inst i = Some (body, src) /\ rg = (0%N, len o) /\ WFwalk body o 0 0 sub nsb (len o).

  Lemma expand_d_list_wf (rec : instr -> res (option detail))
        (Hrec : forall j d, rec j = Ok (Some d) -> detail_ok j d) :
    forall l pre k acc es ns acc' es',
      k = len pre -> (ns <= k)%N -> WFwalk pre acc 0 0 es ns (len acc) ->
      expand_d_list rec l k acc es = Ok (acc', es') ->
      exists ns', WFwalk (pre ++ l) acc' 0 0 es' ns' (len acc').
  Proof.
    induction l as [|j t IH]; intros pre k acc es ns acc' es' Hk Hns Hw H; cbn in H.
    - inversion H; subst. rewrite app_nil_r. eauto.
    - destruct (rec j) as [[[o [[src' rg] sub]]|]| |] eqn:Hj; try discriminate.
      + (* rewritten *)
        apply Hrec in Hj. destruct Hj as [body [nsb [Hi [_ Hsub]]]].
        replace (pre ++ j :: t) with ((pre ++ [j]) ++ t) by (rewrite <- app_assoc; reflexivity).
        eapply IH in H; [exact H | subst k; rewrite len_app; cbn; lia | apply N.le_refl |].
        eapply WFwalk_app.
        * apply WFwalk_extend with (a := [j]) (b := o). exact Hw.
        * rewrite len_app. eapply WFW_cons; [|constructor].
          eapply WFE_rewr with (x := j) (body := body) (nsb := nsb); try lia.
          -- rewrite len_app. lia.
          -- subst k. apply nthN_app_len.
          -- exact Hi.
          -- replace (acc ++ o) with (acc ++ o ++ []) by (rewrite app_nil_r; reflexivity).
             rewrite slice_app_exact. replace (len acc + len o - len acc)%N with (len o) by lia. exact Hsub.
      + (* kept *)
        replace (pre ++ j :: t) with ((pre ++ [j]) ++ t) by (rewrite <- app_assoc; reflexivity).
        eapply IH in H; [exact H | subst k; rewrite len_app; cbn; lia | apply N.le_refl |].
        eapply WFwalk_app.
        * apply WFwalk_extend with (a := [j]) (b := [j]). exact Hw.
        * rewrite len_app. replace (len acc + len [j])%N with (N.succ (len acc)) by (cbn; lia).
          eapply WFW_cons; [|constructor].
          apply WFE_unmod with (x := j); try lia.
          -- subst k. apply nthN_app_len.
          -- apply nthN_app_len.
  Unshelve. all: exact 0%N.
  Qed.

  Lemma expand_d_wf : forall fuel path i d, expand_d inst fuel path i = Ok (Some d) -> detail_ok i d.
  Proof.
    induction fuel as [|f IH]; intros path i d H; cbn in H; [discriminate|].
    destruct (mem_instr i path); [discriminate|].
    destruct (inst i) as [[body src]|] eqn:Hi; [|discriminate].
    destruct (expand_d_list (expand_d inst f (i :: path)) body 0 [] []) as [[acc es]| |] eqn:Hl; cbn in H; try discriminate.
    inversion H; subst. cbn.
    eapply (expand_d_list_wf _ (IH (i :: path)) body [] 0%N [] [] 0%N) in Hl; [|reflexivity|apply N.le_refl|constructor].
    destruct Hl as [ns' Hw]. exists body, ns'. auto.
  Qed.

  (** ** program level, for programs whose expansions emit no hoisted instruction *)

  (** the named, decidable class of the open finding [hoisted-declaration-in-expansion], negated:
      no source instruction is, and no top-level expansion emits, a DECLARE *)
  Definition no_hoist_b (fuel : nat) (src : list instr) : bool :=
    forallb (fun i => not_hoisted i &&
                      match expand_d inst fuel [] i with
                      | Ok (Some (o, _)) => forallb not_hoisted o
                      | _ => true
                      end) src.

  Lemma append_loop_no_hoist base : forall l p lo hi sub,
      forallb not_hoisted l = true ->
      append_loop base l p lo hi sub = (add_instructions p l, (lo, hi, sub)).
  Proof.
    induction l as [|i t IH]; intros p lo hi sub H; cbn [append_loop]; [reflexivity|].
    cbn in H. apply andb_true_iff in H. destruct H as [Hi Ht].
    assert (E : N.eqb (len (body p)) (len (body (add_instruction p i))) = false).
    { rewrite add_instruction_body. cbn. rewrite Hi. rewrite len_app. cbn. apply N.eqb_neq. lia. }
    rewrite E. rewrite IH by exact Ht. reflexivity.
  Qed.

  Lemma expand_program_sm_from_wf fuel : forall src pre k p m ns p' m',
      no_hoist_b fuel src = true ->
      k = len pre -> (ns <= k)%N -> WFwalk pre (body p) 0 0 m ns (len (body p)) ->
      expand_program_sm_from inst fuel src k p m = Ok (p', m') ->
      exists ns', WFwalk (pre ++ src) (body p') 0 0 m' ns' (len (body p')).
  Proof.
    induction src as [|i t IH]; intros pre k p m ns p' m' Hn Hk Hns Hw H; cbn in H.
    - inversion H; subst. rewrite app_nil_r. eauto.
    - cbn in Hn. rewrite !andb_true_iff in Hn. destruct Hn as [[Hi Ho] Ht].
      replace (pre ++ i :: t) with ((pre ++ [i]) ++ t) by (rewrite <- app_assoc; reflexivity).
      destruct (expand_d inst fuel [] i) as [[[o [[src' [lo hi]] sub]]|]| |] eqn:Hd; try discriminate.
      + (* expanded *)
        pose proof (expand_d_wf _ _ _ _ Hd) as [bdy [nsb [Hinst [_ Hsub]]]].
        unfold append_expansion in H. rewrite append_loop_no_hoist in H by exact Ho.
        rewrite add_instructions_body in H.
        assert (Ef : filter not_hoisted o = o).
        { clear - Ho. induction o as [|x r IHo]; cbn in *; [reflexivity|].
          apply andb_true_iff in Ho. destruct Ho as [Hx Hr]. rewrite Hx, IHo; auto. }
        rewrite Ef in H.
        assert (Eb : body (add_instructions p o) = body p ++ o) by (rewrite add_instructions_body, Ef; reflexivity).
        destruct (N.ltb (len (body p)) (len (body p ++ o))) eqn:Hlt.
        * eapply IH in H; [exact H | exact Ht | subst k; rewrite len_app; cbn; lia | apply N.le_refl |].
          rewrite Eb. eapply WFwalk_app.
          -- apply WFwalk_extend with (a := [i]) (b := o). exact Hw.
          -- eapply WFW_cons; [|constructor].
             eapply WFE_rewr with (x := i) (body := bdy) (nsb := nsb); try lia.
             ++ rewrite len_app. lia.
             ++ subst k. apply nthN_app_len.
             ++ exact Hinst.
             ++ replace (body p ++ o) with (body p ++ o ++ []) at 1 by (rewrite app_nil_r; reflexivity).
                rewrite len_app. rewrite slice_app_exact.
                replace (len (body p) + len o - len (body p))%N with (len o) by lia. exact Hsub.
        * (* the expansion is empty: no entry *)
          assert (o = []).
          { apply N.ltb_ge in Hlt. rewrite len_app in Hlt. destruct o; [reflexivity|]. cbn in Hlt. lia. }
          subst o. pose proof (WFwalk_extend _ _ _ _ _ _ _ [i] [] Hw) as Hw'. rewrite app_nil_r in Hw'.
          eapply IH in H; [exact H | exact Ht | subst k; rewrite len_app; cbn; lia | | rewrite Eb, app_nil_r; exact Hw']. lia.
      + (* kept *)
        eapply IH in H; [exact H | exact Ht | subst k; rewrite len_app; cbn; lia | apply N.le_refl |].
        rewrite add_instruction_body. cbn. rewrite Hi.
        rewrite len_app. replace (N.pred (len (body p) + len [i])) with (len (body p)) by (cbn; lia).
        eapply WFwalk_app.
        * apply WFwalk_extend with (a := [i]) (b := [i]). exact Hw.
        * replace (len (body p) + len [i])%N with (N.succ (len (body p))) by (cbn; lia).
          eapply WFW_cons; [|constructor].
          apply WFE_unmod with (x := i); try lia.
          -- subst k. apply nthN_app_len.
          -- apply nthN_app_len.
  Unshelve. all: exact 0%N.
  Qed.

  Theorem expand_program_sm_wf fuel p p' m :
    expand_program_sm inst fuel p = Ok (p', m) -> no_hoist_b fuel (body p) = true ->
    WFmap (body p) (body p') m.
  Proof.
    unfold expand_program_sm. intros H Hn.
    eapply (expand_program_sm_from_wf fuel (body p) [] 0%N _ _ 0%N) in H.
    - exact H.
    - exact Hn.
    - reflexivity.
    - apply N.le_refl.
    - cbn. constructor.
  Qed.
End WFSec.

(** ** soundness of the instance checker [chk_wfmap] *)

Section ChkWF.
  Variable inst : instr -> option (list instr * calsrc).

  Fixpoint entry_ind' (P : entry -> Prop)
           (HU : forall s t, P (EUnmod s t))
           (HR : forall s src lo hi sub, Forall P sub -> P (ERewr s src lo hi sub))
           (e : entry) : P e :=
    match e with
    | EUnmod s t => HU s t
    | ERewr s src lo hi sub =>
        HR s src lo hi sub
           ((fix go (l : list entry) : Forall P l :=
               match l with
               | [] => Forall_nil P
               | x :: t => Forall_cons x (entry_ind' P HU HR x) (go t)
               end) sub)
    end.

  Definition entry_sound (e : entry) : Prop :=
    forall srcl outl ns c ns' c',
      chk_entry inst srcl outl (ns, c) e = Some (ns', c') -> WFentry inst srcl outl ns c e ns' c'.

  Lemma chk_walk_sound es (IH : Forall entry_sound es) :
    forall srcl outl ns c ns' c',
      chk_walk inst srcl outl es (ns, c) = Some (ns', c') -> WFwalk inst srcl outl ns c es ns' c'.
  Proof.
    induction IH as [|e r He _ IHr]; intros srcl outl ns c ns' c' H; cbn in H.
    - inversion H; subst. constructor.
    - destruct (chk_entry inst srcl outl (ns, c) e) as [[ns1 c1]|] eqn:E; [|discriminate].
      eapply WFW_cons; [apply He; exact E | apply IHr; exact H].
  Qed.

  Lemma inner_walk_eq body sl : forall sub st,
      (fix walk (l : list entry) (st' : N * N) : option (N * N) :=
         match l with
         | [] => Some st'
         | e' :: r =>
             match chk_entry inst body sl st' e' with
             | Some st'' => walk r st''
             | None => None
             end
         end) sub st = chk_walk inst body sl sub st.
  Proof.
    induction sub as [|e r IH]; intro st; [reflexivity|]. cbn [chk_walk].
    destruct (chk_entry inst body sl st e); [apply IH | reflexivity].
  Qed.

  Lemma chk_entry_sound : forall e, entry_sound e.
  Proof.
    apply entry_ind'; unfold entry_sound.
    - intros s t srcl outl ns c ns' c' H. cbn [chk_entry] in H.
      destruct (N.leb ns s && N.eqb t c) eqn:Hc; [|discriminate].
      apply andb_true_iff in Hc. destruct Hc as [Hns Ht]. apply N.leb_le in Hns. apply N.eqb_eq in Ht. subst t.
      destruct (nthN srcl s) as [x|] eqn:Hx; [|discriminate].
      destruct (nthN outl c) as [y|] eqn:Hy; [|discriminate].
      destruct (instr_eqb x y) eqn:Exy; [|discriminate].
      apply instr_eqb_spec in Exy. subst y. inversion H; subst. eapply WFE_unmod; eauto.
    - intros s src lo hi sub IH srcl outl ns c ns' c' H. cbn [chk_entry] in H.
      destruct (N.leb ns s && N.eqb lo c && N.leb lo hi && N.leb hi (len outl)) eqn:Hc; [|discriminate].
      rewrite !andb_true_iff in Hc. destruct Hc as [[[Hns Hlo] Hlh] Hhi].
      apply N.leb_le in Hns, Hlh, Hhi. apply N.eqb_eq in Hlo. subst lo.
      destruct (nthN srcl s) as [x|] eqn:Hx; [|discriminate].
      destruct (inst x) as [[body src']|] eqn:Hi; [|discriminate].
      destruct (calsrc_eqb src src') eqn:Es; [|discriminate].
      apply calsrc_eqb_spec in Es. subst src'.
      rewrite inner_walk_eq in H.
      destruct (chk_walk inst body (slice outl c hi) sub (0%N, 0%N)) as [[nsb curb]|] eqn:Hw; [|discriminate].
      destruct (N.eqb curb (hi - c)) eqn:Ec; [|discriminate].
      apply N.eqb_eq in Ec. subst curb. inversion H; subst.
      eapply WFE_rewr; eauto. eapply chk_walk_sound; eauto.
  Qed.

  Theorem chk_wfmap_sound src out m : chk_wfmap inst src out m = true -> WFmap inst src out m.
  Proof.
    unfold chk_wfmap, WFmap. destruct (chk_walk inst src out m (0%N, 0%N)) as [[ns cur]|] eqn:Hw; [|discriminate].
    intro H. apply N.eqb_eq in H. subst cur. exists ns.
    eapply chk_walk_sound; eauto. apply Forall_forall. intros e _. apply chk_entry_sound.
  Qed.

  (** ** consequences of well-formedness for the queries *)

  Lemma WFentry_shape srcl outl ns c e ns' c' :
    WFentry inst srcl outl ns c e ns' c' ->
    (c <= c')%N /\ (ns <= entry_source e)%N /\ ns' = N.succ (entry_source e) /\
    (forall t, entry_contains e t = true <-> (c <= t < c')%N).
  Proof.
    intro H. destruct H; cbn.
    - repeat split; try lia; rewrite N.eqb_eq in *; lia.
    - repeat split; try lia; rewrite andb_true_iff, N.leb_le, N.ltb_lt in *; lia.
  Qed.

  Lemma WFwalk_queries srcl outl ns c es ns' c' :
    WFwalk inst srcl outl ns c es ns' c' ->
    (c <= c')%N /\ (ns <= ns')%N /\
    (forall t, (c <= t < c')%N -> exists s, list_sources es t = [s]) /\
    (forall t, (t < c \/ c' <= t)%N -> list_sources es t = []) /\
    (forall s, length (list_targets es s) <= 1) /\
    (forall s, (s < ns \/ ns' <= s)%N -> list_targets es s = []) /\
    StronglySorted N.lt (map entry_source es) /\
    Forall (fun e => (ns <= entry_source e < ns')%N) es.
  Proof.
    induction 1 as [|srcl outl ns c e r ns1 c1 ns2 c2 He Hr IH].
    - cbn. repeat split; try (intros; lia); auto; constructor.
    - destruct IH as [Hc [Hn [Hin [Hout [Hlen [Hnone [Hsort Hall]]]]]]].
      apply WFentry_shape in He. destruct He as [Hc1 [Hs [Hns1 Hcont]]]. subst ns1.
      unfold list_sources, list_targets in *. cbn [filter map].
      repeat split; try lia.
      + intros t Ht. destruct (entry_contains e t) eqn:Ec.
        * apply Hcont in Ec. cbn [map]. rewrite (Hout t) by lia. eauto.
        * assert (~ (c <= t < c1)%N) by (rewrite <- Hcont; congruence). apply Hin. lia.
      + intros t Ht. destruct (entry_contains e t) eqn:Ec.
        * apply Hcont in Ec. lia.
        * apply Hout. lia.
      + intros s. destruct (N.eqb (entry_source e) s) eqn:Es.
        * apply N.eqb_eq in Es. cbn [length]. rewrite (Hnone s) by lia. cbn. lia.
        * apply Hlen.
      + intros s Hs'. destruct (N.eqb (entry_source e) s) eqn:Es.
        * apply N.eqb_eq in Es. lia.
        * apply Hnone. lia.
      + constructor; [exact Hsort|]. rewrite Forall_map. eapply Forall_impl; [|exact Hall]. cbn. intros; lia.
      + constructor; [lia|]. eapply Forall_impl; [|exact Hall]. cbn. intros; lia.
  Qed.

  Lemma sources_targets_inverse (m : list entry) s t :
    In s (list_sources m t) <-> exists e, In e (list_targets m s) /\ entry_contains e t = true.
  Proof.
    unfold list_sources, list_targets. rewrite in_map_iff. split.
    - intros [e [Hs He]]. apply filter_In in He. destruct He as [Hin Hc]. exists e. split; [|exact Hc].
      apply filter_In. split; [exact Hin | apply N.eqb_eq; exact Hs].
    - intros [e [He Hc]]. apply filter_In in He. destruct He as [Hin Hs]. exists e. split.
      + apply N.eqb_eq; exact Hs.
      + apply filter_In. split; auto.
  Qed.
End ChkWF.

(** ** the full statement fails when an expansion emits a DECLARE:
    [DEFCAL I 0: DECLARE mem BIT[1]; NOP] applied to [I 0] (names: I = 1, mem = 2).  After the
    DECLARE is hoisted the nested entries still read Unmodified(0), Unmodified(1) although the
    expansion's range is 0..1 and target 0 now holds the NOP. *)
Definition kf19_cals : cals :=
  {| gcals := [ {| gc_name := 1; gc_params := []; gc_qubits := [QF 0];
                   gc_body := [IDeclare 2 0 1; IOther 0] |} ];
     mcals := [] |}%N.
Definition kf19_prog : program := {| regions := []; body := [IGate 1 [] [QF 0]] |}%N.

Lemma expand_program_sm_wf_refuted :
  exists cs fuel p p' m,
    expand_program_sm (instantiate cs) fuel p = Ok (p', m) /\
    no_hoist_b (instantiate cs) fuel (body p) = false /\
    ~ WFmap (instantiate cs) (body p) (body p') m.
Proof.
  exists kf19_cals, 5, kf19_prog,
    {| regions := [(2, (0, 1))]; body := [IOther 0] |}%N,
    [ERewr 0 (CSGate 1 [] [QF 0]) 0 1 [EUnmod 0 0; EUnmod 1 1]]%N.
  split; [vm_compute; reflexivity|]. split; [vm_compute; reflexivity|].
  intros [ns H]. cbn [body kf19_prog] in H.
  inversion H as [|? ? ? ? ? ? ? ? ? ? He Hr]; subst. clear H Hr.
  inversion He as [|? ? ? ? ? ? ? ? ? ? ? Hns Hc Hhi Hx Hi Hsub]; subst. clear He.
  vm_compute in Hx. inversion Hx; subst. clear Hx.
  vm_compute in Hi. inversion Hi; subst. clear Hi.
  inversion Hsub as [|? ? ? ? ? ? ? ? ? ? He' Hr']; subst. clear Hsub Hr'.
  inversion He' as [? ? ? ? ? ? Hns' Hx' Hy'|]; subst.
  vm_compute in Hx'. vm_compute in Hy'. congruence.
Qed.

(** * Part G: substitution completeness — no calibration variable survives *)

Lemma assoc_last_acc {A} v (l : list (N * A)) : forall acc x,
  fold_left (fun acc kx => if N.eqb (fst kx) v then Some (snd kx) else acc) l acc = Some x ->
  acc = Some x \/ In (v, x) l.
Proof.
  induction l as [|[k y] t IH]; cbn; intros acc x H; [auto|].
  apply IH in H. destruct H as [H|H]; [|auto].
  destruct (N.eqb k v) eqn:E; [|auto]. apply N.eqb_eq in E. inversion H; subst. auto.
Qed.

Lemma assoc_last_some_stays {A} v (l : list (N * A)) : forall a,
  exists x, fold_left (fun acc kx => if N.eqb (fst kx) v then Some (snd kx) else acc) l (Some a) = Some x.
Proof.
  induction l as [|[k y] t IH]; cbn; intro a; [eauto|]. destruct (N.eqb k v); apply IH.
Qed.

Lemma assoc_last_In {A} v (l : list (N * A)) x : assoc_last v l = Some x -> In (v, x) l.
Proof. unfold assoc_last. intro H. apply assoc_last_acc in H. destruct H; [discriminate | auto]. Qed.

Lemma assoc_last_exists {A} v (l : list (N * A)) : forall acc y,
  In (v, y) l -> exists x, fold_left (fun acc kx => if N.eqb (fst kx) v then Some (snd kx) else acc) l acc = Some x.
Proof.
  induction l as [|[k z] t IH]; intros acc y H; [destruct H|]. cbn. destruct H as [H|H].
  - inversion H; subst. rewrite N.eqb_refl. apply assoc_last_some_stays.
  - eapply IH; eauto.
Qed.

Lemma forallb2_length {A B} (f : A -> B -> bool) : forall l1 l2, forallb2 f l1 l2 = true -> length l1 = length l2.
Proof.
  induction l1 as [|x t IH]; intros [|y u] H; cbn in *; try discriminate; auto.
  apply andb_true_iff in H. destruct H. f_equal. auto.
Qed.

Lemma qubit_bindings_In : forall cqs gqs v g, In (v, g) (qubit_bindings cqs gqs) -> In g gqs.
Proof.
  induction cqs as [|[n|w] t IH]; intros [|y u] v g H; cbn in H; try contradiction.
  - right. eauto.
  - destruct H as [H|H]; [inversion H; subst; left; reflexivity | right; eauto].
Qed.

Lemma qubit_bindings_bound : forall cqs gqs v,
  length cqs = length gqs -> In v (qubit_vars cqs) -> exists g, In (v, g) (qubit_bindings cqs gqs).
Proof.
  induction cqs as [|[n|w] t IH]; intros [|y u] v Hl H; cbn in *; try discriminate; try contradiction.
  - apply IH; auto.
  - destruct H as [->|H]; [eauto|]. destruct (IH u v) as [g Hg]; auto. eauto.
Qed.

Lemma param_bindings_In : forall cps gps v g, In (v, g) (param_bindings cps gps) -> In g gps.
Proof.
  induction cps as [|c t IH]; intros gps v g H.
  - destruct gps; cbn in H; contradiction.
  - destruct gps as [|y u]; [destruct c; cbn in H; contradiction|].
    destruct c; cbn in H; try (right; eapply IH; exact H).
    destruct H as [H|H]; [inversion H; subst; left; reflexivity | right; eapply IH; exact H].
Qed.

Lemma expr_closed_no_vars e : expr_has_var e = false -> expr_vars e = [].
Proof.
  induction e; cbn; intro H; try reflexivity; try discriminate; auto.
  apply orb_false_iff in H. destruct H. rewrite IHe1, IHe2; auto.
Qed.

Lemma param_bindings_bound : forall cps gps v,
  length cps = length gps ->
  forallb (fun e => match e with EVar _ => true | _ => negb (expr_has_var e) end) cps = true ->
  In v (flat_map expr_vars cps) -> exists g, In (v, g) (param_bindings cps gps).
Proof.
  induction cps as [|c t IH]; intros [|y u] v Hl Hs H; cbn in *; try discriminate; try contradiction.
  apply andb_true_iff in Hs. destruct Hs as [Hc Ht]. apply in_app_or in H.
  assert (Hrest : In v (flat_map expr_vars t) -> exists g, In (v, g) (param_bindings (c :: t) (y :: u))).
  { intro Hv. destruct (IH u v) as [g Hg]; auto. exists g. destruct c; cbn; auto. }
  destruct H as [H|H]; [|auto].
  destruct c; cbn in H; try contradiction;
    try (apply negb_true_iff in Hc; apply expr_closed_no_vars in Hc; cbn in Hc; rewrite Hc in H; contradiction).
  destruct H as [->|[]]. cbn. eauto.
Qed.

Lemma esub_closed pm e :
  (forall v, In v (expr_vars e) -> exists x, assoc_last v pm = Some x /\ expr_has_var x = false) ->
  expr_has_var (esub pm e) = false.
Proof.
  induction e; cbn; intro H; try reflexivity.
  - destruct (H v) as [x [Hx Hc]]; [left; reflexivity|]. rewrite Hx. exact Hc.
  - auto.
  - apply orb_false_iff. split; [apply IHe1 | apply IHe2]; intros v Hv; apply H; apply in_or_app; auto.
  - auto.
Qed.

Lemma subst_instr_qubits fq fe i :
  instr_qubits (subst_exprs fe (subst_qubits fq i)) = map fq (instr_qubits i).
Proof.
  destruct i as [nm ps qs|mn q t|[q|]|qs|qs fs d|b f w|b f m w|b f d m|k f e|f g|d s|d s o|nm ty ln|nm args data|k];
    cbn; try reflexivity. rewrite map_app. reflexivity.
Qed.

Lemma subst_instr_exprs fq fe i :
  instr_exprs (subst_exprs fe (subst_qubits fq i)) = map fe (instr_exprs i).
Proof.
  destruct i as [nm ps qs|mn q t|[q|]|qs|qs fs d|b f w|b f m w|b f d m|k f e|f g|d s|d s o|nm ty ln|nm args data|k];
    cbn; try reflexivity; rewrite !map_map; reflexivity.
Qed.

Lemma retarget_qubits f t i : instr_qubits (retarget f t i) = instr_qubits i.
Proof.
  destruct i; cbn; try reflexivity.
  - destruct t, f; try reflexivity. destruct (N.eqb (fst m) n); reflexivity.
  - destruct (N.eqb nm load_memory && option_eqb pdata_eqb data (option_map PName f)); [destruct t|]; reflexivity.
Qed.

Lemma retarget_exprs f t i : instr_exprs (retarget f t i) = instr_exprs i.
Proof.
  destruct i; cbn; try reflexivity.
  - destruct t, f; try reflexivity. destruct (N.eqb (fst m) n); reflexivity.
  - destruct (N.eqb nm load_memory && option_eqb pdata_eqb data (option_map PName f)); [destruct t|]; reflexivity.
Qed.

Lemma existsb_false_forall {A} (f : A -> bool) l : existsb f l = false <-> forall x, In x l -> f x = false.
Proof.
  split.
  - intros H x Hx. destruct (f x) eqn:E; [|reflexivity].
    assert (existsb f l = true) by (apply existsb_exists; eauto). congruence.
  - intro H. destruct (existsb f l) eqn:E; [|reflexivity].
    apply existsb_exists in E. destruct E as [x [Hx Hf]]. rewrite H in Hf; auto.
Qed.

Lemma closed_instr_iff i :
  closed_instr i = true <->
  (forall q, In q (instr_qubits i) -> qubit_is_var q = false) /\
  (forall e, In e (instr_exprs i) -> expr_has_var e = false).
Proof.
  unfold closed_instr. rewrite andb_true_iff, !negb_true_iff, !existsb_false_forall. tauto.
Qed.

Lemma memN_In v l : memN v l = true -> In v l.
Proof.
  unfold memN. intro H. apply existsb_exists in H. destruct H as [x [Hx E]]. apply N.eqb_eq in E. subst. exact Hx.
Qed.

Lemma gate_match_in cs nm ps qs c :
  gate_match cs nm ps qs = Some c -> In c cs /\ gcal_matches c nm ps qs = true.
Proof.
  unfold gate_match.
  assert (G : forall l acc, fold_left (gate_match_step nm ps qs) l acc = Some c ->
              (acc = Some c \/ (In c l /\ gcal_matches c nm ps qs = true))).
  { induction l as [|x t IH]; cbn; intros acc H; [auto|].
    apply IH in H. destruct H as [H|[H1 H2]]; [|auto].
    unfold gate_match_step in H. destruct (gcal_matches x nm ps qs) eqn:E; [|auto].
    destruct acc as [p|].
    - destruct (Nat.leb (fixed_count p) (fixed_count x)); inversion H; subst; auto.
    - inversion H; subst; auto. }
  intro H. apply G in H. destruct H as [H|H]; [discriminate | exact H].
Qed.

Lemma subst_gate_closed c nm ps qs :
  gcal_scoped c = true -> gcal_matches c nm ps qs = true -> closed_instr (IGate nm ps qs) = true ->
  forall j, In j (subst_gate c ps qs) -> closed_instr j = true.
Proof.
  intros Hs Hm Hc j Hj. unfold subst_gate in Hj. apply in_map_iff in Hj. destruct Hj as [b [<- Hb]].
  apply closed_instr_iff in Hc. destruct Hc as [Hcq Hce]. cbn in Hcq, Hce.
  unfold gcal_scoped in Hs. apply andb_true_iff in Hs. destruct Hs as [Hbody Hparams].
  rewrite forallb_forall in Hbody. specialize (Hbody b Hb). apply andb_true_iff in Hbody.
  destruct Hbody as [Hbq Hbe]. rewrite forallb_forall in Hbq, Hbe.
  unfold gcal_matches in Hm. rewrite !andb_true_iff in Hm. destruct Hm as [[_ Hmq] Hmp].
  apply forallb2_length in Hmq, Hmp.
  apply closed_instr_iff. rewrite subst_instr_qubits, subst_instr_exprs. split.
  - intros q Hq. apply in_map_iff in Hq. destruct Hq as [q0 [<- Hq0]].
    destruct q0 as [n|v]; [reflexivity|]. cbn.
    assert (Hv : In v (qubit_vars (gc_qubits c))).
    { apply memN_In, Hbq. unfold qubit_vars. apply in_flat_map. exists (QV v). split; [exact Hq0 | left; reflexivity]. }
    destruct (qubit_bindings_bound _ qs v Hmq Hv) as [g Hg].
    destruct (assoc_last_exists v _ None g Hg) as [x Hx]. fold (assoc_last v (qubit_bindings (gc_qubits c) qs)) in Hx.
    rewrite Hx. apply Hcq. eapply qubit_bindings_In. apply assoc_last_In. exact Hx.
  - intros e He. apply in_map_iff in He. destruct He as [e0 [<- He0]]. apply esub_closed.
    intros v Hv.
    assert (Hv' : In v (flat_map expr_vars (gc_params c))).
    { apply memN_In, Hbe. apply in_flat_map. exists e0. auto. }
    destruct (param_bindings_bound _ ps v Hmp Hparams Hv') as [g Hg].
    destruct (assoc_last_exists v _ None g Hg) as [x Hx]. fold (assoc_last v (param_bindings (gc_params c) ps)) in Hx.
    exists x. split; [exact Hx|]. apply Hce. eapply param_bindings_In. apply assoc_last_In. exact Hx.
Qed.

Lemma subst_meas_closed c mn q t :
  mcal_scoped c = true -> closed_instr (IMeasure mn q t) = true ->
  forall j, In j (subst_meas c q t) -> closed_instr j = true.
Proof.
  intros Hs Hc j Hj. unfold subst_meas in Hj. apply in_map_iff in Hj. destruct Hj as [b [<- Hb]].
  apply closed_instr_iff in Hc. destruct Hc as [Hcq _]. cbn in Hcq.
  unfold mcal_scoped in Hs. rewrite forallb_forall in Hs. specialize (Hs b Hb).
  apply andb_true_iff in Hs. destruct Hs as [Hbq Hbe]. rewrite forallb_forall in Hbq.
  apply negb_true_iff in Hbe. rewrite existsb_false_forall in Hbe.
  apply closed_instr_iff. rewrite retarget_qubits, retarget_exprs.
  pose proof (subst_instr_qubits (qsub (meas_qubit_bindings c q)) (fun e => e) b) as Eq.
  pose proof (subst_instr_exprs (qsub (meas_qubit_bindings c q)) (fun e => e) b) as Ee.
  assert (Eid : forall x, subst_exprs (fun e => e) x = x).
  { intros [ | | | | | ? ? [? ps] | ? ? ? [? ps] | | | | | | | | ]; cbn; unfold wmap_e; cbn;
      rewrite ?map_id; try reflexivity.
    - f_equal. f_equal. induction ps as [|[? ?] ? IH]; cbn; congruence.
    - f_equal. f_equal. induction ps as [|[? ?] ? IH]; cbn; congruence. }
  rewrite Eid in Eq, Ee. rewrite Eq, Ee, map_id. split; [|exact Hbe].
  intros q' Hq'. apply in_map_iff in Hq'. destruct Hq' as [q0 [<- Hq0]].
  destruct q0 as [n|v]; [reflexivity|]. cbn.
  assert (Hv : In v (qubit_vars [mc_qubit c])).
  { apply memN_In, Hbq. unfold qubit_vars. apply in_flat_map. exists (QV v). split; [exact Hq0 | left; reflexivity]. }
  unfold meas_qubit_bindings. destruct (mc_qubit c) as [n|w]; cbn in Hv; [contradiction|].
  destruct Hv as [->|[]]. unfold assoc_last. cbn. rewrite N.eqb_refl. apply Hcq. left. reflexivity.
Qed.

Lemma instantiate_closed cs i body src :
  cals_scoped cs = true -> closed_instr i = true -> instantiate cs i = Some (body, src) ->
  forall j, In j body -> closed_instr j = true.
Proof.
  intros Hs Hc Hi. unfold cals_scoped in Hs. apply andb_true_iff in Hs. destruct Hs as [Hg Hm].
  rewrite forallb_forall in Hg, Hm. destruct i; cbn in Hi; try discriminate.
  - destruct (gate_match (gcals cs) nm ps qs) as [c|] eqn:E; [|discriminate]. inversion Hi; subst.
    apply gate_match_in in E. destruct E as [Hin Hmatch]. eapply subst_gate_closed; eauto.
  - destruct (meas_match (mcals cs) mn q t) as [c|] eqn:E; [|discriminate]. inversion Hi; subst.
    apply meas_match_applicable in E. destruct E as [Hin _]. eapply subst_meas_closed; eauto.
Qed.

(** If every calibration binds all the variables of its body ([cals_scoped]) then expanding a
    variable-free instruction yields variable-free instructions only. *)
Lemma Expands_closed_mut cs :
  cals_scoped cs = true ->
  (forall path i r, Expands (instantiate cs) path i r ->
     closed_instr i = true -> forall out, r = Some out -> forall j, In j out -> closed_instr j = true) /\
  (forall path l out, ExpandsList (instantiate cs) path l out ->
     (forall j, In j l -> closed_instr j = true) -> forall j, In j out -> closed_instr j = true).
Proof.
  intro Hs. apply Expands_mutind.
  - intros; discriminate.
  - intros path i body src out _ Hi _ IH Hc out' E j Hj. inversion E; subst.
    apply IH; auto. eapply instantiate_closed; eauto.
  - intros path _ j [].
  - intros path j t r _ _ _ IH Hl x [<-|Hx]; [apply Hl; left; reflexivity|].
    apply IH; auto. intros y Hy. apply Hl. right. exact Hy.
  - intros path j o t r _ IH1 _ IH2 Hl x Hx. apply in_app_or in Hx. destruct Hx as [Hx|Hx].
    + eapply IH1; eauto. apply Hl. left. reflexivity.
    + apply IH2; auto. intros y Hy. apply Hl. right. exact Hy.
Qed.

Lemma expand_program_closed cs fuel p p' :
  cals_scoped cs = true -> (forall i, In i (body p) -> closed_instr i = true) ->
  expand_program (instantiate cs) fuel p = Ok p' ->
  forall j, In j (body p') -> closed_instr j = true.
Proof.
  intros Hs Hc H. apply expand_program_spec in H. destruct H as [outs [HF [Hb _]]]. rewrite Hb.
  intros j Hj. apply filter_In in Hj. destruct Hj as [Hj _]. apply in_concat in Hj.
  destruct Hj as [o [Ho Hjo]].
  assert (G : forall src outs, Forall2 (ExpandsTop (instantiate cs)) src outs ->
              (forall i, In i src -> closed_instr i = true) ->
              forall o, In o outs -> forall j, In j o -> closed_instr j = true).
  { clear - Hs. induction 1 as [|i o src outs Hi _ IH]; intros Hc o' Ho' j Hj; [destruct Ho'|].
    destruct Ho' as [<-|Ho'].
    - destruct Hi as [Hi|o Hi].
      + destruct Hj as [<-|[]]. apply Hc. left. reflexivity.
      + eapply (proj1 (Expands_closed_mut cs Hs)); eauto. apply Hc. left. reflexivity.
    - eapply IH; eauto. intros y Hy. apply Hc. right. exact Hy. }
  eapply G; eauto.
Qed.

(** * Part H: no use of a formal target name survives *)

Definition direct_regions (i : instr) : list N :=
  match i with
  | IMeasure _ _ (Some m) => [fst m]
  | ICapture _ _ m _ => [fst m]
  | IRawCapture _ _ _ m => [fst m]
  | IMove d (ORef m) => [fst d; fst m]
  | IMove d (OInt _) => [fst d]
  | ILoad d s o => [fst d; s; fst o]
  | IPragma nm _ (Some (PName n)) => if N.eqb nm load_memory then [n] else []
  | IPragma nm _ (Some (PRef m)) => if N.eqb nm load_memory then [fst m] else []
  | _ => []
  end.

Lemma instr_regions_eq i :
  instr_regions i = map fst (flat_map expr_memrefs (instr_exprs i)) ++ direct_regions i.
Proof. reflexivity. Qed.

Lemma mentions_none_iff fs i :
  mentions_none fs i = true <-> forall r, In r (instr_regions i) -> ~ In r fs.
Proof.
  unfold mentions_none. rewrite negb_true_iff, existsb_false_forall. split.
  - intros H r Hr Hf. specialize (H r Hr). unfold memN in H. rewrite existsb_false_forall in H.
    specialize (H r Hf). rewrite N.eqb_refl in H. discriminate.
  - intros H r Hr. destruct (memN r fs) eqn:E; [|reflexivity]. apply memN_In in E. exfalso. eapply H; eauto.
Qed.

Lemma esub_memrefs pm e m :
  In m (expr_memrefs (esub pm e)) ->
  In m (expr_memrefs e) \/ exists v x, In (v, x) pm /\ In m (expr_memrefs x).
Proof.
  induction e; cbn; intro H; auto.
  - destruct (assoc_last v pm) as [x|] eqn:E; cbn in H; [|contradiction].
    right. exists v, x. split; [apply assoc_last_In; exact E | exact H].
  - apply in_app_or in H. destruct H as [H|H]; [apply IHe1 in H | apply IHe2 in H];
      (destruct H; [left; apply in_or_app; auto | right; auto]).
Qed.

Lemma subst_direct fq fe i : direct_regions (subst_exprs fe (subst_qubits fq i)) = direct_regions i.
Proof.
  destruct i as [nm ps qs|mn q t|[q|]|qs|qs fs d|b f w|b f m w|b f d m|k f e|f g|d s|d s o|nm ty ln|nm args data|k];
    reflexivity.
Qed.

Lemma subst_qubits_exprs fq i : instr_exprs (subst_qubits fq i) = instr_exprs i.
Proof.
  destruct i as [nm ps qs|mn q t|[q|]|qs|qs fs d|b f w|b f m w|b f d m|k f e|f g|d s|d s o|nm ty ln|nm args data|k];
    reflexivity.
Qed.

Lemma subst_qubits_direct fq i : direct_regions (subst_qubits fq i) = direct_regions i.
Proof.
  destruct i as [nm ps qs|mn q t|[q|]|qs|qs fs d|b f w|b f m w|b f d m|k f e|f g|d s|d s o|nm ty ln|nm args data|k];
    reflexivity.
Qed.

Lemma subst_gate_no_formal fs c nm ps qs :
  (forall b, In b (gc_body c) -> mentions_none fs b = true) ->
  mentions_none fs (IGate nm ps qs) = true ->
  forall j, In j (subst_gate c ps qs) -> mentions_none fs j = true.
Proof.
  intros Hb Hg j Hj. unfold subst_gate in Hj. apply in_map_iff in Hj. destruct Hj as [b [<- Hin]].
  specialize (Hb b Hin). rewrite mentions_none_iff in *. intros r Hr.
  rewrite instr_regions_eq, subst_direct, subst_instr_exprs in Hr. apply in_app_or in Hr. destruct Hr as [Hr|Hr].
  - apply in_map_iff in Hr. destruct Hr as [m [<- Hm]]. apply in_flat_map in Hm. destruct Hm as [e [He Hm]].
    apply in_map_iff in He. destruct He as [e0 [<- He0]]. apply esub_memrefs in Hm. destruct Hm as [Hm|[v [x [Hx Hm]]]].
    + apply Hb. rewrite instr_regions_eq. apply in_or_app. left. apply in_map. apply in_flat_map. eauto.
    + apply Hg. rewrite instr_regions_eq. apply in_or_app. left. apply in_map. apply in_flat_map.
      exists x. split; [|exact Hm]. cbn. eapply param_bindings_In. exact Hx.
  - apply Hb. rewrite instr_regions_eq. apply in_or_app. right. exact Hr.
Qed.


Lemma retarget_direct_some f tm i r :
  In r (direct_regions (retarget (Some f) (Some tm) i)) ->
  r = fst tm \/ (In r (direct_regions i) /\ (r <> f \/ target_elsewhere f i = true)).
Proof.
  intro H.
  destruct (N.eq_dec r (fst tm)) as [Ht|Ht]; [left; exact Ht | right].
  assert (Hin : In r (direct_regions i)).
  { destruct i as [nm ps qs|mn q t|[q|]|qs|qs fs d|b fr w|b fr m w|b fr d m|k fr e|fr g|d s|d s o|nm ty ln|nm args data|k];
      cbn [retarget] in H; try exact H.
    - destruct (N.eqb (fst m) f); [cbn in H; destruct H as [H|[]]; congruence | exact H].
    - destruct (N.eqb nm load_memory) eqn:En; cbn [andb] in H; [|exact H].
      destruct data as [[n|m]|]; cbn in H |- *; rewrite ?En in *; try exact H.
      destruct (N.eqb n f); cbn in H; rewrite ?En in H; [destruct H as [H|[]]; congruence | exact H]. }
  split; [exact Hin|].
  destruct (N.eq_dec r f) as [->|Hn]; [right | left; exact Hn].
  unfold target_elsewhere, memref_named.
  destruct i as [nm ps qs|mn q t|[q|]|qs|qs fs d|b fr w|b fr m w|b fr d m|k fr e|fr g|d s|d s o|nm ty ln|nm args data|k];
    cbn in Hin; try contradiction.
  - destruct t as [m|]; cbn in Hin; [|contradiction]. destruct Hin as [->|[]]. rewrite N.eqb_refl. apply orb_true_r.
  - (* capture: the retargeted instruction no longer mentions f *)
    destruct Hin as [E|[]]. cbn [retarget] in H. rewrite E, N.eqb_refl in H. cbn in H. destruct H as [H|[]]. congruence.
  - destruct Hin as [->|[]]. rewrite N.eqb_refl. apply orb_true_r.
  - destruct s as [z|m]; cbn in Hin.
    + destruct Hin as [->|[]]. rewrite N.eqb_refl. apply orb_true_r.
    + destruct Hin as [->|[->|[]]]; rewrite N.eqb_refl; rewrite ?orb_true_r; reflexivity.
  - destruct Hin as [->|[->|[->|[]]]]; rewrite N.eqb_refl; rewrite ?orb_true_r; reflexivity.
  - destruct (N.eqb nm load_memory) eqn:En.
    + destruct data as [[n|m]|]; cbn in Hin; try contradiction.
      * destruct Hin as [->|[]]. cbn [retarget] in H. rewrite En in H. cbn in H. rewrite N.eqb_refl in H.
        cbn in H. rewrite En in H. destruct H as [H|[]]. congruence.
      * destruct Hin as [->|[]]. rewrite N.eqb_refl, ?En. cbn. rewrite ?orb_true_r. reflexivity.
    + destruct data as [[n|m]|]; cbn in Hin; contradiction.
Qed.

Lemma target_elsewhere_subst_qubits f fq i : target_elsewhere f (subst_qubits fq i) = target_elsewhere f i.
Proof.
  unfold target_elsewhere. rewrite subst_qubits_exprs.
  destruct i as [nm ps qs|mn q t|[q|]|qs|qs fs d|b fr w|b fr m w|b fr d m|k fr e|fr g|d s|d s o|nm ty ln|nm args data|k];
    reflexivity.
Qed.

Lemma retarget_none formal i : retarget formal None i = i.
Proof.
  destruct i; cbn; try reflexivity.
  destruct (N.eqb nm load_memory && option_eqb pdata_eqb data (option_map PName formal)); reflexivity.
Qed.

Lemma subst_meas_no_formal fs c mn q t :
  (forall b, In b (mc_body c) -> forall r, In r (instr_regions b) -> ~ In r fs \/ Some r = mc_target c) ->
  Known_measure_target_uses c = false ->
  Bool.eqb (is_some t) (is_some (mc_target c)) = true ->
  mentions_none fs (IMeasure mn q t) = true ->
  forall j, In j (subst_meas c q t) -> mentions_none fs j = true.
Proof.
  intros Hp Hk Hb Hm j Hj. unfold subst_meas in Hj. apply in_map_iff in Hj. destruct Hj as [b [<- Hin]].
  specialize (Hp b Hin). rewrite mentions_none_iff in *. unfold Known_measure_target_uses in Hk.
  destruct (mc_target c) as [f|] eqn:Hf; destruct t as [tm|]; cbn in Hb; try discriminate.
  - assert (Hte : target_elsewhere f b = false).
    { rewrite existsb_false_forall in Hk. apply Hk. exact Hin. }
    intros r Hr. rewrite instr_regions_eq, retarget_exprs, subst_qubits_exprs in Hr.
    apply in_app_or in Hr. destruct Hr as [Hr|Hr].
    + destruct (Hp r) as [Hn|He]; [rewrite instr_regions_eq; apply in_or_app; left; exact Hr | exact Hn |].
      inversion He; subst r. exfalso.
      apply in_map_iff in Hr. destruct Hr as [m [Em Hm']].
      assert (existsb (memref_named f) (flat_map expr_memrefs (instr_exprs b)) = true).
      { apply existsb_exists. exists m. split; [exact Hm' | unfold memref_named; rewrite Em; apply N.eqb_refl]. }
      unfold target_elsewhere in Hte. rewrite H in Hte. discriminate.
    + apply retarget_direct_some in Hr. destruct Hr as [->|[Hd Hor]].
      * apply Hm. cbn. left. reflexivity.
      * rewrite subst_qubits_direct in Hd. rewrite target_elsewhere_subst_qubits in Hor.
        destruct (Hp r) as [Hn|He]; [rewrite instr_regions_eq; apply in_or_app; right; exact Hd | exact Hn |].
        inversion He; subst r. destruct Hor as [Hor|Hor]; [congruence | congruence].
  - rewrite retarget_none. intros r Hr.
    rewrite instr_regions_eq, subst_qubits_exprs, subst_qubits_direct, <- instr_regions_eq in Hr.
    destruct (Hp r Hr) as [Hn|He]; [exact Hn | discriminate].
Qed.

Lemma formals_private_gcal cs p c b :
  formals_private cs p = true -> In c (gcals cs) -> In b (gc_body c) -> mentions_none (formals cs) b = true.
Proof.
  unfold formals_private. rewrite !andb_true_iff. intros [[[_ _] Hg] _] Hc Hb.
  rewrite forallb_forall in Hg. specialize (Hg c Hc). rewrite forallb_forall in Hg. auto.
Qed.

Lemma formals_private_mcal cs p c b r :
  formals_private cs p = true -> In c (mcals cs) -> In b (mc_body c) -> In r (instr_regions b) ->
  ~ In r (formals cs) \/ Some r = mc_target c.
Proof.
  unfold formals_private. rewrite !andb_true_iff. intros [_ Hm] Hc Hb Hr.
  rewrite forallb_forall in Hm. specialize (Hm c Hc). rewrite forallb_forall in Hm. specialize (Hm b Hb).
  rewrite forallb_forall in Hm. specialize (Hm r Hr). apply orb_true_iff in Hm. destruct Hm as [Hm|Hm].
  - left. intro Hf. apply negb_true_iff in Hm. unfold memN in Hm. rewrite existsb_false_forall in Hm.
    specialize (Hm r Hf). rewrite N.eqb_refl in Hm. discriminate.
  - right. apply (option_eqb_spec N.eqb N_eqb_spec) in Hm. exact Hm.
Qed.

Lemma instantiate_no_formal cs p i body src :
  formals_private cs p = true -> cals_clean cs = true ->
  mentions_none (formals cs) i = true -> instantiate cs i = Some (body, src) ->
  forall j, In j body -> mentions_none (formals cs) j = true.
Proof.
  intros Hp Hc Hm Hi. destruct i; cbn in Hi; try discriminate.
  - destruct (gate_match (gcals cs) nm ps qs) as [c|] eqn:E; [|discriminate]. inversion Hi; subst.
    apply gate_match_in in E. destruct E as [Hin _]. eapply subst_gate_no_formal; eauto.
    intros b Hb. eapply formals_private_gcal; eauto.
  - destruct (meas_match (mcals cs) mn q t) as [c|] eqn:E; [|discriminate]. inversion Hi; subst.
    apply meas_match_applicable in E. destruct E as [Hin Ha].
    unfold mcal_applicable in Ha. apply andb_true_iff in Ha. destruct Ha as [_ Ha].
    unfold cals_clean in Hc. rewrite forallb_forall in Hc. specialize (Hc c Hin). apply negb_true_iff in Hc.
    eapply subst_meas_no_formal; eauto.
    intros b Hb r Hr. eapply formals_private_mcal; eauto.
Qed.

Lemma Expands_no_formal_mut cs p :
  formals_private cs p = true -> cals_clean cs = true ->
  (forall path i r, Expands (instantiate cs) path i r ->
     mentions_none (formals cs) i = true ->
     forall out, r = Some out -> forall j, In j out -> mentions_none (formals cs) j = true) /\
  (forall path l out, ExpandsList (instantiate cs) path l out ->
     (forall j, In j l -> mentions_none (formals cs) j = true) ->
     forall j, In j out -> mentions_none (formals cs) j = true).
Proof.
  intros Hp Hc. apply Expands_mutind.
  - intros; discriminate.
  - intros path i body src out _ Hi _ IH Hm out' E j Hj. inversion E; subst.
    apply IH; auto. eapply instantiate_no_formal; eauto.
  - intros path _ j [].
  - intros path j t r _ _ _ IH Hl x [<-|Hx]; [apply Hl; left; reflexivity|].
    apply IH; auto. intros y Hy. apply Hl. right. exact Hy.
  - intros path j o t r _ IH1 _ IH2 Hl x Hx. apply in_app_or in Hx. destruct Hx as [Hx|Hx].
    + eapply IH1; eauto. apply Hl. left. reflexivity.
    + apply IH2; auto. intros y Hy. apply Hl. right. exact Hy.
Qed.

Lemma expand_program_no_formal cs fuel p p' :
  formals_private cs p = true -> cals_clean cs = true ->
  expand_program (instantiate cs) fuel p = Ok p' ->
  forall j, In j (body p') -> mentions_none (formals cs) j = true.
Proof.
  intros Hp Hc H. pose proof Hp as Hp'. unfold formals_private in Hp'. rewrite !andb_true_iff in Hp'.
  destruct Hp' as [[[_ Hbody] _] _]. rewrite forallb_forall in Hbody.
  apply expand_program_spec in H. destruct H as [outs [HF [Hb _]]]. rewrite Hb.
  intros j Hj. apply filter_In in Hj. destruct Hj as [Hj _]. apply in_concat in Hj.
  destruct Hj as [o [Ho Hjo]].
  assert (G : forall src outs, Forall2 (ExpandsTop (instantiate cs)) src outs ->
              (forall i, In i src -> mentions_none (formals cs) i = true) ->
              forall o, In o outs -> forall j, In j o -> mentions_none (formals cs) j = true).
  { clear - Hp Hc. induction 1 as [|i o src outs Hi _ IH]; intros Hm o' Ho' j Hj; [destruct Ho'|].
    destruct Ho' as [<-|Ho'].
    - destruct Hi as [Hi|o Hi].
      + destruct Hj as [<-|[]]. apply Hm. left. reflexivity.
      + eapply (proj1 (Expands_no_formal_mut cs p Hp Hc)); eauto. apply Hm. left. reflexivity.
    - eapply IH; eauto. intros y Hy. apply Hm. right. exact Hy. }
  eapply G; eauto.
Qed.
(** ** completeness of [chk_wfmap]: it decides well-formedness *)
Section ChkComplete.
  Variable inst : instr -> option (list instr * calsrc).

  Lemma calsrc_eqb_refl s : calsrc_eqb s s = true.
  Proof. apply calsrc_eqb_spec. reflexivity. Qed.

  Lemma chk_complete_mut :
    (forall srcl outl ns c e ns' c', WFentry inst srcl outl ns c e ns' c' ->
       chk_entry inst srcl outl (ns, c) e = Some (ns', c')) /\
    (forall srcl outl ns c es ns' c', WFwalk inst srcl outl ns c es ns' c' ->
       chk_walk inst srcl outl es (ns, c) = Some (ns', c')).
  Proof.
    split.
    - apply (WFentry_mind inst
               (fun srcl outl ns c e ns' c' _ => chk_entry inst srcl outl (ns, c) e = Some (ns', c'))
               (fun srcl outl ns c es ns' c' _ => chk_walk inst srcl outl es (ns, c) = Some (ns', c'))).
      + intros srcl outl ns c s x Hns Hx Hy. cbn [chk_entry].
        apply N.leb_le in Hns. rewrite Hns, N.eqb_refl. cbn [andb]. rewrite Hx, Hy, instr_eqb_refl. reflexivity.
      + intros srcl outl ns c s src hi sub x body nsb Hns Hc Hhi Hx Hi _ IH. cbn [chk_entry].
        apply N.leb_le in Hns, Hc, Hhi. rewrite Hns, N.eqb_refl, Hc, Hhi. cbn [andb].
        rewrite Hx, Hi, calsrc_eqb_refl, inner_walk_eq, IH, N.eqb_refl. reflexivity.
      + reflexivity.
      + intros srcl outl ns c e r ns1 c1 ns' c' _ He _ Hr. cbn [chk_walk]. rewrite He. exact Hr.
    - apply (WFwalk_mind inst
               (fun srcl outl ns c e ns' c' _ => chk_entry inst srcl outl (ns, c) e = Some (ns', c'))
               (fun srcl outl ns c es ns' c' _ => chk_walk inst srcl outl es (ns, c) = Some (ns', c'))).
      + intros srcl outl ns c s x Hns Hx Hy. cbn [chk_entry].
        apply N.leb_le in Hns. rewrite Hns, N.eqb_refl. cbn [andb]. rewrite Hx, Hy, instr_eqb_refl. reflexivity.
      + intros srcl outl ns c s src hi sub x body nsb Hns Hc Hhi Hx Hi _ IH. cbn [chk_entry].
        apply N.leb_le in Hns, Hc, Hhi. rewrite Hns, N.eqb_refl, Hc, Hhi. cbn [andb].
        rewrite Hx, Hi, calsrc_eqb_refl, inner_walk_eq, IH, N.eqb_refl. reflexivity.
      + reflexivity.
      + intros srcl outl ns c e r ns1 c1 ns' c' _ He _ Hr. cbn [chk_walk]. rewrite He. exact Hr.
  Qed.

  Theorem chk_wfmap_complete src out m : WFmap inst src out m -> chk_wfmap inst src out m = true.
  Proof.
    intros [ns H]. unfold chk_wfmap. rewrite (proj2 chk_complete_mut _ _ _ _ _ _ _ H). apply N.eqb_refl.
  Qed.

  Theorem chk_wfmap_iff src out m : chk_wfmap inst src out m = true <-> WFmap inst src out m.
  Proof. split; [apply chk_wfmap_sound | apply chk_wfmap_complete]. Qed.
End ChkComplete.

(** ** a syntactic sufficient condition for the restricted theorem: no calibration body contains a
    DECLARE and neither does the source body *)
Definition cals_no_declare (cs : cals) : bool :=
  forallb (fun c => forallb not_hoisted (gc_body c)) (gcals cs) &&
  forallb (fun c => forallb not_hoisted (mc_body c)) (mcals cs).

Lemma subst_hoisted fq fe i : hoisted (subst_exprs fe (subst_qubits fq i)) = hoisted i.
Proof.
  destruct i as [nm ps qs|mn q t|[q|]|qs|qs fs d|b f w|b f m w|b f d m|k f e|f g|d s|d s o|nm ty ln|nm args data|k];
    reflexivity.
Qed.

Lemma retarget_hoisted f t i : hoisted (retarget f t i) = hoisted i.
Proof.
  destruct i; cbn; try reflexivity.
  - destruct t, f; try reflexivity. destruct (N.eqb (fst m) n); reflexivity.
  - destruct (N.eqb nm load_memory && option_eqb pdata_eqb data (option_map PName f)); [destruct t|]; reflexivity.
Qed.

Lemma subst_qubits_hoisted fq i : hoisted (subst_qubits fq i) = hoisted i.
Proof.
  destruct i as [nm ps qs|mn q t|[q|]|qs|qs fs d|b f w|b f m w|b f d m|k f e|f g|d s|d s o|nm ty ln|nm args data|k];
    reflexivity.
Qed.

Lemma instantiate_no_declare cs i body src :
  cals_no_declare cs = true -> instantiate cs i = Some (body, src) ->
  forall j, In j body -> not_hoisted j = true.
Proof.
  unfold cals_no_declare. rewrite andb_true_iff. intros [Hg Hm] Hi.
  rewrite forallb_forall in Hg, Hm. destruct i; cbn in Hi; try discriminate.
  - destruct (gate_match (gcals cs) nm ps qs) as [c|] eqn:E; [|discriminate]. inversion Hi; subst.
    apply gate_match_in in E. destruct E as [Hin _]. specialize (Hg c Hin). rewrite forallb_forall in Hg.
    intros j Hj. unfold subst_gate in Hj. apply in_map_iff in Hj. destruct Hj as [b [<- Hb]].
    unfold not_hoisted. rewrite subst_hoisted. apply Hg. exact Hb.
  - destruct (meas_match (mcals cs) mn q t) as [c|] eqn:E; [|discriminate]. inversion Hi; subst.
    apply meas_match_applicable in E. destruct E as [Hin _]. specialize (Hm c Hin). rewrite forallb_forall in Hm.
    intros j Hj. unfold subst_meas in Hj. apply in_map_iff in Hj. destruct Hj as [b [<- Hb]].
    unfold not_hoisted. rewrite retarget_hoisted, subst_qubits_hoisted. apply Hm. exact Hb.
Qed.

Lemma Expands_no_declare_mut cs :
  cals_no_declare cs = true ->
  (forall path i r, Expands (instantiate cs) path i r ->
     forall out, r = Some out -> forall j, In j out -> not_hoisted j = true) /\
  (forall path l out, ExpandsList (instantiate cs) path l out ->
     (forall j, In j l -> not_hoisted j = true) -> forall j, In j out -> not_hoisted j = true).
Proof.
  intro Hc. apply Expands_mutind.
  - intros; discriminate.
  - intros path i body src out _ Hi _ IH out' E j Hj. inversion E; subst.
    apply IH; auto. eapply instantiate_no_declare; eauto.
  - intros path _ j [].
  - intros path j t r _ _ _ IH Hl x [<-|Hx]; [apply Hl; left; reflexivity|].
    apply IH; auto. intros y Hy. apply Hl. right. exact Hy.
  - intros path j o t r _ IH1 _ IH2 Hl x Hx. apply in_app_or in Hx. destruct Hx as [Hx|Hx].
    + eapply IH1; eauto.
    + apply IH2; auto. intros y Hy. apply Hl. right. exact Hy.
Qed.

Lemma no_declare_no_hoist cs fuel src :
  cals_no_declare cs = true -> forallb not_hoisted src = true ->
  no_hoist_b (instantiate cs) fuel src = true.
Proof.
  intros Hc Hs. unfold no_hoist_b. apply forallb_forall. intros i Hi.
  rewrite forallb_forall in Hs. rewrite (Hs i Hi). cbn [andb].
  destruct (expand_d (instantiate cs) fuel [] i) as [[[o d]|]| |] eqn:Hd; try reflexivity.
  apply forallb_forall. intros j Hj.
  assert (He : expand (instantiate cs) fuel [] i = Ok (Some o)).
  { rewrite <- expand_d_sim, Hd. reflexivity. }
  apply expand_sound in He. eapply (proj1 (Expands_no_declare_mut cs Hc)); eauto.
Qed.

(** ** the flat-expansion instance checker *)

Lemma Expands_flat inst i body src :
  inst i = Some (body, src) -> (forall j, In j body -> inst j = None) ->
  Expands inst [] i (Some body).
Proof.
  intros Hi Hb. eapply Ex_match; [intros [] | exact Hi |].
  assert (G : forall l, (forall j, In j l -> inst j = None) -> ExpandsList inst [i] l l).
  { induction l as [|j t IH]; intro H; [constructor|]. apply EL_keep.
    - apply Ex_nomatch; [|apply H; left; reflexivity].
      intros [E|[]]. subst j. rewrite (H i) in Hi; [discriminate | left; reflexivity].
    - apply IH. intros y Hy. apply H. right. exact Hy. }
  apply G. exact Hb.
Qed.

(** If the specified body of the calibration matching [i] needs no further expansion, the specified
    result of expanding [i] is that body — and that is what [chk_flat_spec] demands of the
    implementation's [Calibrations::expand]. *)
Lemma chk_flat_spec_sound cs i o body src :
  chk_flat_spec cs i o = true ->
  instantiate_spec cs i = Some (body, src) -> (forall j, In j body -> instantiate_spec cs j = None) ->
  o = Some body /\ Expands (instantiate_spec cs) [] i o.
Proof.
  unfold chk_flat_spec. intros H Hi Hb. rewrite Hi in H.
  assert (E : forallb (fun j => negb (is_some (instantiate_spec cs j))) body = true).
  { apply forallb_forall. intros j Hj. rewrite (Hb j Hj). reflexivity. }
  rewrite E in H.
  apply (option_eqb_spec (list_eqb instr_eqb) (list_eqb_spec instr_eqb instr_eqb_spec)) in H.
  subst o. split; [reflexivity|]. eapply Expands_flat; eauto.
Qed.

Lemma chk_flat_spec_nomatch cs i o :
  chk_flat_spec cs i o = true -> instantiate_spec cs i = None ->
  o = None /\ Expands (instantiate_spec cs) [] i o.
Proof.
  unfold chk_flat_spec. intros H Hi. rewrite Hi in H.
  apply (option_eqb_spec (list_eqb instr_eqb) (list_eqb_spec instr_eqb instr_eqb_spec)) in H.
  subst o. split; [reflexivity|]. apply Ex_nomatch; [intros [] | exact Hi].
Qed.
