(** Proofs about the recursion depth of the expression parser model (C01): the instrumentation of
    Model/ParseDepth.v erases to ParsePanic's parser, and the depth is bounded by the parenthesis
    nesting of the input, not by its length. *)
From Coq Require Import List NArith Bool Arith Lia.
From QV Require Import Model.ParsePanic Model.ParseDepth.
Import ListNotations.

(** * Erasure: dropping the depth component gives exactly [primary] / [parse_e] / [loop_e] *)

Lemma primary_ext : forall pe pe' ts, (forall t, pe t = pe' t) -> primary pe ts = primary pe' ts.
Proof.
  intros pe pe' ts Hext. unfold primary.
  destruct (immediate ts) as [[[im v] r]|]; [reflexivity|].
  destruct ts as [|t r]; [reflexivity|]. destruct t; try reflexivity.
  - rewrite Hext; reflexivity.
  - destruct (brackets r) as [[i r']|]; [reflexivity|].
    destruct (ident_class x) as [fn|]; [|reflexivity].
    destruct fn; try reflexivity; destruct r as [|t r1]; try reflexivity;
      destruct t; try reflexivity; rewrite Hext; reflexivity.
Qed.

Lemma primary_d_erase : forall pe ts,
  fst (primary_d pe ts) = primary (fun t => fst (pe t)) ts.
Proof.
  intros pe ts. unfold primary_d, primary.
  destruct (immediate ts) as [[[im v] r]|]; [reflexivity|].
  destruct ts as [|t r]; [reflexivity|]. destruct t; try reflexivity.
  - destruct (pe r) as [q d]; reflexivity.
  - destruct (brackets r) as [[i r']|]; [reflexivity|].
    destruct (ident_class x) as [fn|]; [|reflexivity].
    destruct fn; try reflexivity; destruct r as [|t r1]; try reflexivity;
      destruct t; try reflexivity; destruct (pe r1) as [q d]; reflexivity.
Qed.

Lemma parse_d_erase :
  forall f, (forall p ts, fst (parse_d f p ts) = parse_e f p ts) /\
            (forall p l ts, fst (loop_d f p l ts) = loop_e f p l ts).
Proof.
  induction f as [|f [IHp IHl]]; split; intros; cbn [parse_d loop_d parse_e loop_e]; try reflexivity.
  - destruct (strip_minus ts) as [neg ts1].
    rewrite <- (primary_ext (fun t => fst (parse_d f 0 t)) (parse_e f 0) ts1 (IHp 0)).
    rewrite <- primary_d_erase.
    destruct (primary_d (parse_d f 0) ts1) as [q d1]. cbn [fst].
    destruct q; try reflexivity.
    rewrite <- IHl. destruct (loop_d f p (if neg then ENeg a else a) rest); reflexivity.
  - destruct ts as [|t r]; [reflexivity|]. destruct t; try reflexivity.
    destruct (Nat.ltb p (prec o)); [|reflexivity].
    rewrite <- IHp. destruct (parse_d f (prec o) r) as [q d1]. cbn [fst].
    destruct q; try reflexivity.
    rewrite <- IHl. destruct (loop_d f p (EInfix l o a) rest); reflexivity.
Qed.

Lemma p_expr_d_erase : forall ts, fst (p_expr_d ts) = p_expr ts.
Proof. intros ts. unfold p_expr_d, p_expr. apply parse_d_erase. Qed.

(** * Facts about [max_open] *)

Lemma max_open_ge : forall ts c, c <= max_open c ts.
Proof.
  induction ts as [|t r IH]; intros c; cbn [max_open]; [lia|].
  destruct t; try apply IH.
  - pose proof (IH (S c)); lia.
  - lia.
Qed.

Lemma max_open_mono : forall ts c c', c <= c' -> max_open c ts <= max_open c' ts.
Proof.
  induction ts as [|t r IH]; intros c c' Hc; cbn [max_open]; [lia|].
  destruct t; try (apply IH; lia).
  pose proof (IH (Nat.pred c) (Nat.pred c') ltac:(lia)). lia.
Qed.

Lemma max_open_no_paren : forall ts c,
  (forall t, In t ts -> t <> TLParen) -> max_open c ts = c.
Proof.
  induction ts as [|t r IH]; intros c Hno; cbn [max_open]; [reflexivity|].
  assert (Hr : forall t', In t' r -> t' <> TLParen) by (intros t' Hin; apply Hno; right; exact Hin).
  destruct t; try (apply IH; exact Hr).
  - exfalso. apply (Hno TLParen); [left; reflexivity|reflexivity].
  - rewrite (IH _ Hr). lia.
Qed.

Lemma opt_i_open : forall r0 b r c, opt_i r0 = (b, r) -> max_open c r = max_open c r0.
Proof.
  intros r0 b r c H. unfold opt_i in H.
  repeat match type of H with context [match ?x with _ => _ end] => destruct x end;
    inversion H; subst; reflexivity.
Qed.

Lemma immediate_open : forall ts im v r c,
  immediate ts = Some (im, v, r) -> max_open c r = max_open c ts.
Proof.
  intros ts im v r c H. unfold immediate in H.
  destruct ts as [|t r0]; [discriminate|]. destruct t; try discriminate.
  - destruct (opt_i r0) as [b r'] eqn:Ho. inversion H; subst.
    cbn [max_open]. eapply opt_i_open; exact Ho.
  - destruct (opt_i r0) as [b r'] eqn:Ho. inversion H; subst.
    cbn [max_open]. eapply opt_i_open; exact Ho.
Qed.

Lemma brackets_open : forall r i r' c, brackets r = Some (i, r') -> max_open c r' = max_open c r.
Proof.
  intros r i r' c H. unfold brackets in H.
  repeat match type of H with context [match ?x with _ => _ end] => destruct x end;
    inversion H; subst; reflexivity.
Qed.

Lemma strip_minus_open : forall ts neg ts1 c,
  strip_minus ts = (neg, ts1) -> max_open c ts1 = max_open c ts.
Proof.
  intros ts neg ts1 c H. unfold strip_minus in H.
  repeat match type of H with context [match ?x with _ => _ end] => destruct x end;
    inversion H; subst; reflexivity.
Qed.

(** * One step of [primary_d]: either no nested call (depth 0, and what is left has no more open
    parentheses than the input), or exactly one nested call right after a [(] that must stop in
    front of the matching [)] *)
Lemma primary_d_spec : forall pe ts q d,
  primary_d pe ts = (q, d) ->
  (d = 0 /\ forall e r, q = Ok e r -> forall c, max_open c r <= max_open c ts) \/
  (exists r1 q1, (forall c, max_open c ts = max_open (S c) r1) /\ pe r1 = (q1, d) /\
     forall e r, q = Ok e r -> exists e1, q1 = Ok e1 (TRParen :: r)).
Proof.
  intros pe ts q d H. unfold primary_d in H.
  destruct (immediate ts) as [[[im v] r]|] eqn:Him.
  { left. inversion H; subst. split; [reflexivity|]. intros e r' He c. inversion He; subst.
    rewrite (immediate_open _ _ _ _ c Him). lia. }
  assert (Hgroup : forall r1 q1 (k : res expr -> res expr),
             pe r1 = (q1, d) -> q = k (close_paren q1) ->
             (forall x, k x = x \/ exists fn, k x = match x with Ok e r2 => Ok (EFn fn e) r2 | Err => Err | Panic => Panic | Unk => Unk | Fuel => Fuel end) ->
             forall e r, q = Ok e r -> exists e1, q1 = Ok e1 (TRParen :: r)).
  { intros r1 q1 k Hpe Hq Hk e r He. rewrite He in Hq.
    destruct q1 as [e1 rest| | | |]; cbn [close_paren] in Hq.
    - destruct rest as [|t rest']; [|destruct t].
      all: try (destruct (Hk (@Err expr)) as [Hk'|[fn Hk']]; rewrite Hk' in Hq; discriminate).
      destruct (Hk (Ok e1 rest')) as [Hk'|[fn Hk']]; rewrite Hk' in Hq; inversion Hq; subst;
        eexists; reflexivity.
    - destruct (Hk (@Err expr)) as [Hk'|[fn Hk']]; rewrite Hk' in Hq; discriminate.
    - destruct (Hk (@Panic expr)) as [Hk'|[fn Hk']]; rewrite Hk' in Hq; discriminate.
    - destruct (Hk (@Unk expr)) as [Hk'|[fn Hk']]; rewrite Hk' in Hq; discriminate.
    - destruct (Hk (@Fuel expr)) as [Hk'|[fn Hk']]; rewrite Hk' in Hq; discriminate. }
  destruct ts as [|t r].
  { left. inversion H; subst. split; [reflexivity|]. intros; discriminate. }
  destruct t;
    try (left; inversion H; subst; split; [reflexivity|]; intros; discriminate).
  - (* ( *)
    destruct (pe r) as [q1 d1] eqn:Hpe. inversion H; subst. right.
    exists r, q1. split; [intros c; reflexivity|]. split; [exact Hpe|].
    apply (Hgroup r q1 (fun x => x) Hpe eq_refl). intros x; left; reflexivity.
  - (* identifier *)
    destruct (brackets r) as [[i r']|] eqn:Hb.
    { left. inversion H; subst. split; [reflexivity|]. intros e r0 He c. inversion He; subst.
      cbn [max_open]. rewrite (brackets_open _ _ _ c Hb). lia. }
    assert (Hleaf : forall e0, (q, d) = (Ok e0 r, 0) ->
              d = 0 /\ forall e r0, q = Ok e r0 -> forall c, max_open c r0 <= max_open c (TId x :: r)).
    { intros e0 Heq. inversion Heq; subst. split; [reflexivity|].
      intros e r0 He c. inversion He; subst. cbn [max_open]. lia. }
    assert (Hcall : forall fn,
              (q, d) = match r with
                       | TLParen :: r1 =>
                           let '(q0, d0) := pe r1 in
                           (match close_paren q0 with Ok e r2 => Ok (EFn fn e) r2 | o => o end, d0)
                       | _ => (Err, 0)
                       end ->
              (d = 0 /\ forall e r0, q = Ok e r0 -> forall c, max_open c r0 <= max_open c (TId x :: r)) \/
              (exists r1 q1, (forall c, max_open c (TId x :: r) = max_open (S c) r1) /\ pe r1 = (q1, d) /\
                 forall e r0, q = Ok e r0 -> exists e1, q1 = Ok e1 (TRParen :: r0))).
    { intros fn Heq. destruct r as [|t r1].
      { left. inversion Heq; subst. split; [reflexivity|]. intros; discriminate. }
      destruct t; try (left; inversion Heq; subst; split; [reflexivity|]; intros; discriminate).
      destruct (pe r1) as [q1 d1] eqn:Hpe. inversion Heq; subst. right.
      exists r1, q1. split; [intros c; reflexivity|]. split; [exact Hpe|].
      apply (Hgroup r1 q1 (fun y => match y with Ok e r2 => Ok (EFn fn e) r2 | Err => Err | Panic => Panic | Unk => Unk | Fuel => Fuel end) Hpe eq_refl).
      intros y; right; exists fn; reflexivity. }
    destruct (ident_class x) as [fn|].
    + destruct fn;
        first [ left; eapply Hleaf; symmetry; exact H
              | eapply Hcall; symmetry; exact H ].
    + left; eapply Hleaf; symmetry; exact H.
  - (* variable *)
    left. inversion H; subst. split; [reflexivity|]. intros e r0 He c. inversion He; subst.
    cbn [max_open]. lia.
Qed.

(** * The depth invariant.

    With [c] parentheses open and [M = max_open c ts]: an activation of [parse] at precedence [p]
    (at most [max_prec]) reaches depth at most [prec_levels * (M - c + 1) - p]; what a successful
    call leaves unconsumed never has more open parentheses than its input. *)
Lemma parse_d_depth :
  forall f,
    (forall p ts q d, parse_d f p ts = (q, d) -> p <= max_prec -> forall c,
        d + p + prec_levels * c <= prec_levels * max_open c ts + prec_levels /\
        (forall e r, q = Ok e r -> max_open c r <= max_open c ts)) /\
    (forall p l ts q d, loop_d f p l ts = (q, d) -> p <= max_prec -> forall c,
        d + p + 1 + prec_levels * c <= prec_levels * max_open c ts + prec_levels /\
        (forall e r, q = Ok e r -> max_open c r <= max_open c ts)).
Proof.
  unfold prec_levels, max_prec.
  induction f as [|f [IHp IHl]]; split; intros.
  - cbn [parse_d] in H. inversion H; subst. pose proof (max_open_ge ts c).
    split; [lia|intros; discriminate].
  - cbn [loop_d] in H. inversion H; subst. pose proof (max_open_ge ts c).
    split; [lia|intros; discriminate].
  - cbn [parse_d] in H.
    destruct (strip_minus ts) as [neg ts1] eqn:Hs.
    rewrite <- (strip_minus_open _ _ _ c Hs).
    destruct (primary_d (parse_d f 0) ts1) as [q1 d1] eqn:Hp.
    pose proof (max_open_ge ts1 c) as Hge.
    assert (Hprim : d1 + p + 1 + 4 * c <= 4 * max_open c ts1 + 4 /\
                    forall e r, q1 = Ok e r -> max_open c r <= max_open c ts1).
    { destruct (primary_d_spec _ _ _ _ Hp) as [[Hd Hr]|[r1 [q0 [Ho [Hpe Hcl]]]]].
      - split; [lia|]. intros e r He. exact (Hr e r He c).
      - destruct (IHp 0 r1 q0 d1 Hpe ltac:(lia) (S c)) as [Hb Hrest].
        rewrite <- (Ho c) in Hb, Hrest. split; [lia|].
        intros e r He. destruct (Hcl e r He) as [e1 Hq0].
        pose proof (Hrest e1 (TRParen :: r) Hq0) as Hm. cbn [max_open Nat.pred] in Hm. lia. }
    destruct Hprim as [Hd1 Hr1].
    destruct q1 as [e r| | | |]; try (inversion H; subst; split; [lia|intros; discriminate]).
    destruct (loop_d f p (if neg then ENeg e else e) r) as [q2 d2] eqn:Hl.
    inversion H; subst.
    destruct (IHl p _ r q d2 Hl H0 c) as [Hd2 Hr2].
    pose proof (Hr1 e r eq_refl) as Hm.
    split; [lia|]. intros e' r' He'. pose proof (Hr2 e' r' He'). lia.
  - cbn [loop_d] in H. pose proof (max_open_ge ts c) as Hge.
    assert (Hstop : (q, d) = (Ok l ts, 0) ->
              d + p + 1 + 4 * c <= 4 * max_open c ts + 4 /\
              (forall e r, q = Ok e r -> max_open c r <= max_open c ts)).
    { intros Heq. inversion Heq; subst. split; [lia|]. intros e r He. inversion He; subst. lia. }
    destruct ts as [|t r]; [apply Hstop; symmetry; exact H|].
    destruct t; try (apply Hstop; symmetry; exact H).
    destruct (Nat.ltb p (prec o)) eqn:Hlt; [|apply Hstop; symmetry; exact H].
    apply Nat.ltb_lt in Hlt. cbn [max_open].
    destruct (parse_d f (prec o) r) as [q1 d1] eqn:Hp.
    assert (Hpo : prec o <= 3) by (destruct o; cbn [prec]; lia).
    destruct (IHp (prec o) r q1 d1 Hp Hpo c) as [Hd1 Hr1].
    destruct q1 as [rhs r2| | | |]; try (inversion H; subst; split; [lia|intros; discriminate]).
    destruct (loop_d f p (EInfix l o rhs) r2) as [q2 d2] eqn:Hl.
    inversion H; subst.
    destruct (IHl p _ r2 q d2 Hl H0 c) as [Hd2 Hr2].
    pose proof (Hr1 rhs r2 eq_refl) as Hm.
    split; [lia|]. intros e' r' He'. pose proof (Hr2 e' r' He'). lia.
Qed.

(** the depth of [parse_expression], for every token list and ANY fuel *)
Lemma parse_d_depth_top : forall f ts,
  snd (parse_d f 0 ts) <= prec_levels * (paren_depth ts + 1).
Proof.
  intros f ts. destruct (parse_d f 0 ts) as [q d] eqn:H. cbn [snd].
  destruct (proj1 (parse_d_depth f) 0 ts q d H ltac:(unfold max_prec; lia) 0) as [Hb _].
  unfold paren_depth. lia.
Qed.

Lemma expr_depth_bound : forall ts, expr_depth ts <= prec_levels * (paren_depth ts + 1).
Proof. intros ts. unfold expr_depth, p_expr_d. apply parse_d_depth_top. Qed.

Lemma expr_depth_no_paren : forall ts,
  (forall t, In t ts -> t <> TLParen) -> expr_depth ts <= prec_levels.
Proof.
  intros ts Hno. pose proof (expr_depth_bound ts) as H.
  unfold paren_depth in H. rewrite (max_open_no_paren ts 0 Hno) in H. lia.
Qed.

(** every activation counts: the depth is at least 1 *)
Lemma parse_d_pos : forall f p ts, 1 <= snd (parse_d f p ts).
Proof.
  intros f p ts. destruct f as [|f]; cbn [parse_d]; [cbn; lia|].
  destruct (strip_minus ts) as [neg ts1].
  destruct (primary_d (parse_d f 0) ts1) as [q d1].
  destruct q; cbn [snd]; try lia.
  destruct (loop_d f p (if neg then ENeg a else a) rest); cbn [snd]; lia.
Qed.

(** unfolding equations *)
Lemma parse_d_S : forall f p ts,
  parse_d (S f) p ts =
  let '(neg, ts1) := strip_minus ts in
  let '(q, d1) := primary_d (parse_d f 0) ts1 in
  match q with
  | Ok e r =>
      let '(q2, d2) := loop_d f p (if neg then ENeg e else e) r in (q2, S (Nat.max d1 d2))
  | o => (o, S d1)
  end.
Proof. reflexivity. Qed.

Lemma loop_d_op : forall f p l o r,
  loop_d (S f) p l (TOp o :: r) =
  if Nat.ltb p (prec o)
  then let '(q, d1) := parse_d f (prec o) r in
       match q with
       | Ok rhs r2 => let '(q2, d2) := loop_d f p (EInfix l o rhs) r2 in (q2, Nat.max d1 d2)
       | o' => (o', d1)
       end
  else (Ok l (TOp o :: r), 0).
Proof. reflexivity. Qed.

Lemma primary_d_int : forall pe n r,
  opt_i r = (false, r) ->
  primary_d pe (TInt n :: r) = (Ok (ENum (norm_im false (val_of_int n)) (val_of_int n)) r, 0).
Proof. intros pe n r H. unfold primary_d, immediate. rewrite H. reflexivity. Qed.

Lemma primary_d_group : forall pe r,
  primary_d pe (TLParen :: r) = let '(q, d) := pe r in (close_paren q, d).
Proof. reflexivity. Qed.

(** * An operator chain of ANY length is parsed by the loop of one activation: depth exactly 2
    (the top activation plus one activation per right operand, one at a time) *)

Lemma plus_tail_length : forall n, length (plus_tail n) = 2 * n.
Proof. induction n as [|n IH]; cbn [plus_tail length]; [reflexivity|rewrite IH; lia]. Qed.

Lemma opt_i_plus_tail : forall n, opt_i (plus_tail n) = (false, plus_tail n).
Proof. destruct n; reflexivity. Qed.

Lemma loop_d_plus_stop : forall f n l, loop_d (S f) 1 l (plus_tail n) = (Ok l (plus_tail n), 0).
Proof. destruct n; reflexivity. Qed.

Lemma parse_d_plus_operand : forall f n,
  parse_d (S (S f)) 1 (TInt 1 :: plus_tail n) = (Ok (ENum false (VInt 1)) (plus_tail n), 1).
Proof.
  intros f n. rewrite parse_d_S. cbn [strip_minus].
  rewrite (primary_d_int _ _ _ (opt_i_plus_tail n)).
  rewrite loop_d_plus_stop. reflexivity.
Qed.

Lemma loop_d_plus_chain : forall n f l,
  2 * n + 1 <= f -> exists e, loop_d f 0 l (plus_tail n) = (Ok e [], Nat.min n 1).
Proof.
  induction n as [|n IH]; intros f l Hf.
  - destruct f as [|f]; [lia|]. exists l. reflexivity.
  - destruct f as [|f]; [lia|]. destruct f as [|f]; [lia|]. destruct f as [|f]; [lia|].
    cbn [plus_tail]. rewrite loop_d_op. cbn [prec Nat.ltb Nat.leb].
    rewrite parse_d_plus_operand.
    destruct (IH (S (S f)) (EInfix l OPlus (ENum false (VInt 1))) ltac:(lia)) as [e He].
    rewrite He. exists e. f_equal. lia.
Qed.

Lemma plus_chain_depth : forall n, expr_depth (plus_chain n) = 1 + Nat.min n 1.
Proof.
  intros n. unfold expr_depth, p_expr_d, plus_chain.
  cbn [length]. rewrite plus_tail_length.
  rewrite parse_d_S. cbn [strip_minus].
  rewrite (primary_d_int _ _ _ (opt_i_plus_tail n)).
  destruct (loop_d_plus_chain n (S (2 * n)) (ENum (norm_im false (val_of_int 1)) (val_of_int 1)) ltac:(lia))
    as [e He].
  rewrite He. reflexivity.
Qed.

(** * Plain parenthesis nesting is real recursion: [n] opening parentheses reach depth [n + 1],
    whatever follows them *)

Lemma open_parens_depth_ge : forall n f p tl,
  n + 1 <= snd (parse_d f p (repeat TLParen n ++ tl)) \/ f <= n.
Proof.
  induction n as [|n IH]; intros f p tl.
  - left. apply parse_d_pos.
  - destruct f as [|f]; [right; lia|].
    destruct (IH f 0 tl) as [Hn|Hf]; [left|right; lia].
    cbn [repeat app]. rewrite parse_d_S. cbn [strip_minus]. rewrite primary_d_group.
    destruct (parse_d f 0 (repeat TLParen n ++ tl)) as [q d] eqn:Hq. cbn [snd] in Hn.
    destruct (close_paren q) as [e r| | | |]; cbn [snd]; try lia.
    destruct (loop_d f p e r); cbn [snd]; lia.
Qed.

Lemma nested_parens_depth : forall n, n + 1 <= expr_depth (nested_parens n).
Proof.
  intros n. unfold expr_depth, p_expr_d, nested_parens.
  destruct (open_parens_depth_ge n (S (length (repeat TLParen n ++ TInt 1 :: repeat TRParen n))) 0
              (TInt 1 :: repeat TRParen n)) as [H|H]; [exact H|].
  rewrite app_length, repeat_length in H. cbn [length] in H. lia.
Qed.
