(** Proofs about the byte-level model of the whole lexer (Model/Lex.v), property C01:
    totality with the explicit fuel, progress of every token (nom's [many0] guard is dead code),
    and: every offset at which the lexer slices its input is a UTF-8 character boundary. *)
From Coq Require Import List NArith ZArith Bool Lia Arith.
From QV Require Model.QuotedString Model.LexNum Model.LexIdent.
From QV Require Proofs.LexNumProofs Proofs.LexIdentProofs.
From QV Require Import Model.Lex.
Import ListNotations.
Open Scope N_scope.

(** equalities between re-associated appends *)
Ltac list_eq := cbn [app]; rewrite <- ?app_assoc; cbn [app]; rewrite <- ?app_assoc; reflexivity.

Definition ascii (c : N) : Prop := c < 128.
Definition all_ascii (l : list N) : Prop := Forall ascii l.

(** * What each sub-lexer consumes *)

Lemma span_spec : forall p l a r,
  LexIdent.span p l = (a, r) ->
  l = a ++ r /\ Forall (fun c => p c = true) a /\
  match r with c :: _ => p c = false | [] => True end.
Proof.
  induction l as [|c t IH]; intros a r H; cbn [LexIdent.span] in H.
  - injection H as <- <-. repeat split; constructor.
  - destruct (p c) eqn:Hp.
    + destruct (LexIdent.span p t) as [a' r'] eqn:Hs. injection H as <- <-.
      destruct (IH _ _ eq_refl) as (-> & Ha & Hr). repeat split; auto.
    + injection H as <- <-. repeat split; auto.
Qed.

Lemma tag_spec : forall lit inp r, tag lit inp = Some r -> inp = lit ++ r.
Proof.
  induction lit as [|p lit IH]; intros inp r H; cbn [tag] in H.
  - now injection H as <-.
  - destruct inp as [|c t]; [discriminate|].
    destruct (c =? p) eqn:Hc; [|discriminate]. apply N.eqb_eq in Hc. subst c.
    cbn [app]. f_equal. now apply IH.
Qed.

Lemma Forall_impl_ascii : forall (p : N -> bool) l,
  (forall c, p c = true -> ascii c) -> Forall (fun c => p c = true) l -> all_ascii l.
Proof. intros p l Hp H. eapply Forall_impl; [|exact H]. exact Hp. Qed.

Lemma ident_char_ascii : forall c, LexIdent.ident_char c = true -> ascii c.
Proof.
  intros c H. unfold ascii.
  unfold LexIdent.ident_char, LexIdent.ident_head, LexIdent.is_upper, LexIdent.is_lower,
    LexIdent.is_digit in H.
  repeat (apply orb_true_iff in H as [H|H]);
    try (apply andb_true_iff in H as [_ H]; apply N.leb_le in H; lia);
    try (apply N.eqb_eq in H; lia).
Qed.

Lemma ident_head_ascii : forall c, LexIdent.ident_head c = true -> ascii c.
Proof. intros c H. apply ident_char_ascii. unfold LexIdent.ident_char. now rewrite H. Qed.

Lemma is_dash_ascii : forall c, LexIdent.is_dash c = true -> ascii c.
Proof. intros c H. unfold LexIdent.is_dash in H. apply N.eqb_eq in H. unfold ascii. lia. Qed.

Lemma all_ascii_app : forall a b, all_ascii a -> all_ascii b -> all_ascii (a ++ b).
Proof. intros a b Ha Hb. apply Forall_app. now split. Qed.

Lemma dash_groups_spec : forall fuel l g r,
  LexIdent.dash_groups fuel l = (g, r) -> l = g ++ r /\ all_ascii g.
Proof.
  induction fuel as [|f IH]; intros l g r H; cbn [LexIdent.dash_groups] in H.
  - injection H as <- <-. split; [reflexivity | constructor].
  - destruct (LexIdent.span LexIdent.is_dash l) as [d r1] eqn:Hd.
    destruct d as [|d0 d'].
    { injection H as <- <-. split; [reflexivity | constructor]. }
    destruct (LexIdent.span LexIdent.ident_char r1) as [w r2] eqn:Hw.
    destruct w as [|w0 w'].
    { injection H as <- <-. split; [reflexivity | constructor]. }
    destruct (LexIdent.dash_groups f r2) as [more r3] eqn:Hm. injection H as <- <-.
    destruct (span_spec _ _ _ _ Hd) as (-> & Hda & _).
    destruct (span_spec _ _ _ _ Hw) as (-> & Hwa & _).
    destruct (IH _ _ _ Hm) as (-> & Hma).
    split.
    + list_eq.
    + change (all_ascii ((d0 :: d') ++ (w0 :: w') ++ more)).
      apply all_ascii_app; [exact (Forall_impl_ascii _ _ is_dash_ascii Hda)|].
      apply all_ascii_app; [exact (Forall_impl_ascii _ _ ident_char_ascii Hwa) | exact Hma].
Qed.

Lemma lex_ident_raw_spec : forall l n r,
  LexIdent.lex_ident_raw l = Some (n, r) -> l = n ++ r /\ n <> [] /\ all_ascii n.
Proof.
  intros l n r H. unfold LexIdent.lex_ident_raw in H.
  destruct l as [|c t]; [discriminate|].
  destruct (LexIdent.ident_head c) eqn:Hc; [|discriminate].
  destruct (LexIdent.span LexIdent.ident_head (c :: t)) as [h r0] eqn:Hh.
  destruct (LexIdent.span LexIdent.ident_char r0) as [m r1] eqn:Hm.
  destruct (LexIdent.dash_groups (length r1) r1) as [g r2] eqn:Hg.
  injection H as <- <-.
  destruct (span_spec _ _ _ _ Hh) as (Hl & Hha & _).
  destruct (span_spec _ _ _ _ Hm) as (-> & Hma & _).
  destruct (dash_groups_spec _ _ _ _ Hg) as (-> & Hga).
  repeat split.
  - rewrite Hl. now rewrite <- !app_assoc.
  - cbn [LexIdent.span] in Hh. rewrite Hc in Hh.
    destruct (LexIdent.span LexIdent.ident_head t) as [a' r']. injection Hh as <- _. discriminate.
  - apply all_ascii_app; [exact (Forall_impl_ascii _ _ ident_head_ascii Hha)|].
    apply all_ascii_app; [exact (Forall_impl_ascii _ _ ident_char_ascii Hma) | exact Hga].
Qed.

(** numbers: from the literal descriptions proved for C05 *)
Lemma char_ok_ascii : forall r c, LexNumProofs.char_ok r c -> ascii c.
Proof.
  intros r c [->|[d Hd]]; unfold ascii; [reflexivity|].
  unfold LexNum.digit in Hd. destruct (LexNum.digit_val c) as [x|] eqn:Hx; [|discriminate].
  unfold LexNum.digit_val in Hx.
  destruct ((48 <=? c) && (c <=? 57)) eqn:H1.
  { apply andb_true_iff in H1 as [_ H1]. apply N.leb_le in H1. lia. }
  destruct ((97 <=? c) && (c <=? 102)) eqn:H2.
  { apply andb_true_iff in H2 as [_ H2]. apply N.leb_le in H2. lia. }
  destruct ((65 <=? c) && (c <=? 70)) eqn:H3; [|discriminate].
  apply andb_true_iff in H3 as [_ H3]. apply N.leb_le in H3. lia.
Qed.

Lemma all_char_ok_ascii : forall r l, Forall (LexNumProofs.char_ok r) l -> all_ascii l.
Proof. intros r l H. eapply Forall_impl; [|exact H]. apply char_ok_ascii. Qed.

Lemma digits_nonempty : forall r body, LexNumProofs.digits_of r body <> [] -> body <> [].
Proof. intros r body H ->. now apply H. Qed.

Lemma lex_number_spec : forall l t rest,
  LexNum.lex_number l = LexNum.NOk t rest ->
  exists c, l = c ++ rest /\ c <> [] /\ all_ascii c.
Proof.
  intros l [v|m e] rest H.
  - destruct (LexNumProofs.lex_number_int _ _ _ H) as [(pre & r & body & -> & Hpre & Hne & Hall & _) _].
    exists (pre ++ body). repeat split.
    + now rewrite <- app_assoc.
    + apply digits_nonempty in Hne. destruct pre; [cbn [app]; exact Hne | discriminate].
    + apply all_ascii_app; [|exact (all_char_ok_ascii _ _ Hall)].
      inversion Hpre as [|c Hc|c Hc|c Hc]; subst; try constructor; unfold ascii;
        repeat constructor; destruct Hc as [->| ->]; reflexivity.
  - destruct (LexNumProofs.lex_number_float_literal _ _ _ _ H)
      as (ib & fb & dot & ex & ev & -> & Hib & Hfb & Hdot & Hex & Hne & _).
    exists (ib ++ (if dot then LexNum.c_DOT :: fb else []) ++ ex). repeat split.
    + now rewrite <- !app_assoc.
    + destruct dot.
      * destruct ib; discriminate.
      * rewrite (Hdot eq_refl) in Hne. cbn [LexNumProofs.digits_of flat_map] in Hne.
        rewrite app_nil_r in Hne. apply digits_nonempty in Hne. destruct ib; [contradiction | discriminate].
    + apply all_ascii_app; [exact (all_char_ok_ascii _ _ Hib)|].
      apply all_ascii_app.
      * destruct dot; [|constructor]. constructor; [reflexivity | exact (all_char_ok_ascii _ _ Hfb)].
      * destruct Hex as [[-> _]|(mark & s & body & neg & -> & Hmark & Hs & Hbody & _)]; [constructor|].
        constructor; [destruct Hmark as [->| ->]; reflexivity|].
        apply all_ascii_app; [|exact (all_char_ok_ascii _ _ Hbody)].
        destruct Hs as [[-> _]|[[-> _]|[-> _]]]; repeat constructor.
Qed.

(** strings *)
Lemma scan_spec : forall l esc i r,
  QuotedString.scan esc l = Some (i, r) -> l = i ++ QuotedString.DQ :: r.
Proof.
  induction l as [|c t IH]; intros esc i r H; cbn [QuotedString.scan] in H; [discriminate|].
  destruct (c =? QuotedString.BS).
  { destruct (QuotedString.scan (negb esc) t) as [[i' r']|] eqn:Hs; [|discriminate].
    injection H as <- <-. cbn [app]. f_equal. exact (IH _ _ _ Hs). }
  destruct esc.
  { destruct (QuotedString.scan false t) as [[i' r']|] eqn:Hs; [|discriminate].
    injection H as <- <-. cbn [app]. f_equal. exact (IH _ _ _ Hs). }
  destruct (c =? QuotedString.DQ) eqn:Hq.
  { injection H as <- <-. apply N.eqb_eq in Hq. now subst c. }
  destruct (QuotedString.scan false t) as [[i' r']|] eqn:Hs; [|discriminate].
  injection H as <- <-. cbn [app]. f_equal. exact (IH _ _ _ Hs).
Qed.

Lemma lex_string_spec : forall l s rest,
  QuotedString.lex_string l = QuotedString.SOk s rest ->
  exists inner, l = 34 :: inner ++ 34 :: rest.
Proof.
  intros l s rest H. unfold QuotedString.lex_string in H.
  destruct l as [|c t]; [discriminate|].
  destruct (c =? QuotedString.DQ) eqn:Hc; [|discriminate]. apply N.eqb_eq in Hc. subst c.
  destruct (QuotedString.scan false t) as [[inner r]|] eqn:Hs; [|discriminate].
  injection H as _ <-. exists inner. f_equal. exact (scan_spec _ _ _ _ Hs).
Qed.

(** * The shape of what a token consumes *)

(** comments and strings may contain arbitrary bytes; every other token is made of ASCII bytes *)
Definition tok_shape (t : ltoken) (consumed rest : list N) : Prop :=
  match t with
  | LtComment _ =>
      exists content, consumed = c_HASH :: content /\
                      match rest with c :: _ => c = c_LF | [] => True end
  | LtString _ => exists inner, consumed = 34 :: inner ++ [34]
  | _ => all_ascii consumed
  end.

Definition simple_tok (t : ltoken) : Prop :=
  match t with LtComment _ | LtString _ => False | _ => True end.

Definition good_parser (p : list N -> pres ltoken) : Prop :=
  forall inp t rest, p inp = POk t rest ->
    exists consumed, inp = consumed ++ rest /\ consumed <> [] /\ tok_shape t consumed rest.

Definition ascii_parser (p : list N -> pres ltoken) : Prop :=
  forall inp t rest, p inp = POk t rest ->
    simple_tok t /\ exists consumed, inp = consumed ++ rest /\ consumed <> [] /\ all_ascii consumed.

Lemma ascii_good : forall p, ascii_parser p -> good_parser p.
Proof.
  intros p Hp inp t rest H. destruct (Hp _ _ _ H) as (Hs & c & -> & Hne & Ha).
  exists c. repeat split; auto. destruct t; try exact Ha; contradiction.
Qed.

Lemma alt_in : forall (ps : list (list N -> pres ltoken)) inp t rest,
  alt ps inp = POk t rest -> exists p, In p ps /\ p inp = POk t rest.
Proof.
  induction ps as [|p ps IH]; intros inp t rest H; cbn [alt] in H; [discriminate|].
  destruct (p inp) as [t' r'| |] eqn:Hp.
  - injection H as <- <-. exists p. split; [now left | exact Hp].
  - destruct (IH _ _ _ H) as (q & Hq & Hr). exists q. split; [now right | exact Hr].
  - discriminate.
Qed.

Lemma alt_ascii : forall ps, Forall ascii_parser ps -> ascii_parser (alt ps).
Proof.
  intros ps Hall inp t rest H. destruct (alt_in _ _ _ _ H) as (p & Hin & Hp).
  rewrite Forall_forall in Hall. exact (Hall p Hin _ _ _ Hp).
Qed.

Lemma alt_good : forall ps, Forall good_parser ps -> good_parser (alt ps).
Proof.
  intros ps Hall inp t rest H. destruct (alt_in _ _ _ _ H) as (p & Hin & Hp).
  rewrite Forall_forall in Hall. exact (Hall p Hin _ _ _ Hp).
Qed.

Lemma value_tag_ascii : forall t lit,
  simple_tok t -> lit <> [] -> all_ascii lit -> ascii_parser (value_tag t lit).
Proof.
  intros t lit Ht Hne Ha inp t' rest H. unfold value_tag in H.
  destruct (tag lit inp) as [r|] eqn:Htag; [|discriminate]. injection H as <- <-.
  split; [exact Ht|]. exists lit. repeat split; auto. exact (tag_spec _ _ _ Htag).
Qed.

Ltac ascii_lit := unfold all_ascii, ascii; repeat constructor.

Lemma is_a_spec : forall p inp r,
  (forall c, p c = true -> ascii c) ->
  is_a p inp = Some r -> exists c, inp = c ++ r /\ c <> [] /\ all_ascii c.
Proof.
  intros p inp r Hp H. unfold is_a, take_while in H.
  destruct (LexIdent.span p inp) as [a r'] eqn:Hs. destruct a as [|a0 a']; [discriminate|].
  injection H as <-. destruct (span_spec _ _ _ _ Hs) as (-> & Ha & _).
  exists (a0 :: a'). repeat split; [discriminate|]. exact (Forall_impl_ascii _ _ Hp Ha).
Qed.

Lemma lex_newlines_ascii : ascii_parser lex_newlines.
Proof.
  intros inp t rest H. unfold lex_newlines in H.
  assert (H1 : forall c, is_lf c = true -> ascii c).
  { intros c Hc. unfold is_lf in Hc. apply N.eqb_eq in Hc. subst c. reflexivity. }
  assert (H2 : forall c, is_cr_or_lf c = true -> ascii c).
  { intros c Hc. unfold is_cr_or_lf in Hc. apply orb_true_iff in Hc as [Hc|Hc];
      apply N.eqb_eq in Hc; subst c; reflexivity. }
  destruct (is_a is_lf inp) as [r|] eqn:Ha.
  - injection H as <- <-. split; [exact I|]. exact (is_a_spec _ _ _ H1 Ha).
  - destruct (is_a is_cr_or_lf inp) as [r|] eqn:Hb; [|discriminate].
    injection H as <- <-. split; [exact I|]. exact (is_a_spec _ _ _ H2 Hb).
Qed.

Lemma lex_indent_ascii : ascii_parser lex_indent.
Proof.
  apply alt_ascii.
  repeat (apply Forall_cons || apply Forall_nil);
    (apply value_tag_ascii; [exact I | discriminate | ascii_lit]).
Qed.

Lemma lex_punctuation_ascii : ascii_parser lex_punctuation.
Proof.
  apply alt_ascii.
  repeat (apply Forall_cons || apply Forall_nil);
    try (apply value_tag_ascii; [exact I | discriminate | ascii_lit]).
  - exact lex_indent_ascii.
  - exact lex_newlines_ascii.
Qed.

Lemma lex_operator_ascii : ascii_parser lex_operator.
Proof.
  apply alt_ascii.
  repeat (apply Forall_cons || apply Forall_nil);
    (apply value_tag_ascii; [exact I | discriminate | ascii_lit]).
Qed.

Lemma lex_sigil_ascii : forall sigil mk,
  ascii sigil -> (forall n, simple_tok (mk n)) -> ascii_parser (lex_sigil sigil mk).
Proof.
  intros sigil mk Hs Hmk inp t rest H. unfold lex_sigil in H.
  destruct (tag [sigil] inp) as [r|] eqn:Htag; [|discriminate].
  destruct (LexIdent.lex_ident_raw r) as [[name rest']|] eqn:Hid; [|discriminate].
  injection H as <- <-. split; [apply Hmk|].
  apply tag_spec in Htag. subst inp. destruct (lex_ident_raw_spec _ _ _ Hid) as (-> & _ & Ha).
  exists (sigil :: name). repeat split; [discriminate|]. constructor; assumption.
Qed.

Lemma keyword_or_identifier_simple : forall n, simple_tok (keyword_or_identifier n).
Proof. intro n. unfold keyword_or_identifier. repeat destruct (LexIdent.mem_bytes _ _); exact I. Qed.

Lemma lex_keyword_or_identifier_ascii : ascii_parser lex_keyword_or_identifier.
Proof.
  intros inp t rest H. unfold lex_keyword_or_identifier in H.
  destruct (LexIdent.lex_ident_raw inp) as [[name rest']|] eqn:Hid; [|discriminate].
  injection H as <- <-. split; [apply keyword_or_identifier_simple|].
  destruct (lex_ident_raw_spec _ _ _ Hid) as (-> & Hne & Ha). now exists name.
Qed.

Lemma lex_number_ascii : ascii_parser lex_number.
Proof.
  intros inp t rest H. unfold lex_number in H.
  destruct (LexNum.lex_number inp) as [nt r| |] eqn:Hn; try discriminate.
  destruct (lex_number_spec _ _ _ Hn) as (c & -> & Hne & Ha).
  destruct nt; injection H as <- <-; (split; [exact I | now exists c]).
Qed.

Lemma lex_comment_good : good_parser lex_comment.
Proof.
  intros inp t rest H. unfold lex_comment in H.
  destruct (tag [c_HASH] inp) as [r|] eqn:Htag; [|discriminate].
  unfold take_while in H.
  destruct (LexIdent.span (fun c => negb (is_lf c)) r) as [content rest'] eqn:Hs.
  injection H as <- <-. apply tag_spec in Htag. subst inp.
  destruct (span_spec _ _ _ _ Hs) as (-> & _ & Hstop).
  exists (c_HASH :: content). repeat split; [discriminate|].
  exists content. split; [reflexivity|].
  destruct rest' as [|c rest']; [exact I|].
  apply negb_false_iff in Hstop. unfold is_lf in Hstop. now apply N.eqb_eq in Hstop.
Qed.

Lemma lex_string_good : good_parser lex_string.
Proof.
  intros inp t rest H. unfold lex_string in H.
  destruct (QuotedString.lex_string inp) as [s r| |] eqn:Hs; try discriminate.
  injection H as <- <-. destruct (lex_string_spec _ _ _ Hs) as (inner & ->).
  exists (34 :: inner ++ [34]). repeat split.
  - cbn [app]. now rewrite <- app_assoc.
  - discriminate.
  - now exists inner.
Qed.

Lemma lex_token_good : good_parser lex_token.
Proof.
  apply alt_good.
  repeat (apply Forall_cons || apply Forall_nil).
  - exact lex_comment_good.
  - exact (ascii_good _ lex_punctuation_ascii).
  - apply ascii_good, lex_sigil_ascii; [reflexivity | intro; exact I].
  - exact lex_string_good.
  - exact (ascii_good _ lex_operator_ascii).
  - apply ascii_good, lex_sigil_ascii; [reflexivity | intro; exact I].
  - exact (ascii_good _ lex_keyword_or_identifier_ascii).
  - exact (ascii_good _ lex_number_ascii).
Qed.

(** ** One iteration of the loop: skipped spaces, then a token that consumes at least one byte *)
Theorem lex_item_spec : forall inp t at_ rest,
  lex_item inp = POk (t, at_) rest ->
  exists sp consumed,
    inp = sp ++ at_ /\ at_ = consumed ++ rest /\ Forall (fun c => c = c_SP) sp /\
    consumed <> [] /\ tok_shape t consumed rest.
Proof.
  intros inp t at_ rest H. unfold lex_item in H.
  destruct (lex_indent inp) as [ti ri| |] eqn:Hi.
  - injection H as <- <- <-.
    destruct (ascii_good _ lex_indent_ascii _ _ _ Hi) as (c & Hc & Hne & Hsh).
    exists [], c. repeat split; auto.
  - unfold take_while in H.
    destruct (LexIdent.span is_space inp) as [sp at'] eqn:Hs. cbn [snd] in H.
    destruct (lex_token at') as [tt rt| |] eqn:Ht; try discriminate.
    injection H as <- <- <-.
    destruct (span_spec _ _ _ _ Hs) as (-> & Hsp & _).
    destruct (lex_token_good _ _ _ Ht) as (c & Hc & Hne & Hsh).
    exists sp, c. repeat split; auto.
    eapply Forall_impl; [|exact Hsp]. intros a Ha. unfold is_space in Ha. now apply N.eqb_eq in Ha.
  - discriminate.
Qed.

(** the invariant that makes nom's [many0] terminate without its infinite-loop error *)
Theorem lex_item_progress : forall inp t at_ rest,
  lex_item inp = POk (t, at_) rest ->
  (length rest < length at_ /\ length at_ <= length inp)%nat.
Proof.
  intros inp t at_ rest H.
  destruct (lex_item_spec _ _ _ _ H) as (sp & c & -> & -> & _ & Hne & _).
  rewrite !app_length. destruct c; [contradiction|]. cbn [length]. lia.
Qed.

(** * The loop: fuel, the dead guard, totality *)

Lemma lex_loop_no_many0 : forall fuel total inp sps st r,
  lex_loop fuel total inp = (sps, st, r) -> st <> StopMany0.
Proof.
  induction fuel as [|f IH]; intros total inp sps st r H; cbn [lex_loop] in H.
  - injection H as _ <- _. discriminate.
  - destruct (lex_item inp) as [[t at_] rest| |] eqn:Hi.
    + destruct (lex_item_progress _ _ _ _ Hi) as [H1 H2].
      destruct (Nat.eqb (length rest) (length inp)) eqn:He.
      { apply Nat.eqb_eq in He. lia. }
      destruct (lex_loop f total rest) as [[sps' st'] r'] eqn:Hl. injection H as _ <- _.
      exact (IH _ _ _ _ _ Hl).
    + injection H as _ <- _. discriminate.
    + injection H as _ <- _. discriminate.
Qed.

Lemma lex_loop_fuel : forall fuel total inp sps st r,
  (length inp < fuel)%nat -> lex_loop fuel total inp = (sps, st, r) -> st <> StopFuel.
Proof.
  induction fuel as [|f IH]; intros total inp sps st r Hlen H; [lia|]. cbn [lex_loop] in H.
  destruct (lex_item inp) as [[t at_] rest| |] eqn:Hi.
  - destruct (lex_item_progress _ _ _ _ Hi) as [H1 H2].
    destruct (Nat.eqb (length rest) (length inp)); [injection H as _ <- _; discriminate|].
    destruct (lex_loop f total rest) as [[sps' st'] r'] eqn:Hl. injection H as _ <- _.
    apply (IH total rest sps' st' r'); [lia | exact Hl].
  - injection H as _ <- _. discriminate.
  - injection H as _ <- _. discriminate.
Qed.

(** any fuel above the input length computes the same result *)
Lemma lex_loop_fuel_irrelevant : forall f1 f2 total inp,
  (length inp < f1)%nat -> (length inp < f2)%nat -> lex_loop f1 total inp = lex_loop f2 total inp.
Proof.
  induction f1 as [|f1 IH]; intros f2 total inp H1 H2; [lia|].
  destruct f2 as [|f2]; [lia|]. cbn [lex_loop].
  destruct (lex_item inp) as [[t at_] rest| |] eqn:Hi; try reflexivity.
  destruct (lex_item_progress _ _ _ _ Hi) as [Ha Hb].
  destruct (Nat.eqb (length rest) (length inp)); [reflexivity|].
  rewrite (IH f2 total rest); [reflexivity | lia | lia].
Qed.

Theorem lex_fuel_sufficient : forall bytes fuel,
  (length bytes < fuel)%nat -> lex_loop fuel (length bytes) bytes = lex_spans bytes.
Proof. intros bytes fuel H. unfold lex_spans. apply lex_loop_fuel_irrelevant; lia. Qed.

Theorem lex_total : forall bytes,
  (exists ts, lex bytes = LexOk ts) \/ lex bytes = LexErr ELeftover \/ lex bytes = LexErr EFailure.
Proof.
  intro bytes. unfold lex. destruct (lex_spans bytes) as [[sps st] r] eqn:Hs.
  unfold lex_spans in Hs.
  pose proof (lex_loop_no_many0 _ _ _ _ _ _ Hs) as Hm.
  assert (Hf : st <> StopFuel) by (apply (lex_loop_fuel _ _ _ _ _ _ (Nat.lt_succ_diag_r _) Hs)).
  destruct st; try contradiction.
  - destruct (snd (take_while is_trailing_ws r)); [left; eauto | right; now left].
  - right; now right.
Qed.

Corollary lex_never_fuel : forall bytes, lex bytes <> LexErr EFuel.
Proof. intro b. destruct (lex_total b) as [[ts H]|[H|H]]; rewrite H; discriminate. Qed.

Corollary lex_never_many0 : forall bytes, lex bytes <> LexErr EMany0.
Proof. intro b. destruct (lex_total b) as [[ts H]|[H|H]]; rewrite H; discriminate. Qed.

(** * UTF-8 boundaries *)

Lemma cont_ge : forall b, is_cont b = true -> 128 <= b.
Proof. intros b H. unfold is_cont in H. apply andb_true_iff in H as [H _]. now apply N.leb_le. Qed.

Lemma second3_ge : forall b0 b1, second3 b0 b1 = true -> 128 <= b1.
Proof.
  intros b0 b1 H. unfold second3 in H.
  destruct (b0 =? 224); [apply andb_true_iff in H as [H _]; apply N.leb_le in H; lia|].
  destruct (b0 =? 237); [apply andb_true_iff in H as [H _]; now apply N.leb_le in H|].
  now apply cont_ge.
Qed.

Lemma second4_ge : forall b0 b1, second4 b0 b1 = true -> 128 <= b1.
Proof.
  intros b0 b1 H. unfold second4 in H.
  destruct (b0 =? 240); [apply andb_true_iff in H as [H _]; apply N.leb_le in H; lia|].
  destruct (b0 =? 244); [apply andb_true_iff in H as [H _]; now apply N.leb_le in H|].
  now apply cont_ge.
Qed.

Lemma not_cont_lt : forall b, b < 128 -> is_cont b = false.
Proof. intros b H. unfold is_cont. apply andb_false_iff. left. apply N.leb_gt. exact H. Qed.

(** a well-formed text does not start with a continuation byte *)
Lemma valid_head : forall c r, valid_utf8 (c :: r) = true -> is_cont c = false.
Proof.
  intros c r H. cbn [valid_utf8] in H.
  destruct (c <? 128) eqn:Hc; [apply N.ltb_lt in Hc; now apply not_cont_lt|].
  unfold is_cont. destruct r as [|b1 t1]; [discriminate|].
  destruct ((194 <=? c) && (c <=? 223)) eqn:H2.
  { apply andb_true_iff in H2 as [H2 _]. apply N.leb_le in H2.
    apply andb_false_iff. right. apply N.ltb_ge. lia. }
  destruct t1 as [|b2 t2]; [discriminate|].
  destruct ((224 <=? c) && (c <=? 239)) eqn:H3.
  { apply andb_true_iff in H3 as [H3 _]. apply N.leb_le in H3.
    apply andb_false_iff. right. apply N.ltb_ge. lia. }
  destruct t2 as [|b3 t3]; [discriminate|].
  destruct ((240 <=? c) && (c <=? 244)) eqn:H4; [|discriminate].
  apply andb_true_iff in H4 as [H4 _]. apply N.leb_le in H4.
  apply andb_false_iff. right. apply N.ltb_ge. lia.
Qed.

(** in a well-formed text the byte after an ASCII byte is not a continuation byte *)
Lemma valid_after_ascii_n : forall n p b c r,
  (length p <= n)%nat -> valid_utf8 (p ++ b :: c :: r) = true -> b < 128 -> is_cont c = false.
Proof.
  induction n as [n IH] using lt_wf_ind. intros p b c r Hn H Hb.
  destruct p as [|p0 p'].
  { cbn [app valid_utf8] in H. apply N.ltb_lt in Hb. rewrite Hb in H. exact (valid_head _ _ H). }
  cbn [app] in H. cbn [valid_utf8] in H. cbn [length] in Hn.
  destruct (p0 <? 128).
  { apply (IH (length p') ltac:(lia) p' b c r (le_n _) H Hb). }
  destruct p' as [|p1 p'']; cbn [app] in H.
  { (* b would be the second byte of a sequence *)
    destruct ((194 <=? p0) && (p0 <=? 223)).
    { apply andb_true_iff in H as [H _]. apply cont_ge in H. lia. }
    destruct ((224 <=? p0) && (p0 <=? 239)).
    { apply andb_true_iff in H as [H _]. apply andb_true_iff in H as [H _]. apply second3_ge in H. lia. }
    destruct r as [|b3 t3]; [discriminate|].
    destruct ((240 <=? p0) && (p0 <=? 244)); [|discriminate].
    do 3 (apply andb_true_iff in H as [H _]). apply second4_ge in H. lia. }
  cbn [length] in Hn.
  destruct ((194 <=? p0) && (p0 <=? 223)).
  { apply andb_true_iff in H as [_ H]. apply (IH (length p'') ltac:(lia) p'' b c r (le_n _) H Hb). }
  destruct p'' as [|p2 p3]; cbn [app] in H.
  { (* b would be the third byte *)
    destruct ((224 <=? p0) && (p0 <=? 239)).
    { apply andb_true_iff in H as [H _]. apply andb_true_iff in H as [_ H]. apply cont_ge in H. lia. }
    destruct ((240 <=? p0) && (p0 <=? 244)); [|discriminate].
    do 2 (apply andb_true_iff in H as [H _]). apply andb_true_iff in H as [_ H]. apply cont_ge in H. lia. }
  cbn [length] in Hn.
  destruct ((224 <=? p0) && (p0 <=? 239)).
  { apply andb_true_iff in H as [_ H]. apply (IH (length p3) ltac:(lia) p3 b c r (le_n _) H Hb). }
  destruct p3 as [|p3 p4]; cbn [app] in H.
  { (* b would be the fourth byte *)
    destruct ((240 <=? p0) && (p0 <=? 244)); [|discriminate].
    apply andb_true_iff in H as [H _]. apply andb_true_iff in H as [_ H]. apply cont_ge in H. lia. }
  cbn [length] in Hn.
  destruct ((240 <=? p0) && (p0 <=? 244)); [|discriminate].
  apply andb_true_iff in H as [_ H]. apply (IH (length p4) ltac:(lia) p4 b c r (le_n _) H Hb).
Qed.

Lemma valid_after_ascii : forall p b c r,
  valid_utf8 (p ++ b :: c :: r) = true -> b < 128 -> is_cont c = false.
Proof. intros p b c r. exact (valid_after_ascii_n (length p) p b c r (le_n _)). Qed.

(** a position of the text that is the start, the end, just after an ASCII byte or just before
    an ASCII byte *)
Inductive good_split : list N -> list N -> Prop :=
| GS_start r : good_split [] r
| GS_end p : good_split p []
| GS_after p b r : b < 128 -> good_split (p ++ [b]) r
| GS_before p b r : b < 128 -> good_split p (b :: r).

Definition good_cut (bytes : list N) (k : nat) : Prop :=
  exists p r, bytes = p ++ r /\ length p = k /\ good_split p r.

Lemma nth_error_app_len : forall (p r : list N), nth_error (p ++ r) (length p) = nth_error r 0.
Proof. intros p r. rewrite nth_error_app2 by lia. now rewrite Nat.sub_diag. Qed.

Lemma good_split_boundary : forall p r,
  valid_utf8 (p ++ r) = true -> good_split p r -> utf8_boundary (p ++ r) (length p) = true.
Proof.
  intros p r Hv Hg. unfold utf8_boundary. destruct Hg as [r|p|p b r Hb|p b r Hb].
  - reflexivity.
  - rewrite app_nil_r, Nat.eqb_refl. now rewrite orb_true_r.
  - destruct r as [|c r].
    + rewrite app_nil_r, Nat.eqb_refl. now rewrite orb_true_r.
    + rewrite nth_error_app_len. cbn [nth_error]. rewrite <- app_assoc in Hv. cbn [app] in Hv.
      rewrite (valid_after_ascii _ _ _ _ Hv Hb). now rewrite orb_true_r.
  - rewrite nth_error_app_len. cbn [nth_error]. rewrite (not_cont_lt _ Hb). now rewrite orb_true_r.
Qed.

Lemma good_cut_boundary : forall bytes k,
  valid_utf8 bytes = true -> good_cut bytes k -> utf8_boundary bytes k = true.
Proof. intros bytes k Hv (p & r & -> & <- & Hg). now apply good_split_boundary. Qed.

(** inside and at both ends of an ASCII run that starts at a good cut every offset is a good cut *)
Lemma good_cut_run : forall a m z i,
  good_cut (a ++ m ++ z) (length a) -> all_ascii m -> (i <= length m)%nat ->
  good_cut (a ++ m ++ z) (length a + i).
Proof.
  intros a m z i H0 Hm Hi. destruct i as [|i]; [now rewrite Nat.add_0_r|].
  (* m = m1 ++ [b] ++ m2 with length m1 = i *)
  assert (Hsplit : exists m1 b m2, m = m1 ++ b :: m2 /\ length m1 = i).
  { destruct (nth_error m i) as [b|] eqn:Hn.
    - destruct (nth_error_split _ _ Hn) as (m1 & m2 & -> & Hl). now exists m1, b, m2.
    - apply nth_error_None in Hn. lia. }
  destruct Hsplit as (m1 & b & m2 & -> & Hl).
  assert (Hb : b < 128).
  { unfold all_ascii in Hm. rewrite Forall_forall in Hm. apply Hm. apply in_or_app. right. now left. }
  exists ((a ++ m1) ++ [b]), (m2 ++ z). repeat split.
  - rewrite <- !app_assoc. reflexivity.
  - rewrite !app_length. cbn [length]. lia.
  - now apply GS_after.
Qed.

Lemma good_cut_after : forall a b z, b < 128 -> good_cut (a ++ b :: z) (S (length a)).
Proof.
  intros a b z Hb. exists (a ++ [b]), z. repeat split.
  - now rewrite <- app_assoc.
  - rewrite app_length. cbn [length]. lia.
  - now apply GS_after.
Qed.

Lemma good_cut_before : forall a b z, b < 128 -> good_cut (a ++ b :: z) (length a).
Proof. intros a b z Hb. exists a, (b :: z). repeat split. now apply GS_before. Qed.

Lemma good_cut_end : forall bytes, good_cut bytes (length bytes).
Proof. intro bytes. exists bytes, []. repeat split; [now rewrite app_nil_r | apply GS_end]. Qed.

Lemma skipn_app_len : forall (a b : list N), skipn (length a) (a ++ b) = b.
Proof. induction a as [|x a IH]; intro b; cbn [length skipn app]; [reflexivity | apply IH]. Qed.

Lemma ascii_cuts_good : forall a z k,
  good_cut (a ++ z) (length a) -> In k (ascii_cuts (a ++ z) (length a)) -> good_cut (a ++ z) k.
Proof.
  intros a z k H0 Hk. unfold ascii_cuts, take_while in Hk. rewrite skipn_app_len in Hk.
  destruct (LexIdent.span is_ascii z) as [m z'] eqn:Hs. cbn [fst] in Hk.
  destruct (span_spec _ _ _ _ Hs) as (-> & Hm & _).
  apply in_seq in Hk. replace k with (length a + (k - length a))%nat by lia.
  apply good_cut_run; [exact H0 | | lia].
  eapply Forall_impl; [|exact Hm]. intros c Hc. unfold is_ascii in Hc. now apply N.ltb_lt in Hc.
Qed.

Lemma all_sp_ascii : forall sp, Forall (fun c => c = c_SP) sp -> all_ascii sp.
Proof. intros sp H. eapply Forall_impl; [|exact H]. intros c ->. reflexivity. Qed.

(** the end of a token is a good cut *)
Lemma tok_end_good : forall t a consumed rest,
  consumed <> [] -> tok_shape t consumed rest -> good_cut (a ++ consumed ++ rest) (length a + length consumed).
Proof.
  intros t a consumed rest Hne Hsh.
  assert (Hascii : all_ascii consumed -> good_cut (a ++ consumed ++ rest) (length a + length consumed)).
  { intro Ha. destruct (exists_last Hne) as (c' & b & ->).
    assert (Hb : b < 128).
    { unfold all_ascii in Ha. rewrite Forall_forall in Ha. apply Ha. apply in_or_app. right. now left. }
    exists (a ++ c' ++ [b]), rest. repeat split.
    - now rewrite <- !app_assoc.
    - now rewrite !app_length.
    - rewrite app_assoc. now apply GS_after. }
  destruct t; try (exact (Hascii Hsh)).
  - (* string *)
    destruct Hsh as (inner & ->).
    exists (a ++ 34 :: inner ++ [34]), rest. repeat split.
    + now rewrite <- !app_assoc.
    + now rewrite !app_length.
    + replace (a ++ 34 :: inner ++ [34]) with ((a ++ 34 :: inner) ++ [34])
        by (rewrite <- app_assoc; reflexivity).
      apply GS_after. reflexivity.
  - (* comment *)
    destruct Hsh as (content & -> & Hr).
    exists (a ++ c_HASH :: content), rest. repeat split.
    + now rewrite <- !app_assoc.
    + now rewrite !app_length.
    + destruct rest as [|c rest]; [apply GS_end|]. subst c. apply GS_before. reflexivity.
Qed.

(** the cuts of one token *)
Lemma token_cuts_good : forall t a consumed rest k,
  good_cut (a ++ consumed ++ rest) (length a) ->
  consumed <> [] -> tok_shape t consumed rest ->
  In k (token_cuts t (length a) (length a + length consumed)) ->
  good_cut (a ++ consumed ++ rest) k.
Proof.
  intros t a consumed rest k H0 Hne Hsh Hk.
  pose proof (tok_end_good t a consumed rest Hne Hsh) as Hend.
  assert (Hascii : all_ascii consumed ->
                   In k (seq (length a) (S (length a + length consumed - length a))) ->
                   good_cut (a ++ consumed ++ rest) k).
  { intros Ha Hin. apply in_seq in Hin. replace k with (length a + (k - length a))%nat by lia.
    apply good_cut_run; [exact H0 | exact Ha | lia]. }
  destruct t; try (exact (Hascii Hsh Hk)).
  - (* string: s, s+1, e-1, e *)
    destruct Hsh as (inner & ->). cbn [token_cuts In] in Hk.
    destruct Hk as [<-|[<-|[<-|[<-|[]]]]]; [exact H0 | | | exact Hend].
    + cbn [app]. apply good_cut_after. reflexivity.
    + assert (E : Nat.sub (Nat.add (length a) (length (34 :: inner ++ [34]))) 1%nat =
                  length (a ++ 34 :: inner)).
      { cbn [length]. rewrite !app_length. cbn [length]. lia. }
      rewrite E.
      replace (a ++ (34 :: inner ++ [34]) ++ rest) with ((a ++ 34 :: inner) ++ 34 :: rest) by list_eq.
      apply good_cut_before. reflexivity.
  - (* comment: s, s+1, e *)
    destruct Hsh as (content & -> & Hr). cbn [token_cuts In] in Hk.
    destruct Hk as [<-|[<-|[<-|[]]]]; [exact H0 | | exact Hend].
    cbn [app]. apply good_cut_after. reflexivity.
Qed.

(** ** The loop invariant *)
Lemma lex_loop_cuts : forall fuel bytes pre inp sps st r,
  bytes = pre ++ inp -> good_cut bytes (length pre) ->
  lex_loop fuel (length bytes) inp = (sps, st, r) ->
  (forall sp k, In sp sps -> In k (span_cuts bytes sp) -> good_cut bytes k) /\
  (exists pre', bytes = pre' ++ r /\ good_cut bytes (length pre')).
Proof.
  induction fuel as [|f IH]; intros bytes pre inp sps st r Hb H0 H; cbn [lex_loop] in H.
  { injection H as <- _ <-. split; [intros sp k []|]. now exists pre. }
  destruct (lex_item inp) as [[t at_] rest| |] eqn:Hi.
  2,3: injection H as <- _ <-; (split; [intros sp k []|]; now exists pre).
  destruct (Nat.eqb (length rest) (length inp)).
  { injection H as <- _ <-. split; [intros sp k []|]. now exists pre. }
  destruct (lex_loop f (length bytes) rest) as [[sps' st'] r'] eqn:Hl. injection H as <- <- <-.
  destruct (lex_item_spec _ _ _ _ Hi) as (sp & consumed & -> & -> & Hsp & Hne & Hsh).
  (* offsets *)
  assert (Eg : (length bytes - length (sp ++ consumed ++ rest) = length pre)%nat).
  { subst bytes. rewrite !app_length. lia. }
  assert (Es : (length bytes - length (consumed ++ rest) = length (pre ++ sp))%nat).
  { subst bytes. rewrite !app_length. lia. }
  assert (Ee : (length bytes - length rest = length (pre ++ sp) + length consumed)%nat).
  { subst bytes. rewrite !app_length. lia. }
  assert (Hb2 : bytes = (pre ++ sp) ++ consumed ++ rest) by (subst bytes; now rewrite <- app_assoc).
  (* the token start is a good cut *)
  assert (Hstart : good_cut bytes (length (pre ++ sp))).
  { rewrite app_length. rewrite Hb. rewrite Hb in H0.
    apply good_cut_run; [exact H0 | exact (all_sp_ascii _ Hsp) | lia]. }
  assert (Hend : good_cut bytes (length ((pre ++ sp) ++ consumed))).
  { rewrite app_length. rewrite Hb2. exact (tok_end_good t _ _ _ Hne Hsh). }
  assert (Hb3 : bytes = ((pre ++ sp) ++ consumed) ++ rest) by (rewrite Hb2; list_eq).
  destruct (IH bytes _ rest sps' st' r' Hb3 Hend Hl) as [IH1 IH2].
  split; [|exact IH2].
  intros s k [<-|Hin] Hk; [|exact (IH1 s k Hin Hk)].
  unfold span_cuts in Hk. rewrite Eg, Es, Ee in Hk.
  apply in_app_or in Hk as [Hk|Hk]; [|apply in_app_or in Hk as [Hk|Hk]].
  - (* the skipped spaces *)
    apply in_seq in Hk. rewrite app_length in Hk.
    replace k with (length pre + (k - length pre))%nat by lia.
    rewrite Hb. rewrite Hb in H0.
    apply good_cut_run; [exact H0 | exact (all_sp_ascii _ Hsp) | lia].
  - (* the ASCII run at the token start *)
    rewrite Hb2 in Hk, Hstart |- *. exact (ascii_cuts_good _ _ _ Hstart Hk).
  - rewrite Hb2 in Hstart |- *. exact (token_cuts_good t _ _ _ _ Hstart Hne Hsh Hk).
Qed.

(** every offset at which the lexer slices the text is a good cut, for ALL byte lists *)
Theorem lex_cuts_good : forall bytes k, In k (lex_cuts bytes) -> good_cut bytes k.
Proof.
  intros bytes k Hk. unfold lex_cuts in Hk.
  destruct (lex_spans bytes) as [[sps st] r] eqn:Hs. unfold lex_spans in Hs.
  assert (H0 : good_cut bytes (length (@nil N))).
  { exists [], bytes. repeat split. apply GS_start. }
  destruct (lex_loop_cuts _ bytes [] bytes sps st r eq_refl H0 Hs) as [H1 (pre' & Hb & Hg)].
  apply in_app_or in Hk as [Hk|Hk].
  - apply in_flat_map in Hk as (sp & Hin & Hk). exact (H1 sp k Hin Hk).
  - assert (El : (length bytes - length r = length pre')%nat).
    { rewrite Hb at 1. rewrite app_length. lia. }
    rewrite El in Hk. rewrite Hb in Hk, Hg |- *. exact (ascii_cuts_good _ _ _ Hg Hk).
Qed.

(** ... hence, on well-formed UTF-8, a character boundary: the byte-offset slicing of the [&str]
    cannot panic *)
Theorem lex_no_slice_mid_char : forall bytes,
  valid_utf8 bytes = true -> forall k, In k (lex_cuts bytes) -> utf8_boundary bytes k = true.
Proof. intros bytes Hv k Hk. exact (good_cut_boundary _ _ Hv (lex_cuts_good _ _ Hk)). Qed.

(** ** Spans are ordered and tile the lexed part of the input: item start <= token start <
    token end = next item start *)
Fixpoint chained (from : nat) (sps : list lspan) (upto : nat) : Prop :=
  match sps with
  | [] => from = upto
  | (_, g, s, e) :: rest => g = from /\ (g <= s)%nat /\ (s < e)%nat /\ chained e rest upto
  end.

Lemma lex_loop_chained : forall fuel bytes pre inp sps st r,
  bytes = pre ++ inp -> lex_loop fuel (length bytes) inp = (sps, st, r) ->
  chained (length pre) sps (length bytes - length r) /\ (length r <= length inp)%nat.
Proof.
  induction fuel as [|f IH]; intros bytes pre inp sps st r Hb H; cbn [lex_loop] in H.
  { injection H as <- _ <-. cbn [chained]. subst bytes. rewrite app_length. lia. }
  destruct (lex_item inp) as [[t at_] rest| |] eqn:Hi.
  2,3: injection H as <- _ <-; cbn [chained]; subst bytes; rewrite app_length; lia.
  destruct (Nat.eqb (length rest) (length inp)).
  { injection H as <- _ <-. cbn [chained]. subst bytes. rewrite app_length. lia. }
  destruct (lex_loop f (length bytes) rest) as [[sps' st'] r'] eqn:Hl. injection H as <- <- <-.
  destruct (lex_item_spec _ _ _ _ Hi) as (sp & consumed & -> & -> & Hsp & Hne & Hsh).
  assert (Hb3 : bytes = (pre ++ sp ++ consumed) ++ rest) by (subst bytes; now rewrite <- !app_assoc).
  destruct (IH bytes _ rest sps' st' r' Hb3 Hl) as [IH1 IH2].
  assert (Hc : (0 < length consumed)%nat) by (destruct consumed; [contradiction | cbn [length]; lia]).
  split.
  - cbn [chained]. rewrite !app_length in IH1. subst bytes. rewrite !app_length.
    repeat split; try lia.
    replace (length pre + (length sp + (length consumed + length rest)) - length rest)%nat
      with (length pre + (length sp + length consumed))%nat by lia.
    rewrite !app_length in IH1. exact IH1.
  - rewrite !app_length. lia.
Qed.

Theorem lex_spans_chained : forall bytes sps st r,
  lex_spans bytes = (sps, st, r) -> chained 0 sps (length bytes - length r).
Proof.
  intros bytes sps st r H. unfold lex_spans in H.
  exact (proj1 (lex_loop_chained _ bytes [] bytes sps st r eq_refl H)).
Qed.

(** * The case verdict *)

(** a token of the model matches an observed token when they are equal, or -- floats -- when the
    observed binary64 passes the nearest-value checker of C05 against the model's exact decimal *)
Lemma tok_match_sound : forall m o,
  tok_match m o = true ->
  m = o \/ exists dm de bits, m = LtFloat (FDec dm de) /\ o = LtFloat (FBits bits) /\
                              LexNum.chk_nearest dm de bits = true.
Proof.
  intros m o H.
  destruct m, o; cbn [tok_match] in H; try discriminate;
    try (left; f_equal; now apply LexIdentProofs.bytes_eqb_eq);
    try (left; f_equal; now apply N.eqb_eq);
    try (now left).
  destruct f as [dm de|b1], f0 as [dm' de'|b2]; cbn [fval_match] in H; try discriminate.
  - apply andb_true_iff in H as [H1 H2]. apply N.eqb_eq in H1. apply Z.eqb_eq in H2. subst. now left.
  - right. now exists dm, de, b2.
  - apply N.eqb_eq in H. subst. now left.
Qed.

(** a lexer case with code 0: the implementation did not panic, the shipped bytes are well-formed
    UTF-8, the model rejects when the implementation rejected and otherwise produces a matching
    token list, and every slicing offset of the model is a character boundary of the text *)
Theorem lex_code_sound : forall bytes o,
  lex_code bytes o = 0 ->
  o <> LxPanic /\ valid_utf8 bytes = true /\
  (o = LxErr -> exists e, lex bytes = LexErr e) /\
  (forall ts, o = LxToks ts -> exists ms, lex bytes = LexOk ms /\ toks_match ms ts = true) /\
  (forall k, In k (lex_cuts bytes) -> utf8_boundary bytes k = true).
Proof.
  intros bytes o H. unfold lex_code in H.
  destruct (chk_lex_outcome o) eqn:Hc; cbn [negb] in H; [|discriminate].
  destruct (valid_utf8 bytes) eqn:Hv; cbn [negb] in H; [|discriminate].
  split; [intros ->; discriminate|]. split; [reflexivity|].
  split; [|split].
  - intros ->. destruct (lex bytes) as [ms|e]; [discriminate | now exists e].
  - intros ts ->. destruct (lex bytes) as [ms|e]; [|discriminate].
    exists ms. split; [reflexivity|]. destruct (toks_match ms ts); [reflexivity | discriminate].
  - exact (lex_no_slice_mid_char bytes Hv).
Qed.
