(** Proofs about the type-checker model (C30). *)
From Coq Require Import List NArith Bool Permutation Lia.
From QV Require Import Model.TypeCheck.
Import ListNotations.
Open Scope N_scope.

(** * Per-instruction characterisation *)

Lemma and_then_ok : forall a b, and_then a b = Ok <-> a = Ok /\ b = Ok.
Proof.
  intros a b; destruct a as [|e]; cbn [and_then]; split.
  - intros H; split; [reflexivity | exact H].
  - intros [_ H]; exact H.
  - intros H; discriminate H.
  - intros [H _]; discriminate H.
Qed.

Lemma type_check_first_err : forall D is, type_check D is = first_err (map (check1 D) is).
Proof.
  intros D is; induction is as [|i is IH]; cbn [type_check first_err map]; [reflexivity|].
  rewrite IH; reflexivity.
Qed.

Theorem type_check_ok_iff : forall D is,
  type_check D is = Ok <-> Forall (fun i => check1 D i = Ok) is.
Proof.
  intros D is; induction is as [|i is IH]; cbn [type_check].
  - split; [intros _; constructor | reflexivity].
  - rewrite and_then_ok, IH. split.
    + intros [H1 H2]; constructor; assumption.
    + intros H; inversion H; subst; split; assumption.
Qed.

(** The reported error is that of the first failing instruction. *)
Theorem type_check_err_iff : forall D is e,
  type_check D is = Err e <->
  exists pre i post, is = pre ++ i :: post
                     /\ Forall (fun j => check1 D j = Ok) pre /\ check1 D i = Err e.
Proof.
  intros D is e; induction is as [|i is IH]; cbn [type_check].
  - split; [intros H; discriminate H|].
    intros (pre & i & post & Heq & _); destruct pre; discriminate Heq.
  - destruct (check1 D i) as [|e1] eqn:Hi; cbn [and_then].
    + rewrite IH; split.
      * intros (pre & j & post & Heq & Hpre & Hj); exists (i :: pre), j, post; subst is.
        repeat split; [constructor; assumption | assumption].
      * intros (pre & j & post & Heq & Hpre & Hj). destruct pre as [|p pre].
        -- cbn in Heq; injection Heq as -> ->. rewrite Hi in Hj; discriminate Hj.
        -- cbn in Heq; injection Heq as -> ->. exists pre, j, post.
           inversion Hpre; subst. repeat split; assumption.
    + split.
      * intros H; injection H as ->. exists [], i, is. repeat split; [constructor | assumption].
      * intros (pre & j & post & Heq & Hpre & Hj). destruct pre as [|p pre].
        -- cbn in Heq; injection Heq as -> ->. rewrite Hi in Hj; exact Hj.
        -- cbn in Heq; injection Heq as -> ->. inversion Hpre as [|? ? Hp ?]; subst.
           rewrite Hi in Hp; discriminate Hp.
Qed.

(** * Reordering and duplication: only the set of instructions matters *)

Theorem type_check_same_set : forall D is is',
  (forall i, In i is <-> In i is') ->
  (type_check D is = Ok <-> type_check D is' = Ok).
Proof.
  intros D is is' Hset; rewrite !type_check_ok_iff, !Forall_forall.
  split; intros H i Hi; apply H, Hset, Hi.
Qed.

Theorem type_check_perm : forall D is is',
  Permutation is is' -> (type_check D is = Ok <-> type_check D is' = Ok).
Proof.
  intros D is is' HP; apply type_check_same_set; intros i; split; intros Hi.
  - eapply Permutation_in; eassumption.
  - eapply Permutation_in; [apply Permutation_sym|]; eassumption.
Qed.

Theorem type_check_dup : forall D is,
  type_check D (is ++ is) = type_check D is.
Proof.
  intros D is. destruct (type_check D is) as [|e] eqn:H.
  - apply type_check_ok_iff, Forall_app; apply type_check_ok_iff in H; split; exact H.
  - apply type_check_err_iff in H; destruct H as (pre & i & post & Heq & Hpre & Hi).
    apply type_check_err_iff; exists pre, i, (post ++ is); subst is.
    rewrite <- app_assoc; repeat split; assumption.
Qed.

Theorem type_check_dup_anywhere : forall D pre i post,
  In i pre ->
  type_check D (pre ++ i :: post) = Ok <-> type_check D (pre ++ post) = Ok.
Proof.
  intros D pre i post Hin; apply type_check_same_set; intros j.
  rewrite !in_app_iff; cbn [In]; split.
  - intros [H | [H | H]]; [left | left; subst | right]; assumption.
  - intros [H | H]; [left | right; right]; assumption.
Qed.

(** * Renaming *)

Section Renaming.
  Variable f : name -> name.
  Hypothesis f_inj : forall a b, f a = f b -> a = b.

  Lemma lookup_ren : forall D n, lookup (ren_decls f D) (f n) = lookup D n.
  Proof.
    intros D n; induction D as [|[m v] D IH]; cbn [ren_decls map lookup fst snd]; [reflexivity|].
    destruct (N.eqb m n) eqn:Hmn.
    - apply N.eqb_eq in Hmn; subst m; rewrite N.eqb_refl; reflexivity.
    - destruct (N.eqb (f m) (f n)) eqn:Hf.
      + apply N.eqb_eq, f_inj in Hf; subst m; rewrite N.eqb_refl in Hmn; discriminate Hmn.
      + exact IH.
  Qed.

  Lemma ty_of_ren : forall D n, ty_of (ren_decls f D) (f n) = ty_of D n.
  Proof. intros D n; unfold ty_of; rewrite lookup_ren; reflexivity. Qed.

  Lemma and_then_ren : forall a b,
    ren_verdict f (and_then a b) = and_then (ren_verdict f a) (ren_verdict f b).
  Proof. intros [|e] b; reflexivity. Qed.

  Lemma should_be_real_ren : forall D e,
    should_be_real (ren_decls f D) (ren_expr f e) = ren_verdict f (should_be_real D e).
  Proof.
    intros D e; induction e as [c| |v|n i|g e IH|p e IH|o l IHl r IHr];
      cbn [ren_expr should_be_real]; try reflexivity.
    - destruct (im_rejected c); reflexivity.
    - rewrite ty_of_ren; destruct (ty_of D n) as [[]|]; reflexivity.
    - exact IH.
    - exact IH.
    - rewrite IHl, IHr, and_then_ren; reflexivity.
  Qed.

  Lemma check1_ren : forall D i,
    check1 (ren_decls f D) (ren_instr f i) = ren_verdict f (check1 D i).
  Proof.
    intros D i; destruct i as [k e|o [dn di] s|o [dn di] [ln li] r|o [dn di] s|o [rn ri]
                              |[dn di] s|[ln li] [rn ri]|[dn di] s [on oi]|d [on oi] s|k ns];
      cbn [ren_instr check1].
    - apply should_be_real_ren.
    - unfold check_arith; cbn [ren_mref fst snd]; rewrite ty_of_ren.
      destruct (ty_of D dn) as [dt|]; [|reflexivity].
      destruct s as [| |[sn si]]; cbn [ren_operand ren_mref fst snd].
      + destruct dt; reflexivity.
      + destruct dt; reflexivity.
      + rewrite ty_of_ren. destruct dt; try reflexivity;
          destruct (ty_of D sn) as [[]|]; reflexivity.
    - unfold check_cmp; cbn [ren_mref fst snd]; rewrite !ty_of_ren.
      destruct (ty_of D dn) as [dt|]; [|reflexivity].
      destruct (ty_of D ln) as [lt|]; [|destruct dt; reflexivity].
      destruct dt; try reflexivity.
      destruct r as [| |[rn ri]]; cbn [ren_operand ren_mref fst snd].
      + destruct lt; reflexivity.
      + destruct lt; reflexivity.
      + rewrite ty_of_ren. destruct (ty_of D rn) as [rt|]; destruct lt; try reflexivity;
          destruct rt; reflexivity.
    - unfold check_bin, check_bin_ref; cbn [ren_mref fst snd]; rewrite ty_of_ren.
      destruct s as [|[sn si]]; cbn [ren_boperand ren_mref fst snd]; rewrite ?ty_of_ren;
        destruct (ty_of D dn) as [[]|]; try reflexivity;
        destruct (ty_of D sn) as [[]|]; reflexivity.
    - unfold check_un; cbn [ren_mref fst snd]; rewrite ty_of_ren.
      destruct (ty_of D rn) as [[]|]; destruct o; reflexivity.
    - unfold check_move; cbn [ren_mref fst snd]; rewrite ty_of_ren.
      destruct (ty_of D dn) as [dt|]; [|reflexivity].
      destruct s as [| |[sn si]]; cbn [ren_operand ren_mref fst snd].
      + destruct dt; reflexivity.
      + destruct dt; reflexivity.
      + rewrite ty_of_ren. destruct (ty_of D sn) as [st|]; [|reflexivity].
        destruct st, dt; reflexivity.
    - unfold check_exchange; cbn [ren_mref fst snd]; rewrite !ty_of_ren.
      destruct (ty_of D ln) as [lt|]; [|reflexivity].
      destruct (ty_of D rn) as [rt|]; [|reflexivity].
      destruct lt, rt; reflexivity.
    - unfold check_load; cbn [ren_mref fst snd]; rewrite !ty_of_ren.
      destruct (ty_of D dn) as [dt|]; [|reflexivity].
      destruct (ty_of D s) as [st|]; [|reflexivity].
      destruct (ty_of D on) as [ot|]; [|reflexivity].
      destruct ot; try reflexivity; destruct dt, st; reflexivity.
    - unfold check_store; cbn [ren_mref fst snd]; rewrite !ty_of_ren.
      destruct (ty_of D d) as [dt|]; [|reflexivity].
      destruct (ty_of D on) as [ot|]; [|reflexivity].
      destruct ot; try reflexivity.
      destruct s as [| |[sn si]]; cbn [ren_operand ren_mref fst snd].
      + destruct dt; reflexivity.
      + destruct dt; reflexivity.
      + rewrite ty_of_ren. destruct (ty_of D sn) as [st|]; [|reflexivity].
        destruct st, dt; reflexivity.
    - reflexivity.
  Qed.

  Theorem type_check_ren : forall D is,
    type_check (ren_decls f D) (map (ren_instr f) is) = ren_verdict f (type_check D is).
  Proof.
    intros D is; induction is as [|i is IH]; cbn [map type_check]; [reflexivity|].
    rewrite check1_ren, IH, and_then_ren; reflexivity.
  Qed.

  Corollary type_check_ren_ok : forall D is,
    type_check (ren_decls f D) (map (ren_instr f) is) = Ok <-> type_check D is = Ok.
  Proof.
    intros D is; rewrite type_check_ren; destruct (type_check D is); cbn [ren_verdict];
      split; intros H; try reflexivity; discriminate H.
  Qed.
End Renaming.

(** * Real-valued expressions, at any depth *)

(** [leaf l e]: [l] is a leaf (number, pi, variable, address) occurring in [e]. *)
Inductive leaf : expr -> expr -> Prop :=
| leaf_num : forall c, leaf (ENum c) (ENum c)
| leaf_pi : leaf EPi EPi
| leaf_var : forall v, leaf (EVar v) (EVar v)
| leaf_addr : forall n i, leaf (EAddr n i) (EAddr n i)
| leaf_call : forall l g e, leaf l e -> leaf l (ECall g e)
| leaf_prefix : forall l p e, leaf l e -> leaf l (EPrefix p e)
| leaf_infix_l : forall l o a b, leaf l a -> leaf l (EInfix o a b)
| leaf_infix_r : forall l o a b, leaf l b -> leaf l (EInfix o a b).

(** A leaf that counts as real: REAL-declared memory, pi, or a number passing [num_ok]. *)
Definition real_leaf (num_ok : imcls -> bool) (D : decls) (l : expr) : Prop :=
  match l with
  | ENum c => num_ok c = true
  | EPi => True
  | EAddr n _ => ty_of D n = Some TReal
  | _ => False
  end.

Lemma real_leaves_spec : forall num_ok D e,
  real_leaves num_ok D e = true <-> (forall l, leaf l e -> real_leaf num_ok D l).
Proof.
  intros num_ok D e; induction e as [c| |v|n i|g e IH|p e IH|o a IHa b IHb]; cbn [real_leaves].
  - split; [intros H l Hl; inversion Hl; subst; exact H | intros H; exact (H _ (leaf_num c))].
  - split; [intros _ l Hl; inversion Hl; subst; exact I | reflexivity].
  - split; [intros H; discriminate H | intros H; destruct (H _ (leaf_var v))].
  - split.
    + intros H l Hl; inversion Hl; subst; cbn [real_leaf].
      destruct (ty_of D n) as [[]|]; try discriminate H; reflexivity.
    + intros H; specialize (H _ (leaf_addr n i)); cbn [real_leaf] in H; rewrite H; reflexivity.
  - rewrite IH; split; intros H l Hl.
    + inversion Hl; subst; apply H; assumption.
    + apply H; constructor; assumption.
  - rewrite IH; split; intros H l Hl.
    + inversion Hl; subst; apply H; assumption.
    + apply H; constructor; assumption.
  - rewrite andb_true_iff, IHa, IHb; split.
    + intros [Ha Hb] l Hl; inversion Hl; subst; [apply Ha | apply Hb]; assumption.
    + intros H; split; intros l Hl; apply H; [apply leaf_infix_l | apply leaf_infix_r]; assumption.
Qed.

Lemma should_be_real_ok_b : forall D e,
  should_be_real D e = Ok <-> real_leaves num_accepted D e = true.
Proof.
  intros D e; induction e as [c| |v|n i|g e IH|p e IH|o a IHa b IHb];
    cbn [should_be_real real_leaves].
  - unfold num_accepted; destruct (im_rejected c); cbn [negb]; split; intros H;
      try reflexivity; discriminate H.
  - split; reflexivity.
  - split; intros H; discriminate H.
  - destruct (ty_of D n) as [[]|]; split; intros H; try reflexivity; discriminate H.
  - exact IH.
  - exact IH.
  - rewrite and_then_ok, andb_true_iff, IHa, IHb; reflexivity.
Qed.

Theorem should_be_real_ok_iff : forall D e,
  should_be_real D e = Ok <-> (forall l, leaf l e -> real_leaf num_accepted D l).
Proof. intros D e; rewrite should_be_real_ok_b; apply real_leaves_spec. Qed.

Lemma real_leaves_exact : forall D e,
  has_inexact_num e = false -> real_leaves num_accepted D e = real_leaves num_strict D e.
Proof.
  intros D e; induction e as [c| |v|n i|g e IH|p e IH|o a IHa b IHb];
    cbn [has_inexact_num real_leaves]; intros H; try reflexivity.
  - destruct c; try discriminate H; reflexivity.
  - apply IH, H.
  - apply IH, H.
  - apply orb_false_iff in H; destruct H as [Ha Hb]; rewrite IHa, IHb by assumption; reflexivity.
Qed.

(** Strict reading ("real numbers": imaginary part exactly zero) holds away from numbers whose
    imaginary part is non-zero but within f64::EPSILON (or NaN). *)
Theorem should_be_real_strict : forall D e,
  has_inexact_num e = false ->
  (should_be_real D e = Ok <-> (forall l, leaf l e -> real_leaf num_strict D l)).
Proof.
  intros D e H; rewrite should_be_real_ok_b, (real_leaves_exact D e H); apply real_leaves_spec.
Qed.

Theorem should_be_real_strict_refuted :
  exists D e, should_be_real D e = Ok /\ ~ (forall l, leaf l e -> real_leaf num_strict D l).
Proof.
  exists [], (ENum ImTiny); split; [reflexivity|].
  intros H; specialize (H _ (leaf_num ImTiny)); discriminate H.
Qed.

(** * The instance checker *)

Lemma err_eqb_eq : forall a b, err_eqb a b = true <-> a = b.
Proof.
  intros [n| | |] [m| | |]; cbn [err_eqb]; split; intros H; try reflexivity; try discriminate H.
  - apply N.eqb_eq in H; subst; reflexivity.
  - injection H as ->; apply N.eqb_refl.
Qed.

Lemma verdict_eqb_eq : forall a b, verdict_eqb a b = true <-> a = b.
Proof.
  intros [|x] [|y]; cbn [verdict_eqb]; split; intros H; try reflexivity; try discriminate H.
  - apply err_eqb_eq in H; subst; reflexivity.
  - injection H as ->; apply err_eqb_eq; reflexivity.
Qed.

Lemma first_err_ok : forall vs, first_err vs = Ok <-> Forall (fun v => v = Ok) vs.
Proof.
  induction vs as [|v vs IH]; cbn [first_err].
  - split; [constructor | reflexivity].
  - rewrite and_then_ok, IH; split.
    + intros [H1 H2]; constructor; assumption.
    + intros H; inversion H as [|? ? Hv Hvs]; split; assumption.
Qed.

(** What an accepted observation guarantees about the implementation's own verdicts. *)
Definition SetRule (D : decls) (is : list instr) (singles : list verdict) : Prop :=
  Forall2 (fun i v => match i with
                      | ISet _ e => v = Ok <-> (forall l, leaf l e -> real_leaf num_strict D l)
                      | _ => True
                      end) is singles.

Lemma chk_real_sound : forall D is singles, chk_real D is singles = true -> SetRule D is singles.
Proof.
  intros D is; induction is as [|i is IH]; intros [|v vs]; cbn [chk_real]; intros H;
    try discriminate H; [constructor|].
  apply andb_true_iff in H; destruct H as [Hi Hrest]; constructor; [|apply IH, Hrest].
  destruct i; try exact I.
  apply eqb_prop in Hi. rewrite <- real_leaves_spec, <- Hi.
  destruct v; cbn [is_ok]; split; intros H; try reflexivity; discriminate H.
Qed.

Theorem chk_obs_sound : forall D is whole singles perm permv dupv rn renv,
  chk_obs D is (whole, singles, (perm, permv), dupv, (rn, renv)) = 0 ->
  (whole = Ok <-> Forall (fun v => v = Ok) singles)
  /\ whole = first_err singles
  /\ (permv = Ok <-> whole = Ok)
  /\ dupv = whole
  /\ renv = ren_verdict (apply_ren rn) whole
  /\ SetRule D is singles.
Proof.
  intros D is whole singles perm permv dupv rn renv; unfold chk_obs.
  destruct (chk_per_instr whole singles) eqn:H1; cbn [negb]; [|intros H; discriminate H].
  destruct (chk_perm whole singles perm permv) eqn:H2; cbn [negb]; [|intros H; discriminate H].
  destruct (chk_dup whole dupv) eqn:H3; cbn [negb]; [|intros H; discriminate H].
  destruct (chk_ren whole rn renv) eqn:H4; cbn [negb]; [|intros H; discriminate H].
  destruct (chk_real D is singles) eqn:H5; cbn [negb]; [|intros H; discriminate H].
  intros _. apply verdict_eqb_eq in H1, H3, H4.
  unfold chk_perm in H2; apply andb_true_iff in H2; destruct H2 as [H2 _]; apply eqb_prop in H2.
  repeat split.
  - intros ->; apply first_err_ok; symmetry; exact H1.
  - intros H; rewrite H1; apply first_err_ok, H.
  - exact H1.
  - intros ->; destruct whole; [reflexivity | discriminate H2].
  - intros ->; destruct permv; [reflexivity | discriminate H2].
  - symmetry; exact H3.
  - exact H4.
  - apply chk_real_sound, H5.
Qed.

(** The case evaluator reports a case iff a clause fails or the model disagrees. *)
Theorem case_code_zero : forall D is o,
  case_code (D, is, o) = 0 <-> chk_obs D is o = 0 /\ model_agrees D is o = true.
Proof.
  intros D is o; unfold case_code.
  destruct (chk_obs D is o) as [|p] eqn:Hc.
  - destruct (model_agrees D is o); split; intros H; try discriminate H.
    + split; reflexivity.
    + reflexivity.
    + destruct H as [_ H]; discriminate H.
  - split; [intros H; discriminate H | intros [H _]; discriminate H].
Qed.
