(** Reachability half of C22: in a successfully built, well-formed block where every RF-control
    instruction touches at least one frame, every instruction node is reachable from the block
    start and reaches the block end. *)
From Coq Require Import List NArith Bool Relations Lia.
From QV Require Import Model.DepQueue Proofs.DepQueueProofs Model.Graph Proofs.GraphProofs.
Import ListNotations.
Local Open Scope N_scope.

Lemma seq_from_nth g : forall is node term k i x,
  nth_error is k = Some i -> In x (g (node + N.of_nat k) i) -> In x (seq_from g node is term).
Proof.
  induction is as [|j t IH]; intros node term k i x Hn Hx; [destruct k; discriminate|].
  cbn [seq_from]. apply in_or_app. destruct k as [|k]; cbn [nth_error] in Hn.
  - inversion Hn; subst. left. rewrite N.add_0_r in Hx. exact Hx.
  - right. apply (IH _ _ k i); [exact Hn|]. rewrite Nat2N.inj_succ in Hx.
    replace (N.succ node + N.of_nat k) with (node + N.succ (N.of_nat k)) by lia. exact Hx.
Qed.

Lemma seq_from_term g : forall is node term i x,
  term = Some i -> In x (g (node + N.of_nat (length is)) i) -> In x (seq_from g node is term).
Proof.
  induction is as [|j t IH]; intros node term i x -> Hx; cbn [seq_from].
  - cbn [length] in Hx. rewrite N.add_0_r in Hx. exact Hx.
  - apply in_or_app. right. apply (IH _ _ i); [reflexivity|]. cbn [length] in Hx.
    rewrite Nat2N.inj_succ in Hx.
    replace (N.succ node + N.of_nat (length t)) with (node + N.succ (N.of_nat (length t))) by lia. exact Hx.
Qed.

Lemma rep_self f keys node a : In f keys -> In (node, a) (rep f keys node a).
Proof.
  unfold rep. intros Hin. apply in_map_iff. exists f. split; [reflexivity|].
  apply filter_In. split; [exact Hin|apply N.eqb_refl].
Qed.

Lemma edges_sub_uedges : forall l q e, In e (edges_from q l) -> In e (uedges_from q l).
Proof.
  induction l as [|[n a] t IH]; intros q e Hin; [contradiction|].
  rewrite edges_from_eq in Hin. cbn [uedges_from]. apply in_app_or in Hin. apply in_or_app.
  destruct Hin as [Hin|Hin]; [left|right; auto].
  unfold step_edges in Hin. unfold dedges. apply in_map_iff in Hin. destruct Hin as [x [Heq Hx]].
  apply filter_In in Hx. apply in_map_iff. exists x. tauto.
Qed.

Lemma clos_trans_sub {A} (R R' : A -> A -> Prop) x y :
  (forall a b, R a b -> R' a b) -> clos_trans A R x y -> clos_trans A R' x y.
Proof.
  intros Hsub Hc. induction Hc as [a b Hab|a b c _ IH1 _ IH2]; [apply t_step; auto|eapply t_trans; eauto].
Qed.

Lemma ct_rt {A} (R : A -> A -> Prop) x y : clos_trans A R x y -> clos_refl_trans A R x y.
Proof. induction 1; [apply rt_step; assumption|eapply rt_trans; eauto]. Qed.

(** kinds of the edges of the erased graph *)
Definition krel (k : kind) (E : list gedge) (a b : N) : Prop := In (a, b, k) E.

Lemma krel_gerel k E a b : krel k E a b -> gerel E a b.
Proof. intros H. exists k. exact H. Qed.

(** ** The frame queues connect every toucher of a frame to the start and to the end *)

Section FramePaths.
  Variables (is : list info) (term : option info) (s : st) (es : list ledge).
  Let L := es ++ final s (end_node is) ++ match is with [] => [(0, end_node is, LEmpty)] | _ => [] end.

  (** generic over the two maps *)
  Variables (Lab : N -> acc -> label) (gacc : N -> N -> info -> list (N * acc)) (sel : st -> qmap).
  Variable pr : N -> list ledge -> list edge.
  Hypothesis pr_In : forall f es' m n k, In (m, n, k) (pr f es') <-> In (m, n, Lab f k) es'.
  Hypothesis Hproj : forall f,
    qm_get finit (sel s) f = qfinal (q_new finit) (seq_from (gacc f) 1 is term) /\
    pr f es = uedges_from (q_new finit) (seq_from (gacc f) 1 is term).
  Hypothesis Hkeys : forall f x, In x (seq_from (gacc f) 1 is term) -> In f (qkeys (sel s)).
  Hypothesis Hfinal : forall f q k a, In (f, q) (sel s) -> In (k, a) (pending q) ->
    In (a, end_node is, Lab f k) (final s (end_node is)).

  Lemma frame_edges_in_L f m n k :
    In (m, n, k) (edges finit (seq_from (gacc f) 1 is term)) -> In (m, n, Lab f k) L.
  Proof.
    intros Hin. unfold L. apply in_or_app. left. apply pr_In.
    destruct (Hproj f) as [_ ->]. apply edges_sub_uedges. exact Hin.
  Qed.

  Lemma frame_path_from_start f p a :
    In (p, a) (seq_from (gacc f) 1 is term) -> p <> 0 ->
    clos_trans N (fun x y => exists k, In (x, y, Lab f k) L) 0 p.
  Proof.
    intros Hin Hne.
    assert (Hc : clos_trans N (erel (edges finit (seq_from (gacc f) 1 is term))) 0 p).
    { apply (queue_conflicts_ordered finit _ 0 AW p a).
      - reflexivity.
      - unfold history. cbn [option_map opt_list finit fst snd app pairs].
        apply in_or_app. left. apply in_map_iff. exists (p, a). auto.
      - reflexivity.
      - auto. }
    eapply clos_trans_sub; [|exact Hc]. intros x y [k Hk]. exists k. now apply frame_edges_in_L.
  Qed.

  Lemma frame_path_between f m a n b :
    In ((m, a), (n, b)) (pairs (seq_from (gacc f) 1 is term)) -> conflict a b = true -> m <> n ->
    clos_trans N (fun x y => exists k, In (x, y, Lab f k) L) m n.
  Proof.
    intros Hin Hc Hne.
    assert (Hp : clos_trans N (erel (edges finit (seq_from (gacc f) 1 is term))) m n).
    { apply (queue_conflicts_ordered finit _ m a n b); [reflexivity| |exact Hc|exact Hne].
      unfold history. apply pairs_In_app. right. right. exact Hin. }
    eapply clos_trans_sub; [|exact Hp]. intros x y [k Hk]. exists k. now apply frame_edges_in_L.
  Qed.

  Lemma pending_record q e x : In x (snd (record q e AW)) -> In x (pending q).
  Proof.
    unfold record, pending. cbn [is_write snd]. intros Hin. apply in_app_or in Hin. apply in_or_app. tauto.
  Qed.

  Lemma frame_path_to_end f p a :
    In (p, a) (seq_from (gacc f) 1 is term) -> p <> end_node is ->
    clos_trans N (fun x y => exists k, In (x, y, Lab f k) L) p (end_node is).
  Proof.
    intros Hin Hne. set (l := seq_from (gacc f) 1 is term) in *. set (e := end_node is) in *.
    assert (Hc : clos_trans N (erel (edges finit (l ++ [(e, AW)]))) p e).
    { apply (queue_conflicts_ordered finit _ p a e AW).
      - reflexivity.
      - unfold history. apply pairs_In_app. right. right. apply pairs_In_app. right. left.
        split; [exact Hin|now left].
      - unfold conflict. cbn. apply orb_true_r.
      - exact Hne. }
    eapply clos_trans_sub; [|exact Hc]. intros x y [k Hk]. exists k.
    unfold edges in Hk. rewrite edges_from_app in Hk. apply in_app_or in Hk. destruct Hk as [Hk|Hk].
    - now apply frame_edges_in_L.
    - rewrite edges_from_eq in Hk. cbn [edges_from] in Hk. rewrite app_nil_r in Hk.
      apply step_edges_In in Hk. destruct Hk as [-> [Hxe Hd]]. apply pending_record in Hd.
      unfold L. apply in_or_app. right. apply in_or_app. left.
      destruct (qm_key_find _ _ (Hkeys f _ Hin)) as [q Hq].
      apply (Hfinal f q).
      + now apply qm_find_in.
      + destruct (Hproj f) as [Q _]. unfold qm_get in Q. rewrite Hq in Q. rewrite Q. exact Hd.
  Qed.
End FramePaths.

(** instantiation for the ordering map *)
Lemma stable_paths is term s es :
  run st0 1 is term = inr (s, es) ->
  let L := es ++ final s (end_node is) ++ match is with [] => [(0, end_node is, LEmpty)] | _ => [] end in
  forall f p a, In (p, a) (facc f is term) ->
    (p <> 0 -> clos_trans N (fun x y => exists k, In (x, y, LStable f k) L) 0 p) /\
    (p <> end_node is -> clos_trans N (fun x y => exists k, In (x, y, LStable f k) L) p (end_node is)).
Proof.
  intros Hrun L f p a Hin.
  destruct (run_proj _ _ _ _ _ _ Hrun) as [_ [PA _]].
  destruct (run_frames _ _ _ _ _ _ Hrun) as [_ [KA _]].
  assert (Hproj : forall f, qm_get finit (s_all s) f = qfinal (q_new finit) (seq_from (facc_i f) 1 is term) /\
                            pstable f es = uedges_from (q_new finit) (seq_from (facc_i f) 1 is term)).
  { intros f'. exact (PA f'). }
  assert (Hfinal : forall f q k a, In (f, q) (s_all s) -> In (k, a) (pending q) ->
                                   In (a, end_node is, LStable f k) (final s (end_node is))).
  { intros f' q k a' Hf Hp. apply final_In. split; [reflexivity|]. right. right. exists f', q, k. auto. }
  split; intros Hne.
  - exact (frame_path_from_start is term s es LStable facc_i s_all pstable pstable_In Hproj f p a Hin Hne).
  - exact (frame_path_to_end is term s es LStable facc_i s_all pstable pstable_In Hproj KA Hfinal f p a Hin Hne).
Qed.

(** instantiation for the timed map *)
Lemma sched_paths is term s es :
  run st0 1 is term = inr (s, es) ->
  let L := es ++ final s (end_node is) ++ match is with [] => [(0, end_node is, LEmpty)] | _ => [] end in
  forall f p a, In (p, a) (tacc f is term) ->
    (p <> 0 -> clos_trans N (fun x y => exists k, In (x, y, LSched f k) L) 0 p) /\
    (p <> end_node is -> clos_trans N (fun x y => exists k, In (x, y, LSched f k) L) p (end_node is)).
Proof.
  intros Hrun L f p a Hin.
  destruct (run_proj _ _ _ _ _ _ Hrun) as [_ [_ PT]].
  destruct (run_frames _ _ _ _ _ _ Hrun) as [_ [_ [KT _]]].
  assert (Hproj : forall f, qm_get finit (s_timed s) f = qfinal (q_new finit) (seq_from (tacc_i f) 1 is term) /\
                            psched f es = uedges_from (q_new finit) (seq_from (tacc_i f) 1 is term)).
  { intros f'. exact (PT f'). }
  assert (Hfinal : forall f q k a, In (f, q) (s_timed s) -> In (k, a) (pending q) ->
                                   In (a, end_node is, LSched f k) (final s (end_node is))).
  { intros f' q k a' Hf Hp. apply final_In. split; [reflexivity|]. right. left. exists f', q, k. auto. }
  split; intros Hne.
  - exact (frame_path_from_start is term s es LSched tacc_i s_timed psched psched_In Hproj f p a Hin Hne).
  - exact (frame_path_to_end is term s es LSched tacc_i s_timed psched psched_In Hproj KT Hfinal f p a Hin Hne).
Qed.

Lemma stable_between is term s es :
  run st0 1 is term = inr (s, es) ->
  let L := es ++ final s (end_node is) ++ match is with [] => [(0, end_node is, LEmpty)] | _ => [] end in
  forall f m a n b, In ((m, a), (n, b)) (pairs (facc f is term)) -> conflict a b = true -> m <> n ->
    clos_trans N (fun x y => exists k, In (x, y, LStable f k) L) m n.
Proof.
  intros Hrun L f m a n b Hin Hc Hne.
  destruct (run_proj _ _ _ _ _ _ Hrun) as [_ [PA _]].
  exact (frame_path_between is term s es LStable facc_i s_all pstable pstable_In (fun f' => PA f') f m a n b Hin Hc Hne).
Qed.

Lemma sched_between is term s es :
  run st0 1 is term = inr (s, es) ->
  let L := es ++ final s (end_node is) ++ match is with [] => [(0, end_node is, LEmpty)] | _ => [] end in
  forall f m a n b, In ((m, a), (n, b)) (pairs (tacc f is term)) -> conflict a b = true -> m <> n ->
    clos_trans N (fun x y => exists k, In (x, y, LSched f k) L) m n.
Proof.
  intros Hrun L f m a n b Hin Hc Hne.
  destruct (run_proj _ _ _ _ _ _ Hrun) as [_ [_ PT]].
  exact (frame_path_between is term s es LSched tacc_i s_timed psched psched_In (fun f' => PT f') f m a n b Hin Hc Hne).
Qed.

(** ** Classical instructions: leading / trailing rules *)

Lemma step_classical_in s node e i s' es :
  step s node e i = inr (s', es) -> i_role i = RClassical ->
  In node (s_trail s') /\ (In (0, node, LLead) es \/ exists m r a, In (m, node, LMem r a) es).
Proof.
  unfold step. destruct (i_memerr i); [discriminate|].
  destruct (mem_deps (s_mem s) node i) as [m' ds] eqn:Hmd.
  intros H Hr. rewrite Hr in H. inversion H; subst s' es. clear H. cbn [s_trail]. split.
  - unfold trail_insert.
    match goal with |- context [memN node ?l] => destruct (memN node l) eqn:Hm end.
    + now apply memN_In.
    + apply in_or_app. right. now left.
  - unfold mem_edges. destruct (filter (not_self node) ds) as [|kd t] eqn:Hf.
    + left. apply in_or_app. right. now left.
    + right. exists (dep_node kd), (fst kd), (dep_acc kd). apply in_or_app. left. now left.
Qed.

Lemma step_trail_keep s node e i s' es :
  step s node e i = inr (s', es) ->
  forall t, In t (s_trail s) -> In t (s_trail s') \/ exists r a, In (t, node, LMem r a) es.
Proof.
  unfold step. destruct (i_memerr i); [discriminate|].
  destruct (mem_deps (s_mem s) node i) as [m' ds] eqn:Hmd.
  assert (Hkeep : forall t, In t (s_trail s) ->
            In t (filter (fun t => negb (memN t (map dep_node (filter (not_self node) ds)))) (s_trail s)) \/
            exists r a, In (t, node, LMem r a) (mem_edges node ds)).
  { intros t Ht. destruct (memN t (map dep_node (filter (not_self node) ds))) eqn:Hm.
    - right. apply memN_In in Hm. apply in_map_iff in Hm. destruct Hm as [kd [<- Hkd]].
      exists (fst kd), (dep_acc kd). unfold mem_edges. apply in_map_iff. exists kd. auto.
    - left. apply filter_In. split; [exact Ht|]. rewrite Hm. reflexivity. }
  destruct (i_role i) eqn:Hrole.
  - intros H. inversion H; subst s' es. cbn [s_trail]. intros t Ht.
    destruct (Hkeep t Ht) as [Hk|[r [a Hk]]].
    + left. unfold trail_insert.
      match goal with |- context [memN node ?l] => destruct (memN node l) end; [exact Hk|].
      apply in_or_app. now left.
    + right. exists r, a. apply in_or_app. now left.
  - destruct (feed finit (s_all s) node AW (i_used i)) as [a1 dau] eqn:Ha1.
    destruct (feed finit a1 node AR (i_blocked i)) as [a2 dab] eqn:Ha2.
    destruct (if i_sched i then feed finit (s_timed s) node AW (i_used i) else (s_timed s, [])) as [t1 dtu] eqn:Ht1.
    destruct (if i_sched i then feed finit t1 node AR (i_blocked i) else (t1, [])) as [t2 dtb] eqn:Ht2.
    intros H. inversion H; subst s' es. cbn [s_trail]. intros t Ht.
    destruct (Hkeep t Ht) as [Hk|[r [a Hk]]]; [now left|]. right. exists r, a. apply in_or_app. now left.
  - destruct e; [|discriminate]. intros H. inversion H; subst s' es. cbn [s_trail]. exact Hkeep.
  - discriminate.
Qed.

Lemma step_roles s node i s' es :
  step s node false i = inr (s', es) -> i_role i = RClassical \/ i_role i = RRF.
Proof.
  unfold step. destruct (i_memerr i); [discriminate|].
  destruct (mem_deps (s_mem s) node i) as [m' ds].
  destruct (i_role i); auto; discriminate.
Qed.

Lemma run_trail_keep : forall is s node term s' es,
  run s node is term = inr (s', es) ->
  forall t, In t (s_trail s) -> In t (s_trail s') \/ exists b r a, In (t, b, LMem r a) es.
Proof.
  induction is as [|i t IH]; intros s node term s' es Hrun x Hx; cbn [run] in Hrun.
  - destruct term as [i|].
    + destruct (step_trail_keep _ _ _ _ _ _ Hrun _ Hx) as [H|[r [a H]]]; [auto|]. right. eauto.
    + inversion Hrun; subst. auto.
  - destruct (step s node false i) as [e|[s1 es1]] eqn:Hstep; [discriminate|].
    destruct (run s1 (N.succ node) t term) as [e|[s2 es2]] eqn:Hrun2; [discriminate|].
    inversion Hrun; subst s' es. clear Hrun.
    destruct (step_trail_keep _ _ _ _ _ _ Hstep _ Hx) as [H|[r [a H]]].
    + destruct (IH _ _ _ _ _ Hrun2 _ H) as [H'|[b [r [a H']]]]; [auto|].
      right. exists b, r, a. apply in_or_app. now right.
    + right. exists node, r, a. apply in_or_app. now left.
Qed.

Lemma run_classical : forall is s node term s' es,
  run s node is term = inr (s', es) ->
  forall k i, nth_error is k = Some i ->
    (i_role i = RClassical \/ i_role i = RRF) /\
    (i_role i = RClassical ->
       (In (0, node + N.of_nat k, LLead) es \/ exists m r a, In (m, node + N.of_nat k, LMem r a) es) /\
       (In (node + N.of_nat k) (s_trail s') \/ exists b r a, In (node + N.of_nat k, b, LMem r a) es)).
Proof.
  induction is as [|i t IH]; intros s node term s' es Hrun k j Hn; [destruct k; discriminate|].
  cbn [run] in Hrun.
  destruct (step s node false i) as [e|[s1 es1]] eqn:Hstep; [discriminate|].
  destruct (run s1 (N.succ node) t term) as [e|[s2 es2]] eqn:Hrun2; [discriminate|].
  inversion Hrun; subst s' es. clear Hrun.
  destruct k as [|k]; cbn [nth_error] in Hn.
  - inversion Hn; subst j. rewrite N.add_0_r. split; [exact (step_roles _ _ _ _ _ Hstep)|].
    intros Hr. destruct (step_classical_in _ _ _ _ _ _ Hstep Hr) as [Ht Hl]. split.
    + destruct Hl as [Hl|[m [r [a Hl]]]]; [left|right; exists m, r, a]; apply in_or_app; now left.
    + destruct (run_trail_keep _ _ _ _ _ _ Hrun2 _ Ht) as [H|[b [r [a H]]]]; [auto|].
      right. exists b, r, a. apply in_or_app. now right.
  - rewrite Nat2N.inj_succ.
    replace (node + N.succ (N.of_nat k)) with (N.succ node + N.of_nat k) by lia.
    destruct (IH _ _ _ _ _ Hrun2 _ _ Hn) as [Hr Hc]. split; [exact Hr|].
    intros Hcl. destruct (Hc Hcl) as [[Hl|[m [r [a Hl]]]] Ht]. 
    + split; [left; apply in_or_app; now right|].
      destruct Ht as [Ht|[b [r [a Ht]]]]; [auto|]. right. exists b, r, a. apply in_or_app. now right.
    + split; [right; exists m, r, a; apply in_or_app; now right|].
      destruct Ht as [Ht|[b [r' [a' Ht]]]]; [auto|]. right. exists b, r', a'. apply in_or_app. now right.
Qed.

(** * E. reachability *)

Section Reach.
  Variables (is : list info) (term : option info) (s : st) (es : list ledge).
  Hypothesis Hrun : run st0 1 is term = inr (s, es).
  Hypothesis Hwf : wf_block is term = true.
  Hypothesis Hfr : forallb has_frames is = true.
  Let L := es ++ final s (end_node is) ++ match is with [] => [(0, end_node is, LEmpty)] | _ => [] end.
  Let E := map erase_edge L.
  Let n := N.of_nat (length is).

  Lemma HbL : build_l is term = inr L.
  Proof. unfold build_l. rewrite Hrun. reflexivity. Qed.

  Lemma L_gerel x y l : In (x, y, l) L -> gerel E x y.
  Proof. intros Hin. exists (erase l). unfold E. apply erased_In. eauto. Qed.

  Lemma es_L e : In e es -> In e L.
  Proof. intros H. unfold L. apply in_or_app. now left. Qed.

  Lemma nth_of_node i : 1 <= i <= n -> exists inf, nth_error is (N.to_nat (i - 1)) = Some inf.
  Proof.
    intros Hi. destruct (nth_error is (N.to_nat (i - 1))) as [inf|] eqn:Hn; [eauto|].
    apply nth_error_None in Hn. unfold n in Hi. lia.
  Qed.

  Lemma node_of_nth i : 1 <= i -> 1 + N.of_nat (N.to_nat (i - 1)) = i.
  Proof. lia. Qed.

  Lemma rf_touch i inf :
    1 <= i -> nth_error is (N.to_nat (i - 1)) = Some inf -> i_role inf = RRF ->
    exists f a, In (i, a) (facc f is term).
  Proof.
    intros Hi Hn Hr.
    assert (Hh : has_frames inf = true).
    { rewrite forallb_forall in Hfr. apply Hfr. eapply nth_error_In; eauto. }
    unfold has_frames in Hh. rewrite Hr in Hh.
    destruct (i_used inf ++ i_blocked inf) as [|f t] eqn:Hub; [discriminate|].
    assert (Hf : In f (i_used inf ++ i_blocked inf)) by (rewrite Hub; now left).
    apply in_app_or in Hf. exists f.
    destruct Hf as [Hf|Hf]; [exists AW|exists AR]; unfold facc, facc_from;
      apply (seq_from_nth _ _ _ _ _ _ _ Hn); rewrite (node_of_nth i Hi);
      unfold facc_i, is_rf; rewrite Hr; apply in_or_app; [left|right]; now apply rep_self.
  Qed.

  Lemma stable_gerel f x y :
    clos_trans N (fun x y => exists k, In (x, y, LStable f k) L) x y -> clos_refl_trans N (gerel E) x y.
  Proof.
    intros H. apply ct_rt. eapply clos_trans_sub; [|exact H]. intros a b [k Hk]. eapply L_gerel; eauto.
  Qed.

  Lemma mem_src_ge1 m i r a : In (m, i, LMem r a) es -> 1 <= m.
  Proof.
    intros Hin. apply pmem_In in Hin. destruct (run_proj _ _ _ _ _ _ Hrun) as [PM _].
    destruct (PM r) as [_ Eq]. rewrite Eq in Hin. cbn [s_mem st0] in Hin. rewrite qm_get_nil in Hin.
    destruct (queue_edges_justified None _ _ _ _ I Hin) as [_ [b [Hp _]]].
    apply pairs_In_l in Hp. destruct Hp as [Hp _]. unfold history in Hp. cbn [option_map opt_list app] in Hp.
    apply (seq_from_bound _ (macc_i_const r)) in Hp. cbn [fst] in Hp. lia.
  Qed.

  Lemma from_start : forall fuel i, (N.to_nat i <= fuel)%nat -> 1 <= i <= n ->
    clos_refl_trans N (gerel E) 0 i.
  Proof.
    induction fuel as [|fuel IH]; intros i Hfuel Hi; [lia|].
    destruct (nth_of_node i Hi) as [inf Hn].
    destruct (run_classical _ _ _ _ _ _ Hrun _ _ Hn) as [Hrole Hcl].
    rewrite (node_of_nth i (proj1 Hi)) in Hcl.
    destruct Hrole as [Hr|Hr].
    - destruct (Hcl Hr) as [[Hl|[m [r [a Hm]]]] _].
      + apply rt_step. eapply L_gerel. apply es_L. exact Hl.
      + assert (Hlt : m < i).
        { exact (proj1 (build_l_forward _ _ _ HbL Hwf _ _ _ (es_L _ Hm))). }
        pose proof (mem_src_ge1 _ _ _ _ Hm) as Hge.
        eapply rt_trans; [apply (IH m); lia|]. apply rt_step. eapply L_gerel. apply es_L. exact Hm.
    - destruct (rf_touch i inf (proj1 Hi) Hn Hr) as [f [a Hin]].
      destruct (stable_paths _ _ _ _ Hrun f i a Hin) as [H0 _].
      apply (stable_gerel f). apply H0. lia.
  Qed.

  Lemma to_end : forall fuel i, (N.to_nat (n - i) <= fuel)%nat -> 1 <= i <= n ->
    clos_refl_trans N (gerel E) i (N.succ n).
  Proof.
    assert (Hend : end_node is = N.succ n) by reflexivity.
    induction fuel as [|fuel IH]; intros i Hfuel Hi.
    - (* i = n *)
      assert (i = n) by lia. subst i.
      destruct (nth_of_node n Hi) as [inf Hn].
      destruct (run_classical _ _ _ _ _ _ Hrun _ _ Hn) as [Hrole Hcl].
      rewrite (node_of_nth n (proj1 Hi)) in Hcl.
      destruct Hrole as [Hr|Hr].
      + destruct (Hcl Hr) as [_ [Ht|[b [r [a Hm]]]]].
        * apply rt_step. rewrite <- Hend. apply (L_gerel _ _ LTrail). unfold L. apply in_or_app. right.
          apply in_or_app. left. apply final_In. split; [reflexivity|]. left. auto.
        * pose proof (build_l_forward _ _ _ HbL Hwf _ _ _ (es_L _ Hm)) as [Hlt Hle]. rewrite Hend in Hle.
          assert (b = N.succ n) by lia. subst b. apply rt_step. eapply L_gerel. apply es_L. exact Hm.
      + destruct (rf_touch n inf (proj1 Hi) Hn Hr) as [f [a Hin]].
        destruct (stable_paths _ _ _ _ Hrun f n a Hin) as [_ H1]. rewrite Hend in H1.
        apply (stable_gerel f). apply H1. lia.
    - destruct (nth_of_node i Hi) as [inf Hn].
      destruct (run_classical _ _ _ _ _ _ Hrun _ _ Hn) as [Hrole Hcl].
      rewrite (node_of_nth i (proj1 Hi)) in Hcl.
      destruct Hrole as [Hr|Hr].
      + destruct (Hcl Hr) as [_ [Ht|[b [r [a Hm]]]]].
        * apply rt_step. rewrite <- Hend. apply (L_gerel _ _ LTrail). unfold L. apply in_or_app. right.
          apply in_or_app. left. apply final_In. split; [reflexivity|]. left. auto.
        * pose proof (build_l_forward _ _ _ HbL Hwf _ _ _ (es_L _ Hm)) as [Hlt Hle]. rewrite Hend in Hle.
          assert (Hstep : gerel E i b) by (eapply L_gerel; apply es_L; exact Hm).
          destruct (N.eq_dec b (N.succ n)) as [->|Hne]; [now apply rt_step|].
          eapply rt_trans; [apply rt_step; exact Hstep|]. apply IH; lia.
      + destruct (rf_touch i inf (proj1 Hi) Hn Hr) as [f [a Hin]].
        destruct (stable_paths _ _ _ _ Hrun f i a Hin) as [_ H1]. rewrite Hend in H1.
        apply (stable_gerel f). apply H1. lia.
  Qed.
End Reach.

Theorem build_reach is term E :
  build is term = inr E -> wf_block is term = true -> forallb has_frames is = true ->
  all_reach (length is) E.
Proof.
  intros Hb Hwf Hfr i Hi. destruct (build_inv _ _ _ Hb) as [L [HL ->]].
  destruct (build_l_inv _ _ _ HL) as [s [es [Hrun ->]]]. split.
  - exact (from_start is term s es Hrun Hwf Hfr (N.to_nat i) i (le_n _) Hi).
  - exact (to_end is term s es Hrun Hwf Hfr (N.to_nat (N.of_nat (length is) - i)) i (le_n _) Hi).
Qed.
