(** A concrete field model over the canonical rationals [Qc]: the hypotheses of the C12 theorems
    are satisfiable, and on it the unrestricted value-preservation statement is false (0^0). *)
From Coq Require Import List NArith ZArith QArith Qcanon Bool Field.
From QV Require Import Model.Expr Model.ExactNum Model.Simplify Model.SimplifyExec Proofs.SimplifyProofs.
Import ListNotations.

Definition qc_ppow (x y : Qc) : option Qc :=
  if Qc_eq_dec y 0 then Some 1%Qc
  else if Qc_eq_dec y 1 then Some x
  else if Qc_eq_dec x 1 then Some 1%Qc
  else if Qc_eq_dec x 0 then Some 0%Qc
  else None.

Definition qc_pinfix := pinfix Qc 0%Qc Qcplus Qcmult Qcminus Qcdiv Qc_eq_dec qc_ppow.
Definition qc_cop (o : infix_op) (x y : Qc) : Qc :=
  match qc_pinfix o x y with Some v => v | None => 0%Qc end.
Definition qc_is_zero (x : Qc) : bool := Qc_eq_bool x 0.
Definition qc_is_one (x : Qc) : bool := Qc_eq_bool x 1.

Lemma qc_cop_sound : forall o x y v, qc_pinfix o x y = Some v -> qc_cop o x y = v.
Proof. intros o x y v H. unfold qc_cop. rewrite H. reflexivity. Qed.

Lemma qc_pow_zero_r : forall x v, qc_ppow x 0 = Some v -> v = 1%Qc.
Proof. intros x v. unfold qc_ppow. destruct (Qc_eq_dec 0 0); congruence. Qed.
Lemma qc_pow_one_r : forall x v, qc_ppow x 1 = Some v -> v = x.
Proof.
  intros x v. unfold qc_ppow. destruct (Qc_eq_dec 1 0) as [E|_]; [discriminate E|].
  destruct (Qc_eq_dec 1 1); congruence.
Qed.
Lemma qc_pow_one_l : forall y v, qc_ppow 1 y = Some v -> v = 1%Qc.
Proof.
  intros y v. unfold qc_ppow.
  destruct (Qc_eq_dec y 0); [congruence|]. destruct (Qc_eq_dec y 1); [congruence|].
  destruct (Qc_eq_dec 1 1); congruence.
Qed.
Lemma qc_pow_zero_l : forall y v, qc_ppow 0 y = Some v -> y <> 0%Qc -> v = 0%Qc.
Proof.
  intros y v. unfold qc_ppow.
  destruct (Qc_eq_dec y 0); [congruence|]. destruct (Qc_eq_dec y 1); [congruence|].
  destruct (Qc_eq_dec 0 1) as [E|_]; [discriminate E|].
  destruct (Qc_eq_dec 0 0); congruence.
Qed.

Definition qc_model : field_model := {|
  fm_C := Qc; fm_0 := 0%Qc; fm_1 := 1%Qc;
  fm_add := Qcplus; fm_mul := Qcmult; fm_sub := Qcminus; fm_opp := Qcopp;
  fm_div := Qcdiv; fm_inv := Qcinv;
  fm_field := Qcft;
  fm_eq_dec := Qc_eq_dec;
  fm_pi := Q2Qc (355 # 113); fm_nan := 0%Qc;
  fm_fun := fun _ x => x;
  fm_ppow := qc_ppow;
  fm_cop := qc_cop;
  fm_is_zero := qc_is_zero; fm_is_one := qc_is_one;
  fm_ceqb := Qc_eq_bool;
  fm_is_zero_sound := fun x H => Qc_eq_bool_correct x 0 H;
  fm_is_one_sound := fun x H => Qc_eq_bool_correct x 1 H;
  fm_ceqb_sound := Qc_eq_bool_correct;
  fm_cop_sound := qc_cop_sound;
  fm_pow_zero_r := qc_pow_zero_r;
  fm_pow_one_r := qc_pow_one_r;
  fm_pow_one_l := qc_pow_one_l;
  fm_pow_zero_l := qc_pow_zero_l;
|}.

(** 0^0 evaluates to 1, its simplified form to 0; the case is in the excluded class. *)
Lemma qc_zero_pow_counterexample :
  let e : expr Qc := Infix (Num 0%Qc) Caret (Num 0%Qc) in
  fm_eval qc_model (fun _ => None) (fun _ => None) e = Some 1%Qc
  /\ fm_eval qc_model (fun _ => None) (fun _ => None) (fm_run qc_model e) = Some 0%Qc
  /\ fm_known_zero_pow qc_model (fun _ => None) (fun _ => None) e = true
  /\ 1%Qc <> 0%Qc.
Proof.
  repeat split; try (vm_compute; reflexivity). discriminate.
Qed.

(** The same with a non-constant exponent: 0^(%x - %x). *)
Lemma qc_zero_pow_counterexample_var :
  let e : expr Qc := Infix (Num 0%Qc) Caret (Infix (Var 0) Minus (Var 0)) in
  let rv := fun _ : N => Some (Q2Qc (5 # 2)) in
  fm_eval qc_model rv (fun _ => None) e = Some 1%Qc
  /\ fm_eval qc_model rv (fun _ => None) (fm_run qc_model e) = Some 0%Qc.
Proof.
  split; vm_compute; reflexivity.
Qed.

(** A non-trivial instance of the positive theorem's premises: (x*2 + 1) + (x*3 + 1/2) at x = 5/2. *)
Lemma qc_affine_example :
  let x : expr Qc := Var 0 in
  let q (a : Z) (p : positive) := Num (Q2Qc (a # p)) : expr Qc in
  let e := Infix (Infix (Infix x Star (q 2%Z 1%positive)) Plus (q 1%Z 1%positive)) Plus
                 (Infix (Infix x Star (q 3%Z 1%positive)) Plus (q 1%Z 2%positive)) in
  let rv := fun _ : N => Some (Q2Qc (5 # 2)) in
  fm_known_zero_pow qc_model rv (fun _ => None) e = false
  /\ fm_eval qc_model rv (fun _ => None) e = Some (Q2Qc (14 # 1))
  /\ size (fm_run qc_model e) = 5%nat.
Proof.
  repeat split; vm_compute; reflexivity.
Qed.

(** Soundness of the C12 instance checker. *)
Lemma mem_N_In x l : mem_N x l = true -> In x l.
Proof.
  induction l as [|y l IH]; cbn [mem_N]; [discriminate|].
  intro H. apply orb_true_iff in H. destruct H as [H|H].
  - apply N.eqb_eq in H. left. congruence.
  - right. apply IH. exact H.
Qed.
Lemma mem_ref_In x l : mem_ref x l = true -> In x l.
Proof.
  induction l as [|y l IH]; cbn [mem_ref]; [discriminate|].
  intro H. apply orb_true_iff in H. destruct H as [H|H].
  - unfold memref_eqb in H. apply andb_true_iff in H. destruct H as [H1 H2].
    apply N.eqb_eq in H1. apply N.eqb_eq in H2. left. destruct x, y. cbn in *. congruence.
  - right. apply IH. exact H.
Qed.

Lemma chk_c12_sound :
  forall e out : sx,
    chk_c12 e out = true ->
    out <> Pi /\ (forall x, In x (vars out) -> In x (vars e))
    /\ (forall r, In r (addrs out) -> In r (addrs e)).
Proof.
  intros e out H. unfold chk_c12 in H.
  apply andb_true_iff in H. destruct H as [H H3].
  apply andb_true_iff in H. destruct H as [H1 H2].
  repeat split.
  - intro E. subst. discriminate.
  - intros x Hx. rewrite forallb_forall in H2. apply mem_N_In, H2, Hx.
  - intros r Hr. rewrite forallb_forall in H3. apply mem_ref_In, H3, Hr.
Qed.
