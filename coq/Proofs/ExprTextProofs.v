(** Proofs about Model/ExprText.v: the Pratt parser reads back what the printer writes, as the
    normal form [norm e], and [norm e] has the value of [e] in every evaluation algebra in which
    a literal equals its sign applied to its magnitude and a two-part literal equals the sum of
    its parts. *)
From Coq Require Import List NArith Bool Arith Lia.
From QV Require Import Model.Expr Model.ExprText.
Import ListNotations.

Section TextProofs.
  Variable mag : Type.
  Variable mzero : mag.
  Variable is_mzero : mag -> bool.
  Variable mag_of_index : N -> mag.
  Variable index_of_mag : mag -> option N.
  Hypothesis index_roundtrip : forall i, index_of_mag (mag_of_index i) = Some i.

  Notation lit := (lit mag).
  Notation ex := (expr lit).
  Notation tok := (tok mag).
  Notation ptoks := (ptoks mag mzero is_mzero mag_of_index).
  Notation norm := (norm mag mzero is_mzero).
  Notation parse := (parse mag mzero mag_of_index index_of_mag).
  Notation parse_atom := (parse_atom mag mzero mag_of_index index_of_mag).
  Notation parse_primary := (parse_primary mag mzero mag_of_index index_of_mag).
  Notation parse_loop := (parse_loop mag).
  Notation parse_expr := (parse_expr mag mzero mag_of_index index_of_mag).
  Notation needs_paren := (needs_paren mag is_mzero).
  Notation is_prefix := (is_prefix mag is_mzero).
  Notation lit_toks := (lit_toks mag mzero is_mzero).
  Notation lit_expr := (lit_expr mag mzero is_mzero).
  Notation composite := (composite mag is_mzero).
  Notation neg_simple := (neg_simple mag is_mzero).
  Notation sl_zero := (sl_zero mag is_mzero).
  Notation sl_neg := (sl_neg mag is_mzero).

  (** what [format_inner_expression] writes *)
  Definition otoks (e : ex) : list tok :=
    if needs_paren e then paren TLParen TRParen (ptoks e) else ptoks e.

  (** fuel measure: a literal may need one nested call (two-part literals are sums) *)
  Fixpoint weight (e : ex) : nat :=
    match e with
    | Num _ => 2
    | Pi | Var _ | Addr _ _ => 1
    | Fn _ a | Prefix _ a => S (weight a)
    | Infix l _ r => S (S (weight l + weight r))
    end.

  Lemma weight_le (e : ex) : (weight e <= 2 * size e)%nat.
  Proof. induction e; cbn [weight size]; lia. Qed.

  (** what may follow an operand in printed text: nothing, a closing parenthesis, an operator *)
  Definition stop (rest : list tok) : Prop :=
    match rest with
    | [] | TRParen :: _ | TOp _ :: _ => True
    | _ => False
    end.
  Definition closed (rest : list tok) : Prop :=
    match rest with
    | [] | TRParen :: _ => True
    | _ => False
    end.
  Lemma closed_stop rest : closed rest -> stop rest.
  Proof. destruct rest as [|[] ?]; cbn; tauto. Qed.

  (** the loop stops at once when nothing more belongs to the expression *)
  Lemma loop_closed operand k prec left rest :
    closed rest -> parse_loop operand (S k) prec left rest = Some (left, rest).
  Proof. destruct rest as [|[] ?]; cbn; tauto. Qed.

  Lemma loop_step operand k prec left o t :
    Nat.ltb prec (prec_of o) = true ->
    parse_loop operand (S k) prec left (TOp o :: t)
    = match operand (prec_of o) t with
      | Some (r, ts') => parse_loop operand k prec (Infix left o r) ts'
      | None => None
      end.
  Proof. intros H. cbn [ExprText.parse_loop]. rewrite H. reflexivity. Qed.

  (** A number token followed by something that is not the identifier [i] is a real literal. *)
  Lemma primary_real full m rest :
    stop rest -> parse_primary full (TNum m :: rest) = Some (Num (real_lit mag mzero m), rest).
  Proof. destruct rest as [|[] ?]; cbn; try tauto; reflexivity. Qed.

  (** The literal case: [format_complex] read back at the lowest precedence. *)
  Lemma parse_lit_top :
    forall (c : lit) f rest, (1 <= f)%nat -> closed rest ->
      parse (S f) 0 (lit_toks c ++ rest) = Some (lit_expr c, rest).
  Proof.
    intros [re im] f rest Hf Hcl. pose proof (closed_stop _ Hcl) as Hst.
    destruct f as [|f]; [lia|].
    unfold ExprText.lit_toks, ExprText.lit_expr, ExprText.sign_toks, ExprText.signed.
    destruct (sl_zero re) eqn:Zre; destruct (sl_zero im) eqn:Zim; cbn [andb].
    - (* 0 *)
      cbn [app]. cbn [ExprText.parse]. unfold ExprText.parse_atom.
      rewrite primary_real by exact Hst. apply loop_closed. exact Hcl.
    - (* pure imaginary *)
      destruct (sl_neg im) eqn:Nim; cbn [app ExprText.parse ExprText.parse_atom ExprText.parse_primary];
        apply loop_closed; exact Hcl.
    - (* real *)
      destruct (sl_neg re) eqn:Nre; cbn [app ExprText.parse]; unfold ExprText.parse_atom;
        rewrite primary_real by exact Hst; apply loop_closed; exact Hcl.
    - (* both parts: a sum or a difference *)
      assert (Himag : forall p,
                 parse (S f) p (TNum (snd im) :: TIdent IdI :: rest)
                 = Some (Num (imag_lit mag mzero (snd im)), rest)).
      { intro p. cbn [ExprText.parse ExprText.parse_atom ExprText.parse_primary].
        apply loop_closed. exact Hcl. }
      destruct (sl_neg re) eqn:Nre; destruct (sl_neg im) eqn:Nim.
      all: cbn [app].
      all: change (parse (S (S f)) 0) with
             (fun ts => match parse_atom (parse (S f) 0) ts with
                        | Some (a, ts1) => parse_loop (parse (S f)) (S (length ts1)) 0 a ts1
                        | None => None
                        end).
      all: cbv beta.
      all: unfold ExprText.parse_atom; rewrite primary_real by exact I.
      all: rewrite loop_step by reflexivity.
      all: rewrite Himag; cbn [length]; apply loop_closed; exact Hcl.
  Qed.

  (** An operand that is a one-part literal, possibly signed. *)
  Lemma atom_simple_lit :
    forall (c : lit) full rest, composite c = false -> stop rest ->
      parse_atom full (lit_toks c ++ rest) = Some (lit_expr c, rest).
  Proof.
    intros [re im] full rest Hc Hst.
    unfold ExprText.composite in Hc. cbn [fst snd] in Hc.
    unfold ExprText.lit_toks, ExprText.lit_expr, ExprText.sign_toks, ExprText.signed.
    destruct (sl_zero re) eqn:Zre; destruct (sl_zero im) eqn:Zim; cbn [andb negb] in *;
      try discriminate.
    - cbn [app]. unfold ExprText.parse_atom. apply primary_real. exact Hst.
    - destruct (sl_neg im); cbn [app ExprText.parse_atom ExprText.parse_primary]; reflexivity.
    - destruct (sl_neg re); cbn [app]; unfold ExprText.parse_atom;
        rewrite primary_real by exact Hst; reflexivity.
  Qed.

  (** The same without a sign: it is then a primary. *)
  Lemma primary_unsigned_lit :
    forall (c : lit) full rest, composite c = false -> neg_simple c = false -> stop rest ->
      parse_primary full (lit_toks c ++ rest) = Some (lit_expr c, rest).
  Proof.
    intros [re im] full rest Hc Hn Hst.
    unfold ExprText.composite in Hc. unfold ExprText.neg_simple in Hn. cbn [fst snd] in *.
    unfold ExprText.lit_toks, ExprText.lit_expr, ExprText.sign_toks, ExprText.signed.
    destruct (sl_zero re) eqn:Zre; destruct (sl_zero im) eqn:Zim; cbn [andb negb] in *;
      try discriminate.
    - cbn [app]. apply primary_real. exact Hst.
    - rewrite Hn. cbn [app ExprText.parse_primary]. reflexivity.
    - rewrite Hn. cbn [app]. apply primary_real. exact Hst.
  Qed.

  (** Main lemma: with enough fuel,
      (b) a printed expression followed by nothing / a closing parenthesis parses, at the lowest
          precedence, to its normal form;
      (a) a printed operand ([format_inner_expression]) is consumed as one atom, whatever follows
          (an operator, a parenthesis, nothing);
      (p) if it does not start with a sign it is consumed as a primary. *)
  Lemma parse_print :
    forall e : ex,
      (forall f rest, (weight e <= f)%nat -> closed rest ->
         parse (S f) 0 (ptoks e ++ rest) = Some (norm e, rest))
      /\ (forall f rest, (weight e <= f)%nat -> stop rest ->
         parse_atom (parse f 0) (otoks e ++ rest) = Some (norm e, rest))
      /\ (forall f rest, (weight e <= f)%nat -> stop rest -> is_prefix e = false ->
         parse_primary (parse f 0) (otoks e ++ rest) = Some (norm e, rest)).
  Proof.
    induction e as [c | | x | n i | fn a IHa | o a IHa | l IHl o r IHr].
    - (* Num *)
      assert (Hb : forall f rest, (2 <= f)%nat -> closed rest ->
                     parse (S f) 0 (lit_toks c ++ rest) = Some (lit_expr c, rest)).
      { intros f rest Hf Hcl. apply parse_lit_top; [lia | exact Hcl]. }
      cbn [weight ExprText.ptoks ExprText.norm]. split; [exact Hb |].
      unfold otoks. cbn [ExprText.needs_paren ExprText.ptoks ExprText.is_prefix].
      destruct (composite c) eqn:Hc.
      + (* parenthesised sum *)
        assert (Hg : forall f rest, (2 <= f)%nat ->
                   parse_primary (parse f 0) (paren TLParen TRParen (lit_toks c) ++ rest)
                   = Some (lit_expr c, rest)).
        { intros f rest Hf. destruct f as [|f]; [lia|].
          unfold paren. cbn [app]. rewrite <- app_assoc. cbn [app ExprText.parse_primary].
          rewrite parse_lit_top by (cbn; auto; lia). reflexivity. }
        split; intros f rest Hf Hst; [| intros _]; [| apply Hg; exact Hf].
        unfold ExprText.parse_atom. unfold paren at 1. cbn [app].
        change (TLParen :: (lit_toks c ++ [TRParen]) ++ rest)
          with (paren TLParen TRParen (lit_toks c) ++ rest).
        apply Hg. exact Hf.
      + split; intros f rest Hf Hst.
        * apply atom_simple_lit; assumption.
        * intros Hn. apply primary_unsigned_lit; assumption.
    - (* Pi *)
      cbn [weight ExprText.ptoks ExprText.norm]. unfold otoks. cbn [ExprText.needs_paren ExprText.ptoks].
      assert (Hp : forall full rest, stop rest ->
                 parse_primary full ([TIdent IdPi] ++ rest) = Some (Pi, rest))
        by (intros full rest Hst; reflexivity).
      (split; [|split]); intros f rest Hf Hst.
      + cbn [ExprText.parse]. unfold ExprText.parse_atom. cbn [app].
        change (TIdent IdPi :: rest) with ([TIdent IdPi] ++ rest).
        rewrite Hp by (apply closed_stop; exact Hst). apply loop_closed. exact Hst.
      + unfold ExprText.parse_atom. cbn [app]. reflexivity.
      + intros _. reflexivity.
    - (* Var *)
      cbn [weight ExprText.ptoks ExprText.norm]. unfold otoks. cbn [ExprText.needs_paren ExprText.ptoks].
      (split; [|split]); intros f rest Hf Hst.
      + cbn [ExprText.parse app ExprText.parse_atom ExprText.parse_primary].
        apply loop_closed. exact Hst.
      + reflexivity.
      + intros _. reflexivity.
    - (* Addr *)
      cbn [weight ExprText.ptoks ExprText.norm]. unfold otoks. cbn [ExprText.needs_paren ExprText.ptoks].
      assert (Hp : forall full rest,
                 parse_primary full ([TIdent (IdName n); TLBracket; TNum (mag_of_index i); TRBracket] ++ rest)
                 = Some (Addr n i, rest)).
      { intros full rest. cbn [app ExprText.parse_primary]. rewrite index_roundtrip. reflexivity. }
      (split; [|split]); intros f rest Hf Hst.
      + cbn [ExprText.parse]. unfold ExprText.parse_atom.
        cbn [app]. change (TIdent (IdName n) :: TLBracket :: TNum (mag_of_index i) :: TRBracket :: rest)
          with ([TIdent (IdName n); TLBracket; TNum (mag_of_index i); TRBracket] ++ rest).
        rewrite Hp. apply loop_closed. exact Hst.
      + unfold ExprText.parse_atom. cbn [app].
        change (TIdent (IdName n) :: TLBracket :: TNum (mag_of_index i) :: TRBracket :: rest)
          with ([TIdent (IdName n); TLBracket; TNum (mag_of_index i); TRBracket] ++ rest).
        apply Hp.
      + intros _. apply Hp.
    - (* Fn *)
      destruct IHa as (IHb & _ & _).
      cbn [weight ExprText.ptoks ExprText.norm]. unfold otoks. cbn [ExprText.needs_paren ExprText.ptoks].
      assert (Hp : forall f rest, (S (weight a) <= f)%nat ->
                 parse_primary (parse f 0) (([TIdent (IdFn fn); TLParen] ++ ptoks a ++ [TRParen]) ++ rest)
                 = Some (Fn fn (norm a), rest)).
      { intros f rest Hf. destruct f as [|f]; [lia|].
        cbn [app]. rewrite <- app_assoc. cbn [app ExprText.parse_primary].
        rewrite IHb by (cbn; auto; lia). reflexivity. }
      assert (Ha : forall f rest,
                 parse_atom (parse f 0) (([TIdent (IdFn fn); TLParen] ++ ptoks a ++ [TRParen]) ++ rest)
                 = parse_primary (parse f 0) (([TIdent (IdFn fn); TLParen] ++ ptoks a ++ [TRParen]) ++ rest))
        by reflexivity.
      (split; [|split]); intros f rest Hf Hst.
      + cbn [ExprText.parse]. rewrite Ha, Hp by exact Hf. apply loop_closed. exact Hst.
      + rewrite Ha. apply Hp. exact Hf.
      + intros _. apply Hp. exact Hf.
    - (* Prefix *)
      destruct IHa as (IHb & IHat & IHpr).
      cbn [weight ExprText.norm]. unfold otoks. cbn [ExprText.needs_paren].
      (* the text after the operator sign *)
      set (X := if is_prefix a || needs_paren a then paren TLParen TRParen (ptoks a) else ptoks a).
      assert (HX : forall f rest, (S (weight a) <= f)%nat -> stop rest ->
                 parse_primary (parse f 0) (X ++ rest) = Some (norm a, rest)).
      { intros f rest Hf Hst. subst X.
        destruct (is_prefix a) eqn:Hpa; cbn [orb].
        - destruct f as [|f]; [lia|]. unfold paren. cbn [app]. rewrite <- app_assoc.
          cbn [app ExprText.parse_primary]. rewrite IHb by (cbn; auto; lia). reflexivity.
        - specialize (IHpr f rest). unfold otoks in IHpr.
          destruct (needs_paren a); apply IHpr; auto; lia. }
      assert (HXa : forall f rest, (S (weight a) <= f)%nat -> stop rest ->
                 parse_atom (parse f 0) (X ++ rest) = Some (norm a, rest)).
      { intros f rest Hf Hst. subst X.
        destruct (is_prefix a) eqn:Hpa; cbn [orb].
        - destruct f as [|f]; [lia|]. unfold paren. cbn [app]. rewrite <- app_assoc.
          cbn [app ExprText.parse_atom ExprText.parse_primary].
          rewrite IHb by (cbn; auto; lia). reflexivity.
        - specialize (IHat f rest). unfold otoks in IHat.
          destruct (needs_paren a); apply IHat; auto; lia. }
      destruct o; cbn [ExprText.ptoks app]; fold X.
      + (* prefix plus: prints nothing *)
        (split; [|split]); intros f rest Hf Hst.
        * cbn [ExprText.parse]. rewrite HXa by (auto using closed_stop; lia).
          apply loop_closed. exact Hst.
        * apply HXa; [lia | exact Hst].
        * intros _. apply HX; [lia | exact Hst].
      + (* prefix minus *)
        assert (Hm : forall f rest, (S (weight a) <= f)%nat -> stop rest ->
                   parse_atom (parse f 0) (TOp Minus :: X ++ rest)
                   = Some (Prefix PMinus (norm a), rest)).
        { intros f rest Hf Hst. cbn [ExprText.parse_atom]. rewrite HX by assumption. reflexivity. }
        (split; [|split]); intros f rest Hf Hst.
        * cbn [ExprText.parse]. rewrite Hm by (auto using closed_stop; lia).
          apply loop_closed. exact Hst.
        * apply Hm; [lia | exact Hst].
        * cbn [ExprText.is_prefix]. discriminate.
    - (* Infix *)
      destruct IHl as (_ & IHla & _). destruct IHr as (_ & IHra & _).
      cbn [weight ExprText.norm].
      assert (Hb : forall f rest, (S (weight l + weight r) <= f)%nat -> closed rest ->
                 parse (S f) 0 (ptoks (Infix l o r) ++ rest) = Some (Infix (norm l) o (norm r), rest)).
      { intros f rest Hf Hcl. cbn [ExprText.ptoks]. fold (otoks l). fold (otoks r).
        rewrite <- !app_assoc. cbn [ExprText.parse].
        rewrite IHla by (cbn; auto; lia).
        destruct f as [|f]; [lia|].
        cbn [app].
        assert (Hlt : Nat.ltb 0 (prec_of o) = true) by (destruct o; reflexivity).
        rewrite loop_step by exact Hlt.
        (* the right operand, parsed at the operator's own precedence *)
        assert (Hr : parse (S f) (prec_of o) (otoks r ++ rest) = Some (norm r, rest)).
        { cbn [ExprText.parse]. rewrite IHra by (auto using closed_stop; lia).
          apply loop_closed. exact Hcl. }
        rewrite Hr. cbn [length]. apply loop_closed. exact Hcl. }
      split; [intros f rest Hf Hcl; apply Hb; [lia | exact Hcl] |].
      unfold otoks. cbn [ExprText.needs_paren].
      assert (Hg : forall f rest, (S (S (weight l + weight r)) <= f)%nat ->
                 parse_primary (parse f 0) (paren TLParen TRParen (ptoks (Infix l o r)) ++ rest)
                 = Some (Infix (norm l) o (norm r), rest)).
      { intros f rest Hf. destruct f as [|f]; [lia|].
        unfold paren. cbn [app]. rewrite <- app_assoc. cbn [app ExprText.parse_primary].
        rewrite Hb by (cbn; auto; lia). reflexivity. }
      split; intros f rest Hf Hst; [| intros _; apply Hg; exact Hf].
      unfold ExprText.parse_atom. unfold paren at 1. cbn [app].
      change (TLParen :: (ptoks (Infix l o r) ++ [TRParen]) ++ rest)
        with (paren TLParen TRParen (ptoks (Infix l o r)) ++ rest).
      apply Hg. exact Hf.
  Qed.

  (** The printed token sequence parses back, with nothing left over, to the normal form. *)
  Lemma parse_expr_print :
    forall (e : ex) (f : nat), (weight e <= f)%nat -> parse_expr (S f) (ptoks e) = Some (norm e).
  Proof.
    intros e f Hf. unfold ExprText.parse_expr.
    destruct (parse_print e) as (Hb & _ & _).
    specialize (Hb f [] Hf I). rewrite app_nil_r in Hb. rewrite Hb. reflexivity.
  Qed.

  Lemma parse_expr_print_size :
    forall e : ex, parse_expr (2 * size e + 1) (ptoks e) = Some (norm e).
  Proof.
    intro e. replace (2 * size e + 1)%nat with (S (2 * size e)) by lia.
    apply parse_expr_print. apply weight_le.
  Qed.

  (** Every infix operator, [^] included, associates to the left: an operator of the same
      precedence ends the right operand. *)
  Lemma parse_left_assoc :
    forall (x y z : N) (o : infix_op),
      parse_expr 3 [TVar x; TOp o; TVar y; TOp o; TVar z]
      = Some (Infix (Infix (Var x) o (Var y)) o (Var z)).
  Proof. intros x y z o. destruct o; reflexivity. Qed.

  (** * The normal form has the same value *)
  Section Value.
    Variables C M : Type.
    Variable A : alg lit C M.
    Definition sgn (s : slit mag) (v : C) : C := if sl_neg s then c_neg A v else v.
    (** Laws relating a literal to its printed parts (they hold in exact complex arithmetic, and in
        IEEE arithmetic up to the sign of a zero part). *)
    Hypothesis lit_zero : forall re im,
        sl_zero re = true -> sl_zero im = true -> of_lit A (re, im) = of_lit A (real_lit mag mzero mzero).
    Hypothesis lit_real : forall re im,
        sl_zero re = false -> sl_zero im = true ->
        of_lit A (re, im) = sgn re (of_lit A (real_lit mag mzero (snd re))).
    Hypothesis lit_imag : forall re im,
        sl_zero re = true -> sl_zero im = false ->
        of_lit A (re, im) = sgn im (of_lit A (imag_lit mag mzero (snd im))).
    Hypothesis lit_both : forall re im,
        sl_zero re = false -> sl_zero im = false ->
        c_infix A (if sl_neg im then Minus else Plus)
                (sgn re (of_lit A (real_lit mag mzero (snd re))))
                (of_lit A (imag_lit mag mzero (snd im)))
        = Some (of_lit A (re, im)).

    Variable rv : N -> option C.
    Variable rm : N -> option (list M).

    Lemma eval_signed s e v :
      eval A rv rm e = Some v -> eval A rv rm (signed mag is_mzero s e) = Some (sgn s v).
    Proof.
      intro H. unfold ExprText.signed, sgn. destruct (sl_neg s); cbn [eval]; rewrite H; reflexivity.
    Qed.

    Lemma eval_lit_expr : forall c : lit, eval A rv rm (lit_expr c) = Some (of_lit A c).
    Proof.
      intros [re im]. unfold ExprText.lit_expr.
      destruct (sl_zero re) eqn:Zre; destruct (sl_zero im) eqn:Zim; cbn [andb].
      - cbn [eval]. rewrite (lit_zero re im Zre Zim). reflexivity.
      - rewrite (eval_signed im _ (of_lit A (imag_lit mag mzero (snd im)))) by reflexivity.
        rewrite (lit_imag re im Zre Zim). reflexivity.
      - rewrite (eval_signed re _ (of_lit A (real_lit mag mzero (snd re)))) by reflexivity.
        rewrite (lit_real re im Zre Zim). reflexivity.
      - cbn [eval].
        rewrite (eval_signed re _ (of_lit A (real_lit mag mzero (snd re)))) by reflexivity.
        cbn [bind]. apply lit_both; assumption.
    Qed.

    Lemma eval_norm : forall e : ex, eval A rv rm (norm e) = eval A rv rm e.
    Proof.
      induction e as [c | | x | n i | fn a IHa | o a IHa | l IHl o r IHr]; cbn [ExprText.norm].
      - apply eval_lit_expr.
      - reflexivity.
      - reflexivity.
      - reflexivity.
      - cbn [eval]. rewrite IHa. reflexivity.
      - destruct o; cbn [eval]; rewrite IHa.
        + destruct (eval A rv rm a); reflexivity.
        + reflexivity.
      - cbn [eval]. rewrite IHl, IHr. reflexivity.
    Qed.
  End Value.
End TextProofs.
