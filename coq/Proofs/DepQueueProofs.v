(** Proofs about Model/DepQueue.v: sequential consistency of the dependency queue. *)
From Coq Require Import List NArith Bool Relations Lia.
From QV Require Import Model.DepQueue.
Import ListNotations.

Definition erel (E : list edge) (m n : N) : Prop := exists k, In (m, n, k) E.
Definition reach (E : list edge) : N -> N -> Prop := clos_refl_trans N (erel E).

Lemma erel_mono E E' m n : erel E m n -> erel (E ++ E') m n.
Proof. intros [k Hk]. exists k. apply in_or_app. now left. Qed.

Lemma reach_mono E E' m n : reach E m n -> reach (E ++ E') m n.
Proof.
  induction 1 as [x y Hxy | x | x y z _ IH1 _ IH2].
  - apply rt_step. now apply erel_mono.
  - apply rt_refl.
  - eapply rt_trans; eauto.
Qed.

Lemma erel_mono_r E E' m n : erel E' m n -> erel (E ++ E') m n.
Proof. intros [k Hk]. exists k. apply in_or_app. now right. Qed.

Lemma memN_In n l : memN n l = true <-> In n l.
Proof.
  induction l as [|x t IH]; cbn [memN In].
  - split; [discriminate | tauto].
  - destruct (N.eqb_spec n x) as [->|Hne].
    + split; auto.
    + rewrite IH. split; [auto | intros [Heq | Hin]; [congruence | exact Hin]].
Qed.

Lemma pairs_In_app {A} (l1 l2 : list A) x y :
  In (x, y) (pairs (l1 ++ l2)) <->
  In (x, y) (pairs l1) \/ (In x l1 /\ In y l2) \/ In (x, y) (pairs l2).
Proof.
  induction l1 as [|z t IH]; cbn [pairs app].
  - cbn. tauto.
  - rewrite in_app_iff, in_map_iff, IH, in_app_iff, in_map_iff.
    split.
    + intros [[w [Hw Hin]] | [H | [[H1 H2] | H]]].
      * inversion Hw; subst. apply in_app_or in Hin. destruct Hin as [Hin | Hin].
        -- left. left. exists y. auto.
        -- right. left. split; [now left | exact Hin].
      * left. now right.
      * right. left. split; [now right | exact H2].
      * right. now right.
    + intros [[[w [Hw Hin]] | H] | [[H1 H2] | H]].
      * inversion Hw; subst. left. exists y. split; auto. apply in_or_app. now left.
      * right. now left.
      * destruct H1 as [-> | H1].
        -- left. exists y. split; auto. apply in_or_app. now right.
        -- right. right. left. auto.
      * right. right. now right.
Qed.

Lemma pairs_In_l {A} (l : list A) x y : In (x, y) (pairs l) -> In x l /\ In y l.
Proof.
  induction l as [|z t IH]; cbn [pairs]; [contradiction|].
  rewrite in_app_iff, in_map_iff. intros [[w [Hw Hin]] | H].
  - inversion Hw; subst. split; [now left | now right].
  - destruct (IH H). split; now right.
Qed.

(** The queue invariant: [H] is the access history so far, [E] the edges so far. *)
Definition Inv (H : list (N * acc)) (q : queue) (E : list edge) : Prop :=
  match qw q with
  | Some (k, nw) =>
      exists H1 H2, H = H1 ++ (nw, k) :: H2 /\ is_write k = true /\
        (forall m a, In (m, a) H1 -> reach E m nw) /\
        (forall r a, In (r, a) H2 -> a = AR /\ In r (qr q)) /\
        (forall r, In r (qr q) -> In (r, AR) H2)
  | None =>
      (forall r a, In (r, a) H -> a = AR /\ In r (qr q)) /\
      (forall r, In r (qr q) -> In (r, AR) H)
  end.

(** Connectivity of all conflicting pairs of the history. *)
Definition Conn (H : list (N * acc)) (E : list edge) : Prop :=
  forall m a n b, In ((m, a), (n, b)) (pairs H) -> conflict a b = true -> m <> n -> reach E m n.

(** Every edge is justified by a conflicting pair of the history, labelled with the source's kind. *)
Definition Just (H : list (N * acc)) (E : list edge) : Prop :=
  forall m n k, In (m, n, k) E ->
    m <> n /\ exists b, In ((m, k), (n, b)) (pairs H) /\ conflict k b = true.

Lemma step_edges_In n d m n' k :
  In (m, n', k) (step_edges n d) <-> n' = n /\ m <> n /\ In (k, m) d.
Proof.
  unfold step_edges. rewrite in_map_iff. split.
  - intros [[k0 m0] [Heq Hin]]. cbn in Heq. inversion Heq; subst.
    apply filter_In in Hin. destruct Hin as [Hin Hne]. cbn in Hne.
    destruct (N.eqb_spec m n'); [discriminate|]. auto.
  - intros [-> [Hne Hin]]. exists (k, m). split; [reflexivity|].
    apply filter_In. split; [exact Hin|]. cbn. destruct (N.eqb_spec m n); [contradiction | reflexivity].
Qed.

Lemma Conn_mono H E E' : Conn H E -> Conn H (E ++ E').
Proof. intros HC m a n b Hin Hc Hne. apply reach_mono. eapply HC; eauto. Qed.

Lemma Just_app H x E : Just H E -> Just (H ++ [x]) E.
Proof.
  intros HJ m n k Hin. destruct (HJ m n k Hin) as [Hne [b [Hp Hc]]].
  split; [exact Hne|]. exists b. split; [|exact Hc].
  apply pairs_In_app. now left.
Qed.

Lemma record_step H q E n a q' d :
  Inv H q E -> Conn H E -> Just H E -> record q n a = (q', d) ->
  let E' := E ++ step_edges n d in
  Inv (H ++ [(n, a)]) q' E' /\ Conn (H ++ [(n, a)]) E' /\ Just (H ++ [(n, a)]) E'.
Proof.
  intros HI HC HJ Hrec. unfold record in Hrec.
  destruct (is_write a) eqn:Hw; inversion Hrec; subst q' d; clear Hrec; cbn zeta.
  - (* write step *)
    assert (Hall : forall m b, In (m, b) H -> m <> n ->
              reach (E ++ step_edges n (opt_list (qw q) ++ map (fun r => (AR, r)) (qr q))) m n).
    { intros m b Hin Hne. unfold Inv in HI. destruct (qw q) as [[k nw]|] eqn:Hqw.
      - destruct HI as [H1 [H2 [-> [Hk [Hr1 [Hr2 Hr3]]]]]].
        assert (Hnw : nw <> n ->
                  reach (E ++ step_edges n (opt_list (Some (k, nw)) ++ map (fun r => (AR, r)) (qr q))) nw n).
        { intros Hne'. apply rt_step. apply erel_mono_r. exists k.
          apply step_edges_In. repeat split; auto. cbn. now left. }
        apply in_app_or in Hin. destruct Hin as [Hin | [Heq | Hin]].
        + destruct (N.eq_dec nw n) as [->|Hne'].
          * apply reach_mono. eapply Hr1; eauto.
          * eapply rt_trans; [apply reach_mono; eapply Hr1; eauto | apply Hnw; exact Hne'].
        + inversion Heq; subst. auto.
        + destruct (Hr2 _ _ Hin) as [-> Hq]. apply rt_step. apply erel_mono_r. exists AR.
          apply step_edges_In. repeat split; auto. apply in_or_app. right.
          apply in_map_iff. exists m. auto.
      - destruct HI as [Hr2 Hr3]. destruct (Hr2 _ _ Hin) as [-> Hq].
        apply rt_step. apply erel_mono_r. exists AR.
        apply step_edges_In. repeat split; auto. cbn. apply in_map_iff. exists m. auto. }
    split; [|split].
    + unfold Inv. cbn [qw qr]. exists H, []. split; [reflexivity|]. split; [exact Hw|].
      split; [|split].
      * intros m b Hin. destruct (N.eq_dec m n) as [->|Hne]; [apply rt_refl | eauto].
      * intros r b [].
      * intros r [].
    + intros m b n' b' Hin Hc Hne. apply pairs_In_app in Hin.
      destruct Hin as [Hin | [[Hin1 Hin2] | Hin]].
      * apply reach_mono. eapply HC; eauto.
      * cbn in Hin2. destruct Hin2 as [Heq|[]]. inversion Heq; subst. eauto.
      * cbn in Hin. contradiction.
    + intros m n' k Hin. apply in_app_or in Hin. destruct Hin as [Hin | Hin].
      * eapply Just_app; eauto.
      * apply step_edges_In in Hin. destruct Hin as [-> [Hne Hin]]. split; [exact Hne|].
        exists a. unfold conflict. rewrite Hw, orb_true_r. split; [|reflexivity].
        apply pairs_In_app. right. left. split; [|now left].
        apply in_app_or in Hin. unfold Inv in HI. destruct Hin as [Hin | Hin].
        -- destruct (qw q) as [[k0 nw]|]; cbn in Hin; [|contradiction].
           destruct Hin as [Heq|[]]. inversion Heq; subst.
           destruct HI as [H1 [H2 [-> _]]]. apply in_or_app. right. now left.
        -- apply in_map_iff in Hin. destruct Hin as [r [Heq Hr]]. inversion Heq; subst.
           destruct (qw q) as [[k0 nw]|].
           ++ destruct HI as [H1 [H2 [-> [_ [_ [_ Hr3]]]]]]. apply in_or_app. right. right. auto.
           ++ destruct HI as [_ Hr3]. auto.
  - (* read step *)
    assert (Ha : a = AR) by (destruct a; cbn in Hw; congruence). subst a.
    set (qr' := if memN n (qr q) then qr q else qr q ++ [n]).
    assert (Hqr' : forall r, In r qr' <-> In r (qr q) \/ r = n).
    { intros r. unfold qr'. destruct (memN n (qr q)) eqn:Hm.
      - apply memN_In in Hm. split; [auto | intros [?| ->]; auto].
      - rewrite in_app_iff. cbn. split; [intros [Hr|[<-|[]]]; auto | intros [Hr| ->]; auto]. }
    split; [|split].
    + unfold Inv in *. cbn [qw qr]. destruct (qw q) as [[k nw]|] eqn:Hqw.
      * destruct HI as [H1 [H2 [-> [Hk [Hr1 [Hr2 Hr3]]]]]].
        exists H1, (H2 ++ [(n, AR)]). rewrite <- app_assoc. cbn [app].
        split; [reflexivity|]. split; [exact Hk|]. split; [|split].
        -- intros m a Hin. apply reach_mono. eauto.
        -- intros r a Hin. rewrite Hqr'. apply in_app_or in Hin. destruct Hin as [Hin | [Heq|[]]].
           ++ destruct (Hr2 _ _ Hin). auto.
           ++ inversion Heq; subst. auto.
        -- intros r Hr. apply Hqr' in Hr. apply in_or_app. destruct Hr as [Hr| ->]; [left; auto | right; now left].
      * destruct HI as [Hr2 Hr3]. split.
        -- intros r a Hin. apply in_app_or in Hin. rewrite Hqr'. destruct Hin as [Hin | [Heq|[]]].
           ++ destruct (Hr2 _ _ Hin). auto.
           ++ inversion Heq; subst. auto.
        -- intros r Hr. apply Hqr' in Hr. apply in_or_app. destruct Hr as [Hr| ->]; [left; auto | right; now left].
    + intros m b n' b' Hin Hc Hne. apply pairs_In_app in Hin.
      destruct Hin as [Hin | [[Hin1 Hin2] | Hin]].
      * apply reach_mono. eapply HC; eauto.
      * cbn in Hin2. destruct Hin2 as [Heq|[]]. inversion Heq; subst n' b'. clear Heq.
        unfold conflict in Hc. cbn in Hc. rewrite orb_false_r in Hc.
        unfold Inv in HI. destruct (qw q) as [[k nw]|] eqn:Hqw.
        -- destruct HI as [H1 [H2 [-> [Hk [Hr1 [Hr2 Hr3]]]]]].
           assert (Hnw : nw <> n -> reach (E ++ step_edges n (opt_list (Some (k, nw)))) nw n).
           { intros Hne'. apply rt_step. apply erel_mono_r. exists k.
             apply step_edges_In. repeat split; auto. cbn. now left. }
           apply in_app_or in Hin1. destruct Hin1 as [Hin1 | [Heq | Hin1]].
           ++ destruct (N.eq_dec nw n) as [->|Hne'].
              ** apply reach_mono. eapply Hr1; eauto.
              ** eapply rt_trans; [apply reach_mono; eapply Hr1; eauto | apply Hnw; exact Hne'].
           ++ inversion Heq; subst. auto.
           ++ destruct (Hr2 _ _ Hin1) as [-> _]. discriminate.
        -- destruct HI as [Hr2 _]. destruct (Hr2 _ _ Hin1) as [-> _]. discriminate.
      * cbn in Hin. contradiction.
    + intros m n' k Hin. apply in_app_or in Hin. destruct Hin as [Hin | Hin].
      * eapply Just_app; eauto.
      * apply step_edges_In in Hin. destruct Hin as [-> [Hne Hin]]. split; [exact Hne|].
        unfold Inv in HI. destruct (qw q) as [[k0 nw]|]; cbn in Hin; [|contradiction].
        destruct Hin as [Heq|[]]. inversion Heq; subst k0 nw.
        destruct HI as [H1 [H2 [-> [Hk _]]]].
        exists AR. unfold conflict. rewrite Hk. split; [|reflexivity].
        apply pairs_In_app. right. left. split; [|now left].
        apply in_or_app. right. now left.
Qed.

Lemma edges_from_correct l : forall H q E,
  Inv H q E -> Conn H E -> Just H E ->
  Conn (H ++ l) (E ++ edges_from q l) /\ Just (H ++ l) (E ++ edges_from q l).
Proof.
  induction l as [|[n a] t IH]; intros H q E HI HC HJ; cbn [edges_from].
  - rewrite !app_nil_r. auto.
  - destruct (record q n a) as [q' d] eqn:Hrec.
    destruct (record_step H q E n a q' d HI HC HJ Hrec) as [HI' [HC' HJ']].
    specialize (IH (H ++ [(n, a)]) q' (E ++ step_edges n d) HI' HC' HJ').
    rewrite <- !app_assoc in IH. cbn [app] in IH. exact IH.
Qed.

(** History including the pseudo-access of the implicit initial writer. *)
Definition history (init : option dep) (l : list (N * acc)) : list (N * acc) :=
  opt_list (option_map (fun d : dep => (snd d, fst d)) init) ++ l.

Definition init_ok (init : option dep) : Prop :=
  match init with Some (k, _) => is_write k = true | None => True end.

Theorem edges_correct init l :
  init_ok init -> Conn (history init l) (edges init l) /\ Just (history init l) (edges init l).
Proof.
  intros Hi. unfold edges, history.
  assert (HI : Inv (opt_list (option_map (fun d : dep => (snd d, fst d)) init)) (q_new init) []).
  { unfold Inv, q_new. cbn [qw qr]. destruct init as [[k n0]|]; cbn.
    - exists [], []. split; [reflexivity|]. split; [exact Hi|]. split; [|split].
      + intros m a [].
      + intros r a [].
      + intros r [].
    - split; [intros r a [] | intros r []]. }
  assert (HC : Conn (opt_list (option_map (fun d : dep => (snd d, fst d)) init)) []).
  { intros m a n b Hin. destruct init as [[k n0]|]; cbn in Hin; contradiction. }
  assert (HJ : Just (opt_list (option_map (fun d : dep => (snd d, fst d)) init)) []).
  { intros m n k []. }
  exact (edges_from_correct l _ _ [] HI HC HJ).
Qed.

(** ** Statement-level corollaries *)

Lemma reach_ne_trans E m n : reach E m n -> m <> n -> clos_trans N (erel E) m n.
Proof.
  intros Hr. apply clos_rt_rt1n in Hr. induction Hr as [x | x y z Hxy Hyz IH]; intros Hne.
  - contradiction.
  - destruct (N.eq_dec y z) as [->|Hne'].
    + now apply t_step.
    + eapply t_trans; [apply t_step; exact Hxy | auto].
Qed.

(** (i) every conflicting pair (earlier access by [m], later access by [n <> m]) is connected. *)
Theorem queue_conflicts_ordered init l m a n b :
  init_ok init ->
  In ((m, a), (n, b)) (pairs (history init l)) -> conflict a b = true -> m <> n ->
  clos_trans N (erel (edges init l)) m n.
Proof.
  intros Hi Hin Hc Hne. apply reach_ne_trans; [|exact Hne].
  destruct (edges_correct init l Hi) as [HC _]. eapply HC; eauto.
Qed.

(** (ii) every edge joins a conflicting pair, earlier to later, labelled with the source's kind. *)
Theorem queue_edges_justified init l m n k :
  init_ok init -> In (m, n, k) (edges init l) ->
  m <> n /\ exists b, In ((m, k), (n, b)) (pairs (history init l)) /\ conflict k b = true.
Proof.
  intros Hi Hin. destruct (edges_correct init l Hi) as [_ HJ]. eauto.
Qed.

(** (iii) nodes that only read are never joined by an edge. *)
Definition only_reads (H : list (N * acc)) (m : N) : Prop := forall a, In (m, a) H -> a = AR.

Theorem queue_reads_unordered init l m n k :
  init_ok init -> only_reads (history init l) m -> only_reads (history init l) n ->
  ~ In (m, n, k) (edges init l).
Proof.
  intros Hi Hm Hn Hin.
  destruct (queue_edges_justified init l m n k Hi Hin) as [_ [b [Hp Hc]]].
  apply pairs_In_l in Hp. destruct Hp as [H1 H2].
  rewrite (Hm _ H1), (Hn _ H2) in Hc. discriminate.
Qed.

(** ** Soundness of the instance checker *)

Lemma reach_fuel_sound E m : forall fuel front,
  (forall x, In x front -> reach E m x) ->
  forall x, In x (reach_fuel fuel E front) -> reach E m x.
Proof.
  induction fuel as [|f IH]; intros front Hf x Hx; cbn [reach_fuel] in Hx; [auto|].
  apply IH in Hx; [exact Hx|]. intros y Hy. apply in_app_or in Hy. destruct Hy as [Hy|Hy]; [auto|].
  apply filter_In in Hy. destruct Hy as [Hy _]. apply in_map_iff in Hy.
  destruct Hy as [[[s d] k] [Heq He]]. cbn in Heq. subst y.
  apply filter_In in He. destruct He as [He Hs]. cbn in Hs. apply memN_In in Hs.
  eapply rt_trans; [apply Hf; exact Hs | apply rt_step; exists k; exact He].
Qed.

Lemma reaches_sound E m n : reaches E m n = true -> reach E m n.
Proof.
  unfold reaches. intros Hm. apply memN_In in Hm.
  eapply reach_fuel_sound; [|exact Hm]. intros x [<-|[]]. apply rt_refl.
Qed.

Lemma acc_eqb_eq a b : acc_eqb a b = true -> a = b.
Proof. destruct a, b; cbn; congruence. Qed.

Theorem chk_edges_sound H E :
  chk_edges H E = true -> Conn H E /\ Just H E.
Proof.
  unfold chk_edges. intros Hc. apply andb_prop in Hc. destruct Hc as [Hc Hj]. split.
  - intros m a n b Hin Hcf Hne. unfold chk_connected in Hc. rewrite forallb_forall in Hc.
    specialize (Hc _ Hin). cbn in Hc. rewrite Hcf in Hc.
    destruct (N.eqb_spec m n); [contradiction|]. cbn in Hc. now apply reaches_sound.
  - intros m n k Hin. unfold chk_justified in Hj. rewrite forallb_forall in Hj.
    specialize (Hj _ Hin). unfold justified in Hj. apply andb_prop in Hj. destruct Hj as [Hne Hex].
    cbn in Hne. split; [destruct (N.eqb_spec m n); [discriminate | auto]|].
    apply existsb_exists in Hex. destruct Hex as [[[m' a] [n' b]] [Hp Hq]].
    cbn in Hq. apply andb_prop in Hq. destruct Hq as [Hq Hcf]. apply andb_prop in Hq.
    destruct Hq as [Hq Hk]. apply andb_prop in Hq. destruct Hq as [Hm Hn].
    apply N.eqb_eq in Hm, Hn. apply acc_eqb_eq in Hk. subst. exists b. auto.
Qed.

(** ** Path version of (iii): with nodes in program order, if every access by a node in [m, n]
    is a read, then no path of memory edges leads from [m] to [n]. *)
From Coq Require Import Sorted.

Definition nodes_sorted (H : list (N * acc)) : Prop := StronglySorted N.le (map fst H).

Lemma pairs_sorted H m a n b :
  nodes_sorted H -> In ((m, a), (n, b)) (pairs H) -> (m <= n)%N.
Proof.
  unfold nodes_sorted. induction H as [|[x c] t IH]; cbn [pairs map]; intros Hs Hin; [contradiction|].
  inversion Hs as [|? ? Hs' Hall]; subst. apply in_app_or in Hin. destruct Hin as [Hin | Hin].
  - apply in_map_iff in Hin. destruct Hin as [[y d] [Heq Hy]]. inversion Heq; subst.
    rewrite Forall_forall in Hall. apply Hall. apply in_map_iff. exists (n, b). auto.
  - auto.
Qed.

Theorem queue_edges_forward init l m n k :
  init_ok init -> nodes_sorted (history init l) -> In (m, n, k) (edges init l) -> (m < n)%N.
Proof.
  intros Hi Hs Hin. destruct (queue_edges_justified init l m n k Hi Hin) as [Hne [b [Hp _]]].
  pose proof (pairs_sorted _ _ _ _ _ Hs Hp). lia.
Qed.

Definition reads_between (H : list (N * acc)) (m n : N) : Prop :=
  forall x a, In (x, a) H -> (m <= x <= n)%N -> a = AR.

Theorem queue_reads_no_path init l m n :
  init_ok init -> nodes_sorted (history init l) -> reads_between (history init l) m n ->
  ~ clos_trans N (erel (edges init l)) m n.
Proof.
  intros Hi Hs Hrb Hpath. apply clos_trans_t1n in Hpath.
  assert (Hfwd : forall x y, clos_trans_1n N (erel (edges init l)) x y -> (x < y)%N).
  { intros x y Hxy. induction Hxy as [x y [k Hk] | x y z [k Hk] _ IH].
    - eapply queue_edges_forward; eauto.
    - pose proof (queue_edges_forward init l x y k Hi Hs Hk). lia. }
  assert (Hfirst : exists x k, In (m, x, k) (edges init l) /\ (x <= n)%N).
  { inversion Hpath as [y [k Hk] | y z [k Hk] Hrest]; subst.
    - exists n, k. split; [exact Hk | lia].
    - exists y, k. split; [exact Hk|]. apply Hfwd in Hrest. lia. }
  destruct Hfirst as [x [k [Hk Hx]]].
  pose proof (queue_edges_forward init l m x k Hi Hs Hk) as Hmx.
  destruct (queue_edges_justified init l m x k Hi Hk) as [_ [b [Hp Hc]]].
  apply pairs_In_l in Hp. destruct Hp as [H1 H2].
  assert (k = AR) by (eapply Hrb; [exact H1 | lia]).
  assert (b = AR) by (eapply Hrb; [exact H2 | lia]).
  subst. discriminate.
Qed.
