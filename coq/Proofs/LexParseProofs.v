(** Proofs about Model/LexParse.v: the composition bytes -> lexer model -> [conv] -> parser model
    never yields [Panic] and always ends with a verdict; the DEF*-aware [run_full] likewise, and it
    extends [run] conservatively; soundness of the composition case verdict. *)
From Coq Require Import List NArith ZArith Bool Lia Arith.
From QV Require Import Model.ParsePanic Proofs.ParsePanicProofs.
From QV Require Model.Lex Model.LexNum Model.LexIdent.
From QV Require Import Model.PrintParse Proofs.PrintParseProofs Model.LexParse.
From QV Require Import Proofs.LexProofs.
Import ListNotations.
Local Open Scope nat_scope.

(** * Part 1: bytes to outcome *)

Lemma parse_bytes_with_no_panic : forall intern e bytes, parse_bytes_with intern e bytes <> OPanic.
Proof.
  intros intern e bytes; unfold parse_bytes_with.
  destruct (Lex.lex bytes); [apply run_no_panic | discriminate].
Qed.

Lemma parse_bytes_is_with : forall e bytes,
  exists intern, parse_bytes e bytes = parse_bytes_with intern e bytes.
Proof.
  intros e bytes; unfold parse_bytes, parse_bytes_with.
  destruct (Lex.lex bytes) as [ts|err].
  - exists (intern_in (table_of ts)). reflexivity.
  - exists (fun _ => 0%N). reflexivity.
Qed.

Lemma parse_bytes_no_panic : forall e bytes, parse_bytes e bytes <> OPanic.
Proof.
  intros e bytes. destruct (parse_bytes_is_with e bytes) as [i ->]. apply parse_bytes_with_no_panic.
Qed.

Lemma parse_bytes_with_no_fuel : forall intern e bytes, parse_bytes_with intern e bytes <> OFuel.
Proof.
  intros intern e bytes; unfold parse_bytes_with.
  destruct (Lex.lex bytes); [apply run_no_fuel | discriminate].
Qed.

Lemma parse_bytes_with_verdict : forall intern e bytes,
  parse_bytes_with intern e bytes = OOk \/ parse_bytes_with intern e bytes = OErr \/
  parse_bytes_with intern e bytes = OUnk.
Proof.
  intros intern e bytes.
  pose proof (parse_bytes_with_no_panic intern e bytes).
  pose proof (parse_bytes_with_no_fuel intern e bytes).
  destruct (parse_bytes_with intern e bytes); auto; contradiction.
Qed.

Lemma parse_bytes_verdict : forall e bytes,
  parse_bytes e bytes = OOk \/ parse_bytes e bytes = OErr \/ parse_bytes e bytes = OUnk.
Proof.
  intros e bytes. destruct (parse_bytes_is_with e bytes) as [i ->]. apply parse_bytes_with_verdict.
Qed.

(** the verdict's single-rounding shortcut computes [conv_toks] *)
Lemma key_of_norm : forall t, key_of (norm_tok t) = key_of t.
Proof. intros t; destruct t; reflexivity. Qed.

Lemma add_key_norm : forall tbl t, add_key tbl (norm_tok t) = add_key tbl t.
Proof. intros tbl t; unfold add_key; rewrite key_of_norm; reflexivity. Qed.

Lemma fold_add_key_norm : forall ts tbl,
  fold_left add_key (map norm_tok ts) tbl = fold_left add_key ts tbl.
Proof.
  induction ts as [|t ts IH]; intros tbl; cbn [map fold_left]; [reflexivity|].
  rewrite add_key_norm. apply IH.
Qed.

Lemma conv_norm : forall tbl t, conv tbl (norm_tok t) = conv tbl t.
Proof. intros tbl t; destruct t; reflexivity. Qed.

Lemma conv_toks_fast_eq : forall ts, conv_toks_fast ts = conv_toks ts.
Proof.
  intros ts; unfold conv_toks_fast, conv_toks, table_of.
  rewrite fold_add_key_norm, map_map. apply map_ext. intros t; apply conv_norm.
Qed.

(** ** the fallback of [conv] is dead code: the reserved-word tables cover the spelling lists the
    lexer model consults *)
Lemma assoc_combine_mem : forall A (x : list N) (l : list (list N)) (vs : list A),
  length l <= length vs -> LexIdent.mem_bytes x l = true -> is_some (assoc x (combine l vs)) = true.
Proof.
  intros A x; induction l as [|k l IH]; intros vs Hl Hm; [discriminate|].
  destruct vs as [|v vs]; [cbn in Hl; lia|].
  unfold LexIdent.mem_bytes in *. cbn [existsb combine assoc] in *.
  destruct (LexIdent.bytes_eqb x k); [reflexivity|].
  apply IH; [cbn in Hl; lia | exact Hm].
Qed.

Lemma known_keyword_or_identifier : forall name, known (Lex.keyword_or_identifier name) = true.
Proof.
  intros name; unfold Lex.keyword_or_identifier.
  destruct (LexIdent.mem_bytes name LexIdent.keywords) eqn:H1;
    [cbn [known]; apply assoc_combine_mem; [vm_compute; lia | exact H1]|].
  destruct (LexIdent.mem_bytes name LexIdent.commands) eqn:H2;
    [cbn [known]; apply assoc_combine_mem; [vm_compute; lia | exact H2]|].
  destruct (LexIdent.mem_bytes name LexIdent.data_types) eqn:H3;
    [cbn [known]; apply assoc_combine_mem; [vm_compute; lia | exact H3]|].
  destruct (LexIdent.mem_bytes name LexIdent.modifiers) eqn:H4;
    [cbn [known]; apply assoc_combine_mem; [vm_compute; lia | exact H4]|].
  reflexivity.
Qed.


Definition known_parser (p : list N -> Lex.pres Lex.ltoken) : Prop :=
  forall inp t rest, p inp = Lex.POk t rest -> known t = true.

Lemma alt_known : forall ps, Forall known_parser ps -> known_parser (Lex.alt ps).
Proof.
  intros ps Hall inp t rest H. destruct (alt_in _ _ _ _ H) as (p & Hin & Hp).
  rewrite Forall_forall in Hall. exact (Hall p Hin _ _ _ Hp).
Qed.

Lemma value_tag_known : forall t lit, known t = true -> known_parser (Lex.value_tag t lit).
Proof.
  intros t lit Hk inp t' rest H. unfold Lex.value_tag in H.
  destruct (Lex.tag lit inp); [|discriminate]. injection H as <- _. exact Hk.
Qed.

Lemma lex_token_known : known_parser Lex.lex_token.
Proof.
  unfold Lex.lex_token. apply alt_known. repeat constructor.
  - intros inp t rest H. unfold Lex.lex_comment in H.
    destruct (Lex.tag [Lex.c_HASH] inp); [|discriminate].
    destruct (Lex.take_while _ l). injection H as <- _. reflexivity.
  - unfold Lex.lex_punctuation. apply alt_known.
    repeat constructor; try (apply value_tag_known; reflexivity).
    + apply alt_known. repeat constructor; apply value_tag_known; reflexivity.
    + intros inp t rest H. unfold Lex.lex_newlines in H.
      destruct (Lex.is_a Lex.is_lf inp); [injection H as <- _; reflexivity|].
      destruct (Lex.is_a Lex.is_cr_or_lf inp); [injection H as <- _; reflexivity|discriminate].
  - intros inp t rest H. unfold Lex.lex_target, Lex.lex_sigil in H.
    destruct (Lex.tag [Lex.c_AT] inp); [|discriminate].
    destruct (LexIdent.lex_ident_raw l) as [[n r]|]; [|discriminate]. injection H as <- _. reflexivity.
  - intros inp t rest H. unfold Lex.lex_string in H.
    destruct (QuotedString.lex_string inp); try discriminate. injection H as <- _. reflexivity.
  - unfold Lex.lex_operator. apply alt_known.
    repeat constructor; apply value_tag_known; reflexivity.
  - intros inp t rest H. unfold Lex.lex_variable, Lex.lex_sigil in H.
    destruct (Lex.tag [Lex.c_PERCENT] inp); [|discriminate].
    destruct (LexIdent.lex_ident_raw l) as [[n r]|]; [|discriminate]. injection H as <- _. reflexivity.
  - intros inp t rest H. unfold Lex.lex_keyword_or_identifier in H.
    destruct (LexIdent.lex_ident_raw inp) as [[n r]|]; [|discriminate]. injection H as <- _.
    apply known_keyword_or_identifier.
  - intros inp t rest H. unfold Lex.lex_number in H.
    destruct (LexNum.lex_number inp) as [[v|m e] r| |]; try discriminate; injection H as <- _; reflexivity.
Qed.

Lemma lex_item_known : forall inp t at_ rest,
  Lex.lex_item inp = Lex.POk (t, at_) rest -> known t = true.
Proof.
  intros inp t at_ rest H. unfold Lex.lex_item in H.
  destruct (Lex.lex_indent inp) as [t' r'| |] eqn:Hi.
  - injection H as <- _ _. revert Hi. unfold Lex.lex_indent.
    apply alt_known. repeat constructor; apply value_tag_known; reflexivity.
  - destruct (Lex.lex_token _) as [t' r'| |] eqn:Ht; try discriminate.
    injection H as <- _ _. exact (lex_token_known _ _ _ Ht).
  - discriminate.
Qed.

Lemma lex_loop_known : forall fuel total inp sps st r,
  Lex.lex_loop fuel total inp = (sps, st, r) -> forallb known (map Lex.span_tok sps) = true.
Proof.
  induction fuel as [|f IH]; intros total inp sps st r H; cbn [Lex.lex_loop] in H.
  - injection H as <- _ _. reflexivity.
  - destruct (Lex.lex_item inp) as [[t at_] rest| |] eqn:Hi.
    + destruct (Nat.eqb (length rest) (length inp)); [injection H as <- _ _; reflexivity|].
      destruct (Lex.lex_loop f total rest) as [[sps' st'] r'] eqn:Hl. injection H as <- _ _.
      cbn [map Lex.span_tok forallb]. rewrite (lex_item_known _ _ _ _ Hi). exact (IH _ _ _ _ _ Hl).
    + injection H as <- _ _. reflexivity.
    + injection H as <- _ _. reflexivity.
Qed.

(** every token the lexer model produces is in the domain where [conv] does not use its fallback *)
Theorem lex_tokens_known : forall bytes ts, Lex.lex bytes = Lex.LexOk ts -> forallb known ts = true.
Proof.
  intros bytes ts H. unfold Lex.lex, Lex.lex_spans in H.
  destruct (Lex.lex_loop _ _ bytes) as [[sps st] r] eqn:Hl.
  destruct st; try discriminate. destruct (snd _); [|discriminate]. injection H as <-.
  exact (lex_loop_known _ _ _ _ _ _ Hl).
Qed.

Lemma outcome_eqb_eq : forall a b, outcome_eqb a b = true -> a = b.
Proof. intros a b; destruct a, b; cbn; congruence. Qed.

Lemma chk_outcome_sound : forall o, chk_outcome o = true -> o = OOk \/ o = OErr.
Proof. intros o; destruct o; cbn; intros; auto; discriminate. Qed.

(** soundness of the composition verdict *)
Lemma bytes_code_sound : forall e bytes ots o,
  bytes_code e bytes ots o = 0%N ->
  (o = OOk \/ o = OErr) /\
  (ots = None -> (exists err, Lex.lex bytes = Lex.LexErr err) /\ o = OErr /\ parse_bytes e bytes = o) /\
  (forall ts, ots = Some ts ->
     exists ms, Lex.lex bytes = Lex.LexOk ms /\ conv_toks ms = ts /\
       forallb float_ok ms = true /\
       (parse_bytes e bytes = OUnk \/ parse_bytes e bytes = o) /\
       agree_full (parse_bytes_full e bytes) o ts = true).
Proof.
  intros e bytes ots o H; unfold bytes_code in H.
  destruct (chk_outcome o) eqn:Hc; cbn [negb] in H; [|discriminate].
  split; [apply chk_outcome_sound; exact Hc|].
  unfold parse_bytes, parse_bytes_full.
  destruct (Lex.lex bytes) as [ms|err] eqn:Hl; destruct ots as [ts|]; try discriminate.
  - split; [discriminate|]. intros ts' Hts; inversion Hts; subst ts'; clear Hts.
    destruct (forallb float_ok ms && forallb known ms) eqn:Hf; cbn [negb] in H; [|discriminate].
    apply andb_true_iff in Hf; destruct Hf as [Hf _].
    rewrite conv_toks_fast_eq in H.
    destruct (toks_eqb (conv_toks ms) ts) eqn:Heq; cbn [negb] in H; [|discriminate].
    apply toks_eqb_eq in Heq.
    fold (conv_toks ms).
    exists ms; split; [reflexivity|]; split; [exact Heq|]; split; [exact Hf|].
    match type of H with (if ?a && ?b then _ else _) = _ =>
      destruct a eqn:Ha; destruct b eqn:Hb; cbn [andb] in H; try discriminate end.
    split; [|first [exact Hb | reflexivity]].
    destruct (run Repaired e (conv_toks ms)); auto; right; apply outcome_eqb_eq; exact Ha.
  - split; [|discriminate]. intros _.
    destruct (outcome_eqb o OErr) eqn:Ho; [|discriminate].
    apply outcome_eqb_eq in Ho. subst o. split; [exists err; reflexivity|]. split; reflexivity.
Qed.

(** * Part 2: the DEF* commands ([run_full]) *)

(** ** never [Panic] *)
Ltac np_ih IH := try (exfalso; eapply IH; eassumption).

Lemma p_body_np : forall f ts, p_body Repaired f ts <> Panic.
Proof.
  induction f as [|f IH]; intros ts; cbn [p_body]; [discriminate|].
  repeat bmh; try (exfalso; eapply p_instruction_np; eassumption); np_ih IH.
Qed.

Lemma p_block_np : forall ts, p_block Repaired ts <> Panic.
Proof. intros ts; unfold p_block; repeat bmh; exfalso; eapply p_body_np; eassumption. Qed.

Lemma p_attrs_np : forall f ts, p_attrs f ts <> Panic.
Proof.
  induction f as [|f IH]; intros ts; cbn [p_attrs]; [discriminate|].
  repeat bmh; np_ih IH; kill.
Qed.

Ltac kill2 :=
  first [ kill | exfalso; eapply p_block_np; eassumption | exfalso; eapply p_attrs_np; eassumption
        | exfalso; eapply p_expr_list_np; eassumption ].

Lemma p_defcal_gate_np : forall ts, p_defcal_gate Repaired ts <> Panic.
Proof. intros; unfold p_defcal_gate, bind, p_colon; repeat bmh; kill2. Qed.

Lemma p_defcal_measure_np : forall ts, p_defcal_measure Repaired ts <> Panic.
Proof. intros; unfold p_defcal_measure, bind, p_colon; repeat bmh; kill2. Qed.

Lemma p_defcircuit_np : forall ts, p_defcircuit Repaired ts <> Panic.
Proof. intros; unfold p_defcircuit, bind, p_colon; repeat bmh; kill2. Qed.

Lemma p_defframe_np : forall ts, p_defframe ts <> Panic.
Proof. intros; unfold p_defframe, bind, p_colon; repeat bmh; kill2. Qed.

Lemma p_defwaveform_np : forall ts, p_defwaveform ts <> Panic.
Proof. intros; unfold p_defwaveform, bind, p_expr_list1; repeat bmh; kill2. Qed.

Lemma p_row_tail_np : forall f ts, p_row_tail f ts <> Panic.
Proof.
  induction f as [|f IH]; intros ts; cbn [p_row_tail]; [discriminate|].
  repeat bmh; np_ih IH; kill.
Qed.

Lemma p_row_np : forall ts, p_row ts <> Panic.
Proof.
  intros; unfold p_row; repeat bmh; try kill; exfalso; eapply p_row_tail_np; eassumption.
Qed.

Lemma p_pauli_term_np : forall ts, p_pauli_term ts <> Panic.
Proof. intros; unfold p_pauli_term; repeat bmh; kill. Qed.

Lemma p_lines_np : forall A (pe : list tok -> res A), (forall ts, pe ts <> Panic) ->
  forall f ts, p_lines pe f ts <> Panic.
Proof.
  intros A pe Hpe; induction f as [|f IH]; intros ts; cbn [p_lines]; [discriminate|].
  unfold bind; repeat bmh; np_ih IH; exfalso; eapply Hpe; eassumption.
Qed.

Lemma p_spec_lines_np : forall A (pe : list tok -> res A), (forall ts, pe ts <> Panic) ->
  forall ts, p_spec_lines pe ts <> Panic.
Proof. intros A pe Hpe ts; unfold p_spec_lines; repeat bmh; apply p_lines_np; exact Hpe. Qed.

Lemma p_defgate_np : forall ts, p_defgate ts <> Panic.
Proof.
  intros; unfold p_defgate, bind, p_colon, p_permutation; repeat bmh;
    exfalso; first [ eapply (p_spec_lines_np _ p_row p_row_np); eassumption
                   | eapply (p_spec_lines_np _ p_pauli_term p_pauli_term_np); eassumption
                   | eapply (p_spec_lines_np _ p_gate p_gate_np); eassumption ].
Qed.

Lemma p_item_np : forall ts, p_item Repaired ts <> Panic.
Proof.
  intros ts; unfold p_item, bind.
  repeat bmh; first [ apply p_defcal_measure_np | apply p_defcal_gate_np | apply p_defcircuit_np
                    | apply p_defframe_np | apply p_defwaveform_np | apply p_defgate_np
                    | exfalso; eapply p_instruction_np; eassumption ].
Qed.

Lemma p_items_loop_np : forall f ts, p_items_loop Repaired f ts <> Panic.
Proof.
  induction f as [|f IH]; intros; cbn [p_items_loop].
  - repeat bmh.
  - repeat bmh; np_ih IH; exfalso; eapply p_item_np; eassumption.
Qed.

Theorem run_full_no_panic : forall e ts, run_full Repaired e ts <> OPanic.
Proof.
  intros e ts; destruct e; cbn [run_full]; try apply run_no_panic; unfold all_consumed, p_items.
  - repeat bmh. exfalso; eapply p_items_loop_np; eassumption.
  - repeat bmh. exfalso; eapply p_items_loop_np; eassumption.
Qed.

(** ** input consumption and fuel *)
Lemma p_body_len : forall vr f ts l r, p_body vr f ts = Ok l r -> length r <= length ts.
Proof.
  induction f as [|f IH]; intros ts l r H; cbn [p_body] in H; [discriminate|].
  destruct ts as [|t ts]; [inv_ok; len|].
  destruct t; inv_ok; len.
  destruct ts as [|t ts]; [inv_ok; len|].
  destruct t; inv_ok; len.
  pose proof (skip_len ts) as Hs.
  destruct (skip ts) as [|t1 ts1] eqn:Hsk; [inv_ok; len|].
  destruct (p_instruction vr (t1 :: ts1)) eqn:Hi; try discriminate.
  apply p_instruction_len in Hi.
  destruct (p_body vr f rest) eqn:Hb; try discriminate. inv_ok. apply IH in Hb. len.
Qed.

Lemma p_body_nf : forall vr f ts, length ts < f -> p_body vr f ts <> Fuel.
Proof.
  induction f as [|f IH]; intros ts Hf; [lia|]. cbn [p_body].
  destruct ts as [|t ts]; [discriminate|].
  destruct t; try discriminate.
  destruct ts as [|t ts]; [discriminate|].
  destruct t; try discriminate.
  pose proof (skip_len ts) as Hs.
  destruct (skip ts) as [|t1 ts1] eqn:Hsk; [discriminate|].
  destruct (p_instruction vr (t1 :: ts1)) eqn:Hi; try discriminate.
  - apply p_instruction_len in Hi. destruct (p_body vr f rest) eqn:Hb; try discriminate.
    exfalso. eapply IH; [|exact Hb]. len.
  - exfalso. eapply p_instruction_nf; eauto.
Qed.

Lemma p_block_len : forall vr ts l r, p_block vr ts = Ok l r -> length r <= length ts.
Proof.
  intros vr ts l r H; unfold p_block in H.
  destruct (p_body vr (S (length ts)) ts) eqn:Hb; try discriminate.
  apply p_body_len in Hb. destruct a; inv_ok; try exact Hb.
Qed.

Lemma p_block_nf : forall vr ts, p_block vr ts <> Fuel.
Proof.
  intros vr ts H; unfold p_block in H.
  destruct (p_body vr (S (length ts)) ts) eqn:Hb; try discriminate;
    try (destruct a; discriminate).
  eapply p_body_nf; [|exact Hb]. lia.
Qed.

Lemma p_attrs_len : forall f ts l r, p_attrs f ts = Ok l r -> length r <= length ts.
Proof.
  induction f as [|f IH]; intros ts l r H; cbn [p_attrs] in H; [discriminate|].
  repeat bmh; inv_ok; use_len;
    repeat match goal with Hx : p_attrs f _ = Ok _ _ |- _ => apply IH in Hx end; len.
Qed.

Lemma p_attrs_nf : forall f ts, length ts < f -> p_attrs f ts <> Fuel.
Proof.
  induction f as [|f IH]; intros ts Hf; [lia|]. cbn [p_attrs]. intros H.
  repeat bmh; use_len;
    try (eapply p_expr_no_fuel; eassumption);
    match goal with Hx : p_attrs f _ = Fuel |- _ => eapply IH; [|exact Hx]; len end.
Qed.

Lemma p_vars_tail_len : forall n ts l r, length ts <= n -> p_vars_tail ts = (l, r) -> length r <= length ts.
Proof.
  induction n as [|n IH]; intros ts l r Hn H.
  - destruct ts; [|cbn in Hn; lia]. cbn in H. inv_ok. len.
  - destruct ts as [|t ts]; cbn [p_vars_tail] in H; [inv_ok; len|].
    repeat bmh; inv_ok; len.
    match goal with Hx : p_vars_tail _ = (_, _) |- _ => apply IH in Hx; len end.
Qed.

Lemma p_var_params_len : forall ts l r, p_var_params ts = (l, r) -> length r <= length ts.
Proof.
  intros ts l r H; unfold p_var_params in H.
  repeat bmh; inv_ok; len;
    match goal with Hx : p_vars_tail _ = (_, _) |- _ => eapply p_vars_tail_len in Hx; [|reflexivity]; len end.
Qed.

Lemma p_qvars_len : forall ts l r, p_qvars ts = (l, r) -> length r <= length ts.
Proof.
  induction ts as [|t ts IH]; intros l r H; cbn [p_qvars] in H; [inv_ok; len|].
  destruct t; inv_ok; len; destruct (p_qvars ts) as [l0 r0] eqn:Hq; inv_ok;
    specialize (IH _ _ eq_refl); len.
Qed.

Lemma p_idents_len : forall ts l r, p_idents ts = (l, r) -> length r <= length ts.
Proof.
  induction ts as [|t ts IH]; intros l r H; cbn [p_idents] in H; [inv_ok; len|].
  destruct t; inv_ok; len; destruct (p_idents ts) as [l0 r0] eqn:Hq; inv_ok;
    specialize (IH _ _ eq_refl); len.
Qed.

Lemma p_ints_tail_len : forall n ts l r, length ts <= n -> p_ints_tail ts = (l, r) -> length r <= length ts.
Proof.
  induction n as [|n IH]; intros ts l r Hn H.
  - destruct ts; [|cbn in Hn; lia]. cbn in H. inv_ok. len.
  - destruct ts as [|t ts]; cbn [p_ints_tail] in H; [inv_ok; len|].
    repeat bmh; inv_ok; len.
    match goal with Hx : p_ints_tail _ = (_, _) |- _ => apply IH in Hx; len end.
Qed.

Lemma skip_indents_len : forall ts, length (skip_indents ts) <= length ts.
Proof. induction ts as [|t ts IH]; cbn [skip_indents]; [lia|]. destruct t; cbn [length]; lia. Qed.

Lemma p_colon_len : forall ts u r, p_colon ts = Ok u r -> length r < length ts.
Proof. intros ts u r H; unfold p_colon in H; repeat bmh; inv_ok; len. Qed.

Ltac use_len2 :=
  use_len;
  repeat (match goal with
          | H : p_gate _ = Ok _ _ |- _ => apply p_gate_len in H
          | H : p_colon _ = Ok _ _ |- _ => apply p_colon_len in H
          | H : p_block _ _ = Ok _ _ |- _ => apply p_block_len in H
          | H : p_attrs _ _ = Ok _ _ |- _ => apply p_attrs_len in H
          | H : p_var_params _ = (_, _) |- _ => apply p_var_params_len in H
          | H : p_qvars _ = (_, _) |- _ => apply p_qvars_len in H
          | H : p_idents _ = (_, _) |- _ => apply p_idents_len in H
          | H : p_expr_list _ = Ok _ _ |- _ => apply p_expr_list_len in H
          | H : wf_ext _ = Some (_, _) |- _ => apply wf_ext_len in H
          end).

Lemma p_defcal_gate_len : forall vr ts i r, p_defcal_gate vr ts = Ok i r -> length r <= length ts.
Proof.
  intros vr ts i r H; unfold p_defcal_gate in H.
  destruct (p_gate ts) as [g r0| | | |] eqn:Hg; try discriminate.
  apply p_gate_len in Hg. destruct g; try discriminate.
  unfold bind in H. destruct (p_colon r0) as [u r1| | | |] eqn:Hc; try discriminate.
  apply p_colon_len in Hc.
  destruct (p_block vr r1) as [b r2| | | |] eqn:Hb; try discriminate.
  apply p_block_len in Hb. inv_ok. len.
Qed.

Lemma p_defcal_measure_len : forall vr ts i r, p_defcal_measure vr ts = Ok i r -> length r <= length ts.
Proof.
  intros vr ts i r H; unfold p_defcal_measure in H.
  match type of H with (let '(_, _) := ?k in _) = _ => destruct k as [name r1] eqn:Hk end.
  assert (Hr1 : length r1 <= length ts) by (repeat bmh; inv_ok; len).
  clear Hk. unfold bind in H.
  destruct (p_qubit r1) as [q r2| | | |] eqn:Hq; try discriminate. apply p_qubit_len in Hq.
  match type of H with (let '(_, _) := ?k in _) = _ => destruct k as [target r3] eqn:Hk end.
  assert (Hr3 : length r3 <= length r2) by (repeat bmh; inv_ok; len).
  clear Hk.
  destruct (p_colon r3) as [u r4| | | |] eqn:Hc; try discriminate. apply p_colon_len in Hc.
  destruct (p_block vr r4) as [b r5| | | |] eqn:Hb; try discriminate.
  apply p_block_len in Hb. inv_ok. len.
Qed.

Lemma p_defcircuit_len : forall vr ts i r, p_defcircuit vr ts = Ok i r -> length r <= length ts.
Proof. intros vr ts i r H; unfold p_defcircuit, bind in H; repeat bmh; inv_ok; use_len2; len. Qed.

Lemma p_defframe_len : forall ts i r, p_defframe ts = Ok i r -> length r <= length ts.
Proof. intros ts i r H; unfold p_defframe, bind in H; repeat bmh; inv_ok; use_len2; len. Qed.

Lemma p_defwaveform_len : forall ts i r, p_defwaveform ts = Ok i r -> length r <= length ts.
Proof.
  intros ts i r H; unfold p_defwaveform, bind, p_expr_list1 in H; repeat bmh; inv_ok; use_len2; len.
Qed.

Lemma p_defcal_gate_nf : forall vr ts, p_defcal_gate vr ts <> Fuel.
Proof.
  intros vr ts H; unfold p_defcal_gate, bind, p_colon in H; repeat bmh;
    first [eapply p_gate_nf; eassumption | eapply p_block_nf; eassumption].
Qed.

Lemma p_defcal_measure_nf : forall vr ts, p_defcal_measure vr ts <> Fuel.
Proof.
  intros vr ts H; unfold p_defcal_measure, bind, p_colon in H; repeat bmh;
    first [eapply p_qubit_nf; eassumption | eapply p_block_nf; eassumption].
Qed.

Lemma p_defcircuit_nf : forall vr ts, p_defcircuit vr ts <> Fuel.
Proof.
  intros vr ts H; unfold p_defcircuit, bind, p_colon in H; repeat bmh; eapply p_block_nf; eassumption.
Qed.

Lemma p_defframe_nf : forall ts, p_defframe ts <> Fuel.
Proof.
  intros ts H; unfold p_defframe, bind, p_colon in H; repeat bmh;
    first [eapply p_frame_nf; eassumption | eapply p_attrs_nf; [|eassumption]; lia].
Qed.

Lemma p_defwaveform_nf : forall ts, p_defwaveform ts <> Fuel.
Proof.
  intros ts H; unfold p_defwaveform, bind, p_expr_list1 in H; repeat bmh;
    eapply p_expr_list_nf; eassumption.
Qed.

(** ** DEFGATE *)
Lemma p_row_tail_len : forall f ts l r, p_row_tail f ts = Ok l r -> length r <= length ts.
Proof.
  induction f as [|f IH]; intros ts l r H; cbn [p_row_tail] in H; [discriminate|].
  destruct ts as [|t ts]; [inv_ok; len|]. destruct t; inv_ok; len.
  pose proof (skip_indents_len ts) as Hs.
  destruct (p_expr (skip_indents ts)) eqn:He; inv_ok; len.
  apply p_expr_len in He. destruct (p_row_tail f rest) eqn:Ht; inv_ok.
  apply IH in Ht. len.
Qed.

Lemma p_row_tail_nf : forall f ts, length ts < f -> p_row_tail f ts <> Fuel.
Proof.
  induction f as [|f IH]; intros ts Hf; [lia|]. cbn [p_row_tail].
  destruct ts as [|t ts]; [discriminate|]. destruct t; try discriminate.
  pose proof (skip_indents_len ts) as Hs.
  destruct (p_expr (skip_indents ts)) eqn:He; try discriminate.
  - apply p_expr_len in He. destruct (p_row_tail f rest) eqn:Ht; try discriminate.
    exfalso. eapply IH; [|exact Ht]. len.
  - exfalso. eapply p_expr_no_fuel; eauto.
Qed.

Lemma p_row_len : forall ts l r, p_row ts = Ok l r -> length r <= length ts.
Proof.
  intros ts l r H; unfold p_row in H. destruct (p_expr ts) eqn:He; inv_ok; len.
  apply p_expr_len in He. destruct (p_row_tail (S (length rest)) rest) eqn:Ht; inv_ok.
  apply p_row_tail_len in Ht. len.
Qed.

Lemma p_row_nf : forall ts, p_row ts <> Fuel.
Proof.
  intros ts H; unfold p_row in H. destruct (p_expr ts) eqn:He; try discriminate.
  - destruct (p_row_tail (S (length rest)) rest) eqn:Ht; try discriminate.
    eapply p_row_tail_nf; [|exact Ht]. lia.
  - eapply p_expr_no_fuel; eauto.
Qed.

Lemma p_pauli_term_len : forall ts x r, p_pauli_term ts = Ok x r -> length r <= length ts.
Proof.
  intros ts x r H; unfold p_pauli_term in H; repeat bmh; inv_ok; use_len2; len.
Qed.

Lemma p_pauli_term_nf : forall ts, p_pauli_term ts <> Fuel.
Proof. intros ts H; unfold p_pauli_term in H; repeat bmh; eapply p_expr_no_fuel; eassumption. Qed.

Lemma p_gate_len_le : forall ts i r, p_gate ts = Ok i r -> length r <= length ts.
Proof. intros ts i r H; apply p_gate_len in H; lia. Qed.

Section Lines.
  Context {A : Type} (pe : list tok -> res A).
  Hypothesis pe_len : forall ts x r, pe ts = Ok x r -> length r <= length ts.
  Hypothesis pe_nf : forall ts, pe ts <> Fuel.

  Lemma p_lines_len : forall f ts l r, p_lines pe f ts = Ok l r -> length r <= length ts.
  Proof.
    induction f as [|f IH]; intros ts l r H; cbn [p_lines] in H; [discriminate|].
    destruct ts as [|t ts]; [discriminate|]. destruct t; try discriminate.
    unfold bind in H. destruct (pe ts) as [x r1| | | |] eqn:Hp; try discriminate.
    apply pe_len in Hp.
    destruct r1 as [|t1 r1]; [inv_ok; len|].
    destruct t1; inv_ok; len.
    destruct r1 as [|t2 r2]; [inv_ok; len|].
    destruct t2; inv_ok; len.
    destruct (p_lines pe f (TIndent :: r2)) eqn:Hl; inv_ok; len.
    apply IH in Hl. len.
  Qed.

  Lemma p_lines_nf : forall f ts, length ts < f -> p_lines pe f ts <> Fuel.
  Proof.
    induction f as [|f IH]; intros ts Hf; [lia|]. cbn [p_lines].
    destruct ts as [|t ts]; [discriminate|]. destruct t; try discriminate.
    unfold bind. destruct (pe ts) as [x r1| | | |] eqn:Hp; try discriminate.
    - apply pe_len in Hp.
      destruct r1 as [|t1 r1]; [discriminate|].
      destruct t1; try discriminate.
      destruct r1 as [|t2 r2]; [discriminate|].
      destruct t2; try discriminate.
      destruct (p_lines pe f (TIndent :: r2)) eqn:Hl; try discriminate.
      exfalso. eapply IH; [|exact Hl]. len.
    - exfalso. eapply pe_nf; eauto.
  Qed.

  Lemma p_spec_lines_len : forall ts l r, p_spec_lines pe ts = Ok l r -> length r <= length ts.
  Proof.
    intros ts l r H; unfold p_spec_lines in H.
    destruct ts as [|t ts]; [discriminate|]. destruct t; try discriminate.
    apply p_lines_len in H. len.
  Qed.

  Lemma p_spec_lines_nf : forall ts, p_spec_lines pe ts <> Fuel.
  Proof.
    intros ts H; unfold p_spec_lines in H.
    destruct ts as [|t ts]; [discriminate|]. destruct t; try discriminate.
    eapply p_lines_nf; [|exact H]. lia.
  Qed.
End Lines.

Lemma p_permutation_len : forall ts l r, p_permutation ts = Ok l r -> length r <= length ts.
Proof.
  intros ts l r H; unfold p_permutation in H; repeat bmh; inv_ok.
  match goal with Hx : p_ints_tail _ = (_, _) |- _ => eapply p_ints_tail_len in Hx; [|reflexivity] end.
  len.
Qed.

Lemma p_defgate_len : forall ts i r, p_defgate ts = Ok i r -> length r <= length ts.
Proof.
  intros ts i r H; unfold p_defgate in H.
  destruct ts as [|t ts]; [discriminate|]. destruct t; try discriminate.
  destruct (p_var_params ts) as [ps r1] eqn:Hv. apply p_var_params_len in Hv.
  destruct (p_idents r1) as [args r2] eqn:Hi. apply p_idents_len in Hi.
  match type of H with (let '(_, _) := ?k in _) = _ => destruct k as [kind r3] eqn:Hk end.
  assert (Hr3 : length r3 <= length r2) by (repeat bmh; inv_ok; len).
  clear Hk. unfold bind in H.
  destruct (p_colon r3) as [u r4| | | |] eqn:Hc; try discriminate. apply p_colon_len in Hc.
  destruct kind;
    match type of H with match ?p with _ => _ end = _ => destruct p eqn:Hs; try discriminate end;
    inv_ok;
    first [ apply (p_spec_lines_len p_row p_row_len) in Hs
          | apply p_permutation_len in Hs
          | apply (p_spec_lines_len p_pauli_term p_pauli_term_len) in Hs
          | apply (p_spec_lines_len p_gate p_gate_len_le) in Hs ]; len.
Qed.

Lemma p_defgate_nf : forall ts, p_defgate ts <> Fuel.
Proof.
  intros ts H; unfold p_defgate in H.
  destruct ts as [|t ts]; [discriminate|]. destruct t; try discriminate.
  destruct (p_var_params ts) as [ps r1].
  destruct (p_idents r1) as [args r2].
  match type of H with (let '(_, _) := ?k in _) = _ => destruct k as [kind r3] end.
  unfold bind, p_colon, p_permutation in H.
  destruct r3 as [|t3 r3]; [discriminate|]. destruct t3; try discriminate.
  destruct kind; repeat bmh;
    first [ eapply (p_spec_lines_nf p_row p_row_len p_row_nf); eassumption
          | eapply (p_spec_lines_nf p_pauli_term p_pauli_term_len p_pauli_term_nf); eassumption
          | eapply (p_spec_lines_nf p_gate p_gate_len_le p_gate_nf); eassumption ].
Qed.

(** ** items *)
Lemma p_item_len : forall vr ts i r, p_item vr ts = Ok i r -> length r < length ts.
Proof.
  intros vr ts i r H; unfold p_item in H.
  assert (Hplain : forall ts, bind (p_instruction vr ts) (fun i r => Ok (Plain i) r) = Ok i r ->
                   length r < length ts).
  { intros ts0 H0; unfold bind in H0. destruct (p_instruction vr ts0) eqn:Hi; try discriminate.
    inv_ok. eapply p_instruction_len; eauto. }
  destruct ts as [|t ts]; [apply Hplain in H; exact H|].
  destruct t; try (apply Hplain in H; exact H).
  destruct c; try (apply Hplain in H; exact H).
  - destruct ts as [|t ts]; [apply p_defcal_gate_len in H; len|].
    destruct t; try (apply p_defcal_gate_len in H; len).
    destruct c; try (apply p_defcal_gate_len in H; len).
    apply p_defcal_measure_len in H; len.
  - apply p_defcircuit_len in H; len.
  - apply p_defframe_len in H; len.
  - apply p_defgate_len in H; len.
  - apply p_defwaveform_len in H; len.
Qed.

Lemma p_item_nf : forall vr ts, p_item vr ts <> Fuel.
Proof.
  intros vr ts H; unfold p_item in H.
  assert (Hplain : forall ts, bind (p_instruction vr ts) (fun i r => Ok (Plain i) r) <> Fuel).
  { intros ts0 H0; unfold bind in H0. destruct (p_instruction vr ts0) eqn:Hi; try discriminate.
    eapply p_instruction_nf; eauto. }
  destruct ts as [|t ts]; [eapply Hplain; exact H|].
  destruct t; try (eapply Hplain; exact H).
  destruct c; try (eapply Hplain; exact H).
  - destruct ts as [|t ts]; [eapply p_defcal_gate_nf; exact H|].
    destruct t; try (eapply p_defcal_gate_nf; exact H).
    destruct c; try (eapply p_defcal_gate_nf; exact H).
    eapply p_defcal_measure_nf; exact H.
  - eapply p_defcircuit_nf; exact H.
  - eapply p_defframe_nf; exact H.
  - eapply p_defgate_nf; exact H.
  - eapply p_defwaveform_nf; exact H.
Qed.

Lemma p_items_loop_nf : forall vr f ts, length ts < f -> p_items_loop vr f ts <> Fuel.
Proof.
  induction f as [|f IH]; intros ts Hf; [lia|]. cbn [p_items_loop].
  pose proof (skip_len ts) as Hs.
  destruct (skip ts) as [|t ts1] eqn:Hsk; [discriminate|].
  destruct (p_item vr (t :: ts1)) eqn:Hi; try discriminate.
  - apply p_item_len in Hi. destruct (p_items_loop vr f rest) eqn:Hl; try discriminate.
    exfalso. eapply IH; [|exact Hl]. len.
  - exfalso. eapply p_item_nf; eauto.
Qed.

Theorem run_full_no_fuel : forall vr e ts, run_full vr e ts <> OFuel.
Proof.
  intros vr e ts; destruct e; cbn [run_full]; try apply run_no_fuel; unfold all_consumed, p_items.
  - repeat bmh. exfalso; eapply p_items_loop_nf; [|eassumption]. lia.
  - repeat bmh. exfalso; eapply p_items_loop_nf; [|eassumption]. lia.
Qed.

(** ** [run_full] extends [run]: wherever [run] has a verdict, [run_full] has the same *)
Lemma p_item_plain : forall vr ts, p_instruction vr ts <> Unk ->
  p_item vr ts = bind (p_instruction vr ts) (fun i r => Ok (Plain i) r).
Proof.
  intros vr ts H. destruct ts as [|t ts]; [reflexivity|].
  destruct t; try reflexivity. destruct c; try reflexivity; exfalso; apply H; reflexivity.
Qed.

Definition lift_items (r : res (list instr)) : res (list item) :=
  match r with
  | Ok l rest => Ok (map Plain l) rest
  | Err => Err | Panic => Panic | Unk => Unk | Fuel => Fuel
  end.

Lemma p_items_loop_conservative : forall vr f ts,
  p_program_loop vr f ts <> Unk -> p_items_loop vr f ts = lift_items (p_program_loop vr f ts).
Proof.
  induction f as [|f IH]; intros ts H; cbn [p_program_loop p_items_loop] in *.
  - destruct (skip ts); reflexivity.
  - destruct (skip ts) as [|t ts1]; [reflexivity|].
    destruct (p_instruction vr (t :: ts1)) eqn:Hi; try (exfalso; apply H; reflexivity);
      (rewrite p_item_plain by (rewrite Hi; discriminate)); rewrite Hi; cbn [bind lift_items];
      try reflexivity.
    destruct (p_program_loop vr f rest) eqn:Hl; try (exfalso; apply H; reflexivity);
      (rewrite IH by (rewrite Hl; discriminate)); rewrite Hl; reflexivity.
Qed.

Theorem run_full_conservative : forall vr e ts, run vr e ts <> OUnk -> run_full vr e ts = run vr e ts.
Proof.
  intros vr e ts H; destruct e; cbn [run run_full] in *; try reflexivity;
    unfold p_items, p_program in *.
  - rewrite p_items_loop_conservative.
    + destruct (p_program_loop vr (S (length ts)) ts) as [l r| | | |]; reflexivity.
    + intros Hu; rewrite Hu in H; apply H; reflexivity.
  - rewrite p_items_loop_conservative.
    + destruct (p_program_loop vr (S (length ts)) ts) as [l r| | | |]; try reflexivity.
      cbn [lift_items]. destruct l as [|i [|i2 l]]; reflexivity.
    + intros Hu; rewrite Hu in H; apply H; reflexivity.
Qed.

Theorem run_full_verdict : forall e ts,
  run_full Repaired e ts = OOk \/ run_full Repaired e ts = OErr \/ run_full Repaired e ts = OUnk.
Proof.
  intros e ts. pose proof (run_full_no_panic e ts). pose proof (run_full_no_fuel Repaired e ts).
  destruct (run_full Repaired e ts); auto; contradiction.
Qed.

Lemma parse_bytes_full_no_panic : forall e bytes, parse_bytes_full e bytes <> OPanic.
Proof.
  intros e bytes; unfold parse_bytes_full.
  destruct (Lex.lex bytes); [apply run_full_no_panic | discriminate].
Qed.

Lemma parse_bytes_full_verdict : forall e bytes,
  parse_bytes_full e bytes = OOk \/ parse_bytes_full e bytes = OErr \/ parse_bytes_full e bytes = OUnk.
Proof.
  intros e bytes; unfold parse_bytes_full.
  destruct (Lex.lex bytes); [apply run_full_verdict | auto].
Qed.

(** the composed model with and without the DEF* grammar agree wherever the latter has a verdict *)
Lemma parse_bytes_full_conservative : forall e bytes,
  parse_bytes e bytes <> OUnk -> parse_bytes_full e bytes = parse_bytes e bytes.
Proof.
  intros e bytes; unfold parse_bytes, parse_bytes_full.
  destruct (Lex.lex bytes); [apply run_full_conservative | reflexivity].
Qed.

(** ** the wrapped case verdict *)
Lemma full_single_code_sound : forall vr e ots o,
  full_single_code vr e ots o = 0%N ->
  forall ts, ots = Some ts -> run vr e ts = OUnk -> agree_full (run_full vr e ts) o ts = true.
Proof.
  intros vr e ots o H ts -> Hu. unfold full_single_code in H. rewrite Hu in H.
  destruct (agree_full (run_full vr e ts) o ts); [reflexivity | discriminate].
Qed.

Lemma case_code2_base : forall vr c,
  case_code2 vr (CBase c) = 0%N -> ParsePanic.case_code vr c = 0%N /\ full_code vr c = 0%N.
Proof.
  intros vr c H; cbn [case_code2] in H.
  pose proof (N.le_max_l (ParsePanic.case_code vr c) (full_code vr c)).
  pose proof (N.le_max_r (ParsePanic.case_code vr c) (full_code vr c)).
  split; lia.
Qed.
