(** Block-level C23 (memory) and C24 (frames): the single-queue theorems of
    Proofs/DepQueueProofs.v lifted to the edges of [build] through the per-resource projections. *)
From Coq Require Import List NArith Bool Relations Lia.
From QV Require Import Model.DepQueue Proofs.DepQueueProofs Model.Graph Proofs.GraphProofs
  Proofs.GraphReachProofs.
Import ListNotations.
Local Open Scope N_scope.

(** ** positions of two instructions in the concatenated access sequence *)

Lemma seq_pairs g : (forall node i x, In x (g node i) -> fst x = node) ->
  forall is node term p q i j x y,
    nth_error is p = Some i -> nth_error is q = Some j -> (p < q)%nat ->
    In x (g (node + N.of_nat p) i) -> In y (g (node + N.of_nat q) j) ->
    In (x, y) (pairs (seq_from g node is term)).
Proof.
  intros Hg. induction is as [|h t IH]; intros node term p q i j x y Hp Hq Hlt Hx Hy;
    [destruct p; discriminate|].
  cbn [seq_from]. apply pairs_In_app. destruct q as [|q]; [lia|]. cbn [nth_error] in Hq.
  destruct p as [|p]; cbn [nth_error] in Hp.
  - inversion Hp; subst h. right. left. rewrite N.add_0_r in Hx. split; [exact Hx|].
    apply (seq_from_nth _ _ _ _ q j); [exact Hq|].
    rewrite Nat2N.inj_succ in Hy.
    replace (N.succ node + N.of_nat q) with (node + N.succ (N.of_nat q)) by lia. exact Hy.
  - right. right. apply (IH _ _ p q i j); [exact Hp|exact Hq|lia| |].
    + rewrite Nat2N.inj_succ in Hx.
      replace (N.succ node + N.of_nat p) with (node + N.succ (N.of_nat p)) by lia. exact Hx.
    + rewrite Nat2N.inj_succ in Hy.
      replace (N.succ node + N.of_nat q) with (node + N.succ (N.of_nat q)) by lia. exact Hy.
Qed.

Lemma seq_pairs_term g :
  forall is node term p i j x y,
    nth_error is p = Some i -> term = Some j ->
    In x (g (node + N.of_nat p) i) -> In y (g (node + N.of_nat (length is)) j) ->
    In (x, y) (pairs (seq_from g node is term)).
Proof.
  induction is as [|h t IH]; intros node term p i j x y Hp Ht Hx Hy; [destruct p; discriminate|].
  cbn [seq_from]. apply pairs_In_app.
  assert (Hy' : In y (g (N.succ node + N.of_nat (length t)) j)).
  { cbn [length] in Hy. rewrite Nat2N.inj_succ in Hy.
    replace (N.succ node + N.of_nat (length t)) with (node + N.succ (N.of_nat (length t))) by lia. exact Hy. }
  destruct p as [|p]; cbn [nth_error] in Hp.
  - inversion Hp; subst h. right. left. rewrite N.add_0_r in Hx. split; [exact Hx|].
    apply (seq_from_term _ _ _ _ j); [exact Ht|exact Hy'].
  - right. right. apply (IH _ _ p i j); [exact Hp|exact Ht| |exact Hy'].
    rewrite Nat2N.inj_succ in Hx.
    replace (N.succ node + N.of_nat p) with (node + N.succ (N.of_nat p)) by lia. exact Hx.
Qed.

(** every element of the sequence comes from an instruction or from the terminator *)
Lemma seq_from_inv g : forall is node term x,
  In x (seq_from g node is term) ->
  (exists p i, nth_error is p = Some i /\ In x (g (node + N.of_nat p) i)) \/
  (exists i, term = Some i /\ In x (g (node + N.of_nat (length is)) i)).
Proof.
  induction is as [|h t IH]; intros node term x Hin; cbn [seq_from] in Hin.
  - destruct term as [i|]; [|contradiction]. right. exists i. cbn [length]. rewrite N.add_0_r. auto.
  - apply in_app_or in Hin. destruct Hin as [Hin|Hin].
    + left. exists 0%nat, h. cbn [nth_error]. rewrite N.add_0_r. auto.
    + apply IH in Hin. destruct Hin as [[p [i [Hp Hx]]]|[i [Ht Hx]]].
      * left. exists (S p), i. cbn [nth_error]. split; [exact Hp|]. rewrite Nat2N.inj_succ.
        replace (node + N.succ (N.of_nat p)) with (N.succ node + N.of_nat p) by lia. exact Hx.
      * right. exists i. split; [exact Ht|]. cbn [length]. rewrite Nat2N.inj_succ.
        replace (node + N.succ (N.of_nat (length t))) with (N.succ node + N.of_nat (length t)) by lia. exact Hx.
Qed.

(** ** the labelled edges of a successful build, by label *)

Section Built.
  Variables (is : list info) (term : option info) (L : list ledge).
  Hypothesis HbL : build_l is term = inr L.

  Lemma built_mem r m n k : In (m, n, LMem r k) L <-> In (m, n, k) (edges None (macc r is term)).
  Proof.
    destruct (build_l_inv _ _ _ HbL) as [s [es [Hrun HL]]].
    destruct (run_proj _ _ _ _ _ _ Hrun) as [PM _]. destruct (PM r) as [_ Eq].
    cbn [s_mem st0] in Eq. rewrite qm_get_nil in Eq. unfold edges, macc. fold minit. rewrite <- Eq.
    rewrite pmem_In. subst L. rewrite !in_app_iff. split; [|tauto].
    intros [H|[H|H]]; [exact H| |].
    - apply final_In in H. destruct H as [_ [[H _]|[[f [q [k' [_ [_ H]]]]]|[f [q [k' [_ [_ H]]]]]]]]; discriminate.
    - destruct is; [|contradiction]. destruct H as [H|[]]. discriminate.
  Qed.

  (** a frame-labelled edge is an (unfiltered) queue edge of that frame, or a final link *)
  Lemma built_stable f m n k :
    In (m, n, LStable f k) L ->
    In (m, n, k) (uedges_from (q_new finit) (facc f is term)) \/ n = end_node is.
  Proof.
    destruct (build_l_inv _ _ _ HbL) as [s [es [Hrun HL]]].
    destruct (run_proj _ _ _ _ _ _ Hrun) as [_ [PA _]]. destruct (PA f) as [_ Eq].
    cbn [s_all st0] in Eq. rewrite qm_get_nil in Eq. subst L. rewrite !in_app_iff.
    intros [H|[H|H]].
    - left. unfold facc. rewrite <- Eq. now apply pstable_In.
    - right. apply final_In in H. tauto.
    - destruct is; [|contradiction]. destruct H as [H|[]]. discriminate.
  Qed.

  Lemma built_sched f m n k :
    In (m, n, LSched f k) L ->
    In (m, n, k) (uedges_from (q_new finit) (tacc f is term)) \/ n = end_node is.
  Proof.
    destruct (build_l_inv _ _ _ HbL) as [s [es [Hrun HL]]].
    destruct (run_proj _ _ _ _ _ _ Hrun) as [_ [_ PT]]. destruct (PT f) as [_ Eq].
    cbn [s_timed st0] in Eq. rewrite qm_get_nil in Eq. subst L. rewrite !in_app_iff.
    intros [H|[H|H]].
    - left. unfold tacc. rewrite <- Eq. now apply psched_In.
    - right. apply final_In in H. tauto.
    - destruct is; [|contradiction]. destruct H as [H|[]]. discriminate.
  Qed.

  Lemma built_other m n l :
    In (m, n, l) L -> l = LLead \/ l = LTrail \/ l = LEmpty -> m = 0 \/ n = end_node is.
  Proof.
    destruct (build_l_inv _ _ _ HbL) as [s [es [Hrun HL]]]. subst L. rewrite !in_app_iff.
    intros [H|[H|H]] Hl.
    - destruct (run_labels _ _ _ _ _ _ Hrun _ _ _ H) as [_ Hok].
      destruct Hl as [->|[->| ->]]; cbn in Hok; tauto.
    - apply final_In in H. tauto.
    - destruct is; [|contradiction]. destruct H as [H|[]]. inversion H. auto.
  Qed.
End Built.

(** * F. block-level C23 *)

Definition mrel (E : list gedge) (a b : N) : Prop := exists k, In (a, b, KMem k) E.

Lemma erase_mem l k : erase l = KMem k -> exists r, l = LMem r k.
Proof. destruct l; cbn; intros H; inversion H; eauto. Qed.

Theorem block_mem_conflicts_ordered is term E r m a n b :
  build is term = inr E ->
  In ((m, a), (n, b)) (pairs (macc r is term)) -> conflict a b = true -> m <> n ->
  clos_trans N (mrel E) m n.
Proof.
  intros Hb Hin Hc Hne. destruct (build_inv _ _ _ Hb) as [L [HL ->]].
  pose proof (queue_conflicts_ordered None (macc r is term) m a n b I Hin Hc Hne) as Hp.
  eapply clos_trans_sub; [|exact Hp]. intros x y [k Hk]. exists k.
  apply erased_In. exists (LMem r k). split; [|reflexivity]. now apply (built_mem is term L HL).
Qed.

Theorem block_mem_edges_justified is term E m n k :
  build is term = inr E -> In (m, n, KMem k) E ->
  m <> n /\ exists r b, In ((m, k), (n, b)) (pairs (macc r is term)) /\ conflict k b = true.
Proof.
  intros Hb Hin. destruct (build_inv _ _ _ Hb) as [L [HL ->]].
  apply erased_In in Hin. destruct Hin as [l [Hin Hl]]. apply erase_mem in Hl. destruct Hl as [r ->].
  apply (built_mem is term L HL) in Hin.
  destruct (queue_edges_justified None _ _ _ _ I Hin) as [Hne [b [Hp Hc]]].
  split; [exact Hne|]. exists r, b. auto.
Qed.

Theorem block_mem_reads_unordered is term E m n k :
  build is term = inr E ->
  (forall r, only_reads (macc r is term) m) -> (forall r, only_reads (macc r is term) n) ->
  ~ In (m, n, KMem k) E.
Proof.
  intros Hb Hm Hn Hin. destruct (block_mem_edges_justified _ _ _ _ _ _ Hb Hin) as [_ [r [b [Hp Hc]]]].
  apply pairs_In_l in Hp. destruct Hp as [H1 H2].
  rewrite (Hm r _ H1), (Hn r _ H2) in Hc. discriminate.
Qed.

(** instruction-level reading of the access sequence *)
Definition accesses (i : info) (r : N) (a : acc) : Prop :=
  match a with AR => In r (i_reads i) | AW => In r (i_writes i) | AC => In r (i_caps i) end.

Lemma macc_i_In r node i a : accesses i r a -> In (node, a) (macc_i r node i).
Proof.
  unfold accesses, macc_i. rewrite !in_app_iff. destruct a; intros H; [left|right; left|right; right];
    now apply rep_self.
Qed.

Lemma macc_i_inv r node i x : In x (macc_i r node i) -> fst x = node /\ accesses i r (snd x).
Proof.
  unfold macc_i. rewrite !in_app_iff. intros [H|[H|H]]; pose proof (rep_In _ _ _ _ _ H) as Hr;
    apply rep_const in H; subst x; cbn; auto.
Qed.

(** two instructions of a block (positions p < q) with conflicting accesses to a region *)
Theorem block_mem_instr_ordered is term E p q i j r a b :
  build is term = inr E ->
  nth_error is p = Some i -> nth_error is q = Some j -> (p < q)%nat ->
  accesses i r a -> accesses j r b -> conflict a b = true ->
  clos_trans N (mrel E) (1 + N.of_nat p) (1 + N.of_nat q).
Proof.
  intros Hb Hp Hq Hlt Ha Hb' Hc.
  apply (block_mem_conflicts_ordered is term E r _ a _ b Hb); [|exact Hc|lia].
  unfold macc, macc_from. apply (seq_pairs _ (macc_i_const r) _ _ _ p q i j); auto using macc_i_In.
Qed.

(** an instruction and the block terminator *)
Theorem block_mem_term_ordered is term E p i j r a b :
  build is term = inr E ->
  nth_error is p = Some i -> term = Some j ->
  accesses i r a -> accesses j r b -> conflict a b = true ->
  clos_trans N (mrel E) (1 + N.of_nat p) (end_node is).
Proof.
  intros Hb Hp Ht Ha Hb' Hc.
  assert (Hlen : (p < length is)%nat) by (apply nth_error_Some; congruence).
  rewrite end_node_eq.
  apply (block_mem_conflicts_ordered is term E r _ a _ b Hb); [|exact Hc|lia].
  unfold macc, macc_from. apply (seq_pairs_term _ _ _ _ p i j); auto using macc_i_In.
Qed.

(** every memory edge joins two different instructions (or an instruction and the terminator),
    the earlier one performing an access of the edge's kind to a region the later one also
    accesses, one of the two writing or capturing *)
Definition instr_at (is : list info) (term : option info) (node : N) (i : info) : Prop :=
  (exists p, nth_error is p = Some i /\ node = 1 + N.of_nat p) \/
  (term = Some i /\ node = end_node is).

Lemma macc_instr r is term x :
  In x (macc r is term) -> exists i, instr_at is term (fst x) i /\ accesses i r (snd x).
Proof.
  intros Hin. unfold macc, macc_from in Hin. apply seq_from_inv in Hin.
  destruct Hin as [[p [i [Hp Hx]]]|[i [Ht Hx]]]; apply macc_i_inv in Hx; destruct Hx as [Hn Ha];
    exists i; split; auto.
  - left. exists p. auto.
  - right. split; [exact Ht|]. rewrite end_node_eq. exact Hn.
Qed.

Theorem block_mem_edges_instr is term E m n k :
  build is term = inr E -> In (m, n, KMem k) E ->
  m <> n /\ exists r b i j, instr_at is term m i /\ instr_at is term n j /\
                           accesses i r k /\ accesses j r b /\ conflict k b = true.
Proof.
  intros Hb Hin. destruct (block_mem_edges_justified _ _ _ _ _ _ Hb Hin) as [Hne [r [b [Hp Hc]]]].
  split; [exact Hne|]. apply pairs_In_l in Hp. destruct Hp as [H1 H2].
  destruct (macc_instr _ _ _ _ H1) as [i [Hi Hai]]. destruct (macc_instr _ _ _ _ H2) as [j [Hj Haj]].
  exists r, b, i, j. auto.
Qed.

(** * G. C24 *)

Lemma facc_i_In f node i a :
  In (node, a) (facc_i f node i) <->
  is_rf i = true /\ ((a = AW /\ In f (i_used i)) \/ (a = AR /\ In f (i_blocked i))).
Proof.
  unfold facc_i. destruct (is_rf i); [|cbn [In]; intuition discriminate]. rewrite in_app_iff. split.
  - intros [H|H]; pose proof (rep_In _ _ _ _ _ H) as Hr; apply rep_const in H; inversion H; subst; auto.
  - intros [_ [[-> H]|[-> H]]]; [left|right]; now apply rep_self.
Qed.

Lemma tacc_i_In f node i a :
  In (node, a) (tacc_i f node i) <-> i_sched i = true /\ In (node, a) (facc_i f node i).
Proof. rewrite tacc_i_facc. destruct (i_sched i); cbn [In]; intuition discriminate. Qed.

Lemma touches_In i f : touches i f = true <-> In f (i_used i) \/ In f (i_blocked i).
Proof. unfold touches. rewrite orb_true_iff, !memN_In. tauto. Qed.

(** [fconflict i j] exactly when some frame is accessed by both with at least one [Using] *)
Lemma fconflict_spec i j :
  fconflict i j = true <->
  exists f a b, In (0, a) (facc_i f 0 i) /\ In (0, b) (facc_i f 0 j) /\ conflict a b = true.
Proof.
  unfold fconflict. rewrite !andb_true_iff, orb_true_iff, !existsb_exists. split.
  - intros [[Hi Hj] [[f [Hu Ht]]|[f [Hu Ht]]]]; apply touches_In in Ht.
    + destruct Ht as [Ht|Ht]; [exists f, AW, AW|exists f, AW, AR]; rewrite !facc_i_In; auto 8.
    + destruct Ht as [Ht|Ht]; [exists f, AW, AW|exists f, AR, AW]; rewrite !facc_i_In; auto 8.
  - intros [f [a [b [Ha [Hb Hc]]]]]. apply facc_i_In in Ha, Hb.
    destruct Ha as [Hi [[-> Ha]|[-> Ha]]], Hb as [Hj [[-> Hb]|[-> Hb]]]; try discriminate;
      (split; [auto|]).
    + left. exists f. split; [exact Ha|]. apply touches_In. auto.
    + left. exists f. split; [exact Ha|]. apply touches_In. auto.
    + right. exists f. split; [exact Hb|]. apply touches_In. auto.
Qed.

Lemma facc_i_node f node node' i a : In (node, a) (facc_i f node i) -> In (node', a) (facc_i f node' i).
Proof. rewrite !facc_i_In. auto. Qed.

Lemma erase_stable l : erase l = KStable -> (exists f k, l = LStable f k) \/ l = LLead \/ l = LTrail \/ l = LEmpty.
Proof. destruct l; cbn; intros H; try discriminate; eauto 6. Qed.
Lemma erase_sched l : erase l = KSched -> exists f k, l = LSched f k.
Proof. destruct l; cbn; intros H; try discriminate; eauto. Qed.

(** (i) conflicting RF instructions are ordered by StableOrdering edges, and by Scheduled edges
    when both are timed *)
Theorem frames_conflicts_ordered is term E p q i j :
  build is term = inr E ->
  nth_error is p = Some i -> nth_error is q = Some j -> (p < q)%nat -> fconflict i j = true ->
  clos_trans N (krel KStable E) (1 + N.of_nat p) (1 + N.of_nat q) /\
  (i_sched i = true -> i_sched j = true ->
   clos_trans N (krel KSched E) (1 + N.of_nat p) (1 + N.of_nat q)).
Proof.
  intros Hb Hp Hq Hlt Hc. destruct (build_inv _ _ _ Hb) as [L [HL ->]].
  destruct (build_l_inv _ _ _ HL) as [s [es [Hrun HLeq]]].
  apply fconflict_spec in Hc. destruct Hc as [f [a [b [Ha [Hb' Hc]]]]].
  apply (facc_i_node f 0 (1 + N.of_nat p)) in Ha. apply (facc_i_node f 0 (1 + N.of_nat q)) in Hb'.
  split.
  - assert (Hpairs : In ((1 + N.of_nat p, a), (1 + N.of_nat q, b)) (pairs (facc f is term))).
    { unfold facc, facc_from. apply (seq_pairs _ (facc_i_const f) _ _ _ p q i j); auto. }
    pose proof (stable_between _ _ _ _ Hrun f _ _ _ _ Hpairs Hc) as Hpath.
    eapply clos_trans_sub; [|apply Hpath; lia].
    intros x y [k Hk]. unfold krel. apply erased_In. exists (LStable f k). rewrite HLeq. auto.
  - intros Hsi Hsj.
    assert (Hpairs : In ((1 + N.of_nat p, a), (1 + N.of_nat q, b)) (pairs (tacc f is term))).
    { unfold tacc, tacc_from. apply (seq_pairs _ (tacc_i_const f) _ _ _ p q i j); auto;
        apply tacc_i_In; auto. }
    pose proof (sched_between _ _ _ _ Hrun f _ _ _ _ Hpairs Hc) as Hpath.
    eapply clos_trans_sub; [|apply Hpath; lia].
    intros x y [k Hk]. unfold krel. apply erased_In. exists (LSched f k). rewrite HLeq. auto.
Qed.

(** (ii) every frame edge joins a conflicting pair, or a block boundary *)
Definition frame_pair (is : list info) (sched : bool) (a b : N) : Prop :=
  exists p q i j, nth_error is p = Some i /\ nth_error is q = Some j /\ (p < q)%nat /\
                  a = 1 + N.of_nat p /\ b = 1 + N.of_nat q /\ fconflict i j = true /\
                  (sched = true -> i_sched i = true /\ i_sched j = true).

Lemma queue_edge_pair (g : N -> N -> info -> list (N * acc)) f is term m n k :
  (forall node i x, In x (g f node i) -> fst x = node) ->
  (forall node i, wf_info i = true -> (length (g f node i) <= 1)%nat) ->
  (forall node i, i_role i = RControl -> g f node i = []) ->
  (forall node i a, In (node, a) (g f node i) -> In (node, a) (facc_i f node i)) ->
  wf_block is term = true ->
  In (m, n, k) (uedges_from (q_new finit) (seq_from (g f) 1 is term)) ->
  m = 0 \/ exists p q i j b, nth_error is p = Some i /\ nth_error is q = Some j /\ (p < q)%nat /\
                            m = 1 + N.of_nat p /\ n = 1 + N.of_nat q /\
                            In (m, k) (g f m i) /\ In (n, b) (g f n j) /\ conflict k b = true.
Proof.
  intros Hg Hs Hc Hsub Hwf Hin. unfold wf_block in Hwf. apply andb_prop in Hwf. destruct Hwf as [Hwi Hwt].
  assert (Hsm : smono 0 (seq_from (g f) 1 is term)).
  { apply seq_from_smono; auto. lia. }
  assert (Hq0 : forall y, In y (qnodes (q_new finit)) -> y <= 0).
  { intros y Hy. apply qnodes_new_f in Hy. lia. }
  pose proof (uedges_lt _ _ _ _ _ _ Hq0 Hsm Hin) as [Hlt _].
  rewrite (uedges_edges _ _ _ Hq0 Hsm) in Hin.
  destruct (queue_edges_justified finit _ _ _ _ eq_refl Hin) as [_ [b [Hp Hcf]]].
  unfold history in Hp. cbn [option_map opt_list finit fst snd app pairs] in Hp.
  apply in_app_or in Hp. destruct Hp as [Hp|Hp].
  - left. apply in_map_iff in Hp. destruct Hp as [y [Heq _]]. inversion Heq. reflexivity.
  - right. apply pairs_In_l in Hp. destruct Hp as [H1 H2].
    assert (Hinstr : forall x, In x (seq_from (g f) 1 is term) ->
              exists p i, nth_error is p = Some i /\ fst x = 1 + N.of_nat p /\ In x (g f (fst x) i)).
    { intros x Hx. apply seq_from_inv in Hx. destruct Hx as [[p [i [Hp Hx]]]|[i [Ht Hx]]].
      - exists p, i. pose proof (Hg _ _ _ Hx) as Hn. rewrite Hn. auto.
      - exfalso. unfold wf_term in Hwt. rewrite Ht in Hwt. destruct (i_role i) eqn:Hr; try discriminate.
        rewrite (Hc _ _ Hr) in Hx. contradiction. }
    destruct (Hinstr _ H1) as [p [i [Hp [Hm Hx]]]]. destruct (Hinstr _ H2) as [q [j [Hq [Hn Hy]]]].
    cbn [fst] in Hm, Hn, Hx, Hy. exists p, q, i, j, b. repeat split; auto. lia.
Qed.

Theorem frames_edges_justified is term E a b k :
  build is term = inr E -> wf_block is term = true -> In (a, b, k) E ->
  (k = KStable -> a = 0 \/ b = end_node is \/ frame_pair is false a b) /\
  (k = KSched -> a = 0 \/ b = end_node is \/ frame_pair is true a b).
Proof.
  intros Hb Hwf Hin. destruct (build_inv _ _ _ Hb) as [L [HL ->]].
  apply erased_In in Hin. destruct Hin as [l [Hin Hl]]. split; intros ->.
  - apply erase_stable in Hl. destruct Hl as [[f [k ->]]|Hl].
    + destruct (built_stable _ _ _ HL _ _ _ _ Hin) as [Hq|He]; [|auto].
      destruct (queue_edge_pair (fun f => facc_i f) f is term a b k
                  (facc_i_const f) (facc_i_single f) (facc_i_ctrl f) (fun _ _ _ H => H) Hwf Hq)
        as [H0|[p [q [i [j [b' [Hp [Hq' [Hlt [Ha [Hb' [Hx [Hy Hc]]]]]]]]]]]]]; [auto|].
      right. right. exists p, q, i, j. repeat split; auto; try discriminate.
      apply fconflict_spec. exists f, k, b'. repeat split; auto; eapply facc_i_node; eauto.
    + destruct (built_other _ _ _ HL _ _ _ Hin Hl); auto.
  - apply erase_sched in Hl. destruct Hl as [f [k ->]].
    destruct (built_sched _ _ _ HL _ _ _ _ Hin) as [Hq|He]; [|auto].
    destruct (queue_edge_pair (fun f => tacc_i f) f is term a b k
                (tacc_i_const f) (tacc_i_single f) (tacc_i_ctrl f)
                (fun node i a H => proj2 (proj1 (tacc_i_In f node i a) H)) Hwf Hq)
      as [H0|[p [q [i [j [b' [Hp [Hq' [Hlt [Ha [Hb' [Hx [Hy Hc]]]]]]]]]]]]]; [auto|].
    right. right. apply tacc_i_In in Hx, Hy. destruct Hx as [Hsi Hx], Hy as [Hsj Hy].
    exists p, q, i, j. repeat split; auto.
    apply fconflict_spec. exists f, k, b'. repeat split; auto; eapply facc_i_node; eauto.
Qed.

(** (iii) two instructions without a frame conflict (in particular: two instructions that only
    block the same frames) get no direct frame edge *)
Theorem frames_nonconflicting_unordered is term E p q i j :
  build is term = inr E -> wf_block is term = true ->
  nth_error is p = Some i -> nth_error is q = Some j -> fconflict i j = false ->
  ~ In (1 + N.of_nat p, 1 + N.of_nat q, KStable) E /\ ~ In (1 + N.of_nat p, 1 + N.of_nat q, KSched) E.
Proof.
  intros Hb Hwf Hp Hq Hnc.
  assert (Hq' : (q < length is)%nat) by (apply nth_error_Some; congruence).
  assert (Hbad : forall s, ~ frame_pair is s (1 + N.of_nat p) (1 + N.of_nat q)).
  { intros s [p' [q' [i' [j' [Hp' [Hq'' [_ [Ha [Hb' [Hc _]]]]]]]]]].
    assert (p' = p) by lia. assert (q' = q) by lia. subst p' q'. congruence. }
  split; intros Hin; destruct (frames_edges_justified _ _ _ _ _ _ Hb Hwf Hin) as [H1 H2].
  - destruct (H1 eq_refl) as [H|[H|H]]; [lia|rewrite end_node_eq in H; lia|exact (Hbad _ H)].
  - destruct (H2 eq_refl) as [H|[H|H]]; [lia|rewrite end_node_eq in H; lia|exact (Hbad _ H)].
Qed.

(** * H2. instance checkers for C24 and block-level C23 *)

Lemma number_In : forall is node m i,
  In (m, i) (number node is) <-> exists p, nth_error is p = Some i /\ m = node + N.of_nat p.
Proof.
  induction is as [|h t IH]; intros node m i; cbn [number In].
  - split; [intros []|intros [[|p] [H _]]; discriminate].
  - rewrite IH. split.
    + intros [Heq|[p [Hp Hm]]].
      * inversion Heq; subst. exists 0%nat. cbn. split; [reflexivity|lia].
      * exists (S p). cbn [nth_error]. split; [exact Hp|]. rewrite Nat2N.inj_succ. lia.
    + intros [[|p] [Hp Hm]]; cbn [nth_error] in Hp.
      * left. inversion Hp; subst. f_equal. cbn. lia.
      * right. exists p. split; [exact Hp|]. rewrite Nat2N.inj_succ in Hm. lia.
Qed.

Lemma number_pairs : forall is node m i n j,
  In ((m, i), (n, j)) (pairs (number node is)) <->
  exists p q, (p < q)%nat /\ nth_error is p = Some i /\ nth_error is q = Some j /\
              m = node + N.of_nat p /\ n = node + N.of_nat q.
Proof.
  induction is as [|h t IH]; intros node m i n j; cbn [number pairs].
  - split; [intros []|intros [[|p] [q [_ [H _]]]]; discriminate].
  - rewrite in_app_iff, in_map_iff, IH. split.
    + intros [[[n' j'] [Heq Hin]]|[p [q [Hlt [Hp [Hq [Hm Hn]]]]]]].
      * inversion Heq; subst. apply number_In in Hin. destruct Hin as [q [Hq Hn]].
        exists 0%nat, (S q). cbn [nth_error]. repeat split; auto; [lia|cbn; lia|rewrite Nat2N.inj_succ; lia].
      * exists (S p), (S q). cbn [nth_error]. rewrite !Nat2N.inj_succ. repeat split; auto; lia.
    + intros [p [[|q] [Hlt [Hp [Hq [Hm Hn]]]]]]; [lia|]. cbn [nth_error] in Hq.
      destruct p as [|p]; cbn [nth_error] in Hp.
      * left. inversion Hp; subst h. exists (n, j). split; [f_equal; f_equal; cbn in Hm; lia|].
        apply number_In. exists q. split; [exact Hq|]. rewrite Nat2N.inj_succ in Hn. lia.
      * right. exists p, q. rewrite !Nat2N.inj_succ in *. repeat split; auto; lia.
Qed.

Lemma kind_eqb_eq a b : kind_eqb a b = true -> a = b.
Proof. destruct a, b; cbn; intros H; try discriminate; try reflexivity. f_equal. now apply acc_eqb_eq. Qed.

Lemma only_kind_reach K E m n :
  reaches (plain (only_kind K E)) m n = true -> clos_refl_trans N (krel K E) m n.
Proof.
  intros H. apply reaches_sound, plain_reach in H.
  induction H as [x y [k Hk]|x|x y z _ IH1 _ IH2]; [|apply rt_refl|eapply rt_trans; eauto].
  apply rt_step. unfold only_kind in Hk. apply filter_In in Hk. destruct Hk as [Hin Hk].
  unfold gkind in Hk. cbn [snd] in Hk. apply kind_eqb_eq in Hk. subst. exact Hin.
Qed.

Definition frames_conn_spec (is : list info) (E : list gedge) : Prop :=
  forall p q i j, nth_error is p = Some i -> nth_error is q = Some j -> (p < q)%nat ->
    fconflict i j = true ->
    clos_refl_trans N (krel KStable E) (1 + N.of_nat p) (1 + N.of_nat q) /\
    (i_sched i = true -> i_sched j = true ->
     clos_refl_trans N (krel KSched E) (1 + N.of_nat p) (1 + N.of_nat q)).

Definition frames_just_spec (is : list info) (E : list gedge) : Prop :=
  forall a b k, In (a, b, k) E ->
    (k = KStable -> a = 0 \/ b = end_node is \/ frame_pair is false a b) /\
    (k = KSched -> a = 0 \/ b = end_node is \/ frame_pair is true a b).

Theorem chk_frames_sound is E :
  chk_frames is E = true -> frames_conn_spec is E /\ frames_just_spec is E.
Proof.
  unfold chk_frames. intros H. apply andb_prop in H. destruct H as [Hc Hj]. split.
  - intros p q i j Hp Hq Hlt Hcf. unfold chk_frames_connected in Hc. rewrite forallb_forall in Hc.
    assert (Hin : In ((1 + N.of_nat p, i), (1 + N.of_nat q, j)) (pairs (number 1 is))).
    { apply number_pairs. exists p, q. auto. }
    specialize (Hc _ Hin). cbn in Hc. rewrite Hcf in Hc. apply andb_prop in Hc. destruct Hc as [H1 H2].
    split; [now apply only_kind_reach|]. intros Hsi Hsj. rewrite Hsi, Hsj in H2. now apply only_kind_reach.
  - intros a b k Hin. unfold chk_frames_justified in Hj. rewrite forallb_forall in Hj.
    specialize (Hj _ Hin). unfold frame_edge_ok, gkind, gsrc, gdst in Hj. cbn [fst snd] in Hj.
    assert (Hgen : forall s : bool,
              (N.eqb a 0 || N.eqb b (end_node is) ||
               existsb (fun p : (N * info) * (N * info) =>
                  let '((m, i), (n, j)) := p in
                  N.eqb m a && N.eqb n b && fconflict i j && (if s then i_sched i && i_sched j else true))
                 (pairs (number 1 is))) = true ->
              a = 0 \/ b = end_node is \/ frame_pair is s a b).
    { intros s Hs. apply orb_prop in Hs. destruct Hs as [Hs|Hs]; [apply orb_prop in Hs; destruct Hs as [Hs|Hs]|].
      - left. now apply N.eqb_eq.
      - right. left. now apply N.eqb_eq.
      - right. right. apply existsb_exists in Hs. destruct Hs as [[[m i] [n j]] [Hp Hs]].
        apply andb_prop in Hs. destruct Hs as [Hs Hsch]. apply andb_prop in Hs. destruct Hs as [Hs Hcf].
        apply andb_prop in Hs. destruct Hs as [Hm Hn]. apply N.eqb_eq in Hm, Hn. subst m n.
        apply number_pairs in Hp. destruct Hp as [p [q [Hlt [Hp [Hq [Ha Hb]]]]]].
        exists p, q, i, j. repeat split; auto.
        + subst s. apply andb_prop in Hsch. tauto.
        + subst s. apply andb_prop in Hsch. tauto. }
    split; intros ->.
    + apply (Hgen false). exact Hj.
    + apply (Hgen true). exact Hj.
Qed.

Lemma mem_only_In E m n k : In (m, n, k) (mem_only E) <-> In (m, n, KMem k) E.
Proof.
  unfold mem_only. rewrite in_flat_map. split.
  - intros [[[a b] k'] [Hin Hx]]. unfold gkind, gsrc, gdst in Hx. cbn [fst snd] in Hx.
    destruct k'; try contradiction. destruct Hx as [Heq|[]]. inversion Heq; subst. exact Hin.
  - intros Hin. exists (m, n, KMem k). split; [exact Hin|]. cbn. now left.
Qed.

Lemma macc_region r is term x : In x (macc r is term) -> In r (regions_of is term).
Proof.
  intros Hin. destruct (macc_instr _ _ _ _ Hin) as [i [Hi Ha]].
  unfold regions_of. apply in_flat_map. exists i. split.
  - apply in_or_app. destruct Hi as [[p [Hp _]]|[Ht _]].
    + left. eapply nth_error_In; eauto.
    + right. rewrite Ht. now left.
  - unfold accesses in Ha. rewrite !in_app_iff. destruct (snd x); auto.
Qed.

Lemma mem_only_reach E m n : reach (mem_only E) m n -> clos_refl_trans N (mrel E) m n.
Proof.
  induction 1 as [x y [k Hk]|x|x y z _ IH1 _ IH2]; [|apply rt_refl|eapply rt_trans; eauto].
  apply rt_step. exists k. now apply mem_only_In.
Qed.

Definition mem_block_spec (is : list info) (term : option info) (E : list gedge) : Prop :=
  (forall r m a n b, In ((m, a), (n, b)) (pairs (macc r is term)) -> conflict a b = true -> m <> n ->
                     clos_refl_trans N (mrel E) m n) /\
  (forall m n k, In (m, n, KMem k) E ->
     m <> n /\ exists r b, In ((m, k), (n, b)) (pairs (macc r is term)) /\ conflict k b = true).

Theorem chk_mem_block_sound is term E : chk_mem_block is term E = true -> mem_block_spec is term E.
Proof.
  unfold chk_mem_block. intros H. apply andb_prop in H. destruct H as [Hc Hj]. split.
  - intros r m a n b Hin Hcf Hne. rewrite forallb_forall in Hc.
    assert (Hr : In r (regions_of is term)).
    { apply pairs_In_l in Hin. destruct Hin as [Hin _]. eapply macc_region; eauto. }
    specialize (Hc _ Hr). unfold chk_connected in Hc. rewrite forallb_forall in Hc.
    specialize (Hc _ Hin). cbn in Hc. rewrite Hcf in Hc. destruct (N.eqb_spec m n); [contradiction|].
    cbn in Hc. apply reaches_sound in Hc. now apply mem_only_reach.
  - intros m n k Hin. apply mem_only_In in Hin. rewrite forallb_forall in Hj. specialize (Hj _ Hin).
    apply existsb_exists in Hj. destruct Hj as [r [_ Hj]].
    unfold justified in Hj. apply andb_prop in Hj. destruct Hj as [Hne Hex].
    cbn in Hne. split; [destruct (N.eqb_spec m n); [discriminate|auto]|].
    apply existsb_exists in Hex. destruct Hex as [[[m' a] [n' b]] [Hp Hq]].
    cbn in Hq. apply andb_prop in Hq. destruct Hq as [Hq Hcf]. apply andb_prop in Hq.
    destruct Hq as [Hq Hk]. apply andb_prop in Hq. destruct Hq as [Hm Hn].
    apply N.eqb_eq in Hm, Hn. apply acc_eqb_eq in Hk. subst. exists r, b. auto.
Qed.

(** the block-level verdict of the C23 case files (Model/GraphMem.v) accepts only memory-edge
    lists that satisfy the block-level specification *)
From QV Require Import Model.GraphMem.

Lemma block_verdict_sound is term M :
  block_verdict is term M = 0%N -> mem_block_spec is term (as_gedges M).
Proof.
  unfold block_verdict. destruct (chk_mem_block is term (as_gedges M)) eqn:H; cbn [negb]; [|discriminate].
  intros _. now apply chk_mem_block_sound.
Qed.
