(** Proofs about Model/Schedule.v.  Time is abstract: [T] with [zero], [add], [sub], [ltb] and
    the laws below as Section hypotheses (they hold for Z, Q, and for non-NaN f64 except [sub_add],
    which only the span-hull theorem uses). *)
From Coq Require Import List NArith ZArith Bool Relations Lia.
From QV Require Import Model.DepQueue Proofs.DepQueueProofs Model.Graph Proofs.GraphProofs
  Proofs.GraphReachProofs Proofs.GraphBlockProofs Model.Schedule.
Import ListNotations.
Local Open Scope N_scope.

Section TimeLaws.
  Variable T : Type.
  Variables (zero : T) (add sub : T -> T -> T) (ltb : T -> T -> bool).

  Notation tmax := (tmax T ltb).
  Notation item := (item T).

  Definition le (a b : T) : Prop := ltb b a = false.

  Hypothesis ltb_asym : forall a b, ltb a b = true -> ltb b a = false.
  Hypothesis le_trans : forall a b c, le a b -> le b c -> le a c.

  Lemma le_refl a : le a a.
  Proof. unfold le. destruct (ltb a a) eqn:H; [|reflexivity]. rewrite (ltb_asym _ _ H) in H. discriminate. Qed.

  Lemma le_total a b : le a b \/ le b a.
  Proof. unfold le. destruct (ltb b a) eqn:H; [right; now apply ltb_asym|now left]. Qed.

  Lemma tmax_ub_l a b : le a (tmax a b).
  Proof. unfold Schedule.tmax. destruct (ltb a b) eqn:H; [unfold le; now apply ltb_asym|apply le_refl]. Qed.

  Lemma tmax_ub_r a b : le b (tmax a b).
  Proof. unfold Schedule.tmax. destruct (ltb a b) eqn:H; [apply le_refl|exact H]. Qed.

  Lemma tmax_cases a b : tmax a b = a \/ tmax a b = b.
  Proof. unfold Schedule.tmax. destruct (ltb a b); auto. Qed.

  (** [fold_left tmax l a] is the maximum of [a :: l] *)
  Lemma fold_tmax_spec : forall l a,
    le a (fold_left tmax l a) /\
    (forall x, In x l -> le x (fold_left tmax l a)) /\
    (fold_left tmax l a = a \/ In (fold_left tmax l a) l).
  Proof.
    induction l as [|y t IH]; intros a; cbn [fold_left].
    - split; [apply le_refl|]. split; [intros x []|now left].
    - destruct (IH (tmax a y)) as [H1 [H2 H3]]. split; [|split].
      + eapply le_trans; [apply tmax_ub_l|exact H1].
      + intros x [<-|Hx]; [eapply le_trans; [apply tmax_ub_r|exact H1]|auto].
      + destruct H3 as [H3|H3]; [|right; now right].
        rewrite H3. destruct (tmax_cases a y) as [->| ->]; [now left|right; now left].
  Qed.

  (** ** the traversal *)

  Variable E : list gedge.
  Variable durs : list (option T).
  Let n := N.of_nat (length durs).
  Let endn := end_of T durs.

  Definition durT (node : N) : T :=
    match dur_at T durs node with Some (Some d) => d | _ => zero end.

  Lemma spreds_In a b : In a (spreds E b) <-> In (a, b, KSched) E.
  Proof.
    unfold spreds. rewrite in_map_iff. split.
    - intros [[[s d] k] [Hs Hin]]. apply filter_In in Hin. destruct Hin as [Hin Hc].
      unfold gsrc, gdst, gkind in *. cbn [fst snd] in *. apply andb_prop in Hc. destruct Hc as [Hk Hd].
      apply kind_eqb_eq in Hk. apply N.eqb_eq in Hd. subst. exact Hin.
    - intros Hin. exists (a, b, KSched). split; [reflexivity|]. apply filter_In. split; [exact Hin|].
      unfold gdst, gkind. cbn [fst snd kind_eqb]. now rewrite N.eqb_refl.
  Qed.

  (** every Scheduled edge goes forward (C22) *)
  Hypothesis fwd : forall a b, In a (spreds E b) -> a < b.

  Fixpoint cstart_f (fuel : nat) (node : N) : T :=
    match fuel with
    | O => zero
    | S f =>
        fold_left tmax
          (map (fun p => if N.eqb p 0 then zero else add (cstart_f f p) (durT p)) (spreds E node)) zero
    end.

  (** the as-soon-as-possible start and end times, by recursion over the (earlier) predecessors *)
  Definition cstart (node : N) : T := cstart_f (N.to_nat node) node.
  Definition cend (p : N) : T := if N.eqb p 0 then zero else add (cstart p) (durT p).

  Lemma spreds_0 : spreds E 0 = [].
  Proof. destruct (spreds E 0) as [|a t] eqn:H; [reflexivity|]. assert (a < 0) by (apply fwd; rewrite H; now left). lia. Qed.

  Lemma cstart_f_irrel : forall f1 f2 node,
    (N.to_nat node <= f1)%nat -> (N.to_nat node <= f2)%nat -> cstart_f f1 node = cstart_f f2 node.
  Proof.
    induction f1 as [|f1 IH]; intros f2 node H1 H2.
    - assert (node = 0) by lia. subst node. destruct f2; cbn [cstart_f]; [reflexivity|]. now rewrite spreds_0.
    - destruct f2 as [|f2].
      + assert (node = 0) by lia. subst node. cbn [cstart_f]. now rewrite spreds_0.
      + cbn [cstart_f]. f_equal. apply map_ext_in. intros p Hp. apply fwd in Hp.
        destruct (N.eqb p 0); [reflexivity|]. f_equal. apply IH; lia.
  Qed.

  Lemma cstart_eq node : cstart node = fold_left tmax (map cend (spreds E node)) zero.
  Proof.
    unfold cstart. destruct (N.to_nat node) as [|f] eqn:Hn.
    - assert (node = 0) by lia. subst node. cbn [cstart_f]. now rewrite spreds_0.
    - cbn [cstart_f]. f_equal. apply map_ext_in. intros p Hp. apply fwd in Hp. unfold cend.
      destruct (N.eqb p 0); [reflexivity|]. f_equal. unfold cstart. apply cstart_f_irrel; lia.
  Qed.

  Definition instr (node : N) : bool := negb (N.eqb node 0 || N.eqb node endn).

  (** [done] = nodes already visited; a topological order visits Scheduled predecessors first *)
  Fixpoint topo_from (done order : list N) : Prop :=
    match order with
    | [] => True
    | x :: t => (instr x = true -> forall p, In p (spreds E x) -> p = 0 \/ In p done) /\ topo_from (x :: done) t
    end.

  Definition known : Prop :=
    forall node, 1 <= node <= n -> exists d, dur_at T durs node = Some (Some d).

  Definition items_of (order : list N) : list item :=
    map (fun node => (node, (cstart node, durT node))) (filter instr order).

  Lemma pred_ends_ok ends x done :
    x <= endn -> (forall p, In p (spreds E x) -> p = 0 \/ In p done) ->
    (forall p, In p done -> instr p = true -> lookup T ends p = Some (cend p)) ->
    pred_ends T zero endn ends (spreds E x) = inr (map cend (spreds E x)).
  Proof.
    intros Hx Hpre Hends.
    assert (Hall : forall p, In p (spreds E x) -> pred_end T zero endn ends p = inr (cend p)).
    { intros p Hp. pose proof (fwd _ _ Hp) as Hlt. unfold pred_end, cend.
      destruct (N.eqb_spec p 0) as [->|Hne]; [reflexivity|].
      destruct (N.eqb_spec p endn) as [->|Hne']; [lia|].
      destruct (Hpre _ Hp) as [Hz|Hd]; [contradiction|].
      rewrite (Hends _ Hd).
      - unfold cend. destruct (N.eqb_spec p 0); [contradiction|reflexivity].
      - unfold instr. destruct (N.eqb_spec p 0); [contradiction|]. destruct (N.eqb_spec p endn); [contradiction|reflexivity]. }
    assert (Hgen : forall l, (forall p, In p l -> pred_end T zero endn ends p = inr (cend p)) ->
                             pred_ends T zero endn ends l = inr (map cend l)).
    { induction l as [|p t IH]; intros Hl; [reflexivity|]. cbn [pred_ends map].
      rewrite (Hl p (or_introl eq_refl)). rewrite IH; [reflexivity|].
      intros q Hq. apply Hl. now right. }
    apply Hgen. exact Hall.
  Qed.

  Lemma sched_loop_spec : known -> forall order done ends items total,
    (forall x, In x order -> x <= endn) ->
    topo_from done order ->
    (forall p, In p done -> instr p = true -> lookup T ends p = Some (cend p)) ->
    sched_loop T zero add ltb E durs endn order ends items total =
      inr (items ++ items_of order, fold_left tmax (map cend (filter instr order)) total).
  Proof.
    intros Hk. induction order as [|x t IH]; intros done ends items total Hle Htopo Hends.
    - cbn. unfold items_of. cbn. now rewrite app_nil_r.
    - cbn [sched_loop]. cbn [topo_from] in Htopo. destruct Htopo as [Hpre Htopo].
      assert (Hx : x <= endn) by (apply Hle; now left).
      assert (Hle' : forall y, In y t -> y <= endn) by (intros y Hy; apply Hle; now right).
      unfold items_of. cbn [filter]. fold (instr x).
      destruct (N.eqb x 0 || N.eqb x endn) eqn:Hskip.
      + assert (Hi : instr x = false) by (unfold instr; now rewrite Hskip). rewrite Hi.
        apply (IH (x :: done)); auto.
        intros p [<-|Hp] Hip; [congruence|auto].
      + assert (Hi : instr x = true) by (unfold instr; now rewrite Hskip). rewrite Hi.
        apply orb_false_elim in Hskip. destruct Hskip as [H0 He].
        apply N.eqb_neq in H0, He.
        assert (Hrange : 1 <= x <= n).
        { unfold endn, end_of in Hx, He. unfold n. lia. }
        destruct (Hk _ Hrange) as [d Hd]. rewrite Hd.
        rewrite (pred_ends_ok ends x done Hx (Hpre Hi) Hends).
        rewrite <- cstart_eq.
        assert (HdT : durT x = d) by (unfold durT; now rewrite Hd).
        assert (Hce : add (cstart x) d = cend x).
        { unfold cend. destruct (N.eqb_spec x 0); [contradiction|]. now rewrite HdT. }
        rewrite Hce.
        rewrite (IH (x :: done) ((x, cend x) :: ends) (items ++ [(x, (cstart x, d))]) (tmax total (cend x))); auto.
        * cbn [map fold_left]. rewrite <- app_assoc. cbn [app]. rewrite HdT. reflexivity.
        * intros p Hp Hip. cbn [lookup]. destruct (N.eqb_spec p x) as [->|Hne]; [reflexivity|].
          destruct Hp as [<-|Hp]; [contradiction|auto].
  Qed.

  (** the canonical order 0, 1, ..., n+1 is topological *)
  Lemma topo_nseq : forall len k done,
    (forall p, p < k -> p = 0 \/ In p done) -> topo_from done (nseq k len).
  Proof.
    induction len as [|len IH]; intros k done Hd; cbn [nseq topo_from]; [exact I|]. split.
    - intros _ p Hp. apply fwd in Hp. auto.
    - apply IH. intros p Hp. destruct (N.eq_dec p k) as [->|Hne]; [right; now left|].
      destruct (Hd p) as [->|H]; [lia|now left|right; now right].
  Qed.

  Lemma filter_instr_nseq : filter instr (nseq 0 (S (S (length durs)))) = nseq 1 (length durs).
  Proof.
    cbn [nseq filter]. unfold instr at 1. cbn [N.eqb orb negb].
    assert (Hgen : forall len k, 1 <= k -> k + N.of_nat len = endn ->
              filter instr (nseq k (S len)) = nseq k len).
    { induction len as [|len IH]; intros k Hk Hend.
      - cbn [nseq filter]. unfold instr. replace k with endn by lia. rewrite N.eqb_refl, orb_true_r. reflexivity.
      - cbn [nseq filter]. unfold instr at 1.
        destruct (N.eqb_spec k 0); [lia|]. destruct (N.eqb_spec k endn); [lia|]. cbn [orb negb]. f_equal.
        apply IH; lia. }
    apply Hgen; [lia|]. unfold endn, end_of. lia.
  Qed.

  (** ** T1: the canonical schedule *)
  Theorem schedule_spec : known ->
    schedule T zero add ltb E durs =
      inr (map (fun node => (node, (cstart node, durT node))) (nseq 1 (length durs)),
           fold_left tmax (map cend (nseq 1 (length durs))) zero).
  Proof.
    intros Hk. unfold schedule. fold endn.
    rewrite (sched_loop_spec Hk (nseq 0 (S (S (length durs)))) [] [] [] zero).
    - unfold items_of. rewrite filter_instr_nseq. reflexivity.
    - intros x Hx. apply nseq_In in Hx. unfold endn, end_of. lia.
    - apply topo_nseq. intros p Hp. lia.
    - intros p [].
  Qed.

  (** ** independence of the topological order: any order yields the same item per node *)
  Theorem schedule_order_independent : known -> forall order,
    (forall x, In x order -> x <= endn) -> topo_from [] order ->
    exists items total,
      sched_loop T zero add ltb E durs endn order [] [] zero = inr (items, total) /\
      map (item_node T) items = filter instr order /\
      (forall x, In x items -> x = (item_node T x, (cstart (item_node T x), durT (item_node T x)))) /\
      le zero total /\ (forall x, In x items -> le (item_end T add x) total) /\
      (total = zero \/ exists x, In x items /\ total = item_end T add x).
  Proof.
    intros Hk order Hle Htopo.
    rewrite (sched_loop_spec Hk order [] [] [] zero Hle Htopo) by (intros p []).
    eexists. eexists. split; [reflexivity|]. cbn [app].
    assert (Hends : forall x, In x (items_of order) -> item_end T add x = cend (item_node T x) /\ In (item_node T x) (filter instr order)).
    { intros x Hx. unfold items_of in Hx. apply in_map_iff in Hx. destruct Hx as [node [<- Hn]].
      unfold item_end, item_start, item_dur, item_node. cbn [fst snd]. split; [|exact Hn].
      unfold cend. apply filter_In in Hn. destruct Hn as [_ Hi]. unfold instr in Hi.
      destruct (N.eqb node 0); [discriminate|reflexivity]. }
    destruct (fold_tmax_spec (map cend (filter instr order)) zero) as [H1 [H2 H3]].
    split; [|split; [|split; [|split]]].
    - unfold items_of. rewrite map_map. cbn [item_node fst]. apply map_id.
    - intros x Hx. unfold items_of in Hx. apply in_map_iff in Hx. destruct Hx as [node [<- _]]. reflexivity.
    - exact H1.
    - intros x Hx. destruct (Hends x Hx) as [-> Hn]. apply H2. now apply in_map.
    - destruct H3 as [H3|H3]; [now left|right]. apply in_map_iff in H3. destruct H3 as [node [Hc Hn]].
      exists (node, (cstart node, durT node)). split.
      + unfold items_of. apply in_map_iff. eauto.
      + rewrite <- Hc. unfold item_end, item_start, item_dur, cend. cbn [fst snd].
        apply filter_In in Hn. destruct Hn as [_ Hi]. unfold instr in Hi.
        destruct (N.eqb node 0); [discriminate|reflexivity].
  Qed.

  (** ** T2: along Scheduled paths, the earlier instruction ends before the later one starts *)
  Hypothesis add_nonneg : forall a d, le zero d -> le a (add a d).

  Lemma sched_path_lt a b : clos_trans N (krel KSched E) a b -> a < b.
  Proof.
    induction 1 as [x y H|x y z _ IH1 _ IH2]; [|lia]. apply fwd. now apply spreds_In.
  Qed.

  Lemma sched_path_no_overlap : (forall node, le zero (durT node)) ->
    forall a b, clos_trans N (krel KSched E) a b -> 1 <= a -> le (cend a) (cstart b).
  Proof.
    intros Hnn a b Hp. induction Hp as [x y H|x y z H1 IH1 H2 IH2]; intros Ha.
    - rewrite (cstart_eq y). destruct (fold_tmax_spec (map cend (spreds E y)) zero) as [_ [Hub _]].
      apply Hub. apply in_map. now apply spreds_In.
    - pose proof (sched_path_lt _ _ H1) as Hlt.
      eapply le_trans; [apply IH1; exact Ha|]. eapply le_trans; [|apply IH2; lia].
      unfold cend. destruct (N.eqb_spec y 0); [lia|]. apply add_nonneg. apply Hnn.
  Qed.
End TimeLaws.

(** * Mapping a calibrated schedule back to the source instructions *)

(** the source instruction whose expansion contains expanded index [off] *)
Fixpoint group_index (groups : list nat) (off : nat) : nat :=
  match groups with
  | [] => O
  | g :: t => if Nat.ltb off g then O else S (group_index t (off - g))
  end.

Lemma source_of_all_gt : forall entries idx best,
  (forall key v, In (key, v) entries -> (idx < key)%nat) -> source_of entries idx best = best.
Proof.
  induction entries as [|[key v] t IH]; intros idx best Hall; cbn [source_of]; [reflexivity|].
  assert (Hk : (idx < key)%nat) by (apply (Hall key v); now left).
  destruct (Nat.leb_spec key idx); [lia|]. apply IH. intros k' v' Hin. apply (Hall k' v'). now right.
Qed.

Lemma smap_build_keys : forall groups first k key v,
  In (key, v) (smap_build groups first k) -> (first <= key)%nat.
Proof.
  induction groups as [|g t IH]; intros first k key v Hin; cbn [smap_build] in Hin; [contradiction|].
  destruct Hin as [Heq|Hin]; [inversion Heq; lia|]. apply IH in Hin. lia.
Qed.

Lemma source_of_group : forall groups first k0 idx best,
  (best = None \/ exists bk bv, best = Some (bk, bv) /\ (bk <= first)%nat) ->
  (first <= idx)%nat -> (idx < first + list_sum groups)%nat ->
  exists key, source_of (smap_build groups first k0) idx best =
              Some (key, (k0 + group_index groups (idx - first))%nat).
Proof.
  induction groups as [|g t IH]; intros first k0 idx best Hbest Hlo Hhi;
    [cbn in Hhi; lia|]. change (list_sum (g :: t)) with (g + list_sum t)%nat in Hhi.
  cbn [smap_build source_of group_index].
  destruct (Nat.leb_spec first idx); [|lia].
  set (best' := match best with
                | None => Some (first, k0)
                | Some (bk, _) => if Nat.leb bk first then Some (first, k0) else best
                end).
  assert (Hb' : best' = Some (first, k0)).
  { unfold best'. destruct Hbest as [->|[bk [bv [-> Hle]]]]; [reflexivity|].
    destruct (Nat.leb_spec bk first); [reflexivity|lia]. }
  rewrite Hb'. destruct (Nat.ltb_spec (idx - first) g) as [Hin|Hout].
  - exists first. rewrite source_of_all_gt; [f_equal; f_equal; lia|].
    intros key v Hk. apply smap_build_keys in Hk. lia.
  - destruct (IH (first + g)%nat (S k0) idx (Some (first, k0))) as [key Hk]; [right; exists first, k0; split; [reflexivity|lia]|lia|lia|].
    exists key. rewrite Hk. f_equal. f_equal. replace (idx - (first + g))%nat with (idx - first - g)%nat by lia. lia.
Qed.

Lemma nodup_snoc {A} (l : list A) k : NoDup l -> ~ In k l -> NoDup (l ++ [k]).
Proof.
  induction l as [|x t IH]; intros Hnd Hni; cbn [app].
  - constructor; [intros []|constructor].
  - inversion Hnd; subst. constructor.
    + intros Hin. apply in_app_or in Hin. destruct Hin as [Hin|[<-|[]]]; [contradiction|]. apply Hni. now left.
    + apply IH; [assumption|]. intros H. apply Hni. now right.
Qed.

Lemma nodup_map_inj {A B} (f : A -> B) l : (forall a b, f a = f b -> a = b) -> NoDup l -> NoDup (map f l).
Proof.
  intros Hinj. induction 1 as [|x t Hni Hnd IH]; cbn [map]; constructor; [|exact IH].
  intros Hin. apply in_map_iff in Hin. destruct Hin as [y [Heq Hy]]. apply Hinj in Heq. subst. contradiction.
Qed.

Section Hull.
  Variable T : Type.
  Variables (zero : T) (add sub : T -> T -> T) (ltb : T -> T -> bool).
  Notation le := (le T ltb).
  Hypothesis ltb_asym : forall a b, ltb a b = true -> ltb b a = false.
  Hypothesis le_trans : forall a b c, le a b -> le b c -> le a c.
  Hypothesis sub_add : forall a b, le a b -> add a (sub b a) = b.

  Notation span_union := (span_union T add sub ltb).
  Notation item := (item T).

  Definition sp_end (sp : T * T) : T := add (fst sp) (snd sp).

  Lemma span_union_spec a b :
    le (fst a) (sp_end a) ->
    let u := span_union a b in
    (fst u = fst a \/ fst u = fst b) /\ le (fst u) (fst a) /\ le (fst u) (fst b) /\
    (sp_end u = sp_end a \/ sp_end u = sp_end b) /\ le (sp_end a) (sp_end u) /\ le (sp_end b) (sp_end u) /\
    le (fst u) (sp_end u).
  Proof.
    intros Ha. unfold Schedule.span_union, sp_end. cbn [fst snd].
    set (st := if ltb (fst b) (fst a) then fst b else fst a).
    set (e := if ltb (add (fst a) (snd a)) (add (fst b) (snd b)) then add (fst b) (snd b) else add (fst a) (snd a)).
    assert (Hs1 : le st (fst a)).
    { unfold st. destruct (ltb (fst b) (fst a)) eqn:H; [unfold ScheduleProofs.le; now apply ltb_asym|now apply le_refl]. }
    assert (Hs2 : le st (fst b)).
    { unfold st. destruct (ltb (fst b) (fst a)) eqn:H; [now apply le_refl|exact H]. }
    assert (He1 : le (add (fst a) (snd a)) e).
    { unfold e. destruct (ltb (add (fst a) (snd a)) (add (fst b) (snd b))) eqn:H;
        [unfold ScheduleProofs.le; now apply ltb_asym|now apply le_refl]. }
    assert (He2 : le (add (fst b) (snd b)) e).
    { unfold e. destruct (ltb (add (fst a) (snd a)) (add (fst b) (snd b))) eqn:H; [now apply le_refl|exact H]. }
    assert (Hse : le st e).
    { eapply le_trans; [exact Hs1|]. eapply le_trans; [exact Ha|exact He1]. }
    rewrite (sub_add _ _ Hse). repeat split; auto.
    - unfold st. destruct (ltb (fst b) (fst a)); auto.
    - unfold e. destruct (ltb (add (fst a) (snd a)) (add (fst b) (snd b))); auto.
  Qed.

  Variable src : item -> option nat.

  Definition hstep (m : list (nat * (T * T))) (x : item) : list (nat * (T * T)) :=
    match src x with Some k => hmap_update T add sub ltb m k (snd x) | None => m end.

  (** invariant of the fold: [seen] = items folded so far *)
  Definition hull_inv (m : list (nat * (T * T))) (seen : list item) : Prop :=
    NoDup (map fst m) /\
    (forall k, In k (map fst m) <-> exists x, In x seen /\ src x = Some k) /\
    (forall k sp, In (k, sp) m ->
       le (fst sp) (sp_end sp) /\
       (exists x, In x seen /\ src x = Some k /\ fst sp = fst (snd x)) /\
       (exists x, In x seen /\ src x = Some k /\ sp_end sp = sp_end (snd x)) /\
       (forall x, In x seen -> src x = Some k -> le (fst sp) (fst (snd x)) /\ le (sp_end (snd x)) (sp_end sp))).

  Lemma hmap_update_keys m k sp :
    map fst (hmap_update T add sub ltb m k sp) = if existsb (Nat.eqb k) (map fst m) then map fst m else map fst m ++ [k].
  Proof.
    induction m as [|[k0 s0] t IH]; cbn [hmap_update map fst existsb]; [reflexivity|].
    destruct (Nat.eqb_spec k k0) as [->|Hne]; cbn [map fst orb]; [reflexivity|].
    rewrite IH. destruct (existsb (Nat.eqb k) (map fst t)); reflexivity.
  Qed.

  Lemma existsb_eqb_In k l : existsb (Nat.eqb k) l = true <-> In k l.
  Proof.
    rewrite existsb_exists. split; [intros [x [Hx He]]; apply Nat.eqb_eq in He; now subst|].
    intros H. exists k. split; [exact H|apply Nat.eqb_refl].
  Qed.

  Lemma hmap_update_In m k sp k' sp' :
    NoDup (map fst m) ->
    In (k', sp') (hmap_update T add sub ltb m k sp) ->
    (k' <> k /\ In (k', sp') m) \/
    (k' = k /\ ((~ In k (map fst m) /\ sp' = sp) \/ exists old, In (k, old) m /\ sp' = span_union old sp)).
  Proof.
    induction m as [|[k0 s0] t IH]; cbn [hmap_update map In fst]; intros Hnd.
    - intros [Heq|[]]. inversion Heq; subst. right. split; [reflexivity|]. left. split; [tauto|reflexivity].
    - inversion Hnd as [|? ? Hnin Hnd']; subst. destruct (Nat.eqb_spec k k0) as [->|Hne].
      + intros [Heq|Hin].
        * inversion Heq; subst. right. split; [reflexivity|]. right. exists s0. split; [now left|reflexivity].
        * left. split; [|now right]. intros ->. apply Hnin. apply in_map_iff. exists (k0, sp'). auto.
      + intros [Heq|Hin].
        * inversion Heq; subst. left. split; [auto|now left].
        * apply (IH Hnd') in Hin. destruct Hin as [[Hn Hin]|[-> [[Hni ->]|[old [Ho ->]]]]].
          -- left. split; [exact Hn|now right].
          -- right. split; [reflexivity|]. left. split; [|reflexivity]. intros [H|H]; [congruence|contradiction].
          -- right. split; [reflexivity|]. right. exists old. split; [now right|reflexivity].
  Qed.

  Lemma hstep_inv m seen x :
    le (fst (snd x)) (sp_end (snd x)) -> hull_inv m seen -> hull_inv (hstep m x) (seen ++ [x]).
  Proof.
    intros item_ok [Hnd [Hkeys Hsp]]. unfold hstep. destruct (src x) as [k|] eqn:Hsrc.
    - split; [|split].
      + rewrite hmap_update_keys. destruct (existsb (Nat.eqb k) (map fst m)) eqn:Hex; [exact Hnd|].
        apply nodup_snoc; [exact Hnd|]. intros Hin. apply existsb_eqb_In in Hin. congruence.
      + intros k'. rewrite hmap_update_keys. split.
        * intros Hin. destruct (existsb (Nat.eqb k) (map fst m)) eqn:Hex.
          -- apply Hkeys in Hin. destruct Hin as [y [Hy Hs]]. exists y. split; [apply in_or_app; now left|exact Hs].
          -- apply in_app_or in Hin. destruct Hin as [Hin|[<-|[]]].
             ++ apply Hkeys in Hin. destruct Hin as [y [Hy Hs]]. exists y. split; [apply in_or_app; now left|exact Hs].
             ++ exists x. split; [apply in_or_app; right; now left|exact Hsrc].
        * intros [y [Hy Hs]]. apply in_app_or in Hy. destruct Hy as [Hy|[<-|[]]].
          -- assert (Hin : In k' (map fst m)) by (apply Hkeys; eauto).
             destruct (existsb (Nat.eqb k) (map fst m)); [exact Hin|apply in_or_app; now left].
          -- rewrite Hsrc in Hs. inversion Hs; subst k'.
             destruct (existsb (Nat.eqb k) (map fst m)) eqn:Hex; [now apply existsb_eqb_In|apply in_or_app; right; now left].
      + intros k' sp' Hin. apply (hmap_update_In _ _ _ _ _ Hnd) in Hin.
        destruct Hin as [[Hne Hin]|[-> [[Hni ->]|[old [Ho ->]]]]].
        * destruct (Hsp _ _ Hin) as [H0 [[y1 [Hy1 [Hs1 He1]]] [[y2 [Hy2 [Hs2 He2]]] Hall]]].
          split; [exact H0|]. split; [exists y1; split; [apply in_or_app; now left|auto]|].
          split; [exists y2; split; [apply in_or_app; now left|auto]|].
          intros y Hy Hs. apply in_app_or in Hy. destruct Hy as [Hy|[<-|[]]]; [auto|].
          rewrite Hsrc in Hs. inversion Hs. congruence.
        * split; [exact item_ok|]. split; [exists x; split; [apply in_or_app; right; now left|auto]|].
          split; [exists x; split; [apply in_or_app; right; now left|auto]|].
          intros y Hy Hs. apply in_app_or in Hy. destruct Hy as [Hy|[<-|[]]].
          -- exfalso. apply Hni. apply Hkeys. eauto.
          -- split; now apply le_refl.
        * destruct (Hsp _ _ Ho) as [H0 [[y1 [Hy1 [Hs1 He1]]] [[y2 [Hy2 [Hs2 He2]]] Hall]]].
          destruct (span_union_spec old (snd x) H0) as [U1 [U2 [U3 [U4 [U5 [U6 U7]]]]]].
          split; [exact U7|]. split; [|split].
          -- destruct U1 as [U1|U1]; [exists y1|exists x]; (split; [apply in_or_app; auto; right; now left|]);
               split; auto; congruence.
          -- destruct U4 as [U4|U4]; [exists y2|exists x]; (split; [apply in_or_app; auto; right; now left|]);
               split; auto; congruence.
          -- intros y Hy Hs. apply in_app_or in Hy. destruct Hy as [Hy|[<-|[]]].
             ++ destruct (Hall y Hy Hs) as [A B]. split; [exact (le_trans _ _ _ U2 A)|exact (le_trans _ _ _ B U5)].
             ++ split; assumption.
    - split; [exact Hnd|]. split.
      + intros k. rewrite Hkeys. split; intros [y [Hy Hs]].
        * exists y. split; [apply in_or_app; now left|exact Hs].
        * apply in_app_or in Hy. destruct Hy as [Hy|[<-|[]]]; [eauto|congruence].
      + intros k sp Hin. destruct (Hsp _ _ Hin) as [H0 [[y1 [Hy1 H1]] [[y2 [Hy2 H2]] Hall]]].
        split; [exact H0|]. split; [exists y1; split; [apply in_or_app; now left|auto]|].
        split; [exists y2; split; [apply in_or_app; now left|auto]|].
        intros y Hy Hs. apply in_app_or in Hy. destruct Hy as [Hy|[<-|[]]]; [auto|congruence].
  Qed.

  Lemma hull_fold_inv : forall items m seen,
    (forall x, In x items -> le (fst (snd x)) (sp_end (snd x))) ->
    hull_inv m seen -> hull_inv (fold_left hstep items m) (seen ++ items).
  Proof.
    induction items as [|x t IH]; intros m seen Hok Hinv; cbn [fold_left].
    - now rewrite app_nil_r.
    - replace (seen ++ x :: t) with ((seen ++ [x]) ++ t) by (rewrite <- app_assoc; reflexivity).
      apply IH; [intros y Hy; apply Hok; now right|]. apply hstep_inv; [apply Hok; now left|exact Hinv].
  Qed.

  Theorem hull_fold_spec items :
    (forall x, In x items -> le (fst (snd x)) (sp_end (snd x))) ->
    hull_inv (fold_left hstep items []) items.
  Proof.
    intros Hok. apply (hull_fold_inv items [] [] Hok). split; [constructor|]. split.
    - intros k. cbn. split; [intros []|intros [x [[] _]]].
    - intros k sp [].
  Qed.
End Hull.

(** * Closed statements *)

Section Closed.
  Variable T : Type.
  Variables (zero : T) (add sub : T -> T -> T) (ltb : T -> T -> bool).
  Notation le := (le T ltb).
  Hypothesis ltb_asym : forall a b, ltb a b = true -> ltb b a = false.
  Hypothesis le_trans : forall a b c, le a b -> le b c -> le a c.

  Lemma build_sched_fwd is term E :
    build is term = inr E -> wf_block is term = true ->
    forall a b, In a (spreds E b) -> a < b.
  Proof.
    intros Hb Hwf a b Hin. apply spreds_In in Hin. exact (proj1 (build_forward _ _ _ Hb Hwf _ _ _ Hin)).
  Qed.

  (** conflicting scheduled RF instructions do not overlap in the ASAP schedule *)
  Theorem sched_conflicts_exclusive
          (add_nonneg : forall a d, le zero d -> le a (add a d)) is term E durs p q i j :
    build is term = inr E -> wf_block is term = true ->
    (forall node, le zero (durT T zero durs node)) ->
    nth_error is p = Some i -> nth_error is q = Some j -> (p < q)%nat ->
    fconflict i j = true -> i_sched i = true -> i_sched j = true ->
    le (cend T zero add ltb E durs (1 + N.of_nat p)) (cstart T zero add ltb E durs (1 + N.of_nat q)).
  Proof.
    intros Hb Hwf Hnn Hp Hq Hlt Hc Hsi Hsj.
    destruct (frames_conflicts_ordered _ _ _ _ _ _ _ Hb Hp Hq Hlt Hc) as [_ Hpath].
    apply (sched_path_no_overlap T zero add ltb ltb_asym le_trans E durs
             (build_sched_fwd _ _ _ Hb Hwf) add_nonneg Hnn); [auto|lia].
  Qed.

  (** ** the hull of a calibrated schedule *)
  Hypothesis sub_add : forall a b, le a b -> add a (sub b a) = b.

  Definition gidx (groups : list nat) (x : item T) : nat :=
    group_index groups (N.to_nat (item_node T x - 1)).

  Definition msrc (groups : list nat) (x : item T) : option nat :=
    option_map snd (source_of (smap_build groups 0 0) (N.to_nat (item_node T x - 1)) None).

  Lemma hull_fold_hstep groups items m :
    fold_left (fun m (x : item T) =>
                 match source_of (smap_build groups 0 0) (N.to_nat (item_node T x - 1)) None with
                 | Some (_, src) => hmap_update T add sub ltb m src (snd x)
                 | None => m
                 end) items m =
    fold_left (hstep T add sub ltb (msrc groups)) items m.
  Proof.
    revert m. induction items as [|x t IH]; intros m; cbn [fold_left]; [reflexivity|].
    rewrite IH. f_equal. unfold hstep, msrc.
    destruct (source_of (smap_build groups 0 0) (N.to_nat (item_node T x - 1)) None) as [[key v]|]; reflexivity.
  Qed.

  Lemma msrc_gidx groups x :
    1 <= item_node T x <= N.of_nat (list_sum groups) -> msrc groups x = Some (gidx groups x).
  Proof.
    intros Hr. unfold msrc, gidx.
    destruct (source_of_group groups 0 0 (N.to_nat (item_node T x - 1)) None) as [key Hk]; [now left|lia|lia|].
    rewrite Hk, Nat.sub_0_r. reflexivity.
  Qed.

  (** Every source instruction whose expansion contains a scheduled item appears exactly once;
      its start is the earliest start and its end the latest end of the items of its expansion. *)
  Theorem hull_schedule_spec groups (items : list (item T)) :
    (forall x, In x items -> le (item_start T x) (item_end T add x)) ->
    (forall x, In x items -> 1 <= item_node T x <= N.of_nat (list_sum groups)) ->
    let its := fst (hull_schedule T zero add sub ltb groups items) in
    let total := snd (hull_schedule T zero add sub ltb groups items) in
    NoDup (map (item_node T) its) /\
    (forall k, In (N.succ (N.of_nat k)) (map (item_node T) its) <-> exists x, In x items /\ gidx groups x = k) /\
    (forall y, In y its ->
       exists k, item_node T y = N.succ (N.of_nat k) /\
         (exists x, In x items /\ gidx groups x = k /\ item_start T y = item_start T x) /\
         (exists x, In x items /\ gidx groups x = k /\ item_end T add y = item_end T add x) /\
         (forall x, In x items -> gidx groups x = k ->
                    le (item_start T y) (item_start T x) /\ le (item_end T add x) (item_end T add y))) /\
    le zero total /\ (forall y, In y its -> le (item_end T add y) total) /\
    (total = zero \/ exists y, In y its /\ total = item_end T add y).
  Proof.
    intros Hok Hrange its total. unfold its, total, hull_schedule, hull_fold. cbn [fst snd].
    rewrite hull_fold_hstep.
    pose proof (hull_fold_spec T add sub ltb ltb_asym le_trans sub_add (msrc groups) items Hok) as Hinv.
set (h := fold_left (hstep T add sub ltb (msrc groups)) items []) in *.
    destruct Hinv as [Hnd [Hkeys Hsp]].
    set (conv := fun ks : nat * (T * T) => (N.succ (N.of_nat (fst ks)), snd ks)).
    assert (Hnodes : map (item_node T) (map conv h) = map (fun k => N.succ (N.of_nat k)) (map fst h)).
    { rewrite !map_map. apply map_ext. intros [k sp]. reflexivity. }
    assert (Hsrc : forall x, In x items -> msrc groups x = Some (gidx groups x)).
    { intros x Hx. apply msrc_gidx. auto. }
    split; [|split; [|split]].
    - rewrite Hnodes. apply nodup_map_inj; [|exact Hnd]. intros a b Hab. lia.
    - intros k. rewrite Hnodes, in_map_iff. split.
      + intros [k' [Hk' Hin]]. assert (k' = k) by lia. subst k'. apply Hkeys in Hin.
        destruct Hin as [x [Hx Hs]]. exists x. split; [exact Hx|]. rewrite (Hsrc x Hx) in Hs. now inversion Hs.
      + intros [x [Hx Hg]]. exists k. split; [reflexivity|]. apply Hkeys. exists x. split; [exact Hx|].
        rewrite (Hsrc x Hx). now rewrite Hg.
    - intros y Hy. apply in_map_iff in Hy. destruct Hy as [[k sp] [<- Hin]]. exists k.
      split; [reflexivity|]. destruct (Hsp _ _ Hin) as [_ [[y1 [Hy1 [Hs1 He1]]] [[y2 [Hy2 [Hs2 He2]]] Hall]]].
      unfold conv, item_start, item_end, item_start, item_dur. cbn [fst snd].
      split; [|split].
      + exists y1. split; [exact Hy1|]. rewrite (Hsrc _ Hy1) in Hs1. inversion Hs1. auto.
      + exists y2. split; [exact Hy2|]. rewrite (Hsrc _ Hy2) in Hs2. inversion Hs2. auto.
      + intros x Hx Hg. apply Hall; [exact Hx|]. rewrite (Hsrc x Hx). now rewrite Hg.
    - destruct (fold_tmax_spec T ltb ltb_asym le_trans (map (item_end T add) (map conv h)) zero) as [H1 [H2 H3]].
      split; [exact H1|]. split.
      + intros y Hy. apply H2. now apply in_map.
      + destruct H3 as [H3|H3]; [now left|right]. apply in_map_iff in H3. destruct H3 as [y [Hy1 Hy2]].
        exists y. split; [exact Hy2|now symmetry].
  Qed.
End Closed.

(** * Instance checker *)
Section Checker.
  Variable T : Type.
  Variables (zero : T) (add sub : T -> T -> T) (ltb : T -> T -> bool).
  Notation le := (le T ltb).
  Notation tmax := (tmax T ltb).

  Definition teq (a b : T) : Prop := le a b /\ le b a.

  Lemma leb_le a b : leb T ltb a b = true <-> le a b.
  Proof. unfold leb, ScheduleProofs.le. destruct (ltb b a); cbn; intuition discriminate. Qed.

  Lemma teqb_teq a b : teqb T ltb a b = true -> teq a b.
  Proof.
    unfold teqb, teq, ScheduleProofs.le. intros H. apply andb_prop in H. destruct H as [H1 H2].
    apply negb_true_iff in H1, H2. auto.
  Qed.

  Definition once_spec (durs : list (option T)) (items : list (item T)) : Prop :=
    length items = length durs /\
    (forall node, 1 <= node <= N.of_nat (length durs) -> count_node T items node = 1%nat) /\
    (forall x, In x items -> exists d, dur_at T durs (item_node T x) = Some (Some d) /\ teq (item_dur T x) d).

  Definition pend (items : list (item T)) (p : N) : T :=
    if N.eqb p 0 then zero
    else match find_item T items p with Some y => item_end T add y | None => zero end.

  Definition asap_spec (E : list gedge) (endn : N) (items : list (item T)) : Prop :=
    forall x, In x items ->
      (forall p, In p (spreds E (item_node T x)) -> p <> endn /\ (p = 0 \/ exists y, find_item T items p = Some y)) /\
      teq (item_start T x) (fold_left tmax (map (pend items) (spreds E (item_node T x))) zero).

  Definition exclusive_spec (is : list info) (items : list (item T)) : Prop :=
    forall p q i j, nth_error is p = Some i -> nth_error is q = Some j -> (p < q)%nat ->
      fconflict i j = true -> i_sched i = true -> i_sched j = true ->
      exists x y, find_item T items (1 + N.of_nat p) = Some x /\ find_item T items (1 + N.of_nat q) = Some y /\
                  le (item_end T add x) (item_start T y).

  Definition total_spec (items : list (item T)) (total : T) : Prop :=
    (forall x, In x items -> le (item_end T add x) total) /\ le zero total /\
    (teq total zero \/ exists x, In x items /\ teq total (item_end T add x)).

  Lemma chk_total_sound items total : chk_total T zero add ltb items total = true -> total_spec items total.
  Proof.
    unfold chk_total. intros H. apply andb_prop in H. destruct H as [H H3]. apply andb_prop in H. destruct H as [H1 H2].
    split; [|split].
    - intros x Hx. rewrite forallb_forall in H1. apply leb_le. auto.
    - now apply leb_le.
    - apply orb_prop in H3. destruct H3 as [H3|H3]; [left; now apply teqb_teq|right].
      apply existsb_exists in H3. destruct H3 as [x [Hx Ht]]. exists x. split; [exact Hx|now apply teqb_teq].
  Qed.

  Theorem chk_sched_sound is E durs items total :
    chk_sched T zero add ltb is E durs items total = 0%N ->
    once_spec durs items /\ asap_spec E (end_of T durs) items /\
    (nonneg_durs T zero ltb durs = true -> exclusive_spec is items) /\ total_spec items total.
  Proof.
    unfold chk_sched.
    destruct (chk_once T ltb durs items) eqn:H1; cbn [negb]; [|discriminate].
    destruct (chk_asap T zero add ltb E (end_of T durs) items) eqn:H2; cbn [negb]; [|discriminate].
    destruct (nonneg_durs T zero ltb durs && negb (chk_exclusive T add ltb is items)) eqn:H3; [discriminate|].
    destruct (chk_total T zero add ltb items total) eqn:H4; cbn [negb]; [|discriminate].
    intros _. split; [|split; [|split]].
    - unfold chk_once in H1. apply andb_prop in H1. destruct H1 as [H1 Hc]. apply andb_prop in H1. destruct H1 as [Ha Hb].
      split; [now apply Nat.eqb_eq|]. split.
      + intros node Hn. rewrite forallb_forall in Hb. apply Nat.eqb_eq. apply Hb. apply nseq_In. lia.
      + intros x Hx. rewrite forallb_forall in Hc. specialize (Hc x Hx).
        destruct (dur_at T durs (item_node T x)) as [[d|]|]; try discriminate. exists d. split; [reflexivity|now apply teqb_teq].
    - intros x Hx. unfold chk_asap in H2. rewrite forallb_forall in H2. specialize (H2 x Hx).
      apply andb_prop in H2. destruct H2 as [Ha Hb]. split.
      + intros p Hp. rewrite forallb_forall in Ha. specialize (Ha p Hp). apply andb_prop in Ha. destruct Ha as [Hne Hor].
        split; [destruct (N.eqb_spec p (end_of T durs)); [discriminate|assumption]|].
        apply orb_prop in Hor. destruct Hor as [Hz|Hf]; [left; now apply N.eqb_eq|right].
        destruct (find_item T items p) as [y|]; [eauto|discriminate].
      + apply teqb_teq in Hb. exact Hb.
    - intros Hnn. rewrite Hnn in H3. cbn [andb] in H3. apply negb_false_iff in H3.
      intros p q i j Hp Hq Hlt Hc Hsi Hsj. unfold chk_exclusive in H3. rewrite forallb_forall in H3.
      assert (Hin : In ((1 + N.of_nat p, i), (1 + N.of_nat q, j)) (pairs (number 1 is))).
      { apply number_pairs. exists p, q. auto. }
      specialize (H3 _ Hin). cbv beta iota in H3. rewrite Hc, Hsi, Hsj in H3. cbn [andb] in H3.
      destruct (find_item T items (1 + N.of_nat p)) as [x|]; [|discriminate].
      destruct (find_item T items (1 + N.of_nat q)) as [y|]; [|discriminate].
      exists x, y. split; [reflexivity|]. split; [reflexivity|]. now apply leb_le.
    - now apply chk_total_sound.
  Qed.
End Checker.

(** the laws hold for the integer instance used by the case files *)
Lemma Z_laws :
  (forall a b : Z, Z.ltb a b = true -> Z.ltb b a = false) /\
  (forall a b c : Z, le Z Z.ltb a b -> le Z Z.ltb b c -> le Z Z.ltb a c) /\
  (forall a d : Z, le Z Z.ltb 0%Z d -> le Z Z.ltb a (Z.add a d)) /\
  (forall a b : Z, le Z Z.ltb a b -> Z.add a (Z.sub b a) = b).
Proof. unfold le. repeat split; intros; lia. Qed.

(** a source instruction whose expansion is empty owns no expanded index ... *)
Lemma group_index_skips_empty : forall groups k off,
  nth_error groups k = Some 0%nat -> group_index groups off <> k.
Proof.
  induction groups as [|g t IH]; intros k off Hn; [destruct k; discriminate|].
  cbn [group_index]. destruct k as [|k]; cbn [nth_error] in Hn.
  - inversion Hn; subst g. destruct (Nat.ltb_spec off 0); [lia|discriminate].
  - destruct (Nat.ltb off g); [discriminate|]. intros Heq. inversion Heq as [Heq']. exact (IH _ _ Hn Heq').
Qed.

(** ... and therefore does not appear in the source-level schedule *)
Lemma empty_expansion_absent (T : Type) (zero : T) (add sub : T -> T -> T) (ltb : T -> T -> bool) :
  (forall a b, ltb a b = true -> ltb b a = false) ->
  (forall a b c, le T ltb a b -> le T ltb b c -> le T ltb a c) ->
  (forall a b, le T ltb a b -> add a (sub b a) = b) ->
  forall groups (items : list (item T)) k,
    (forall x, In x items -> le T ltb (item_start T x) (item_end T add x)) ->
    (forall x, In x items -> 1 <= item_node T x <= N.of_nat (list_sum groups)) ->
    nth_error groups k = Some 0%nat ->
    ~ In (N.succ (N.of_nat k)) (map (item_node T) (fst (hull_schedule T zero add sub ltb groups items))).
Proof.
  intros H1 H2 H3 groups items k Hok Hr Hn Hin.
  destruct (hull_schedule_spec T zero add sub ltb H1 H2 H3 groups items Hok Hr) as [_ [Hk _]].
  apply Hk in Hin. destruct Hin as [x [_ Hg]]. unfold gidx in Hg.
  exact (group_index_skips_empty _ _ _ Hn Hg).
Qed.
