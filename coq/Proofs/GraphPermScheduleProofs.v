(** The scheduler (Model/Schedule.v) reads a graph only through the SETS of Scheduled
    predecessors; with Proofs/GraphPermProofs.v: the computed schedule does not depend on the
    HashSet iteration orders of the handler's answers either.

    The start time is [fold_left tmax (ends of the Scheduled predecessors) zero]; for two
    predecessor lists with the same elements the two folds are maxima of the same set, equal as
    soon as [le] is antisymmetric (an extra law on top of C25's total preorder; it holds for Z, Q
    and non-NaN floats up to the sign of zero). *)
From Coq Require Import List NArith Bool Lia Permutation.
From QV Require Import Model.DepQueue Model.Graph Proofs.GraphProofs Proofs.GraphPermProofs
  Model.Schedule Proofs.ScheduleProofs.
Import ListNotations.
Local Open Scope N_scope.

Section PermSchedule.
  Variable T : Type.
  Variables (zero : T) (add sub : T -> T -> T) (ltb : T -> T -> bool).
  Notation le := (le T ltb).
  Notation tmax := (tmax T ltb).
  Hypothesis ltb_asym : forall a b, ltb a b = true -> ltb b a = false.
  Hypothesis le_trans : forall a b c, le a b -> le b c -> le a c.
  Hypothesis le_antisym : forall a b, le a b -> le b a -> a = b.

  Lemma fold_tmax_same_set (l l' : list T) :
    (forall x, In x l <-> In x l') -> fold_left tmax l zero = fold_left tmax l' zero.
  Proof.
    intros H.
    destruct (fold_tmax_spec T ltb ltb_asym le_trans l zero) as [A1 [A2 A3]].
    destruct (fold_tmax_spec T ltb ltb_asym le_trans l' zero) as [B1 [B2 B3]].
    apply le_antisym.
    - destruct A3 as [->|A3]; [exact B1|apply B2, H, A3].
    - destruct B3 as [->|B3]; [exact A1|apply A2, H, B3].
  Qed.

  Variable endn : N.
  Variable ends : list (N * T).
  Notation pred_end := (pred_end T zero endn ends).
  Notation pred_ends := (pred_ends T zero endn ends).

  Lemma pred_ends_inr : forall ps l, pred_ends ps = inr l ->
    (forall x, In x l <-> exists p, In p ps /\ pred_end p = inr x) /\
    (forall p, In p ps -> exists x, pred_end p = inr x).
  Proof.
    induction ps as [|p t IH]; intros l Hl; cbn [Schedule.pred_ends] in Hl.
    - inversion Hl; subst. split; [|intros p []]. intros x. split; [intros []|intros [p [[] _]]].
    - destruct (pred_end p) as [e|v] eqn:Hp; [discriminate|].
      destruct (pred_ends t) as [e|l0] eqn:Ht; [discriminate|]. inversion Hl; subst l. clear Hl.
      destruct (IH _ eq_refl) as [I1 I2]. split.
      + intros x. cbn [In]. rewrite I1. split.
        * intros [<-|[q [Hq Hx]]]; [exists p; auto|exists q; auto].
        * intros [q [[<-|Hq] Hx]]; [left; congruence|right; eauto].
      + intros q [<-|Hq]; [eauto|auto].
  Qed.

  Lemma pred_ends_inl : forall ps e, pred_ends ps = inl e -> exists p, In p ps /\ pred_end p = inl e.
  Proof.
    induction ps as [|p t IH]; intros e He; cbn [Schedule.pred_ends] in He; [discriminate|].
    destruct (pred_end p) as [e0|v] eqn:Hp.
    - inversion He; subst. exists p. split; [now left|exact Hp].
    - destruct (pred_ends t) as [e0|l0] eqn:Ht; [|discriminate]. inversion He; subst.
      destruct (IH _ eq_refl) as [q [Hq Hx]]. exists q. split; [now right|exact Hx].
  Qed.

  Lemma pred_end_err p e : p <> endn -> pred_end p = inl e -> e = EInvalidGraph.
  Proof.
    unfold Schedule.pred_end. intros Hne. destruct (N.eqb p 0); [discriminate|].
    destruct (N.eqb_spec p endn); [contradiction|]. destruct (lookup T ends p); [discriminate|].
    intros H; inversion H; reflexivity.
  Qed.

  Lemma pred_ends_same_set ps ps' :
    (forall p, In p ps <-> In p ps') -> (forall p, In p ps -> p <> endn) ->
    match pred_ends ps, pred_ends ps' with
    | inl e, inl e' => e = e'
    | inr l, inr l' => forall x, In x l <-> In x l'
    | _, _ => False
    end.
  Proof.
    intros Hset Hne.
    destruct (pred_ends ps) as [e|l] eqn:H1; destruct (pred_ends ps') as [e'|l'] eqn:H2.
    - destruct (pred_ends_inl _ _ H1) as [p [Hp Hx]]. destruct (pred_ends_inl _ _ H2) as [q [Hq Hy]].
      rewrite (pred_end_err _ _ (Hne _ Hp) Hx), (pred_end_err _ _ (Hne _ (proj2 (Hset q) Hq)) Hy).
      reflexivity.
    - destruct (pred_ends_inl _ _ H1) as [p [Hp Hx]].
      destruct (proj2 (pred_ends_inr _ _ H2) p (proj1 (Hset p) Hp)) as [x Hx']. congruence.
    - destruct (pred_ends_inl _ _ H2) as [p [Hp Hx]].
      destruct (proj2 (pred_ends_inr _ _ H1) p (proj2 (Hset p) Hp)) as [x Hx']. congruence.
    - intros x. rewrite (proj1 (pred_ends_inr _ _ H1) x), (proj1 (pred_ends_inr _ _ H2) x).
      split; intros [p [Hp Hx]]; exists p; (split; [now apply Hset|exact Hx]).
  Qed.
End PermSchedule.

Section PermSchedule2.
  Variable T : Type.
  Variables (zero : T) (add sub : T -> T -> T) (ltb : T -> T -> bool).
  Notation le := (le T ltb).
  Hypothesis ltb_asym : forall a b, ltb a b = true -> ltb b a = false.
  Hypothesis le_trans : forall a b c, le a b -> le b c -> le a c.
  Hypothesis le_antisym : forall a b, le a b -> le b a -> a = b.

  (** the traversal loop on two graphs with the same Scheduled-predecessor sets *)
  Lemma sched_loop_same_preds (E E' : list gedge) (durs : list (option T)) (endn : N) :
    (forall node p, In p (spreds E node) <-> In p (spreds E' node)) ->
    (forall node p, In p (spreds E node) -> p <> endn) ->
    forall order ends items total,
      sched_loop T zero add ltb E' durs endn order ends items total =
      sched_loop T zero add ltb E durs endn order ends items total.
  Proof.
    intros Hset Hne. induction order as [|node rest IH]; intros ends items total; cbn [sched_loop];
      [reflexivity|].
    destruct (N.eqb node 0 || N.eqb node endn); [apply IH|].
    destruct (dur_at T durs node) as [[d|]|]; try reflexivity.
    pose proof (pred_ends_same_set T zero endn ends (spreds E node) (spreds E' node)
                  (Hset node) (Hne node)) as H.
    destruct (pred_ends T zero endn ends (spreds E node)) as [e|l];
      destruct (pred_ends T zero endn ends (spreds E' node)) as [e'|l']; try contradiction.
    - congruence.
    - rewrite (fold_tmax_same_set T zero ltb ltb_asym le_trans le_antisym l l' H). apply IH.
  Qed.

  Theorem perm_schedule_equal (is is' : list info) (term term' : option info) (E : list gedge)
          (durs : list (option T)) :
    Forall2 info_perm is is' -> term_perm term term' -> wf_block is term = true ->
    build is term = inr E -> length durs = length is ->
    exists E', build is' term' = inr E' /\ (forall x, In x E <-> In x E') /\
      schedule T zero add ltb E' durs = schedule T zero add ltb E durs /\
      forall order ends items total,
        sched_loop T zero add ltb E' durs (end_of T durs) order ends items total =
        sched_loop T zero add ltb E durs (end_of T durs) order ends items total.
  Proof.
    intros His Ht Hwf Hb Hlen. pose proof (build_perm _ _ _ _ His Ht) as Hp. rewrite Hb in Hp.
    destruct (build is' term') as [e'|E']; [contradiction|]. exists E'. split; [reflexivity|].
    split; [exact Hp|].
    assert (Hset : forall node p, In p (spreds E node) <-> In p (spreds E' node)).
    { intros node p. rewrite !spreds_In. apply Hp. }
    assert (Hne : forall node p, In p (spreds E node) -> p <> end_of T durs).
    { intros node p Hin. apply spreds_In in Hin.
      destruct (build_forward _ _ _ Hb Hwf _ _ _ Hin) as [H1 H2]. unfold end_of. rewrite Hlen. lia. }
    split; [unfold schedule|]; apply (sched_loop_same_preds E E' durs (end_of T durs) Hset Hne).
  Qed.

  (** the whole [BasicBlock::as_schedule] pipeline *)
  Theorem perm_block_schedule_equal (is is' : list info) (term term' : option info)
          (groups : list nat) (durs : list (option T)) :
    Forall2 info_perm is is' -> term_perm term term' -> wf_block is term = true ->
    length durs = length is ->
    block_schedule T zero add sub ltb is' term' groups durs =
    block_schedule T zero add sub ltb is term groups durs.
  Proof.
    intros His Ht Hwf Hlen. unfold block_schedule. destruct (build is term) as [e|E] eqn:Hb.
    - pose proof (build_perm _ _ _ _ His Ht) as Hp. rewrite Hb in Hp.
      destruct (build is' term') as [e'|E']; [reflexivity|contradiction].
    - destruct (perm_schedule_equal is is' term term' E durs His Ht Hwf Hb Hlen)
        as [E' [Hb' [_ [Hs _]]]].
      rewrite Hb', Hs. reflexivity.
  Qed.
End PermSchedule2.
