(** Proofs about Model/Expr.v: substitution vs. evaluation, the memory-reference stack machine,
    definedness of evaluation, and soundness of the C13 instance checker. *)
From Coq Require Import List NArith ZArith QArith Bool Lia.
From QV Require Import Model.Expr Model.ExactNum Model.ExprCheck.
Import ListNotations.

(** * Evaluation and substitution (any algebra, no laws) *)
Section EvalSubst.
  Context {L C M : Type}.
  Variable A : alg L C M.

  Lemma eval_ext :
    forall (rv rv' : N -> option C) (rm rm' : N -> option (list M)) (e : expr L),
      (forall x, rv x = rv' x) -> (forall n, rm n = rm' n) ->
      eval A rv rm e = eval A rv' rm' e.
  Proof.
    intros rv rv' rm rm' e Hv Hm.
    induction e as [c | | x | n i | f a IHa | o a IHa | l IHl o r IHr]; cbn [eval].
    - reflexivity.
    - reflexivity.
    - apply Hv.
    - rewrite Hm. reflexivity.
    - rewrite IHa. reflexivity.
    - rewrite IHa. reflexivity.
    - rewrite IHl, IHr. reflexivity.
  Qed.

  (** Substituting and then evaluating = evaluating where each substituted variable is bound to
      the value of its image (for an arbitrary expression-valued substitution). *)
  Lemma eval_subst :
    forall (rv : N -> option C) (rm : N -> option (list M)) (s : N -> option (expr L)) (e : expr L),
      eval A rv rm (subst s e) = eval A (env_subst A rv rm s) rm e.
  Proof.
    intros rv rm s e.
    induction e as [c | | x | n i | f a IHa | o a IHa | l IHl o r IHr]; cbn [eval subst].
    - reflexivity.
    - reflexivity.
    - unfold env_subst. destruct (s x) as [t|]; reflexivity.
    - reflexivity.
    - rewrite IHa. reflexivity.
    - rewrite IHa. reflexivity.
    - rewrite IHl, IHr. reflexivity.
  Qed.

  (** The numeric case stated in the property. *)
  Lemma eval_subst_numeric :
    forall (rv : N -> option C) (rm : N -> option (list M)) (s : N -> option L) (e : expr L),
      eval A rv rm (subst (num_subst s) e) = eval A (env_union A rv s) rm e.
  Proof.
    intros rv rm s e. rewrite eval_subst. apply eval_ext.
    - intro x. unfold env_subst, env_union, num_subst. destruct (s x); reflexivity.
    - reflexivity.
  Qed.

  (** Substitution leaves memory references alone when the images are numbers. *)
  Lemma addrs_subst_numeric :
    forall (s : N -> option L) (e : expr L), addrs (subst (num_subst s) e) = addrs e.
  Proof.
    intros s e.
    induction e as [c | | x | n i | f a IHa | o a IHa | l IHl o r IHr]; cbn [addrs subst]; auto.
    - unfold num_subst. destruct (s x); reflexivity.
    - rewrite IHl, IHr. reflexivity.
  Qed.

  (** * Definedness *)
  Definition infix_total : Prop := forall o x y, c_infix A o x y <> None.

  Lemma forallb_app_true {X} (p : X -> bool) (a b : list X) :
    forallb p (a ++ b) = true <-> forallb p a = true /\ forallb p b = true.
  Proof. rewrite forallb_app, andb_true_iff. reflexivity. Qed.

  Lemma eval_defined_iff :
    infix_total ->
    forall (rv : N -> option C) (rm : N -> option (list M)) (e : expr L),
      eval A rv rm e <> None <-> supplied rv rm e = true.
  Proof.
    intros Htot rv rm e. unfold supplied.
    induction e as [c | | x | n i | f a IHa | o a IHa | l IHl o r IHr];
      cbn [eval vars addrs forallb].
    - split; [reflexivity | discriminate].
    - split; [reflexivity | discriminate].
    - unfold var_supplied. destruct (rv x); cbn; split; congruence.
    - unfold cell_supplied. cbn [fst snd]. destruct (rm n) as [cells|]; cbn [bind].
      + rewrite andb_true_r. cbn [andb].
        destruct (nth_error cells (N.to_nat i)) as [m|] eqn:Hn; cbn [option_map].
        * assert (Hlt : (N.to_nat i < length cells)%nat)
            by (apply nth_error_Some; congruence).
          split; [intros _ | discriminate]. apply N.ltb_lt. lia.
        * apply nth_error_None in Hn.
          split; [congruence | intros Hlt]. apply N.ltb_lt in Hlt. lia.
      + cbn. split; congruence.
    - destruct (eval A rv rm a); cbn [option_map] in *.
      + rewrite <- IHa. split; intros _; discriminate.
      + rewrite <- IHa. split; congruence.
    - destruct (eval A rv rm a); cbn [option_map] in *.
      + rewrite <- IHa. split; intros _; discriminate.
      + rewrite <- IHa. split; congruence.
    - rewrite !forallb_app, andb_true_iff, !andb_true_iff.
      rewrite andb_true_iff in IHl, IHr.
      destruct (eval A rv rm l) as [x|]; cbn [bind].
      + destruct (eval A rv rm r) as [y|]; cbn [bind].
        * split; [intros _ | intros _; apply Htot].
          assert (Hl : Some x <> None) by discriminate. apply IHl in Hl.
          assert (Hr : Some y <> None) by discriminate. apply IHr in Hr.
          tauto.
        * split; [congruence | intros [[Hvl Hvr] [Hal Har]]].
          apply IHr. tauto.
      + split; [congruence | intros [[Hvl Hvr] [Hal Har]]].
        apply IHl. tauto.
  Qed.
End EvalSubst.

(** * The memory-reference iterator *)
Section MemRefs.
  Context {L : Type}.

  Definition flat (st : list (expr L)) : list memref := concat (map addrs st).

  Lemma size_pos (e : expr L) : (1 <= size e)%nat.
  Proof. destruct e; cbn [size]; lia. Qed.

  Lemma addrs_length_le_size (e : expr L) : (length (addrs e) <= size e)%nat.
  Proof.
    induction e as [c | | x | n i | f a IHa | o a IHa | l IHl o r IHr]; cbn [addrs size length]; try lia.
    rewrite app_length. lia.
  Qed.

  Lemma flat_cons (e : expr L) st : flat (e :: st) = addrs e ++ flat st.
  Proof. reflexivity. Qed.

  Lemma stack_size_cons (e : expr L) st : stack_size (e :: st) = (size e + stack_size st)%nat.
  Proof. reflexivity. Qed.

  (** The inner loop: descending from [e] with the rest of the stack [st] either finds the first
      address of [e] (the remaining addresses are those of the new stack), or finds none and
      leaves a stack with the same addresses.  The stack strictly shrinks in total size when the
      popped frame [e] is counted. *)
  Lemma mr_walk_spec :
    forall (e : expr L) (st : list (expr L)),
      let '(res, st') := mr_walk e st in
      (stack_size st' < size e + stack_size st)%nat /\
      match res with
      | Some r => addrs e ++ flat st = r :: flat st'
      | None => addrs e ++ flat st = flat st'
      end.
  Proof.
    induction e as [c | | x | n i | f a IHa | o a IHa | l IHl o r IHr]; intro st;
      cbn [mr_walk addrs size app].
    - split; [lia | reflexivity].
    - split; [lia | reflexivity].
    - split; [lia | reflexivity].
    - split; [lia | reflexivity].
    - specialize (IHa st). destruct (mr_walk a st) as [res st']. destruct IHa as [Hs Ha].
      split; [lia | exact Ha].
    - specialize (IHa st). destruct (mr_walk a st) as [res st']. destruct IHa as [Hs Ha].
      split; [lia | exact Ha].
    - specialize (IHl (r :: st)). destruct (mr_walk l (r :: st)) as [res st'].
      destruct IHl as [Hs Ha]. rewrite stack_size_cons in Hs. rewrite flat_cons in Ha.
      split; [lia |]. rewrite <- app_assoc. exact Ha.
  Qed.

  (** One call of [next]: with fuel above the stack size it never runs out; it returns the first
      address in the stack (in pre-order) and a stack holding exactly the remaining ones. *)
  Lemma mr_next_spec :
    forall (fuel : nat) (st : list (expr L)),
      (stack_size st < fuel)%nat ->
      match mr_next fuel st with
      | None => flat st = []
      | Some (r, st') => flat st = r :: flat st' /\ (stack_size st' < stack_size st)%nat
      end.
  Proof.
    induction fuel as [|fuel IH]; intros st Hf; [lia|].
    cbn [mr_next]. destruct st as [|e st]; [reflexivity|].
    rewrite stack_size_cons in Hf. rewrite flat_cons, stack_size_cons.
    pose proof (mr_walk_spec e st) as Hw. destruct (mr_walk e st) as [[r|] st'].
    - destruct Hw as [Hs Ha]. split; [exact Ha | lia].
    - destruct Hw as [Hs Ha]. rewrite Ha.
      assert (Hf' : (stack_size st' < fuel)%nat) by lia.
      specialize (IH st' Hf'). destruct (mr_next fuel st') as [[r st'']|].
      + destruct IH as [Hfl Hsz]. split; [exact Hfl | lia].
      + exact IH.
  Qed.

  (** Fuel is a Coq artefact: any two sufficient amounts give the same step. *)
  Lemma mr_next_fuel_irrelevant :
    forall (f1 f2 : nat) (st : list (expr L)),
      (stack_size st < f1)%nat -> (stack_size st < f2)%nat -> mr_next f1 st = mr_next f2 st.
  Proof.
    induction f1 as [|f1 IH]; intros f2 st H1 H2; [lia|].
    destruct f2 as [|f2]; [lia|].
    cbn [mr_next]. destruct st as [|e st]; [reflexivity|].
    rewrite stack_size_cons in H1, H2.
    pose proof (mr_walk_spec e st) as Hw. destruct (mr_walk e st) as [[r|] st'].
    - reflexivity.
    - destruct Hw as [Hs _]. apply IH; lia.
  Qed.

  Lemma mr_collect_spec :
    forall (fuel : nat) (st : list (expr L)),
      (length (flat st) < fuel)%nat -> mr_collect fuel st = flat st.
  Proof.
    induction fuel as [|fuel IH]; intros st Hf; [lia|].
    cbn [mr_collect].
    pose proof (mr_next_spec (S (stack_size st)) st (Nat.lt_succ_diag_r _)) as Hn.
    destruct (mr_next (S (stack_size st)) st) as [[r st']|].
    - destruct Hn as [Hfl _]. rewrite Hfl in Hf |- *. cbn [length] in Hf.
      f_equal. apply IH. lia.
    - symmetry. exact Hn.
  Qed.

  (** Draining the iterator started on [vec![e]] yields the address leaves of [e], each once per
      occurrence, in left-to-right order. *)
  Lemma memrefs_preorder : forall e : expr L, memrefs e = addrs e.
  Proof.
    intro e. unfold memrefs. rewrite mr_collect_spec.
    - unfold flat. cbn [map concat]. apply app_nil_r.
    - unfold flat. cbn [map concat]. rewrite app_nil_r.
      pose proof (addrs_length_le_size e). lia.
  Qed.

  (** After the iterator is exhausted it stays exhausted ([FusedIterator]). *)
  Lemma mr_next_fused :
    forall (fuel : nat) (st : list (expr L)),
      (stack_size st < fuel)%nat -> mr_next fuel st = None -> flat st = [].
  Proof.
    intros fuel st Hf Hn. pose proof (mr_next_spec fuel st Hf) as Hs. rewrite Hn in Hs. exact Hs.
  Qed.
End MemRefs.

(** * Soundness of the instance checker *)
Lemma list_eqb_memref_eq : forall a b : list memref, list_eqb memref_eqb a b = true -> a = b.
Proof.
  induction a as [|x a IH]; intros [|y b] H; cbn [list_eqb] in H; try discriminate; [reflexivity|].
  apply andb_true_iff in H. destruct H as [Hxy Hab].
  unfold memref_eqb in Hxy. apply andb_true_iff in Hxy. destruct Hxy as [H1 H2].
  apply N.eqb_eq in H1. apply N.eqb_eq in H2.
  destruct x as [x1 x2], y as [y1 y2]. cbn [fst snd] in *. subst.
  f_equal. apply IH. exact Hab.
Qed.

Lemma chk_c13_sound :
  forall e rv rm o,
    chk_c13 e rv rm o = true ->
    o_mrefs o = addrs e
    /\ (obs_ok (o_eval o) = true <-> supplied (rv_of rv) (rm_of rm) e = true)
    /\ obs_ok (o_eval_sub o) = obs_ok (o_eval_union o)
    /\ o_same_bits o = true.
Proof.
  intros e rv rm o H. unfold chk_c13 in H.
  repeat (apply andb_true_iff in H; destruct H as [H ?]).
  repeat split.
  - apply list_eqb_memref_eq. assumption.
  - intro Hok. match goal with Hq : Bool.eqb (obs_ok (o_eval o)) _ = true |- _ =>
      apply eqb_prop in Hq; rewrite <- Hq; exact Hok end.
  - intro Hs. match goal with Hq : Bool.eqb (obs_ok (o_eval o)) _ = true |- _ =>
      apply eqb_prop in Hq; rewrite Hq; exact Hs end.
  - apply eqb_prop. assumption.
  - assumption.
Qed.

(** The exact algebra used for execution has total operations, so the definedness theorem
    applies to it (hypothesis satisfiable). *)
Lemma exact_alg_total : infix_total exact_alg.
Proof. intros o x y. cbn. discriminate. Qed.

(** Structural equality decides equality, given that literal equality does. *)
Lemma expr_eqb_sound {L : Type} (leqb : L -> L -> bool) :
  (forall x y, leqb x y = true -> x = y) ->
  forall a b : expr L, expr_eqb leqb a b = true -> a = b.
Proof.
  intros Hl.
  induction a as [c | | x | n i | f a IHa | o a IHa | l IHl o r IHr]; intros b H;
    destruct b; cbn [expr_eqb] in H; try discriminate.
  - f_equal. apply Hl. exact H.
  - reflexivity.
  - apply N.eqb_eq in H. subst. reflexivity.
  - apply andb_true_iff in H. destruct H as [H1 H2].
    apply N.eqb_eq in H1. apply N.eqb_eq in H2. subst. reflexivity.
  - apply andb_true_iff in H. destruct H as [H1 H2].
    destruct f, f0; try discriminate; f_equal; apply IHa; exact H2.
  - apply andb_true_iff in H. destruct H as [H1 H2].
    destruct o, o0; try discriminate; f_equal; apply IHa; exact H2.
  - apply andb_true_iff in H. destruct H as [H12 H3].
    apply andb_true_iff in H12. destruct H12 as [H1 H2].
    rewrite (IHl _ H2), (IHr _ H3).
    destruct o, o0; try discriminate; reflexivity.
Qed.

Lemma list_eqb_sound {X : Type} (eqb : X -> X -> bool) :
  (forall x y, eqb x y = true -> x = y) ->
  forall a b : list X, list_eqb eqb a b = true -> a = b.
Proof.
  intros He. induction a as [|x a IH]; intros [|y b] H; cbn [list_eqb] in H; try discriminate.
  - reflexivity.
  - apply andb_true_iff in H. destruct H as [H1 H2]. f_equal; [apply He; exact H1 | apply IH; exact H2].
Qed.
