(** Proofs for C35 (Program::simplify).  Model: Model/Simplify35.v. *)
From Coq Require Import List NArith Bool Lia.
From QV Require Import Model.DepQueue Model.Simplify35.
Import ListNotations.
Open Scope N_scope.

(** ** Decidable equalities *)

Lemma mem_In x l : mem x l = true <-> In x l.
Proof.
  unfold mem. rewrite existsb_exists. split.
  - intros (y & Hy & E). apply N.eqb_eq in E. now subst.
  - intros H. exists x. split; [assumption | apply N.eqb_refl].
Qed.

Lemma listN_eqb_eq a : forall b, listN_eqb a b = true <-> a = b.
Proof.
  induction a as [| x a IH]; destruct b as [| y b]; cbn; split; try discriminate; try reflexivity.
  - intros H. apply andb_true_iff in H. destruct H as [H1 H2]. apply N.eqb_eq in H1. apply IH in H2. now subst.
  - intros [= -> ->]. rewrite N.eqb_refl. now apply IH.
Qed.

Lemma frame_eqb_eq f g : frame_eqb f g = true <-> f = g.
Proof.
  destruct f as [q n], g as [q' n']. unfold frame_eqb. cbn. rewrite andb_true_iff, listN_eqb_eq, N.eqb_eq.
  split; [intros [-> ->]; reflexivity | intros [= -> ->]; auto].
Qed.

Lemma memF_In f l : memF f l = true <-> In f l.
Proof.
  unfold memF. rewrite existsb_exists. split.
  - intros (y & Hy & E). apply frame_eqb_eq in E. now subst.
  - intros H. exists f. split; [assumption | now apply frame_eqb_eq].
Qed.

Lemma memF_false f l : memF f l = false <-> ~ In f l.
Proof. rewrite <- memF_In. destruct (memF f l); split; congruence. Qed.

(** ** Matching is pointwise: a filter of the key set by a predicate on single frames *)

Lemma matchA_In keys a f : In f (matchA keys a) <-> In f keys /\ satA a f = true.
Proof.
  destruct a; cbn [matchA satA]; rewrite ?filter_In; tauto.
Qed.

Lemma fold_inter_In f : forall ls acc,
    In f (fold_left inter ls acc) <-> In f acc /\ Forall (fun l => In f l) ls.
Proof.
  induction ls as [| l ls IH]; intros acc; cbn [fold_left].
  - split; [intros H; split; [assumption | constructor] | tauto].
  - rewrite IH. unfold inter. rewrite filter_In, memF_In. split.
    + intros [[H1 H2] H3]. split; [assumption | now constructor].
    + intros [H1 H2]. inversion H2; subst. tauto.
Qed.

Lemma matching_In keys c f : In f (matching keys c) <-> In f keys /\ sat c f = true.
Proof.
  destruct c as [a | l | l]; cbn [matching sat].
  - apply matchA_In.
  - destruct l as [| a0 rest]; [cbn; split; [intros [] | intros [_ H]; discriminate] |].
    rewrite fold_inter_In, matchA_In. cbn [is_nil negb andb forallb].
    rewrite andb_true_iff, forallb_forall, Forall_forall. split.
    + intros [[Hk H0] Hall]. split; [assumption |]. split; [assumption |].
      intros a Ha. specialize (Hall (matchA keys a) (in_map _ _ _ Ha)). now apply matchA_In in Hall.
    + intros [Hk [H0 Hall]]. split; [tauto |].
      intros l Hl. apply in_map_iff in Hl. destruct Hl as (a & <- & Ha). apply matchA_In. auto.
  - rewrite in_flat_map, existsb_exists. split.
    + intros (a & Ha & Hf). apply matchA_In in Hf. destruct Hf. eauto.
    + intros [Hk (a & Ha & Hs)]. exists a. split; [assumption | now apply matchA_In].
Qed.

(** [uses] / [blocks] characterise the two result sets of [matching_frames]. *)
Lemma matching_frames_spec keys avail i u b :
  matching_frames keys avail i = Some (u, b) ->
  (forall f, In f u <-> In f keys /\ uses avail i f = true)
  /\ (forall f, In f b <-> In f keys /\ blocks avail i f = true).
Proof.
  unfold matching_frames, blocks, uses. destruct (default_conds avail i) as [[cu cb] |]; [| discriminate].
  cbn [option_map filter_frames]. intros [= <- <-].
  assert (Hu : forall f, In f (match cu with Some c => matching keys c | None => [] end)
                         <-> In f keys /\ match cu with Some c => sat c f | None => false end = true).
  { intros f. destruct cu as [c |]; [apply matching_In | cbn; split; [intros [] | intros [_ H]; discriminate]]. }
  split; [exact Hu |].
  intros f. destruct cb as [c |].
  - set (used := match cu with Some c0 => matching keys c0 | None => [] end) in *.
    assert (Hb : In f (if is_nil used then matching keys c
                       else filter (fun g => negb (memF g used)) (matching keys c))
                 <-> In f (matching keys c) /\ ~ In f used).
    { destruct used as [| x t] eqn:E; cbn [is_nil].
      - split; [intros H; split; [assumption | intros []] | tauto].
      - rewrite filter_In, negb_true_iff, memF_false. tauto. }
    rewrite Hb, matching_In, andb_true_iff, negb_true_iff. rewrite Hu.
    destruct (match cu with Some c0 => sat c0 f | None => false end); intuition congruence.
  - cbn. split; [intros [] |]. intros [_ H]. destruct cu; discriminate.
Qed.

Lemma matching_frames_none keys keys' avail i :
  matching_frames keys avail i = None -> matching_frames keys' avail i = None.
Proof. unfold matching_frames. destruct (default_conds avail i); [discriminate | reflexivity]. Qed.

(** Frame-matching invariance: deleting frames from the key set restricts every instruction's
    used and blocked sets to the remaining frames and changes nothing else. *)
Lemma matching_invariant keep keys avail i :
  match matching_frames keys avail i, matching_frames (filter keep keys) avail i with
  | Some (u, b), Some (u', b') =>
      (forall f, In f u' <-> In f u /\ keep f = true) /\ (forall f, In f b' <-> In f b /\ keep f = true)
  | None, None => True
  | _, _ => False
  end.
Proof.
  destruct (matching_frames keys avail i) as [[u b] |] eqn:E1.
  - destruct (matching_frames (filter keep keys) avail i) as [[u' b'] |] eqn:E2.
    + apply matching_frames_spec in E1, E2. destruct E1 as [Hu Hb], E2 as [Hu' Hb'].
      split; intros f; rewrite ?Hu', ?Hb', ?Hu, ?Hb, filter_In; tauto.
    + apply (matching_frames_none _ keys) in E2. congruence.
  - now rewrite (matching_frames_none _ (filter keep keys) _ _ E1).
Qed.

(** ** simplify *)

Lemma frames_used_In e f :
  In f (frames_used e) <->
  In f (keys e) /\ exists bi, In bi (p_body e) /\ uses (p_avail e) (bi_frame bi) f = true.
Proof.
  unfold frames_used. rewrite in_flat_map. split.
  - intros (bi & Hbi & Hf).
    destruct (matching_frames (keys e) (p_avail e) (bi_frame bi)) as [[u b] |] eqn:E; [| destruct Hf].
    apply matching_frames_spec in E. destruct E as [Hu _]. apply Hu in Hf. destruct Hf. eauto.
  - intros [Hk (bi & Hbi & Hu)]. exists bi. split; [assumption |].
    destruct (matching_frames (keys e) (p_avail e) (bi_frame bi)) as [[u b] |] eqn:E.
    + apply matching_frames_spec in E. destruct E as [Hu' _]. apply Hu'. auto.
    + unfold matching_frames, uses in *. destruct (default_conds (p_avail e) (bi_frame bi)); discriminate.
Qed.

Lemma optN_eqb_eq a b : optN_eqb a b = true <-> a = b.
Proof.
  destruct a, b; cbn; split; try discriminate; try reflexivity.
  - intros H. apply N.eqb_eq in H. now subst.
  - intros [= ->]. apply N.eqb_refl.
Qed.

Lemma waveforms_used_wanted e w : mem w (waveforms_used e) = waveform_wanted e w.
Proof.
  apply eq_true_iff_eq. rewrite mem_In. unfold waveforms_used, waveform_wanted.
  rewrite in_flat_map, existsb_exists. split.
  - intros (bi & Hbi & Hw). exists bi. split; [assumption |]. apply optN_eqb_eq.
    destruct (bi_wf bi); cbn in Hw; [destruct Hw as [-> | []]; reflexivity | destruct Hw].
  - intros (bi & Hbi & Hw). apply optN_eqb_eq in Hw. exists bi. split; [assumption |]. rewrite Hw. now left.
Qed.

Lemma externs_used_wanted e x :
  match x with Some n => mem n (externs_used e) | None => false end = extern_wanted e x.
Proof.
  destruct x as [n |]; [| reflexivity]. cbn [extern_wanted].
  apply eq_true_iff_eq. rewrite mem_In. unfold externs_used.
  rewrite in_flat_map, existsb_exists. split.
  - intros (bi & Hbi & Hw). exists bi. split; [assumption |]. apply optN_eqb_eq.
    destruct (bi_call bi); cbn in Hw; [destruct Hw as [-> | []]; reflexivity | destruct Hw].
  - intros (bi & Hbi & Hw). apply optN_eqb_eq in Hw. exists bi. split; [assumption |]. rewrite Hw. now left.
Qed.

Lemma waveform_wanted_spec e w :
  waveform_wanted e w = true <-> exists bi, In bi (p_body e) /\ bi_wf bi = Some w.
Proof.
  unfold waveform_wanted. rewrite existsb_exists. split; intros (bi & H1 & H2); exists bi; split; auto;
    now apply optN_eqb_eq.
Qed.

Lemma extern_wanted_spec e x :
  extern_wanted e x = true <-> exists n, x = Some n /\ exists bi, In bi (p_body e) /\ bi_call bi = Some n.
Proof.
  destruct x as [n |]; cbn [extern_wanted].
  - rewrite existsb_exists. split.
    + intros (bi & H1 & H2). exists n. split; [reflexivity |]. exists bi. split; [assumption | now apply optN_eqb_eq].
    + intros (n' & [= <-] & bi & H1 & H2). exists bi. split; [assumption | now apply optN_eqb_eq].
  - split; [discriminate | intros (n & H & _); discriminate].
Qed.

Lemma frame_wanted_spec e f :
  frame_wanted e f = true <-> exists bi, In bi (p_body e) /\ uses (p_avail e) (bi_frame bi) f = true.
Proof. unfold frame_wanted. now rewrite existsb_exists. Qed.

Section Simplify.
  Variable expand : program -> option program.

  Lemma simplify_shape p s :
    simplify expand p = Some s ->
    exists e, expand p = Some e
              /\ p_body s = p_body e /\ p_cals s = []
              /\ p_decls s = p_decls e /\ p_gates s = p_gates e /\ p_circuits s = p_circuits e
              /\ p_avail s = p_avail e
              /\ p_frames s = filter (fun fd => memF (fst fd) (frames_used e)) (p_frames p)
              /\ p_waveforms s = filter (fun w => waveform_wanted e (fst w)) (p_waveforms e)
              /\ p_externs s = filter (fun x => extern_wanted e (fst x)) (p_externs e).
  Proof.
    unfold simplify. destruct (expand p) as [e |]; [| discriminate]. intros [= <-]. exists e. cbn.
    repeat split; try reflexivity.
    - apply filter_ext. intros w. apply waveforms_used_wanted.
    - apply filter_ext. intros x. apply externs_used_wanted.
  Qed.

  Lemma simplify_error p : simplify expand p = None <-> expand p = None.
  Proof. unfold simplify. destruct (expand p); split; congruence. Qed.

  (** kept frames: exactly the defined frames some instruction of the expanded body uses *)
  Lemma simplify_frames p e s :
    expand p = Some e -> simplify expand p = Some s -> p_frames e = p_frames p ->
    forall fd, In fd (p_frames s) <->
               In fd (p_frames e)
               /\ exists bi, In bi (p_body e) /\ uses (p_avail e) (bi_frame bi) (fst fd) = true.
  Proof.
    intros He Hs Hfr fd. apply simplify_shape in Hs. destruct Hs as (e' & He' & Hs).
    rewrite He in He'. injection He' as <-.
    destruct Hs as (_ & _ & _ & _ & _ & _ & Hf & _). rewrite Hf, filter_In, memF_In, frames_used_In, Hfr.
    split; [tauto |]. intros [H1 H2]. split; [assumption |]. split; [| assumption].
    unfold keys. rewrite Hfr. now apply in_map.
  Qed.

  (** every instruction of the body sees, in the simplified program, the same used frames and its
      blocked frames restricted to the kept ones *)
  Lemma simplify_matching p e s :
    expand p = Some e -> simplify expand p = Some s -> p_frames e = p_frames p ->
    forall bi, In bi (p_body e) ->
      match matching_frames (keys e) (p_avail e) (bi_frame bi),
            matching_frames (keys s) (p_avail s) (bi_frame bi) with
      | Some (u, b), Some (u', b') =>
          (forall f, In f u' <-> In f u)
          /\ (forall f, In f b' <-> In f b /\ In f (keys s))
      | None, None => True
      | _, _ => False
      end.
  Proof.
    intros He Hs Hfr bi Hbi. apply simplify_shape in Hs. destruct Hs as (e' & He' & Hs).
    rewrite He in He'. injection He' as <-.
    destruct Hs as (_ & _ & _ & _ & _ & Hav & Hf & _).
    assert (Hk : keys s = filter (fun f => memF f (frames_used e)) (keys e)).
    { unfold keys. rewrite Hf, Hfr. clear. induction (p_frames p) as [| [f a] l IH]; cbn; [reflexivity |].
      destruct (memF f (frames_used e)); cbn; now rewrite IH. }
    rewrite Hav, Hk.
    pose proof (matching_invariant (fun f => memF f (frames_used e)) (keys e) (p_avail e) (bi_frame bi)) as Hinv.
    destruct (matching_frames (keys e) (p_avail e) (bi_frame bi)) as [[u b] |] eqn:E1;
      destruct (matching_frames (filter _ (keys e)) (p_avail e) (bi_frame bi)) as [[u' b'] |] eqn:E2;
      try exact Hinv.
    destruct Hinv as [Hu Hb]. split.
    - intros f. rewrite Hu. split; [tauto |]. intros H. split; [assumption |].
      apply memF_In, frames_used_In. apply matching_frames_spec in E1. destruct E1 as [Hu1 _].
      apply Hu1 in H. destruct H. eauto.
    - intros f. rewrite Hb, filter_In, memF_In. split; [| tauto].
      intros [H1 H2]. split; [assumption |]. split; [| assumption].
      apply frames_used_In in H2. tauto.
  Qed.
End Simplify.

(** ** A frame that is only blocked contributes only edges out of the block start *)

Lemma edges_from_reads : forall (l : list N) (q : queue),
    qw q = Some (AW, 0) ->
    forall e, In e (edges_from q (map (fun n => (n, AR)) l)) ->
              e = (0, edge_dst e, AW) /\ In (edge_dst e) l.
Proof.
  induction l as [| n l IH]; intros q Hq e; cbn [map edges_from]; [intros [] |].
  unfold record. cbn [is_write]. rewrite Hq. cbn [opt_list].
  rewrite in_app_iff. intros [H | H].
  - unfold step_edges in H. apply in_map_iff in H. destruct H as (d & <- & Hd).
    apply filter_In in Hd. destruct Hd as [[<- | []] _]. cbn. auto.
  - apply IH in H; [| reflexivity]. destruct H. split; [assumption | now right].
Qed.

Lemma blocked_only_edges_spec blockers e :
  In e (blocked_only_edges blockers) -> e = (0, edge_dst e, AW) /\ In (edge_dst e) blockers.
Proof. unfold blocked_only_edges, edges. apply edges_from_reads. reflexivity. Qed.

(** ** Checker soundness *)

Lemma list_eqb_eq {A} (eqb : A -> A -> bool) :
  (forall x y, eqb x y = true -> x = y) -> forall a b, list_eqb eqb a b = true -> a = b.
Proof.
  intros Heq. induction a as [| x a IH]; destruct b as [| y b]; cbn; try discriminate; [reflexivity |].
  intros H. apply andb_true_iff in H. destruct H as [H1 H2]. f_equal; auto.
Qed.

Lemma finstr_eqb_eq a b : finstr_eqb a b = true -> a = b.
Proof.
  destruct a, b; cbn; try discriminate; intros H;
    repeat match goal with
           | H : _ && _ = true |- _ => apply andb_true_iff in H; destruct H
           | H : frame_eqb _ _ = true |- _ => apply frame_eqb_eq in H
           | H : listN_eqb _ _ = true |- _ => apply listN_eqb_eq in H
           | H : optN_eqb _ _ = true |- _ => apply optN_eqb_eq in H
           | H : Bool.eqb _ _ = true |- _ => apply Bool.eqb_prop in H
           end; subst; reflexivity.
Qed.

Lemma binstr_eqb_eq a b : binstr_eqb a b = true -> a = b.
Proof.
  destruct a, b. unfold binstr_eqb. cbn. intros H.
  repeat match goal with
         | H : _ && _ = true |- _ => apply andb_true_iff in H; destruct H
         end.
  apply finstr_eqb_eq in H. apply optN_eqb_eq in H2, H1. apply N.eqb_eq in H0. now subst.
Qed.

Lemma pairN_eqb_eq a b : pairN_eqb a b = true -> a = b.
Proof.
  destruct a, b. unfold pairN_eqb. cbn. intros H. apply andb_true_iff in H. destruct H as [H1 H2].
  apply N.eqb_eq in H1, H2. now subst.
Qed.

Lemma ext_eqb_eq a b : ext_eqb a b = true -> a = b.
Proof.
  destruct a, b. unfold ext_eqb. cbn. intros H. apply andb_true_iff in H. destruct H as [H1 H2].
  apply optN_eqb_eq in H1. apply N.eqb_eq in H2. now subst.
Qed.

Lemma memFD_In x l : memFD x l = true <-> In x l.
Proof.
  unfold memFD. rewrite existsb_exists. split.
  - intros (y & Hy & E). unfold fdef_eqb in E. apply andb_true_iff in E. destruct E as [E1 E2].
    apply frame_eqb_eq in E1. apply N.eqb_eq in E2. destruct x, y. cbn in *. now subst.
  - intros H. exists x. split; [assumption |]. unfold fdef_eqb. rewrite N.eqb_refl, andb_true_r.
    now apply frame_eqb_eq.
Qed.

Definition SimplifiedOK (e s : program) : Prop :=
  p_body s = p_body e
  /\ p_cals s = []
  /\ (forall fd, In fd (p_frames s) <->
                 In fd (p_frames e)
                 /\ exists bi, In bi (p_body e) /\ uses (p_avail e) (bi_frame bi) (fst fd) = true)
  /\ p_waveforms s = filter (fun w => waveform_wanted e (fst w)) (p_waveforms e)
  /\ p_externs s = filter (fun x => extern_wanted e (fst x)) (p_externs e)
  /\ p_decls s = p_decls e /\ p_gates s = p_gates e /\ p_circuits s = p_circuits e.

Theorem chk_sound e s : chk e s = 0 -> SimplifiedOK e s.
Proof.
  unfold chk.
  destruct (negb (list_eqb binstr_eqb _ _)) eqn:E2; [discriminate |].
  destruct (negb (is_nil _)) eqn:E3; [discriminate |].
  destruct (negb (forallb _ _ && forallb _ _)) eqn:E4; [discriminate |].
  destruct (negb (list_eqb pairN_eqb (p_waveforms s) _)) eqn:E5; [discriminate |].
  destruct (negb (list_eqb ext_eqb _ _)) eqn:E6; [discriminate |].
  destruct (negb (_ && _ && _)) eqn:E7; [discriminate |].
  intros _.
  apply negb_false_iff in E2, E3, E4, E5, E6, E7.
  apply (list_eqb_eq _ binstr_eqb_eq) in E2.
  apply (list_eqb_eq _ pairN_eqb_eq) in E5.
  apply (list_eqb_eq _ ext_eqb_eq) in E6.
  apply andb_true_iff in E7. destruct E7 as [E7 E7c]. apply andb_true_iff in E7. destruct E7 as [E7a E7b].
  apply (list_eqb_eq _ pairN_eqb_eq) in E7a, E7b, E7c.
  apply andb_true_iff in E4. destruct E4 as [E4a E4b].
  rewrite forallb_forall in E4a, E4b.
  split; [assumption |]. split; [destruct (p_cals s); [reflexivity | discriminate] |].
  split; [| repeat split; assumption].
  intros fd. split.
  - intros H. specialize (E4a _ H). apply andb_true_iff in E4a. destruct E4a as [Hm Hw].
    split; [now apply memFD_In | now apply frame_wanted_spec].
  - intros [H1 H2]. specialize (E4b _ H1). apply orb_true_iff in E4b. destruct E4b as [Hn | Hm].
    + apply frame_wanted_spec in H2. rewrite H2 in Hn. discriminate.
    + now apply memFD_In.
Qed.

(** The model's result satisfies what the checker establishes (when expansion keeps the frames). *)
Theorem model_simplified_ok expand p e s :
  expand p = Some e -> simplify expand p = Some s -> p_frames e = p_frames p -> SimplifiedOK e s.
Proof.
  intros He Hs Hfr. pose proof (simplify_frames expand p e s He Hs Hfr) as Hframes.
  apply simplify_shape in Hs. destruct Hs as (e' & He' & Hs). rewrite He in He'. injection He' as <-.
  destruct Hs as (H1 & H2 & H3 & H4 & H5 & _ & _ & H8 & H9).
  repeat split; try assumption; apply Hframes; assumption.
Qed.
