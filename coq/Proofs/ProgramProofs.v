(** Proofs about Model/Program.v: the Program container (C08, C09, C10, C11). *)
From Coq Require Import List NArith Bool Lia PeanoNat.
From QV Require Import Model.Program.
Import ListNotations.

(** * Basic facts *)

Lemma memN_In n l : memN n l = true <-> In n l.
Proof.
  induction l as [|x t IH]; cbn [memN In].
  - split; [discriminate | tauto].
  - destruct (N.eqb_spec n x) as [->|Hne].
    + split; auto.
    + rewrite IH. split; [auto | intros [Heq | Hin]; [congruence | exact Hin]].
Qed.

Lemma memN_false n l : memN n l = false <-> ~ In n l.
Proof. rewrite <- memN_In. destruct (memN n l); split; congruence. Qed.

Lemma kind_eqb_spec a b : reflect (a = b) (kind_eqb a b).
Proof. destruct a, b; cbn; constructor; congruence. Qed.

Lemma kind_eqb_refl a : kind_eqb a a = true.
Proof. destruct a; reflexivity. Qed.

Lemma in_all_kinds kd : In kd all_kinds.
Proof. destruct kd; cbn; tauto. Qed.

Lemma okey_inj a b : okey a = okey b -> a = b.
Proof.
  destruct a as [a|], b as [b|]; cbn [okey]; intros H; try reflexivity.
  - apply N.succ_inj in H. now subst.
  - exfalso. now apply (N.neq_succ_0 a).
  - exfalso. symmetry in H. now apply (N.neq_succ_0 b).
Qed.

(** ** [mk], [defs] and the setters *)

Lemma defs_mk kd f b u : defs kd (mk f b u) = f kd.
Proof. destruct kd; reflexivity. Qed.

Lemma body_mk f b u : body (mk f b u) = b.
Proof. reflexivity. Qed.

Lemma used_mk f b u : used (mk f b u) = u.
Proof. reflexivity. Qed.

Lemma mk_eta p : mk (fun kd => defs kd p) (body p) (used p) = p.
Proof. destruct p; reflexivity. Qed.

Lemma mk_ext f g b u : (forall kd, f kd = g kd) -> mk f b u = mk g b u.
Proof. intros H. unfold mk. now rewrite !H. Qed.

Lemma program_ext p q :
  (forall kd, defs kd p = defs kd q) -> body p = body q -> used p = used q -> p = q.
Proof.
  intros Hd Hb Hu. rewrite <- (mk_eta p), <- (mk_eta q). rewrite Hb, Hu. now apply mk_ext.
Qed.

Lemma defs_set_defs_same kd l p : defs kd (set_defs kd l p) = l.
Proof. unfold set_defs. rewrite defs_mk. now rewrite kind_eqb_refl. Qed.

Lemma defs_set_defs_other kd kd' l p : kd' <> kd -> defs kd' (set_defs kd l p) = defs kd' p.
Proof.
  intros Hne. unfold set_defs. rewrite defs_mk.
  destruct (kind_eqb_spec kd' kd); [contradiction | reflexivity].
Qed.

Lemma defs_set_defs kd kd' l p :
  defs kd' (set_defs kd l p) = if kind_eqb kd' kd then l else defs kd' p.
Proof. unfold set_defs. now rewrite defs_mk. Qed.

Lemma defs_set_body kd b p : defs kd (set_body b p) = defs kd p.
Proof. unfold set_body. now rewrite defs_mk. Qed.

Lemma defs_set_used kd u p : defs kd (set_used u p) = defs kd p.
Proof. unfold set_used. now rewrite defs_mk. Qed.

(** ** Association lists *)

Lemma lookup_None k l : lookup k l = None <-> ~ In k (keys l).
Proof.
  induction l as [|[k' v'] t IH]; cbn [lookup keys map fst In].
  - tauto.
  - destruct (N.eqb_spec k k') as [->|Hne].
    + split; [discriminate | intros H; exfalso; apply H; now left].
    + rewrite IH. unfold keys. split; [intros H [E|E]; [congruence | auto] | tauto].
Qed.

Lemma lookup_In k v l : lookup k l = Some v -> In (k, v) l.
Proof.
  induction l as [|[k' v'] t IH]; cbn [lookup In]; [discriminate|].
  destruct (N.eqb_spec k k') as [->|Hne].
  - intros [= ->]. now left.
  - intros H. right. now apply IH.
Qed.

Lemma In_keys k v (l : alist) : In (k, v) l -> In k (keys l).
Proof. intros H. unfold keys. apply in_map_iff. now exists (k, v). Qed.

Lemma In_lookup k v l : NoDup (keys l) -> In (k, v) l -> lookup k l = Some v.
Proof.
  induction l as [|[k' v'] t IH]; cbn [lookup In keys map fst]; [tauto|].
  intros Hnd [E | Hin].
  - inversion E; subst. now rewrite N.eqb_refl.
  - inversion Hnd as [|? ? Hni Hnd']; subst.
    destruct (N.eqb_spec k k') as [->|Hne].
    + exfalso. apply Hni. now apply In_keys with v.
    + now apply IH.
Qed.

Lemma lookup_Some_keys k v l : lookup k l = Some v -> In k (keys l).
Proof. intros H. apply In_keys with v. now apply lookup_In. Qed.

Lemma ins_notin k v l : ~ In k (keys l) -> ins k v l = l ++ [(k, v)].
Proof.
  induction l as [|[k' v'] t IH]; cbn [ins keys map fst In app]; [reflexivity|].
  intros H. destruct (N.eqb_spec k k') as [->|Hne].
  - exfalso. apply H. now left.
  - f_equal. apply IH. intros Hin. apply H. now right.
Qed.

Lemma keys_ins_in k v l : In k (keys l) -> keys (ins k v l) = keys l.
Proof.
  induction l as [|[k' v'] t IH]; cbn [ins keys map fst In]; [tauto|].
  intros H. destruct (N.eqb_spec k k') as [->|Hne]; cbn [map fst].
  - reflexivity.
  - f_equal. apply IH. destruct H as [E|H]; [congruence | exact H].
Qed.

Lemma keys_app (a b : alist) : keys (a ++ b) = keys a ++ keys b.
Proof. unfold keys. apply map_app. Qed.

Lemma vals_app (a b : alist) : vals (a ++ b) = vals a ++ vals b.
Proof. unfold vals. apply map_app. Qed.

Lemma In_dec_keys k (l : alist) : {In k (keys l)} + {~ In k (keys l)}.
Proof. apply in_dec. apply N.eq_dec. Qed.

Lemma NoDup_snoc {A} (l : list A) x : NoDup l -> ~ In x l -> NoDup (l ++ [x]).
Proof.
  induction l as [|y t IH]; cbn [app]; intros Hnd Hni.
  - constructor; [tauto | constructor].
  - inversion Hnd as [|? ? Hy Hnd']; subst. constructor.
    + rewrite in_app_iff. cbn [In]. intros [H|[H|[]]]; [auto | subst; apply Hni; now left].
    + apply IH; [exact Hnd' | intros H; apply Hni; now right].
Qed.

Lemma NoDup_keys_ins k v l : NoDup (keys l) -> NoDup (keys (ins k v l)).
Proof.
  intros Hnd. destruct (In_dec_keys k l) as [Hin|Hni].
  - now rewrite keys_ins_in.
  - rewrite ins_notin by exact Hni. rewrite keys_app. cbn [keys map fst].
    apply NoDup_snoc; assumption.
Qed.

(** * C11: [extend] is [merge] *)

Definition mergeF (b : alist) (kv : N * instr) : N * instr :=
  (fst kv, match lookup (fst kv) b with Some v' => v' | None => snd kv end).

Lemma merge_unfold a b :
  merge a b = map (mergeF b) a ++ filter (fun kv => negb (memN (fst kv) (keys a))) b.
Proof. reflexivity. Qed.

Lemma map_mergeF_cons_other k v a b :
  ~ In k (keys a) -> map (mergeF ((k, v) :: b)) a = map (mergeF b) a.
Proof.
  intros Hni. apply map_ext_in. intros [k' v'] Hin. unfold mergeF. cbn [fst snd lookup].
  destruct (N.eqb_spec k' k) as [->|Hne]; [|reflexivity].
  exfalso. apply Hni. now apply In_keys with v'.
Qed.

Lemma map_mergeF_ins k v a b :
  NoDup (keys a) -> In k (keys a) -> lookup k b = None ->
  map (mergeF b) (ins k v a) = map (mergeF ((k, v) :: b)) a.
Proof.
  induction a as [|[k' v'] t IH]; cbn [keys map fst In ins]; [tauto|].
  intros Hnd Hin Hb. inversion Hnd as [|? ? Hni Hnd']; subst.
  destruct (N.eqb_spec k k') as [->|Hne].
  - cbn [map]. f_equal.
    + unfold mergeF. cbn [fst snd lookup]. rewrite Hb. now rewrite N.eqb_refl.
    + symmetry. now apply map_mergeF_cons_other.
  - cbn [map]. f_equal.
    + unfold mergeF. cbn [fst snd lookup].
      destruct (N.eqb_spec k' k) as [E|_]; [congruence | reflexivity].
    + apply IH; [exact Hnd' | destruct Hin as [E|Hin]; [congruence | exact Hin] | exact Hb].
Qed.

Lemma filter_notin_snoc k (ks : list N) (b : alist) :
  ~ In k (keys b) ->
  filter (fun kv => negb (memN (fst kv) (ks ++ [k]))) b = filter (fun kv => negb (memN (fst kv) ks)) b.
Proof.
  intros Hni. apply filter_ext_in. intros [k' v'] Hin. cbn [fst]. f_equal.
  destruct (memN k' ks) eqn:E.
  - apply memN_In. apply in_or_app. left. now apply memN_In.
  - apply memN_false. rewrite in_app_iff. cbn [In]. intros [H|[H|[]]].
    + apply memN_false in E. contradiction.
    + subst. apply Hni. now apply In_keys with v'.
Qed.

Lemma merge_ins k v a b :
  NoDup (keys a) -> ~ In k (keys b) -> merge (ins k v a) b = merge a ((k, v) :: b).
Proof.
  intros Hnd Hkb. assert (Hlb : lookup k b = None) by now apply lookup_None.
  rewrite !merge_unfold. destruct (In_dec_keys k a) as [Hin|Hni].
  - rewrite keys_ins_in by exact Hin. rewrite map_mergeF_ins by assumption.
    f_equal. cbn [filter fst]. assert (Hm : memN k (keys a) = true) by now apply memN_In.
    now rewrite Hm.
  - rewrite ins_notin by exact Hni. rewrite map_app, keys_app. cbn [map keys fst].
    rewrite map_mergeF_cons_other by exact Hni.
    rewrite <- app_assoc. f_equal. cbn [app filter fst].
    assert (Hm : memN k (keys a) = false) by now apply memN_false. rewrite Hm. cbn [negb].
    unfold mergeF at 1. cbn [fst snd]. rewrite Hlb. f_equal.
    now apply filter_notin_snoc.
Qed.

Lemma extend_cons a k v b : extend a ((k, v) :: b) = extend (ins k v a) b.
Proof. reflexivity. Qed.

Theorem extend_merge a b : NoDup (keys a) -> NoDup (keys b) -> extend a b = merge a b.
Proof.
  revert a. induction b as [|[k v] t IH]; intros a Ha Hb.
  - unfold extend. cbn [fold_left]. rewrite merge_unfold. cbn [filter]. rewrite app_nil_r.
    rewrite <- (map_id a) at 1. apply map_ext_in. intros [k v] _. reflexivity.
  - cbn [keys map fst] in Hb. inversion Hb as [|? ? Hni Hb']; subst.
    rewrite extend_cons. rewrite IH; [|now apply NoDup_keys_ins | exact Hb'].
    now apply merge_ins.
Qed.

Lemma extend_nil_r a : extend a [] = a.
Proof. reflexivity. Qed.

Lemma extend_nil_l b : NoDup (keys b) -> extend [] b = b.
Proof.
  intros Hb. rewrite extend_merge by (assumption || constructor).
  rewrite merge_unfold. cbn [map app keys memN negb].
  induction b as [|x t IH]; cbn [filter]; [reflexivity|].
  f_equal. apply IH. cbn [keys map] in Hb. now inversion Hb.
Qed.

Lemma keys_merge a b :
  keys (merge a b) = keys a ++ filter (fun k => negb (memN k (keys a))) (keys b).
Proof.
  rewrite merge_unfold, keys_app. f_equal.
  - unfold keys. rewrite map_map. apply map_ext. intros [k v]. reflexivity.
  - unfold keys. induction b as [|[k v] t IH]; cbn [filter map fst]; [reflexivity|].
    destruct (memN k (map fst a)); cbn [negb map fst]; now rewrite IH.
Qed.

Lemma NoDup_filter {A} (f : A -> bool) l : NoDup l -> NoDup (filter f l).
Proof.
  induction 1 as [|x l Hni Hnd IH]; cbn [filter]; [constructor|].
  destruct (f x); [|exact IH]. constructor; [|exact IH].
  intros H. apply filter_In in H. tauto.
Qed.

Lemma NoDup_app_disjoint {A} (l m : list A) :
  NoDup l -> NoDup m -> (forall x, In x l -> ~ In x m) -> NoDup (l ++ m).
Proof.
  induction 1 as [|x l Hni Hnd IH]; cbn [app]; intros Hm Hd; [exact Hm|].
  constructor.
  - rewrite in_app_iff. intros [H|H]; [contradiction | apply (Hd x); [now left | exact H]].
  - apply IH; [exact Hm | intros y Hy; apply Hd; now right].
Qed.

Lemma NoDup_keys_merge a b : NoDup (keys a) -> NoDup (keys b) -> NoDup (keys (merge a b)).
Proof.
  intros Ha Hb. rewrite keys_merge. apply NoDup_app_disjoint.
  - exact Ha.
  - now apply NoDup_filter.
  - intros k Hk Hf. apply filter_In in Hf. destruct Hf as [_ Hf].
    apply memN_In in Hk. now rewrite Hk in Hf.
Qed.

(** the value bound to a key after the merge *)
Lemma lookup_app k (a b : alist) :
  lookup k (a ++ b) = match lookup k a with Some v => Some v | None => lookup k b end.
Proof.
  induction a as [|[k' v'] t IH]; cbn [app lookup]; [reflexivity|].
  destruct (N.eqb k k'); [reflexivity | exact IH].
Qed.

Lemma lookup_map_mergeF k a b :
  lookup k (map (mergeF b) a) =
  match lookup k a with
  | Some v => Some (match lookup k b with Some v' => v' | None => v end)
  | None => None
  end.
Proof.
  induction a as [|[k' v'] t IH]; cbn [map lookup]; [reflexivity|].
  unfold mergeF at 1. cbn [fst snd].
  destruct (N.eqb_spec k k') as [->|Hne]; [reflexivity | exact IH].
Qed.

Lemma lookup_filter_keys k (f : N -> bool) (b : alist) :
  lookup k (filter (fun kv => f (fst kv)) b) = if f k then lookup k b else None.
Proof.
  induction b as [|[k' v'] t IH]; cbn [filter lookup fst].
  - now destruct (f k).
  - destruct (f k') eqn:Ef; cbn [lookup].
    + destruct (N.eqb_spec k k') as [->|Hne]; [now rewrite Ef | exact IH].
    + destruct (N.eqb_spec k k') as [->|Hne]; [now rewrite IH, Ef | exact IH].
Qed.

(** "each definition keyed in both takes B's value and every other definition is kept" *)
Theorem lookup_merge k a b :
  lookup k (merge a b) =
  match lookup k b with Some v' => Some v' | None => lookup k a end.
Proof.
  rewrite merge_unfold, lookup_app, lookup_map_mergeF.
  rewrite (lookup_filter_keys k (fun k => negb (memN k (keys a)))).
  destruct (lookup k a) as [v|] eqn:Ea.
  - destruct (lookup k b); reflexivity.
  - apply lookup_None in Ea. apply memN_false in Ea. rewrite Ea. cbn [negb].
    destruct (lookup k b); reflexivity.
Qed.

(** * Well-formed programs: what every program built through the public operations satisfies *)

Definition wf_alist (kd : kind) (l : alist) : Prop :=
  NoDup (keys l) /\ Forall (fun kv => route (snd kv) = Some (kd, fst kv)) l.

Definition WF (p : program) : Prop :=
  (forall kd, wf_alist kd (defs kd p)) /\ Forall (fun i => route i = None) (body p).

Lemma wf_alist_nil kd : wf_alist kd [].
Proof. split; constructor. Qed.

Lemma WF_empty : WF empty.
Proof. split; [intros kd; destruct kd; apply wf_alist_nil | constructor]. Qed.

Lemma Forall_ins (P : N * instr -> Prop) k v l : Forall P l -> P (k, v) -> Forall P (ins k v l).
Proof.
  induction l as [|[k' v'] t IH]; cbn [ins]; intros Hl Hp.
  - now constructor.
  - inversion Hl; subst. destruct (N.eqb k k'); constructor; auto.
Qed.

Lemma wf_alist_ins kd k i l : wf_alist kd l -> route i = Some (kd, k) -> wf_alist kd (ins k i l).
Proof.
  intros [Hnd Hf] Hr. split; [now apply NoDup_keys_ins | now apply Forall_ins].
Qed.

Lemma WF_mk f b u :
  (forall kd, wf_alist kd (f kd)) -> Forall (fun i => route i = None) b -> WF (mk f b u).
Proof. intros Hf Hb. split; [intros kd; now rewrite defs_mk | exact Hb]. Qed.

Lemma WF_add_raw p i : WF p -> WF (add_raw p i).
Proof.
  intros [Hd Hb]. unfold add_raw. destruct (route i) as [[kd k]|] eqn:Hr.
  - split.
    + intros kd'. rewrite defs_set_defs. destruct (kind_eqb_spec kd' kd) as [->|Hne].
      * rewrite defs_set_used. now apply wf_alist_ins.
      * rewrite defs_set_used. apply Hd.
    + exact Hb.
  - split.
    + intros kd'. rewrite defs_set_body, defs_set_used. apply Hd.
    + cbn [set_body body_mk body set_used mk]. apply Forall_app. split; [exact Hb | now constructor].
Qed.

Lemma defs_rebuild_used kd p : defs kd (rebuild_used p) = defs kd p.
Proof. unfold rebuild_used. apply defs_set_used. Qed.

Lemma body_rebuild_used p : body (rebuild_used p) = body p.
Proof. reflexivity. Qed.

Lemma to_instructions_rebuild_used p : to_instructions (rebuild_used p) = to_instructions p.
Proof. reflexivity. Qed.

Lemma used_rebuild_used p : used (rebuild_used p) = flat_map gq (to_instructions p).
Proof. reflexivity. Qed.

Lemma WF_same p q : (forall kd, defs kd q = defs kd p) -> body q = body p -> WF p -> WF q.
Proof. intros Hd Hb [H1 H2]. split; [intros kd; rewrite Hd; apply H1 | now rewrite Hb]. Qed.

Lemma WF_rebuild_used p : WF p -> WF (rebuild_used p).
Proof. apply WF_same; [intros kd; apply defs_rebuild_used | reflexivity]. Qed.

Lemma defs_add_instruction_raw kd p i : defs kd (add_instruction p i) = defs kd (add_raw p i).
Proof. unfold add_instruction. destruct (replaces_cal p i); [apply defs_rebuild_used | reflexivity]. Qed.

Lemma body_add_instruction_raw p i : body (add_instruction p i) = body (add_raw p i).
Proof. unfold add_instruction. destruct (replaces_cal p i); reflexivity. Qed.

Lemma to_instructions_add_instruction_raw p i :
  to_instructions (add_instruction p i) = to_instructions (add_raw p i).
Proof. unfold add_instruction. destruct (replaces_cal p i); reflexivity. Qed.

Lemma WF_add_instruction p i : WF p -> WF (add_instruction p i).
Proof.
  intros Hp. apply (WF_same (add_raw p i));
    [intros kd; apply defs_add_instruction_raw | apply body_add_instruction_raw | now apply WF_add_raw].
Qed.

Lemma WF_add_instructions is : forall p, WF p -> WF (add_instructions p is).
Proof.
  unfold add_instructions. induction is as [|i t IH]; intros p Hp; cbn [fold_left]; [exact Hp|].
  apply IH. now apply WF_add_instruction.
Qed.

Lemma WF_from_instructions is : WF (from_instructions is).
Proof. apply WF_add_instructions. apply WF_empty. Qed.

(** ** What [from_instructions] computes, field by field *)

Definition build (l : alist) : alist := extend [] l.

Lemma sel_app kd a b : sel kd (a ++ b) = sel kd a ++ sel kd b.
Proof. unfold sel. apply flat_map_app. Qed.

Lemma extend_app a l m : extend a (l ++ m) = extend (extend a l) m.
Proof. unfold extend. apply fold_left_app. Qed.

Lemma add_instructions_app p a b :
  add_instructions p (a ++ b) = add_instructions (add_instructions p a) b.
Proof. unfold add_instructions. apply fold_left_app. Qed.

Lemma defs_add_instruction kd p i :
  defs kd (add_instruction p i) = extend (defs kd p) (sel kd [i]).
Proof.
  rewrite defs_add_instruction_raw.
  unfold add_raw, sel. cbn [flat_map]. rewrite app_nil_r.
  destruct (route i) as [[kd' k]|] eqn:Hr.
  - rewrite defs_set_defs, defs_set_used. rewrite defs_set_used.
    destruct (kind_eqb_spec kd kd') as [->|Hne].
    + rewrite kind_eqb_refl. reflexivity.
    + destruct (kind_eqb_spec kd' kd) as [E|_]; [congruence | reflexivity].
  - now rewrite defs_set_body, defs_set_used.
Qed.

Lemma body_add_instruction p i :
  body (add_instruction p i) = body p ++ filter is_body [i].
Proof.
  rewrite body_add_instruction_raw.
  unfold add_raw, is_body. cbn [filter].
  destruct (route i) as [[kd' k]|] eqn:Hr; cbn [body set_defs set_body set_used mk].
  - now rewrite app_nil_r.
  - reflexivity.
Qed.

Lemma used_add_raw p i : used (add_raw p i) = used p ++ gq i.
Proof. unfold add_raw. destruct (route i) as [[kd' k]|]; reflexivity. Qed.

(** the cache after one addition: extended, or rebuilt from the listing if a calibration was replaced *)
Lemma used_add_instruction p i :
  used (add_instruction p i) =
  if replaces_cal p i then listing_gq (to_instructions (add_instruction p i)) else used p ++ gq i.
Proof.
  rewrite to_instructions_add_instruction_raw. unfold add_instruction.
  destruct (replaces_cal p i); [reflexivity | apply used_add_raw].
Qed.

Lemma defs_add_instructions kd is : forall p,
  defs kd (add_instructions p is) = extend (defs kd p) (sel kd is).
Proof.
  induction is as [|i t IH]; intros p.
  - reflexivity.
  - change (i :: t) with ([i] ++ t). rewrite add_instructions_app, sel_app, extend_app, IH.
    f_equal. apply defs_add_instruction.
Qed.

Lemma body_add_instructions is : forall p,
  body (add_instructions p is) = body p ++ filter is_body is.
Proof.
  induction is as [|i t IH]; intros p.
  - cbn. now rewrite app_nil_r.
  - change (i :: t) with ([i] ++ t). rewrite add_instructions_app, IH.
    change (add_instructions p [i]) with (add_instruction p i). rewrite body_add_instruction.
    rewrite filter_app. now rewrite app_assoc.
Qed.

Lemma defs_from kd is : defs kd (from_instructions is) = build (sel kd is).
Proof. unfold from_instructions. rewrite defs_add_instructions. now destruct kd. Qed.

Lemma body_from is : body (from_instructions is) = filter is_body is.
Proof. unfold from_instructions. now rewrite body_add_instructions. Qed.

(** * C11 at program level *)

Lemma add_is_add_assign a b : add a b = add_assign a b.
Proof. reflexivity. Qed.

(** the implementation's test "a calibration was replaced": the calibration count shrank *)
Definition replaced (a b : program) : bool :=
  Nat.ltb (cal_count (add_assign_raw a b)) (cal_count a + cal_count b).

Lemma add_unfold a b :
  add a b = if replaced a b then rebuild_used (add_assign_raw a b) else add_assign_raw a b.
Proof. reflexivity. Qed.

Lemma body_add a b : body (add a b) = body a ++ body b.
Proof. rewrite add_unfold. destruct (replaced a b); reflexivity. Qed.

Lemma defs_add_raw kd a b : defs kd (add a b) = extend (defs kd a) (defs kd b).
Proof.
  rewrite add_unfold. destruct (replaced a b); [rewrite defs_rebuild_used|];
    unfold add_assign_raw; now rewrite defs_mk.
Qed.

Lemma to_instructions_add_raw a b : to_instructions (add a b) = to_instructions (add_assign_raw a b).
Proof. rewrite add_unfold. destruct (replaced a b); reflexivity. Qed.

(** the cache of A+B: the union, or rebuilt from the listing if a calibration was replaced *)
Lemma used_add a b :
  used (add a b) =
  if replaced a b then listing_gq (to_instructions (add a b)) else used a ++ used b.
Proof.
  rewrite to_instructions_add_raw. rewrite add_unfold. destruct (replaced a b); reflexivity.
Qed.

Lemma defs_add kd a b : WF a -> WF b -> defs kd (add a b) = merge (defs kd a) (defs kd b).
Proof.
  intros [Ha _] [Hb _]. rewrite defs_add_raw. apply extend_merge; [apply Ha | apply Hb].
Qed.

Lemma used_add_union a b q :
  replaced a b = false -> (In q (used (add a b)) <-> In q (used a) \/ In q (used b)).
Proof. intros H. rewrite used_add, H. apply in_app_iff. Qed.

Lemma replaced_empty_r a : replaced a empty = false.
Proof.
  unfold replaced, cal_count, add_assign_raw. cbn [cals mcals mk defs empty extend fold_left length].
  rewrite Nat.add_0_r. apply Nat.ltb_irrefl.
Qed.

Lemma replaced_empty_l b : WF b -> replaced empty b = false.
Proof.
  intros [Hb _]. unfold replaced, cal_count, add_assign_raw. cbn [cals mcals mk defs empty length].
  rewrite (extend_nil_l (cals b)) by apply (Hb KCal).
  rewrite (extend_nil_l (mcals b)) by apply (Hb KMCal). cbn [Nat.add]. apply Nat.ltb_irrefl.
Qed.

Lemma add_empty_r a : add a empty = a.
Proof.
  rewrite add_unfold, replaced_empty_r. apply program_ext.
  - intros kd. unfold add_assign_raw. rewrite defs_mk. now destruct kd.
  - cbn [add_assign_raw body mk empty]. apply app_nil_r.
  - cbn [add_assign_raw used mk empty]. apply app_nil_r.
Qed.

Lemma add_empty_l b : WF b -> add empty b = b.
Proof.
  intros Hw. rewrite add_unfold, (replaced_empty_l b Hw). destruct Hw as [Hb _]. apply program_ext.
  - intros kd. unfold add_assign_raw. rewrite defs_mk.
    replace (defs kd empty) with (@nil (N * instr)) by now destruct kd.
    apply extend_nil_l. apply Hb.
  - reflexivity.
  - reflexivity.
Qed.

Lemma Forall_merge (P : N * instr -> Prop) a b : Forall P a -> Forall P b -> Forall P (merge a b).
Proof.
  intros Ha Hb. rewrite merge_unfold. apply Forall_app. split.
  - apply Forall_forall. intros x Hx. apply in_map_iff in Hx. destruct Hx as [[k v] [<- Hin]].
    unfold mergeF. cbn [fst snd]. destruct (lookup k b) as [v'|] eqn:E.
    + apply lookup_In in E. rewrite Forall_forall in Hb. now apply Hb.
    + rewrite Forall_forall in Ha. now apply Ha.
  - apply Forall_forall. intros x Hx. apply filter_In in Hx. rewrite Forall_forall in Hb. now apply Hb.
Qed.

Lemma wf_alist_merge kd a b : wf_alist kd a -> wf_alist kd b -> wf_alist kd (merge a b).
Proof.
  intros [Ha1 Ha2] [Hb1 Hb2]. split; [now apply NoDup_keys_merge|].
  apply Forall_merge; [|exact Hb2].
  exact Ha2.
Qed.

Lemma Forall_mergeF_route kd a b :
  Forall (fun kv => route (snd kv) = Some (kd, fst kv)) a ->
  Forall (fun kv => route (snd kv) = Some (kd, fst kv)) b ->
  Forall (fun kv => route (snd kv) = Some (kd, fst kv)) (merge a b).
Proof. apply Forall_merge. Qed.

Lemma WF_add a b : WF a -> WF b -> WF (add a b).
Proof.
  intros Ha Hb. split.
  - intros kd. rewrite defs_add by assumption. apply wf_alist_merge; [apply Ha | apply Hb].
  - rewrite body_add. apply Forall_app. split; [apply Ha | apply Hb].
Qed.

(** * Boolean comparisons decide equality *)

Lemma listN_eqb_eq a b : listN_eqb a b = true <-> a = b.
Proof.
  revert b. induction a as [|x a IH]; intros [|y b]; cbn [listN_eqb]; try (split; [discriminate|discriminate]).
  - tauto.
  - rewrite andb_true_iff, N.eqb_eq, IH. split; [intros [-> ->]; reflexivity | intros [= -> ->]; auto].
Qed.

Lemma optN_eqb_eq a b : optN_eqb a b = true <-> a = b.
Proof.
  destruct a, b; cbn [optN_eqb]; try (split; discriminate); [|tauto].
  rewrite N.eqb_eq. split; [intros ->; reflexivity | intros [= ->]; reflexivity].
Qed.

Lemma instr_eqb_eq a b : instr_eqb a b = true <-> a = b.
Proof.
  destruct a, b; cbn [instr_eqb]; try (split; discriminate);
    rewrite ?andb_true_iff, ?N.eqb_eq, ?listN_eqb_eq, ?optN_eqb_eq;
    (split; [intuition (subst; reflexivity) | intros H; inversion H; subst; auto]).
Qed.

Lemma instrs_eqb_eq a b : instrs_eqb a b = true <-> a = b.
Proof.
  revert b. induction a as [|x a IH]; intros [|y b]; cbn [instrs_eqb]; try (split; discriminate).
  - tauto.
  - rewrite andb_true_iff, instr_eqb_eq, IH. split; [intros [-> ->]; reflexivity | intros [= -> ->]; auto].
Qed.

Lemma subsetb_incl a b : subsetb a b = true <-> incl a b.
Proof.
  unfold subsetb, incl. rewrite forallb_forall. split; intros H x Hx; apply memN_In; auto.
Qed.

Definition seteq (a b : list N) : Prop := forall x, In x a <-> In x b.

Lemma seteqb_seteq a b : seteqb a b = true <-> seteq a b.
Proof.
  unfold seteqb, seteq. rewrite andb_true_iff, !subsetb_incl. unfold incl.
  split; [intros [H1 H2] x; split; auto | intros H; split; intros x; apply H].
Qed.

Lemma seteq_refl a : seteq a a.
Proof. intros x. tauto. Qed.

Lemma seteq_sym a b : seteq a b -> seteq b a.
Proof. intros H x. symmetry. apply H. Qed.

Lemma seteq_trans a b c : seteq a b -> seteq b c -> seteq a c.
Proof. intros H1 H2 x. rewrite (H1 x). apply H2. Qed.

Lemma seteq_app a a' b b' : seteq a a' -> seteq b b' -> seteq (a ++ b) (a' ++ b').
Proof. intros H1 H2 x. rewrite !in_app_iff, (H1 x), (H2 x). tauto. Qed.

(** ** C11: the instance checker decides the property on observed listings *)

Definition Concat_ok (a b ab : obs) : Prop :=
  body_part (fst ab) = body_part (fst a) ++ body_part (fst b) /\
  (forall kd, kind_part kd (fst ab) = vals (merge (sel kd (fst a)) (sel kd (fst b)))) /\
  (forall q, In q (snd ab) <-> In q (snd a) \/ In q (snd b)).

Lemma chk_concat_sound a b ab : chk_concat a b ab = true -> Concat_ok a b ab.
Proof.
  unfold chk_concat, Concat_ok. rewrite !andb_true_iff, instrs_eqb_eq, forallb_forall, seteqb_seteq.
  intros [[H1 H2] H3]. split; [exact H1|]. split.
  - intros kd. apply instrs_eqb_eq. apply H2. apply in_all_kinds.
  - intros q. rewrite (H3 q). apply in_app_iff.
Qed.

(** the model satisfies what the checker checks (so verdict 1 and 2 are consistent) *)
Lemma sel_vals_wf kd kd' l : wf_alist kd' l -> sel kd (vals l) = if kind_eqb kd' kd then l else [].
Proof.
  intros [_ Hf]. induction l as [|[k v] t IH]; cbn [vals map snd sel flat_map].
  - now destruct (kind_eqb kd' kd).
  - inversion Hf as [|? ? Hr Hf']; subst. cbn [fst snd] in Hr. rewrite Hr.
    fold (vals t). fold (sel kd (vals t)). rewrite (IH Hf').
    destruct (kind_eqb kd' kd); reflexivity.
Qed.

Lemma sel_body kd b : Forall (fun i => route i = None) b -> sel kd b = [].
Proof.
  induction 1 as [|i t Hi Ht IH]; cbn [sel flat_map]; [reflexivity|].
  rewrite Hi. exact IH.
Qed.

Lemma to_instructions_alt p :
  to_instructions p = flat_map (fun kd => vals (defs kd p)) all_kinds ++ body p.
Proof. unfold to_instructions. cbn [flat_map all_kinds defs]. rewrite app_nil_r. now rewrite <- !app_assoc. Qed.

Lemma sel_to_instructions kd p : WF p -> sel kd (to_instructions p) = defs kd p.
Proof.
  intros [Hd Hb]. unfold to_instructions. rewrite !sel_app.
  rewrite (sel_vals_wf kd KExtern) by apply (Hd KExtern).
  rewrite (sel_vals_wf kd KDecl) by apply (Hd KDecl).
  rewrite (sel_vals_wf kd KFrame) by apply (Hd KFrame).
  rewrite (sel_vals_wf kd KWave) by apply (Hd KWave).
  rewrite (sel_vals_wf kd KCal) by apply (Hd KCal).
  rewrite (sel_vals_wf kd KMCal) by apply (Hd KMCal).
  rewrite (sel_vals_wf kd KGate) by apply (Hd KGate).
  rewrite (sel_vals_wf kd KCirc) by apply (Hd KCirc).
  rewrite (sel_body kd (body p) Hb).
  destruct kd; cbn [kind_eqb defs app]; now rewrite ?app_nil_r.
Qed.

Lemma filter_body_vals kd l : wf_alist kd l -> filter is_body (vals l) = [].
Proof.
  intros [_ Hf]. induction l as [|[k v] t IH]; cbn [vals map snd filter]; [reflexivity|].
  inversion Hf as [|? ? Hr Hf']; subst. cbn [fst snd] in Hr. unfold is_body at 1. rewrite Hr.
  now apply IH.
Qed.

Lemma filter_body_body b : Forall (fun i => route i = None) b -> filter is_body b = b.
Proof.
  induction 1 as [|i t Hi Ht IH]; cbn [filter]; [reflexivity|].
  unfold is_body at 1. rewrite Hi. now rewrite IH.
Qed.

Lemma body_part_to_instructions p : WF p -> body_part (to_instructions p) = body p.
Proof.
  intros [Hd Hb]. unfold body_part, to_instructions. rewrite !filter_app.
  rewrite (filter_body_vals KExtern), (filter_body_vals KDecl), (filter_body_vals KFrame),
    (filter_body_vals KWave), (filter_body_vals KCal), (filter_body_vals KMCal),
    (filter_body_vals KGate), (filter_body_vals KCirc);
    try (first [apply (Hd KExtern) | apply (Hd KDecl) | apply (Hd KFrame) | apply (Hd KWave)
               | apply (Hd KCal) | apply (Hd KMCal) | apply (Hd KGate) | apply (Hd KCirc)]).
  cbn [app]. now apply filter_body_body.
Qed.

Lemma cal_len_to_instructions p : WF p -> cal_len (to_instructions p) = cal_count p.
Proof.
  intros Hp. unfold cal_len, cal_count, kind_part. rewrite !sel_to_instructions by exact Hp.
  cbn [defs]. unfold vals. now rewrite !map_length.
Qed.

Lemma cal_count_add a b : cal_count (add a b) = cal_count (add_assign_raw a b).
Proof.
  unfold cal_count. change (cals (add a b)) with (defs KCal (add a b)).
  change (mcals (add a b)) with (defs KMCal (add a b)). rewrite !defs_add_raw.
  unfold add_assign_raw. cbn [cals mcals mk]. reflexivity.
Qed.

Lemma replaced_obs_model a b :
  WF a -> WF b -> replaced_obs (obs_of a) (obs_of b) (obs_of (add a b)) = replaced a b.
Proof.
  intros Ha Hb. assert (Hab := WF_add a b Ha Hb).
  unfold replaced_obs, replaced, obs_of. cbn [fst]. rewrite !cal_len_to_instructions by assumption.
  now rewrite cal_count_add.
Qed.

(** the model passes the strict checker whenever no calibration is replaced; otherwise it is in
    [union_class] or still satisfies the union *)
Theorem model_concat_ok a b :
  WF a -> WF b -> replaced a b = false -> Concat_ok (obs_of a) (obs_of b) (obs_of (add a b)).
Proof.
  intros Ha Hb Hr. assert (Hab := WF_add a b Ha Hb). unfold Concat_ok, obs_of. cbn [fst snd]. split; [|split].
  - rewrite !body_part_to_instructions by assumption. apply body_add.
  - intros kd. unfold kind_part. rewrite !sel_to_instructions by assumption. now rewrite defs_add.
  - intros q. now apply used_add_union.
Qed.

(** * C08: what [build] (a fold of insert from the empty map) computes *)

Lemma build_snoc l x : build (l ++ [x]) = ins (fst x) (snd x) (build l).
Proof. unfold build, extend. now rewrite fold_left_app. Qed.

Lemma lookup_ins k' k v m : lookup k' (ins k v m) = if N.eqb k' k then Some v else lookup k' m.
Proof.
  induction m as [|[k0 v0] t IH]; cbn [ins lookup].
  - reflexivity.
  - destruct (N.eqb_spec k k0) as [->|Hne]; cbn [lookup].
    + destruct (N.eqb k' k0); reflexivity.
    + destruct (N.eqb_spec k' k0) as [->|Hne'].
      * destruct (N.eqb_spec k0 k); [congruence | reflexivity].
      * exact IH.
Qed.

Lemma nodup_from_In x seen l : In x (nodup_from seen l) <-> In x l /\ ~ In x seen.
Proof.
  revert seen. induction l as [|y t IH]; intros seen; cbn [nodup_from In].
  - tauto.
  - destruct (memN y seen) eqn:E.
    + rewrite IH. apply memN_In in E. split; [tauto|]. intros [[->|H] Hn]; [contradiction | tauto].
    + cbn [In]. rewrite IH. cbn [In]. apply memN_false in E.
      destruct (N.eq_dec y x) as [->|Hne]; [tauto|]. tauto.
Qed.

Lemma nodup_from_NoDup seen l : NoDup (nodup_from seen l).
Proof.
  revert seen. induction l as [|y t IH]; intros seen; cbn [nodup_from]; [constructor|].
  destruct (memN y seen); [apply IH|]. constructor; [|apply IH].
  rewrite nodup_from_In. cbn [In]. tauto.
Qed.

Lemma memN_app x a b : memN x (a ++ b) = memN x a || memN x b.
Proof.
  induction a as [|y t IH]; cbn [app memN]; [reflexivity|].
  destruct (N.eqb x y); [reflexivity | exact IH].
Qed.

Lemma nodup_from_snoc seen l x :
  nodup_from seen (l ++ [x]) = nodup_from seen l ++ (if memN x seen || memN x l then [] else [x]).
Proof.
  revert seen. induction l as [|y t IH]; intros seen; cbn [app nodup_from memN].
  - rewrite orb_false_r. destruct (memN x seen); reflexivity.
  - destruct (memN y seen) eqn:E.
    + rewrite IH. f_equal. destruct (N.eqb_spec x y) as [->|Hne]; [|reflexivity].
      rewrite E. reflexivity.
    + cbn [app]. f_equal. rewrite IH. f_equal. cbn [memN].
      destruct (N.eqb x y); cbn [orb]; [now rewrite orb_true_r | reflexivity].
Qed.

Lemma first_keys_snoc l k v :
  first_keys (l ++ [(k, v)]) = first_keys l ++ (if memN k (keys l) then [] else [k]).
Proof. unfold first_keys. rewrite keys_app. cbn [keys map fst]. now rewrite nodup_from_snoc. Qed.

Lemma first_keys_In k l : In k (first_keys l) <-> In k (keys l).
Proof. unfold first_keys. rewrite nodup_from_In. cbn [In]. tauto. Qed.

Lemma last_value_snoc k' l k v :
  last_value k' (l ++ [(k, v)]) = if N.eqb k' k then Some v else last_value k' l.
Proof. unfold last_value. rewrite rev_unit. reflexivity. Qed.

Theorem keys_build l : keys (build l) = first_keys l.
Proof.
  induction l as [|[k v] l IH] using rev_ind; [reflexivity|].
  rewrite build_snoc, first_keys_snoc. cbn [fst snd].
  destruct (memN k (keys l)) eqn:E.
  - rewrite app_nil_r. rewrite keys_ins_in; [exact IH|]. rewrite IH. apply first_keys_In. now apply memN_In.
  - rewrite ins_notin, keys_app; [now rewrite IH|].
    rewrite IH, first_keys_In. now apply memN_false.
Qed.

Theorem lookup_build k l : lookup k (build l) = last_value k l.
Proof.
  induction l as [|[k0 v] l IH] using rev_ind; [reflexivity|].
  rewrite build_snoc, last_value_snoc, lookup_ins. cbn [fst snd]. now rewrite IH.
Qed.

Lemma NoDup_keys_build l : NoDup (keys (build l)).
Proof. rewrite keys_build. apply nodup_from_NoDup. Qed.

Lemma flat_map_ext_in {A B} (f g : A -> list B) l :
  (forall x, In x l -> f x = g x) -> flat_map f l = flat_map g l.
Proof.
  induction l as [|x t IH]; intros H; cbn [flat_map]; [reflexivity|].
  rewrite (H x) by now left. f_equal. apply IH. intros y Hy. apply H. now right.
Qed.

Lemma vals_by_lookup m :
  NoDup (keys m) -> vals m = flat_map (fun k => opt_list (lookup k m)) (keys m).
Proof.
  induction m as [|[k v] t IH]; cbn [keys vals map fst snd flat_map]; [reflexivity|].
  intros Hnd. inversion Hnd as [|? ? Hni Hnd']; subst.
  cbn [lookup]. rewrite N.eqb_refl. cbn [opt_list app]. f_equal.
  fold (vals t). fold (keys t). rewrite (IH Hnd'). apply flat_map_ext_in.
  intros k' Hk'. destruct (N.eqb_spec k' k) as [->|Hne]; [contradiction | reflexivity].
Qed.

(** the listing of a built map is "first-insertion order, last value" *)
Theorem vals_build l : vals (build l) = dedup_spec l.
Proof.
  rewrite vals_by_lookup by apply NoDup_keys_build.
  rewrite keys_build. unfold dedup_spec. apply flat_map_ext_in. intros k _.
  now rewrite lookup_build.
Qed.

Theorem to_instructions_from is : to_instructions (from_instructions is) = listing_spec is.
Proof.
  rewrite to_instructions_alt. unfold listing_spec. rewrite body_from. f_equal.
  apply flat_map_ext_in. intros kd _. rewrite defs_from. apply vals_build.
Qed.

Lemma build_fixed l : NoDup (keys l) -> build l = l.
Proof. apply extend_nil_l. Qed.

Lemma build_idem l : build (build l) = build l.
Proof. apply build_fixed. apply NoDup_keys_build. Qed.

(** * C09: the views agree *)

Lemma into_is_to p : into_instructions p = to_instructions p.
Proof. unfold into_instructions, to_instructions. now rewrite <- !app_assoc. Qed.

Lemma defs_roundtrip kd p : WF p -> defs kd (from_instructions (to_instructions p)) = defs kd p.
Proof.
  intros Hp. rewrite defs_from, sel_to_instructions by exact Hp. apply build_fixed. apply Hp.
Qed.

Lemma body_roundtrip p : WF p -> body (from_instructions (to_instructions p)) = body p.
Proof. intros Hp. rewrite body_from. now apply body_part_to_instructions. Qed.

Lemma listing_roundtrip p : WF p -> to_instructions (from_instructions (to_instructions p)) = to_instructions p.
Proof.
  intros Hp. pose proof (body_roundtrip p Hp) as Hb.
  assert (Hd : forall kd, defs kd (from_instructions (to_instructions p)) = defs kd p)
    by (intros kd; now apply defs_roundtrip).
  remember (from_instructions (to_instructions p)) as q eqn:Hq. clear Hq.
  rewrite (to_instructions_alt q), (to_instructions_alt p), Hb. f_equal.
  apply flat_map_ext_in. intros kd _. now rewrite Hd.
Qed.

Definition norm (is : list instr) : list instr := to_instructions (from_instructions is).

Lemma norm_idem is : norm (norm is) = norm is.
Proof. unfold norm. apply listing_roundtrip. apply WF_from_instructions. Qed.

(** the cache of a program equals what a rebuild from its listing would compute *)
Definition InvG (p : program) : Prop := seteq (used p) (listing_gq (to_instructions p)).

(** field-wise equality, the cache as a set *)
Definition prog_equiv (p q : program) : Prop :=
  (forall kd, defs kd p = defs kd q) /\ body p = body q /\ seteq (used p) (used q).

Lemma instr_eqb_refl i : instr_eqb i i = true.
Proof. now apply instr_eqb_eq. Qed.

Lemma instrs_eqb_refl l : instrs_eqb l l = true.
Proof. now apply instrs_eqb_eq. Qed.

Lemma alist_eqb_refl l : alist_eqb l l = true.
Proof.
  induction l as [|[k v] t IH]; cbn [alist_eqb]; [reflexivity|].
  unfold entry_eqb. cbn [fst snd]. now rewrite N.eqb_refl, instr_eqb_refl, IH.
Qed.

Lemma amap_eqb_refl l : NoDup (keys l) -> amap_eqb l l = true.
Proof.
  intros Hnd. unfold amap_eqb. rewrite Nat.eqb_refl. cbn [andb]. apply forallb_forall.
  intros [k v] Hin. cbn [fst snd]. rewrite (In_lookup k v l Hnd Hin). apply instr_eqb_refl.
Qed.

(** field-wise equal programs are [==] in the implementation's sense *)
Lemma prog_equiv_eqb p q : WF q -> prog_equiv p q -> prog_eqb p q = true.
Proof.
  intros [Hd _] [He [Hb Hu]]. unfold prog_eqb.
  pose proof (He KExtern) as E1. pose proof (He KDecl) as E2. pose proof (He KFrame) as E3.
  pose proof (He KWave) as E4. pose proof (He KCal) as E5. pose proof (He KMCal) as E6.
  pose proof (He KGate) as E7. pose proof (He KCirc) as E8. cbn [defs] in *.
  rewrite E1, E2, E3, E4, E5, E6, E7, E8, Hb.
  rewrite !amap_eqb_refl, !alist_eqb_refl, instrs_eqb_refl;
    try (first [apply (Hd KExtern) | apply (Hd KDecl) | apply (Hd KFrame) | apply (Hd KWave)
               | apply (Hd KGate) | apply (Hd KCirc)]).
  cbn [andb]. now apply seteqb_seteq.
Qed.

(** keyed definitions keep only their last value; keys are distinct *)
Lemma lookup_from kd k is : lookup k (defs kd (from_instructions is)) = last_value k (sel kd is).
Proof. rewrite defs_from. apply lookup_build. Qed.

Lemma keys_from kd is : keys (defs kd (from_instructions is)) = first_keys (sel kd is).
Proof. rewrite defs_from. apply keys_build. Qed.

(** ** C09: the instance checker *)

Definition Views_ok (is toi intoi bodyi rt : list instr) : Prop :=
  intoi = toi /\ bodyi = body_part is /\ body_part toi = bodyi /\
  (forall kd,
     NoDup (keys (sel kd toi)) /\
     (forall k v, In (k, v) (sel kd toi) -> last_value k (sel kd is) = Some v) /\
     (forall k, In k (keys (sel kd is)) -> In k (keys (sel kd toi)))) /\
  rt = toi.

Lemma chk_views_sound is toi intoi bodyi rt :
  chk_views is toi intoi bodyi rt = true -> Views_ok is toi intoi bodyi rt.
Proof.
  unfold chk_views, Views_ok. rewrite !andb_true_iff, !instrs_eqb_eq, forallb_forall.
  intros [[[[H1 H2] H3] H4] H5]. repeat split; auto.
  - specialize (H4 kd (in_all_kinds kd)). rewrite !andb_true_iff in H4. destruct H4 as [[H4 _] _].
    apply listN_eqb_eq in H4. rewrite <- H4. apply nodup_from_NoDup.
  - intros k v Hin. specialize (H4 kd (in_all_kinds kd)). rewrite !andb_true_iff in H4.
    destruct H4 as [[_ H4] _]. rewrite forallb_forall in H4. specialize (H4 (k, v) Hin).
    cbn [fst snd] in H4. destruct (last_value k (sel kd is)) as [v'|]; [|discriminate].
    apply instr_eqb_eq in H4. now subst.
  - intros k Hin. specialize (H4 kd (in_all_kinds kd)). rewrite !andb_true_iff in H4.
    destruct H4 as [_ H4]. rewrite forallb_forall in H4.
    unfold keys in Hin. apply in_map_iff in Hin. destruct Hin as [[k' v] [<- Hin]].
    apply memN_In. exact (H4 (k', v) Hin).
Qed.

Theorem model_views_ok is :
  let p := from_instructions is in
  Views_ok is (to_instructions p) (into_instructions p) (body_instructions p)
           (to_instructions (from_instructions (to_instructions p))).
Proof.
  cbn zeta. pose proof (WF_from_instructions is) as Hp. unfold Views_ok, body_instructions.
  split; [apply into_is_to|]. split; [apply body_from|].
  split; [now apply body_part_to_instructions|]. split; [|now apply listing_roundtrip].
  intros kd. rewrite sel_to_instructions by exact Hp. split; [apply Hp|]. split.
  - intros k v Hin. rewrite <- lookup_from. apply In_lookup; [apply Hp | exact Hin].
  - intros k Hin. rewrite keys_from. now apply first_keys_In.
Qed.

(** * Extending a map: keys and values in general (C08 via concatenation) *)

Lemma nodup_from_seen_ext s1 s2 l :
  (forall x, memN x s1 = memN x s2) -> nodup_from s1 l = nodup_from s2 l.
Proof.
  revert s1 s2. induction l as [|y t IH]; intros s1 s2 H; cbn [nodup_from]; [reflexivity|].
  rewrite (H y). destruct (memN y s2); [now apply IH|].
  f_equal. apply IH. intros x. cbn [memN]. now rewrite H.
Qed.

Lemma nodup_from_nodup_from s s' l : nodup_from s (nodup_from s' l) = nodup_from (s' ++ s) l.
Proof.
  revert s s'. induction l as [|y t IH]; intros s s'; cbn [nodup_from]; [reflexivity|].
  rewrite memN_app. destruct (memN y s') eqn:E1; cbn [orb].
  - apply IH.
  - cbn [nodup_from]. destruct (memN y s) eqn:E2.
    + rewrite IH. apply nodup_from_seen_ext. intros x. cbn [app memN].
      rewrite !memN_app. destruct (N.eqb_spec x y) as [->|Hne]; [|reflexivity].
      now rewrite E2, orb_true_r.
    + f_equal. rewrite IH. apply nodup_from_seen_ext. intros x. cbn [app memN].
      rewrite !memN_app. cbn [memN]. destruct (N.eqb x y); reflexivity.
Qed.

Lemma extend_snoc a l x : extend a (l ++ [x]) = ins (fst x) (snd x) (extend a l).
Proof. unfold extend. now rewrite fold_left_app. Qed.

Theorem keys_extend a l : keys (extend a l) = keys a ++ nodup_from (keys a) (keys l).
Proof.
  induction l as [|[k v] l IH] using rev_ind.
  - cbn. now rewrite app_nil_r.
  - rewrite extend_snoc. cbn [fst snd]. rewrite keys_app. cbn [keys map fst].
    rewrite nodup_from_snoc. fold (keys l).
    assert (Hin : In k (keys (extend a l)) <-> memN k (keys a) || memN k (keys l) = true).
    { rewrite IH, in_app_iff, nodup_from_In, orb_true_iff, !memN_In.
      destruct (In_dec_keys k a); tauto. }
    destruct (memN k (keys a) || memN k (keys l)) eqn:E.
    + rewrite app_nil_r. rewrite keys_ins_in; [exact IH | now apply Hin].
    + rewrite ins_notin, keys_app; [cbn [keys map fst]; now rewrite IH, app_assoc|].
      intros H. apply Hin in H. discriminate.
Qed.

Theorem lookup_extend k a l :
  lookup k (extend a l) = match last_value k l with Some v => Some v | None => lookup k a end.
Proof.
  induction l as [|[k0 v] l IH] using rev_ind; [reflexivity|].
  rewrite extend_snoc, last_value_snoc, lookup_ins. cbn [fst snd].
  destruct (N.eqb k k0); [reflexivity | exact IH].
Qed.

Lemma NoDup_keys_extend a l : NoDup (keys a) -> NoDup (keys (extend a l)).
Proof.
  intros Ha. rewrite keys_extend. apply NoDup_app_disjoint; [exact Ha | apply nodup_from_NoDup|].
  intros x Hx Hf. apply nodup_from_In in Hf. tauto.
Qed.

Lemma alist_ext (l m : alist) :
  NoDup (keys l) -> keys l = keys m -> (forall k, lookup k l = lookup k m) -> l = m.
Proof.
  revert m. induction l as [|[k v] t IH]; intros [|[k' v'] t']; cbn [keys map fst]; try discriminate.
  - reflexivity.
  - intros Hnd [= <- Hk] Hl. inversion Hnd as [|? ? Hni Hnd']; subst.
    pose proof (Hl k) as Hk0. cbn [lookup] in Hk0. rewrite N.eqb_refl in Hk0. inversion Hk0; subst.
    f_equal. apply IH; [exact Hnd' | exact Hk|]. intros k'.
    destruct (N.eqb_spec k' k) as [->|Hne].
    + assert (H1 : lookup k t = None) by now apply lookup_None.
      assert (H2 : lookup k t' = None) by (apply lookup_None; unfold keys; now rewrite <- Hk).
      now rewrite H1, H2.
    + specialize (Hl k'). cbn [lookup] in Hl. destruct (N.eqb_spec k' k); [contradiction | exact Hl].
Qed.

Lemma keys_rev (m : alist) : keys (rev m) = rev (keys m).
Proof. unfold keys. apply map_rev. Qed.

Lemma lookup_rev_NoDup k m : NoDup (keys m) -> lookup k (rev m) = lookup k m.
Proof.
  intros Hnd. destruct (lookup k m) as [v|] eqn:E.
  - apply In_lookup; [rewrite keys_rev; now apply NoDup_rev|].
    apply in_rev. rewrite rev_involutive. now apply lookup_In.
  - apply lookup_None. rewrite keys_rev. rewrite <- in_rev. now apply lookup_None.
Qed.

Theorem extend_build a l : NoDup (keys a) -> extend a (build l) = extend a l.
Proof.
  intros Ha. apply alist_ext.
  - now apply NoDup_keys_extend.
  - rewrite !keys_extend. f_equal. rewrite keys_build. unfold first_keys.
    now rewrite nodup_from_nodup_from.
  - intros k. rewrite !lookup_extend. unfold last_value at 1.
    rewrite lookup_rev_NoDup by apply NoDup_keys_build. now rewrite lookup_build.
Qed.

(** concatenating two built programs is building the concatenated sequence: same maps, same body
    (the caches agree as sets, [add_from_from_equiv] below) *)
Lemma to_instructions_ext p q :
  (forall kd, defs kd p = defs kd q) -> body p = body q -> to_instructions p = to_instructions q.
Proof.
  intros Hd Hb. rewrite !to_instructions_alt, Hb. f_equal. apply flat_map_ext_in. intros kd _. now rewrite Hd.
Qed.

Lemma add_from_from_defs kd is1 is2 :
  defs kd (add (from_instructions is1) (from_instructions is2)) = defs kd (from_instructions (is1 ++ is2)).
Proof.
  rewrite defs_add_raw, !defs_from, sel_app. unfold build at 3. rewrite extend_app.
  fold (build (sel kd is1)). apply extend_build. apply NoDup_keys_build.
Qed.

Lemma add_from_from_body is1 is2 :
  body (add (from_instructions is1) (from_instructions is2)) = body (from_instructions (is1 ++ is2)).
Proof. rewrite body_add, !body_from. now rewrite filter_app. Qed.

Theorem to_instructions_concat is1 is2 :
  to_instructions (add (from_instructions is1) (from_instructions is2)) = listing_spec (is1 ++ is2).
Proof.
  rewrite <- to_instructions_from. apply to_instructions_ext;
    [intros kd; apply add_from_from_defs | apply add_from_from_body].
Qed.

(** a redefinition replaces in place; a new key is appended *)
Lemma defs_add_instruction_routed kd k p i :
  route i = Some (kd, k) -> defs kd (add_instruction p i) = ins k i (defs kd p).
Proof.
  intros Hr. rewrite defs_add_instruction. unfold sel. cbn [flat_map]. rewrite Hr, kind_eqb_refl.
  reflexivity.
Qed.

Lemma redefinition_in_place kd k p i :
  route i = Some (kd, k) -> In k (keys (defs kd p)) ->
  keys (defs kd (add_instruction p i)) = keys (defs kd p) /\
  lookup k (defs kd (add_instruction p i)) = Some i.
Proof.
  intros Hr Hin. rewrite (defs_add_instruction_routed kd k p i Hr). split.
  - now apply keys_ins_in.
  - rewrite lookup_ins. now rewrite N.eqb_refl.
Qed.

Lemma new_definition_appended kd k p i :
  route i = Some (kd, k) -> ~ In k (keys (defs kd p)) ->
  defs kd (add_instruction p i) = defs kd p ++ [(k, i)].
Proof.
  intros Hr Hni. rewrite (defs_add_instruction_routed kd k p i Hr). now apply ins_notin.
Qed.

(** * C10: the used-qubit cache *)

Definition Inv (p : program) : Prop := seteq (used p) (listing_qubits (to_instructions p)).

(** every instruction of the program reports all of its qubits through [get_qubits] *)
Definition Counted (p : program) : Prop :=
  Forall (fun i => incl (qubits_of i) (gq i)) (to_instructions p).

Definition Good (p : program) : Prop := WF p /\ InvG p /\ Counted p.

Lemma gq_incl_qubits_of i : incl (gq i) (qubits_of i).
Proof. destruct i; cbn [gq qubits_of]; intros x Hx; (exact Hx || contradiction). Qed.

Lemma in_listing_gq x l : In x (listing_gq l) <-> exists i, In i l /\ In x (gq i).
Proof. unfold listing_gq. apply in_flat_map. Qed.

Lemma in_listing_qubits x l : In x (listing_qubits l) <-> exists i, In i l /\ In x (qubits_of i).
Proof. unfold listing_qubits. apply in_flat_map. Qed.

Lemma counted_gq_qubits l :
  Forall (fun i => incl (qubits_of i) (gq i)) l -> seteq (listing_gq l) (listing_qubits l).
Proof.
  intros Hf x. rewrite in_listing_gq, in_listing_qubits. rewrite Forall_forall in Hf.
  split; intros [i [Hi Hx]]; exists i; split; auto.
  - now apply gq_incl_qubits_of.
  - now apply Hf.
Qed.

Lemma Good_Inv p : Good p -> Inv p.
Proof.
  intros [_ [Hi Hc]]. unfold Inv. eapply seteq_trans; [exact Hi | now apply counted_gq_qubits].
Qed.

Lemma listing_gq_app a b : listing_gq (a ++ b) = listing_gq a ++ listing_gq b.
Proof. unfold listing_gq. apply flat_map_app. Qed.

(** membership in the listing *)
Lemma in_to_instructions j p :
  In j (to_instructions p) <-> (exists kd, In j (vals (defs kd p))) \/ In j (body p).
Proof.
  rewrite to_instructions_alt, in_app_iff, in_flat_map. split.
  - intros [[kd [_ H]]|H]; [left; now exists kd | now right].
  - intros [[kd H]|H]; [left; exists kd; split; [apply in_all_kinds | exact H] | now right].
Qed.

Lemma in_vals j (l : alist) : In j (vals l) <-> exists k, In (k, j) l.
Proof.
  unfold vals. rewrite in_map_iff. split.
  - intros [[k v] [<- H]]. now exists k.
  - intros [k H]. now exists (k, j).
Qed.

Lemma In_ins x k v l : In x (ins k v l) -> x = (k, v) \/ In x l.
Proof.
  induction l as [|[k' v'] t IH]; cbn [ins In].
  - intros [H|[]]; auto.
  - destruct (N.eqb k k'); cbn [In]; intros [H|H]; auto.
    destruct (IH H); auto.
Qed.

Lemma In_ins_self k v l : In (k, v) (ins k v l).
Proof.
  induction l as [|[k' v'] t IH]; cbn [ins In]; [now left|].
  destruct (N.eqb k k'); cbn [In]; auto.
Qed.

Lemma In_ins_other k v k' v' l : k' <> k -> In (k', v') l -> In (k', v') (ins k v l).
Proof.
  intros Hne. induction l as [|[k0 v0] t IH]; cbn [ins In]; [tauto|].
  destruct (N.eqb_spec k k0) as [->|Hne0]; cbn [In].
  - intros [H|H]; [inversion H; congruence | now right].
  - intros [H|H]; [now left | right; now apply IH].
Qed.

Lemma flat_map_nil_inv {A B} (f : A -> list B) l : flat_map f l = [] -> forall x, In x l -> f x = [].
Proof.
  induction l as [|y t IH]; cbn [flat_map]; intros H x Hx; [contradiction|].
  apply app_eq_nil in H. destruct H as [H1 H2]. destruct Hx as [->|Hx]; auto.
Qed.

Lemma flat_map_nil_intro {A B} (f : A -> list B) l : (forall x, In x l -> f x = []) -> flat_map f l = [].
Proof.
  induction l as [|y t IH]; cbn [flat_map]; intros H; [reflexivity|].
  rewrite (H y) by now left. cbn [app]. apply IH. intros x Hx. apply H. now right.
Qed.

(** ** One [add_instruction] *)

Lemma to_instructions_set_used u p : to_instructions (set_used u p) = to_instructions p.
Proof. reflexivity. Qed.

Lemma in_listing_add j p i :
  In j (to_instructions (add_instruction p i)) -> j = i \/ In j (to_instructions p).
Proof.
  rewrite !in_to_instructions. intros [[kd H]|H].
  - rewrite defs_add_instruction in H. unfold sel in H. cbn [flat_map] in H. rewrite app_nil_r in H.
    destruct (route i) as [[kd' k]|] eqn:Hr.
    + destruct (kind_eqb kd' kd).
      * cbn [extend fold_left fst snd] in H. apply in_vals in H. destruct H as [k0 H].
        apply In_ins in H. destruct H as [H|H]; [inversion H; now left|].
        right. left. exists kd. apply in_vals. now exists k0.
      * right. left. now exists kd.
    + right. left. now exists kd.
  - rewrite body_add_instruction in H. apply in_app_or in H. destruct H as [H|H].
    + right. now right.
    + cbn [filter] in H. destruct (is_body i); [|contradiction]. destruct H as [H|[]]. now left.
Qed.

Lemma gq_nil_not_cal i kd k : route i = Some (kd, k) -> is_cal_kind kd = false -> gq i = [].
Proof. destruct i; cbn [route gq]; intros [= <- <-] H; try reflexivity; discriminate. Qed.

Lemma GL_add_instruction p i :
  WF p ->
  (forall kd k old, route i = Some (kd, k) -> lookup k (defs kd p) = Some old -> incl (gq old) (gq i)) ->
  seteq (listing_gq (to_instructions (add_instruction p i))) (listing_gq (to_instructions p) ++ gq i).
Proof.
  intros Hp Hs x. rewrite in_app_iff, !in_listing_gq. split.
  - intros [j [Hj Hx]]. apply in_listing_add in Hj. destruct Hj as [->|Hj]; [now right|].
    left. now exists j.
  - intros [[j [Hj Hx]]|Hx].
    + rewrite in_to_instructions in Hj. destruct Hj as [[kd Hj]|Hj].
      * apply in_vals in Hj. destruct Hj as [k Hj].
        destruct (route i) as [[kd' k']|] eqn:Hr.
        -- destruct (kind_eqb_spec kd' kd) as [->|Hne].
           ++ destruct (N.eq_dec k k') as [->|Hk].
              ** exists i. split.
                 --- apply in_to_instructions. left. exists kd.
                     rewrite (defs_add_instruction_routed kd k' p i Hr). apply in_vals. exists k'.
                     apply In_ins_self.
                 --- apply (Hs kd k' j eq_refl); [|exact Hx].
                     apply In_lookup; [apply Hp | exact Hj].
              ** exists j. split; [|exact Hx]. apply in_to_instructions. left. exists kd.
                 rewrite (defs_add_instruction_routed kd k' p i Hr). apply in_vals. exists k.
                 now apply In_ins_other.
           ++ exists j. split; [|exact Hx]. apply in_to_instructions. left. exists kd.
              rewrite defs_add_instruction. unfold sel. cbn [flat_map]. rewrite Hr.
              destruct (kind_eqb_spec kd' kd); [contradiction|]. cbn [app extend fold_left].
              apply in_vals. now exists k.
        -- exists j. split; [|exact Hx]. apply in_to_instructions. left. exists kd.
           rewrite defs_add_instruction. unfold sel. cbn [flat_map]. rewrite Hr.
           cbn [app extend fold_left]. apply in_vals. now exists k.
      * exists j. split; [|exact Hx]. apply in_to_instructions. right.
        rewrite body_add_instruction. apply in_or_app. now left.
    + exists i. split; [|exact Hx]. apply in_to_instructions.
      destruct (route i) as [[kd k]|] eqn:Hr.
      * left. exists kd. rewrite (defs_add_instruction_routed kd k p i Hr). apply in_vals. exists k.
        apply In_ins_self.
      * right. rewrite body_add_instruction. apply in_or_app. right. cbn [filter].
        unfold is_body. rewrite Hr. now left.
Qed.

Lemma uncounted_nil i : uncounted i = [] -> incl (qubits_of i) (gq i).
Proof.
  unfold uncounted. destruct (subsetb (qubits_of i) (gq i)) eqn:E; [intros _; now apply subsetb_incl|].
  destruct i; discriminate.
Qed.

Lemma Counted_add_instruction p i : Counted p -> uncounted i = [] -> Counted (add_instruction p i).
Proof.
  unfold Counted. rewrite !Forall_forall. intros Hc Hu j Hj. apply in_listing_add in Hj.
  destruct Hj as [->|Hj]; [now apply uncounted_nil | now apply Hc].
Qed.

Lemma replaces_cal_false_old p i kd k old :
  WF p -> replaces_cal p i = false -> route i = Some (kd, k) -> lookup k (defs kd p) = Some old ->
  gq old = [].
Proof.
  intros Hw Hr Hi Hl. unfold replaces_cal in Hr. rewrite Hi in Hr.
  assert (Hm : memN k (keys (defs kd p)) = true) by (apply memN_In; now apply lookup_Some_keys with old).
  rewrite Hm, andb_true_r in Hr.
  destruct (proj1 Hw kd) as [_ Hf]. rewrite Forall_forall in Hf.
  specialize (Hf (k, old) (lookup_In _ _ _ Hl)). cbn [fst snd] in Hf.
  now apply (gq_nil_not_cal old kd k).
Qed.

(** one addition keeps the cache in step with what [get_qubits] reports on the listing *)
Lemma InvG_add_instruction p i : WF p -> InvG p -> InvG (add_instruction p i).
Proof.
  intros Hw Hi. unfold InvG. rewrite used_add_instruction. destruct (replaces_cal p i) eqn:E.
  - apply seteq_refl.
  - eapply seteq_trans.
    + apply seteq_app; [exact Hi | apply seteq_refl].
    + apply seteq_sym. apply GL_add_instruction; [exact Hw|].
      intros kd k old Hr Hl. rewrite (replaces_cal_false_old p i kd k old Hw E Hr Hl).
      intros x [].
Qed.

Lemma InvG_add_instructions is : forall p,
  WF p -> InvG p -> InvG (add_instructions p is).
Proof.
  induction is as [|i t IH]; intros p Hw Hi; [exact Hi|].
  change (add_instructions p (i :: t)) with (add_instructions (add_instruction p i) t).
  apply IH; [now apply WF_add_instruction | now apply InvG_add_instruction].
Qed.

Lemma InvG_empty : InvG empty.
Proof. intros x. reflexivity. Qed.

Theorem InvG_from is : InvG (from_instructions is).
Proof. apply InvG_add_instructions; [apply WF_empty | apply InvG_empty]. Qed.

Lemma Good_add_instruction p i : Good p -> uncounted i = [] -> Good (add_instruction p i).
Proof.
  intros [Hw [Hi Hc]] Hu. split; [now apply WF_add_instruction|].
  split; [now apply InvG_add_instruction | now apply Counted_add_instruction].
Qed.

Lemma Good_add_instructions is : forall p,
  Good p -> hits_adds is = [] -> Good (add_instructions p is).
Proof.
  induction is as [|i t IH]; intros p Hg Hh; [exact Hg|].
  cbn [hits_adds] in Hh. apply app_eq_nil in Hh. destruct Hh as [Hu Hh].
  change (add_instructions p (i :: t)) with (add_instructions (add_instruction p i) t).
  apply IH; [now apply Good_add_instruction | exact Hh].
Qed.

Lemma Good_empty : Good empty.
Proof.
  split; [apply WF_empty|]. split; [intros x; reflexivity | constructor].
Qed.

(** ** Concatenation *)

Lemma In_merge x a b : In x (merge a b) -> In x a \/ In x b.
Proof.
  rewrite merge_unfold, in_app_iff. intros [H|H].
  - apply in_map_iff in H. destruct H as [[k v] [<- Hin]]. unfold mergeF. cbn [fst snd].
    destruct (lookup k b) as [v'|] eqn:E; [right; now apply lookup_In | now left].
  - right. apply filter_In in H. tauto.
Qed.

Lemma in_listing_add_assign j a b :
  WF a -> WF b -> In j (to_instructions (add a b)) -> In j (to_instructions a) \/ In j (to_instructions b).
Proof.
  intros Ha Hb. rewrite !in_to_instructions. intros [[kd H]|H].
  - rewrite defs_add in H by assumption. apply in_vals in H. destruct H as [k H].
    apply In_merge in H. destruct H as [H|H]; [left|right]; left; exists kd; apply in_vals; now exists k.
  - rewrite body_add in H. apply in_app_or in H. destruct H as [H|H]; [left|right]; now right.
Qed.

Lemma GL_add a b :
  WF a -> WF b ->
  (forall kd k old v, In (k, v) (defs kd b) -> lookup k (defs kd a) = Some old -> incl (gq old) (gq v)) ->
  seteq (listing_gq (to_instructions (add a b)))
        (listing_gq (to_instructions a) ++ listing_gq (to_instructions b)).
Proof.
  intros Ha Hb Hs x. rewrite in_app_iff, !in_listing_gq. split.
  - intros [j [Hj Hx]]. apply in_listing_add_assign in Hj; try assumption.
    destruct Hj as [Hj|Hj]; [left|right]; now exists j.
  - intros [[j [Hj Hx]]|[j [Hj Hx]]].
    + rewrite in_to_instructions in Hj. destruct Hj as [[kd Hj]|Hj].
      * apply in_vals in Hj. destruct Hj as [k Hj].
        assert (Hla : lookup k (defs kd a) = Some j) by (apply In_lookup; [apply Ha | exact Hj]).
        destruct (lookup k (defs kd b)) as [v'|] eqn:Elb.
        -- exists v'. split.
           ++ apply in_to_instructions. left. exists kd. rewrite defs_add by assumption.
              apply in_vals. exists k. apply lookup_In. rewrite lookup_merge. now rewrite Elb.
           ++ apply (Hs kd k j v'); [now apply lookup_In | exact Hla | exact Hx].
        -- exists j. split; [|exact Hx]. apply in_to_instructions. left. exists kd.
           rewrite defs_add by assumption. apply in_vals. exists k. apply lookup_In.
           rewrite lookup_merge. now rewrite Elb.
      * exists j. split; [|exact Hx]. apply in_to_instructions. right. rewrite body_add.
        apply in_or_app. now left.
    + rewrite in_to_instructions in Hj. destruct Hj as [[kd Hj]|Hj].
      * apply in_vals in Hj. destruct Hj as [k Hj].
        assert (Hlb : lookup k (defs kd b) = Some j) by (apply In_lookup; [apply Hb | exact Hj]).
        exists j. split; [|exact Hx]. apply in_to_instructions. left. exists kd.
        rewrite defs_add by assumption. apply in_vals. exists k. apply lookup_In.
        rewrite lookup_merge. now rewrite Hlb.
      * exists j. split; [|exact Hx]. apply in_to_instructions. right. rewrite body_add.
        apply in_or_app. now right.
Qed.

Lemma length_merge a b :
  length (merge a b) = length a + length (filter (fun kv => negb (memN (fst kv) (keys a))) b).
Proof. rewrite merge_unfold, app_length, map_length. reflexivity. Qed.

Lemma filter_length_le' {A} (f : A -> bool) l : length (filter f l) <= length l.
Proof. induction l as [|x t IH]; cbn [filter length]; [lia|]. destruct (f x); cbn [length]; lia. Qed.

Lemma filter_length_full {A} (f : A -> bool) l :
  length (filter f l) = length l -> forall x, In x l -> f x = true.
Proof.
  induction l as [|y t IH]; cbn [filter length]; intros H x Hx; [contradiction|].
  destruct (f y) eqn:E; cbn [length] in H.
  - destruct Hx as [->|Hx]; [exact E | apply IH; [lia | exact Hx]].
  - pose proof (filter_length_le' f t). lia.
Qed.

(** no calibration count shrinkage = no calibration key of [b] is bound in [a] *)
Lemma replaced_false_disjoint a b kd k v :
  WF a -> WF b -> replaced a b = false -> is_cal_kind kd = true ->
  In (k, v) (defs kd b) -> lookup k (defs kd a) = None.
Proof.
  intros Ha Hb Hr Hk Hin. unfold replaced, cal_count, add_assign_raw in Hr. cbn [cals mcals mk] in Hr.
  apply Nat.ltb_ge in Hr.
  rewrite (extend_merge (defs KCal a) (defs KCal b)) in Hr by (apply Ha || apply Hb).
  rewrite (extend_merge (defs KMCal a) (defs KMCal b)) in Hr by (apply Ha || apply Hb).
  rewrite !length_merge in Hr. cbn [defs] in Hr.
  pose proof (filter_length_le' (fun kv => negb (memN (fst kv) (keys (cals a)))) (cals b)) as L1.
  pose proof (filter_length_le' (fun kv => negb (memN (fst kv) (keys (mcals a)))) (mcals b)) as L2.
  apply lookup_None. apply memN_false.
  destruct kd; try discriminate; cbn [defs] in *.
  - assert (E : length (filter (fun kv => negb (memN (fst kv) (keys (cals a)))) (cals b)) = length (cals b)) by lia.
    pose proof (filter_length_full _ _ E (k, v) Hin) as H. cbn [fst] in H. now destruct (memN k (keys (cals a))).
  - assert (E : length (filter (fun kv => negb (memN (fst kv) (keys (mcals a)))) (mcals b)) = length (mcals b)) by lia.
    pose proof (filter_length_full _ _ E (k, v) Hin) as H. cbn [fst] in H. now destruct (memN k (keys (mcals a))).
Qed.

Lemma InvG_add a b : WF a -> WF b -> InvG a -> InvG b -> InvG (add a b).
Proof.
  intros Ha Hb Hia Hib. unfold InvG. rewrite used_add. destruct (replaced a b) eqn:E.
  - apply seteq_refl.
  - eapply seteq_trans.
    + apply seteq_app; [exact Hia | exact Hib].
    + apply seteq_sym. apply GL_add; [exact Ha | exact Hb|].
      intros kd k old v Hin Hl. destruct (is_cal_kind kd) eqn:Ek.
      * rewrite (replaced_false_disjoint a b kd k v Ha Hb E Ek Hin) in Hl. discriminate.
      * destruct (proj1 Ha kd) as [_ Hf]. rewrite Forall_forall in Hf.
        specialize (Hf (k, old) (lookup_In _ _ _ Hl)). cbn [fst snd] in Hf.
        rewrite (gq_nil_not_cal old kd k Hf Ek). intros x [].
Qed.

Lemma Good_add a b : Good a -> Good b -> Good (add a b).
Proof.
  intros [Hwa [Hia Hca]] [Hwb [Hib Hcb]]. split; [now apply WF_add|]. split.
  - now apply InvG_add.
  - unfold Counted in *. rewrite Forall_forall in *. intros j Hj.
    apply in_listing_add_assign in Hj; try assumption. destruct Hj; auto.
Qed.

Lemma subsetb_refl l : subsetb l l = true.
Proof. apply subsetb_incl. apply incl_refl. Qed.

(** rebuilding from the listing: field-wise equal when the cache is in step *)
Lemma roundtrip_equiv p : WF p -> InvG p -> prog_equiv (from_instructions (to_instructions p)) p.
Proof.
  intros Hp Hi. split; [|split].
  - intros kd. now apply defs_roundtrip.
  - now apply body_roundtrip.
  - eapply seteq_trans; [apply (InvG_from (to_instructions p))|].
    rewrite listing_roundtrip by exact Hp. now apply seteq_sym.
Qed.

(** concatenating two built programs = building the concatenated sequence *)
Theorem add_from_from_equiv is1 is2 :
  prog_equiv (add (from_instructions is1) (from_instructions is2)) (from_instructions (is1 ++ is2)).
Proof.
  split; [intros kd; apply add_from_from_defs|]. split; [apply add_from_from_body|].
  eapply seteq_trans.
  - apply InvG_add; try apply WF_from_instructions; apply InvG_from.
  - rewrite (to_instructions_ext _ (from_instructions (is1 ++ is2)));
      [|intros kd; apply add_from_from_defs | apply add_from_from_body].
    apply seteq_sym. apply InvG_from.
Qed.

(** ** Cache reset ([clone_without_body_instructions] and the inline copies of it) *)

Lemma defs_clone kd p : defs kd (clone_without_body p) = defs kd p.
Proof. unfold clone_without_body. now rewrite defs_mk. Qed.

Lemma to_instructions_clone p : to_instructions (clone_without_body p) = def_instrs p.
Proof.
  rewrite to_instructions_alt. unfold clone_without_body at 2. rewrite body_mk, app_nil_r.
  unfold def_instrs. apply flat_map_ext_in. intros kd _. now rewrite defs_clone.
Qed.

Lemma def_instrs_clone p : def_instrs (clone_without_body p) = def_instrs p.
Proof. unfold def_instrs. apply flat_map_ext_in. intros kd _. now rewrite defs_clone. Qed.

Lemma to_instructions_defs_body p : to_instructions p = def_instrs p ++ body p.
Proof. apply to_instructions_alt. Qed.

Lemma WF_clone p : WF p -> WF (clone_without_body p).
Proof. intros [Hd _]. apply WF_mk; [exact Hd | constructor]. Qed.

Lemma Counted_sub p q :
  (forall j, In j (to_instructions q) -> In j (to_instructions p)) -> Counted p -> Counted q.
Proof. unfold Counted. rewrite !Forall_forall. intros Hs Hc j Hj. apply Hc. now apply Hs. Qed.

Lemma Counted_clone p : Counted p -> Counted (clone_without_body p).
Proof.
  apply Counted_sub. intros j. rewrite to_instructions_clone, to_instructions_defs_body.
  intros H. apply in_or_app. now left.
Qed.

Lemma reset_hit_nil p : reset_hit p = [] -> listing_gq (def_instrs p) = [].
Proof. unfold reset_hit. destruct (listing_gq (def_instrs p)); [reflexivity | discriminate]. Qed.

Lemma Good_clone p :
  WF p -> Counted p -> reset_hit (clone_without_body p) = [] -> Good (clone_without_body p).
Proof.
  intros Hw Hc Hr. split; [now apply WF_clone|]. split; [|now apply Counted_clone].
  unfold InvG. rewrite to_instructions_clone. apply reset_hit_nil in Hr.
  rewrite def_instrs_clone in Hr. rewrite Hr. intros x. reflexivity.
Qed.

(** ** [set_defs] with a sub-list *)

Lemma wf_alist_filter kd (f : N * instr -> bool) l : wf_alist kd l -> wf_alist kd (filter f l).
Proof.
  intros [Hnd Hf]. split.
  - unfold keys. clear Hf. induction l as [|[k v] t IH]; cbn [filter map]; [constructor|].
    cbn [keys map fst] in Hnd. inversion Hnd as [|? ? Hni Hnd']; subst.
    destruct (f (k, v)); cbn [map fst]; [|now apply IH]. constructor; [|now apply IH].
    intros H. apply Hni. apply in_map_iff in H. destruct H as [[k' v'] [E H]]. cbn [fst] in E. subst.
    apply filter_In in H. apply In_keys with v'. tauto.
  - rewrite Forall_forall in *. intros x Hx. apply filter_In in Hx. now apply Hf.
Qed.

Lemma WF_set_defs kd l p : WF p -> wf_alist kd l -> WF (set_defs kd l p).
Proof.
  intros [Hd Hb] Hl. split; [|exact Hb]. intros kd'. rewrite defs_set_defs.
  destruct (kind_eqb_spec kd' kd) as [->|_]; [exact Hl | apply Hd].
Qed.

Lemma in_listing_set_defs_sub kd l p j :
  (forall x, In x l -> In x (defs kd p)) ->
  In j (to_instructions (set_defs kd l p)) -> In j (to_instructions p).
Proof.
  intros Hs. rewrite !in_to_instructions. intros [[kd' H]|H]; [|now right].
  left. rewrite defs_set_defs in H. destruct (kind_eqb_spec kd' kd) as [E|_]; [subst kd'|now exists kd'].
  exists kd. apply in_vals in H. destruct H as [k H]. apply in_vals. exists k. now apply Hs.
Qed.

Lemma keep_sub ks l x : In x (keep ks l) -> In x l.
Proof. unfold keep. intros H. apply filter_In in H. tauto. Qed.

(** ** Placeholder resolution *)

Lemma route_resolve_instr r i : route (resolve_instr r i) = route i.
Proof. destruct i; reflexivity. Qed.

Lemma counted_resolve_instr r i :
  incl (qubits_of i) (gq i) -> incl (qubits_of (resolve_instr r i)) (gq (resolve_instr r i)).
Proof. destruct i; cbn [resolve_instr]; auto. cbn [qubits_of gq]. intros _. apply incl_refl. Qed.

Lemma Good_resolve p : Good p -> Good (resolve_placeholders p).
Proof.
  intros [[Hd Hb] [_ Hc]]. unfold resolve_placeholders, rebuild_used.
  set (r := resolver p). set (p1 := set_body (map (resolve_instr r) (body p)) p).
  assert (Hw1 : WF p1).
  { split; [intros kd; unfold p1; rewrite defs_set_body; apply Hd|].
    unfold p1. cbn [set_body body mk]. rewrite Forall_forall in *. intros j Hj.
    apply in_map_iff in Hj. destruct Hj as [i [<- Hi]]. rewrite route_resolve_instr. now apply Hb. }
  split; [|split].
  - split; [intros kd; rewrite defs_set_used; apply Hw1 | apply Hw1].
  - unfold InvG. rewrite to_instructions_set_used. cbn [set_used used mk]. apply seteq_refl.
  - unfold Counted in *. rewrite to_instructions_set_used. rewrite Forall_forall in *. intros j Hj.
    rewrite in_to_instructions in Hj. destruct Hj as [[kd Hj]|Hj].
    + apply Hc. apply in_to_instructions. left. exists kd. unfold p1 in Hj. now rewrite defs_set_body in Hj.
    + unfold p1 in Hj. cbn [set_body body mk] in Hj. apply in_map_iff in Hj.
      destruct Hj as [i [<- Hi]]. apply counted_resolve_instr. apply Hc. apply in_to_instructions. now right.
Qed.

(** ** Round trips *)

Lemma Good_roundtrip p : Good p -> Good (from_instructions (to_instructions p)).
Proof.
  intros [Hw [_ Hc]]. split; [apply WF_from_instructions|]. split.
  - apply InvG_from.
  - unfold Counted. now rewrite listing_roundtrip.
Qed.

(** ** Expansion-like operations *)

Lemma hits_adds_uncounted is : hits_adds is = [] -> forall i, In i is -> uncounted i = [].
Proof.
  induction is as [|i t IH]; intros Hh j Hj; [contradiction|].
  cbn [hits_adds] in Hh. apply app_eq_nil in Hh. destruct Hh as [Hu Hh].
  destruct Hj as [->|Hj]; [exact Hu | now apply IH].
Qed.

Lemma Counted_add_instructions is : forall p,
  Counted p -> (forall i, In i is -> uncounted i = []) -> Counted (add_instructions p is).
Proof.
  induction is as [|i t IH]; intros p Hc Hu; [exact Hc|].
  change (add_instructions p (i :: t)) with (add_instructions (add_instruction p i) t).
  apply IH; [apply Counted_add_instruction; [exact Hc | apply Hu; now left]|].
  intros j Hj. apply Hu. now right.
Qed.

Lemma Good_expand_calibrations p out :
  Good p -> reset_hit (clone_without_body p) = [] -> hits_adds out = [] ->
  Good (expand_calibrations p out).
Proof.
  intros [Hw [_ Hc]] Hr Hh. unfold expand_calibrations. apply Good_add_instructions; [|exact Hh].
  now apply Good_clone.
Qed.

Lemma Good_expand_sequences p kg out :
  Good p ->
  reset_hit (clone_without_body (set_defs KGate (keep kg (gates p)) p)) = [] ->
  hits_adds out = [] ->
  Good (expand_sequences p kg out).
Proof.
  intros [Hw [_ Hc]] Hr Hh. unfold expand_sequences. apply Good_add_instructions; [|exact Hh].
  apply Good_clone; [| |exact Hr].
  - apply WF_set_defs; [exact Hw|]. apply wf_alist_filter. apply (proj1 Hw KGate).
  - eapply Counted_sub; [|exact Hc]. intros j. apply in_listing_set_defs_sub. intros x. apply keep_sub.
Qed.

Lemma gq_nil_of_kind i kd k : route i = Some (kd, k) -> kd <> KCal -> kd <> KMCal -> gq i = [].
Proof. destruct i; cbn [route gq]; intros [= <- <-] H1 H2; try reflexivity; congruence. Qed.

Lemma GL_no_cal s :
  WF s -> defs KCal s = [] -> defs KMCal s = [] ->
  listing_gq (to_instructions s) = listing_gq (body s).
Proof.
  intros [Hd _] H1 H2. rewrite to_instructions_defs_body, listing_gq_app.
  replace (listing_gq (def_instrs s)) with (@nil N); [reflexivity|]. symmetry.
  unfold listing_gq, def_instrs. apply flat_map_nil_intro. intros j Hj.
  apply in_flat_map in Hj. destruct Hj as [kd [_ Hj]]. apply in_vals in Hj. destruct Hj as [k Hj].
  destruct (Hd kd) as [_ Hf]. rewrite Forall_forall in Hf. specialize (Hf (k, j) Hj). cbn [fst snd] in Hf.
  apply (gq_nil_of_kind j kd k Hf).
  - intros E. subst kd. rewrite H1 in Hj. contradiction.
  - intros E. subst kd. rewrite H2 in Hj. contradiction.
Qed.

Lemma existsb_false_forall {A} (f : A -> bool) l : existsb f l = false -> forall x, In x l -> f x = false.
Proof.
  intros H x Hx. destruct (f x) eqn:E; [|reflexivity].
  assert (existsb f l = true) by (apply existsb_exists; now exists x). congruence.
Qed.

Lemma is_cal_instr_false_gq i : is_cal_instr i = false -> is_body i = false -> gq i = [].
Proof.
  unfold is_cal_instr, is_body. destruct (route i) as [[kd k]|] eqn:Hr; [|discriminate].
  intros Hc _. now apply (gq_nil_not_cal i kd k).
Qed.

Lemma gq_body_only out :
  (forall i, In i out -> is_cal_instr i = false) ->
  seteq (listing_gq out) (listing_gq (filter is_body out)).
Proof.
  intros H x. rewrite !in_listing_gq. split.
  - intros [i [Hi Hx]]. exists i. split; [|exact Hx]. apply filter_In. split; [exact Hi|].
    destruct (is_body i) eqn:E; [reflexivity|].
    rewrite (is_cal_instr_false_gq i (H i Hi) E) in Hx. contradiction.
  - intros [i [Hi Hx]]. apply filter_In in Hi. exists i. tauto.
Qed.

Lemma replaces_cal_not_cal p i : is_cal_instr i = false -> replaces_cal p i = false.
Proof.
  unfold is_cal_instr, replaces_cal. destruct (route i) as [[kd k]|]; [|reflexivity].
  intros ->. reflexivity.
Qed.

Lemma used_add_instructions_nocal is : forall p,
  (forall i, In i is -> is_cal_instr i = false) ->
  used (add_instructions p is) = used p ++ flat_map gq is.
Proof.
  induction is as [|i t IH]; intros p H.
  - cbn. now rewrite app_nil_r.
  - change (add_instructions p (i :: t)) with (add_instructions (add_instruction p i) t).
    rewrite IH by (intros j Hj; apply H; now right).
    rewrite used_add_instruction, (replaces_cal_not_cal p i) by (apply H; now left).
    cbn [flat_map]. now rewrite app_assoc.
Qed.

Lemma Good_simplify p ke kf kw out :
  Good p -> hits_adds out = [] -> existsb is_cal_instr out = false ->
  Good (simplify p ke kf kw out).
Proof.
  intros [Hw [_ Hc]] Hh Hx. unfold simplify.
  set (e0 := expand_calibrations p out).
  set (e1 := set_defs KCal [] (set_defs KMCal [] e0)).
  set (e2 := set_defs KFrame (keep kf (frames p)) e1).
  set (e3 := set_defs KWave (keep kw (waveforms e2)) e2).
  set (s := set_defs KExtern (keep ke (externs e3)) e3).
  assert (Hw0 : WF e0) by (apply WF_add_instructions; now apply WF_clone).
  assert (Hw1 : WF e1) by (repeat apply WF_set_defs; try apply wf_alist_nil; exact Hw0).
  assert (Hw2 : WF e2) by (apply WF_set_defs; [exact Hw1 | apply wf_alist_filter; apply (proj1 Hw KFrame)]).
  assert (Hw3 : WF e3) by (apply WF_set_defs; [exact Hw2 | apply wf_alist_filter; apply (proj1 Hw2 KWave)]).
  assert (Hws : WF s) by (apply WF_set_defs; [exact Hw3 | apply wf_alist_filter; apply (proj1 Hw3 KExtern)]).
  assert (Hc0 : Counted e0).
  { apply Counted_add_instructions; [now apply Counted_clone | now apply (hits_adds_uncounted _ Hh)]. }
  assert (Hnc : forall i, In i out -> is_cal_instr i = false) by now apply existsb_false_forall.
  split; [exact Hws|]. split.
  - unfold InvG. rewrite GL_no_cal; [|exact Hws|reflexivity|reflexivity].
    change (body s) with (body e0). change (used s) with (used e0).
    unfold e0, expand_calibrations. rewrite (used_add_instructions_nocal out _ Hnc), body_add_instructions.
    cbn [clone_without_body used body mk app]. fold (listing_gq out).
    now apply gq_body_only.
  - unfold Counted. rewrite Forall_forall. intros j Hj.
    assert (Hin : In j (to_instructions e0) \/ In j (to_instructions p)).
    { apply in_listing_set_defs_sub with (p := e3) in Hj; [|intros x; apply keep_sub].
      apply in_listing_set_defs_sub with (p := e2) in Hj; [|intros x; apply keep_sub].
      rewrite in_to_instructions in Hj. destruct Hj as [[kd Hj]|Hj].
      - unfold e2 in Hj. rewrite defs_set_defs in Hj. destruct (kind_eqb_spec kd KFrame) as [E|Hne]; [subst kd|].
        + right. apply in_to_instructions. left. exists KFrame. apply in_vals in Hj. destruct Hj as [k Hj].
          apply in_vals. exists k. now apply keep_sub in Hj.
        + left. unfold e1 in Hj. rewrite !defs_set_defs in Hj.
          destruct (kind_eqb kd KCal); [destruct Hj|]. destruct (kind_eqb kd KMCal); [destruct Hj|].
          apply in_to_instructions. left. now exists kd.
      - left. apply in_to_instructions. now right. }
    unfold Counted in Hc, Hc0. rewrite Forall_forall in Hc, Hc0. destruct Hin; auto.
Qed.

Lemma Good_wrap_in_loop p n h f :
  Good p -> hits p (OWrapInLoop n h f) = [] -> Good (wrap_in_loop p n h f).
Proof.
  intros Hg Hh. pose proof Hg as [Hw [_ Hc]]. unfold wrap_in_loop. cbn [hits] in Hh.
  destruct n as [|[q|q|]].
  - now apply Good_clone.
  - apply app_eq_nil in Hh. destruct Hh as [Hr Hh]. apply Good_add_instructions; [now apply Good_clone | exact Hh].
  - apply app_eq_nil in Hh. destruct Hh as [Hr Hh]. apply Good_add_instructions; [now apply Good_clone | exact Hh].
  - exact Hg.
Qed.

(** ** Every step outside the known classes preserves the invariant *)

Theorem Good_step p o : Good p -> hits p o = [] -> Good (step p o).
Proof.
  intros Hg Hh. destruct o; cbn [step]; cbn [hits] in Hh.
  - change (add_instruction p i) with (add_instructions p [i]). now apply Good_add_instructions.
  - now apply Good_add_instructions.
  - change (add_assign p (from_instructions is)) with (add p (from_instructions is)).
    apply Good_add; [exact Hg|]. apply Good_add_instructions; [apply Good_empty | exact Hh].
  - now apply Good_add.
  - destruct Hg as [Hw [_ Hc]]. now apply Good_clone.
  - now apply Good_resolve.
  - apply app_eq_nil in Hh. destruct Hh as [H1 H2]. now apply Good_expand_calibrations.
  - apply app_eq_nil in Hh. destruct Hh as [H1 H2]. now apply Good_expand_sequences.
  - apply app_eq_nil in Hh. destruct Hh as [H1 H2].
    apply Good_simplify; [exact Hg | exact H1|].
    destruct (existsb is_cal_instr out); [discriminate | reflexivity].
  - now apply Good_wrap_in_loop.
  - now apply Good_roundtrip.
  - rewrite into_is_to. now apply Good_roundtrip.
Qed.

Lemma Good_run_from ops : forall p, Good p -> all_hits_from p ops = [] -> Good (fold_left step ops p).
Proof.
  induction ops as [|o t IH]; intros p Hg Hh; [exact Hg|].
  cbn [all_hits_from] in Hh. apply app_eq_nil in Hh. destruct Hh as [H1 H2].
  cbn [fold_left]. apply IH; [now apply Good_step | exact H2].
Qed.

Theorem Good_run ops : all_hits ops = [] -> Good (run ops).
Proof. intros H. apply Good_run_from; [apply Good_empty | exact H]. Qed.

(** equality: programs with the same listing are equal field by field *)
Theorem same_listing_equiv p q :
  WF p -> WF q -> InvG p -> InvG q -> to_instructions p = to_instructions q -> prog_equiv p q.
Proof.
  intros Hp Hq Hip Hiq He. split; [|split].
  - intros kd. rewrite <- (sel_to_instructions kd p Hp), <- (sel_to_instructions kd q Hq). now rewrite He.
  - rewrite <- (body_part_to_instructions p Hp), <- (body_part_to_instructions q Hq). now rewrite He.
  - eapply seteq_trans; [exact Hip|]. rewrite He. now apply seteq_sym.
Qed.

Lemma inv_b_Inv p : inv_b p = true <-> Inv p.
Proof. unfold inv_b, Inv. apply seteqb_seteq. Qed.

Lemma chk_cache_sound o : chk_cache o = true -> seteq (snd o) (listing_qubits (fst o)).
Proof. unfold chk_cache. apply seteqb_seteq. Qed.

Theorem inv_run ops : all_hits ops = [] -> Inv (run ops).
Proof. intros H. apply Good_Inv. now apply Good_run. Qed.

Theorem equal_run ops1 ops2 :
  all_hits ops1 = [] -> all_hits ops2 = [] ->
  to_instructions (run ops1) = to_instructions (run ops2) ->
  prog_equiv (run ops1) (run ops2) /\ prog_eqb (run ops1) (run ops2) = true.
Proof.
  intros H1 H2 He. pose proof (Good_run ops1 H1) as [Hw1 [Hi1 _]].
  pose proof (Good_run ops2 H2) as [Hw2 [Hi2 _]].
  assert (Hq : prog_equiv (run ops1) (run ops2)) by now apply same_listing_equiv.
  split; [exact Hq | now apply prog_equiv_eqb].
Qed.

Lemma Good_rebuild_used p : WF p -> Counted p -> Good (rebuild_used p).
Proof.
  intros Hw Hc. split; [|split].
  - split; [intros kd; unfold rebuild_used; rewrite defs_set_used; apply Hw | apply Hw].
  - unfold InvG, rebuild_used. rewrite to_instructions_set_used. cbn [set_used used mk]. apply seteq_refl.
  - unfold Counted, rebuild_used. now rewrite to_instructions_set_used.
Qed.

Theorem rebuild_restores p :
  WF p -> Counted p -> Inv (resolve_placeholders p) /\ Inv (from_instructions (to_instructions p)).
Proof.
  intros Hw Hc. split.
  - apply Good_Inv. exact (Good_resolve (rebuild_used p) (Good_rebuild_used p Hw Hc)).
  - apply Good_Inv. split; [apply WF_from_instructions|]. split.
    + apply InvG_from.
    + unfold Counted. now rewrite listing_roundtrip.
Qed.

Lemma not_inv_of_inv_b p : inv_b p = false -> ~ Inv p.
Proof. intros H Hi. apply inv_b_Inv in Hi. congruence. Qed.

(** restatements used by the pinned files *)
Theorem kind_part_from kd is :
  kind_part kd (to_instructions (from_instructions is)) = dedup_spec (sel kd is).
Proof.
  unfold kind_part. rewrite sel_to_instructions by apply WF_from_instructions.
  rewrite defs_from. apply vals_build.
Qed.

Theorem roundtrip_fields p :
  WF p ->
  (forall kd, defs kd (from_instructions (to_instructions p)) = defs kd p) /\
  body (from_instructions (to_instructions p)) = body p /\
  to_instructions (from_instructions (to_instructions p)) = to_instructions p.
Proof.
  intros Hp. split; [intros kd; now apply defs_roundtrip|].
  split; [now apply body_roundtrip | now apply listing_roundtrip].
Qed.

Theorem roundtrip_equal p :
  WF p -> InvG p ->
  prog_equiv (from_instructions (to_instructions p)) p /\
  prog_eqb (from_instructions (to_instructions p)) p = true.
Proof.
  intros Hp Hi. pose proof (roundtrip_equiv p Hp Hi) as He. split; [exact He|].
  now apply prog_equiv_eqb.
Qed.

Theorem keys_distinct_from is kd :
  NoDup (keys (defs kd (from_instructions is))) /\
  keys (defs kd (from_instructions is)) = first_keys (sel kd is).
Proof. split; [apply WF_from_instructions | apply keys_from]. Qed.

Theorem vals_defs_from is kd : vals (defs kd (from_instructions is)) = dedup_spec (sel kd is).
Proof. rewrite defs_from. apply vals_build. Qed.

Theorem lookup_defs_add a b kd k :
  WF a -> WF b ->
  lookup k (defs kd (add a b)) =
  match lookup k (defs kd b) with Some v => Some v | None => lookup k (defs kd a) end.
Proof. intros Ha Hb. rewrite (defs_add kd a b Ha Hb). apply lookup_merge. Qed.

(** ** RESET frame matching depends on the content only (given the invariant) *)

Lemma memN_congr q u u' : seteq u u' -> memN q u = memN q u'.
Proof.
  intros H. destruct (memN q u') eqn:E.
  - apply memN_In. apply H. now apply memN_In.
  - apply memN_false. intros Hin. apply H in Hin. apply memN_In in Hin. congruence.
Qed.

Lemma seteqb_congr a u u' : seteq u u' -> seteqb a u = seteqb a u'.
Proof.
  intros H. destruct (seteqb a u') eqn:E.
  - apply seteqb_seteq. apply seteqb_seteq in E. eapply seteq_trans; [exact E | now apply seteq_sym].
  - destruct (seteqb a u) eqn:E2; [|reflexivity]. apply seteqb_seteq in E2.
    assert (seteqb a u' = true) by (apply seteqb_seteq; eapply seteq_trans; [exact E2 | exact H]).
    congruence.
Qed.

Lemma existsb_ext {A} (f g : A -> bool) l : (forall x, f x = g x) -> existsb f l = existsb g l.
Proof. intros H. induction l as [|x t IH]; cbn [existsb]; [reflexivity|]. now rewrite H, IH. Qed.

Lemma frames_matching_congr u u' fr : seteq u u' -> frames_matching u fr = frames_matching u' fr.
Proof.
  intros H. unfold frames_matching. f_equal; f_equal; apply filter_ext; intros i.
  - now apply seteqb_congr.
  - rewrite (seteqb_congr _ u u' H). f_equal. apply existsb_ext. intros q. now apply memN_congr.
Qed.

Theorem reset_match_content p :
  WF p -> Inv p -> reset_match p = content_reset_match (to_instructions p).
Proof.
  intros Hw Hi. unfold reset_match, content_reset_match, kind_part.
  rewrite (sel_to_instructions KFrame p Hw). cbn [defs]. now apply frames_matching_congr.
Qed.

(** with the caches in step, the result never contains a qubit outside the union: the only
    possible deviation is a missing qubit, i.e. [union_class] *)
Theorem used_add_incl a b : WF a -> WF b -> InvG a -> InvG b -> incl (used (add a b)) (used a ++ used b).
Proof.
  intros Ha Hb Hia Hib q Hq. rewrite used_add in Hq. destruct (replaced a b).
  - apply in_listing_gq in Hq. destruct Hq as [j [Hj Hx]].
    apply in_listing_add_assign in Hj; try assumption. apply in_or_app.
    destruct Hj as [Hj|Hj]; [left; apply Hia | right; apply Hib]; apply in_listing_gq; now exists j.
  - exact Hq.
Qed.

