(** Proofs about Model/Graph.v (ScheduledBasicBlock::build).

    Structure: (A) association-list queue maps; (B) one [feed] projected on one key is a run of
    the single-queue model of Model/DepQueue.v; (C) the labelled edges of [build_l] projected on one
    region / frame are exactly the edges of the single-queue model on that resource's access
    subsequence; (D) every edge goes forward (DAG); (E) reachability from the start / to the end;
    (F) block-level C23; (G) C24; (H) instance checkers. *)
From Coq Require Import List NArith Bool Relations Lia.
From QV Require Import Model.DepQueue Proofs.DepQueueProofs Model.Graph.
Import ListNotations.
Local Open Scope N_scope.

(** * A. queue maps *)

Definition qkeys (m : qmap) : list N := map fst m.

Lemma qm_get_set_same init m k q : qm_get init (qm_set m k q) k = q.
Proof.
  unfold qm_get. induction m as [|[k' q'] t IH]; cbn [qm_set qm_find].
  - rewrite N.eqb_refl. reflexivity.
  - destruct (N.eqb_spec k k') as [->|Hne]; cbn [qm_find].
    + rewrite N.eqb_refl. reflexivity.
    + destruct (N.eqb_spec k k'); [contradiction|]. exact IH.
Qed.

Lemma qm_get_set_other init m k q k' :
  k' <> k -> qm_get init (qm_set m k q) k' = qm_get init m k'.
Proof.
  intros Hne. unfold qm_get. induction m as [|[k0 q0] t IH]; cbn [qm_set qm_find].
  - destruct (N.eqb_spec k' k); [contradiction|]. reflexivity.
  - destruct (N.eqb_spec k k0) as [->|Hne0]; cbn [qm_find].
    + destruct (N.eqb_spec k' k0); [contradiction|]. reflexivity.
    + destruct (N.eqb_spec k' k0); [reflexivity|]. exact IH.
Qed.

Lemma qm_set_keys m k q x : In x (qkeys (qm_set m k q)) <-> In x (qkeys m) \/ x = k.
Proof.
  unfold qkeys. induction m as [|[k0 q0] t IH]; cbn [qm_set map In fst].
  - intuition.
  - destruct (N.eqb_spec k k0) as [->|Hne]; cbn [map In fst].
    + intuition.
    + rewrite IH. intuition.
Qed.

Lemma qm_set_nodup m k q : NoDup (qkeys m) -> NoDup (qkeys (qm_set m k q)).
Proof.
  unfold qkeys. induction m as [|[k0 q0] t IH]; cbn [qm_set map fst]; intros Hnd.
  - constructor; [intros []|constructor].
  - inversion Hnd as [|? ? Hnin Hnd']; subst.
    destruct (N.eqb_spec k k0) as [->|Hne]; cbn [map fst].
    + constructor; assumption.
    + constructor; [|auto]. intros Hin. apply (qm_set_keys t k q k0) in Hin.
      destruct Hin as [Hin|Heq]; [contradiction|congruence].
Qed.

Lemma qm_find_in m k q : qm_find m k = Some q -> In (k, q) m.
Proof.
  induction m as [|[k0 q0] t IH]; cbn [qm_find]; [discriminate|].
  destruct (N.eqb_spec k k0) as [->|Hne]; intros H.
  - inversion H; subst. now left.
  - right. auto.
Qed.

Lemma qm_in_find m k q : NoDup (qkeys m) -> In (k, q) m -> qm_find m k = Some q.
Proof.
  unfold qkeys. induction m as [|[k0 q0] t IH]; cbn [qm_find map fst]; intros Hnd Hin; [contradiction|].
  inversion Hnd as [|? ? Hnin Hnd']; subst.
  destruct Hin as [Heq|Hin].
  - inversion Heq; subst. rewrite N.eqb_refl. reflexivity.
  - destruct (N.eqb_spec k k0) as [->|Hne]; [|auto].
    exfalso. apply Hnin. apply in_map_iff. exists (k0, q). auto.
Qed.

Lemma qm_find_none m k : qm_find m k = None -> ~ In k (qkeys m).
Proof.
  unfold qkeys. induction m as [|[k0 q0] t IH]; cbn [qm_find map fst In]; intros H; [tauto|].
  destruct (N.eqb_spec k k0) as [->|Hne]; [discriminate|].
  intros [Heq|Hin]; [congruence|]. exact (IH H Hin).
Qed.

Lemma qm_key_find m k : In k (qkeys m) -> exists q, qm_find m k = Some q.
Proof.
  intros Hin. destruct (qm_find m k) as [q|] eqn:Hf; [eauto|].
  exfalso. exact (qm_find_none m k Hf Hin).
Qed.

(** * B. one feed, projected on one key *)

Fixpoint qfinal (q : queue) (l : list (N * acc)) : queue :=
  match l with [] => q | (n, a) :: t => qfinal (fst (record q n a)) t end.

Fixpoint deps_from (q : queue) (l : list (N * acc)) : list dep :=
  match l with
  | [] => []
  | (n, a) :: t => snd (record q n a) ++ deps_from (fst (record q n a)) t
  end.

(** edges without the self-dependency filter (frame queues) *)
Definition dedges (node : N) (d : list dep) : list edge := map (fun x : dep => (snd x, node, fst x)) d.

Fixpoint uedges_from (q : queue) (l : list (N * acc)) : list edge :=
  match l with
  | [] => []
  | (n, a) :: t => dedges n (snd (record q n a)) ++ uedges_from (fst (record q n a)) t
  end.

Lemma edges_from_eq q l :
  edges_from q l =
  match l with
  | [] => []
  | (n, a) :: t => step_edges n (snd (record q n a)) ++ edges_from (fst (record q n a)) t
  end.
Proof. destruct l as [|[n a] t]; cbn [edges_from]; [reflexivity|]. destruct (record q n a); reflexivity. Qed.

Lemma qfinal_app q l1 l2 : qfinal q (l1 ++ l2) = qfinal (qfinal q l1) l2.
Proof. revert q. induction l1 as [|[n a] t IH]; intros q; cbn [qfinal app]; auto. Qed.

Lemma deps_from_app q l1 l2 : deps_from q (l1 ++ l2) = deps_from q l1 ++ deps_from (qfinal q l1) l2.
Proof.
  revert q. induction l1 as [|[n a] t IH]; intros q; cbn [deps_from qfinal app]; [reflexivity|].
  rewrite IH, app_assoc. reflexivity.
Qed.

Lemma edges_from_app q l1 l2 :
  edges_from q (l1 ++ l2) = edges_from q l1 ++ edges_from (qfinal q l1) l2.
Proof.
  revert q. induction l1 as [|[n a] t IH]; intros q; [reflexivity|].
  cbn [app qfinal]. rewrite (edges_from_eq q ((n, a) :: t ++ l2)), (edges_from_eq q ((n, a) :: t)).
  rewrite IH, app_assoc. reflexivity.
Qed.

Lemma uedges_from_app q l1 l2 :
  uedges_from q (l1 ++ l2) = uedges_from q l1 ++ uedges_from (qfinal q l1) l2.
Proof.
  revert q. induction l1 as [|[n a] t IH]; intros q; cbn [uedges_from qfinal app]; [reflexivity|].
  rewrite IH, app_assoc. reflexivity.
Qed.

Lemma step_edges_app n d1 d2 : step_edges n (d1 ++ d2) = step_edges n d1 ++ step_edges n d2.
Proof. unfold step_edges. rewrite filter_app, map_app. reflexivity. Qed.

Lemma dedges_app n d1 d2 : dedges n (d1 ++ d2) = dedges n d1 ++ dedges n d2.
Proof. unfold dedges. apply map_app. Qed.

Lemma edges_from_const node q l :
  (forall x, In x l -> fst x = node) -> edges_from q l = step_edges node (deps_from q l).
Proof.
  revert q. induction l as [|[n a] t IH]; intros q Hall; [reflexivity|].
  rewrite edges_from_eq. cbn [deps_from]. rewrite step_edges_app.
  assert (n = node) by (apply (Hall (n, a)); now left). subst n.
  rewrite IH; [reflexivity|]. intros x Hx. apply Hall. now right.
Qed.

Lemma uedges_from_const node q l :
  (forall x, In x l -> fst x = node) -> uedges_from q l = dedges node (deps_from q l).
Proof.
  revert q. induction l as [|[n a] t IH]; intros q Hall; [reflexivity|].
  cbn [uedges_from deps_from]. rewrite dedges_app.
  assert (n = node) by (apply (Hall (n, a)); now left). subst n.
  rewrite IH; [reflexivity|]. intros x Hx. apply Hall. now right.
Qed.

Definition keyed (r : N) (ds : list (N * dep)) : list dep :=
  map snd (filter (fun kd : N * dep => N.eqb r (fst kd)) ds).

Lemma keyed_app r d1 d2 : keyed r (d1 ++ d2) = keyed r d1 ++ keyed r d2.
Proof. unfold keyed. rewrite filter_app, map_app. reflexivity. Qed.

Lemma keyed_pair r k d : keyed r (map (pair k) d) = if N.eqb r k then d else [].
Proof.
  unfold keyed. induction d as [|x t IH]; cbn [map filter fst].
  - destruct (N.eqb r k); reflexivity.
  - destruct (N.eqb r k); cbn [map snd]; [f_equal|]; exact IH.
Qed.

Lemma rep_cons r k t node a :
  rep r (k :: t) node a = if N.eqb r k then (node, a) :: rep r t node a else rep r t node a.
Proof. unfold rep. cbn [filter]. destruct (N.eqb r k); reflexivity. Qed.

Lemma rep_const r keys node a x : In x (rep r keys node a) -> x = (node, a).
Proof. unfold rep. intros Hin. apply in_map_iff in Hin. destruct Hin as [? [<- _]]. reflexivity. Qed.

Lemma feed_proj init r node a : forall keys m m' ds,
  feed init m node a keys = (m', ds) ->
  qm_get init m' r = qfinal (qm_get init m r) (rep r keys node a) /\
  keyed r ds = deps_from (qm_get init m r) (rep r keys node a).
Proof.
  induction keys as [|k t IH]; intros m m' ds Hf; cbn [feed] in Hf.
  - inversion Hf; subst. split; reflexivity.
  - destruct (record (qm_get init m k) node a) as [q' d] eqn:Hrec.
    destruct (feed init (qm_set m k q') node a t) as [m2 ds2] eqn:Hf2.
    inversion Hf; subst m' ds. clear Hf.
    specialize (IH _ _ _ Hf2). destruct IH as [IHq IHd].
    rewrite rep_cons, keyed_app, keyed_pair.
    destruct (N.eqb_spec r k) as [->|Hne].
    + rewrite qm_get_set_same in IHq, IHd.
      cbn [qfinal deps_from]. rewrite Hrec. cbn [fst snd]. rewrite IHq, IHd. split; reflexivity.
    + rewrite (qm_get_set_other init m k q' r Hne) in IHq, IHd. cbn [app]. split; assumption.
Qed.

Lemma feed_nodup init node a : forall keys m m' ds,
  feed init m node a keys = (m', ds) -> NoDup (qkeys m) -> NoDup (qkeys m').
Proof.
  induction keys as [|k t IH]; intros m m' ds Hf Hnd; cbn [feed] in Hf.
  - inversion Hf; subst. exact Hnd.
  - destruct (record (qm_get init m k) node a) as [q' d] eqn:Hrec.
    destruct (feed init (qm_set m k q') node a t) as [m2 ds2] eqn:Hf2.
    inversion Hf; subst m' ds. eapply IH; [exact Hf2|]. now apply qm_set_nodup.
Qed.

Lemma feed_keys init node a : forall keys m m' ds,
  feed init m node a keys = (m', ds) ->
  forall x, In x (qkeys m') <-> In x (qkeys m) \/ In x keys.
Proof.
  induction keys as [|k t IH]; intros m m' ds Hf x; cbn [feed] in Hf.
  - inversion Hf; subst. cbn [In]. tauto.
  - destruct (record (qm_get init m k) node a) as [q' d] eqn:Hrec.
    destruct (feed init (qm_set m k q') node a t) as [m2 ds2] eqn:Hf2.
    inversion Hf; subst m' ds. rewrite (IH _ _ _ Hf2 x), qm_set_keys. cbn [In]. intuition.
Qed.

(** * C. projections of the labelled edges *)

Definition pmem (r : N) (es : list ledge) : list edge :=
  flat_map (fun e : ledge =>
              match snd e with
              | LMem r' a => if N.eqb r r' then [(fst (fst e), snd (fst e), a)] else []
              | _ => []
              end) es.

Definition pstable (f : N) (es : list ledge) : list edge :=
  flat_map (fun e : ledge =>
              match snd e with
              | LStable f' a => if N.eqb f f' then [(fst (fst e), snd (fst e), a)] else []
              | _ => []
              end) es.

Definition psched (f : N) (es : list ledge) : list edge :=
  flat_map (fun e : ledge =>
              match snd e with
              | LSched f' a => if N.eqb f f' then [(fst (fst e), snd (fst e), a)] else []
              | _ => []
              end) es.

Lemma pmem_app r a b : pmem r (a ++ b) = pmem r a ++ pmem r b.
Proof. unfold pmem. apply flat_map_app. Qed.
Lemma pstable_app r a b : pstable r (a ++ b) = pstable r a ++ pstable r b.
Proof. unfold pstable. apply flat_map_app. Qed.
Lemma psched_app r a b : psched r (a ++ b) = psched r a ++ psched r b.
Proof. unfold psched. apply flat_map_app. Qed.

Lemma pmem_In r es m n k : In (m, n, k) (pmem r es) <-> In (m, n, LMem r k) es.
Proof.
  unfold pmem. rewrite in_flat_map. split.
  - intros [[[s d] l] [Hin Hx]]. cbn [fst snd] in Hx. destruct l; try contradiction.
    destruct (N.eqb_spec r r0); [|contradiction]. destruct Hx as [Heq|[]]. inversion Heq; subst. exact Hin.
  - intros Hin. exists (m, n, LMem r k). split; [exact Hin|]. cbn [fst snd]. rewrite N.eqb_refl. now left.
Qed.

Lemma pstable_In r es m n k : In (m, n, k) (pstable r es) <-> In (m, n, LStable r k) es.
Proof.
  unfold pstable. rewrite in_flat_map. split.
  - intros [[[s d] l] [Hin Hx]]. cbn [fst snd] in Hx. destruct l; try contradiction.
    destruct (N.eqb_spec r f); [|contradiction]. destruct Hx as [Heq|[]]. inversion Heq; subst. exact Hin.
  - intros Hin. exists (m, n, LStable r k). split; [exact Hin|]. cbn [fst snd]. rewrite N.eqb_refl. now left.
Qed.

Lemma psched_In r es m n k : In (m, n, k) (psched r es) <-> In (m, n, LSched r k) es.
Proof.
  unfold psched. rewrite in_flat_map. split.
  - intros [[[s d] l] [Hin Hx]]. cbn [fst snd] in Hx. destruct l; try contradiction.
    destruct (N.eqb_spec r f); [|contradiction]. destruct Hx as [Heq|[]]. inversion Heq; subst. exact Hin.
  - intros Hin. exists (m, n, LSched r k). split; [exact Hin|]. cbn [fst snd]. rewrite N.eqb_refl. now left.
Qed.

Lemma mem_edges_cons node x t :
  mem_edges node (x :: t) =
  (if not_self node x then [(dep_node x, node, LMem (fst x) (dep_acc x))] else []) ++ mem_edges node t.
Proof. unfold mem_edges. cbn [filter]. destruct (not_self node x); reflexivity. Qed.

Lemma keyed_cons r x t : keyed r (x :: t) = (if N.eqb r (fst x) then [snd x] else []) ++ keyed r t.
Proof. unfold keyed. cbn [filter]. destruct (N.eqb r (fst x)); reflexivity. Qed.

Lemma step_edges_cons n (d : dep) t :
  step_edges n (d :: t) = (if negb (N.eqb (snd d) n) then [(snd d, n, fst d)] else []) ++ step_edges n t.
Proof. unfold step_edges. cbn [filter]. destruct (negb (N.eqb (snd d) n)); reflexivity. Qed.

Lemma pmem_mem_edges r node ds : pmem r (mem_edges node ds) = step_edges node (keyed r ds).
Proof.
  induction ds as [|[k [a m]] t IH]; [reflexivity|].
  rewrite mem_edges_cons, keyed_cons, pmem_app, step_edges_app, IH. f_equal.
  unfold not_self, dep_node, dep_acc. cbn [fst snd].
  destruct (N.eqb_spec m node) as [->|Hne]; cbn [negb].
  - destruct (N.eqb r k); [|reflexivity]. rewrite step_edges_cons. cbn [fst snd].
    rewrite N.eqb_refl. reflexivity.
  - unfold pmem. cbn [flat_map fst snd app]. destruct (N.eqb r k); [|reflexivity].
    rewrite step_edges_cons. cbn [fst snd]. destruct (N.eqb_spec m node); [contradiction|]. reflexivity.
Qed.

Lemma pmem_stable r node ds : pmem r (stable_edges node ds) = [].
Proof. unfold pmem, stable_edges. induction ds as [|x t IH]; [reflexivity|]. cbn [map flat_map snd]. exact IH. Qed.
Lemma pmem_sched r node ds : pmem r (sched_edges node ds) = [].
Proof. unfold pmem, sched_edges. induction ds as [|x t IH]; [reflexivity|]. cbn [map flat_map snd]. exact IH. Qed.
Lemma pstable_mem r node ds : pstable r (mem_edges node ds) = [].
Proof.
  unfold pstable, mem_edges. induction ds as [|x t IH]; [reflexivity|]. cbn [filter].
  destruct (not_self node x); [cbn [map flat_map snd]|]; exact IH.
Qed.
Lemma psched_mem r node ds : psched r (mem_edges node ds) = [].
Proof.
  unfold psched, mem_edges. induction ds as [|x t IH]; [reflexivity|]. cbn [filter].
  destruct (not_self node x); [cbn [map flat_map snd]|]; exact IH.
Qed.
Lemma pstable_sched r node ds : pstable r (sched_edges node ds) = [].
Proof. unfold pstable, sched_edges. induction ds as [|x t IH]; [reflexivity|]. cbn [map flat_map snd]. exact IH. Qed.
Lemma psched_stable r node ds : psched r (stable_edges node ds) = [].
Proof. unfold psched, stable_edges. induction ds as [|x t IH]; [reflexivity|]. cbn [map flat_map snd]. exact IH. Qed.

Lemma pstable_stable f node ds : pstable f (stable_edges node ds) = dedges node (keyed f ds).
Proof.
  unfold pstable, stable_edges, dedges, keyed.
  induction ds as [|[k [a m]] t IH]; [reflexivity|].
  cbn [map flat_map filter fst snd]. unfold dep_node at 1, dep_acc at 1. cbn [fst snd].
  rewrite IH. destruct (N.eqb f k); reflexivity.
Qed.
Lemma psched_sched f node ds : psched f (sched_edges node ds) = dedges node (keyed f ds).
Proof.
  unfold psched, sched_edges, dedges, keyed.
  induction ds as [|[k [a m]] t IH]; [reflexivity|].
  cbn [map flat_map filter fst snd]. unfold dep_node at 1, dep_acc at 1. cbn [fst snd].
  rewrite IH. destruct (N.eqb f k); reflexivity.
Qed.

(** per-instruction access subsequences of one frame in the ordering map and in the timed map *)
Definition facc_i (f : N) (node : N) (i : info) : list (N * acc) :=
  if is_rf i then rep f (i_used i) node AW ++ rep f (i_blocked i) node AR else [].
Definition tacc_i (f : N) (node : N) (i : info) : list (N * acc) :=
  if is_rf i && i_sched i then rep f (i_used i) node AW ++ rep f (i_blocked i) node AR else [].

Lemma macc_i_const r node i x : In x (macc_i r node i) -> fst x = node.
Proof.
  unfold macc_i. intros Hin. repeat (apply in_app_or in Hin; destruct Hin as [Hin|Hin]);
    apply rep_const in Hin; subst; reflexivity.
Qed.
Lemma facc_i_const f node i x : In x (facc_i f node i) -> fst x = node.
Proof.
  unfold facc_i. destruct (is_rf i); [|intros []]. intros Hin.
  apply in_app_or in Hin; destruct Hin as [Hin|Hin]; apply rep_const in Hin; subst; reflexivity.
Qed.
Lemma tacc_i_const f node i x : In x (tacc_i f node i) -> fst x = node.
Proof.
  unfold tacc_i. destruct (is_rf i && i_sched i); [|intros []]. intros Hin.
  apply in_app_or in Hin; destruct Hin as [Hin|Hin]; apply rep_const in Hin; subst; reflexivity.
Qed.

Lemma mem_deps_proj r m node i m' ds :
  mem_deps m node i = (m', ds) ->
  qm_get minit m' r = qfinal (qm_get minit m r) (macc_i r node i) /\
  keyed r ds = deps_from (qm_get minit m r) (macc_i r node i).
Proof.
  unfold mem_deps. intros H.
  destruct (feed minit m node AR (i_reads i)) as [m1 d1] eqn:H1.
  destruct (feed minit m1 node AW (i_writes i)) as [m2 d2] eqn:H2.
  destruct (feed minit m2 node AC (i_caps i)) as [m3 d3] eqn:H3.
  inversion H; subst m' ds. clear H.
  destruct (feed_proj minit r node AR _ _ _ _ H1) as [Q1 D1].
  destruct (feed_proj minit r node AW _ _ _ _ H2) as [Q2 D2].
  destruct (feed_proj minit r node AC _ _ _ _ H3) as [Q3 D3].
  unfold macc_i. rewrite !qfinal_app, !deps_from_app, !keyed_app.
  rewrite Q3, Q2, Q1, D1, D2, D3, Q2, Q1. split; reflexivity.
Qed.

Lemma mem_deps_nodup m node i m' ds :
  mem_deps m node i = (m', ds) -> NoDup (qkeys m) -> NoDup (qkeys m').
Proof.
  unfold mem_deps. intros H Hnd.
  destruct (feed minit m node AR (i_reads i)) as [m1 d1] eqn:H1.
  destruct (feed minit m1 node AW (i_writes i)) as [m2 d2] eqn:H2.
  destruct (feed minit m2 node AC (i_caps i)) as [m3 d3] eqn:H3.
  inversion H; subst m' ds.
  eapply feed_nodup; [exact H3|]. eapply feed_nodup; [exact H2|]. eapply feed_nodup; [exact H1|]. exact Hnd.
Qed.

Lemma two_feeds init f node m u b m1 d1 m2 d2 :
  feed init m node AW u = (m1, d1) -> feed init m1 node AR b = (m2, d2) ->
  qm_get init m2 f = qfinal (qm_get init m f) (rep f u node AW ++ rep f b node AR) /\
  dedges node (keyed f d1) ++ dedges node (keyed f d2) =
    uedges_from (qm_get init m f) (rep f u node AW ++ rep f b node AR).
Proof.
  intros H1 H2.
  destruct (feed_proj init f node AW _ _ _ _ H1) as [Q1 D1].
  destruct (feed_proj init f node AR _ _ _ _ H2) as [Q2 D2].
  rewrite qfinal_app, uedges_from_app. rewrite Q2, Q1, D1, D2, Q1. split; [reflexivity|].
  rewrite <- !uedges_from_const; [reflexivity| |]; intros x Hx; apply rep_const in Hx; subst; reflexivity.
Qed.

Lemma pmem_lead r (b : bool) node : pmem r (if b then [(0, node, LLead)] else []) = [].
Proof. destruct b; reflexivity. Qed.
Lemma pstable_lead r (b : bool) node : pstable r (if b then [(0, node, LLead)] else []) = [].
Proof. destruct b; reflexivity. Qed.
Lemma psched_lead r (b : bool) node : psched r (if b then [(0, node, LLead)] else []) = [].
Proof. destruct b; reflexivity. Qed.

Definition step_mem_ok (s s' : st) node i es :=
  forall r, qm_get minit (s_mem s') r = qfinal (qm_get minit (s_mem s) r) (macc_i r node i) /\
            pmem r es = edges_from (qm_get minit (s_mem s) r) (macc_i r node i).
Definition step_all_ok (s s' : st) node i es :=
  forall f, qm_get finit (s_all s') f = qfinal (qm_get finit (s_all s) f) (facc_i f node i) /\
            pstable f es = uedges_from (qm_get finit (s_all s) f) (facc_i f node i).
Definition step_timed_ok (s s' : st) node i es :=
  forall f, qm_get finit (s_timed s') f = qfinal (qm_get finit (s_timed s) f) (tacc_i f node i) /\
            psched f es = uedges_from (qm_get finit (s_timed s) f) (tacc_i f node i).

Lemma step_proj s node e i s' es :
  step s node e i = inr (s', es) ->
  step_mem_ok s s' node i es /\ step_all_ok s s' node i es /\ step_timed_ok s s' node i es.
Proof.
  unfold step. destruct (i_memerr i); [discriminate|].
  destruct (mem_deps (s_mem s) node i) as [m' ds] eqn:Hmd.
  assert (Hmem : forall r lead,
             pmem r lead = [] ->
             qm_get minit m' r = qfinal (qm_get minit (s_mem s) r) (macc_i r node i) /\
             pmem r (mem_edges node ds ++ lead) = edges_from (qm_get minit (s_mem s) r) (macc_i r node i)).
  { intros r lead Hl. destruct (mem_deps_proj r _ _ _ _ _ Hmd) as [Q D]. split; [exact Q|].
    rewrite pmem_app, Hl, app_nil_r, pmem_mem_edges, D.
    symmetry. apply edges_from_const. apply macc_i_const. }
  unfold step_mem_ok, step_all_ok, step_timed_ok, facc_i, tacc_i, is_rf.
  destruct (i_role i) eqn:Hrole.
  - (* classical *)
    intros H. inversion H; subst s' es. clear H. cbn [s_mem s_all s_timed andb].
    split; [|split].
    + intros r. apply Hmem. apply pmem_lead.
    + intros f. split; [reflexivity|]. rewrite pstable_app, pstable_mem, pstable_lead. reflexivity.
    + intros f. split; [reflexivity|]. rewrite psched_app, psched_mem, psched_lead. reflexivity.
  - (* RF *)
    destruct (feed finit (s_all s) node AW (i_used i)) as [a1 dau] eqn:Ha1.
    destruct (feed finit a1 node AR (i_blocked i)) as [a2 dab] eqn:Ha2.
    destruct (i_sched i) eqn:Hs.
    + destruct (feed finit (s_timed s) node AW (i_used i)) as [t1 dtu] eqn:Ht1.
      destruct (feed finit t1 node AR (i_blocked i)) as [t2 dtb] eqn:Ht2.
      intros H. inversion H; subst s' es. clear H. cbn [s_mem s_all s_timed andb].
      split; [|split].
      * intros r. apply Hmem. rewrite !pmem_app, !pmem_sched, !pmem_stable. reflexivity.
      * intros f. destruct (two_feeds finit f node _ _ _ _ _ _ _ Ha1 Ha2) as [Q D]. split; [exact Q|].
        rewrite !pstable_app, pstable_mem, !pstable_sched, !pstable_stable. cbn [app]. exact D.
      * intros f. destruct (two_feeds finit f node _ _ _ _ _ _ _ Ht1 Ht2) as [Q D]. split; [exact Q|].
        rewrite !psched_app, psched_mem, !psched_stable, !psched_sched. cbn [app]. rewrite app_nil_r. exact D.
    + intros H. inversion H; subst s' es. clear H. cbn [s_mem s_all s_timed andb].
      split; [|split].
      * intros r. apply Hmem. cbn [sched_edges map app]. rewrite !pmem_app, !pmem_stable. reflexivity.
      * intros f. destruct (two_feeds finit f node _ _ _ _ _ _ _ Ha1 Ha2) as [Q D]. split; [exact Q|].
        cbn [sched_edges map app]. rewrite !pstable_app, pstable_mem, !pstable_stable. cbn [app]. exact D.
      * intros f. split; [reflexivity|].
        cbn [sched_edges map app]. rewrite !psched_app, psched_mem, !psched_stable. reflexivity.
  - (* control *)
    destruct e; [|discriminate].
    intros H. inversion H; subst s' es. clear H. cbn [s_mem s_all s_timed andb].
    split; [|split].
    + intros r. rewrite <- (app_nil_r (mem_edges node ds)). apply Hmem. reflexivity.
    + intros f. split; [reflexivity|]. apply pstable_mem.
    + intros f. split; [reflexivity|]. apply psched_mem.
  - discriminate.
Qed.

(** whole-block access subsequences per frame *)
Definition facc_from (f : N) := seq_from (facc_i f).
Definition tacc_from (f : N) := seq_from (tacc_i f).
Definition facc f is term := facc_from f 1 is term.
Definition tacc f is term := tacc_from f 1 is term.

Lemma run_proj : forall is s node term s' es,
  run s node is term = inr (s', es) ->
  (forall r, qm_get minit (s_mem s') r = qfinal (qm_get minit (s_mem s) r) (macc_from r node is term) /\
             pmem r es = edges_from (qm_get minit (s_mem s) r) (macc_from r node is term)) /\
  (forall f, qm_get finit (s_all s') f = qfinal (qm_get finit (s_all s) f) (facc_from f node is term) /\
             pstable f es = uedges_from (qm_get finit (s_all s) f) (facc_from f node is term)) /\
  (forall f, qm_get finit (s_timed s') f = qfinal (qm_get finit (s_timed s) f) (tacc_from f node is term) /\
             psched f es = uedges_from (qm_get finit (s_timed s) f) (tacc_from f node is term)).
Proof.
  induction is as [|i t IH]; intros s node term s' es Hrun; cbn [run] in Hrun.
  - destruct term as [i|].
    + unfold macc_from, facc_from, tacc_from; cbn [seq_from]. exact (step_proj _ _ _ _ _ _ Hrun).
    + inversion Hrun; subst. unfold macc_from, facc_from, tacc_from; cbn [seq_from]. repeat split; reflexivity.
  - destruct (step s node false i) as [e|[s1 es1]] eqn:Hstep; [discriminate|].
    destruct (run s1 (N.succ node) t term) as [e|[s2 es2]] eqn:Hrun2; [discriminate|].
    inversion Hrun; subst s' es. clear Hrun.
    destruct (step_proj _ _ _ _ _ _ Hstep) as [M1 [A1 T1]].
    destruct (IH _ _ _ _ _ Hrun2) as [M2 [A2 T2]].
    unfold macc_from, facc_from, tacc_from; cbn [seq_from]. split; [|split].
    + intros r. destruct (M1 r) as [Q1 E1]. destruct (M2 r) as [Q2 E2].
      rewrite qfinal_app, edges_from_app, pmem_app, Q2, E2, Q1, E1. split; reflexivity.
    + intros f. destruct (A1 f) as [Q1 E1]. destruct (A2 f) as [Q2 E2].
      rewrite qfinal_app, uedges_from_app, pstable_app, Q2, E2, Q1, E1. split; reflexivity.
    + intros f. destruct (T1 f) as [Q1 E1]. destruct (T2 f) as [Q2 E2].
      rewrite qfinal_app, uedges_from_app, psched_app, Q2, E2, Q1, E1. split; reflexivity.
Qed.

(** ** key sets of the frame maps *)

Lemma rep_In r keys node a x : In x (rep r keys node a) -> In r keys.
Proof.
  unfold rep. intros Hin. apply in_map_iff in Hin. destruct Hin as [k [_ Hk]].
  apply filter_In in Hk. destruct Hk as [Hk Heq]. apply N.eqb_eq in Heq. subst. exact Hk.
Qed.

Lemma step_frames_nodup s node e i s' es :
  step s node e i = inr (s', es) ->
  NoDup (qkeys (s_all s)) -> NoDup (qkeys (s_timed s)) ->
  NoDup (qkeys (s_all s')) /\ NoDup (qkeys (s_timed s')).
Proof.
  unfold step. destruct (i_memerr i); [discriminate|].
  destruct (mem_deps (s_mem s) node i) as [m' ds] eqn:Hmd.
  destruct (i_role i) eqn:Hrole.
  - intros H; inversion H; subst; cbn [s_all s_timed]; auto.
  - destruct (feed finit (s_all s) node AW (i_used i)) as [a1 dau] eqn:Ha1.
    destruct (feed finit a1 node AR (i_blocked i)) as [a2 dab] eqn:Ha2.
    destruct (i_sched i) eqn:Hs.
    + destruct (feed finit (s_timed s) node AW (i_used i)) as [t1 dtu] eqn:Ht1.
      destruct (feed finit t1 node AR (i_blocked i)) as [t2 dtb] eqn:Ht2.
      intros H Hna Hnt. inversion H; subst s' es. cbn [s_all s_timed]. split.
      * eapply feed_nodup; [exact Ha2|]. eapply feed_nodup; [exact Ha1|]. exact Hna.
      * eapply feed_nodup; [exact Ht2|]. eapply feed_nodup; [exact Ht1|]. exact Hnt.
    + intros H Hna Hnt. inversion H; subst s' es. cbn [s_all s_timed]. split; [|exact Hnt].
      eapply feed_nodup; [exact Ha2|]. eapply feed_nodup; [exact Ha1|]. exact Hna.
  - destruct e; [|discriminate]. intros H; inversion H; subst; cbn [s_all s_timed]; auto.
  - discriminate.
Qed.

Lemma step_frames_keys s node e i s' es :
  step s node e i = inr (s', es) ->
  (forall f x, In x (facc_i f node i) -> In f (qkeys (s_all s'))) /\
  (forall f x, In x (tacc_i f node i) -> In f (qkeys (s_timed s'))) /\
  (forall f, In f (qkeys (s_all s)) -> In f (qkeys (s_all s'))) /\
  (forall f, In f (qkeys (s_timed s)) -> In f (qkeys (s_timed s'))).
Proof.
  unfold step, facc_i, tacc_i, is_rf. destruct (i_memerr i); [discriminate|].
  destruct (mem_deps (s_mem s) node i) as [m' ds] eqn:Hmd.
  destruct (i_role i) eqn:Hrole.
  - intros H; inversion H; subst; cbn [s_all s_timed andb]. repeat split; auto; intros ? ? [].
  - destruct (feed finit (s_all s) node AW (i_used i)) as [a1 dau] eqn:Ha1.
    destruct (feed finit a1 node AR (i_blocked i)) as [a2 dab] eqn:Ha2.
    assert (HA : forall f, In f (qkeys a2) <-> (In f (qkeys (s_all s)) \/ In f (i_used i)) \/ In f (i_blocked i)).
    { intros f. rewrite (feed_keys _ _ _ _ _ _ _ Ha2 f), (feed_keys _ _ _ _ _ _ _ Ha1 f). tauto. }
    destruct (i_sched i) eqn:Hs.
    + destruct (feed finit (s_timed s) node AW (i_used i)) as [t1 dtu] eqn:Ht1.
      destruct (feed finit t1 node AR (i_blocked i)) as [t2 dtb] eqn:Ht2.
      assert (HT : forall f, In f (qkeys t2) <-> (In f (qkeys (s_timed s)) \/ In f (i_used i)) \/ In f (i_blocked i)).
      { intros f. rewrite (feed_keys _ _ _ _ _ _ _ Ht2 f), (feed_keys _ _ _ _ _ _ _ Ht1 f). tauto. }
      intros H. inversion H; subst s' es. cbn [s_all s_timed andb]. repeat split.
      * intros f x Hx. apply HA. apply in_app_or in Hx. destruct Hx as [Hx|Hx]; apply rep_In in Hx; tauto.
      * intros f x Hx. apply HT. apply in_app_or in Hx. destruct Hx as [Hx|Hx]; apply rep_In in Hx; tauto.
      * intros f Hf. apply HA. tauto.
      * intros f Hf. apply HT. tauto.
    + intros H. inversion H; subst s' es. cbn [s_all s_timed andb]. repeat split.
      * intros f x Hx. apply HA. apply in_app_or in Hx. destruct Hx as [Hx|Hx]; apply rep_In in Hx; tauto.
      * intros f x [].
      * intros f Hf. apply HA. tauto.
      * auto.
  - destruct e; [|discriminate]. intros H; inversion H; subst; cbn [s_all s_timed andb].
    repeat split; auto; intros ? ? [].
  - discriminate.
Qed.

Lemma run_frames : forall is s node term s' es,
  run s node is term = inr (s', es) ->
  (NoDup (qkeys (s_all s)) -> NoDup (qkeys (s_timed s)) ->
   NoDup (qkeys (s_all s')) /\ NoDup (qkeys (s_timed s'))) /\
  (forall f x, In x (facc_from f node is term) -> In f (qkeys (s_all s'))) /\
  (forall f x, In x (tacc_from f node is term) -> In f (qkeys (s_timed s'))) /\
  (forall f, In f (qkeys (s_all s)) -> In f (qkeys (s_all s'))) /\
  (forall f, In f (qkeys (s_timed s)) -> In f (qkeys (s_timed s'))).
Proof.
  induction is as [|i t IH]; intros s node term s' es Hrun; cbn [run] in Hrun.
  - destruct term as [i|]; unfold facc_from, tacc_from; cbn [seq_from].
    + split; [intros; eapply step_frames_nodup; eauto|]. exact (step_frames_keys _ _ _ _ _ _ Hrun).
    + inversion Hrun; subst. repeat split; auto; intros ? ? [].
  - destruct (step s node false i) as [e|[s1 es1]] eqn:Hstep; [discriminate|].
    destruct (run s1 (N.succ node) t term) as [e|[s2 es2]] eqn:Hrun2; [discriminate|].
    inversion Hrun; subst s' es. clear Hrun.
    destruct (step_frames_keys _ _ _ _ _ _ Hstep) as [K1 [K2 [K3 K4]]].
    destruct (IH _ _ _ _ _ Hrun2) as [N2 [J1 [J2 [J3 J4]]]].
    unfold facc_from, tacc_from; cbn [seq_from]. repeat split.
    + destruct (step_frames_nodup _ _ _ _ _ _ Hstep H H0) as [A B]. apply N2; assumption.
    + destruct (step_frames_nodup _ _ _ _ _ _ Hstep H H0) as [A B]. apply N2; assumption.
    + intros f x Hx. apply in_app_or in Hx. destruct Hx as [Hx|Hx]; eauto.
    + intros f x Hx. apply in_app_or in Hx. destruct Hx as [Hx|Hx]; eauto.
    + auto.
    + auto.
Qed.

(** ** the final linking edges *)

Lemma pend_edges_In L e m a b l :
  In (a, b, l) (pend_edges L e m) <->
  b = e /\ exists f q k, In (f, q) m /\ In (k, a) (pending q) /\ l = L f k.
Proof.
  unfold pend_edges. rewrite in_flat_map. split.
  - intros [[f q] [Hin Hx]]. cbn [fst snd] in Hx. apply in_map_iff in Hx.
    destruct Hx as [[k a'] [Heq Hd]]. cbn [fst snd] in Heq. inversion Heq; subst.
    split; [reflexivity|]. exists f, q, k. auto.
  - intros [-> [f [q [k [Hin [Hd ->]]]]]]. exists (f, q). split; [exact Hin|].
    cbn [fst snd]. apply in_map_iff. exists (k, a). auto.
Qed.

Lemma final_In s e a b l :
  In (a, b, l) (final s e) <->
  b = e /\ ((l = LTrail /\ In a (s_trail s)) \/
            (exists f q k, In (f, q) (s_timed s) /\ In (k, a) (pending q) /\ l = LSched f k) \/
            (exists f q k, In (f, q) (s_all s) /\ In (k, a) (pending q) /\ l = LStable f k)).
Proof.
  unfold final. rewrite !in_app_iff, !pend_edges_In, in_map_iff. split.
  - intros [[t [Heq Ht]]|[[-> H]|[-> H]]].
    + inversion Heq; subst. auto.
    + auto.
    + auto.
  - intros [-> [[-> Ht]|[H|H]]]; [left; exists a; auto | right; left; auto | right; right; auto].
Qed.

(** ** nodes stored in a queue *)

Definition qnodes (q : queue) : list N := map snd (opt_list (qw q)) ++ qr q.

Lemma record_deps_nodes q n a x : In x (snd (record q n a)) -> In (snd x) (qnodes q).
Proof.
  unfold record, qnodes. destruct (is_write a); cbn [snd]; intros Hin.
  - apply in_app_or in Hin. apply in_or_app. destruct Hin as [Hin|Hin].
    + left. apply in_map. exact Hin.
    + right. apply in_map_iff in Hin. destruct Hin as [r [<- Hr]]. exact Hr.
  - apply in_or_app. left. apply in_map. exact Hin.
Qed.

Lemma record_nodes q n a y : In y (qnodes (fst (record q n a))) -> In y (qnodes q) \/ y = n.
Proof.
  unfold record, qnodes. destruct (is_write a); cbn [fst qw qr opt_list map app In].
  - cbn [snd]. intros [H|[]]. auto.
  - intros Hin. apply in_app_or in Hin. destruct Hin as [Hin|Hin].
    + left. apply in_or_app. now left.
    + destruct (memN n (qr q)).
      * left. apply in_or_app. now right.
      * apply in_app_or in Hin. destruct Hin as [Hin|[<-|[]]]; [|auto]. left. apply in_or_app. now right.
Qed.

Lemma pending_nodes q x : In x (pending q) -> In (snd x) (qnodes q).
Proof.
  unfold pending, qnodes. intros Hin. apply in_app_or in Hin. apply in_or_app. destruct Hin as [Hin|Hin].
  - right. apply in_map_iff in Hin. destruct Hin as [r [<- Hr]]. exact Hr.
  - left. apply in_map. exact Hin.
Qed.

Lemma qfinal_nodes : forall l q y,
  In y (qnodes (qfinal q l)) -> In y (qnodes q) \/ exists a, In (y, a) l.
Proof.
  induction l as [|[n a] t IH]; intros q y Hin; cbn [qfinal] in Hin; [auto|].
  apply IH in Hin. destruct Hin as [Hin|[a' Hin]].
  - apply record_nodes in Hin. destruct Hin as [Hin| ->]; [auto|]. right. exists a. now left.
  - right. exists a'. now right.
Qed.

(** non-decreasing / strictly increasing node sequences *)
Fixpoint mono (lo : N) (l : list (N * acc)) : Prop :=
  match l with [] => True | (n, _) :: t => lo <= n /\ mono n t end.
Fixpoint smono (lo : N) (l : list (N * acc)) : Prop :=
  match l with [] => True | (n, _) :: t => lo < n /\ smono n t end.

Lemma mono_weaken l : forall lo lo', lo' <= lo -> mono lo l -> mono lo' l.
Proof. destruct l as [|[n a] t]; cbn [mono]; [auto|]. intros lo lo' Hle [H1 H2]. split; [lia|exact H2]. Qed.
Lemma smono_weaken l : forall lo lo', lo' <= lo -> smono lo l -> smono lo' l.
Proof. destruct l as [|[n a] t]; cbn [smono]; [auto|]. intros lo lo' Hle [H1 H2]. split; [lia|exact H2]. Qed.

Lemma mono_app_const node : forall l1 l2 lo,
  (forall x, In x l1 -> fst x = node) -> lo <= node -> mono node l2 -> mono lo (l1 ++ l2).
Proof.
  induction l1 as [|[n a] t IH]; intros l2 lo Hall Hle Hm; cbn [app].
  - eapply mono_weaken; eauto.
  - assert (n = node) by (apply (Hall (n, a)); now left). subst n. cbn [mono]. split; [exact Hle|].
    apply IH; [intros x Hx; apply Hall; now right | lia | exact Hm].
Qed.

Lemma edges_lt : forall l q lo a b k,
  (forall y, In y (qnodes q) -> y <= lo) -> mono lo l ->
  In (a, b, k) (edges_from q l) -> a < b /\ exists c, In (b, c) l.
Proof.
  induction l as [|[n c] t IH]; intros q lo a b k Hq Hm Hin; [contradiction|].
  rewrite edges_from_eq in Hin. cbn [mono] in Hm. destruct Hm as [Hle Hm].
  apply in_app_or in Hin. destruct Hin as [Hin|Hin].
  - apply step_edges_In in Hin. destruct Hin as [-> [Hne Hd]].
    apply record_deps_nodes in Hd. cbn [snd] in Hd. apply Hq in Hd.
    split; [lia|]. exists c. now left.
  - apply (IH _ n) in Hin; [|intros y Hy; apply record_nodes in Hy; destruct Hy as [Hy| ->]; [apply Hq in Hy; lia|lia] | exact Hm].
    destruct Hin as [Hlt [c' Hc']]. split; [exact Hlt|]. exists c'. now right.
Qed.

Lemma uedges_lt : forall l q lo a b k,
  (forall y, In y (qnodes q) -> y <= lo) -> smono lo l ->
  In (a, b, k) (uedges_from q l) -> a < b /\ exists c, In (b, c) l.
Proof.
  induction l as [|[n c] t IH]; intros q lo a b k Hq Hm Hin; [contradiction|].
  cbn [uedges_from] in Hin. cbn [smono] in Hm. destruct Hm as [Hlt Hm].
  apply in_app_or in Hin. destruct Hin as [Hin|Hin].
  - unfold dedges in Hin. apply in_map_iff in Hin. destruct Hin as [[k' a'] [Heq Hd]].
    cbn [fst snd] in Heq. inversion Heq; subst.
    apply record_deps_nodes in Hd. cbn [snd] in Hd. apply Hq in Hd.
    split; [lia|]. exists c. now left.
  - apply (IH _ n) in Hin; [|intros y Hy; apply record_nodes in Hy; destruct Hy as [Hy| ->]; [apply Hq in Hy; lia|lia] | exact Hm].
    destruct Hin as [Hlt' [c' Hc']]. split; [exact Hlt'|]. exists c'. now right.
Qed.

Lemma filter_all {A} (f : A -> bool) l : (forall x, In x l -> f x = true) -> filter f l = l.
Proof.
  induction l as [|x t IH]; intros H; cbn [filter]; [reflexivity|].
  rewrite (H x (or_introl eq_refl)). f_equal. apply IH. intros y Hy. apply H. now right.
Qed.

(** under strict monotonicity the self-dependency filter is the identity *)
Lemma uedges_edges : forall l q lo,
  (forall y, In y (qnodes q) -> y <= lo) -> smono lo l -> uedges_from q l = edges_from q l.
Proof.
  induction l as [|[n c] t IH]; intros q lo Hq Hm; [reflexivity|].
  rewrite edges_from_eq. cbn [uedges_from]. cbn [smono] in Hm. destruct Hm as [Hlt Hm]. f_equal.
  - unfold dedges, step_edges. f_equal. symmetry. apply filter_all.
    intros x Hx. apply record_deps_nodes in Hx. apply Hq in Hx.
    destruct (N.eqb_spec (snd x) n); [lia|reflexivity].
  - apply (IH _ n); [|exact Hm]. intros y Hy. apply record_nodes in Hy. destruct Hy as [Hy| ->]; [apply Hq in Hy; lia|lia].
Qed.

(** ** shape of the access subsequences *)

Lemma seq_from_bound g : (forall node i x, In x (g node i) -> fst x = node) ->
  forall is node term x, In x (seq_from g node is term) ->
  node <= fst x <= node + N.of_nat (length is).
Proof.
  intros Hg. induction is as [|i t IH]; intros node term x Hin; cbn [seq_from] in Hin.
  - destruct term as [i|]; [|contradiction]. apply Hg in Hin. cbn [length]. lia.
  - cbn [length]. rewrite Nat2N.inj_succ. apply in_app_or in Hin. destruct Hin as [Hin|Hin].
    + apply Hg in Hin. lia.
    + apply IH in Hin. lia.
Qed.

Lemma seq_from_bound_strict g : (forall node i x, In x (g node i) -> fst x = node) ->
  (forall node i, i_role i = RControl -> g node i = []) ->
  forall is node term x, wf_term term = true -> In x (seq_from g node is term) ->
  node <= fst x < node + N.of_nat (length is).
Proof.
  intros Hg Hc. induction is as [|i t IH]; intros node term x Hwf Hin; cbn [seq_from] in Hin.
  - destruct term as [i|]; [|contradiction]. unfold wf_term in Hwf.
    destruct (i_role i) eqn:Hr; try discriminate. rewrite (Hc _ _ Hr) in Hin. contradiction.
  - cbn [length]. rewrite Nat2N.inj_succ. apply in_app_or in Hin. destruct Hin as [Hin|Hin].
    + apply Hg in Hin. lia.
    + apply IH in Hin; [lia|exact Hwf].
Qed.

Lemma seq_from_mono g : (forall node i x, In x (g node i) -> fst x = node) ->
  forall is node term, mono node (seq_from g node is term).
Proof.
  intros Hg. induction is as [|i t IH]; intros node term; cbn [seq_from].
  - destruct term as [i|]; [|exact I]. rewrite <- (app_nil_r (g node i)).
    apply (mono_app_const node); [apply Hg | lia | exact I].
  - apply (mono_app_const node); [apply Hg | lia |]. eapply mono_weaken; [|apply IH]. lia.
Qed.

Lemma single_cases (l : list (N * acc)) node :
  (length l <= 1)%nat -> (forall x, In x l -> fst x = node) -> l = [] \/ exists a, l = [(node, a)].
Proof.
  destruct l as [|[n a] [|y t]]; cbn [length]; intros Hlen Hall; [auto| |lia].
  right. exists a. rewrite <- (Hall (n, a) (or_introl eq_refl)). reflexivity.
Qed.

Lemma seq_from_smono g : (forall node i x, In x (g node i) -> fst x = node) ->
  (forall node i, wf_info i = true -> (length (g node i) <= 1)%nat) ->
  (forall node i, i_role i = RControl -> g node i = []) ->
  forall is node term lo, forallb wf_info is = true -> wf_term term = true -> lo < node ->
  smono lo (seq_from g node is term).
Proof.
  intros Hg Hs Hc. induction is as [|i t IH]; intros node term lo Hwf Hwt Hlt; cbn [seq_from].
  - destruct term as [i|]; [|exact I]. unfold wf_term in Hwt.
    destruct (i_role i) eqn:Hr; try discriminate. rewrite (Hc _ _ Hr). exact I.
  - cbn [forallb] in Hwf. apply andb_prop in Hwf. destruct Hwf as [Hwi Hwf].
    destruct (single_cases (g node i) node (Hs _ _ Hwi) (Hg node i)) as [->|[a ->]]; cbn [app].
    + apply IH; [assumption|assumption|lia].
    + cbn [smono]. split; [exact Hlt|]. apply IH; [assumption|assumption|lia].
Qed.

Lemma memN_false_filter x l : memN x l = false -> filter (N.eqb x) l = [].
Proof.
  induction l as [|y t IH]; cbn [memN filter]; [reflexivity|].
  destruct (N.eqb x y); [discriminate|]. exact IH.
Qed.

Lemma nodupb_filter_le1 f l : nodupb l = true -> (length (filter (N.eqb f) l) <= 1)%nat.
Proof.
  induction l as [|x t IH]; cbn [nodupb filter]; [auto|]. intros H. apply andb_prop in H.
  destruct H as [Hm Hn]. destruct (N.eqb_spec f x) as [->|Hne]; [|auto].
  apply negb_true_iff in Hm. rewrite (memN_false_filter _ _ Hm). cbn [length]. lia.
Qed.

Lemma facc_i_single f node i : wf_info i = true -> (length (facc_i f node i) <= 1)%nat.
Proof.
  unfold wf_info, facc_i, is_rf. destruct (i_role i); cbn [length]; try lia. intros Hnd.
  unfold rep. rewrite app_length, !map_length, <- app_length, <- filter_app. now apply nodupb_filter_le1.
Qed.

Lemma tacc_i_facc f node i : tacc_i f node i = if i_sched i then facc_i f node i else [].
Proof. unfold tacc_i, facc_i. destruct (is_rf i), (i_sched i); reflexivity. Qed.

Lemma tacc_i_single f node i : wf_info i = true -> (length (tacc_i f node i) <= 1)%nat.
Proof. intros H. rewrite tacc_i_facc. destruct (i_sched i); [now apply facc_i_single|cbn; lia]. Qed.

Lemma facc_i_ctrl f node i : i_role i = RControl -> facc_i f node i = [].
Proof. unfold facc_i, is_rf. intros ->. reflexivity. Qed.
Lemma tacc_i_ctrl f node i : i_role i = RControl -> tacc_i f node i = [].
Proof. unfold tacc_i, is_rf. intros ->. reflexivity. Qed.

(** ** edge labels and the trailing set through the main loop *)

Lemma mem_edges_In node ds a b l :
  In (a, b, l) (mem_edges node ds) -> b = node /\ exists r k, l = LMem r k.
Proof.
  unfold mem_edges. intros Hin. apply in_map_iff in Hin. destruct Hin as [x [Heq _]].
  inversion Heq; subst. eauto.
Qed.
Lemma stable_edges_In node ds a b l :
  In (a, b, l) (stable_edges node ds) -> b = node /\ exists r k, l = LStable r k.
Proof.
  unfold stable_edges. intros Hin. apply in_map_iff in Hin. destruct Hin as [x [Heq _]].
  inversion Heq; subst. eauto.
Qed.
Lemma sched_edges_In node ds a b l :
  In (a, b, l) (sched_edges node ds) -> b = node /\ exists r k, l = LSched r k.
Proof.
  unfold sched_edges. intros Hin. apply in_map_iff in Hin. destruct Hin as [x [Heq _]].
  inversion Heq; subst. eauto.
Qed.

Definition label_ok (a : N) (l : label) (cls : Prop) : Prop :=
  match l with LLead => a = 0 /\ cls | LTrail | LEmpty => False | _ => True end.

Lemma step_labels s node e i s' es :
  step s node e i = inr (s', es) ->
  forall a b l, In (a, b, l) es -> b = node /\ label_ok a l (i_role i = RClassical).
Proof.
  unfold step. destruct (i_memerr i); [discriminate|].
  destruct (mem_deps (s_mem s) node i) as [m' ds] eqn:Hmd.
  assert (Hme : forall a b l, In (a, b, l) (mem_edges node ds) -> b = node /\ label_ok a l (i_role i = RClassical)).
  { intros a b l Hin. apply mem_edges_In in Hin. destruct Hin as [-> [r [k ->]]]. split; [reflexivity|exact I]. }
  assert (Hst : forall d a b l, In (a, b, l) (stable_edges node d) -> b = node /\ label_ok a l (i_role i = RClassical)).
  { intros d a b l Hin. apply stable_edges_In in Hin. destruct Hin as [-> [r [k ->]]]. split; [reflexivity|exact I]. }
  assert (Hsc : forall d a b l, In (a, b, l) (sched_edges node d) -> b = node /\ label_ok a l (i_role i = RClassical)).
  { intros d a b l Hin. apply sched_edges_In in Hin. destruct Hin as [-> [r [k ->]]]. split; [reflexivity|exact I]. }
  destruct (i_role i) eqn:Hrole.
  - intros H. inversion H; subst s' es. intros a b l Hin. apply in_app_or in Hin. destruct Hin as [Hin|Hin]; [auto|].
    destruct (filter (not_self node) ds); [|contradiction]. destruct Hin as [Heq|[]]. inversion Heq; subst.
    split; [reflexivity|]. cbn. auto.
  - destruct (feed finit (s_all s) node AW (i_used i)) as [a1 dau] eqn:Ha1.
    destruct (feed finit a1 node AR (i_blocked i)) as [a2 dab] eqn:Ha2.
    destruct (if i_sched i then feed finit (s_timed s) node AW (i_used i) else (s_timed s, [])) as [t1 dtu] eqn:Ht1.
    destruct (if i_sched i then feed finit t1 node AR (i_blocked i) else (t1, [])) as [t2 dtb] eqn:Ht2.
    intros H. inversion H; subst s' es. intros a b l Hin.
    repeat (apply in_app_or in Hin; destruct Hin as [Hin|Hin]); eauto.
  - destruct e; [|discriminate]. intros H. inversion H; subst s' es. auto.
  - discriminate.
Qed.

Lemma step_trail s node e i s' es :
  step s node e i = inr (s', es) ->
  forall t, In t (s_trail s') -> In t (s_trail s) \/ (t = node /\ i_role i = RClassical).
Proof.
  unfold step. destruct (i_memerr i); [discriminate|].
  destruct (mem_deps (s_mem s) node i) as [m' ds] eqn:Hmd.
  destruct (i_role i) eqn:Hrole.
  - intros H. inversion H; subst s' es. cbn [s_trail]. intros t Hin. unfold trail_insert in Hin.
    match type of Hin with context [memN node ?l] => destruct (memN node l) end.
    + apply filter_In in Hin. tauto.
    + apply in_app_or in Hin. destruct Hin as [Hin|[<-|[]]]; [|auto]. apply filter_In in Hin. tauto.
  - destruct (feed finit (s_all s) node AW (i_used i)) as [a1 dau] eqn:Ha1.
    destruct (feed finit a1 node AR (i_blocked i)) as [a2 dab] eqn:Ha2.
    destruct (if i_sched i then feed finit (s_timed s) node AW (i_used i) else (s_timed s, [])) as [t1 dtu] eqn:Ht1.
    destruct (if i_sched i then feed finit t1 node AR (i_blocked i) else (t1, [])) as [t2 dtb] eqn:Ht2.
    intros H. inversion H; subst s' es. cbn [s_trail]. intros t Hin. apply filter_In in Hin. tauto.
  - destruct e; [|discriminate]. intros H. inversion H; subst s' es. cbn [s_trail]. intros t Hin.
    apply filter_In in Hin. tauto.
  - discriminate.
Qed.

Lemma run_labels : forall is s node term s' es,
  run s node is term = inr (s', es) ->
  forall a b l, In (a, b, l) es ->
    node <= b <= node + N.of_nat (length is) /\ label_ok a l True.
Proof.
  induction is as [|i t IH]; intros s node term s' es Hrun a b l Hin; cbn [run] in Hrun.
  - destruct term as [i|].
    + destruct (step_labels _ _ _ _ _ _ Hrun _ _ _ Hin) as [-> Hl]. cbn [length]. split; [lia|].
      destruct l; cbn in *; tauto.
    + inversion Hrun; subst. contradiction.
  - destruct (step s node false i) as [e|[s1 es1]] eqn:Hstep; [discriminate|].
    destruct (run s1 (N.succ node) t term) as [e|[s2 es2]] eqn:Hrun2; [discriminate|].
    inversion Hrun; subst s' es. clear Hrun. cbn [length]. rewrite Nat2N.inj_succ.
    apply in_app_or in Hin. destruct Hin as [Hin|Hin].
    + destruct (step_labels _ _ _ _ _ _ Hstep _ _ _ Hin) as [-> Hl]. split; [lia|].
      destruct l; cbn in *; tauto.
    + destruct (IH _ _ _ _ _ Hrun2 _ _ _ Hin) as [Hb Hl]. split; [lia|exact Hl].
Qed.

Lemma run_trail : forall is s node term s' es,
  run s node is term = inr (s', es) -> wf_term term = true ->
  forall t, In t (s_trail s') -> In t (s_trail s) \/ node <= t < node + N.of_nat (length is).
Proof.
  induction is as [|i t IH]; intros s node term s' es Hrun Hwt x Hin; cbn [run] in Hrun.
  - destruct term as [i|].
    + destruct (step_trail _ _ _ _ _ _ Hrun _ Hin) as [H|[_ Hr]]; [auto|].
      unfold wf_term in Hwt. rewrite Hr in Hwt. discriminate.
    + inversion Hrun; subst. auto.
  - destruct (step s node false i) as [e|[s1 es1]] eqn:Hstep; [discriminate|].
    destruct (run s1 (N.succ node) t term) as [e|[s2 es2]] eqn:Hrun2; [discriminate|].
    inversion Hrun; subst s' es. clear Hrun. cbn [length]. rewrite Nat2N.inj_succ.
    destruct (IH _ _ _ _ _ Hrun2 Hwt _ Hin) as [H|H]; [|right; lia].
    destruct (step_trail _ _ _ _ _ _ Hstep _ H) as [H'|[-> _]]; [auto|right; lia].
Qed.

(** * D. every edge goes forward *)

Lemma build_l_inv is term L :
  build_l is term = inr L ->
  exists s es, run st0 1 is term = inr (s, es) /\
    L = es ++ final s (end_node is) ++ match is with [] => [(0, end_node is, LEmpty)] | _ => [] end.
Proof.
  unfold build_l. destruct (run st0 1 is term) as [e|[s es]]; [discriminate|].
  intros H. inversion H; subst. eauto.
Qed.

Lemma qm_get_nil init k : qm_get init [] k = q_new init.
Proof. reflexivity. Qed.

Lemma end_node_eq is : end_node is = 1 + N.of_nat (length is).
Proof. unfold end_node. lia. Qed.

Lemma qnodes_new_f y : In y (qnodes (q_new finit)) -> y = 0.
Proof. cbn. intros [<-|[]]. reflexivity. Qed.

Theorem build_l_forward is term L :
  build_l is term = inr L -> wf_block is term = true ->
  forall a b l, In (a, b, l) L -> a < b /\ b <= end_node is.
Proof.
  intros Hb Hwf a b l Hin. destruct (build_l_inv _ _ _ Hb) as [s [es [Hrun ->]]].
  unfold wf_block in Hwf. apply andb_prop in Hwf. destruct Hwf as [Hwi Hwt].
  destruct (run_proj _ _ _ _ _ _ Hrun) as [PM [PA PT]].
  destruct (run_frames _ _ _ _ _ _ Hrun) as [ND _].
  destruct (ND (NoDup_nil _) (NoDup_nil _)) as [NDa NDt].
  rewrite end_node_eq.
  apply in_app_or in Hin. destruct Hin as [Hin|Hin]; [|apply in_app_or in Hin; destruct Hin as [Hin|Hin]].
  - (* main loop *)
    destruct (run_labels _ _ _ _ _ _ Hrun _ _ _ Hin) as [Hbnd Hl].
    destruct l as [r k|f k|f k| | |]; cbn in Hl; try contradiction.
    + apply pmem_In in Hin. destruct (PM r) as [_ E]. rewrite E in Hin. cbn [s_mem st0] in Hin.
      rewrite qm_get_nil in Hin.
      apply (edges_lt _ _ 0) in Hin; [|intros y []|].
      * destruct Hin as [Hlt _]. split; [exact Hlt|lia].
      * eapply mono_weaken; [|apply seq_from_mono; apply macc_i_const]. lia.
    + apply psched_In in Hin. destruct (PT f) as [_ E]. rewrite E in Hin. cbn [s_timed st0] in Hin.
      rewrite qm_get_nil in Hin.
      apply (uedges_lt _ _ 0) in Hin.
      * destruct Hin as [Hlt _]. split; [exact Hlt|lia].
      * intros y Hy. apply qnodes_new_f in Hy. lia.
      * apply seq_from_smono; [apply tacc_i_const|apply tacc_i_single|apply tacc_i_ctrl|exact Hwi|exact Hwt|lia].
    + apply pstable_In in Hin. destruct (PA f) as [_ E]. rewrite E in Hin. cbn [s_all st0] in Hin.
      rewrite qm_get_nil in Hin.
      apply (uedges_lt _ _ 0) in Hin.
      * destruct Hin as [Hlt _]. split; [exact Hlt|lia].
      * intros y Hy. apply qnodes_new_f in Hy. lia.
      * apply seq_from_smono; [apply facc_i_const|apply facc_i_single|apply facc_i_ctrl|exact Hwi|exact Hwt|lia].
    + destruct Hl as [-> _]. lia.
  - (* final linking *)
    apply final_In in Hin. destruct Hin as [-> Hin]. rewrite end_node_eq. split; [|lia].
    destruct Hin as [[_ Ht]|[[f [q [k [Hf [Hp _]]]]]|[f [q [k [Hf [Hp _]]]]]]].
    + destruct (run_trail _ _ _ _ _ _ Hrun Hwt _ Ht) as [[]|H]. lia.
    + apply pending_nodes in Hp. cbn [snd] in Hp.
      assert (Hq : q = qm_get finit (s_timed s) f).
      { unfold qm_get. rewrite (qm_in_find _ _ _ NDt Hf). reflexivity. }
      destruct (PT f) as [Q _]. rewrite Q in Hq. cbn [s_timed st0] in Hq. rewrite qm_get_nil in Hq. subst q.
      apply qfinal_nodes in Hp. destruct Hp as [Hp|[c Hp]].
      * apply qnodes_new_f in Hp. lia.
      * apply (seq_from_bound_strict _ (tacc_i_const f) (tacc_i_ctrl f)) in Hp; [|exact Hwt]. cbn [fst] in Hp. lia.
    + apply pending_nodes in Hp. cbn [snd] in Hp.
      assert (Hq : q = qm_get finit (s_all s) f).
      { unfold qm_get. rewrite (qm_in_find _ _ _ NDa Hf). reflexivity. }
      destruct (PA f) as [Q _]. rewrite Q in Hq. cbn [s_all st0] in Hq. rewrite qm_get_nil in Hq. subst q.
      apply qfinal_nodes in Hp. destruct Hp as [Hp|[c Hp]].
      * apply qnodes_new_f in Hp. lia.
      * apply (seq_from_bound_strict _ (facc_i_const f) (facc_i_ctrl f)) in Hp; [|exact Hwt]. cbn [fst] in Hp. lia.
  - destruct is; [|contradiction]. destruct Hin as [Heq|[]]. inversion Heq; subst. cbn. lia.
Qed.

Definition gerel (E : list gedge) (a b : N) : Prop := exists k, In (a, b, k) E.
Definition forward (n : N) (E : list gedge) : Prop :=
  forall a b k, In (a, b, k) E -> a < b /\ b <= N.succ n.
Definition acyclic (E : list gedge) : Prop := forall x, ~ clos_trans N (gerel E) x x.

Lemma build_inv is term E :
  build is term = inr E -> exists L, build_l is term = inr L /\ E = map erase_edge L.
Proof. unfold build. destruct (build_l is term) as [e|L]; [discriminate|]. intros H; inversion H; eauto. Qed.

Lemma erased_In L a b k :
  In (a, b, k) (map erase_edge L) <-> exists l, In (a, b, l) L /\ erase l = k.
Proof.
  rewrite in_map_iff. split.
  - intros [[[a' b'] l] [Heq Hin]]. unfold erase_edge in Heq. cbn [fst snd] in Heq. inversion Heq; subst. eauto.
  - intros [l [Hin <-]]. exists (a, b, l). split; [reflexivity|exact Hin].
Qed.

Theorem build_forward is term E :
  build is term = inr E -> wf_block is term = true -> forward (N.of_nat (length is)) E.
Proof.
  intros Hb Hwf a b k Hin. destruct (build_inv _ _ _ Hb) as [L [HL ->]].
  apply erased_In in Hin. destruct Hin as [l [Hin _]].
  exact (build_l_forward _ _ _ HL Hwf _ _ _ Hin).
Qed.

Lemma forward_trans n E a b : forward n E -> clos_trans N (gerel E) a b -> a < b.
Proof.
  intros Hf Hc. induction Hc as [x y [k Hk]|x y z _ IH1 _ IH2]; [|lia].
  exact (proj1 (Hf _ _ _ Hk)).
Qed.

Lemma forward_acyclic n E : forward n E -> acyclic E.
Proof. intros Hf x Hc. apply (forward_trans _ _ _ _ Hf) in Hc. lia. Qed.

(** * H1. C22 instance checkers *)

Lemma chk_dag_sound n E : chk_dag n E = true -> forward n E.
Proof.
  unfold chk_dag. intros H a b k Hin. rewrite forallb_forall in H. specialize (H _ Hin).
  unfold gsrc, gdst in H. cbn [fst snd] in H. apply andb_prop in H. destruct H as [H1 H2].
  apply N.ltb_lt in H1. apply N.leb_le in H2. auto.
Qed.

Lemma plain_reach E a b : reach (plain E) a b -> clos_refl_trans N (gerel E) a b.
Proof.
  induction 1 as [x y [k Hk]|x|x y z _ IH1 _ IH2]; [|apply rt_refl|eapply rt_trans; eauto].
  apply rt_step. unfold plain in Hk. apply in_map_iff in Hk. destruct Hk as [[[s d] k'] [Heq Hin]].
  unfold gsrc, gdst in Heq. cbn [fst snd] in Heq. inversion Heq; subst. exists k'. exact Hin.
Qed.

Lemma nseq_In : forall len start x, In x (nseq start len) <-> start <= x < start + N.of_nat len.
Proof.
  induction len as [|l IH]; intros start x; cbn [nseq In].
  - lia.
  - rewrite IH, Nat2N.inj_succ. lia.
Qed.

Definition all_reach (n : nat) (E : list gedge) : Prop :=
  forall i, 1 <= i <= N.of_nat n ->
    clos_refl_trans N (gerel E) 0 i /\ clos_refl_trans N (gerel E) i (N.succ (N.of_nat n)).

Lemma chk_reach_sound n E : chk_reach n E = true -> all_reach n E.
Proof.
  unfold chk_reach. intros H i Hi. rewrite forallb_forall in H.
  assert (Hin : In i (nseq 1 n)) by (apply nseq_In; lia).
  specialize (H _ Hin). apply andb_prop in H. destruct H as [H1 H2].
  split; apply plain_reach; apply reaches_sound; assumption.
Qed.
