(** Proofs about Model/PrintParse.v: on the well-formed fragment, parsing the printed tokens gives
    the instruction back (expressions by structural induction; instructions; programs), and the
    C02 instance checker is sound. *)
From Coq Require Import List NArith ZArith Bool Lia Arith ZifyBool.
From QV Require Import Model.ParsePanic Model.PrintParse.
Import ListNotations.

(** * Numbers *)

Lemma val_flit_of_val : forall v, wf_num v = true -> val_of_flit (flit_of_val v) = v.
Proof.
  intros [n|id|n] H; cbn in *; auto. unfold val_of_int. now rewrite H.
Qed.

Lemma val_of_int_wf : forall n, N.ltb n big = true -> val_of_int n = VInt n.
Proof. intros n H; unfold val_of_int; now rewrite H. Qed.

(** what may follow a printed expression *)
Definition ok_after (rest : list tok) : Prop :=
  match rest with
  | TLBracket :: _ => False
  | TId (IdRes RI) :: _ => False
  | _ => True
  end.

Definition no_op (rest : list tok) : Prop :=
  match rest with TOp _ :: _ => False | _ => True end.

Definition stop (rest : list tok) : Prop := ok_after rest /\ no_op rest.

Lemma opt_i_ok : forall rest, ok_after rest -> opt_i rest = (false, rest).
Proof.
  intros [|t rest] H; cbn; auto. destruct t; auto. destruct x; auto. destruct r; auto.
  cbn in H. contradiction.
Qed.

Lemma brackets_ok : forall rest, ok_after rest -> brackets rest = None.
Proof.
  intros [|t rest] H; cbn; auto. destruct t; auto. cbn in H; contradiction.
Qed.

Lemma loop_stop : forall f p e rest, no_op rest -> loop_e (S f) p e rest = Ok e rest.
Proof.
  intros f p e [|t rest] H; cbn; auto. destruct t; auto. cbn in H; contradiction.
Qed.

Lemma stop_rparen : forall rest, stop (TRParen :: rest).
Proof. intros; split; cbn; auto. Qed.

Lemma ok_after_op : forall o rest, ok_after (TOp o :: rest).
Proof. intros; cbn; auto. Qed.

(** * Expressions *)

(** what may follow a printed expression, refined: the identifier [i] may follow unless the
    printed expression ends in a real number literal ([b]) *)
Definition okG (b : bool) (rest : list tok) : Prop :=
  match rest with
  | TLBracket :: _ => False
  | TId (IdRes RI) :: _ => b = false
  | _ => True
  end.

Definition ends_num_atom (e : expr) : bool :=
  match e with EInfix _ _ _ | ENeg _ => false | _ => ends_num e end.

Definition ends_num_inner (e : expr) : bool :=
  match e with EInfix _ _ _ => false | _ => ends_num e end.

Lemma okG_of_ok_after : forall b rest, ok_after rest -> okG b rest.
Proof.
  intros b [|t rest] H; cbn; auto. destruct t; auto. destruct x; auto. destruct r; auto.
  cbn in H. contradiction.
Qed.

Lemma okG_true : forall rest, okG true rest -> ok_after rest.
Proof.
  intros [|t rest] H; cbn; auto. destruct t; auto. destruct x; auto. destruct r; auto.
  cbn in H. discriminate.
Qed.

Lemma okG_brackets : forall b rest, okG b rest -> brackets rest = None.
Proof.
  intros b [|t rest] H; cbn; auto. destruct t; auto. cbn in H; contradiction.
Qed.

Lemma okG_rparen : forall b rest, okG b (TRParen :: rest).
Proof. intros; exact I. Qed.

Lemma okG_op : forall b o rest, okG b (TOp o :: rest).
Proof. intros; exact I. Qed.

Definition RT_top (e : expr) : Prop :=
  forall f rest, okG (ends_num e) rest -> no_op rest -> length (print_e e ++ rest) < f ->
    parse_e f 0 (print_e e ++ rest) = Ok e rest.

Definition RT_prim (e : expr) : Prop :=
  forall f rest, okG (ends_num_atom e) rest -> length (atomp e ++ rest) <= f ->
    primary (parse_e f 0) (atomp e ++ rest) = Ok e rest.

Definition RT_opd (e : expr) : Prop :=
  forall f p rest, okG (ends_num_inner e) rest -> length (inner e ++ rest) <= f ->
    parse_e (S f) p (inner e ++ rest) = loop_e f p e rest.

Lemma parse_e_S : forall f p ts,
  parse_e (S f) p ts =
  let '(neg, ts1) := strip_minus ts in
  match primary (parse_e f 0) ts1 with
  | Ok e r => loop_e f p (if neg then ENeg e else e) r
  | o => o
  end.
Proof. reflexivity. Qed.

(** parenthesised printing reduces the primary to the top-level statement *)
Lemma prim_paren : forall e, RT_top e ->
  forall f rest, length (TLParen :: print_e e ++ [TRParen] ++ rest) <= f ->
    primary (parse_e f 0) (TLParen :: print_e e ++ [TRParen] ++ rest) = Ok e rest.
Proof.
  intros e HB f rest Hl. change ([TRParen] ++ rest) with (TRParen :: rest) in *.
  unfold primary, immediate.
  rewrite (HB f (TRParen :: rest) (okG_rparen _ rest) I).
  - reflexivity.
  - cbn [length app] in *. rewrite app_length in *. cbn [length] in *. lia.
Qed.

(** an operand that does not start with a minus sign: the operand statement from the primary one *)
Lemma opd_of_prim : forall e,
  inner e = atomp e -> ends_num_inner e = ends_num_atom e ->
  (forall rest, strip_minus (atomp e ++ rest) = (false, atomp e ++ rest)) ->
  RT_prim e -> RT_opd e.
Proof.
  intros e Hin Hen Hsm HP f p rest Hok Hl. rewrite Hin in *. rewrite Hen in Hok.
  rewrite parse_e_S. rewrite Hsm. rewrite (HP f rest Hok Hl). reflexivity.
Qed.

Lemma inner_len : forall e, 1 <= length (inner e).
Proof. destruct e; unfold inner; cbn [print_e length]; try lia. destruct im; cbn; lia. Qed.

Lemma top_of_opd : forall e, print_e e = inner e -> ends_num e = ends_num_inner e ->
  RT_opd e -> RT_top e.
Proof.
  intros e Hin Hen HA f rest Hok Hno Hl. rewrite Hin in *. rewrite Hen in Hok.
  destruct f as [|f]; [lia|]. rewrite (HA f 0 rest Hok) by lia.
  destruct f as [|f].
  - rewrite app_length in Hl. pose proof (inner_len e). lia.
  - apply loop_stop; auto.
Qed.

Lemma atomp_len : forall e, 1 <= length (atomp e).
Proof. destruct e; unfold atomp; cbn [print_e length]; try lia. destruct im; cbn; lia. Qed.

Lemma print_infix : forall l o r, print_e (EInfix l o r) = inner l ++ TOp o :: inner r.
Proof. reflexivity. Qed.

Lemma print_neg : forall a, print_e (ENeg a) = TOp OMinus :: atomp a.
Proof. reflexivity. Qed.

Lemma prec_pos : forall o, Nat.ltb 0 (prec o) = true.
Proof. destruct o; reflexivity. Qed.

Ltac from_prim :=
  match goal with
  | HP : RT_prim ?e |- _ =>
      let HA := fresh "HA" in
      assert (HA : RT_opd e)
        by (apply opd_of_prim; [reflexivity | reflexivity | intros; reflexivity | exact HP]);
      split; [apply top_of_opd; [reflexivity | reflexivity | exact HA] | split; [exact HP | exact HA]]
  end.

Theorem expr_rt : forall e, wf_expr e = true -> RT_top e /\ RT_prim e /\ RT_opd e.
Proof.
  induction e as [x i | g a IHa | l IHl o r IHr | im v | | a IHa | x]; intros Hwf; cbn [wf_expr] in Hwf.
  - (* EAddr *)
    assert (HP : RT_prim (EAddr x i)) by (intros f rest Hok Hl; reflexivity).
    from_prim.
  - (* EFn *)
    apply andb_true_iff in Hwf as [Hg Ha]. destruct (IHa Ha) as [HBa _].
    assert (HP : RT_prim (EFn g a)).
    { intros f rest Hok Hl. cbn [atomp print_e app] in *. rewrite <- app_assoc in *. cbn [app] in *.
      unfold primary. cbn [immediate brackets ident_class].
      rewrite (HBa f (TRParen :: rest) (okG_rparen _ rest) I).
      - destruct g; try discriminate; reflexivity.
      - cbn [length] in Hl. rewrite app_length in *. cbn [length] in *. lia. }
    from_prim.
  - (* EInfix *)
    apply andb_true_iff in Hwf as [Hl Hr].
    destruct (IHl Hl) as (_ & _ & HAl). destruct (IHr Hr) as (_ & _ & HAr).
    assert (HB : RT_top (EInfix l o r)).
    { intros f rest Hok Hno Hlen. rewrite print_infix in *. rewrite <- app_assoc in *.
      cbn [app] in *.
      change (ends_num (EInfix l o r)) with (ends_num_inner r) in Hok.
      pose proof (inner_len l) as L1. pose proof (inner_len r) as L2.
      rewrite app_length in Hlen. cbn [length] in Hlen. rewrite app_length in Hlen.
      destruct f as [|[|[|[|f]]]]; try lia.
      rewrite (HAl (S (S (S f))) 0 (TOp o :: inner r ++ rest) (okG_op _ _ _))
        by (rewrite app_length; cbn [length]; rewrite app_length; lia).
      cbn [loop_e]. rewrite prec_pos.
      rewrite (HAr (S f) (prec o) rest Hok) by (rewrite app_length; lia).
      rewrite (loop_stop f (prec o) r rest Hno).
      apply loop_stop; exact Hno. }
    assert (HP : RT_prim (EInfix l o r)).
    { intros f rest Hok Hlen. cbn [atomp] in *. cbn [app] in *. rewrite <- app_assoc in *.
      apply prim_paren; assumption. }
    assert (HA : RT_opd (EInfix l o r))
      by (apply opd_of_prim; [reflexivity | reflexivity | intros; reflexivity | exact HP]).
    split; [exact HB | split; [exact HP | exact HA]].
  - (* ENum *)
    apply andb_true_iff in Hwf as [Hv Hn]. apply eqb_prop in Hn.
    assert (HP : RT_prim (ENum im v)).
    { intros f rest Hok Hl. unfold primary. destruct im.
      - cbn [atomp print_e app immediate opt_i].
        rewrite (val_flit_of_val v Hv), Hn. reflexivity.
      - apply okG_true in Hok.
        destruct v as [n|id|n]; cbn [atomp print_e app tok_of_real immediate];
          rewrite (opt_i_ok rest Hok); cbn [val_of_flit].
        + cbn [wf_num] in Hv. rewrite (val_of_int_wf n Hv). destruct n; reflexivity.
        + reflexivity.
        + reflexivity. }
    assert (HA : RT_opd (ENum im v)).
    { apply opd_of_prim; [reflexivity | reflexivity | | exact HP].
      intros rest. destruct im; [reflexivity|]. destruct v; reflexivity. }
    split; [apply top_of_opd; [reflexivity | reflexivity | exact HA] | split; [exact HP | exact HA]].
  - (* EPi *)
    assert (HP : RT_prim EPi).
    { intros f rest Hok Hl. unfold primary. cbn [atomp print_e app immediate].
      rewrite (okG_brackets _ rest Hok). reflexivity. }
    from_prim.
  - (* ENeg *)
    destruct (IHa Hwf) as (_ & HPa & _).
    assert (HB : RT_top (ENeg a)).
    { intros f rest Hok Hno Hlen. rewrite print_neg in *. cbn [app length] in *.
      change (ends_num (ENeg a)) with (ends_num_atom a) in Hok.
      pose proof (atomp_len a) as L1. rewrite app_length in Hlen.
      destruct f as [|[|f]]; try lia.
      rewrite parse_e_S. cbn [strip_minus]. rewrite (HPa (S f) rest Hok) by (rewrite app_length; lia).
      apply loop_stop; exact Hno. }
    assert (HP : RT_prim (ENeg a)).
    { intros f rest Hok Hlen. cbn [atomp] in *. cbn [app] in *. rewrite <- app_assoc in *.
      apply prim_paren; assumption. }
    assert (HA : RT_opd (ENeg a)).
    { intros f p rest Hok Hlen. change (inner (ENeg a)) with (print_e (ENeg a)) in *.
      change (ends_num_inner (ENeg a)) with (ends_num_atom a) in Hok.
      rewrite print_neg in *. cbn [app length] in *.
      rewrite parse_e_S. cbn [strip_minus]. rewrite (HPa f rest Hok) by lia.
      reflexivity. }
    split; [exact HB | split; [exact HP | exact HA]].
  - (* EVar *)
    assert (HP : RT_prim (EVar x)) by (intros f rest Hok Hl; reflexivity).
    from_prim.
Qed.

(** the refined statement: [i] may follow an expression whose print does not end in a number *)
Lemma p_expr_rt_gen : forall e rest, wf_expr e = true -> okG (ends_num e) rest -> no_op rest ->
  p_expr (print_e e ++ rest) = Ok e rest.
Proof.
  intros e rest Hwf Hok Hno. unfold p_expr. destruct (expr_rt e Hwf) as (HB & _ & _).
  apply HB; auto.
Qed.

Lemma p_expr_rt : forall e rest, wf_expr e = true -> stop rest ->
  p_expr (print_e e ++ rest) = Ok e rest.
Proof.
  intros e rest Hwf [Hok Hno]. apply p_expr_rt_gen; auto. apply okG_of_ok_after; exact Hok.
Qed.

(** * Token classes that end the repetitions of the instruction parsers *)

Definition line_end (rest : list tok) : Prop :=
  match rest with [] => True | TNewLine :: _ => True | _ => False end.

Definition qstop (rest : list tok) : Prop :=
  match rest with TInt _ :: _ | TVar _ :: _ | TId _ :: _ => False | _ => True end.

Lemma line_end_stop : forall rest, line_end rest -> stop rest.
Proof. intros [|[] rest] H; cbn in H; try contradiction; repeat split. Qed.

Lemma line_end_qstop : forall rest, line_end rest -> qstop rest.
Proof. intros [|[] rest] H; cbn in H; try contradiction; exact I. Qed.

Lemma p_qubits_rt : forall qs rest, qstop rest ->
  p_qubits (map print_qubit qs ++ rest) = (qs, rest).
Proof.
  induction qs as [|q qs IH]; intros rest H; cbn [map app].
  - destruct rest as [|[] rest]; cbn in H; try contradiction; reflexivity.
  - destruct q; cbn [print_qubit p_qubits]; rewrite (IH rest H); reflexivity.
Qed.

Lemma p_strings_rt : forall l rest,
  match rest with TString _ :: _ => False | _ => True end ->
  p_strings (map TString l ++ rest) = (l, rest).
Proof.
  induction l as [|s l IH]; intros rest H; cbn [map app].
  - destruct rest as [|[] rest]; try contradiction; reflexivity.
  - cbn [p_strings]. rewrite (IH rest H). reflexivity.
Qed.

Lemma p_modifiers_rt : forall l rest,
  match rest with TModifier _ :: _ => False | _ => True end ->
  p_modifiers (map TModifier l ++ rest) = (l, rest).
Proof.
  induction l as [|s l IH]; intros rest H; cbn [map app].
  - destruct rest as [|[] rest]; try contradiction; reflexivity.
  - cbn [p_modifiers]. rewrite (IH rest H). reflexivity.
Qed.

Lemma p_pragma_args_rt : forall l rest,
  match rest with TId _ :: _ | TInt _ :: _ => False | _ => True end ->
  p_pragma_args (map print_pragma_arg l ++ rest) = (l, rest).
Proof.
  induction l as [|a l IH]; intros rest H; cbn [map app].
  - destruct rest as [|[] rest]; try contradiction; reflexivity.
  - destruct a; cbn [print_pragma_arg p_pragma_args]; rewrite (IH rest H); reflexivity.
Qed.

Lemma p_offsets_rt : forall l rest, line_end rest ->
  p_offsets (print_offsets l ++ rest) = (l, rest).
Proof.
  induction l as [|[n d] l IH]; intros rest H; cbn [print_offsets flat_map app].
  - destruct rest as [|[] rest]; cbn in H; try contradiction; reflexivity.
  - cbn [fst snd app p_offsets]. fold (print_offsets l). rewrite (IH rest H). reflexivity.
Qed.

Lemma p_memref_rt : forall m rest, p_memref (print_memref m ++ rest) = Ok m rest.
Proof. intros [x i] rest; reflexivity. Qed.

Lemma wf_int_pos : forall z, (0 <= z)%Z -> (z <? Z.of_N two63)%Z = true ->
  N.ltb (Z.to_N z) two63 = true /\ Z.of_N (Z.to_N z) = z.
Proof. intros z H1 H2. split; [apply N.ltb_lt|]; lia. Qed.

Lemma p_arith_operand_rt : forall s rest, wf_operand true s = true ->
  p_arith_operand Repaired (print_operand s ++ rest) = Ok s rest.
Proof.
  intros [z|neg v|m] rest H; cbn [wf_operand andb] in H.
  - apply andb_true_iff in H as [H1 H2]. cbn [print_operand].
    destruct (z <? 0)%Z eqn:Hz; cbn [app p_arith_operand signed_int].
    + assert (Hle : N.leb (Z.to_N (- z)) two63 = true) by (apply N.leb_le; unfold two63 in *; lia).
      rewrite Hle. f_equal. f_equal. lia.
    + assert (Hlt : N.ltb (Z.to_N z) two63 = true) by (apply N.ltb_lt; unfold two63 in *; lia).
      rewrite Hlt. f_equal. f_equal. lia.
  - cbn [print_operand]. destruct neg; cbn [app p_arith_operand signed_real];
      rewrite (val_flit_of_val v H); reflexivity.
  - destruct m as [x i]. reflexivity.
Qed.

Lemma p_logic_operand_rt : forall s rest, wf_operand false s = true ->
  p_logic_operand Repaired (print_operand s ++ rest) = Ok s rest.
Proof.
  intros [z|neg v|m] rest H; cbn [wf_operand andb] in H; try discriminate.
  - apply andb_true_iff in H as [H1 H2]. cbn [print_operand].
    destruct (z <? 0)%Z eqn:Hz; cbn [app p_logic_operand signed_int].
    + assert (Hle : N.leb (Z.to_N (- z)) two63 = true) by (apply N.leb_le; unfold two63 in *; lia).
      rewrite Hle. f_equal. f_equal. lia.
    + assert (Hlt : N.ltb (Z.to_N z) two63 = true) by (apply N.ltb_lt; unfold two63 in *; lia).
      rewrite Hlt. f_equal. f_equal. lia.
  - destruct m as [x i]. reflexivity.
Qed.

Lemma p_frame_rt : forall f rest, nonempty (fst f) = true ->
  p_frame (print_frame f ++ rest) = Ok f rest.
Proof.
  intros [qs s] rest H. unfold p_frame, print_frame. cbn [fst snd] in *.
  rewrite <- app_assoc. rewrite p_qubits_rt by exact I.
  destruct qs; [discriminate|]. reflexivity.
Qed.

(** * Parameter lists *)

Definition tail_toks (l : list expr) : list tok := flat_map (fun e => TComma :: print_e e) l.

Lemma sep_exprs_cons : forall e t, sep_exprs (e :: t) = print_e e ++ tail_toks t.
Proof.
  intros e t; revert e; induction t as [|e' t IH]; intros e.
  - cbn. now rewrite app_nil_r.
  - change (sep_exprs (e :: e' :: t)) with (print_e e ++ TComma :: sep_exprs (e' :: t)).
    rewrite IH. reflexivity.
Qed.

Lemma tail_toks_len : forall l, length l <= length (tail_toks l).
Proof.
  induction l as [|e l IH]; cbn [tail_toks flat_map length]; [lia|].
  fold (tail_toks l). rewrite app_length. cbn [length]. lia.
Qed.

Lemma stop_tail : forall l rest, stop (tail_toks l ++ TRParen :: rest).
Proof. intros [|e l] rest; cbn; repeat split. Qed.

Lemma p_expr_list_tail_rt : forall l, forallb wf_expr l = true ->
  forall f rest, length l < f ->
    p_expr_list_tail f (tail_toks l ++ TRParen :: rest) = Ok l (TRParen :: rest).
Proof.
  induction l as [|e l IH]; intros Hwf f rest Hf; cbn [length] in Hf; (destruct f as [|f]; [lia|]).
  - reflexivity.
  - cbn [forallb] in Hwf. apply andb_true_iff in Hwf as [He Hl].
    cbn [tail_toks flat_map]. fold (tail_toks l). cbn [app p_expr_list_tail].
    rewrite <- app_assoc. rewrite (p_expr_rt e _ He (stop_tail l rest)).
    rewrite (IH Hl f rest) by lia. reflexivity.
Qed.

Lemma p_params_rt : forall ps rest, forallb wf_expr ps = true ->
  (ps = [] -> match rest with TLParen :: _ => False | _ => True end) ->
  p_params (print_params ps ++ rest) = Ok ps rest.
Proof.
  intros [|e t] rest Hwf Hr.
  - cbn [print_params app]. specialize (Hr eq_refl).
    destruct rest as [|[] rest]; try contradiction; reflexivity.
  - cbn [forallb] in Hwf. apply andb_true_iff in Hwf as [He Ht].
    unfold print_params. rewrite sep_exprs_cons. cbn [app]. rewrite <- !app_assoc. cbn [app].
    unfold p_params, p_expr_list.
    rewrite (p_expr_rt e _ He (stop_tail t rest)).
    rewrite (p_expr_list_tail_rt t Ht).
    + reflexivity.
    + rewrite app_length. pose proof (tail_toks_len t). lia.
Qed.

(** the first token of a printed expression is never a string, a modifier, ... *)
Lemma print_e_head : forall e,
  match print_e e with
  | TId _ :: _ | TInt _ :: _ | TFloat _ :: _ | TVar _ :: _ | TOp OMinus :: _ | TLParen :: _ => True
  | _ => False
  end.
Proof.
  induction e; cbn [print_e]; auto.
  - destruct e1; cbn [app]; auto;
      match goal with |- context [print_e ?x ++ _] => destruct (print_e x) as [|[] ?] end;
      cbn [app]; try contradiction; auto.
    all: try (destruct o0; auto; contradiction).
  - destruct im; [exact I|]. destruct v; exact I.
Qed.

(** * Waveform invocations *)

Lemma key_ltb_leb : forall a b, key_ltb a b = true -> key_leb a b = true.
Proof.
  intros [r|r|n] [r'|r'|m] H; cbn in *; try discriminate; auto.
  apply N.ltb_lt in H. apply N.leb_le. lia.
Qed.

(** the printer's sort leaves a parameter map in canonical form alone *)
Lemma sort_sorted : forall l, sorted_keys l = true -> sort_named l = l.
Proof.
  induction l as [|x t IH]; intros H; [reflexivity|].
  change (sort_named (x :: t)) with (ins_named x (sort_named t)).
  destruct t as [|y t'].
  - reflexivity.
  - cbn [sorted_keys] in H. apply andb_true_iff in H as [Hxy Ht].
    rewrite (IH Ht). cbn [ins_named]. rewrite (key_ltb_leb _ _ Hxy). reflexivity.
Qed.

Definition named_tail (l : list (ident * expr)) : list tok :=
  flat_map (fun x : ident * expr => TComma :: TId (fst x) :: TColon :: print_e (snd x)) l.

Lemma sep_named_cons : forall x t,
  sep_named (x :: t) = TId (fst x) :: TColon :: print_e (snd x) ++ named_tail t.
Proof.
  intros x t; revert x; induction t as [|y t IH]; intros x.
  - cbn. now rewrite app_nil_r.
  - change (sep_named (x :: y :: t))
      with (TId (fst x) :: TColon :: print_e (snd x) ++ TComma :: sep_named (y :: t)).
    rewrite IH. reflexivity.
Qed.

Lemma named_tail_len : forall l, length l <= length (named_tail l).
Proof.
  induction l as [|e l IH]; cbn [named_tail flat_map length]; [lia|].
  fold (named_tail l). rewrite app_length. cbn [length]. lia.
Qed.

Lemma stop_named_tail : forall l rest, stop (named_tail l ++ TRParen :: rest).
Proof. intros [|e l] rest; cbn; repeat split. Qed.

Lemma p_named_args_tail_rt : forall l,
  forallb (fun x : ident * expr => wf_expr (snd x)) l = true ->
  forall f rest, length l < f ->
    p_named_args_tail f (named_tail l ++ TRParen :: rest) = Ok l (TRParen :: rest).
Proof.
  induction l as [|[k e] l IH]; intros Hwf f rest Hf; cbn [length] in Hf; (destruct f as [|f]; [lia|]).
  - reflexivity.
  - cbn [forallb snd] in Hwf. apply andb_true_iff in Hwf as [He Hl].
    cbn [named_tail flat_map fst snd]. fold (named_tail l).
    cbn [app p_named_args_tail named_key].
    rewrite <- app_assoc. rewrite (p_expr_rt e _ He (stop_named_tail l rest)).
    rewrite (IH Hl f rest) by lia. reflexivity.
Qed.

Lemma p_named_args_rt : forall x t rest,
  forallb (fun x : ident * expr => wf_expr (snd x)) (x :: t) = true ->
  p_named_args (sep_named (x :: t) ++ TRParen :: rest) = Ok (x :: t) (TRParen :: rest).
Proof.
  intros [k e] t rest Hwf. cbn [forallb snd] in Hwf. apply andb_true_iff in Hwf as [He Ht].
  rewrite sep_named_cons. cbn [fst snd app]. unfold p_named_args. cbn [named_key].
  rewrite <- app_assoc. rewrite (p_expr_rt e _ He (stop_named_tail t rest)).
  rewrite (p_named_args_tail_rt t Ht).
  - reflexivity.
  - rewrite app_length. pose proof (named_tail_len t). lia.
Qed.

(** what may follow a printed waveform invocation *)
Definition wstop (rest : list tok) : Prop :=
  match rest with TLParen :: _ | TOp _ :: _ => False | _ => True end.

Lemma p_waveform_rt : forall w rest, wf_waveform w = true -> wstop rest ->
  p_waveform (print_waveform w ++ rest) = Ok w rest.
Proof.
  intros [name ext ps] rest Hwf Hr. unfold wf_waveform in Hwf. cbn [wparams] in Hwf.
  apply andb_true_iff in Hwf as [Hs Hv].
  unfold print_waveform. cbn [wname wext wparams]. rewrite (sort_sorted ps Hs).
  destruct ps as [|x t].
  - rewrite app_nil_r.
    destruct ext as [x|]; cbn [app]; unfold p_waveform; cbn [wf_ext];
      (destruct rest as [|t0 rest']; [reflexivity|]; destruct t0; try contradiction; reflexivity).
  - destruct ext as [y|]; cbn [app]; rewrite <- app_assoc; cbn [app];
      unfold p_waveform; cbn [wf_ext]; rewrite (p_named_args_rt x t rest Hv); reflexivity.
Qed.

Lemma line_end_wstop : forall rest, line_end rest -> wstop rest.
Proof. intros [|[] rest] H; cbn in H; try contradiction; exact I. Qed.

(** * CALL arguments *)

Lemma call_more_brackets : forall t rest, line_end rest ->
  brackets (flat_map print_callarg t ++ rest) = None.
Proof.
  intros [|b t] rest H.
  - cbn [flat_map app]. destruct rest as [|[] rest]; cbn in H; try contradiction; reflexivity.
  - destruct b as [[x i]|x|[] v]; try reflexivity. destruct v; reflexivity.
Qed.

Lemma call_more_i : forall t rest, line_end rest ->
  match t with b :: _ => arg_starts_with_i b = false | [] => True end ->
  opt_i (flat_map print_callarg t ++ rest) = (false, flat_map print_callarg t ++ rest).
Proof.
  intros [|b t] rest H Hb.
  - cbn [flat_map app]. destruct rest as [|[] rest]; cbn in H; try contradiction; reflexivity.
  - destruct b as [[x i]|x|[] v]; cbn [arg_starts_with_i fst] in Hb.
    + destruct x as [[]| |]; try discriminate; reflexivity.
    + destruct x as [[]| |]; try discriminate; reflexivity.
    + reflexivity.
    + destruct v; reflexivity.
Qed.

Lemma p_call_args_rt : forall args rest, line_end rest ->
  forallb wf_callarg args = true -> call_immediate_then_i args = false ->
  forall f, length args <= f ->
    p_call_args f (flat_map print_callarg args ++ rest) = (args, rest).
Proof.
  induction args as [|a t IH]; intros rest Hle Hwf Hci f Hf.
  - cbn [flat_map app]. destruct f as [|f]; [reflexivity|].
    destruct rest as [|[] rest]; cbn in Hle; try contradiction; reflexivity.
  - cbn [length] in Hf. destruct f as [|f]; [lia|].
    cbn [forallb] in Hwf. apply andb_true_iff in Hwf as [Ha Ht].
    cbn [call_immediate_then_i] in Hci. apply orb_false_iff in Hci as [Hai Hti].
    assert (Hf' : length t <= f) by lia.
    cbn [flat_map]. rewrite <- app_assoc.
    pose proof (call_more_brackets t rest Hle) as Hbr.
    destruct a as [[x i]|x|im v].
    + cbn [print_callarg print_memref fst snd app p_call_args p_call_arg brackets].
      rewrite (IH rest Hle Ht Hti f Hf'). reflexivity.
    + cbn [print_callarg app p_call_args p_call_arg]. rewrite Hbr.
      rewrite (IH rest Hle Ht Hti f Hf'). reflexivity.
    + cbn [wf_callarg] in Ha. apply andb_true_iff in Ha as [Hv Hn]. apply eqb_prop in Hn.
      destruct im.
      * cbn [print_callarg app p_call_args p_call_arg immediate opt_i].
        rewrite (val_flit_of_val v Hv), Hn. rewrite (IH rest Hle Ht Hti f Hf'). reflexivity.
      * assert (Hi : opt_i (flat_map print_callarg t ++ rest)
                     = (false, flat_map print_callarg t ++ rest)).
        { apply call_more_i; [exact Hle|]. destruct t as [|b t']; [exact I|exact Hai]. }
        destruct v as [n|id|n]; cbn [print_callarg tok_of_real app p_call_args p_call_arg immediate];
          rewrite Hi; cbn [val_of_flit].
        -- cbn [wf_num] in Hv. rewrite (val_of_int_wf n Hv). cbn [norm_im] in *.
           rewrite (IH rest Hle Ht Hti f Hf'). destruct n; reflexivity.
        -- rewrite (IH rest Hle Ht Hti f Hf'). reflexivity.
        -- rewrite (IH rest Hle Ht Hti f Hf'). reflexivity.
Qed.

Lemma call_toks_len : forall l, length l <= length (flat_map print_callarg l).
Proof.
  induction l as [|a l IH]; cbn [flat_map length]; [lia|]. rewrite app_length.
  destruct a as [[x i]|x|[] v]; cbn [print_callarg print_memref length]; lia.
Qed.

(** * Instructions *)

Lemma line_end_cases : forall rest, line_end rest -> rest = [] \/ exists r, rest = TNewLine :: r.
Proof. intros [|[] r] H; cbn in H; try contradiction; eauto. Qed.

Lemma p_expr_line_end : forall rest, line_end rest -> p_expr rest = Err.
Proof. intros rest H. destruct (line_end_cases rest H) as [->|[r ->]]; reflexivity. Qed.

Ltac le_split H :=
  let r := fresh "r" in
  destruct (line_end_cases _ H) as [->|[r ->]].

Lemma p_expr_paren_rt : forall e rest, wf_expr e = true -> stop rest ->
  p_expr (TLParen :: print_e e ++ TRParen :: rest) = Ok e rest.
Proof.
  intros e rest Hwf [Hok Hno]. unfold p_expr. destruct (expr_rt e Hwf) as (HB & _ & _).
  rewrite parse_e_S. cbn [strip_minus].
  change (TLParen :: print_e e ++ TRParen :: rest) with (TLParen :: print_e e ++ [TRParen] ++ rest).
  rewrite (prim_paren e HB) by lia.
  cbn [length]. apply loop_stop. exact Hno.
Qed.

Lemma delay_rt : forall qs names dur rest,
  wf_expr dur = true -> line_end rest ->
  p_delay (map print_qubit qs ++ map TString names ++ print_duration names dur ++ rest)
  = Ok (IDelay qs names dur) rest.
Proof.
  intros qs names dur rest Hwf Hle. unfold p_delay.
  pose proof (line_end_stop rest Hle) as Hstop.
  pose proof (print_e_head dur) as Hhead.
  destruct names as [|s names].
  - (* no frame names *)
    cbn [map app].
    assert (Hcase :
      (exists n, dur = ENum false (VInt n)) \/
      (qstop (print_duration [] dur ++ rest) /\
       p_expr (print_duration [] dur ++ rest) = Ok dur rest /\
       p_strings (print_duration [] dur ++ rest) = ([], print_duration [] dur ++ rest))).
    { destruct dur as [| | |im v| | |];
        try (right; cbn [print_duration app]; rewrite <- app_assoc; cbn [app]; split; [exact I|split];
             [apply p_expr_paren_rt; assumption | reflexivity]).
      destruct im.
      - right; cbn [print_duration app]; rewrite <- app_assoc; cbn [app]; split; [exact I|split];
          [apply p_expr_paren_rt; assumption | reflexivity].
      - destruct v as [n|id|n]; [left; eauto| |];
          (right; split; [exact I|split]; [apply p_expr_rt; assumption | reflexivity]). }
    destruct Hcase as [[n ->]|(Hq & He & Hs)].
    + cbn [print_duration print_e tok_of_real app wf_expr wf_num] in *.
      apply andb_true_iff in Hwf as [Hn _].
      change (TInt n :: rest) with (map print_qubit [QFixed n] ++ rest).
      rewrite app_assoc, <- map_app.
      rewrite p_qubits_rt by (apply line_end_qstop; exact Hle).
      replace (p_strings rest) with (@nil N, rest) by (le_split Hle; reflexivity).
      rewrite (p_expr_line_end rest Hle). rewrite rev_app_distr. cbn [rev app].
      rewrite rev_involutive. rewrite (val_of_int_wf n Hn). reflexivity.
    + rewrite p_qubits_rt by exact Hq. rewrite Hs, He. reflexivity.
  - rewrite p_qubits_rt by exact I.
    change (print_duration (s :: names) dur) with (print_e dur).
    rewrite p_strings_rt.
    + rewrite (p_expr_rt dur rest Hwf Hstop). reflexivity.
    + destruct (print_e dur) as [|[] ?]; cbn [app]; try contradiction; try exact I.
Qed.

Lemma app_cons_assoc : forall (a : list tok) t b, a ++ t :: b = (a ++ [t]) ++ b.
Proof. intros; rewrite <- app_assoc; reflexivity. Qed.

Theorem instr_rt : forall i rest, wf_instr i = true -> line_end rest ->
  p_instruction Repaired (print_instr i ++ rest) = Ok i rest.
Proof.
  intros i rest Hwf Hle.
  pose proof (line_end_stop rest Hle) as Hstop.
  pose proof (line_end_qstop rest Hle) as Hq.
  destruct i; cbn [wf_instr] in Hwf; try discriminate.
  - (* IArith *)
    apply andb_true_iff in Hwf as [Hc Hs].
    destruct c; try discriminate Hc; cbn [print_instr app p_instruction p_command];
      rewrite <- app_assoc, p_memref_rt; cbn [bind];
      rewrite (p_arith_operand_rt s rest Hs); reflexivity.
  - (* ILogic *)
    apply andb_true_iff in Hwf as [Hc Hs].
    destruct c; try discriminate Hc; cbn [print_instr app p_instruction p_command];
      rewrite <- app_assoc, p_memref_rt; cbn [bind];
      rewrite (p_logic_operand_rt s rest Hs); reflexivity.
  - (* ICmp *)
    apply andb_true_iff in Hwf as [Hc Hs].
    destruct c; try discriminate Hc; cbn [print_instr app p_instruction p_command];
      rewrite <- !app_assoc, p_memref_rt; cbn [bind]; rewrite p_memref_rt; cbn [bind];
      rewrite (p_arith_operand_rt r rest Hs); reflexivity.
  - (* IUnary *)
    destruct c; try discriminate Hwf; cbn [print_instr app p_instruction p_command];
      rewrite p_memref_rt; reflexivity.
  - (* ICall *)
    apply andb_true_iff in Hwf as [Ha Hci]. apply negb_true_iff in Hci.
    cbn [print_instr app p_instruction p_command].
    rewrite (p_call_args_rt args rest Hle Ha Hci).
    + reflexivity.
    + rewrite app_length. pose proof (call_toks_len args). lia.
  - (* ICapture *)
    apply andb_true_iff in Hwf as [Hf Hw].
    assert (Hcap : p_capture blocking (print_frame f ++ print_waveform w ++ print_memref m ++ rest)
                   = Ok (ICapture blocking f w m) rest).
    { unfold p_capture. rewrite (p_frame_rt f _ Hf). cbn [bind].
      rewrite (p_waveform_rt w _ Hw) by (destruct m; exact I). cbn [bind].
      rewrite p_memref_rt. reflexivity. }
    destruct blocking; cbn [print_instr print_blocking app p_instruction p_command];
      rewrite <- !app_assoc; exact Hcap.
  - (* IConvert *)
    cbn [print_instr app p_instruction p_command].
    rewrite <- !app_assoc, p_memref_rt; cbn [bind]; rewrite p_memref_rt; reflexivity.
  - (* IExchange *)
    cbn [print_instr app p_instruction p_command].
    rewrite <- !app_assoc, p_memref_rt; cbn [bind]; rewrite p_memref_rt; reflexivity.
  - (* IDeclare *)
    cbn [print_instr app p_instruction p_command]. unfold p_declare. cbn [brackets].
    destruct sharing as [[x offs]|].
    + destruct offs as [|o offs].
      * le_split Hle; reflexivity.
      * cbn [app p_sharing]. rewrite (p_offsets_rt (o :: offs) rest Hle).
        destruct o. reflexivity.
    + le_split Hle; reflexivity.
  - (* IDelay *)
    cbn [print_instr app p_instruction p_command]. rewrite <- !app_assoc.
    apply delay_rt; assumption.
  - (* IFence *)
    cbn [print_instr app p_instruction p_command]. rewrite (p_qubits_rt qs rest Hq). reflexivity.
  - (* IGate *)
    cbn [print_instr].
    assert (Hdisp : forall ts, p_instruction Repaired (map TModifier mods ++ TId name :: ts)
                               = p_gate (map TModifier mods ++ TId name :: ts))
      by (intros; destruct mods; reflexivity).
    rewrite <- !app_assoc. cbn [app]. rewrite Hdisp. unfold p_gate.
    rewrite p_modifiers_rt by exact I.
    rewrite <- app_assoc. rewrite p_params_rt.
    + cbn [bind]. rewrite (p_qubits_rt qs rest Hq). reflexivity.
    + exact Hwf.
    + intros _. destruct qs as [|[] qs]; cbn [map app print_qubit]; try exact I.
      le_split Hle; exact I.
  - reflexivity.
  - reflexivity.
  - reflexivity.
  - reflexivity.
  - reflexivity.
  - (* IJumpWhen *)
    cbn [print_instr app p_instruction p_command p_target bind]. rewrite p_memref_rt. reflexivity.
  - cbn [print_instr app p_instruction p_command p_target bind]. rewrite p_memref_rt. reflexivity.
  - reflexivity.
  - (* ILoad *)
    cbn [print_instr app p_instruction p_command]. rewrite <- !app_assoc, p_memref_rt.
    cbn [bind app]. rewrite p_memref_rt. reflexivity.
  - (* IStore *)
    cbn [print_instr app p_instruction p_command]. rewrite <- !app_assoc, p_memref_rt.
    cbn [bind]. rewrite (p_arith_operand_rt s rest Hwf). reflexivity.
  - (* IMeasure *)
    cbn [print_instr p_instruction app p_command]. unfold p_measure.
    destruct name as [n|]; destruct q as [k|x]; destruct t as [[y j]|];
      cbn [app print_qubit p_qubit bind print_memref fst snd]; try reflexivity;
      le_split Hle; reflexivity.
  - (* IMove *)
    cbn [print_instr app p_instruction p_command]. rewrite <- !app_assoc, p_memref_rt.
    cbn [bind]. rewrite (p_arith_operand_rt s rest Hwf). reflexivity.
  - (* IPragma *)
    cbn [print_instr app p_instruction p_command]. rewrite <- !app_assoc.
    destruct data as [s|].
    + rewrite p_pragma_args_rt by exact I. reflexivity.
    + cbn [app]. rewrite p_pragma_args_rt by (le_split Hle; exact I).
      le_split Hle; reflexivity.
  - (* IPulse *)
    apply andb_true_iff in Hwf as [Hf Hw].
    assert (Hp : p_pulse blocking (print_frame f ++ print_waveform w ++ rest)
                 = Ok (IPulse blocking f w) rest).
    { unfold p_pulse. rewrite (p_frame_rt f _ Hf). cbn [bind].
      rewrite (p_waveform_rt w _ Hw (line_end_wstop rest Hle)). reflexivity. }
    destruct blocking; cbn [print_instr print_blocking app p_instruction p_command];
      rewrite <- !app_assoc; exact Hp.
  - (* IRawCapture *)
    apply andb_true_iff in Hwf as [Hwf Hcls]. apply andb_true_iff in Hwf as [Hf Hd].
    apply negb_true_iff in Hcls. unfold rawcapture_region_i in Hcls.
    assert (Hr : p_raw_capture blocking (print_frame f ++ print_e d ++ print_memref m ++ rest)
                 = Ok (IRawCapture blocking f d m) rest).
    { unfold p_raw_capture. rewrite (p_frame_rt f _ Hf). cbn [bind].
      rewrite (p_expr_rt_gen d _ Hd).
      - cbn [bind]. rewrite p_memref_rt. reflexivity.
      - destruct m as [x i]. cbn [print_memref fst snd app okG] in *.
        destruct x as [[]| |]; try exact I. cbn [is_i andb] in Hcls. exact Hcls.
      - destruct m; exact I. }
    destruct blocking; cbn [print_instr print_blocking app p_instruction p_command];
      rewrite <- !app_assoc; exact Hr.
  - (* IReset *)
    cbn [print_instr app p_instruction p_command].
    destruct q as [[k|x]|]; cbn [app print_qubit p_qubit]; try reflexivity.
    le_split Hle; reflexivity.
  - (* IFrameSet *)
    apply andb_true_iff in Hwf as [Hwf He]. apply andb_true_iff in Hwf as [Hc Hf].
    destruct c; try discriminate Hc; cbn [print_instr app p_instruction p_command];
      unfold p_frame_expr; rewrite <- !app_assoc, (p_frame_rt f _ Hf); cbn [bind];
      rewrite (p_expr_rt e rest He Hstop); reflexivity.
  - (* ISwapPhases *)
    apply andb_true_iff in Hwf as [Ha Hb].
    cbn [print_instr app p_instruction p_command].
    rewrite <- !app_assoc, (p_frame_rt a _ Ha); cbn [bind]. rewrite (p_frame_rt b _ Hb). reflexivity.
Qed.

(** * CALL built through the API *)

Lemma xarg_print : forall a, wf_xarg a = true -> call_immediate_sign a = false ->
  print_xarg a = print_callarg (xarg_parsed a) /\ wf_callarg (xarg_parsed a) = true.
Proof.
  intros [m|x|[rn ra inn ia]] Hwf Hc; cbn [print_xarg xarg_parsed]; auto.
  cbn [wf_xarg call_immediate_sign re_neg re_abs im_neg im_abs] in *.
  apply andb_true_iff in Hwf as [Hr Hi].
  unfold print_complex. cbn [re_neg re_abs im_neg im_abs].
  destruct (is_zero ia) eqn:Zi; destruct (is_zero ra) eqn:Zr; destruct rn, inn; cbn in Hc;
    try discriminate; cbn [andb app print_callarg wf_callarg];
    try (assert (ia = VInt 0) as -> by (destruct ia as [[]| |]; try discriminate; reflexivity));
    try (assert (ra = VInt 0) as -> by (destruct ra as [[]| |]; try discriminate; reflexivity));
    try (split; reflexivity).
  - split; [reflexivity|]. rewrite Hr. destruct ra as [[]| |]; try discriminate; reflexivity.
  - split; [reflexivity|]. rewrite Hr. destruct ra as [[]| |]; try discriminate; reflexivity.
  - split; [reflexivity|]. rewrite Hi. destruct ia as [[]| |]; try discriminate; reflexivity.
  - split; [reflexivity|]. rewrite Hi. destruct ia as [[]| |]; try discriminate; reflexivity.
Qed.

Lemma xcall_print : forall args, forallb wf_xarg args = true -> existsb call_immediate_sign args = false ->
  flat_map print_xarg args = flat_map print_callarg (map xarg_parsed args)
  /\ forallb wf_callarg (map xarg_parsed args) = true.
Proof.
  induction args as [|a t IH]; intros Hwf Hc; [split; reflexivity|].
  cbn [forallb existsb] in *. apply andb_true_iff in Hwf as [Ha Ht]. apply orb_false_iff in Hc as [Hca Hct].
  destruct (xarg_print a Ha Hca) as [Hp Hw]. destruct (IH Ht Hct) as [Hp' Hw'].
  cbn [flat_map map forallb]. rewrite Hp, Hp', Hw, Hw'. split; reflexivity.
Qed.

(** an API-built CALL outside the two finding classes prints to tokens that parse back to it *)
Theorem xcall_rt : forall name args rest, wf_xcall args = true -> line_end rest ->
  p_instruction Repaired (print_xcall name args ++ rest) = Ok (ICall name (map xarg_parsed args)) rest.
Proof.
  intros name args rest Hwf Hle. unfold wf_xcall in Hwf.
  apply andb_true_iff in Hwf as [Hwf Hti]. apply andb_true_iff in Hwf as [Hw Hc].
  apply negb_true_iff in Hc. destruct (xcall_print args Hw Hc) as [Hp Hw'].
  unfold print_xcall. rewrite Hp.
  change (TCmd CCall :: TId name :: flat_map print_callarg (map xarg_parsed args))
    with (print_instr (ICall name (map xarg_parsed args))).
  apply instr_rt; [|exact Hle]. cbn [wf_instr]. rewrite Hw', Hti. reflexivity.
Qed.

(** * Programs *)

Definition starts_instr (ts : list tok) : Prop :=
  match ts with
  | TCmd _ :: _ | TId _ :: _ | TModifier _ :: _ | TNonBlocking :: _ => True
  | _ => False
  end.

Lemma print_instr_head : forall i, wf_instr i = true -> forall rest, starts_instr (print_instr i ++ rest).
Proof.
  intros i Hwf rest.
  destruct i as [| | | | |b| | | | | |mods| | | | | | | | | | | | | |b|b| | |];
    cbn [wf_instr] in Hwf; try discriminate; try (destruct b); try (destruct mods); cbn; auto.
Qed.

Lemma skip_starts : forall ts, starts_instr ts -> skip ts = ts.
Proof. intros [|[] ts] H; cbn in H; try contradiction; reflexivity. Qed.

Lemma loop_newline : forall f X,
  p_program_loop Repaired f (TNewLine :: X) = p_program_loop Repaired f X.
Proof. intros [|f] X; reflexivity. Qed.

Lemma loop_step : forall f i rest, wf_instr i = true -> line_end rest ->
  p_program_loop Repaired (S f) (print_instr i ++ rest) =
  match p_program_loop Repaired f rest with
  | Ok l r' => Ok (i :: l) r'
  | o => o
  end.
Proof.
  intros f i rest Hwf Hle. cbn [p_program_loop].
  pose proof (print_instr_head i Hwf rest) as Hs. rewrite (skip_starts _ Hs).
  pose proof (instr_rt i rest Hwf Hle) as Hi.
  destruct (print_instr i ++ rest) as [|t ts]; [contradiction|]. rewrite Hi. reflexivity.
Qed.

Lemma program_loop_rt : forall l, forallb wf_instr l = true ->
  forall f, length l < f -> p_program_loop Repaired f (print_program l) = Ok l [].
Proof.
  induction l as [|i l IH]; intros Hwf f Hf; cbn [length] in Hf; (destruct f as [|f]; [lia|]).
  - reflexivity.
  - cbn [forallb] in Hwf. apply andb_true_iff in Hwf as [Hi Hl].
    cbn [print_program flat_map]. fold (print_program l). rewrite <- app_assoc. cbn [app].
    rewrite (loop_step f i (TNewLine :: print_program l) Hi I). rewrite loop_newline. rewrite (IH Hl f) by lia. reflexivity.
Qed.

Lemma print_program_len : forall l, length l <= length (print_program l).
Proof.
  induction l as [|i l IH]; cbn [print_program flat_map length]; [lia|].
  fold (print_program l). rewrite !app_length. cbn [length]. lia.
Qed.

(** a well-formed program of fragment instructions, printed one instruction per line, parses back
    to itself *)
Theorem program_rt : forall l, forallb wf_instr l = true ->
  p_program Repaired (print_program l) = Ok l [].
Proof.
  intros l Hwf. unfold p_program. apply program_loop_rt; auto.
  pose proof (print_program_len l). lia.
Qed.

(** a single instruction without a trailing newline (the text of [Instruction::to_quil]) *)
Theorem single_rt : forall i, wf_instr i = true -> p_program Repaired (print_instr i) = Ok [i] [].
Proof.
  intros i Hwf. unfold p_program.
  rewrite <- (app_nil_r (print_instr i)) at 2.
  rewrite (loop_step _ i [] Hwf I). destruct (length (print_instr i)); reflexivity.
Qed.

(** * Block definitions *)

(** what may follow a printed definition: the end of the input, or a line that is not indented *)
Definition block_end (rest : list tok) : Prop :=
  match rest with
  | [] => True
  | TNewLine :: TIndent :: _ => False
  | TNewLine :: _ => True
  | _ => False
  end.

Lemma block_end_line_end : forall rest, block_end rest -> line_end rest.
Proof. intros [|[] rest] H; cbn in H; try contradiction; exact I. Qed.

Lemma print_body_line_end : forall body rest, block_end rest -> line_end (print_body body ++ rest).
Proof. intros [|i t] rest H; [apply block_end_line_end; exact H | exact I]. Qed.

Lemma p_body_S : forall f r,
  p_body Repaired (S f) (TNewLine :: TIndent :: r) =
  match skip r with
  | [] => Ok [] (TNewLine :: TIndent :: r)
  | r1 =>
      match p_instruction Repaired r1 with
      | Ok i r2 =>
          match p_body Repaired f r2 with
          | Ok l r3 => Ok (i :: l) r3
          | o => o
          end
      | Err => Err | Panic => Panic | Unk => Unk | Fuel => Fuel
      end
  end.
Proof. reflexivity. Qed.

Lemma p_body_end : forall f rest, block_end rest -> p_body Repaired (S f) rest = Ok [] rest.
Proof.
  intros f [|t0 [|t1 rest]] H; try reflexivity.
  - destruct t0; try contradiction; reflexivity.
  - destruct t0; try contradiction. destruct t1; try contradiction; reflexivity.
Qed.

Lemma p_body_rt : forall body, forallb wf_instr body = true ->
  forall f rest, block_end rest -> length body < f ->
    p_body Repaired f (print_body body ++ rest) = Ok body rest.
Proof.
  induction body as [|i t IH]; intros Hwf f rest Hbe Hf; cbn [length] in Hf; (destruct f as [|f]; [lia|]).
  - apply p_body_end; exact Hbe.
  - cbn [forallb] in Hwf. apply andb_true_iff in Hwf as [Hi Ht].
    cbn [print_body flat_map]. fold (print_body t). cbn [app]. rewrite <- app_assoc.
    rewrite p_body_S.
    pose proof (print_instr_head i Hi (print_body t ++ rest)) as Hs. rewrite (skip_starts _ Hs).
    pose proof (instr_rt i (print_body t ++ rest) Hi (print_body_line_end t rest Hbe)) as Hp.
    destruct (print_instr i ++ print_body t ++ rest) as [|t0 ts0]; [contradiction|].
    rewrite Hp. rewrite (IH Ht f rest Hbe) by lia. reflexivity.
Qed.

Lemma print_body_len : forall l, length l <= length (print_body l).
Proof.
  induction l as [|i l IH]; cbn [print_body flat_map length]; [lia|].
  fold (print_body l). rewrite app_length. cbn [length]. lia.
Qed.

Lemma p_block_rt : forall body rest, nonempty body = true -> forallb wf_instr body = true ->
  block_end rest -> p_block Repaired (print_body body ++ rest) = Ok body rest.
Proof.
  intros body rest Hne Hwf Hbe. unfold p_block. rewrite (p_body_rt body Hwf).
  - destruct body; [discriminate|reflexivity].
  - exact Hbe.
  - rewrite app_length. pose proof (print_body_len body). lia.
Qed.

Lemma gate_head_rt : forall mods name ps qs rest, forallb wf_expr ps = true ->
  p_gate (map TModifier mods ++ TId name :: print_params ps ++ map print_qubit qs ++ TColon :: rest)
  = Ok (IGate mods name ps qs) (TColon :: rest).
Proof.
  intros mods name ps qs rest Hwf. unfold p_gate.
  rewrite p_modifiers_rt by exact I. rewrite p_params_rt.
  - cbn [bind]. rewrite p_qubits_rt by exact I. reflexivity.
  - exact Hwf.
  - intros _. destruct qs as [|[] qs]; cbn [map app print_qubit]; exact I.
Qed.

Definition vars_tail (l : list ident) : list tok := flat_map (fun x => [TComma; TVar x]) l.

Lemma sep_vars_cons : forall x t, sep_vars (x :: t) = TVar x :: vars_tail t.
Proof.
  intros x t; revert x; induction t as [|y t IH]; intros x; [reflexivity|].
  change (sep_vars (x :: y :: t)) with (TVar x :: TComma :: sep_vars (y :: t)). rewrite IH. reflexivity.
Qed.

Lemma p_vars_tail_rt : forall l rest,
  p_vars_tail (vars_tail l ++ TRParen :: rest) = (l, TRParen :: rest).
Proof.
  induction l as [|x l IH]; intros rest; [reflexivity|].
  cbn [vars_tail flat_map app p_vars_tail]. fold (vars_tail l). rewrite IH. reflexivity.
Qed.

Lemma p_var_params_rt : forall ps rest,
  (ps = [] -> match rest with TLParen :: _ => False | _ => True end) ->
  p_var_params (print_var_params ps ++ rest) = (ps, rest).
Proof.
  intros [|x t] rest Hr.
  - specialize (Hr eq_refl). cbn [print_var_params app].
    destruct rest as [|[] rest]; try contradiction; reflexivity.
  - unfold print_var_params. rewrite sep_vars_cons. cbn [app]. rewrite <- app_assoc. cbn [app].
    cbn [p_var_params]. rewrite p_vars_tail_rt. reflexivity.
Qed.

Lemma p_qvars_rt : forall l rest,
  match rest with TVar _ :: _ | TId _ :: _ => False | _ => True end ->
  p_qvars (map TId l ++ rest) = (l, rest).
Proof.
  induction l as [|x l IH]; intros rest H; cbn [map app].
  - destruct rest as [|[] rest]; try contradiction; reflexivity.
  - cbn [p_qvars]. rewrite (IH rest H). reflexivity.
Qed.

Lemma attrs_line_end : forall l rest, block_end rest -> line_end (flat_map print_attr l ++ rest).
Proof. intros [|a l] rest H; [apply block_end_line_end; exact H | exact I]. Qed.

Lemma p_attrs_end : forall f rest, block_end rest -> p_attrs (S f) rest = Ok [] rest.
Proof.
  intros f [|t0 [|t1 rest]] H; try reflexivity.
  - destruct t0; reflexivity.
  - destruct t0; try contradiction. destruct t1; try contradiction; reflexivity.
Qed.

Lemma p_attrs_rt : forall attrs, forallb wf_attr attrs = true ->
  forall f rest, block_end rest -> length attrs < f ->
    p_attrs f (flat_map print_attr attrs ++ rest) = Ok attrs rest.
Proof.
  induction attrs as [|[k v] t IH]; intros Hwf f rest Hbe Hf; cbn [length] in Hf; (destruct f as [|f]; [lia|]).
  - apply p_attrs_end; exact Hbe.
  - cbn [forallb] in Hwf. apply andb_true_iff in Hwf as [Hv Ht].
    cbn [flat_map]. unfold print_attr at 1. cbn [fst snd].
    destruct v as [s|e].
    + cbn [app p_attrs]. rewrite (IH Ht f rest Hbe) by lia. reflexivity.
    + unfold wf_attr in Hv. cbn [snd] in Hv.
      pose proof (p_expr_rt e _ Hv (line_end_stop _ (attrs_line_end t rest Hbe))) as Hpe.
      pose proof (print_e_head e) as Hh.
      cbn [app]. rewrite <- app_assoc.
      destruct (print_e e) as [|t0 pe]; [contradiction|]. cbn [app] in *.
      destruct t0; try contradiction; try (destruct o; try contradiction);
        cbn [p_attrs]; rewrite Hpe; rewrite (IH Ht f rest Hbe) by lia; reflexivity.
Qed.

Lemma attrs_len : forall l, length l <= length (flat_map print_attr l).
Proof.
  induction l as [|a l IH]; cbn [flat_map length]; [lia|]. rewrite app_length.
  unfold print_attr at 1. cbn [length]. lia.
Qed.

(** [separated_list1] of expressions followed by anything that ends an expression and is not a comma *)
Lemma p_expr_list_tail_gen : forall l, forallb wf_expr l = true ->
  forall f rest, stop rest -> match rest with TComma :: _ => False | _ => True end -> length l < f ->
    p_expr_list_tail f (tail_toks l ++ rest) = Ok l rest.
Proof.
  induction l as [|e l IH]; intros Hwf f rest Hs Hc Hf; cbn [length] in Hf; (destruct f as [|f]; [lia|]).
  - cbn [tail_toks flat_map app]. destruct rest as [|[] rest]; try contradiction; reflexivity.
  - cbn [forallb] in Hwf. apply andb_true_iff in Hwf as [He Hl].
    cbn [tail_toks flat_map]. fold (tail_toks l). cbn [app p_expr_list_tail].
    rewrite <- app_assoc.
    assert (Hs' : stop (tail_toks l ++ rest)) by (destruct l; [exact Hs | cbn; repeat split]).
    rewrite (p_expr_rt e _ He Hs').
    rewrite (IH Hl f rest Hs Hc) by lia. reflexivity.
Qed.

Lemma p_expr_list1_rt : forall es rest, nonempty es = true -> forallb wf_expr es = true ->
  stop rest -> match rest with TComma :: _ => False | _ => True end ->
  p_expr_list1 (sep_exprs es ++ rest) = Ok es rest.
Proof.
  intros [|e t] rest Hne Hwf Hs Hc; [discriminate|].
  cbn [forallb] in Hwf. apply andb_true_iff in Hwf as [He Ht].
  rewrite sep_exprs_cons. rewrite <- app_assoc. unfold p_expr_list1, p_expr_list.
  assert (Hs' : stop (tail_toks t ++ rest)) by (destruct t; [exact Hs | cbn; repeat split]).
  rewrite (p_expr_rt e _ He Hs').
  rewrite (p_expr_list_tail_gen t Ht _ rest Hs Hc).
  - reflexivity.
  - rewrite app_length. pose proof (tail_toks_len t). lia.
Qed.

Lemma flat_map_len : forall (A : Type) (pr : A -> list tok) (xs : list A),
  length xs <= length (flat_map (fun x => TNewLine :: TIndent :: pr x) xs).
Proof.
  intros A pr xs. induction xs as [|x t IH]; cbn [flat_map length]; [lia|].
  rewrite app_length. cbn [length]. lia.
Qed.

(** ** DEFGATE *)

Definition spec_lines {A} (pr : A -> list tok) (xs : list A) : list tok :=
  flat_map (fun x => TNewLine :: TIndent :: pr x) xs.

Lemma p_lines_rt : forall (A : Type) (pe : list tok -> res A) (pr : A -> list tok) (good : A -> Prop),
  (forall x more, good x -> line_end more -> pe (pr x ++ more) = Ok x more) ->
  forall xs, Forall good xs -> forall x0 f rest, good x0 -> block_end rest -> length xs < f ->
    p_lines pe f (TIndent :: pr x0 ++ spec_lines pr xs ++ rest) = Ok (x0 :: xs) rest.
Proof.
  intros A pe pr good Hpe xs Hxs. induction Hxs as [|x1 t Hx1 Ht IH]; intros x0 f rest Hx0 Hbe Hf;
    cbn [length] in Hf; (destruct f as [|f]; [lia|]).
  - cbn [spec_lines flat_map app p_lines].
    rewrite (Hpe x0 rest Hx0 (block_end_line_end rest Hbe)). cbn [bind].
    destruct rest as [|t0 [|t1 rest]]; try reflexivity.
    + destruct t0; reflexivity.
    + destruct t0; try reflexivity. destruct t1; try reflexivity. contradiction.
  - cbn [spec_lines flat_map]. fold (spec_lines pr t). cbn [p_lines].
    rewrite <- app_assoc. cbn [app].
    rewrite (Hpe x0 (TNewLine :: TIndent :: pr x1 ++ spec_lines pr t ++ rest) Hx0 I). cbn [bind].
    rewrite (IH x1 f rest Hx1 Hbe) by lia. reflexivity.
Qed.

Lemma p_spec_lines_rt : forall (A : Type) (pe : list tok -> res A) (pr : A -> list tok) (good : A -> Prop),
  (forall x more, good x -> line_end more -> pe (pr x ++ more) = Ok x more) ->
  forall xs rest, nonempty xs = true -> Forall good xs -> block_end rest ->
    p_spec_lines pe (spec_lines pr xs ++ rest) = Ok xs rest.
Proof.
  intros A pe pr good Hpe [|x0 t] rest Hne Hxs Hbe; [discriminate|].
  inversion Hxs as [|? ? Hx0 Ht]; subst.
  cbn [spec_lines flat_map]. fold (spec_lines pr t). cbn [app p_spec_lines]. rewrite <- app_assoc.
  apply (p_lines_rt A pe pr good Hpe t Ht x0 _ rest Hx0 Hbe).
  cbn [length]. rewrite !app_length. pose proof (flat_map_len A pr t) as Hl.
  unfold spec_lines. lia.
Qed.

Lemma skip_indents_print_e : forall e rest, skip_indents (print_e e ++ rest) = print_e e ++ rest.
Proof.
  intros e rest. pose proof (print_e_head e) as H.
  destruct (print_e e) as [|t0 pe]; [contradiction|]. destruct t0; try contradiction; reflexivity.
Qed.

Lemma p_row_tail_rt : forall l, forallb wf_expr l = true ->
  forall f rest, line_end rest -> length l < f ->
    p_row_tail f (tail_toks l ++ rest) = Ok l rest.
Proof.
  induction l as [|e l IH]; intros Hwf f rest Hle Hf; cbn [length] in Hf; (destruct f as [|f]; [lia|]).
  - cbn [tail_toks flat_map app]. le_split Hle; reflexivity.
  - cbn [forallb] in Hwf. apply andb_true_iff in Hwf as [He Hl].
    cbn [tail_toks flat_map]. fold (tail_toks l). cbn [app p_row_tail].
    rewrite <- app_assoc. rewrite skip_indents_print_e.
    assert (Hs' : stop (tail_toks l ++ rest))
      by (destruct l; [apply line_end_stop; exact Hle | cbn; repeat split]).
    rewrite (p_expr_rt e _ He Hs').
    rewrite (IH Hl f rest Hle) by lia. reflexivity.
Qed.

Lemma p_row_rt : forall row more, forallb wf_expr row = true -> line_end more ->
  p_row (sep_exprs row ++ more) = Ok row more.
Proof.
  intros [|e t] more Hwf Hle.
  - cbn [sep_exprs app]. unfold p_row. rewrite (p_expr_line_end more Hle). reflexivity.
  - cbn [forallb] in Hwf. apply andb_true_iff in Hwf as [He Ht].
    rewrite sep_exprs_cons. rewrite <- app_assoc. unfold p_row.
    assert (Hs' : stop (tail_toks t ++ more))
      by (destruct t; [apply line_end_stop; exact Hle | cbn; repeat split]).
    rewrite (p_expr_rt e _ He Hs'). rewrite (p_row_tail_rt t Ht _ more Hle).
    + reflexivity.
    + rewrite app_length. pose proof (tail_toks_len t). lia.
Qed.

Lemma p_idents_rt : forall l rest, match rest with TId _ :: _ => False | _ => True end ->
  p_idents (map TId l ++ rest) = (l, rest).
Proof.
  induction l as [|x l IH]; intros rest H; cbn [map app].
  - destruct rest as [|[] rest]; try contradiction; reflexivity.
  - cbn [p_idents]. rewrite (IH rest H). reflexivity.
Qed.

Definition pauli_toks (t : ident * expr * list ident) : list tok :=
  let '(w, e, args) := t in TId w :: TLParen :: print_e e ++ TRParen :: map TId args.

Lemma p_pauli_term_rt : forall t more,
  wf_expr (snd (fst t)) && nonempty (snd t) = true -> line_end more ->
  p_pauli_term (pauli_toks t ++ more) = Ok t more.
Proof.
  intros [[w e] args] more Hwf Hle. cbn [fst snd] in Hwf. apply andb_true_iff in Hwf as [He Ha].
  cbn [pauli_toks app p_pauli_term]. rewrite <- app_assoc. cbn [app].
  rewrite (p_expr_rt e _ He (stop_rparen _)).
  rewrite p_idents_rt by (le_split Hle; exact I).
  destruct args; [discriminate|reflexivity].
Qed.

Lemma p_gate_rt : forall g more, is_gate g && wf_instr g = true -> line_end more ->
  p_gate (print_instr g ++ more) = Ok g more.
Proof.
  intros g more H Hle. apply andb_true_iff in H as [Hg Hwf].
  destruct g; try discriminate Hg. cbn [wf_instr] in Hwf. cbn [print_instr].
  rewrite <- !app_assoc. cbn [app]. unfold p_gate.
  rewrite p_modifiers_rt by exact I. rewrite <- app_assoc. rewrite p_params_rt.
  - cbn [bind]. rewrite (p_qubits_rt qs more (line_end_qstop more Hle)). reflexivity.
  - exact Hwf.
  - intros _. destruct qs as [|[] qs]; cbn [map app print_qubit]; try exact I. le_split Hle; exact I.
Qed.

Definition ints_tail (l : list N) : list tok := flat_map (fun n => [TComma; TInt n]) l.

Lemma sep_ints_cons : forall x t, sep_ints (x :: t) = TInt x :: ints_tail t.
Proof.
  intros x t; revert x; induction t as [|y t IH]; intros x; [reflexivity|].
  change (sep_ints (x :: y :: t)) with (TInt x :: TComma :: sep_ints (y :: t)). rewrite IH. reflexivity.
Qed.

Lemma p_ints_tail_rt : forall l rest, match rest with TComma :: _ => False | _ => True end ->
  p_ints_tail (ints_tail l ++ rest) = (l, rest).
Proof.
  induction l as [|x l IH]; intros rest H.
  - cbn [ints_tail flat_map app]. destruct rest as [|[] rest]; try contradiction; reflexivity.
  - cbn [ints_tail flat_map app p_ints_tail]. fold (ints_tail l). rewrite (IH rest H). reflexivity.
Qed.

Lemma forallb_Forall : forall (A : Type) (f : A -> bool) l, forallb f l = true -> Forall (fun x => f x = true) l.
Proof. intros A f l H. apply Forall_forall. intros x Hx. exact (proj1 (forallb_forall f l) H x Hx). Qed.

Lemma defgate_rt : forall name ps sp rest, wf_spec sp = true -> block_end rest ->
  p_defgate (TId name :: print_var_params ps ++ map TId (spec_args sp)
               ++ TAs :: spec_kind sp :: TColon :: print_spec sp ++ rest)
  = Ok (DefGate name ps sp) rest.
Proof.
  intros name ps sp rest Hwf Hbe. cbn [p_defgate].
  rewrite p_var_params_rt by (intros _; destruct (spec_args sp); exact I).
  rewrite p_idents_rt by exact I.
  destruct sp as [rows|perm|args terms|args gates]; cbn [spec_kind spec_args print_spec wf_spec p_colon bind] in *.
  - apply andb_true_iff in Hwf as [Hne Hr].
    change (flat_map (fun row => TNewLine :: TIndent :: sep_exprs row) rows) with (spec_lines sep_exprs rows).
    rewrite (p_spec_lines_rt _ p_row sep_exprs (fun row => forallb wf_expr row = true) p_row_rt rows rest Hne
               (forallb_Forall _ _ rows Hr) Hbe).
    reflexivity.
  - destruct perm as [|n t]; [discriminate|]. rewrite sep_ints_cons. cbn [app p_permutation].
    rewrite p_ints_tail_rt by (destruct rest as [|[] rest]; cbn in Hbe; try contradiction; exact I).
    reflexivity.
  - apply andb_true_iff in Hwf as [Hne Ht].
    assert (Heq : flat_map print_pauli_term terms = spec_lines pauli_toks terms).
    { clear. induction terms as [|[[w e] a] t IH]; [reflexivity|]. cbn [flat_map spec_lines]. fold (spec_lines pauli_toks t).
      rewrite IH. reflexivity. }
    rewrite Heq.
    rewrite (p_spec_lines_rt _ p_pauli_term pauli_toks _ p_pauli_term_rt terms rest Hne
               (forallb_Forall _ _ terms Ht) Hbe).
    reflexivity.
  - apply andb_true_iff in Hwf as [Hne Hg].
    change (print_body gates) with (spec_lines print_instr gates).
    rewrite (p_spec_lines_rt _ p_gate print_instr _ p_gate_rt gates rest Hne
               (forallb_Forall _ _ gates Hg) Hbe).
    reflexivity.
Qed.

(** a printed plain instruction never starts like a definition *)
Lemma p_item_plain : forall i rest, wf_instr i = true ->
  p_item Repaired (print_instr i ++ rest)
  = bind (p_instruction Repaired (print_instr i ++ rest)) (fun i r => Ok (Plain i) r).
Proof.
  intros i rest Hwf.
  destruct i as [c ? ?|c ? ?|c ? ? ?|c ?| |b| | | | | |mods| | | | | | | | | | | | | |b|b| |c ? ?|];
    cbn [wf_instr] in Hwf;
    try (destruct c; try discriminate Hwf); try (destruct b); try (destruct mods); reflexivity.
Qed.

Ltac norm_app := repeat (rewrite <- app_assoc; cbn [app]).

Theorem item_rt : forall it rest, wf_item it = true -> block_end rest ->
  p_item Repaired (print_core it ++ rest) = Ok it rest.
Proof.
  intros it rest Hwf Hbe. destruct it as [i|gname gps sp|mods name ps qs body|name q target body|name ps qvars body|f attrs|name ext ps entries];
    cbn [wf_item] in Hwf.
  - (* Plain *)
    cbn [print_core]. rewrite (p_item_plain i rest Hwf).
    rewrite (instr_rt i rest Hwf (block_end_line_end rest Hbe)). reflexivity.
  - (* DefGate *)
    cbn [print_core app p_item]. norm_app. apply defgate_rt; assumption.
  - (* DefCal *)
    apply andb_true_iff in Hwf as [Hwf Hb]. apply andb_true_iff in Hwf as [Hps Hne].
    cbn [print_core app].
    assert (Hd : forall X, p_item Repaired (TCmd CDefCal :: map TModifier mods ++ TId name :: X)
                           = p_defcal_gate Repaired (map TModifier mods ++ TId name :: X))
      by (intros; destruct mods; reflexivity).
    norm_app. rewrite Hd. unfold p_defcal_gate. rewrite (gate_head_rt mods name ps qs _ Hps).
    cbn [p_colon bind]. rewrite (p_block_rt body rest Hne Hb Hbe). reflexivity.
  - (* DefCalMeasure *)
    apply andb_true_iff in Hwf as [Hne Hb].
    destruct name as [n|]; destruct q as [k|x]; destruct target as [t|];
      cbn [print_core app print_qubit p_item p_defcal_measure p_qubit bind p_colon];
      rewrite (p_block_rt body rest Hne Hb Hbe); reflexivity.
  - (* DefCircuit *)
    apply andb_true_iff in Hwf as [Hne Hb].
    cbn [print_core app p_item p_defcircuit]. norm_app.
    rewrite p_var_params_rt by (intros _; destruct qvars; exact I).
    rewrite p_qvars_rt by exact I. cbn [p_colon bind].
    rewrite (p_block_rt body rest Hne Hb Hbe). reflexivity.
  - (* DefFrame *)
    apply andb_true_iff in Hwf as [Hwf Ha]. apply andb_true_iff in Hwf as [Hwf _].
    apply andb_true_iff in Hwf as [Hf Hne].
    cbn [print_core app p_item]. unfold p_defframe. norm_app.
    rewrite (p_frame_rt f _ Hf). cbn [bind p_colon].
    rewrite (p_attrs_rt attrs Ha).
    + destruct attrs; [discriminate|reflexivity].
    + exact Hbe.
    + rewrite app_length. pose proof (attrs_len attrs). lia.
  - (* DefWaveform *)
    apply andb_true_iff in Hwf as [Hne Hes].
    assert (Hs : stop rest) by (apply line_end_stop, block_end_line_end; exact Hbe).
    assert (Hc : match rest with TComma :: _ => False | _ => True end)
      by (destruct rest as [|[] rest]; cbn in Hbe; try contradiction; exact I).
    cbn [print_core app p_item p_defwaveform]. norm_app.
    destruct ext as [x|]; cbn [app wf_ext].
    + rewrite p_var_params_rt by (intros _; exact I).
      rewrite (p_expr_list1_rt entries rest Hne Hes Hs Hc). reflexivity.
    + assert (Hx : wf_ext (print_var_params ps ++ TColon :: TNewLine :: TIndent :: sep_exprs entries ++ rest) = None)
        by (destruct ps; reflexivity).
      rewrite Hx. rewrite p_var_params_rt by (intros _; exact I).
      rewrite (p_expr_list1_rt entries rest Hne Hes Hs Hc). reflexivity.
Qed.

(** ** Programs of items *)

Lemma print_core_head : forall it, wf_item it = true -> forall rest, starts_instr (print_core it ++ rest).
Proof.
  intros [i| | | | | |] Hwf rest; try exact I. apply print_instr_head; exact Hwf.
Qed.

Lemma items_loop_step : forall f it rest, wf_item it = true -> block_end rest ->
  p_items_loop Repaired (S f) (print_core it ++ rest) =
  match p_items_loop Repaired f rest with
  | Ok l r' => Ok (it :: l) r'
  | o => o
  end.
Proof.
  intros f it rest Hwf Hbe. cbn [p_items_loop].
  pose proof (print_core_head it Hwf rest) as Hs. rewrite (skip_starts _ Hs).
  pose proof (item_rt it rest Hwf Hbe) as Hi.
  destruct (print_core it ++ rest) as [|t ts]; [contradiction|]. rewrite Hi. reflexivity.
Qed.

Lemma items_loop_newline : forall f X,
  p_items_loop Repaired f (TNewLine :: X) = p_items_loop Repaired f X.
Proof. intros [|f] X; reflexivity. Qed.

Lemma print_items_block_end : forall l, forallb wf_item l = true -> block_end (TNewLine :: print_items l).
Proof.
  intros [|it l] H; [exact I|]. cbn [forallb] in H. apply andb_true_iff in H as [Hi _].
  cbn [print_items flat_map]. rewrite <- app_assoc.
  pose proof (print_core_head it Hi ([TNewLine] ++ flat_map (fun it0 => print_core it0 ++ [TNewLine]) l)) as Hs.
  destruct (print_core it ++ [TNewLine] ++ _) as [|[] ?]; cbn in Hs; try contradiction; exact I.
Qed.

Lemma items_loop_rt : forall l, forallb wf_item l = true ->
  forall f, length l < f -> p_items_loop Repaired f (print_items l) = Ok l [].
Proof.
  induction l as [|it l IH]; intros Hwf f Hf; cbn [length] in Hf; (destruct f as [|f]; [lia|]).
  - reflexivity.
  - pose proof Hwf as Hwf0. cbn [forallb] in Hwf. apply andb_true_iff in Hwf as [Hi Hl].
    cbn [print_items flat_map]. fold (print_items l). rewrite <- app_assoc. cbn [app].
    rewrite (items_loop_step f it (TNewLine :: print_items l) Hi (print_items_block_end l Hl)).
    rewrite items_loop_newline. rewrite (IH Hl f) by lia. reflexivity.
Qed.

Lemma print_items_len : forall l, length l <= length (print_items l).
Proof.
  induction l as [|i l IH]; cbn [print_items flat_map length]; [lia|].
  fold (print_items l). rewrite !app_length. cbn [length]. lia.
Qed.

(** a program of well-formed items (plain instructions and block definitions), printed as
    [Program::to_quil] does, parses back to itself *)
Theorem items_rt : forall l, forallb wf_item l = true -> p_items Repaired (print_items l) = Ok l [].
Proof.
  intros l Hwf. unfold p_items. apply items_loop_rt; auto.
  pose proof (print_items_len l). lia.
Qed.

(** a single item as [Instruction::to_quil] prints it (with the trailing newline of DEFCAL
    MEASURE / DEFCIRCUIT) *)
Theorem single_item_rt : forall it, wf_item it = true -> p_items Repaired (print_item it) = Ok [it] [].
Proof.
  intros it Hwf. unfold p_items, print_item.
  assert (Hbe : block_end (print_trail it)) by (destruct it; exact I).
  rewrite (items_loop_step _ it (print_trail it) Hwf Hbe).
  destruct it; cbn [print_trail]; destruct (length _); reflexivity.
Qed.

(** * The instance checker *)

Lemma ident_eqb_eq : forall a b, ident_eqb a b = true -> a = b.
Proof.
  intros [r|r|n] [s|s|m] H; cbn in H; try discriminate.
  - f_equal. now apply internal_reserved_dec_bl.
  - f_equal. now apply internal_reserved_dec_bl.
  - f_equal. now apply N.eqb_eq.
Qed.

Lemma flit_eqb_eq : forall a b, flit_eqb a b = true -> a = b.
Proof. intros [n|n|n] [m|m|m] H; cbn in H; try discriminate; f_equal; now apply N.eqb_eq. Qed.

Lemma tok_eqb_eq : forall a b, tok_eqb a b = true -> a = b.
Proof.
  intros a b H; destruct a, b; cbn in H; try discriminate; try reflexivity; f_equal;
    first [ now apply internal_cmd_dec_bl | now apply internal_dtype_dec_bl
          | now apply internal_modifier_dec_bl | now apply internal_iop_dec_bl
          | now apply ident_eqb_eq | now apply N.eqb_eq | now apply flit_eqb_eq ].
Qed.

Lemma toks_eqb_eq : forall a b, toks_eqb a b = true -> a = b.
Proof.
  induction a as [|x a IH]; intros [|y b] H; cbn in H; try discriminate; auto.
  apply andb_true_iff in H as [H1 H2]. f_equal; [now apply tok_eqb_eq | now apply IH].
Qed.

(** a fragment case accepted by the checker: the tokens the implementation printed are exactly
    the model's print of a well-formed instruction, they parse (in the model) to exactly the
    implementation's AST, and the real chain reported equal programs and equal texts *)
Theorem case_code_sound : forall t1 i1 t2 b d,
  case_code (CFrag t1 i1 t2 b d) = 0%N ->
  wf_instr i1 = true /\ t2 = print_instr i1 /\
  p_program Repaired t2 = Ok [i1] [] /\ b = true /\ d = true.
Proof.
  intros t1 i1 t2 b d H. unfold case_code in H.
  destruct (b && d) eqn:Hbd; cbn [negb] in H; [|discriminate].
  destruct (parses_to t2 i1); cbn [negb] in H; [|discriminate].
  destruct (wf_instr i1 && toks_eqb (print_instr i1) t2) eqn:Hw; cbn [negb] in H; [|discriminate].
  apply andb_true_iff in Hw as [Hwf Heq]. apply toks_eqb_eq in Heq. subst t2.
  apply andb_true_iff in Hbd as [-> ->].
  repeat split; auto. apply single_rt; exact Hwf.
Qed.

Theorem item_code_sound : forall t1 it1 t2 b d,
  case_code (CItem t1 it1 t2 b d) = 0%N ->
  wf_item it1 = true /\ t2 = print_item it1 /\
  p_items Repaired t2 = Ok [it1] [] /\ b = true /\ d = true.
Proof.
  intros t1 it1 t2 b d H. unfold case_code in H.
  destruct (b && d) eqn:Hbd; cbn [negb] in H; [|discriminate].
  destruct (parses_to_item t2 it1); cbn [negb] in H; [|discriminate].
  destruct (wf_item it1 && toks_eqb (print_item it1) t2) eqn:Hw; cbn [negb] in H; [|discriminate].
  apply andb_true_iff in Hw as [Hwf Heq]. apply toks_eqb_eq in Heq. subst t2.
  apply andb_true_iff in Hbd as [-> ->].
  repeat split; auto. apply single_item_rt; exact Hwf.
Qed.

Theorem prog_code_sound : forall its t2 b d,
  case_code (CProg its t2 b d) = 0%N ->
  forallb wf_item its = true /\ t2 = print_items its /\
  p_items Repaired t2 = Ok its [] /\ b = true /\ d = true.
Proof.
  intros its t2 b d H. unfold case_code in H.
  destruct (b && d) eqn:Hbd; cbn [negb] in H; [|discriminate].
  destruct (parses_to_items t2 its); cbn [negb] in H; [|discriminate].
  destruct (forallb wf_item its && toks_eqb (print_items its) t2) eqn:Hw; cbn [negb] in H; [|discriminate].
  apply andb_true_iff in Hw as [Hwf Heq]. apply toks_eqb_eq in Heq. subst t2.
  apply andb_true_iff in Hbd as [-> ->].
  repeat split; auto. apply items_rt; exact Hwf.
Qed.

Theorem opaque_code_sound : forall a b d, case_code (COpaque a b d) = 0%N ->
  a = true /\ b = true /\ d = true.
Proof.
  intros a b d H. cbn in H. destruct a, b, d; cbn in H; try discriminate; auto.
Qed.

(** * C04: placeholders *)

Section NodeInd.
  Variable P : node -> Prop.
  Hypothesis HQ : forall b, P (NQ b).
  Hypothesis HL : forall b, P (NL b).
  Hypothesis HB : forall l, Forall P l -> P (NB l).
  Fixpoint node_ind' (n : node) : P n :=
    match n with
    | NQ b => HQ b
    | NL b => HL b
    | NB l => HB l ((fix go (l : list node) : Forall P l :=
                       match l with
                       | [] => Forall_nil P
                       | x :: t => Forall_cons x (node_ind' x) (go t)
                       end) l)
    end.
End NodeInd.

Lemma to_quil_model_leaves : forall n, to_quil_model n = first_some (leaves n).
Proof.
  induction n as [[]|[]|l IH] using node_ind'; try reflexivity.
  cbn [to_quil_model leaves]. induction IH as [|x t Hx _ IHt]; [reflexivity|].
  rewrite Hx, IHt. clear.
  induction (leaves x) as [|[e|] r IHr]; cbn [app first_some]; auto.
Qed.

Lemma to_quil_model_placeholder : forall n,
  to_quil_model n = None <-> has_placeholder n = false.
Proof.
  induction n as [[]|[]|l IH] using node_ind'; cbn [to_quil_model has_placeholder];
    try (split; congruence).
  induction IH as [|x t Hx _ IHt]; [split; reflexivity|].
  destruct (to_quil_model x) eqn:Hm.
  - split; [discriminate|]. intros H. apply orb_false_iff in H as [H _].
    apply Hx in H. discriminate.
  - assert (Hh : has_placeholder x = false) by (apply Hx; reflexivity). rewrite Hh. exact IHt.
Qed.

Theorem placeholder_iff : forall n,
  (exists e, to_quil_model n = Some e) <-> has_placeholder n = true.
Proof.
  intros n. pose proof (to_quil_model_placeholder n) as [H1 H2]. split.
  - intros [e He]. destruct (has_placeholder n); auto. rewrite (H2 eq_refl) in He. discriminate.
  - intros H. destruct (to_quil_model n) as [e|]; eauto. rewrite (H1 eq_refl) in H. discriminate.
Qed.

Lemma ph_code_sound : forall n r dbg rp, ph_code (n, r, dbg, rp) = 0%N ->
  (r = QOk <-> has_placeholder n = false) /\
  r = qres_of (to_quil_model n) /\ dbg = true /\
  (has_placeholder n = false -> rp = Some true).
Proof.
  intros n r dbg rp H. unfold ph_code in H.
  destruct (chk_placeholder (n, r, dbg, rp)) eqn:Hc; cbn [negb] in H; [|discriminate].
  destruct (qres_eqb (qres_of (to_quil_model n)) r) eqn:Hm; cbn [negb] in H; [|discriminate].
  unfold chk_placeholder in Hc.
  apply andb_true_iff in Hc as [Hc Hrp]. apply andb_true_iff in Hc as [Hc Hd].
  apply andb_true_iff in Hc as [Hiff _]. apply eqb_prop in Hiff.
  assert (Hr : r = qres_of (to_quil_model n))
    by (destruct r, (qres_of (to_quil_model n)); cbn in Hm; try discriminate; reflexivity).
  repeat split; auto.
  - intros ->. cbn in Hiff. auto.
  - intros Hn. rewrite Hn in Hiff. destruct r; cbn in Hiff; try discriminate; reflexivity.
  - intros Hn. rewrite Hn in Hrp. destruct rp as [[]|]; try discriminate; reflexivity.
Qed.

(** the C04 model comparison: a fragment with code 0 is a well-formed tree whose printed tokens are
    the model's print of it, they parse back to exactly the tree, and the real re-parse printed
    by the model gives the same tokens *)
Theorem frag_code_sound : forall a t j, frag_code (a, t, j) = 0%N ->
  wf_item a = true /\ t = print_item a /\ p_items Repaired t = Ok [a] [] /\
  exists j', j = Some j' /\ print_item j' = print_item a.
Proof.
  intros a t j H. unfold frag_code in H.
  destruct (parses_to_item t a); cbn [negb] in H; [|discriminate].
  destruct (wf_item a && toks_eqb (print_item a) t) eqn:Hw; cbn [negb] in H; [|discriminate].
  apply andb_true_iff in Hw as [Hwf Heq]. apply toks_eqb_eq in Heq. subst t.
  destruct j as [j|]; [|discriminate].
  destruct (toks_eqb (print_item j) (print_item a)) eqn:Hj; [|discriminate].
  apply toks_eqb_eq in Hj.
  repeat split; auto. { apply single_item_rt; exact Hwf. } exists j; auto.
Qed.

Theorem phx_code_sound : forall c f, phx_code (c, f) = 0%N ->
  ph_code c = 0%N /\ match f with Some fr => frag_code fr = 0%N | None => True end.
Proof.
  intros c f H. unfold phx_code in H. cbn [fst snd] in H.
  destruct f as [fr|]; split; try exact I; lia.
Qed.
