(** Proofs about Model/Simplify.v.

    Strategy.  [rw h a b] is the least pre-congruence on expressions containing one schematic
    rewrite per arm of the simplifier (each with the side condition the arm tests); [h] lists the
    exponents on which the arm [0^x -> 0] may be used.  Part 1 proves, one lemma per rewrite,
    that [rw] preserves values in every field-like algebra (unless a logged exponent evaluates to
    zero), never adds variables or memory references, and keeps pi-free expressions pi-free.
    Part 2 proves, one lemma per arm of the model, that the memoised, limit-bounded simplifier
    only ever performs [rw] steps (the cache invariant being that every binding is an [rw] step).
    The theorems of C12 combine the two. *)
From Coq Require Import List NArith Bool Arith Lia Field Ring.
From QV Require Import Model.Expr Model.Simplify.
Import ListNotations.

Section SimplifySound.
  Variable C : Type.
  Variables (c0 c1 : C) (cadd cmul csub : C -> C -> C) (copp : C -> C)
            (cdiv : C -> C -> C) (cinv : C -> C).
  Hypothesis Cfield : field_theory c0 c1 cadd cmul csub copp cdiv cinv (@eq C).
  Variable c_eq_dec : forall x y : C, {x = y} + {x <> y}.
  Variables cpi cnan : C.
  Variable cfun : efn -> C -> C.
  (** the power used by evaluation: partial (e.g. undefined for 0 to a negative power) *)
  Variable ppow : C -> C -> option C.
  (** the simplifier's [calculate_infix], [is_zero], [is_one], literal equality *)
  Variable cop : infix_op -> C -> C -> C.
  Variables is_zero is_one : C -> bool.
  Variable ceqb : C -> C -> bool.
  Variable M : Type.
  Variable mem_val : M -> C.

  Add Field CF : Cfield.

  (** Evaluation: + - * total, division undefined on a zero divisor, power as given. *)
  Definition pinfix (o : infix_op) (x y : C) : option C :=
    match o with
    | Plus => Some (cadd x y)
    | Minus => Some (csub x y)
    | Star => Some (cmul x y)
    | Slash => if c_eq_dec y c0 then None else Some (cdiv x y)
    | Caret => ppow x y
    end.

  Definition FA : alg C C M :=
    {| of_lit := fun c => c; of_mem := mem_val; c_pi := cpi; c_neg := copp; c_fn := cfun;
       c_infix := pinfix |}.

  Hypothesis is_zero_sound : forall x, is_zero x = true -> x = c0.
  Hypothesis is_one_sound : forall x, is_one x = true -> x = c1.
  Hypothesis ceqb_sound : forall x y, ceqb x y = true -> x = y.
  Hypothesis cop_sound : forall o x y v, pinfix o x y = Some v -> cop o x y = v.
  Hypothesis pow_zero_r : forall x v, ppow x c0 = Some v -> v = c1.
  Hypothesis pow_one_r : forall x v, ppow x c1 = Some v -> v = x.
  Hypothesis pow_one_l : forall y v, ppow c1 y = Some v -> v = c1.
  Hypothesis pow_zero_l : forall y v, ppow c0 y = Some v -> y <> c0 -> v = c0.

  Notation ex := (expr C).
  Notation ctwo := (cadd c1 c1).
  Notation st := (Simplify.st C).
  Notation simp := (Simplify.simp C).
  Notation rule := (Simplify.rule C).
  Notation eqb := (Simplify.eqb C ceqb).
  Notation simplify := (Simplify.simplify C c0 c1 ctwo cpi cnan copp cfun cop is_zero is_one ceqb).

  (** * The rewrite relation *)
  Inductive rw (h : list ex) : ex -> ex -> Prop :=
  | rw_refl e : rw h e e
  | rw_trans a b c : rw h a b -> rw h b c -> rw h a c
  | rw_fn f a b : rw h a b -> rw h (Fn f a) (Fn f b)
  | rw_prefix o a b : rw h a b -> rw h (Prefix o a) (Prefix o b)
  | rw_infix o a a' b b' : rw h a a' -> rw h b b' -> rw h (Infix a o b) (Infix a' o b')
  (* atoms, functions, prefix *)
  | A_pi : rw h Pi (Num cpi)
  | A_fn_fold f x : rw h (Fn f (Num x)) (Num (cfun f x))
  | A_pos a : rw h (Prefix PPlus a) a
  | A_neg_num x : rw h (Prefix PMinus (Num x)) (Num (copp x))
  | A_neg_neg a : rw h (Prefix PMinus (Prefix PMinus a)) a
  (* constant folding and cancellation *)
  | A_add_zero_l x r : is_zero x = true -> rw h (Infix (Num x) Plus r) r
  | A_add_zero_r x l : is_zero x = true -> rw h (Infix l Plus (Num x)) l
  | A_sub_zero_l x r : is_zero x = true -> rw h (Infix (Num x) Minus r) (Prefix PMinus r)
  | A_sub_zero_r y l : is_zero y = true -> rw h (Infix l Minus (Num y)) l
  | A_sub_self l : rw h (Infix l Minus l) (Num c0)
  | A_mul_zero_l x r : is_zero x = true -> rw h (Infix (Num x) Star r) (Num c0)
  | A_mul_zero_r x l : is_zero x = true -> rw h (Infix l Star (Num x)) (Num c0)
  | A_mul_one_l x r : is_one x = true -> rw h (Infix (Num x) Star r) r
  | A_mul_one_r x l : is_one x = true -> rw h (Infix l Star (Num x)) l
  | A_div_zero_l x r : is_zero x = true -> rw h (Infix (Num x) Slash r) (Num c0)
  | A_div_zero_r y l : is_zero y = true -> rw h (Infix l Slash (Num y)) (Num cnan)
  | A_div_one_r y l : is_one y = true -> rw h (Infix l Slash (Num y)) l
  | A_div_self l : rw h (Infix l Slash l) (Num c1)
  | A_pow_zero_l x r : is_zero x = true -> In r h -> rw h (Infix (Num x) Caret r) (Num c0)
  | A_pow_zero_r y l : is_zero y = true -> rw h (Infix l Caret (Num y)) (Num c1)
  | A_pow_one_l x r : is_one x = true -> rw h (Infix (Num x) Caret r) (Num c1)
  | A_pow_one_r y l : is_one y = true -> rw h (Infix l Caret (Num y)) l
  | A_fold o x y : rw h (Infix (Num x) o (Num y)) (Num (cop o x y))
  (* negation *)
  | A_add_neg_r l e : rw h (Infix l Plus (Prefix PMinus e)) (Infix l Minus e)
  | A_add_neg_l e r : rw h (Infix (Prefix PMinus e) Plus r) (Infix r Minus e)
  | A_sub_neg_r l e : rw h (Infix l Minus (Prefix PMinus e)) (Infix l Plus e)
  | A_sub_neg_l e r : rw h (Infix (Prefix PMinus e) Minus r) (Prefix PMinus (Infix e Plus r))
  | A_muldiv_neg_neg o a b :
      is_mul_or_div o = true -> rw h (Infix (Prefix PMinus a) o (Prefix PMinus b)) (Infix a o b)
  | A_div_neg_self_r l : rw h (Infix l Slash (Prefix PMinus l)) (Num (copp c1))
  | A_div_neg_self_l e : rw h (Infix (Prefix PMinus e) Slash e) (Num (copp c1))
  | A_muldiv_neg_r o l e :
      is_mul_or_div o = true -> rw h (Infix l o (Prefix PMinus e)) (Infix (Prefix PMinus l) o e)
  | A_muldiv_neg_l o e r :
      is_mul_or_div o = true -> rw h (Infix (Prefix PMinus e) o r) (Infix e o (Prefix PMinus r))
  (* affine *)
  | A_affine_1 x lr rr lb rb :
      rw h (Infix (Infix (Infix x Star lr) Plus lb) Plus (Infix (Infix x Star rr) Plus rb))
           (Infix (Infix (Infix lr Plus rr) Star x) Plus (Infix lb Plus rb))
  | A_affine_2 x lr rl lb rb :
      rw h (Infix (Infix (Infix x Star lr) Plus lb) Plus (Infix (Infix rl Star x) Plus rb))
           (Infix (Infix (Infix lr Plus rl) Star x) Plus (Infix lb Plus rb))
  | A_affine_3 x ll rr lb rb :
      rw h (Infix (Infix (Infix ll Star x) Plus lb) Plus (Infix (Infix x Star rr) Plus rb))
           (Infix (Infix (Infix ll Plus rr) Star x) Plus (Infix lb Plus rb))
  | A_affine_4 x ll rl lb rb :
      rw h (Infix (Infix (Infix ll Star x) Plus lb) Plus (Infix (Infix rl Star x) Plus rb))
           (Infix (Infix (Infix ll Plus rl) Star x) Plus (Infix lb Plus rb))
  | A_affine_coeffs la ra x :
      rw h (Infix (Infix la Star x) Plus (Infix ra Star x)) (Infix (Infix la Plus ra) Star x)
  | A_affine_consts x lb rb :
      rw h (Infix (Infix x Plus lb) Plus (Infix x Plus rb))
           (Infix (Infix (Num ctwo) Star x) Plus (Infix lb Plus rb))
  (* association, distribution *)
  | A_assoc_r_add l b c : rw h (Infix l Plus (Infix b Plus c)) (Infix (Infix l Plus b) Plus c)
  | A_assoc_r_mul l b c : rw h (Infix l Star (Infix b Star c)) (Infix (Infix l Star b) Star c)
  | A_unassoc_r_sub l b c : rw h (Infix l Minus (Infix b Minus c)) (Infix (Infix l Plus c) Minus b)
  | A_unassoc_r_div l b c : rw h (Infix l Slash (Infix b Slash c)) (Infix (Infix l Star c) Slash b)
  | A_assoc_l_add a b r : rw h (Infix (Infix a Plus b) Plus r) (Infix a Plus (Infix b Plus r))
  | A_assoc_l_mul a b r : rw h (Infix (Infix a Star b) Star r) (Infix a Star (Infix b Star r))
  | A_assoc_l_sub a b r : rw h (Infix (Infix a Minus b) Minus r) (Infix a Minus (Infix b Plus r))
  | A_assoc_l_div a b r : rw h (Infix (Infix a Slash b) Slash r) (Infix a Slash (Infix b Star r))
  | A_distrib_r l b c :
      rw h (Infix l Star (Infix b Plus c)) (Infix (Infix l Star b) Plus (Infix l Star c))
  | A_distrib_l a b r :
      rw h (Infix (Infix a Plus b) Star r) (Infix (Infix a Star r) Plus (Infix b Star r))
  (* parentheses *)
  | A_mul_div_cancel_l1 x y : rw h (Infix (Infix x Star y) Slash x) y
  | A_mul_div_cancel_l2 x y : rw h (Infix (Infix x Star y) Slash y) x
  | A_div_mul_cancel_r1 x y : rw h (Infix x Slash (Infix x Star y)) (Infix (Num c1) Slash y)
  | A_div_mul_cancel_r2 x y : rw h (Infix y Slash (Infix x Star y)) (Infix (Num c1) Slash x)
  | A_mul_in_div_l m n r : rw h (Infix (Infix m Star n) Slash r) (Infix m Star (Infix n Slash r))
  | A_mul_in_div_r l m n : rw h (Infix l Slash (Infix m Star n)) (Infix (Infix l Slash m) Slash n)
  | A_div_mul_cancel_l other same : rw h (Infix (Infix other Slash same) Star same) other
  | A_mul_div_cancel_r other same : rw h (Infix same Star (Infix other Slash same)) other.

  Lemma rw_mono : forall h h' a b, incl h h' -> rw h a b -> rw h' a b.
  Proof.
    intros h h' a b Hi H. induction H; try (now constructor); try (econstructor; eassumption).
    apply A_pow_zero_l; auto.
  Qed.

  (** * Part 1a: every rewrite preserves the value *)
  Variable rv : N -> option C.
  Variable rm : N -> option (list M).
  Notation ev := (eval FA rv rm).

  Definition pres (a b : ex) : Prop := forall v, ev a = Some v -> ev b = Some v.
  Definition no_bad (h : list ex) : Prop := forall x, In x h -> ev x <> Some c0.

  Lemma ev_infix a o b :
    ev (Infix a o b) = bind (ev a) (fun x => bind (ev b) (fun y => pinfix o x y)).
  Proof. reflexivity. Qed.
  Lemma ev_neg a : ev (Prefix PMinus a) = option_map copp (ev a).
  Proof. reflexivity. Qed.
  Lemma ev_pos a : ev (Prefix PPlus a) = option_map (fun v => v) (ev a).
  Proof. reflexivity. Qed.
  Lemma ev_num x : ev (Num x) = Some x.
  Proof. reflexivity. Qed.
  Lemma ev_fn f a : ev (Fn f a) = option_map (cfun f) (ev a).
  Proof. reflexivity. Qed.
  Lemma ev_pi : ev Pi = Some cpi.
  Proof. reflexivity. Qed.

  (** field facts *)
  Lemma mul_zero_l_eq x : cmul c0 x = c0. Proof. ring. Qed.
  Lemma nz_mul x y : x <> c0 -> y <> c0 -> cmul x y <> c0.
  Proof.
    intros Hx Hy H. apply Hy.
    assert (E : y = cmul (cdiv c1 x) (cmul x y)) by (field; exact Hx).
    rewrite E, H. ring.
  Qed.
  Lemma mul_nz_l x y : cmul x y <> c0 -> x <> c0.
  Proof. intros H E. apply H. subst. ring. Qed.
  Lemma mul_nz_r x y : cmul x y <> c0 -> y <> c0.
  Proof. intros H E. apply H. subst. ring. Qed.
  Lemma div_nz x y : y <> c0 -> cdiv x y <> c0 -> x <> c0.
  Proof. intros Hy H E. apply H. subst. field. exact Hy. Qed.
  Lemma nz_div x y : x <> c0 -> y <> c0 -> cdiv x y <> c0.
  Proof.
    intros Hx Hy H. apply Hx.
    assert (E : x = cmul (cdiv x y) y) by (field; exact Hy).
    rewrite E, H. ring.
  Qed.
  Lemma opp_nz x : x <> c0 -> copp x <> c0.
  Proof. intros H E. apply H. assert (x = copp (copp x)) as -> by ring. rewrite E. ring. Qed.
  Lemma nz_opp x : copp x <> c0 -> x <> c0.
  Proof. intros H E. apply H. subst. ring. Qed.
  Lemma one_nz : c1 <> c0.
  Proof. exact (F_1_neq_0 Cfield). Qed.

  (** Destructing evaluation of compound expressions into the values of their atoms. *)
  Ltac ev_norm :=
    repeat progress (rewrite ?ev_infix, ?ev_neg, ?ev_pos, ?ev_num, ?ev_fn, ?ev_pi in * );
    cbn [bind option_map pinfix] in *.
  Ltac ev_atoms :=
    repeat match goal with
      | H : context [eval FA rv rm ?e] |- _ =>
          is_var e; let x := fresh "v" in
          destruct (eval FA rv rm e) as [x|]; cbn [bind option_map pinfix] in *; try discriminate
      | |- context [eval FA rv rm ?e] =>
          is_var e; let x := fresh "v" in
          destruct (eval FA rv rm e) as [x|]; cbn [bind option_map pinfix] in *; try discriminate
      end.
  Ltac dec_hyps :=
    repeat match goal with
      | H : context [c_eq_dec ?a ?b] |- _ =>
          destruct (c_eq_dec a b); cbn [bind option_map pinfix] in *;
          try discriminate; try (exfalso; congruence)
      end.
  Ltac inj_all :=
    repeat match goal with
      | H : Some _ = Some _ |- _ => injection H as H; try subst
      end.
  Ltac nz :=
    repeat match goal with
      | H : cmul ?x ?y <> c0 |- _ =>
          lazymatch goal with
          | _ : x <> c0, _ : y <> c0 |- _ => fail
          | _ => pose proof (mul_nz_l _ _ H); pose proof (mul_nz_r _ _ H)
          end
      | H : copp ?x <> c0 |- _ =>
          lazymatch goal with | _ : x <> c0 |- _ => fail | _ => pose proof (nz_opp _ H) end
      | H : cdiv ?x ?y <> c0, Hy : ?y <> c0 |- _ =>
          lazymatch goal with | _ : x <> c0 |- _ => fail | _ => pose proof (div_nz _ _ Hy H) end
      end.
  Ltac solve_nz :=
    solve [ assumption | apply one_nz
          | repeat first [ assumption | apply one_nz | apply nz_mul | apply nz_div | apply opp_nz ] ].
  (** finish a goal [(if dec t 0 then None else Some a) = Some b] or [Some a = Some b] *)
  Ltac fin :=
    cbn [bind option_map pinfix];
    repeat match goal with
      | |- context [c_eq_dec ?a ?b] =>
          let Heq := fresh "Heq" in
          let Hne := fresh "Hne" in
          destruct (c_eq_dec a b) as [Heq|Hne];
          [ exfalso; revert Heq; change (a <> b); nz; solve_nz | cbn [bind option_map pinfix] ]
      end;
    try (f_equal; first [ ring | field; nz; repeat split; solve_nz ]).
  Ltac alg := intros v Hv; ev_norm; ev_atoms; cbn [bind option_map pinfix] in *; dec_hyps; inj_all; nz; fin.

  Lemma pres_refl a : pres a a. Proof. intros v H; exact H. Qed.
  Lemma pres_trans a b c : pres a b -> pres b c -> pres a c.
  Proof. intros H1 H2 v H. apply H2, H1, H. Qed.
  Lemma pres_fn f a b : pres a b -> pres (Fn f a) (Fn f b).
  Proof.
    intros H v. rewrite !ev_fn. destruct (ev a) as [x|] eqn:E; [|discriminate].
    rewrite (H x E). auto.
  Qed.
  Lemma pres_prefix o a b : pres a b -> pres (Prefix o a) (Prefix o b).
  Proof.
    intros H v. cbn [eval]. destruct (ev a) as [x|] eqn:E; [|discriminate].
    rewrite (H x E). auto.
  Qed.
  Lemma pres_infix o a a' b b' : pres a a' -> pres b b' -> pres (Infix a o b) (Infix a' o b').
  Proof.
    intros Ha Hb v. rewrite !ev_infix.
    destruct (ev a) as [x|] eqn:Ea; [|discriminate]. rewrite (Ha x Ea).
    destruct (ev b) as [y|] eqn:Eb; [|discriminate]. rewrite (Hb y Eb). auto.
  Qed.

  (** One lemma per rewrite. *)
  Lemma P_pi : pres Pi (Num cpi). Proof. alg. Qed.
  Lemma P_fn_fold f x : pres (Fn f (Num x)) (Num (cfun f x)). Proof. alg. Qed.
  Lemma P_pos a : pres (Prefix PPlus a) a. Proof. alg. Qed.
  Lemma P_neg_num x : pres (Prefix PMinus (Num x)) (Num (copp x)). Proof. alg. Qed.
  Lemma P_neg_neg a : pres (Prefix PMinus (Prefix PMinus a)) a. Proof. alg. Qed.

  Ltac zalg :=
    intros;
    repeat match goal with
      | H : is_zero _ = true |- _ => apply is_zero_sound in H; subst
      | H : is_one _ = true |- _ => apply is_one_sound in H; subst
      end;
    alg.

  Lemma P_add_zero_l x r : is_zero x = true -> pres (Infix (Num x) Plus r) r. Proof. zalg. Qed.
  Lemma P_add_zero_r x l : is_zero x = true -> pres (Infix l Plus (Num x)) l. Proof. zalg. Qed.
  Lemma P_sub_zero_l x r : is_zero x = true -> pres (Infix (Num x) Minus r) (Prefix PMinus r).
  Proof. zalg. Qed.
  Lemma P_sub_zero_r y l : is_zero y = true -> pres (Infix l Minus (Num y)) l. Proof. zalg. Qed.
  Lemma P_sub_self l : pres (Infix l Minus l) (Num c0). Proof. alg. Qed.
  Lemma P_mul_zero_l x r : is_zero x = true -> pres (Infix (Num x) Star r) (Num c0). Proof. zalg. Qed.
  Lemma P_mul_zero_r x l : is_zero x = true -> pres (Infix l Star (Num x)) (Num c0). Proof. zalg. Qed.
  Lemma P_mul_one_l x r : is_one x = true -> pres (Infix (Num x) Star r) r. Proof. zalg. Qed.
  Lemma P_mul_one_r x l : is_one x = true -> pres (Infix l Star (Num x)) l. Proof. zalg. Qed.
  Lemma P_div_zero_l x r : is_zero x = true -> pres (Infix (Num x) Slash r) (Num c0). Proof. zalg. Qed.
  (** x / 0 is undefined: nothing to preserve *)
  Lemma P_div_zero_r y l : is_zero y = true -> pres (Infix l Slash (Num y)) (Num cnan).
  Proof. zalg. Qed.
  Lemma P_div_one_r y l : is_one y = true -> pres (Infix l Slash (Num y)) l. Proof. zalg. Qed.
  Lemma P_div_self l : pres (Infix l Slash l) (Num c1). Proof. alg. Qed.
  (** 0^x -> 0 is value-preserving only where x does not evaluate to 0 *)
  Lemma P_pow_zero_l x r :
    is_zero x = true -> ev r <> Some c0 -> pres (Infix (Num x) Caret r) (Num c0).
  Proof.
    intros Hz Hr v Hv. apply is_zero_sound in Hz. subst. ev_norm.
    destruct (ev r) as [y|]; cbn [bind] in *; [|discriminate].
    f_equal. symmetry. apply (pow_zero_l y v Hv). congruence.
  Qed.
  Lemma P_pow_zero_r y l : is_zero y = true -> pres (Infix l Caret (Num y)) (Num c1).
  Proof.
    intros Hz v Hv. apply is_zero_sound in Hz. subst. ev_norm.
    destruct (ev l) as [x|]; cbn [bind] in *; [|discriminate].
    f_equal. symmetry. exact (pow_zero_r x v Hv).
  Qed.
  Lemma P_pow_one_l x r : is_one x = true -> pres (Infix (Num x) Caret r) (Num c1).
  Proof.
    intros Hz v Hv. apply is_one_sound in Hz. subst. ev_norm.
    destruct (ev r) as [y|]; cbn [bind] in *; [|discriminate].
    f_equal. symmetry. exact (pow_one_l y v Hv).
  Qed.
  Lemma P_pow_one_r y l : is_one y = true -> pres (Infix l Caret (Num y)) l.
  Proof.
    intros Hz v Hv. apply is_one_sound in Hz. subst. ev_norm.
    destruct (ev l) as [x|]; cbn [bind] in *; [|discriminate].
    f_equal. symmetry. exact (pow_one_r x v Hv).
  Qed.
  Lemma P_fold o x y : pres (Infix (Num x) o (Num y)) (Num (cop o x y)).
  Proof. intros v Hv. ev_norm. f_equal. exact (cop_sound o x y v Hv). Qed.

  Lemma P_add_neg_r l e : pres (Infix l Plus (Prefix PMinus e)) (Infix l Minus e). Proof. alg. Qed.
  Lemma P_add_neg_l e r : pres (Infix (Prefix PMinus e) Plus r) (Infix r Minus e). Proof. alg. Qed.
  Lemma P_sub_neg_r l e : pres (Infix l Minus (Prefix PMinus e)) (Infix l Plus e). Proof. alg. Qed.
  Lemma P_sub_neg_l e r :
    pres (Infix (Prefix PMinus e) Minus r) (Prefix PMinus (Infix e Plus r)).
  Proof. alg. Qed.
  Lemma P_muldiv_neg_neg o a b :
    is_mul_or_div o = true -> pres (Infix (Prefix PMinus a) o (Prefix PMinus b)) (Infix a o b).
  Proof. intros Ho. destruct o; try discriminate; alg. Qed.
  Lemma P_div_neg_self_r l : pres (Infix l Slash (Prefix PMinus l)) (Num (copp c1)). Proof. alg. Qed.
  Lemma P_div_neg_self_l e : pres (Infix (Prefix PMinus e) Slash e) (Num (copp c1)). Proof. alg. Qed.
  Lemma P_muldiv_neg_r o l e :
    is_mul_or_div o = true -> pres (Infix l o (Prefix PMinus e)) (Infix (Prefix PMinus l) o e).
  Proof. intros Ho. destruct o; try discriminate; alg. Qed.
  Lemma P_muldiv_neg_l o e r :
    is_mul_or_div o = true -> pres (Infix (Prefix PMinus e) o r) (Infix e o (Prefix PMinus r)).
  Proof. intros Ho. destruct o; try discriminate; alg. Qed.

  Lemma P_affine_1 x lr rr lb rb :
    pres (Infix (Infix (Infix x Star lr) Plus lb) Plus (Infix (Infix x Star rr) Plus rb))
         (Infix (Infix (Infix lr Plus rr) Star x) Plus (Infix lb Plus rb)).
  Proof. alg. Qed.
  Lemma P_affine_2 x lr rl lb rb :
    pres (Infix (Infix (Infix x Star lr) Plus lb) Plus (Infix (Infix rl Star x) Plus rb))
         (Infix (Infix (Infix lr Plus rl) Star x) Plus (Infix lb Plus rb)).
  Proof. alg. Qed.
  Lemma P_affine_3 x ll rr lb rb :
    pres (Infix (Infix (Infix ll Star x) Plus lb) Plus (Infix (Infix x Star rr) Plus rb))
         (Infix (Infix (Infix ll Plus rr) Star x) Plus (Infix lb Plus rb)).
  Proof. alg. Qed.
  Lemma P_affine_4 x ll rl lb rb :
    pres (Infix (Infix (Infix ll Star x) Plus lb) Plus (Infix (Infix rl Star x) Plus rb))
         (Infix (Infix (Infix ll Plus rl) Star x) Plus (Infix lb Plus rb)).
  Proof. alg. Qed.
  Lemma P_affine_coeffs la ra x :
    pres (Infix (Infix la Star x) Plus (Infix ra Star x)) (Infix (Infix la Plus ra) Star x).
  Proof. alg. Qed.
  Lemma P_affine_consts x lb rb :
    pres (Infix (Infix x Plus lb) Plus (Infix x Plus rb))
         (Infix (Infix (Num ctwo) Star x) Plus (Infix lb Plus rb)).
  Proof. alg. Qed.

  Lemma P_assoc_r_add l b c : pres (Infix l Plus (Infix b Plus c)) (Infix (Infix l Plus b) Plus c).
  Proof. alg. Qed.
  Lemma P_assoc_r_mul l b c : pres (Infix l Star (Infix b Star c)) (Infix (Infix l Star b) Star c).
  Proof. alg. Qed.
  Lemma P_unassoc_r_sub l b c :
    pres (Infix l Minus (Infix b Minus c)) (Infix (Infix l Plus c) Minus b).
  Proof. alg. Qed.
  Lemma P_unassoc_r_div l b c :
    pres (Infix l Slash (Infix b Slash c)) (Infix (Infix l Star c) Slash b).
  Proof.
    alg.
  Qed.
  Lemma P_assoc_l_add a b r : pres (Infix (Infix a Plus b) Plus r) (Infix a Plus (Infix b Plus r)).
  Proof. alg. Qed.
  Lemma P_assoc_l_mul a b r : pres (Infix (Infix a Star b) Star r) (Infix a Star (Infix b Star r)).
  Proof. alg. Qed.
  Lemma P_assoc_l_sub a b r :
    pres (Infix (Infix a Minus b) Minus r) (Infix a Minus (Infix b Plus r)).
  Proof. alg. Qed.
  Lemma P_assoc_l_div a b r :
    pres (Infix (Infix a Slash b) Slash r) (Infix a Slash (Infix b Star r)).
  Proof. alg. Qed.
  Lemma P_distrib_r l b c :
    pres (Infix l Star (Infix b Plus c)) (Infix (Infix l Star b) Plus (Infix l Star c)).
  Proof. alg. Qed.
  Lemma P_distrib_l a b r :
    pres (Infix (Infix a Plus b) Star r) (Infix (Infix a Star r) Plus (Infix b Star r)).
  Proof. alg. Qed.

  Lemma P_mul_div_cancel_l1 x y : pres (Infix (Infix x Star y) Slash x) y. Proof. alg. Qed.
  Lemma P_mul_div_cancel_l2 x y : pres (Infix (Infix x Star y) Slash y) x. Proof. alg. Qed.
  Lemma P_div_mul_cancel_r1 x y :
    pres (Infix x Slash (Infix x Star y)) (Infix (Num c1) Slash y).
  Proof. alg. Qed.
  Lemma P_div_mul_cancel_r2 x y :
    pres (Infix y Slash (Infix x Star y)) (Infix (Num c1) Slash x).
  Proof. alg. Qed.
  Lemma P_mul_in_div_l m n r :
    pres (Infix (Infix m Star n) Slash r) (Infix m Star (Infix n Slash r)).
  Proof. alg. Qed.
  Lemma P_mul_in_div_r l m n :
    pres (Infix l Slash (Infix m Star n)) (Infix (Infix l Slash m) Slash n).
  Proof.
    alg.
  Qed.
  Lemma P_div_mul_cancel_l other same : pres (Infix (Infix other Slash same) Star same) other.
  Proof. alg. Qed.
  Lemma P_mul_div_cancel_r other same : pres (Infix same Star (Infix other Slash same)) other.
  Proof. alg. Qed.

  (** Every [rw] step preserves the value, provided no logged exponent evaluates to zero. *)
  Lemma rw_pres : forall h a b, rw h a b -> no_bad h -> pres a b.
  Proof.
    intros h a b H Hnb. induction H.
    - apply pres_refl.
    - eapply pres_trans; eassumption.
    - apply pres_fn; assumption.
    - apply pres_prefix; assumption.
    - apply pres_infix; assumption.
    - apply P_pi.
    - apply P_fn_fold.
    - apply P_pos.
    - apply P_neg_num.
    - apply P_neg_neg.
    - apply P_add_zero_l; assumption.
    - apply P_add_zero_r; assumption.
    - apply P_sub_zero_l; assumption.
    - apply P_sub_zero_r; assumption.
    - apply P_sub_self.
    - apply P_mul_zero_l; assumption.
    - apply P_mul_zero_r; assumption.
    - apply P_mul_one_l; assumption.
    - apply P_mul_one_r; assumption.
    - apply P_div_zero_l; assumption.
    - apply P_div_zero_r; assumption.
    - apply P_div_one_r; assumption.
    - apply P_div_self.
    - apply P_pow_zero_l; [assumption | apply Hnb; assumption].
    - apply P_pow_zero_r; assumption.
    - apply P_pow_one_l; assumption.
    - apply P_pow_one_r; assumption.
    - apply P_fold.
    - apply P_add_neg_r.
    - apply P_add_neg_l.
    - apply P_sub_neg_r.
    - apply P_sub_neg_l.
    - apply P_muldiv_neg_neg; assumption.
    - apply P_div_neg_self_r.
    - apply P_div_neg_self_l.
    - apply P_muldiv_neg_r; assumption.
    - apply P_muldiv_neg_l; assumption.
    - apply P_affine_1.
    - apply P_affine_2.
    - apply P_affine_3.
    - apply P_affine_4.
    - apply P_affine_coeffs.
    - apply P_affine_consts.
    - apply P_assoc_r_add.
    - apply P_assoc_r_mul.
    - apply P_unassoc_r_sub.
    - apply P_unassoc_r_div.
    - apply P_assoc_l_add.
    - apply P_assoc_l_mul.
    - apply P_assoc_l_sub.
    - apply P_assoc_l_div.
    - apply P_distrib_r.
    - apply P_distrib_l.
    - apply P_mul_div_cancel_l1.
    - apply P_mul_div_cancel_l2.
    - apply P_div_mul_cancel_r1.
    - apply P_div_mul_cancel_r2.
    - apply P_mul_in_div_l.
    - apply P_mul_in_div_r.
    - apply P_div_mul_cancel_l.
    - apply P_mul_div_cancel_r.
  Qed.

  (** * Part 1b: no rewrite adds a variable or a memory reference; pi-free stays pi-free *)
  Definition sub_ok (a b : ex) : Prop := incl (vars b) (vars a) /\ incl (addrs b) (addrs a).

  Ltac incl_tac :=
    cbn [vars addrs app];
    let z := fresh "z" in
    let Hz := fresh "Hz" in
    intros z Hz; cbn [In] in *; rewrite ?in_app_iff in *;
    repeat match goal with H : incl _ _ |- _ => specialize (H z) end;
    tauto.

  Lemma rw_sub : forall h a b, rw h a b -> sub_ok a b.
  Proof.
    intros h a b H. unfold sub_ok.
    induction H;
      try (destruct IHrw as [? ?]);
      try (destruct IHrw1 as [? ?]; destruct IHrw2 as [? ?]);
      try (split; incl_tac).
  Qed.

  Lemma rw_pf : forall h a b, rw h a b -> has_pi a = false -> has_pi b = false.
  Proof.
    intros h a b H. induction H; cbn [has_pi]; intros Hp;
      repeat match goal with
        | H : _ || _ = false |- _ => apply orb_false_iff in H; destruct H
        end;
      try discriminate; try reflexivity; try assumption; auto;
      repeat (apply orb_false_iff; split); auto.
  Qed.

  (** * Part 2: the simplifier only performs [rw] steps *)
  Definition cache_ok (s : st) : Prop := forall k v, In (k, v) (cache s) -> rw (hits s) k v.
  Definition simp_ok (f : simp) : Prop :=
    forall s e r s', f s e = (r, s') -> cache_ok s ->
      rw (hits s') e r /\ cache_ok s' /\ incl (hits s) (hits s').
  Definition rule_ok (R : rule) : Prop :=
    forall rec s l o r res s', simp_ok rec -> R rec s l o r = Some (res, s') -> cache_ok s ->
      rw (hits s') (Infix l o r) res /\ cache_ok s' /\ incl (hits s) (hits s').

  Lemma eqb_sound : forall a b : ex, eqb a b = true -> a = b.
  Proof.
    unfold Simplify.eqb.
    induction a as [c | | x | n i | f a IHa | o a IHa | l IHl o r IHr]; intros b H;
      destruct b; cbn [expr_eqb] in H; try discriminate.
    - f_equal. apply ceqb_sound. exact H.
    - reflexivity.
    - apply N.eqb_eq in H. subst. reflexivity.
    - apply andb_true_iff in H. destruct H as [H1 H2].
      apply N.eqb_eq in H1. apply N.eqb_eq in H2. subst. reflexivity.
    - apply andb_true_iff in H. destruct H as [H1 H2].
      destruct f, f0; try discriminate; f_equal; apply IHa; exact H2.
    - apply andb_true_iff in H. destruct H as [H1 H2].
      destruct o, o0; try discriminate; f_equal; apply IHa; exact H2.
    - apply andb_true_iff in H. destruct H as [H12 H3].
      apply andb_true_iff in H12. destruct H12 as [H1 H2].
      rewrite (IHl _ H2), (IHr _ H3).
      destruct o, o0; try discriminate; reflexivity.
  Qed.

  Lemma infix_eqb_sound o o' : infix_eqb o o' = true -> o = o'.
  Proof. destruct o, o'; cbn; congruence. Qed.

  Lemma lookup_sound : forall c e r, Simplify.lookup C ceqb c e = Some r -> In (e, r) c.
  Proof.
    induction c as [|[k v] c IH]; intros e r H; cbn [Simplify.lookup] in H; [discriminate|].
    destruct (eqb e k) eqn:E.
    - apply eqb_sound in E. injection H as <-. subst. left. reflexivity.
    - right. apply IH. exact H.
  Qed.

  Lemma rw_smaller h x a b : rw h x a -> rw h x b -> rw h x (Simplify.smaller C a b).
  Proof. intros Ha Hb. unfold Simplify.smaller. destruct (Nat.ltb _ _); assumption. Qed.

  Lemma cache_ok_hits (s s' : st) :
    cache s' = cache s -> incl (hits s) (hits s') -> cache_ok s -> cache_ok s'.
  Proof.
    intros Hc Hi H k v Hin. rewrite Hc in Hin. eapply rw_mono; [exact Hi | apply H; exact Hin].
  Qed.

  (** the three shapes of an arm's conclusion *)
  Lemma fin_same (s : st) a b :
    cache_ok s -> rw (hits s) a b -> rw (hits s) a b /\ cache_ok s /\ incl (hits s) (hits s).
  Proof. intros Hc H. repeat split; [exact H | exact Hc | apply incl_refl]. Qed.

  Lemma fin_rec1 (rec : simp) s e r s' a :
    simp_ok rec -> cache_ok s -> rec s e = (r, s') ->
    (forall h, rw h a e) ->
    rw (hits s') a r /\ cache_ok s' /\ incl (hits s) (hits s').
  Proof.
    intros Hrec Hc E Ha. destruct (Hrec _ _ _ _ E Hc) as (Hr & Hc' & Hi).
    repeat split; [eapply rw_trans; [apply Ha | exact Hr] | exact Hc' | exact Hi].
  Qed.

  (** two chained recursive calls, the second on an expression [k r1] built around the first
      result, then [smaller original _] *)
  Lemma fin_rec2 (rec : simp) s e1 r1 s1 (k : ex -> ex) r2 s2 a :
    simp_ok rec -> cache_ok s -> rec s e1 = (r1, s1) -> rec s1 (k r1) = (r2, s2) ->
    (forall h, rw h a (k e1)) ->
    (forall h x y, rw h x y -> rw h (k x) (k y)) ->
    rw (hits s2) a r2 /\ cache_ok s2 /\ incl (hits s) (hits s2).
  Proof.
    intros Hrec Hc E1 E2 Ha Hk.
    destruct (Hrec _ _ _ _ E1 Hc) as (Hr1 & Hc1 & Hi1).
    destruct (Hrec _ _ _ _ E2 Hc1) as (Hr2 & Hc2 & Hi2).
    repeat split; [| exact Hc2 | eapply incl_tran; eassumption].
    eapply rw_trans; [apply Ha |]. eapply rw_trans; [| exact Hr2].
    apply Hk. eapply rw_mono; [exact Hi2 | exact Hr1].
  Qed.

  Lemma fin_rec2_smaller (rec : simp) s e1 r1 s1 (k : ex -> ex) r2 s2 a :
    simp_ok rec -> cache_ok s -> rec s e1 = (r1, s1) -> rec s1 (k r1) = (r2, s2) ->
    (forall h, rw h a (k e1)) ->
    (forall h x y, rw h x y -> rw h (k x) (k y)) ->
    rw (hits s2) a (Simplify.smaller C a r2) /\ cache_ok s2 /\ incl (hits s) (hits s2).
  Proof.
    intros Hrec Hc E1 E2 Ha Hk.
    destruct (fin_rec2 rec s e1 r1 s1 k r2 s2 a Hrec Hc E1 E2 Ha Hk) as (H & Hc2 & Hi).
    repeat split; [apply rw_smaller; [apply rw_refl | exact H] | exact Hc2 | exact Hi].
  Qed.

  (** three chained calls: [e1], [e2] independent, then [k r1 r2] *)
  Lemma fin_rec3 (rec : simp) s e1 r1 s1 e2 r2 s2 (k : ex -> ex -> ex) r3 s3 a :
    simp_ok rec -> cache_ok s ->
    rec s e1 = (r1, s1) -> rec s1 e2 = (r2, s2) -> rec s2 (k r1 r2) = (r3, s3) ->
    (forall h, rw h a (k e1 e2)) ->
    (forall h x y x' y', rw h x y -> rw h x' y' -> rw h (k x x') (k y y')) ->
    rw (hits s3) a r3 /\ cache_ok s3 /\ incl (hits s) (hits s3).
  Proof.
    intros Hrec Hc E1 E2 E3 Ha Hk.
    destruct (Hrec _ _ _ _ E1 Hc) as (Hr1 & Hc1 & Hi1).
    destruct (Hrec _ _ _ _ E2 Hc1) as (Hr2 & Hc2 & Hi2).
    destruct (Hrec _ _ _ _ E3 Hc2) as (Hr3 & Hc3 & Hi3).
    repeat split; [| exact Hc3 | eapply incl_tran; [eassumption | eapply incl_tran; eassumption]].
    eapply rw_trans; [apply Ha |]. eapply rw_trans; [| exact Hr3].
    apply Hk.
    - eapply rw_mono; [| exact Hr1]. eapply incl_tran; eassumption.
    - eapply rw_mono; [exact Hi3 | exact Hr2].
  Qed.

  Ltac rule_start :=
    intros rec s l o r res s' Hrec H Hc;
    repeat match goal with
      | H : context [if ?b then _ else _] |- _ =>
          lazymatch type of b with bool => destruct b eqn:? end; try discriminate
      | H : context [match ?x with _ => _ end] |- _ => destruct x eqn:?; try discriminate
      end;
    repeat match goal with
      | H : Simplify.eqb _ _ _ _ = true |- _ => apply eqb_sound in H
      | H : infix_eqb _ _ = true |- _ => apply infix_eqb_sound in H
      end;
    subst;
    try match goal with H : Some _ = Some _ |- _ => injection H as H; try subst end.
  Ltac ax := solve [ constructor; solve [ assumption | reflexivity ] | constructor ].
  Ltac rule_same := apply fin_same; [assumption | ax].

  (** One lemma per arm of [simplify_infix]. *)
  Lemma R_add_zero_l : rule_ok (r_add_zero_l C is_zero).
  Proof. unfold r_add_zero_l. rule_start. rule_same. Qed.
  Lemma R_add_zero_r : rule_ok (r_add_zero_r C is_zero).
  Proof. unfold r_add_zero_r. rule_start. rule_same. Qed.
  Lemma R_sub_zero_l : rule_ok (r_sub_zero_l C is_zero).
  Proof.
    unfold r_sub_zero_l. rule_start.
    eapply fin_rec1; eauto. intro h. apply A_sub_zero_l. assumption.
  Qed.
  Lemma R_sub_zero_r : rule_ok (r_sub_zero_r C is_zero).
  Proof. unfold r_sub_zero_r. rule_start. rule_same. Qed.
  Lemma R_sub_self : rule_ok (r_sub_self C c0 ceqb).
  Proof. unfold r_sub_self. rule_start. rule_same. Qed.

  Lemma R_mul_zero : rule_ok (r_mul_zero C c0 is_zero).
  Proof. unfold r_mul_zero. rule_start; rule_same. Qed.
  Lemma R_mul_one_l : rule_ok (r_mul_one_l C is_one).
  Proof. unfold r_mul_one_l. rule_start. rule_same. Qed.
  Lemma R_mul_one_r : rule_ok (r_mul_one_r C is_one).
  Proof. unfold r_mul_one_r. rule_start. rule_same. Qed.
  Lemma R_div_zero_l : rule_ok (r_div_zero_l C c0 is_zero).
  Proof. unfold r_div_zero_l. rule_start. rule_same. Qed.
  Lemma R_div_zero_r : rule_ok (r_div_zero_r C cnan is_zero).
  Proof. unfold r_div_zero_r. rule_start. rule_same. Qed.
  Lemma R_div_one_r : rule_ok (r_div_one_r C is_one).
  Proof. unfold r_div_one_r. rule_start. rule_same. Qed.
  Lemma R_div_self : rule_ok (r_div_self C c1 ceqb).
  Proof. unfold r_div_self. rule_start. rule_same. Qed.
  (** the only arm that is not value-preserving: its exponent goes to the ghost log *)
  Lemma R_pow_zero_l : rule_ok (r_pow_zero_l C c0 is_zero).
  Proof.
    unfold r_pow_zero_l. rule_start. cbn [cache hits].
    repeat split.
    - apply A_pow_zero_l; [assumption | left; reflexivity].
    - eapply cache_ok_hits; [| | exact Hc]; cbn [cache hits]; [reflexivity | apply incl_tl, incl_refl].
    - apply incl_tl, incl_refl.
  Qed.
  Lemma R_pow_zero_r : rule_ok (r_pow_zero_r C c1 is_zero).
  Proof. unfold r_pow_zero_r. rule_start. rule_same. Qed.
  Lemma R_pow_one_l : rule_ok (r_pow_one_l C c1 is_one).
  Proof. unfold r_pow_one_l. rule_start. rule_same. Qed.
  Lemma R_pow_one_r : rule_ok (r_pow_one_r C is_one).
  Proof. unfold r_pow_one_r. rule_start. rule_same. Qed.
  Lemma R_fold : rule_ok (r_fold C cop).
  Proof. unfold r_fold. rule_start. rule_same. Qed.

  Lemma R_add_neg_r : rule_ok (r_add_neg_r C).
  Proof. unfold r_add_neg_r. rule_start. eapply fin_rec1; eauto. intro h. ax. Qed.
  Lemma R_add_neg_l : rule_ok (r_add_neg_l C).
  Proof. unfold r_add_neg_l. rule_start. eapply fin_rec1; eauto. intro h. ax. Qed.
  Lemma R_sub_neg_r : rule_ok (r_sub_neg_r C).
  Proof. unfold r_sub_neg_r. rule_start. eapply fin_rec1; eauto. intro h. ax. Qed.
  Lemma R_sub_neg_l : rule_ok (r_sub_neg_l C).
  Proof.
    unfold r_sub_neg_l, e_add, e_sub, e_neg. rule_start.
    eapply (fin_rec2_smaller rec s _ _ _ (fun x => Prefix PMinus x)); eauto.
    - intro h. ax.
    - intros h x y Hxy. apply rw_prefix. exact Hxy.
  Qed.
  Lemma R_muldiv_neg_neg : rule_ok (r_muldiv_neg_neg C).
  Proof. unfold r_muldiv_neg_neg. rule_start. eapply fin_rec1; eauto. intro h. ax. Qed.
  Lemma R_div_neg_self_r : rule_ok (r_div_neg_self_r C c1 copp ceqb).
  Proof. unfold r_div_neg_self_r. rule_start. rule_same. Qed.
  Lemma R_div_neg_self_l : rule_ok (r_div_neg_self_l C c1 copp ceqb).
  Proof. unfold r_div_neg_self_l. rule_start. rule_same. Qed.
  Lemma R_muldiv_neg_r : rule_ok (r_muldiv_neg_r C).
  Proof.
    unfold r_muldiv_neg_r, e_neg. rule_start.
    match goal with E : is_mul_or_div ?o = true |- _ =>
      eapply (fin_rec2_smaller rec s _ _ _ (fun x => Infix x o _)); eauto
    end.
    - intro h. ax.
    - intros h x y Hxy. apply rw_infix; [exact Hxy | apply rw_refl].
  Qed.
  Lemma R_muldiv_neg_l : rule_ok (r_muldiv_neg_l C).
  Proof.
    unfold r_muldiv_neg_l, e_neg. rule_start.
    match goal with E : is_mul_or_div ?o = true |- _ =>
      eapply (fin_rec2_smaller rec s _ _ _ (fun x => Infix _ o x)); eauto
    end.
    - intro h. ax.
    - intros h x y Hxy. apply rw_infix; [apply rw_refl | exact Hxy].
  Qed.

  (** generic handling of a chain of recursive calls *)
  Ltac use_recs Hrec :=
    repeat match goal with
      | E : ?rec ?s ?e = (?r, ?s1), Hc : cache_ok ?s |- _ =>
          lazymatch goal with
          | _ : rw (hits s1) e r |- _ => fail
          | _ =>
              let Hr := fresh "Hr" in
              let Hc' := fresh "Hc" in
              let Hi := fresh "Hi" in
              destruct (Hrec _ _ _ _ E Hc) as (Hr & Hc' & Hi)
          end
      end.
  Ltac incl_solve :=
    solve [ repeat first [ assumption | apply incl_refl | eapply incl_tran; [eassumption|] ] ].
  (** [rw h' a _] from some [rw h a b] in the context with [h] included in [h'] *)
  Ltac lift :=
    match goal with
    | H : rw ?h ?a _ |- rw ?h' ?a _ => eapply rw_mono; [| exact H]; incl_solve
    end.
  (** one parallel step: replace every subterm that is the source of a known [rw] fact *)
  Ltac cong :=
    repeat first [ lift | apply rw_infix | apply rw_prefix | apply rw_fn | apply rw_refl ].
  Ltac fwd := eapply rw_trans; [ solve [cong] | ].
  Ltac fin3 := repeat split; [ | assumption | incl_solve ].

  Lemma R_affine_full : rule_ok (r_affine_full C ceqb).
  Proof.
    unfold r_affine_full, e_add, e_mul. rule_start; use_recs Hrec; fin3.
    - eapply rw_trans; [apply A_affine_1 |]. do 3 fwd. apply rw_refl.
    - eapply rw_trans; [apply A_affine_2 |]. do 3 fwd. apply rw_refl.
    - eapply rw_trans; [apply A_affine_3 |]. do 3 fwd. apply rw_refl.
    - cbn [mul_matches] in *.
      repeat match goal with
        | H : Simplify.eqb _ _ ?a ?b = false, H' : context [Simplify.eqb _ _ ?a ?b] |- _ =>
            rewrite H in H'
        end.
      cbn [orb] in *.
      match goal with H : Simplify.eqb _ _ _ _ = true |- _ => apply eqb_sound in H; subst end.
      eapply rw_trans; [apply A_affine_4 |]. do 3 fwd. apply rw_refl.
  Qed.
  Lemma R_affine_coeffs : rule_ok (r_affine_coeffs C ceqb).
  Proof.
    unfold r_affine_coeffs, e_add, e_mul. rule_start; use_recs Hrec; fin3.
    eapply rw_trans; [apply A_affine_coeffs |]. do 2 fwd. apply rw_refl.
  Qed.
  Lemma R_affine_consts : rule_ok (r_affine_consts C ctwo ceqb).
  Proof.
    unfold r_affine_consts, e_add, e_mul. rule_start; use_recs Hrec; fin3.
    eapply rw_trans; [apply A_affine_consts |]. do 2 fwd. apply rw_refl.
  Qed.

  Ltac smaller_fin := apply rw_smaller; [apply rw_refl |].

  Lemma R_assoc_r : rule_ok (r_assoc_r C).
  Proof.
    unfold r_assoc_r. rule_start; use_recs Hrec; fin3; smaller_fin.
    - eapply rw_trans; [apply A_assoc_r_add |]. do 2 fwd. apply rw_refl.
    - eapply rw_trans; [apply A_assoc_r_mul |]. do 2 fwd. apply rw_refl.
  Qed.
  Lemma R_unassoc_r : rule_ok (r_unassoc_r C).
  Proof.
    unfold r_unassoc_r, inverse_op. rule_start; use_recs Hrec; fin3; smaller_fin.
    - eapply rw_trans; [apply A_unassoc_r_sub |]. do 2 fwd. apply rw_refl.
    - eapply rw_trans; [apply A_unassoc_r_div |]. do 2 fwd. apply rw_refl.
  Qed.
  Lemma R_assoc_l : rule_ok (r_assoc_l C).
  Proof.
    unfold r_assoc_l, inverse_op. rule_start; use_recs Hrec; fin3; smaller_fin.
    - eapply rw_trans; [apply A_assoc_l_add |]. do 2 fwd. apply rw_refl.
    - eapply rw_trans; [apply A_assoc_l_sub |]. do 2 fwd. apply rw_refl.
    - eapply rw_trans; [apply A_assoc_l_div |]. do 2 fwd. apply rw_refl.
    - eapply rw_trans; [apply A_assoc_l_mul |]. do 2 fwd. apply rw_refl.
  Qed.
  Lemma R_distrib_r : rule_ok (r_distrib_r C).
  Proof.
    unfold r_distrib_r, e_add, e_mul. rule_start; use_recs Hrec; fin3; smaller_fin.
    eapply rw_trans; [apply A_distrib_r |]. do 2 fwd. apply rw_refl.
  Qed.
  Lemma R_distrib_l : rule_ok (r_distrib_l C).
  Proof.
    unfold r_distrib_l, e_add, e_mul. rule_start; use_recs Hrec; fin3; smaller_fin.
    eapply rw_trans; [apply A_distrib_l |]. do 2 fwd. apply rw_refl.
  Qed.

  Lemma R_mul_div_cancel_l : rule_ok (r_mul_div_cancel_l C ceqb).
  Proof. unfold r_mul_div_cancel_l. rule_start; rule_same. Qed.
  Lemma R_div_mul_cancel_r : rule_ok (r_div_mul_cancel_r C c1 ceqb).
  Proof.
    unfold r_div_mul_cancel_r, e_div. rule_start; use_recs Hrec; fin3.
    - eapply rw_trans; [apply A_div_mul_cancel_r1 |]. fwd. apply rw_refl.
    - eapply rw_trans; [apply A_div_mul_cancel_r2 |]. fwd. apply rw_refl.
  Qed.
  Lemma R_mul_in_div_l : rule_ok (r_mul_in_div_l C).
  Proof.
    unfold r_mul_in_div_l, e_div, e_mul. rule_start; use_recs Hrec; fin3; smaller_fin.
    eapply rw_trans; [apply A_mul_in_div_l |]. do 2 fwd. apply rw_refl.
  Qed.
  Lemma R_mul_in_div_r : rule_ok (r_mul_in_div_r C).
  Proof.
    unfold r_mul_in_div_r, e_div, e_mul. rule_start; use_recs Hrec; fin3; smaller_fin.
    eapply rw_trans; [apply A_mul_in_div_r |]. do 2 fwd. apply rw_refl.
  Qed.
  Lemma R_div_mul_cancel_l : rule_ok (r_div_mul_cancel_l C ceqb).
  Proof. unfold r_div_mul_cancel_l. rule_start; rule_same. Qed.
  Lemma R_mul_div_cancel_r : rule_ok (r_mul_div_cancel_r C ceqb).
  Proof. unfold r_mul_div_cancel_r. rule_start; rule_same. Qed.

  Notation infix_rules := (Simplify.infix_rules C c0 c1 ctwo cnan copp cop is_zero is_one ceqb).

  Lemma infix_rules_ok : Forall rule_ok infix_rules.
  Proof.
    unfold Simplify.infix_rules.
    repeat (apply Forall_cons; [first
      [ exact R_add_zero_l | exact R_add_zero_r | exact R_sub_zero_l | exact R_sub_zero_r
      | exact R_sub_self | exact R_mul_zero | exact R_mul_one_l | exact R_mul_one_r
      | exact R_div_zero_l | exact R_div_zero_r | exact R_div_one_r | exact R_div_self
      | exact R_pow_zero_l | exact R_pow_zero_r | exact R_pow_one_l | exact R_pow_one_r
      | exact R_fold | exact R_add_neg_r | exact R_add_neg_l | exact R_sub_neg_r
      | exact R_sub_neg_l | exact R_muldiv_neg_neg | exact R_div_neg_self_r
      | exact R_div_neg_self_l | exact R_muldiv_neg_r | exact R_muldiv_neg_l
      | exact R_affine_full | exact R_affine_coeffs | exact R_affine_consts
      | exact R_assoc_r | exact R_unassoc_r | exact R_assoc_l | exact R_distrib_r
      | exact R_distrib_l | exact R_mul_div_cancel_l | exact R_div_mul_cancel_r
      | exact R_mul_in_div_l | exact R_mul_in_div_r | exact R_div_mul_cancel_l
      | exact R_mul_div_cancel_r ] |]).
    apply Forall_nil.
  Qed.

  Lemma first_rule_ok :
    forall rules, Forall rule_ok rules ->
    forall rec s l o r res s', simp_ok rec ->
      first_rule C rules rec s l o r = (res, s') -> cache_ok s ->
      rw (hits s') (Infix l o r) res /\ cache_ok s' /\ incl (hits s) (hits s').
  Proof.
    induction 1 as [|R rules HR Hrules IH]; intros rec s l o r res s' Hrec H Hc; cbn [first_rule] in H.
    - injection H as <- <-. apply fin_same; [assumption | apply rw_refl].
    - destruct (R rec s l o r) as [[res0 s0]|] eqn:E.
      + injection H as <- <-. eapply HR; eassumption.
      + eapply IH; eassumption.
  Qed.

  Lemma simplify_infix_ok rec0 rec1 :
    simp_ok rec0 -> simp_ok rec1 ->
    forall s l o r res s',
      Simplify.simplify_infix C c0 c1 ctwo cnan copp cop is_zero is_one ceqb rec0 rec1 s l o r = (res, s') ->
      cache_ok s ->
      rw (hits s') (Infix l o r) res /\ cache_ok s' /\ incl (hits s) (hits s').
  Proof.
    intros H0 H1 s l o r res s' H Hc. unfold Simplify.simplify_infix in H.
    destruct (rec0 s l) as [l' s1] eqn:E1. destruct (rec0 s1 r) as [r' s2] eqn:E2.
    destruct (H0 _ _ _ _ E1 Hc) as (Hr1 & Hc1 & Hi1).
    destruct (H0 _ _ _ _ E2 Hc1) as (Hr2 & Hc2 & Hi2).
    destruct (first_rule_ok _ infix_rules_ok _ _ _ _ _ _ _ H1 H Hc2) as (Hr3 & Hc3 & Hi3).
    fin3. fwd. lift.
  Qed.

  Lemma simplify_function_call_ok rec0 :
    simp_ok rec0 ->
    forall s f a res s',
      Simplify.simplify_function_call C cfun rec0 s f a = (res, s') -> cache_ok s ->
      rw (hits s') (Fn f a) res /\ cache_ok s' /\ incl (hits s) (hits s').
  Proof.
    intros H0 s f a res s' H Hc. unfold Simplify.simplify_function_call in H.
    destruct (rec0 s a) as [a' s1] eqn:E1.
    destruct (H0 _ _ _ _ E1 Hc) as (Hr1 & Hc1 & Hi1).
    destruct a'; injection H as <- <-; fin3;
      try (apply rw_fn; assumption).
    eapply rw_trans; [apply rw_fn; eassumption | apply A_fn_fold].
  Qed.

  Lemma simplify_prefix_ok rec0 :
    simp_ok rec0 ->
    forall s o a res s',
      Simplify.simplify_prefix C copp rec0 s o a = (res, s') -> cache_ok s ->
      rw (hits s') (Prefix o a) res /\ cache_ok s' /\ incl (hits s) (hits s').
  Proof.
    intros H0 s o a res s' H Hc. unfold Simplify.simplify_prefix, e_neg in H.
    destruct (rec0 s a) as [a' s1] eqn:E1.
    destruct (H0 _ _ _ _ E1 Hc) as (Hr1 & Hc1 & Hi1).
    destruct o.
    - injection H as <- <-. fin3.
      eapply rw_trans; [apply rw_prefix; eassumption | apply A_pos].
    - destruct a' as [c | | x | n i | f a' | [|] a' | l' o' r'];
        injection H as <- <-; fin3; try (apply rw_prefix; assumption).
      + eapply rw_trans; [apply rw_prefix; eassumption | apply A_neg_num].
      + eapply rw_trans; [apply rw_prefix; eassumption | apply A_neg_neg].
  Qed.

  Lemma with_cache_ok body : simp_ok body -> simp_ok (Simplify.with_cache C cpi ceqb body).
  Proof.
    intros Hb s e r s' H Hc. unfold Simplify.with_cache in H.
    destruct (Simplify.lookup C ceqb (cache s) e) as [r0|] eqn:El.
    - injection H as <- <-. apply fin_same; [assumption |]. apply Hc, lookup_sound, El.
    - destruct (body s e) as [r1 s1] eqn:Eb. injection H as <- <-.
      destruct (Hb _ _ _ _ Eb Hc) as (Hr0 & Hc1 & Hi). cbn [cache hits].
      assert (Hr : rw (hits s1) e (Simplify.no_bare_pi C cpi r1)).
      { eapply rw_trans; [exact Hr0 |]. destruct r1; cbn [Simplify.no_bare_pi]; try apply rw_refl.
        apply A_pi. }
      repeat split; [exact Hr | | exact Hi].
      intros k v Hin. cbn [cache hits] in *. destruct Hin as [Hin|Hin].
      + injection Hin as <- <-. exact Hr.
      + apply Hc1. exact Hin.
  Qed.

  Lemma body_zero_ok : simp_ok (Simplify.body_zero C cpi).
  Proof.
    intros s e r s' H Hc. unfold Simplify.body_zero in H.
    destruct e; injection H as <- <-; apply fin_same; try assumption; try apply rw_refl. apply A_pi.
  Qed.

  Lemma body_pos_ok rec0 rec1 :
    simp_ok rec0 -> simp_ok rec1 ->
    simp_ok (Simplify.body_pos C c0 c1 ctwo cpi cnan copp cfun cop is_zero is_one ceqb rec0 rec1).
  Proof.
    intros H0 H1 s e r s' H Hc. unfold Simplify.body_pos in H.
    destruct e.
    - injection H as <- <-. apply fin_same; [assumption | apply rw_refl].
    - injection H as <- <-. apply fin_same; [assumption | apply A_pi].
    - injection H as <- <-. apply fin_same; [assumption | apply rw_refl].
    - injection H as <- <-. apply fin_same; [assumption | apply rw_refl].
    - eapply (simplify_function_call_ok rec0 H0); eassumption.
    - eapply (simplify_prefix_ok rec0 H0); eassumption.
    - eapply simplify_infix_ok; [exact H0 | exact H1 | exact H | exact Hc].
  Qed.

  Lemma simplify_ok_pair : forall n, simp_ok (simplify n) /\ simp_ok (simplify (S n)).
  Proof.
    induction n as [|n [IH0 IH1]].
    - assert (H0 : simp_ok (simplify 0)) by (apply with_cache_ok, body_zero_ok).
      split; [exact H0 |]. cbn [Simplify.simplify]. apply with_cache_ok, body_pos_ok; exact H0.
    - split; [exact IH1 |].
      change (simp_ok (Simplify.with_cache C cpi ceqb
                (Simplify.body_pos C c0 c1 ctwo cpi cnan copp cfun cop is_zero is_one ceqb
                   (simplify (S n)) (simplify n)))).
      apply with_cache_ok, body_pos_ok; assumption.
  Qed.

  Lemma simplify_ok : forall n, simp_ok (simplify n).
  Proof. intro n. exact (proj1 (simplify_ok_pair n)). Qed.

  Notation run_st := (Simplify.run_st C c0 c1 ctwo cpi cnan copp cfun cop is_zero is_one ceqb).
  Notation run := (Simplify.run C c0 c1 ctwo cpi cnan copp cfun cop is_zero is_one ceqb).

  Lemma run_rw : forall e, rw (hits (snd (run_st e))) e (run e).
  Proof.
    intro e. unfold Simplify.run, Simplify.run_st.
    destruct (simplify LIMIT (st_empty C) e) as [r s'] eqn:E.
    destruct (simplify_ok LIMIT _ _ _ _ E) as (Hr & _ & _).
    - intros k v Hin. destruct Hin.
    - exact Hr.
  Qed.

  (** The excluded class, decidably: some exponent on which [0^x -> 0] fired evaluates to 0. *)
  Definition evals_to_zero (x : ex) : bool :=
    match ev x with Some v => if c_eq_dec v c0 then true else false | None => false end.
  Definition Known_zero_pow (e : ex) : bool := existsb evals_to_zero (hits (snd (run_st e))).

  Lemma known_false_no_bad e : Known_zero_pow e = false -> no_bad (hits (snd (run_st e))).
  Proof.
    unfold Known_zero_pow. intros H x Hin Hx.
    assert (Hex : existsb evals_to_zero (hits (snd (run_st e))) = true).
    { apply existsb_exists. exists x. split; [exact Hin |].
      unfold evals_to_zero. rewrite Hx. destruct (c_eq_dec c0 c0); congruence. }
    congruence.
  Qed.

  Theorem simplify_preserves_value :
    forall e v, ev e = Some v -> Known_zero_pow e = false -> ev (run e) = Some v.
  Proof.
    intros e v Hv Hk. exact (rw_pres _ _ _ (run_rw e) (known_false_no_bad e Hk) v Hv).
  Qed.

  Theorem simplify_no_new_names :
    forall e, incl (vars (run e)) (vars e) /\ incl (addrs (run e)) (addrs e).
  Proof. intro e. exact (rw_sub _ _ _ (run_rw e)). Qed.

  (** * Part 3: pi.  [simplify] replaces the symbol pi by a number wherever the limit lets it
      look; the claimed invariant "never returns PiConstant" holds for inputs of depth <= LIMIT
      (and fails beyond: see C12_no_pi_refuted). *)
  Definition cache_pf (s : st) : Prop := forall k v, In (k, v) (cache s) -> has_pi v = false.
  Definition simp_pf (f : simp) : Prop :=
    forall s e r s', f s e = (r, s') -> cache_ok s -> cache_pf s -> has_pi e = false ->
      has_pi r = false /\ cache_pf s'.
  Definition simp_pfd (n : nat) (f : simp) : Prop :=
    forall s e r s', f s e = (r, s') -> cache_ok s -> cache_pf s ->
      (depth e <= n)%nat \/ has_pi e = false ->
      has_pi r = false /\ cache_pf s'.
  Definition rule_pf (R : rule) : Prop :=
    forall rec s l o r res s', simp_ok rec -> simp_pf rec -> R rec s l o r = Some (res, s') ->
      cache_ok s -> cache_pf s -> has_pi l = false -> has_pi r = false -> cache_pf s'.

  Lemma simp_pfd_pf n f : simp_pfd n f -> simp_pf f.
  Proof. intros H s e r s' E Hc Hp Hq. eapply H; eauto. Qed.

  Ltac pf_split :=
    repeat match goal with
      | H : has_pi (_ _) = false |- _ => progress (cbn [has_pi] in H)
      | H : _ || _ = false |- _ => apply orb_false_iff in H; destruct H
      end.
  Ltac pf_solve :=
    cbn [has_pi];
    repeat match goal with
      | H : has_pi ?x = false |- context [has_pi ?x] => rewrite H
      end;
    reflexivity.
  Ltac use_recs_pf Hrec Hpf :=
    repeat match goal with
      | E : ?rec ?s ?e = (?r, ?s1), Hc : cache_ok ?s, Hp : cache_pf ?s |- _ =>
          lazymatch goal with
          | _ : rw (hits s1) e r |- _ => fail
          | _ =>
              let Hr := fresh "Hr" in
              let Hc' := fresh "Hc" in
              let Hi := fresh "Hi" in
              let Hq := fresh "Hq" in
              let Hq' := fresh "Hq" in
              let Hp' := fresh "Hp" in
              destruct (Hrec _ _ _ _ E Hc) as (Hr & Hc' & Hi);
              assert (Hq : has_pi e = false) by pf_solve;
              destruct (Hpf _ _ _ _ E Hc Hp Hq) as (Hq' & Hp')
          end
      end.
  Ltac rule_pf_tac :=
    let Hpf := fresh "Hpf" in
    let Hp := fresh "Hp" in
    let Hl := fresh "Hl" in
    let Hr := fresh "Hr" in
    intros rec s l o r res s' Hrec Hpf H Hc Hp Hl Hr;
    revert Hpf Hp Hl Hr; revert rec s l o r res s' Hrec H Hc;
    rule_start; intros Hpf Hp Hl Hr;
    try match goal with H : (_, _) = (_, _) |- _ => injection H as ? ?; subst end;
    pf_split; use_recs_pf Hrec Hpf; solve [ assumption | cbn [cache]; assumption ].

  Lemma infix_rules_pf : Forall rule_pf infix_rules.
  Proof.
    unfold Simplify.infix_rules.
    repeat (apply Forall_cons; [|]); try apply Forall_nil.
    all: unfold r_add_zero_l, r_add_zero_r, r_sub_zero_l, r_sub_zero_r, r_sub_self, r_mul_zero,
      r_mul_one_l, r_mul_one_r, r_div_zero_l, r_div_zero_r, r_div_one_r, r_div_self, r_pow_zero_l,
      r_pow_zero_r, r_pow_one_l, r_pow_one_r, r_fold, r_add_neg_r, r_add_neg_l, r_sub_neg_r,
      r_sub_neg_l, r_muldiv_neg_neg, r_div_neg_self_r, r_div_neg_self_l, r_muldiv_neg_r,
      r_muldiv_neg_l, r_affine_full, r_affine_coeffs, r_affine_consts, r_assoc_r, r_unassoc_r,
      r_assoc_l, r_distrib_r, r_distrib_l, r_mul_div_cancel_l, r_div_mul_cancel_r,
      r_mul_in_div_l, r_mul_in_div_r, r_div_mul_cancel_l, r_mul_div_cancel_r,
      e_add, e_sub, e_mul, e_div, e_neg, inverse_op.
    all: rule_pf_tac.
  Qed.

  Lemma first_rule_pf :
    forall rules, Forall rule_ok rules -> Forall rule_pf rules ->
    forall rec s l o r res s', simp_ok rec -> simp_pf rec ->
      first_rule C rules rec s l o r = (res, s') -> cache_ok s -> cache_pf s ->
      has_pi l = false -> has_pi r = false ->
      has_pi res = false /\ cache_pf s'.
  Proof.
    intros rules Hok. induction Hok as [|R rules HR Hrules IH];
      intros Hpfs rec s l o r res s' Hrec Hpf H Hc Hp Hl Hr; cbn [first_rule] in H.
    - injection H as <- <-. split; [cbn [has_pi]; rewrite Hl, Hr; reflexivity | exact Hp].
    - inversion Hpfs as [|R' rules' HRpf Hrules_pf]; subst.
      destruct (R rec s l o r) as [[res0 s0]|] eqn:E.
      + injection H as <- <-. split.
        * destruct (HR _ _ _ _ _ _ _ Hrec E Hc) as (Hrw & _ & _).
          apply (rw_pf _ _ _ Hrw). cbn [has_pi]. rewrite Hl, Hr. reflexivity.
        * eapply HRpf; eassumption.
      + eapply IH; eassumption.
  Qed.

  Lemma with_cache_pfd n body : simp_ok body -> simp_pfd n body ->
                                simp_pfd n (Simplify.with_cache C cpi ceqb body).
  Proof.
    intros Hok Hb s e r s' H Hc Hp Hd. unfold Simplify.with_cache in H.
    destruct (Simplify.lookup C ceqb (cache s) e) as [r0|] eqn:El.
    - injection H as <- <-. split; [| exact Hp]. eapply Hp, lookup_sound, El.
    - destruct (body s e) as [r1 s1] eqn:Eb. injection H as <- <-.
      destruct (Hb _ _ _ _ Eb Hc Hp Hd) as (Hq0 & Hp1).
      assert (Hq : has_pi (Simplify.no_bare_pi C cpi r1) = false)
        by (destruct r1; cbn [Simplify.no_bare_pi has_pi] in *; congruence).
      split; [exact Hq |].
      intros k v Hin. cbn [cache] in Hin. destruct Hin as [Hin|Hin].
      + injection Hin as <- <-. exact Hq.
      + eapply Hp1. exact Hin.
  Qed.

  Lemma body_zero_pfd : simp_pfd 0 (Simplify.body_zero C cpi).
  Proof.
    intros s e r s' H Hc Hp Hd. unfold Simplify.body_zero in H.
    destruct e; injection H as <- <-; (split; [| exact Hp]); try reflexivity;
      destruct Hd as [Hd|Hd]; try exact Hd; cbn [depth] in Hd; lia.
  Qed.

  Lemma depth_or_pf_fn n f (a : ex) :
    (depth (Fn f a) <= S n)%nat \/ has_pi (Fn f a) = false -> (depth a <= n)%nat \/ has_pi a = false.
  Proof. cbn [depth has_pi]. intros [H|H]; [left; lia | right; exact H]. Qed.
  Lemma depth_or_pf_prefix n o (a : ex) :
    (depth (Prefix o a) <= S n)%nat \/ has_pi (Prefix o a) = false ->
    (depth a <= n)%nat \/ has_pi a = false.
  Proof. cbn [depth has_pi]. intros [H|H]; [left; lia | right; exact H]. Qed.
  Lemma depth_or_pf_infix n o (a b : ex) :
    (depth (Infix a o b) <= S n)%nat \/ has_pi (Infix a o b) = false ->
    ((depth a <= n)%nat \/ has_pi a = false) /\ ((depth b <= n)%nat \/ has_pi b = false).
  Proof.
    cbn [depth has_pi]. intros [H|H]; [split; left; lia |].
    apply orb_false_iff in H. destruct H. split; right; assumption.
  Qed.

  Lemma body_pos_pfd n rec0 rec1 :
    simp_ok rec0 -> simp_ok rec1 -> simp_pfd n rec0 -> simp_pf rec1 ->
    simp_pfd (S n)
      (Simplify.body_pos C c0 c1 ctwo cpi cnan copp cfun cop is_zero is_one ceqb rec0 rec1).
  Proof.
    intros H0 H1 P0 P1 s e r s' H Hc Hp Hd. unfold Simplify.body_pos in H.
    destruct e as [c | | x | nm i | f a | o a | l o rr].
    - injection H as <- <-. split; [reflexivity | exact Hp].
    - injection H as <- <-. split; [reflexivity | exact Hp].
    - injection H as <- <-. split; [reflexivity | exact Hp].
    - injection H as <- <-. split; [reflexivity | exact Hp].
    - unfold Simplify.simplify_function_call in H.
      destruct (rec0 s a) as [a' s1] eqn:E1.
      destruct (P0 _ _ _ _ E1 Hc Hp (depth_or_pf_fn _ _ _ Hd)) as (Hq & Hp1).
      destruct a'; injection H as <- <-; (split; [| exact Hp1]); try reflexivity; exact Hq.
    - unfold Simplify.simplify_prefix, e_neg in H.
      destruct (rec0 s a) as [a' s1] eqn:E1.
      destruct (P0 _ _ _ _ E1 Hc Hp (depth_or_pf_prefix _ _ _ Hd)) as (Hq & Hp1).
      destruct o.
      + injection H as <- <-. split; assumption.
      + destruct a' as [c | | x | nm i | f a' | [|] a' | l' o' r'];
          injection H as <- <-; (split; [| exact Hp1]); try reflexivity; exact Hq.
    - unfold Simplify.simplify_infix in H.
      destruct (depth_or_pf_infix _ _ _ _ Hd) as (Hdl & Hdr).
      destruct (rec0 s l) as [l' s1] eqn:E1. destruct (rec0 s1 rr) as [r' s2] eqn:E2.
      destruct (H0 _ _ _ _ E1 Hc) as (_ & Hc1 & _).
      destruct (P0 _ _ _ _ E1 Hc Hp Hdl) as (Hql & Hp1).
      destruct (H0 _ _ _ _ E2 Hc1) as (_ & Hc2 & _).
      destruct (P0 _ _ _ _ E2 Hc1 Hp1 Hdr) as (Hqr & Hp2).
      exact (first_rule_pf _ infix_rules_ok infix_rules_pf _ _ _ _ _ _ _ H1 P1 H Hc2 Hp2 Hql Hqr).
  Qed.

  Lemma simplify_pfd_pair : forall n, simp_pfd n (simplify n) /\ simp_pfd (S n) (simplify (S n)).
  Proof.
    induction n as [|n [IH0 IH1]].
    - assert (H0 : simp_pfd 0 (simplify 0)).
      { apply with_cache_pfd; [apply body_zero_ok | apply body_zero_pfd]. }
      split; [exact H0 |]. cbn [Simplify.simplify].
      apply with_cache_pfd.
      + apply body_pos_ok; apply (simplify_ok 0).
      + apply body_pos_pfd; try apply (simplify_ok 0); [exact H0 | eapply simp_pfd_pf; exact H0].
    - split; [exact IH1 |].
      change (simp_pfd (S (S n)) (Simplify.with_cache C cpi ceqb
                (Simplify.body_pos C c0 c1 ctwo cpi cnan copp cfun cop is_zero is_one ceqb
                   (simplify (S n)) (simplify n)))).
      apply with_cache_pfd.
      + apply body_pos_ok; apply simplify_ok.
      + apply body_pos_pfd; try apply simplify_ok; [exact IH1 | eapply simp_pfd_pf; exact IH0].
  Qed.

  Theorem simplify_pi_free :
    forall e, (depth e <= LIMIT)%nat -> has_pi (run e) = false.
  Proof.
    intros e Hd. unfold Simplify.run, Simplify.run_st.
    destruct (simplify LIMIT (st_empty C) e) as [r s'] eqn:E. cbn [fst].
    destruct (proj1 (simplify_pfd_pair LIMIT) _ _ _ _ E) as (Hq & _).
    - intros k v Hin. destruct Hin.
    - intros k v Hin. destruct Hin.
    - left. exact Hd.
    - exact Hq.
  Qed.

  (** Since fix 7232075: the result is never the bare symbol pi, whatever the depth. *)
  Theorem simplify_never_bare_pi : forall e, run e <> Pi.
  Proof.
    intro e. unfold Simplify.run, Simplify.run_st, LIMIT. cbn [Simplify.simplify].
    unfold Simplify.with_cache at 1. cbn [cache st_empty Simplify.lookup].
    match goal with |- context [let '(r0, s') := ?b in _] => destruct b as [r0 s'] end.
    cbn [fst]. destruct r0; cbn [Simplify.no_bare_pi]; discriminate.
  Qed.
End SimplifySound.

(** * Packaging: a "field model" is a carrier with the operations the simplifier and the evaluator
    use and the laws the proofs need.  The theorems of C12 quantify over all of them. *)
Record field_model : Type := {
  fm_C : Type;
  fm_0 : fm_C; fm_1 : fm_C;
  fm_add : fm_C -> fm_C -> fm_C; fm_mul : fm_C -> fm_C -> fm_C; fm_sub : fm_C -> fm_C -> fm_C;
  fm_opp : fm_C -> fm_C; fm_div : fm_C -> fm_C -> fm_C; fm_inv : fm_C -> fm_C;
  fm_field : field_theory fm_0 fm_1 fm_add fm_mul fm_sub fm_opp fm_div fm_inv (@eq fm_C);
  fm_eq_dec : forall x y : fm_C, {x = y} + {x <> y};
  fm_pi : fm_C; fm_nan : fm_C;
  fm_fun : efn -> fm_C -> fm_C;
  fm_ppow : fm_C -> fm_C -> option fm_C;
  fm_cop : infix_op -> fm_C -> fm_C -> fm_C;
  fm_is_zero : fm_C -> bool; fm_is_one : fm_C -> bool;
  fm_ceqb : fm_C -> fm_C -> bool;
  fm_is_zero_sound : forall x, fm_is_zero x = true -> x = fm_0;
  fm_is_one_sound : forall x, fm_is_one x = true -> x = fm_1;
  fm_ceqb_sound : forall x y, fm_ceqb x y = true -> x = y;
  fm_cop_sound : forall o x y v,
      pinfix fm_C fm_0 fm_add fm_mul fm_sub fm_div fm_eq_dec fm_ppow o x y = Some v -> fm_cop o x y = v;
  fm_pow_zero_r : forall x v, fm_ppow x fm_0 = Some v -> v = fm_1;
  fm_pow_one_r : forall x v, fm_ppow x fm_1 = Some v -> v = x;
  fm_pow_one_l : forall y v, fm_ppow fm_1 y = Some v -> v = fm_1;
  fm_pow_zero_l : forall y v, fm_ppow fm_0 y = Some v -> y <> fm_0 -> v = fm_0;
}.

(** Evaluation in a field model (memory cells are values of the carrier). *)
Definition fm_alg (F : field_model) : alg (fm_C F) (fm_C F) (fm_C F) :=
  FA (fm_C F) (fm_0 F) (fm_add F) (fm_mul F) (fm_sub F) (fm_opp F) (fm_div F) (fm_eq_dec F)
     (fm_pi F) (fm_fun F) (fm_ppow F) (fm_C F) (fun m => m).
Definition fm_eval (F : field_model) rv rm (e : expr (fm_C F)) : option (fm_C F) :=
  eval (fm_alg F) rv rm e.

(** The simplifier in a field model: [simplification::run]. *)
Definition fm_run_st (F : field_model) (e : expr (fm_C F)) :=
  run_st (fm_C F) (fm_0 F) (fm_1 F) (fm_add F (fm_1 F) (fm_1 F)) (fm_pi F) (fm_nan F) (fm_opp F)
         (fm_fun F) (fm_cop F) (fm_is_zero F) (fm_is_one F) (fm_ceqb F) e.
Definition fm_run (F : field_model) (e : expr (fm_C F)) : expr (fm_C F) := fst (fm_run_st F e).

(** The excluded class (known finding zero-base-power): an exponent on which the arm
    [0^x -> 0] fired evaluates to 0 under the assignment. *)
Definition fm_known_zero_pow (F : field_model) rv rm (e : expr (fm_C F)) : bool :=
  existsb (fun x => match fm_eval F rv rm x with
                    | Some v => if fm_eq_dec F v (fm_0 F) then true else false
                    | None => false
                    end)
          (hits (snd (fm_run_st F e))).

Lemma fm_value :
  forall (F : field_model) rv rm (e : expr (fm_C F)) (v : fm_C F),
    fm_eval F rv rm e = Some v -> fm_known_zero_pow F rv rm e = false ->
    fm_eval F rv rm (fm_run F e) = Some v.
Proof.
  intros F rv rm e v Hv Hk.
  exact (simplify_preserves_value (fm_C F) (fm_0 F) (fm_1 F) (fm_add F) (fm_mul F) (fm_sub F)
           (fm_opp F) (fm_div F) (fm_inv F) (fm_field F) (fm_eq_dec F) (fm_pi F) (fm_nan F)
           (fm_fun F) (fm_ppow F) (fm_cop F) (fm_is_zero F) (fm_is_one F) (fm_ceqb F) (fm_C F)
           (fun m => m) (fm_is_zero_sound F) (fm_is_one_sound F) (fm_ceqb_sound F) (fm_cop_sound F)
           (fm_pow_zero_r F) (fm_pow_one_r F) (fm_pow_one_l F) (fm_pow_zero_l F) rv rm e v Hv Hk).
Qed.

Lemma fm_names :
  forall (F : field_model) (e : expr (fm_C F)),
    incl (vars (fm_run F e)) (vars e) /\ incl (addrs (fm_run F e)) (addrs e).
Proof.
  intros F e.
  exact (simplify_no_new_names (fm_C F) (fm_0 F) (fm_1 F) (fm_add F) (fm_opp F) (fm_pi F) (fm_nan F)
           (fm_fun F) (fm_cop F) (fm_is_zero F) (fm_is_one F) (fm_ceqb F) (fm_C F) (fm_ceqb_sound F)
           (fun _ => None) (fun _ => None) e).
Qed.

Lemma fm_never_bare_pi :
  forall (F : field_model) (e : expr (fm_C F)), fm_run F e <> Pi.
Proof.
  intros F e.
  exact (simplify_never_bare_pi (fm_C F) (fm_0 F) (fm_1 F) (fm_add F) (fm_opp F) (fm_pi F) (fm_nan F)
           (fm_fun F) (fm_cop F) (fm_is_zero F) (fm_is_one F) (fm_ceqb F) e).
Qed.

Lemma fm_pi_free :
  forall (F : field_model) (e : expr (fm_C F)),
    (depth e <= LIMIT)%nat -> has_pi (fm_run F e) = false.
Proof.
  intros F e.
  exact (simplify_pi_free (fm_C F) (fm_0 F) (fm_1 F) (fm_add F) (fm_opp F) (fm_pi F) (fm_nan F)
           (fm_fun F) (fm_cop F) (fm_is_zero F) (fm_is_one F) (fm_ceqb F) (fm_ceqb_sound F) e).
Qed.
