(** Proofs about the numeric-literal model (property C05). *)
From Coq Require Import List NArith ZArith Bool Lia.
From QV Require Import Model.LexNum.
Import ListNotations.
Open Scope N_scope.

(** ** Checked accumulation = unbounded value + range test *)
Lemma horner_ge : forall r ds acc, 1 <= r -> acc <= horner r acc ds.
Proof.
  induction ds as [|d t IH]; intros acc Hr; cbn [horner]; [lia|].
  specialize (IH (acc * r + d) Hr). nia.
Qed.

Lemma acc_u64_some : forall r ds acc v,
  acc < two64 -> acc_u64 r acc ds = Some v -> v = horner r acc ds /\ v < two64.
Proof.
  induction ds as [|d t IH]; intros acc v Hacc H; cbn [acc_u64 horner] in *.
  - injection H as <-. split; [reflexivity | exact Hacc].
  - destruct (acc * r + d <? two64) eqn:Hlt; [|discriminate].
    apply N.ltb_lt in Hlt. exact (IH _ _ Hlt H).
Qed.

Lemma acc_u64_none : forall r ds acc,
  1 <= r -> acc_u64 r acc ds = None -> two64 <= horner r acc ds.
Proof.
  induction ds as [|d t IH]; intros acc Hr H; cbn [acc_u64 horner] in *; [discriminate|].
  destruct (acc * r + d <? two64) eqn:Hlt.
  - exact (IH _ Hr H).
  - apply N.ltb_ge in Hlt. pose proof (horner_ge r t (acc * r + d) Hr). lia.
Qed.

Lemma acc_u64_complete : forall r ds acc,
  1 <= r -> horner r acc ds < two64 -> acc_u64 r acc ds = Some (horner r acc ds).
Proof.
  induction ds as [|d t IH]; intros acc Hr H; cbn [acc_u64 horner] in *; [reflexivity|].
  pose proof (horner_ge r t (acc * r + d) Hr) as Hge.
  destruct (acc * r + d <? two64) eqn:Hlt.
  - exact (IH _ Hr H).
  - apply N.ltb_ge in Hlt. lia.
Qed.

(** ** Digit runs *)
Definition char_ok (r c : N) : Prop := c = c_US \/ exists d, digit r c = Some d.

Definition digits_of (r : N) (body : list N) : list N :=
  flat_map (fun c => match digit r c with Some d => [d] | None => [] end) body.

Lemma digit_US : forall r, digit r c_US = None.
Proof. reflexivity. Qed.

Lemma digit_lt : forall r c d, digit r c = Some d -> d < r.
Proof.
  intros r c d H. unfold digit in H. destruct (digit_val c) as [x|]; [|discriminate].
  destruct (x <? r) eqn:Hx; [|discriminate]. injection H as <-. now apply N.ltb_lt.
Qed.

(** what stops a run: end of input, or a byte that is neither a separator nor a digit *)
Definition run_stops (r : N) (rest : list N) : Prop :=
  match rest with c :: _ => c <> c_US /\ digit r c = None | [] => True end.

Lemma run_spec : forall r l ds k rest,
  run r l = (ds, k, rest) ->
  exists body, l = body ++ rest /\ N.of_nat (length body) = k /\ Forall (char_ok r) body /\
               ds = digits_of r body /\ run_stops r rest.
Proof.
  induction l as [|c t IH]; intros ds k rest H; cbn [run] in H.
  - injection H as <- <- <-. exists []. repeat split; constructor.
  - destruct (c =? c_US) eqn:Hus.
    + apply N.eqb_eq in Hus. subst c.
      destruct (run r t) as [[ds' k'] rest'] eqn:Hr. injection H as <- <- <-.
      destruct (IH _ _ _ eq_refl) as (body & -> & Hlen & Hall & -> & Hstop).
      exists (c_US :: body). repeat split.
      * cbn [length]. lia.
      * constructor; [now left | exact Hall].
      * exact Hstop.
    + destruct (digit r c) as [d|] eqn:Hd.
      * destruct (run r t) as [[ds' k'] rest'] eqn:Hr. injection H as <- <- <-.
        destruct (IH _ _ _ eq_refl) as (body & -> & Hlen & Hall & -> & Hstop).
        exists (c :: body). repeat split.
        -- cbn [length]. lia.
        -- constructor; [right; now exists d | exact Hall].
        -- unfold digits_of. cbn [flat_map]. rewrite Hd. reflexivity.
        -- exact Hstop.
      * injection H as <- <- <-. exists []. repeat split; try constructor.
        -- apply N.eqb_neq in Hus. exact Hus.
        -- exact Hd.
Qed.

(** ** Integer tokens carry the exact value of their digits *)
Inductive radix_prefix : list N -> N -> Prop :=
| RP_dec : radix_prefix [] 10
| RP_bin c : c = 98 \/ c = 66 -> radix_prefix [48; c] 2
| RP_oct c : c = 111 \/ c = 79 -> radix_prefix [48; c] 8
| RP_hex c : c = 120 \/ c = 88 -> radix_prefix [48; c] 16.

(** [l] splits as an optional base prefix, a body of digits and separators of that radix with at
    least one digit, and the rest; [v] is the value of the body's digits *)
Definition int_literal (l : list N) (v : N) (rest : list N) : Prop :=
  exists pre r body,
    l = pre ++ body ++ rest /\ radix_prefix pre r /\ digits_of r body <> [] /\
    Forall (char_ok r) body /\ v = horner r 0 (digits_of r body) /\ run_stops r rest.

Lemma lex_prefixed_ok : forall r p l t rest,
  1 <= r -> lex_prefixed r p l = NOk t rest ->
  exists c body v,
    l = 48 :: c :: body ++ rest /\ (c = p \/ c = p - 32) /\ digits_of r body <> [] /\
    Forall (char_ok r) body /\
    t = TInt v /\ v = horner r 0 (digits_of r body) /\ v < two64 /\ run_stops r rest.
Proof.
  intros r p l t rest Hr H. unfold lex_prefixed in H.
  destruct l as [|c0 [|c1 tl]]; try discriminate.
  destruct ((c0 =? c_0) && ((c1 =? p) || (c1 =? p - 32))) eqn:Hp; [|discriminate].
  apply andb_true_iff in Hp as [H0 H1]. apply N.eqb_eq in H0. subst c0.
  destruct (run r tl) as [[ds k] rest'] eqn:Hrun.
  destruct ds as [|d0 ds']; [discriminate|].
  destruct (acc_u64 r 0 (d0 :: ds')) as [v|] eqn:Hacc; [|discriminate]. injection H as <- <-.
  destruct (run_spec _ _ _ _ _ Hrun) as (body & -> & Hlen & Hall & Hds & Hstop).
  assert (H0lt : 0 < two64) by reflexivity.
  destruct (acc_u64_some _ _ _ _ H0lt Hacc) as [Hv Hlt].
  exists c1, body, v. rewrite <- Hds. repeat split; try assumption.
  - apply orb_true_iff in H1 as [H1|H1]; apply N.eqb_eq in H1; [now left | now right].
  - discriminate.
Qed.

Lemma lex_prefixed_shape : forall r p l,
  lex_prefixed r p l = NErr \/ lex_prefixed r p l = NFail \/
  exists v rest, lex_prefixed r p l = NOk (TInt v) rest.
Proof.
  intros r p l. unfold lex_prefixed.
  destruct l as [|c0 [|c1 tl]]; try (now left).
  destruct ((c0 =? c_0) && ((c1 =? p) || (c1 =? p - 32))); [|now left].
  destruct (run r tl) as [[ds k] rest']. destruct ds as [|d0 ds']; [right; now left|].
  destruct (acc_u64 r 0 (d0 :: ds')) as [v|]; [|right; now left]. right. right. now exists v, rest'.
Qed.

(** [lex_float] yields a float token or a hard failure, never an integer and never a recoverable
    error *)
Lemma lex_float_shape : forall l,
  lex_float l = NFail \/ exists m e rest, lex_float l = NOk (TFloat m e) rest.
Proof.
  intro l. unfold lex_float.
  repeat match goal with
         | |- context [let '(_, _) := ?x in _] => destruct x
         | |- context [match ?x with _ => _ end] => destruct x
         | |- context [if ?x then _ else _] => destruct x
         end; (now left) || (right; eauto).
Qed.

(** ** [lex_decimal] *)
Lemma run_first_digit : forall r c t d,
  digit r c = Some d -> exists ds k rest, run r (c :: t) = (d :: ds, k + 1, rest) /\ run r t = (ds, k, rest).
Proof.
  intros r c t d Hd. cbn [run].
  assert (Hus : (c =? c_US) = false).
  { apply N.eqb_neq. intros ->. rewrite digit_US in Hd. discriminate. }
  rewrite Hus, Hd. destruct (run r t) as [[ds k] rest]. now exists ds, k, rest.
Qed.

(** what follows an integer token is not a decimal point or exponent marker *)
Definition not_float_marker (rest : list N) : Prop :=
  match rest with c :: _ => c <> c_DOT /\ c <> c_e /\ c <> c_E | [] => True end.

Lemma lex_decimal_int : forall l v rest,
  lex_decimal l = NOk (TInt v) rest ->
  exists body, l = body ++ rest /\ body <> [] /\ Forall (char_ok 10) body /\
               v = horner 10 0 (digits_of 10 body) /\ v < two64 /\ run_stops 10 rest /\
               not_float_marker rest /\ digits_of 10 body <> [].
Proof.
  intros l v rest H. unfold lex_decimal in H. destruct l as [|c t]; [discriminate|].
  destruct (c =? c_DOT) eqn:Hdot.
  { destruct (lex_float_shape (c :: t)) as [Hf|(m & e & r & Hf)]; rewrite Hf in H; discriminate. }
  destruct (digit 10 c) as [d|] eqn:Hd; [|discriminate].
  destruct (run_first_digit 10 c t d Hd) as (ds & k & rest' & Hrun & _).
  rewrite Hrun in H.
  destruct (acc_u64 10 0 (d :: ds)) as [v'|] eqn:Hacc; [|discriminate].
  assert (H0lt : 0 < two64) by reflexivity.
  destruct (acc_u64_some _ _ _ _ H0lt Hacc) as [Hv Hlt].
  destruct (run_spec _ _ _ _ _ Hrun) as (body & Hl & Hlen & Hall & Hds & Hstop).
  assert (Hbody : body <> []).
  { intros ->. unfold digits_of in Hds. cbn [flat_map] in Hds. discriminate. }
  destruct rest' as [|c' t'].
  - injection H as <- <-. exists body. repeat split; try assumption.
    + now rewrite <- Hds.
    + rewrite <- Hds. discriminate.
  - destruct ((c' =? c_DOT) || is_exp_char c') eqn:Hm.
    { destruct (lex_float_shape (c :: t)) as [Hf|(m & e & r & Hf)]; rewrite Hf in H; discriminate. }
    injection H as <- <-. exists body.
    apply orb_false_iff in Hm as [Hm1 Hm2]. unfold is_exp_char in Hm2.
    apply orb_false_iff in Hm2 as [He1 He2].
    apply N.eqb_neq in Hm1. apply N.eqb_neq in He1. apply N.eqb_neq in He2.
    split; [exact Hl|]. split; [exact Hbody|]. split; [exact Hall|].
    split; [now rewrite <- Hds|]. split; [exact Hlt|]. split; [exact Hstop|].
    split; [cbn; auto|]. rewrite <- Hds. discriminate.
Qed.

Lemma lex_decimal_float : forall l m e rest,
  lex_decimal l = NOk (TFloat m e) rest ->
  exists ib c tl, l = ib ++ c :: tl /\ Forall (char_ok 10) ib /\ (c = c_DOT \/ c = c_e \/ c = c_E) /\
                  lex_float l = NOk (TFloat m e) rest.
Proof.
  intros l m e rest H. unfold lex_decimal in H. destruct l as [|c t]; [discriminate|].
  destruct (c =? c_DOT) eqn:Hdot.
  { apply N.eqb_eq in Hdot. subst c. exists [], c_DOT, t. repeat split; auto. }
  destruct (digit 10 c) as [d|] eqn:Hd; [|discriminate].
  destruct (run_first_digit 10 c t d Hd) as (ds & k & rest' & Hrun & _).
  rewrite Hrun in H.
  destruct (acc_u64 10 0 (d :: ds)) as [v'|]; [|discriminate].
  destruct (run_spec _ _ _ _ _ Hrun) as (body & Hl & _ & Hall & _ & _).
  destruct rest' as [|c' t']; [discriminate|].
  destruct ((c' =? c_DOT) || is_exp_char c') eqn:Hm; [|discriminate].
  exists body, c', t'. repeat split; try assumption.
  apply orb_true_iff in Hm as [Hm|Hm]; [left; now apply N.eqb_eq|].
  unfold is_exp_char in Hm. apply orb_true_iff in Hm as [Hm|Hm]; apply N.eqb_eq in Hm; auto.
Qed.

(** ** [lex_number]: an integer token is the exact value of a well-formed integer literal *)
Theorem lex_number_int : forall l v rest,
  lex_number l = NOk (TInt v) rest -> int_literal l v rest /\ v < two64.
Proof.
  intros l v rest H. unfold lex_number in H.
  assert (Hpre : forall r p,
             1 <= r -> (forall c, (c = p \/ c = p - 32) -> radix_prefix [48; c] r) ->
             lex_prefixed r p l = NOk (TInt v) rest -> int_literal l v rest /\ v < two64).
  { intros r p Hr Hrp Hl.
    destruct (lex_prefixed_ok _ _ _ _ _ Hr Hl) as (c & body & v' & -> & Hc & Hne & Hall & Ht & Hv & Hlt & Hs).
    injection Ht as <-. split; [|exact Hlt].
    exists [48; c], r, body. repeat split; auto. }
  destruct (lex_prefixed_shape 2 98 l) as [E|[E|(v1 & r1 & E)]]; rewrite E in H; try discriminate.
  2:{ rewrite <- E in H. apply (Hpre 2 98); [lia| |exact H].
      intros c [->| ->]; apply RP_bin; auto. }
  destruct (lex_prefixed_shape 8 111 l) as [E2|[E2|(v2 & r2 & E2)]]; rewrite E2 in H; try discriminate.
  2:{ rewrite <- E2 in H. apply (Hpre 8 111); [lia| |exact H].
      intros c [->| ->]; apply RP_oct; auto. }
  destruct (lex_prefixed_shape 16 120 l) as [E3|[E3|(v3 & r3 & E3)]]; rewrite E3 in H; try discriminate.
  2:{ rewrite <- E3 in H. apply (Hpre 16 120); [lia| |exact H].
      intros c [->| ->]; apply RP_hex; auto. }
  destruct (lex_decimal_int _ _ _ H) as (body & -> & Hne & Hall & Hv & Hlt & Hs & _ & Hdig).
  split; [|exact Hlt]. exists [], 10, body. repeat split; auto. constructor.
Qed.

(** a literal whose digits are worth 2^64 or more is never turned into an integer token (no
    wrapping, no truncation): it is the statement above read contrapositively *)
Corollary lex_number_no_wrap : forall l v rest,
  lex_number l = NOk (TInt v) rest -> v < two64.
Proof. intros l v rest H. exact (proj2 (lex_number_int _ _ _ H)). Qed.

(** a float token only arises from decimal text that has a decimal point or an exponent marker
    right after its integer digits; an integer token only when no such marker follows *)
Theorem lex_number_float : forall l m e rest,
  lex_number l = NOk (TFloat m e) rest ->
  exists ib c tl, l = ib ++ c :: tl /\ Forall (char_ok 10) ib /\ (c = c_DOT \/ c = c_e \/ c = c_E).
Proof.
  intros l m e rest H. unfold lex_number in H.
  destruct (lex_prefixed_shape 2 98 l) as [E|[E|(v1 & r1 & E)]]; rewrite E in H; try discriminate.
  destruct (lex_prefixed_shape 8 111 l) as [E2|[E2|(v2 & r2 & E2)]]; rewrite E2 in H; try discriminate.
  destruct (lex_prefixed_shape 16 120 l) as [E3|[E3|(v3 & r3 & E3)]]; rewrite E3 in H; try discriminate.
  destruct (lex_decimal_float _ _ _ _ H) as (ib & c & tl & Hl & Hall & Hc & _).
  now exists ib, c, tl.
Qed.

(** ** The signed conversion *)
Theorem signed_operand_ok : forall neg v z,
  signed_operand neg v = Some z ->
  z = (if neg then - Z.of_N v else Z.of_N v)%Z /\ (- two63 <= z < two63)%Z.
Proof.
  intros neg v z H. unfold signed_operand in H.
  set (x := if neg then (- Z.of_N v)%Z else Z.of_N v) in *.
  destruct ((- two63 <=? x)%Z && (x <? two63)%Z) eqn:Hr; [|discriminate].
  injection H as <-. apply andb_true_iff in Hr as [H1 H2].
  apply Z.leb_le in H1. apply Z.ltb_lt in H2. repeat split; assumption.
Qed.

Theorem signed_operand_err : forall neg v,
  signed_operand neg v = None ->
  let x := (if neg then - Z.of_N v else Z.of_N v)%Z in (x < - two63 \/ two63 <= x)%Z.
Proof.
  intros neg v H x. unfold signed_operand in H. fold x in H.
  destruct ((- two63 <=? x)%Z && (x <? two63)%Z) eqn:Hr; [discriminate|].
  apply andb_false_iff in Hr as [Hr|Hr]; [apply Z.leb_gt in Hr; now left | apply Z.ltb_ge in Hr; now right].
Qed.

Theorem signed_operand_total : forall (neg : bool) (v : N),
  let x := (if neg then - Z.of_N v else Z.of_N v)%Z in
  (- two63 <= x < two63)%Z -> signed_operand neg v = Some x.
Proof.
  intros neg v x [H1 H2]. unfold signed_operand. fold x.
  apply Z.leb_le in H1. apply Z.ltb_lt in H2. now rewrite H1, H2.
Qed.

(** ** Kind preservation through the operand parsers *)
Definition sign_prefix (neg : bool) : list tok := if neg then [KMinus] else [].

Lemma opt_minus_spec : forall ts neg t1, opt_minus ts = (neg, t1) -> ts = sign_prefix neg ++ t1.
Proof.
  intros ts neg t1 H. unfold opt_minus in H.
  destruct ts as [|k t]; [injection H as <- <-; reflexivity|].
  destruct k; injection H as <- <-; reflexivity.
Qed.

Lemma parse_memref_kind : forall ts o rest,
  parse_memref ts = Some (o, rest) -> exists n i, o = OMem n i.
Proof.
  intros ts o rest H. unfold parse_memref in H.
  repeat match type of H with
         | match ?x with _ => _ end = _ => destruct x; try discriminate
         end; injection H as <- <-; eauto.
Qed.

Theorem arith_operand_int : forall ts z rest,
  arith_operand ts = Some (OInt z, rest) ->
  exists neg v, ts = sign_prefix neg ++ KNum (TInt v) :: rest /\ signed_operand neg v = Some z.
Proof.
  intros ts z rest H. unfold arith_operand in H.
  destruct (opt_minus ts) as [neg t1] eqn:Hm. apply opt_minus_spec in Hm.
  assert (Hmem : parse_memref ts = Some (OInt z, rest) -> False).
  { intro Hp. destruct (parse_memref_kind _ _ _ Hp) as (n & i & Ho). discriminate. }
  destruct t1 as [|k t1']; [exfalso; exact (Hmem H)|].
  destruct k as [| |[v|m e]|nm| | |]; try (exfalso; exact (Hmem H)).
  - destruct (signed_operand neg v) as [z'|] eqn:Hs; [|exfalso; exact (Hmem H)].
    injection H as <- <-. exists neg, v. split; assumption.
  - discriminate.
Qed.

Theorem arith_operand_real : forall ts neg m e rest,
  arith_operand ts = Some (OReal neg m e, rest) -> ts = sign_prefix neg ++ KNum (TFloat m e) :: rest.
Proof.
  intros ts neg m e rest H. unfold arith_operand in H.
  destruct (opt_minus ts) as [neg' t1] eqn:Hm. apply opt_minus_spec in Hm.
  assert (Hmem : parse_memref ts = Some (OReal neg m e, rest) -> False).
  { intro Hp. destruct (parse_memref_kind _ _ _ Hp) as (n & i & Ho). discriminate. }
  destruct t1 as [|k t1']; [exfalso; exact (Hmem H)|].
  destruct k as [| |[v|m' e']|nm| | |]; try (exfalso; exact (Hmem H)).
  - destruct (signed_operand neg' v); [discriminate | exfalso; exact (Hmem H)].
  - injection H as <- <- <- <-. exact Hm.
Qed.

Theorem logic_operand_int : forall ts z rest,
  logic_operand ts = Some (OInt z, rest) ->
  exists neg v, ts = sign_prefix neg ++ KNum (TInt v) :: rest /\ signed_operand neg v = Some z.
Proof.
  intros ts z rest H. unfold logic_operand in H.
  destruct (opt_minus ts) as [neg t1] eqn:Hm. apply opt_minus_spec in Hm.
  assert (Hmem : parse_memref ts = Some (OInt z, rest) -> False).
  { intro Hp. destruct (parse_memref_kind _ _ _ Hp) as (n & i & Ho). discriminate. }
  destruct t1 as [|k t1']; [exfalso; exact (Hmem H)|].
  destruct k as [| |[v|m e]|nm| | |]; try (exfalso; exact (Hmem H)).
  destruct (signed_operand neg v) as [z'|] eqn:Hs; [|exfalso; exact (Hmem H)].
  injection H as <- <-. exists neg, v. split; assumption.
Qed.

Theorem logic_operand_never_real : forall ts neg m e rest,
  logic_operand ts <> Some (OReal neg m e, rest).
Proof.
  intros ts neg m e rest H. unfold logic_operand in H.
  destruct (opt_minus ts) as [neg' t1].
  assert (Hmem : parse_memref ts = Some (OReal neg m e, rest) -> False).
  { intro Hp. destruct (parse_memref_kind _ _ _ Hp) as (n & i & Ho). discriminate. }
  destruct t1 as [|k t1']; [exact (Hmem H)|].
  destruct k as [| |[v|m' e']|nm| | |]; try (exact (Hmem H)).
  destruct (signed_operand neg' v); [discriminate | exact (Hmem H)].
Qed.

(** ** The nearest-binary64 instance checker *)

(** finite non-negative binary64 values, in units of 2^-1074 *)
Definition two53 : N := 9007199254740992.
Definition b64_shape (k j : N) : Prop :=
  (j = 0 /\ k < two53) \/ (0 < j <= 2045 /\ two52 <= k < two53).
Definition is_b64 (y : N) : Prop := exists k j, y = k * 2 ^ j /\ b64_shape k j.

(** [x] is a finite binary64 nearest to [num / den] *)
Definition nearest_b64 (num den x : N) : Prop :=
  is_b64 x /\ forall y, is_b64 y -> absdiff num (x * den) <= absdiff num (y * den).

Lemma absdiff_spec : forall a b, (a <= b /\ absdiff a b = b - a) \/ (b < a /\ absdiff a b = a - b).
Proof.
  intros a b. unfold absdiff. destruct (a <? b) eqn:H.
  - apply N.ltb_lt in H. left. split; [lia | reflexivity].
  - apply N.ltb_ge in H. destruct (N.eq_dec a b) as [->|Hne].
    + left. split; [lia | lia].
    + right. split; [lia | reflexivity].
Qed.

(** what the checker establishes directly: no adjacent bit pattern is strictly closer, and a tie
    is only accepted for an even significand *)
Lemma chk_nearest_frac_neighbours : forall num den bits,
  chk_nearest_frac num den bits = true ->
  is_finite bits = true /\
  absdiff num (fixed bits * den) <= absdiff num (fixed (bits + 1) * den) /\
  (bits <> 0 -> absdiff num (fixed bits * den) <= absdiff num (fixed (bits - 1) * den)).
Proof.
  intros num den bits H. unfold chk_nearest_frac in H.
  apply andb_true_iff in H as [Hfin H]. apply andb_true_iff in H as [Hup Hdn].
  split; [exact Hfin|]. split.
  - apply orb_true_iff in Hup as [Hup|Hup].
    + apply N.ltb_lt in Hup. lia.
    + apply andb_true_iff in Hup as [Hup _]. apply N.eqb_eq in Hup. lia.
  - intro Hnz. apply N.eqb_neq in Hnz. rewrite Hnz in Hdn.
    apply orb_true_iff in Hdn as [Hdn|Hdn].
    + apply N.ltb_lt in Hdn. lia.
    + apply andb_true_iff in Hdn as [Hdn _]. apply N.eqb_eq in Hdn. lia.
Qed.

(** *** Soundness: passing the neighbour test implies nearest among ALL finite binary64 *)
Lemma decode_shape : forall bits, is_finite bits = true ->
  b64_shape (fst (decode bits)) (snd (decode bits)).
Proof.
  intros bits Hfin. unfold is_finite in Hfin. apply N.ltb_lt in Hfin. unfold decode, b64_shape.
  assert (Hf : bits mod two52 < two52) by (apply N.mod_lt; discriminate).
  set (E := bits / two52) in *. set (f := bits mod two52) in *. clearbody E f.
  destruct (E =? 0) eqn:HE; cbn [fst snd].
  - left. split; [reflexivity|]. unfold two53, two52 in *. lia.
  - apply N.eqb_neq in HE. destruct (N.eq_dec E 1) as [E1|E1].
    + left. rewrite E1. split; [reflexivity|]. unfold two53, two52 in *. lia.
    + right. unfold two53, two52 in *. lia.
Qed.

Lemma is_b64_fixed : forall bits, is_finite bits = true -> is_b64 (fixed bits).
Proof.
  intros bits Hfin. pose proof (decode_shape bits Hfin) as Hs. unfold fixed.
  destruct (decode bits) as [k j]. now exists k, j.
Qed.

Lemma fixed_succ : forall bits, is_finite bits = true ->
  fixed (bits + 1) = fixed bits + 2 ^ (snd (decode bits)).
Proof.
  intros bits Hfin. unfold fixed, decode.
  assert (Htw : two52 <> 0) by discriminate.
  pose proof (N.div_mod bits two52 Htw) as Hdm.
  assert (Hf : bits mod two52 < two52) by (apply N.mod_lt; exact Htw).
  set (E := bits / two52) in *. set (f := bits mod two52) in *.
  destruct (N.eq_dec (f + 1) two52) as [Hc|Hc].
  - (* carry into the exponent field *)
    assert (Hd : (bits + 1) / two52 = E + 1).
    { symmetry. apply (N.div_unique _ _ _ 0); [reflexivity | lia]. }
    assert (Hm : (bits + 1) mod two52 = 0).
    { symmetry. apply (N.mod_unique _ _ (E + 1)); [reflexivity | lia]. }
    rewrite Hd, Hm. replace (E + 1 =? 0) with false by (symmetry; apply N.eqb_neq; lia).
    destruct (E =? 0) eqn:HE; cbn [snd].
    + apply N.eqb_eq in HE. rewrite HE. cbn [N.add]. replace (0 + 1 - 1) with 0 by lia.
      rewrite N.pow_0_r. lia.
    + apply N.eqb_neq in HE. replace (E + 1 - 1) with (N.succ (E - 1)) by lia.
      rewrite N.pow_succ_r'. nia.
  - assert (Hd : (bits + 1) / two52 = E).
    { symmetry. apply (N.div_unique _ _ _ (f + 1)); lia. }
    assert (Hm : (bits + 1) mod two52 = f + 1).
    { symmetry. apply (N.mod_unique _ _ E); lia. }
    rewrite Hd, Hm. destruct (E =? 0); cbn [snd]; nia.
Qed.

Lemma b64_gap : forall k j y,
  b64_shape k j -> is_b64 y -> k * 2 ^ j < y -> (k + 1) * 2 ^ j <= y.
Proof.
  intros k j y Hs (k' & j' & -> & Hs') Hlt.
  destruct (N.le_gt_cases j j') as [Hle|Hgt].
  - replace j' with (j + (j' - j)) in * by lia. rewrite N.pow_add_r in *.
    assert (Hp : 0 < 2 ^ j) by (apply N.neq_0_lt_0, N.pow_nonzero; discriminate).
    set (P := 2 ^ j) in *. set (Q := 2 ^ (j' - j)) in *. clearbody P Q.
    assert (H1 : k < k' * Q).
    { destruct (N.lt_ge_cases k (k' * Q)) as [Hl|Hg]; [exact Hl|exfalso].
      assert (k' * Q * P <= k * P) by (apply N.mul_le_mono_r; exact Hg). lia. }
    assert (H2 : (k + 1) * P <= k' * Q * P) by (apply N.mul_le_mono_r; lia). lia.
  - exfalso.
    assert (Hk : two52 <= k) by (destruct Hs as [[-> _]|[_ [H _]]]; [lia | exact H]).
    assert (Hk' : k' < two53) by (destruct Hs' as [[_ H]|[_ [_ H]]]; exact H).
    replace j with (j' + N.succ (j - j' - 1)) in * by lia.
    rewrite N.pow_add_r, N.pow_succ_r' in Hlt.
    assert (Hp : 0 < 2 ^ j') by (apply N.neq_0_lt_0, N.pow_nonzero; discriminate).
    assert (Hq : 0 < 2 ^ (j - j' - 1)) by (apply N.neq_0_lt_0, N.pow_nonzero; discriminate).
    set (P := 2 ^ j') in *. set (Q := 2 ^ (j - j' - 1)) in *. clearbody P Q.
    assert (H1 : k' * P < two53 * P) by (apply N.mul_lt_mono_pos_r; assumption).
    assert (H2 : two52 * (P * (2 * Q)) <= k * (P * (2 * Q))) by (apply N.mul_le_mono_r; exact Hk).
    assert (H3 : P * 1 <= P * Q) by (apply N.mul_le_mono_l; lia).
    unfold two52, two53 in *. lia.
Qed.

Lemma fixed_above : forall bits y, is_finite bits = true ->
  is_b64 y -> fixed bits < y -> fixed (bits + 1) <= y.
Proof.
  intros bits y Hfin Hy Hlt. rewrite (fixed_succ bits Hfin).
  pose proof (decode_shape bits Hfin) as Hs. unfold fixed in *.
  destruct (decode bits) as [k j]. cbn [fst snd] in *.
  pose proof (b64_gap k j y Hs Hy Hlt). lia.
Qed.

Lemma is_finite_pred : forall bits, is_finite bits = true -> is_finite (bits - 1) = true.
Proof.
  intros bits H. unfold is_finite in *. apply N.ltb_lt in H. apply N.ltb_lt.
  assert (Hle : (bits - 1) / two52 <= bits / two52) by (apply N.div_le_mono; [discriminate | lia]).
  lia.
Qed.

Theorem chk_nearest_frac_sound : forall num den bits,
  0 < den -> chk_nearest_frac num den bits = true -> nearest_b64 num den (fixed bits).
Proof.
  intros num den bits Hden H.
  destruct (chk_nearest_frac_neighbours _ _ _ H) as (Hfin & Hup & Hdn).
  split; [exact (is_b64_fixed bits Hfin)|]. intros y Hy.
  set (x := fixed bits) in *.
  destruct (N.lt_trichotomy x y) as [Hxy|[<-|Hyx]]; [|lia|].
  - (* y above x: at least the upper neighbour *)
    pose proof (fixed_above bits y Hfin Hy Hxy) as HU.
    assert (Hxu : x < fixed (bits + 1)).
    { rewrite (fixed_succ bits Hfin). fold x.
      assert (0 < 2 ^ snd (decode bits)) by (apply N.neq_0_lt_0, N.pow_nonzero; discriminate). lia. }
    set (U := fixed (bits + 1)) in *.
    destruct (absdiff_spec num (x * den)) as [[A1 A2]|[A1 A2]];
    destruct (absdiff_spec num (U * den)) as [[B1 B2]|[B1 B2]];
    destruct (absdiff_spec num (y * den)) as [[C1 C2]|[C1 C2]]; nia.
  - (* y below x: at most the lower neighbour *)
    assert (Hnz : bits <> 0).
    { intros ->. unfold x in Hyx. vm_compute in Hyx. destruct y; discriminate. }
    specialize (Hdn Hnz).
    pose proof (is_finite_pred bits Hfin) as Hfin'.
    assert (Hy_fin : is_b64 y) by exact Hy.
    pose proof (fixed_succ (bits - 1) Hfin') as Hs. replace (bits - 1 + 1) with bits in Hs by lia.
    fold x in Hs.
    set (D := fixed (bits - 1)) in *.
    assert (HD : y <= D).
    { destruct (N.le_gt_cases y D) as [Hle|Hgt]; [exact Hle|exfalso].
      pose proof (fixed_above (bits - 1) y Hfin' Hy Hgt) as Habove.
      replace (bits - 1 + 1) with bits in Habove by lia. fold x in Habove. lia. }
    assert (HDx : D < x).
    { assert (0 < 2 ^ snd (decode (bits - 1))) by (apply N.neq_0_lt_0, N.pow_nonzero; discriminate). lia. }
    destruct (absdiff_spec num (x * den)) as [[A1 A2]|[A1 A2]];
    destruct (absdiff_spec num (D * den)) as [[B1 B2]|[B1 B2]];
    destruct (absdiff_spec num (y * den)) as [[C1 C2]|[C1 C2]]; nia.
Qed.

Theorem chk_nearest_sound : forall m e bits,
  chk_nearest m e bits = true ->
  (m = 0 /\ bits = 0) \/
  ((e < 0)%Z /\ (Z.of_N (bits_of m) + 1080 <= 3 * - e)%Z /\ bits = 0) \/
  nearest_b64 (m * pow10 (Z.to_N e) * 2 ^ 1074) (pow10 (Z.to_N (- e))) (fixed bits).
Proof.
  intros m e bits H. unfold chk_nearest in H.
  destruct (m =? 0) eqn:Hm.
  { left. apply N.eqb_eq in Hm. apply N.eqb_eq in H. now split. }
  destruct ((e <? 0)%Z && (Z.of_N (bits_of m) + 1080 <=? 3 * - e)%Z) eqn:Hg.
  { right. left. apply andb_true_iff in Hg as [H1 H2]. apply Z.ltb_lt in H1. apply Z.leb_le in H2.
    apply N.eqb_eq in H. repeat split; assumption. }
  destruct (400 <? e)%Z; [discriminate|].
  right. right. apply chk_nearest_frac_sound; [|exact H].
  apply N.neq_0_lt_0. unfold pow10. apply N.pow_nonzero. discriminate.
Qed.

(** the checker accepts exactly-representable values: sanity of the decode/fixed conventions *)
Example chk_nearest_examples :
  chk_nearest 1 0 4607182418800017408 = true /\            (* 1.0 = 0x3FF0000000000000 *)
  chk_nearest 1 (-1) 4591870180066957722 = true /\          (* 0.1 = 0x3FB999999999999A *)
  chk_nearest 1 (-1) 4591870180066957721 = false /\
  chk_nearest 9007199254740993 0 4845873199050653696 = true /\   (* 2^53+1 ties to even 2^53 *)
  chk_nearest 9007199254740993 0 4845873199050653697 = false /\
  chk_nearest 5 (-324) 1 = true /\                          (* smallest subnormal *)
  chk_nearest 24703282292062327 (-340) 0 = true /\          (* just below half of it *)
  chk_nearest 24703282292062328 (-340) 1 = true /\
  chk_nearest 17976931348623157 292 9218868437227405311 = true.  (* largest finite *)
Proof. vm_compute. repeat split; reflexivity. Qed.

(** ** Float tokens carry the exact decimal value of a well-formed float literal *)
Definition sign_text (neg : bool) (s : list N) : Prop :=
  (s = [] /\ neg = false) \/ (s = [c_PLUS] /\ neg = false) \/ (s = [c_MINUS] /\ neg = true).

Definition signed (neg : bool) (x : N) : Z := if neg then (- Z.of_N x)%Z else Z.of_N x.

(** [l] = integer part, optional point and fraction part, optional exponent part, rest; the parts
    are runs of decimal digits and separators; [m] is the value of all mantissa digits and
    [m * 10^e] the value of the literal *)
Definition float_literal (l : list N) (m : N) (e : Z) (rest : list N) : Prop :=
  exists ib fb (dot : bool) ex ev,
    l = ib ++ (if dot then c_DOT :: fb else []) ++ ex ++ rest /\
    Forall (char_ok 10) ib /\ Forall (char_ok 10) fb /\ (dot = false -> fb = []) /\
    ((ex = [] /\ ev = 0%Z) \/
     exists mark s body neg,
       ex = mark :: s ++ body /\ (mark = c_e \/ mark = c_E) /\ sign_text neg s /\
       Forall (char_ok 10) body /\ digits_of 10 body <> [] /\
       ev = signed neg (horner 10 0 (digits_of 10 body))) /\
    digits_of 10 ib ++ digits_of 10 fb <> [] /\
    m = horner 10 0 (digits_of 10 ib ++ digits_of 10 fb) /\
    e = (ev - Z.of_nat (length (digits_of 10 fb)))%Z /\
    float_overflows m e = false.

Lemma app_nonnil_l : forall (A : Type) (a b : list A), a <> [] -> a ++ b <> [].
Proof. intros A [|x a] b H; [contradiction | discriminate]. Qed.

Lemma is_exp_char_spec : forall c, is_exp_char c = true -> c = c_e \/ c = c_E.
Proof.
  intros c H. unfold is_exp_char in H. apply orb_true_iff in H as [H|H]; apply N.eqb_eq in H; auto.
Qed.

Theorem lex_float_literal : forall l m e rest,
  lex_float l = NOk (TFloat m e) rest -> float_literal l m e rest.
Proof.
  intros l m e rest H. unfold lex_float in H.
  destruct (run 10 l) as [[ids ik] r1] eqn:Hrun.
  destruct (run_spec _ _ _ _ _ Hrun) as (ib & Hl & _ & Hib & Hids & _). subst l ids.
  destruct r1 as [|c t].
  { (* digits only *)
    destruct (digits_of 10 ib) as [|d0 ds] eqn:Hd; [discriminate|].
    destruct (float_overflows (horner 10 0 (d0 :: ds)) 0) eqn:Ho; [discriminate|].
    injection H as <- <- <-. exists ib, [], false, [], 0%Z. rewrite Hd.
    repeat split; auto; try (left; split; reflexivity); cbn [digits_of flat_map app]; try discriminate.
    all: rewrite ?app_nil_r; reflexivity. }
  destruct ((c =? c_DOT) && starts_with_sep t) eqn:Hcut.
  { (* cut at the point *)
    apply andb_true_iff in Hcut as [Hc _]. apply N.eqb_eq in Hc. subst c.
    destruct (digits_of 10 ib) as [|d0 ds] eqn:Hd; [discriminate|].
    destruct (float_overflows (horner 10 0 (d0 :: ds)) 0) eqn:Ho; [discriminate|].
    injection H as <- <- <-. exists ib, [], true, [], 0%Z. rewrite Hd.
    repeat split; auto; try (left; split; reflexivity); cbn [digits_of flat_map app]; try discriminate.
    all: rewrite ?app_nil_r; reflexivity. }
  (* optional fraction *)
  assert (Hfrac : exists fb (dot : bool) r2,
             (if c =? c_DOT then let '(fds, _, r2) := run 10 t in (fds, r2) else ([], c :: t)) =
               (digits_of 10 fb, r2) /\
             c :: t = (if dot then c_DOT :: fb else []) ++ r2 /\ Forall (char_ok 10) fb /\
             (dot = false -> fb = []) /\ (dot = false -> (c =? c_DOT) = false)).
  { destruct (c =? c_DOT) eqn:Hc.
    - apply N.eqb_eq in Hc. subst c. destruct (run 10 t) as [[fds fk] r2] eqn:Hr2.
      destruct (run_spec _ _ _ _ _ Hr2) as (fb & -> & _ & Hfb & -> & _).
      exists fb, true, r2. repeat split; auto; discriminate.
    - exists [], false, (c :: t). repeat split; auto. }
  destruct Hfrac as (fb & dot & r2 & Hfr & Hsplit & Hfb & Hdot & Hnodot). rewrite Hfr in H.
  destruct (digits_of 10 ib ++ digits_of 10 fb) as [|d0 ds] eqn:Hd; [discriminate|].
  rewrite <- Hd in H.
  assert (Hne : digits_of 10 ib ++ digits_of 10 fb <> []) by (rewrite Hd; discriminate).
  destruct r2 as [|c2 t2].
  { destruct (float_overflows _ _) eqn:Ho; [discriminate|]. injection H as <- <- <-.
    exists ib, fb, dot, [], 0%Z. rewrite Hsplit.
    repeat split; auto; try (left; split; reflexivity). }
  destruct (is_exp_char c2) eqn:Hex.
  2:{ destruct (float_overflows _ _) eqn:Ho; [discriminate|]. injection H as <- <- <-.
      exists ib, fb, dot, [], 0%Z. rewrite Hsplit.
      repeat split; auto; try (left; split; reflexivity). }
  (* exponent *)
  assert (Hsign : exists neg s t',
             (match t2 with
              | s0 :: t'0 => if s0 =? c_MINUS then (true, t'0) else if s0 =? c_PLUS then (false, t'0) else (false, t2)
              | [] => (false, t2)
              end) = (neg, t') /\ t2 = s ++ t' /\ sign_text neg s).
  { destruct t2 as [|s0 t'0].
    - exists false, [], []. repeat split. now left.
    - destruct (s0 =? c_MINUS) eqn:Hm; [|destruct (s0 =? c_PLUS) eqn:Hp].
      + apply N.eqb_eq in Hm. subst s0. exists true, [c_MINUS], t'0. repeat split. right. now right.
      + apply N.eqb_eq in Hp. subst s0. exists false, [c_PLUS], t'0. repeat split. right. now left.
      + exists false, [], (s0 :: t'0). repeat split. now left. }
  destruct Hsign as (neg & s & t' & Hsg & Ht2 & Hst). rewrite Hsg in H.
  destruct (run 10 t') as [[eds ek] r3] eqn:Hr3.
  destruct (run_spec _ _ _ _ _ Hr3) as (body & -> & _ & Hbody & -> & _).
  destruct (digits_of 10 body) as [|e0 es] eqn:He; [discriminate|]. rewrite <- He in H.
  destruct (float_overflows _ _) eqn:Ho; [discriminate|]. injection H as <- <- <-.
  exists ib, fb, dot, (c2 :: s ++ body), (signed neg (horner 10 0 (digits_of 10 body))).
  rewrite Hsplit, Ht2. repeat split; auto.
  - cbn [app]. rewrite <- !app_assoc. reflexivity.
  - right. exists c2, s, body, neg. repeat split; auto.
    + exact (is_exp_char_spec c2 Hex).
    + rewrite He. discriminate.
Qed.

(** every float token of [lex_number] comes with such a literal *)
Theorem lex_number_float_literal : forall l m e rest,
  lex_number l = NOk (TFloat m e) rest -> float_literal l m e rest.
Proof.
  intros l m e rest H. unfold lex_number in H.
  destruct (lex_prefixed_shape 2 98 l) as [E|[E|(v1 & r1 & E)]]; rewrite E in H; try discriminate.
  destruct (lex_prefixed_shape 8 111 l) as [E2|[E2|(v2 & r2 & E2)]]; rewrite E2 in H; try discriminate.
  destruct (lex_prefixed_shape 16 120 l) as [E3|[E3|(v3 & r3 & E3)]]; rewrite E3 in H; try discriminate.
  destruct (lex_decimal_float _ _ _ _ H) as (_ & _ & _ & _ & _ & _ & Hf).
  exact (lex_float_literal _ _ _ _ Hf).
Qed.
