(** Proofs about the identifier model (property C06). *)
From Coq Require Import List NArith Bool Lia.
From QV Require Import Model.LexIdent.
Import ListNotations.
Open Scope N_scope.

Lemma bytes_eqb_eq : forall a b, bytes_eqb a b = true <-> a = b.
Proof.
  induction a as [|x a IH]; destruct b as [|y b]; cbn [bytes_eqb]; split; intro H;
    try reflexivity; try discriminate.
  - apply andb_true_iff in H as [Hx Hab]. apply N.eqb_eq in Hx. apply IH in Hab. now subst.
  - injection H as -> ->. apply andb_true_iff. split; [apply N.eqb_refl | now apply IH].
Qed.

(** ** An independent description of well-formed identifiers *)
Definition all (p : N -> bool) (l : list N) : Prop := Forall (fun c => p c = true) l.

(** one or more dashes followed by one or more identifier characters *)
Inductive dash_group : list N -> Prop :=
| DG d w : d <> [] -> all is_dash d -> w <> [] -> all ident_char w -> dash_group (d ++ w).

(** a leading character, identifier characters, then dash groups *)
Inductive valid_ident : list N -> Prop :=
| VI c body gs :
    ident_head c = true -> all ident_char body -> Forall dash_group gs ->
    valid_ident (c :: body ++ concat gs).

(** what may follow an identifier without being absorbed into it: after any dashes, no
    identifier character *)
Definition ident_stops (rest : list N) : Prop :=
  match snd (span is_dash rest) with c :: _ => ident_char c = false | [] => True end.

Definition starts_without (p : N -> bool) (l : list N) : Prop :=
  match l with c :: _ => p c = false | [] => True end.

(** ** [span] *)
Lemma span_app : forall p a r, all p a -> starts_without p r -> span p (a ++ r) = (a, r).
Proof.
  induction a as [|c a IH]; intros r Ha Hr.
  - cbn [app]. destruct r as [|c r]; [reflexivity|]. cbn [span]. cbn in Hr. now rewrite Hr.
  - inversion Ha as [|? ? Hc Ha']; subst. cbn [app span]. rewrite Hc, (IH r Ha' Hr). reflexivity.
Qed.

Lemma head_is_char : forall c, ident_head c = true -> ident_char c = true.
Proof. intros c H. unfold ident_char. now rewrite H. Qed.

Lemma dash_not_char : forall c, is_dash c = true -> ident_char c = false.
Proof. intros c H. unfold is_dash in H. apply N.eqb_eq in H. subst c. reflexivity. Qed.

Lemma char_not_dash : forall c, ident_char c = true -> is_dash c = false.
Proof.
  intros c H. destruct (is_dash c) eqn:Hd; [|reflexivity].
  rewrite (dash_not_char c Hd) in H. discriminate.
Qed.

(** taking leading characters first and identifier characters next is the same as taking
    identifier characters, when the text starts with a leading character *)
Lemma span_head_then_char : forall l h r0 m r1,
  span ident_head l = (h, r0) -> span ident_char r0 = (m, r1) -> span ident_char l = (h ++ m, r1).
Proof.
  induction l as [|c t IH]; intros h r0 m r1 Hh Hm; cbn [span] in Hh.
  - injection Hh as <- <-. cbn [span] in Hm. injection Hm as <- <-. reflexivity.
  - destruct (ident_head c) eqn:Hc.
    + destruct (span ident_head t) as [h' r0'] eqn:Ht. injection Hh as <- <-.
      cbn [span app]. rewrite (head_is_char c Hc), (IH _ _ _ _ eq_refl Hm). reflexivity.
    + injection Hh as <- <-. cbn [app]. exact Hm.
Qed.

Lemma stops_no_char : forall rest, ident_stops rest -> starts_without ident_char rest.
Proof.
  intros [|c t] H; [exact I|]. unfold ident_stops in H. cbn [span] in H. cbn.
  destruct (is_dash c) eqn:Hd; [exact (dash_not_char c Hd)|]. cbn [snd] in H. exact H.
Qed.

(** ** Dash groups *)
Lemma dash_groups_stop : forall fuel rest, ident_stops rest -> dash_groups fuel rest = ([], rest).
Proof.
  intros [|f] rest H; [reflexivity|]. cbn [dash_groups]. unfold ident_stops in H.
  destruct (span is_dash rest) as [d r1] eqn:Hs. cbn [snd] in H.
  destruct d as [|d0 d]; [reflexivity|].
  assert (Hw : span ident_char r1 = ([], r1)).
  { destruct r1 as [|c t]; [reflexivity|]. cbn [span]. now rewrite H. }
  rewrite Hw. reflexivity.
Qed.

Lemma concat_groups_start : forall gs rest,
  Forall dash_group gs -> ident_stops rest -> starts_without ident_char (concat gs ++ rest).
Proof.
  intros [|g gs] rest Hg Hr; cbn [concat app]; [exact (stops_no_char rest Hr)|].
  inversion Hg as [|? ? Hg1 _]; subst. destruct Hg1 as [d w Hd Had _ _].
  destruct d as [|d0 d]; [contradiction|]. cbn. inversion Had; subst. now apply dash_not_char.
Qed.

Lemma dash_groups_spec : forall gs fuel rest,
  (length (concat gs ++ rest) <= fuel)%nat -> Forall dash_group gs -> ident_stops rest ->
  dash_groups fuel (concat gs ++ rest) = (concat gs, rest).
Proof.
  induction gs as [|g gs IH]; intros fuel rest Hf Hg Hr.
  - cbn [concat app]. exact (dash_groups_stop fuel rest Hr).
  - inversion Hg as [|? ? Hg1 Hgs]; subst. destruct Hg1 as [d w Hd Had Hw Haw].
    cbn [concat]. rewrite <- !app_assoc.
    destruct fuel as [|f].
    { exfalso. destruct d; [contradiction|]. cbn [concat app length] in Hf. lia. }
    cbn [dash_groups].
    assert (Hs1 : span is_dash (d ++ w ++ concat gs ++ rest) = (d, w ++ concat gs ++ rest)).
    { apply span_app; [exact Had|]. destruct w as [|w0 w]; [contradiction|]. cbn.
      inversion Haw; subst. now apply char_not_dash. }
    rewrite Hs1. destruct d as [|d0 d']; [contradiction|].
    assert (Hs2 : span ident_char (w ++ concat gs ++ rest) = (w, concat gs ++ rest)).
    { apply span_app; [exact Haw|]. exact (concat_groups_start gs rest Hgs Hr). }
    rewrite Hs2. destruct w as [|w0 w']; [contradiction|].
    rewrite IH; [reflexivity| |exact Hgs|exact Hr].
    cbn [concat] in Hf. rewrite <- !app_assoc in Hf. rewrite !app_length in Hf. cbn [length] in Hf.
    rewrite !app_length in *. lia.
Qed.

(** ** The raw identifier lexer copies a well-formed identifier exactly *)
Theorem lex_ident_raw_valid : forall name rest,
  valid_ident name -> ident_stops rest -> lex_ident_raw (name ++ rest) = Some (name, rest).
Proof.
  intros name rest Hv Hr. destruct Hv as [c body gs Hc Hb Hg].
  unfold lex_ident_raw. cbn [app]. rewrite Hc.
  destruct (span ident_head (c :: (body ++ concat gs) ++ rest)) as [h r0] eqn:Hh.
  destruct (span ident_char r0) as [m r1] eqn:Hm.
  pose proof (span_head_then_char _ _ _ _ _ Hh Hm) as Hall.
  assert (Hfull : span ident_char (c :: (body ++ concat gs) ++ rest) = (c :: body, concat gs ++ rest)).
  { rewrite <- app_assoc. change (c :: body ++ concat gs ++ rest) with ((c :: body) ++ concat gs ++ rest).
    apply span_app; [constructor; [exact (head_is_char c Hc) | exact Hb]|].
    exact (concat_groups_start gs rest Hg Hr). }
  rewrite Hfull in Hall. injection Hall as Hhm Hr1. subst r1.
  rewrite (dash_groups_spec gs _ rest (le_n _) Hg Hr).
  rewrite app_assoc, <- Hhm. reflexivity.
Qed.

(** ** Tokens *)
Lemma head_not_sigil : forall c, ident_head c = true -> (c =? 64) = false /\ (c =? 37) = false.
Proof.
  intros c H. split; apply N.eqb_neq; intros ->; discriminate.
Qed.

Theorem lex_identifier_token : forall name rest,
  valid_ident name -> reserved name = false -> ident_stops rest ->
  lex_name_token (name ++ rest) = Some (ITok 0 name, rest).
Proof.
  intros name rest Hv Hres Hr. pose proof (lex_ident_raw_valid name rest Hv Hr) as Hraw.
  destruct Hv as [c body gs Hc Hb Hg]. unfold lex_name_token.
  cbn [app] in *. destruct (head_not_sigil c Hc) as [H1 H2]. rewrite H1, H2.
  rewrite Hraw, Hres. reflexivity.
Qed.

Theorem lex_reserved_token : forall name rest,
  valid_ident name -> reserved name = true -> ident_stops rest ->
  lex_name_token (name ++ rest) = Some (ITok 1 name, rest).
Proof.
  intros name rest Hv Hres Hr. pose proof (lex_ident_raw_valid name rest Hv Hr) as Hraw.
  destruct Hv as [c body gs Hc Hb Hg]. unfold lex_name_token.
  cbn [app] in *. destruct (head_not_sigil c Hc) as [H1 H2]. rewrite H1, H2.
  rewrite Hraw, Hres. reflexivity.
Qed.

Theorem lex_target_token : forall name rest,
  valid_ident name -> ident_stops rest ->
  lex_name_token (64 :: name ++ rest) = Some (ITok 2 name, rest).
Proof.
  intros name rest Hv Hr. unfold lex_name_token. change (64 =? 64) with true. cbn match.
  now rewrite (lex_ident_raw_valid name rest Hv Hr).
Qed.

Theorem lex_variable_token : forall name rest,
  valid_ident name -> ident_stops rest ->
  lex_name_token (37 :: name ++ rest) = Some (ITok 3 name, rest).
Proof.
  intros name rest Hv Hr. unfold lex_name_token. change (37 =? 64) with false.
  change (37 =? 37) with true. cbn match.
  now rewrite (lex_ident_raw_valid name rest Hv Hr).
Qed.

(** keyword recognition is by exact spelling *)
Theorem reserved_exact : forall name,
  reserved name = true <-> In name (keywords ++ commands ++ data_types ++ modifiers).
Proof.
  intro name. unfold reserved, mem_bytes. rewrite !orb_true_iff, !existsb_exists, !in_app_iff.
  split.
  - intros [[[(x & Hx & He)|(x & Hx & He)]|(x & Hx & He)]|(x & Hx & He)];
      apply bytes_eqb_eq in He; subst x; tauto.
  - intros [H|[H|[H|H]]]; [left; left; left|left; left; right|left; right|right];
      exists name; (split; [exact H | now apply bytes_eqb_eq]).
Qed.

(** ** Names inside expressions *)
Theorem expression_identifier_exact : forall n r, expression_identifier n = EAddress r -> r = n.
Proof.
  intros n r H. unfold expression_identifier in H.
  repeat match type of H with (if ?b then _ else _) = _ => destruct b; try discriminate end.
  now injection H as <-.
Qed.

Theorem region_consistent : forall n,
  expr_reserved n = false -> region_of_expression n = Some (region_of_declare n).
Proof.
  intros n H. unfold expr_reserved, region_of_expression, region_of_declare in *.
  destruct (expression_identifier n) as [r| | |f] eqn:He; try discriminate.
  now rewrite (expression_identifier_exact n r He).
Qed.

(** the exception is exactly the seven reserved words, compared after lower-casing *)
Theorem expr_reserved_iff : forall n,
  expr_reserved n = true <->
  In (to_lower n) [w_cis; w_cos; w_exp; w_i; w_pi; w_sin; w_sqrt].
Proof.
  intro n. unfold expr_reserved, expression_identifier. cbn [In].
  destruct (bytes_eqb (to_lower n) w_cis) eqn:H1; [apply bytes_eqb_eq in H1; split; auto|].
  destruct (bytes_eqb (to_lower n) w_cos) eqn:H2; [apply bytes_eqb_eq in H2; split; auto|].
  destruct (bytes_eqb (to_lower n) w_exp) eqn:H3; [apply bytes_eqb_eq in H3; split; auto|].
  destruct (bytes_eqb (to_lower n) w_i) eqn:H4; [apply bytes_eqb_eq in H4; split; auto 6|].
  destruct (bytes_eqb (to_lower n) w_pi) eqn:H5; [apply bytes_eqb_eq in H5; split; auto 7|].
  destruct (bytes_eqb (to_lower n) w_sin) eqn:H6; [apply bytes_eqb_eq in H6; split; auto 8|].
  destruct (bytes_eqb (to_lower n) w_sqrt) eqn:H7; [apply bytes_eqb_eq in H7; split; auto 9|].
  split; [discriminate|].
  intros [H|[H|[H|[H|[H|[H|[H|[]]]]]]]]; symmetry in H; apply bytes_eqb_eq in H; congruence.
Qed.

(** ** Every name-taking position holds exactly the name written *)
Lemma stops_nil : ident_stops [].
Proof. exact I. Qed.

Theorem position_preserves : forall cls name,
  cls <= 5 ->
  valid_ident name ->
  (cls = 1 \/ cls = 2 \/ reserved name = false) ->
  (cls = 3 \/ cls = 5 -> expr_reserved name = false) ->
  expected cls name = OName name.
Proof.
  intros cls name Hcls Hv Hres Hex.
  assert (H0 : reserved name = false -> single_token 0 name name = true).
  { intro Hr. unfold single_token.
    pose proof (lex_identifier_token name [] Hv Hr stops_nil) as H. rewrite app_nil_r in H.
    rewrite H. cbn. now apply bytes_eqb_eq. }
  assert (H2 : single_token 2 (64 :: name) name = true).
  { unfold single_token. pose proof (lex_target_token name [] Hv stops_nil) as H.
    rewrite app_nil_r in H. rewrite H. cbn. now apply bytes_eqb_eq. }
  assert (H3 : single_token 3 (37 :: name) name = true).
  { unfold single_token. pose proof (lex_variable_token name [] Hv stops_nil) as H.
    rewrite app_nil_r in H. rewrite H. cbn. now apply bytes_eqb_eq. }
  assert (Hexpr : expr_reserved name = false -> expression_identifier name = EAddress name).
  { intro He. unfold expr_reserved in He.
    destruct (expression_identifier name) as [r| | |f] eqn:E; try discriminate.
    now rewrite (expression_identifier_exact name r E). }
  assert (Hrefl : bytes_eqb name (region_of_declare name) = true) by (now apply bytes_eqb_eq).
  assert (Hc : cls = 0 \/ cls = 1 \/ cls = 2 \/ cls = 3 \/ cls = 4 \/ cls = 5) by lia.
  destruct Hc as [->|[->|[->|[->|[->| ->]]]]]; cbv beta iota delta [expected].
  - destruct Hres as [H|[H|H]]; try discriminate. now rewrite (H0 H).
  - now rewrite H2.
  - now rewrite H3.
  - destruct Hres as [H|[H|H]]; try discriminate. rewrite (H0 H).
    now rewrite (Hexpr (Hex (or_introl eq_refl))).
  - destruct Hres as [H|[H|H]]; try discriminate. now rewrite (H0 H).
  - destruct Hres as [H|[H|H]]; try discriminate. rewrite (H0 H).
    rewrite (Hexpr (Hex (or_intror eq_refl))). now rewrite Hrefl.
Qed.

(** ** Checker soundness *)
Lemma chk_name_sound : forall name o n, chk_name name o = true -> o = OName n -> n = name.
Proof. intros name o n H ->. cbn in H. now apply bytes_eqb_eq in H. Qed.
