(** Proofs about the waveform sampling model (Model/Waveform.v). *)
From Coq Require Import List NArith ZArith QArith Qround Qabs Bool Lia Lqa.
From QV Require Import Model.Waveform.
Import ListNotations.

(** * Rounding and the sample count (over Q) *)

Lemma Qfloor_unique (x : Q) (k : Z) :
  inject_Z k <= x -> x < inject_Z (k + 1) -> Qfloor x = k.
Proof.
  intros Hlo Hhi.
  pose proof (Qfloor_le x) as Hf1. pose proof (Qlt_floor x) as Hf2.
  assert (Ha : (Qfloor x < k + 1)%Z).
  { rewrite Zlt_Qlt. eapply Qle_lt_trans; [exact Hf1 | exact Hhi]. }
  assert (Hb : (k < Qfloor x + 1)%Z).
  { rewrite Zlt_Qlt. eapply Qle_lt_trans; [exact Hlo | exact Hf2]. }
  lia.
Qed.

Lemma round_half_away_int (q : Q) (k : Z) : q == inject_Z k -> round_half_away q = k.
Proof.
  intros Hq. unfold round_half_away.
  destruct (Qle_bool 0 q) eqn:Hs.
  - apply Qfloor_unique; rewrite ?inject_Z_plus; change (inject_Z 1) with 1; lra.
  - assert (Hk : Qfloor (- q + (1 # 2)) = (- k)%Z).
    { apply Qfloor_unique; rewrite ?inject_Z_plus, ?inject_Z_opp; change (inject_Z 1) with 1; lra. }
    rewrite Hk. lia.
Qed.

(** [round_half_away] is a nearest integer. *)
Lemma round_half_away_nearest (q : Q) : Qabs (q - inject_Z (round_half_away q)) <= 1 # 2.
Proof.
  unfold round_half_away. apply Qabs_Qle_condition.
  destruct (Qle_bool 0 q) eqn:Hs.
  - pose proof (Qfloor_le (q + (1 # 2))) as H1. pose proof (Qlt_floor (q + (1 # 2))) as H2.
    rewrite inject_Z_plus in H2. change (inject_Z 1) with 1 in H2. split; lra.
  - pose proof (Qfloor_le (- q + (1 # 2))) as H1. pose proof (Qlt_floor (- q + (1 # 2))) as H2.
    rewrite inject_Z_plus in H2. rewrite inject_Z_opp. change (inject_Z 1) with 1 in H2. split; lra.
Qed.

(** A duration that is an exact multiple of the sample period gives exactly that many samples. *)
Lemma sample_count_exact (d r : Q) (k : Z) :
  0 < r -> d * r == inject_Z k -> (0 <= k < U32_MAX)%Z -> sample_count d r = inr (Z.to_N k).
Proof.
  intros Hr Hk Hrange. unfold sample_count.
  rewrite (round_half_away_int _ _ Hk).
  destruct (k <? 0)%Z eqn:H1; [lia|]. destruct (U32_MAX <=? k)%Z eqn:H2; [lia|]. cbn [orb].
  unfold misaligned.
  destruct (Qeq_bool r 0) eqn:Hr0.
  - reflexivity.
  - destruct (Qle_bool (/ (r * 100)) (Qabs ((d * r - inject_Z k) / r))) eqn:Hm; [|reflexivity].
    exfalso. apply Qle_bool_iff in Hm.
    assert (Hz : Qabs ((d * r - inject_Z k) / r) == 0).
    { assert (He : d * r - inject_Z k == 0) by lra. rewrite He. unfold Qdiv. rewrite Qmult_0_l. reflexivity. }
    rewrite Hz in Hm.
    assert (Hp : 0 < / (r * 100)). { apply Qinv_lt_0_compat. lra. }
    lra.
Qed.

(** What an accepted duration satisfies: the count is the rounded product, it is below u32::MAX,
    and the misalignment (in seconds) is under the tolerance 1 / (100 rate). *)
Lemma sample_count_sound (d r : Q) (n : N) :
  sample_count d r = inr n ->
  Z.of_N n = round_half_away (d * r) /\ (Z.of_N n < U32_MAX)%Z /\
  (r == 0 \/ Qabs ((d * r - inject_Z (Z.of_N n)) / r) < / (r * 100)).
Proof.
  unfold sample_count. intros H.
  destruct (round_half_away (d * r) <? 0)%Z eqn:H1; [discriminate|].
  destruct (U32_MAX <=? round_half_away (d * r))%Z eqn:H2; [discriminate|]. cbn [orb] in H.
  destruct (misaligned _ r) eqn:Hm; [discriminate|]. injection H as <-.
  rewrite Z2N.id by lia. split; [reflexivity|]. split; [lia|].
  unfold misaligned in Hm. destruct (Qeq_bool r 0) eqn:Hr0.
  - left. now apply Qeq_bool_iff.
  - right. apply Qnot_le_lt. intros Hle. apply Qle_bool_iff in Hle. congruence.
Qed.

(** For a positive rate the tolerance is 1% of a sample. *)
Lemma tolerance_one_percent (x r : Q) : 0 < r -> (Qabs (x / r) < / (r * 100) <-> Qabs x < 1 # 100).
Proof.
  intros Hr.
  assert (Hinv : 0 < / r) by now apply Qinv_lt_0_compat.
  assert (E1 : Qabs (x / r) == Qabs x * / r).
  { unfold Qdiv. rewrite Qabs_Qmult. rewrite (Qabs_pos (/ r)); [reflexivity | lra]. }
  assert (E2 : / (r * 100) == (1 # 100) * / r).
  { rewrite Qinv_mult_distr. setoid_replace (/ 100) with (1 # 100) by reflexivity. ring. }
  rewrite E1, E2. split; intros H.
  - apply (Qmult_lt_r _ _ (/ r)); assumption.
  - apply (Qmult_lt_r _ _ (/ r)); assumption.
Qed.

Lemma sample_count_tolerance (d r : Q) (n : N) :
  0 < r -> sample_count d r = inr n -> Qabs (d * r - inject_Z (Z.of_N n)) < 1 # 100.
Proof.
  intros Hr H. destruct (sample_count_sound d r n H) as [_ [_ [H0|Ht]]].
  - lra.
  - now apply (tolerance_one_percent _ r Hr).
Qed.

Local Close Scope Q_scope.

(** * List helpers *)

Lemma mapi_from_length {A B} (f : nat -> A -> B) i l : length (mapi_from f i l) = length l.
Proof. revert i. induction l as [|x t IH]; intros i; cbn; [reflexivity | now rewrite IH]. Qed.

Lemma mapi_from_post {A B B'} (g : B -> B') (f : nat -> A -> B) (f' : nat -> A -> B') i l :
  (forall k z, f' k z = g (f k z)) -> mapi_from f' i l = map g (mapi_from f i l).
Proof.
  intros H. revert i. induction l as [|x t IH]; intros i; cbn; [reflexivity|]. now rewrite H, IH.
Qed.

Lemma mapi_from_pre {A A' B} (h : A' -> A) (f : nat -> A -> B) i l :
  mapi_from f i (map h l) = mapi_from (fun k z => f k (h z)) i l.
Proof. revert i. induction l as [|x t IH]; intros i; cbn; [reflexivity | now rewrite IH]. Qed.

Lemma repeat_map {A B} (h : A -> B) x n : repeat (h x) n = map h (repeat x n).
Proof. induction n as [|n IH]; cbn; [reflexivity | now rewrite IH]. Qed.

Lemma map_ext_all {A B} (f g : A -> B) l : (forall x, f x = g x) -> map f l = map g l.
Proof. intros H. induction l as [|x t IH]; cbn; [reflexivity | now rewrite H, IH]. Qed.

Lemma Forall_mapi_from {A B} (P : B -> Prop) (f : nat -> A -> B) i l :
  (forall k x, P (f k x)) -> Forall P (mapi_from f i l).
Proof. intros H. revert i. induction l as [|x t IH]; intros i; cbn; constructor; auto. Qed.

Lemma Forall_repeat {A} (P : A -> Prop) x n : P x -> Forall P (repeat x n).
Proof. intros H. induction n; cbn; constructor; auto. Qed.

Lemma Forall_map_all {A B} (P : B -> Prop) (f : A -> B) l : (forall x, P (f x)) -> Forall P (map f l).
Proof. intros H. induction l; cbn; constructor; auto. Qed.

Lemma mapi_from_all {A B} (f : nat -> A -> B) (b : B) i l :
  (forall k x, f k x = b) -> mapi_from f i l = repeat b (length l).
Proof. intros H. revert i. induction l as [|x t IH]; intros i; cbn; [reflexivity | now rewrite H, IH]. Qed.

Lemma map_all {A B} (f : A -> B) (b : B) l : (forall x, f x = b) -> map f l = repeat b (length l).
Proof. intros H. induction l as [|x t IH]; cbn; [reflexivity | now rewrite H, IH]. Qed.

Section Laws.
  Variables R C : Type.
  Variables rzero rone : R.
  Variables radd rmul rdiv : R -> R -> R.
  Variable ris0 : R -> bool.
  Variable ofQ : Q -> R.
  Variable czero : C.
  Variable cmul : C -> C -> C.
  Variable inj : R -> C.
  Variable cisc : R -> C.
  Variable envelope : kind -> list R -> Q -> Q -> nat -> C.

  Notation value := (value C).
  Notation shape_of := (shape_of C).
  Notation adjust := (adjust R C radd rmul rdiv ofQ cmul inj cisc).
  Notation apply_pd_at := (apply_pd_at R C radd rmul rdiv ofQ cmul cisc).
  Notation apply_phase := (apply_phase R C cmul cisc).
  Notation angle_at := (angle_at R radd rmul rdiv ofQ).
  Notation polar := (polar R C cmul inj cisc).
  Notation padded := (padded C czero).
  Notation time_samples := (time_samples R C envelope).
  Notation ofN := (ofN R ofQ).

  Lemma padded_length lp rp l :
    length (padded lp rp l) = N.to_nat lp + (length l + N.to_nat rp).
  Proof. unfold Waveform.padded. now rewrite !app_length, !repeat_length. Qed.

  Lemma time_samples_length k xs r d n : length (time_samples k xs r d n) = N.to_nat n.
  Proof. unfold Waveform.time_samples. now rewrite map_length, seq_length. Qed.

  Lemma built_length lp rp k xs r d n :
    length (padded lp rp (time_samples k xs r d n)) = N.to_nat (lp + n + rp).
  Proof. rewrite padded_length, time_samples_length. lia. Qed.

  (** ** Facts that hold for every `WaveformData` and need no law *)
  Section AnyData.
    Variables RealT CplxT : Type.
    Variable eval_real : RealT -> option R.
    Variable eval_cplx : CplxT -> option C.

    Notation sample :=
      (sample R C rzero rone radd rmul rdiv ris0 ofQ czero cmul inj cisc envelope RealT CplxT eval_real eval_cplx).
    Notation sample_shape := (sample_shape R C rzero rone ris0 RealT CplxT eval_real eval_cplx).
    Notation resolve := (resolve R rzero rone RealT eval_real).
    Notation ev_or := (evaluate_or R RealT eval_real).
    Notation sc_is0 := (scale_is_zero R ris0 RealT eval_real).
    Notation ev_all := (eval_all R RealT eval_real).

    (** The shape function evaluated by the case files is the shape of the sampled value. *)
    Lemma shape_of_sample w c r : shape_of (sample w c r) = sample_shape w c r.
    Proof.
      assert (Hb : forall k ps lp rp,
        shape_of (sample_built R C rzero rone radd rmul rdiv ris0 ofQ czero cmul inj cisc envelope
                    RealT eval_real k ps lp rp c r)
        = built_shape R rzero rone ris0 RealT eval_real ps lp rp c r).
      { intros k ps lp rp. unfold sample_built, built_shape.
        destruct (resolve c r) as [e|n|n s p d]; [reflexivity| |].
        - destruct (scale_is_zero _ _ _ _ _); cbn; [reflexivity|].
          now rewrite repeat_length, N2Nat.id.
        - destruct (eval_all _ _ _ ps).
          + destruct (scale_is_zero _ _ _ _ _); cbn; [reflexivity|].
            unfold Waveform.adjust. now rewrite mapi_from_length, built_length, N2Nat.id.
          + destruct (scale_is_zero _ _ _ _ _); cbn; [reflexivity|].
            now rewrite repeat_length, N2Nat.id. }
      assert (Hp : forall n, shape_of (placeholder R C ris0 RealT eval_real c n)
                             = placeholder_shape R ris0 RealT eval_real c n).
      { intros n. unfold placeholder, placeholder_shape.
        destruct (detuning_is_zero _ _ _ _ _); cbn; [reflexivity|]. now rewrite repeat_length, N2Nat.id. }
      destruct w as [iq|k ps|k ps pl pr|]; cbn [Waveform.sample Waveform.sample_shape]; try apply Hb.
      - destruct (resolve c r) as [e|n|n s p d]; [reflexivity|apply Hp|].
        destruct (eval_cplx iq); [|apply Hp].
        destruct (ris0 d); cbn; [reflexivity|].
        now rewrite mapi_from_length, repeat_length, N2Nat.id.
      - destruct (resolve c r) as [e|n|n s p d]; [reflexivity|apply Hp|].
        destruct (ris0 d); cbn; [reflexivity|].
        now rewrite map_length, seq_length, N2Nat.id.
    Qed.

    (** Length: an accepted duration gives [lp + n + rp] samples or placeholder slots, whatever the
        kind, the parameters and their partiality; a rejected one gives that error. *)
    Lemma sample_shape_count w c r n :
      sample_count (duration RealT c) r = inr n ->
      ocount (sample_shape w c r)
      = Some (fst (pads RealT CplxT w r) + n + snd (pads RealT CplxT w r))%N.
    Proof.
      intros Hn.
      assert (Hb : forall ps lp rp,
        ocount (built_shape R rzero rone ris0 RealT eval_real ps lp rp c r) = Some (lp + n + rp)%N).
      { intros ps lp rp. unfold built_shape, Waveform.resolve. rewrite Hn.
        destruct (ev_or (scale _ c) rone), (ev_or (phase _ c) rzero),
          (ev_or (detuning _ c) rzero); try destruct (ev_all ps);
          destruct (sc_is0 c); reflexivity. }
      destruct w as [iq|k ps|k ps pl pr|]; cbn [Waveform.sample_shape pads fst snd]; try apply Hb.
      - unfold Waveform.resolve. rewrite Hn, N.add_0_r. cbn [N.add].
        destruct (ev_or (scale _ c) rone), (ev_or (phase _ c) rzero),
          (ev_or (detuning _ c) rzero); try destruct (eval_cplx iq); reflexivity.
      - unfold Waveform.resolve. rewrite Hn, N.add_0_r. cbn [N.add].
        destruct (ev_or (scale _ c) rone), (ev_or (phase _ c) rzero),
          (ev_or (detuning _ c) rzero); reflexivity.
    Qed.

    Lemma sample_shape_error w c r e :
      sample_count (duration RealT c) r = inl e -> sample_shape w c r = OErr e.
    Proof.
      intros He.
      destruct w as [iq|k ps|k ps pl pr|]; cbn [Waveform.sample_shape]; unfold built_shape, Waveform.resolve;
        rewrite He; reflexivity.
    Qed.

    Lemma sample_count_of w c r n :
      sample_count (duration RealT c) r = inr n ->
      ocount (shape_of (sample w c r))
      = Some (fst (pads RealT CplxT w r) + n + snd (pads RealT CplxT w r))%N.
    Proof. intros Hn. rewrite shape_of_sample. now apply sample_shape_count. Qed.

    Lemma sample_error w c r e :
      sample_count (duration RealT c) r = inl e -> sample w c r = VErr C e.
    Proof.
      intros He. pose proof (sample_shape_error w c r e He) as H. rewrite <- shape_of_sample in H.
      destruct (sample w c r); cbn in H; congruence.
    Qed.
  End AnyData.

  (** ** Partial with every parameter known = concrete *)
  Notation sample_concrete :=
    (sample_concrete R C rzero rone radd rmul rdiv ris0 ofQ czero cmul inj cisc envelope).
  Notation sample_partial :=
    (sample_partial R C rzero rone radd rmul rdiv ris0 ofQ czero cmul inj cisc envelope).

  Lemma evaluate_or_embed (f : option R) d :
    evaluate_or R (option R) (p_eval_real R) (option_map Some f) d
    = evaluate_or R R (c_eval_real R) f d.
  Proof. destruct f; reflexivity. Qed.

  Lemma eval_all_embed ps : eval_all R (option R) (p_eval_real R) (map Some ps) = Some ps.
  Proof. induction ps as [|x t IH]; cbn; [reflexivity|]. now rewrite IH. Qed.

  Lemma eval_all_concrete ps : eval_all R R (c_eval_real R) ps = Some ps.
  Proof. induction ps as [|x t IH]; cbn; [reflexivity|]. now rewrite IH. Qed.

  Lemma resolve_embed c r :
    resolve R rzero rone (option R) (p_eval_real R) (embed_c R c) r
    = resolve R rzero rone R (c_eval_real R) c r.
  Proof.
    unfold resolve, embed_c. cbn [duration scale phase detuning]. now rewrite !evaluate_or_embed.
  Qed.

  Lemma scale_is_zero_embed c :
    scale_is_zero R ris0 (option R) (p_eval_real R) (embed_c R c)
    = scale_is_zero R ris0 R (c_eval_real R) c.
  Proof. unfold scale_is_zero, embed_c. cbn [scale]. destruct (scale R c); reflexivity. Qed.

  Lemma detuning_is_zero_embed c :
    detuning_is_zero R ris0 (option R) (p_eval_real R) (embed_c R c)
    = detuning_is_zero R ris0 R (c_eval_real R) c.
  Proof. unfold detuning_is_zero, embed_c. cbn [detuning]. destruct (detuning R c); reflexivity. Qed.

  Lemma partial_known_is_concrete w c r :
    sample_partial (embed_w R C w) (embed_c R c) r = sample_concrete w c r.
  Proof.
    unfold Waveform.sample_partial, Waveform.sample_concrete.
    destruct w as [iq|k ps|k ps pl pr|]; cbn [embed_w sample].
    - rewrite resolve_embed. unfold placeholder. rewrite detuning_is_zero_embed. reflexivity.
    - unfold sample_built. rewrite resolve_embed, scale_is_zero_embed, eval_all_embed, eval_all_concrete.
      reflexivity.
    - unfold sample_built. rewrite resolve_embed, scale_is_zero_embed, eval_all_embed, eval_all_concrete.
      reflexivity.
    - rewrite resolve_embed. unfold placeholder. rewrite detuning_is_zero_embed. reflexivity.
  Qed.

  (** `unwrap_total` is justified: concrete data never produces a placeholder. *)
  Lemma concrete_never_partial w c r s : sample_concrete w c r <> VPartial C s.
  Proof.
    unfold Waveform.sample_concrete.
    assert (Hr : forall n, resolve R rzero rone R (c_eval_real R) c r <> RPartial R n).
    { intros n. unfold resolve. destruct (sample_count _ r); [discriminate|].
      destruct (scale R c), (phase R c), (detuning R c); discriminate. }
    intros H.
    destruct w as [iq|k ps|k ps pl pr|]; cbn [sample] in H; unfold sample_built in H;
      try rewrite eval_all_concrete in H;
      destruct (resolve R rzero rone R (c_eval_real R) c r) as [e|n|n s' p d] eqn:Hres;
      try discriminate H; try exact (Hr n eq_refl);
      try (destruct (scale_is_zero R ris0 R (c_eval_real R) c); discriminate H).
  Qed.

  (** A placeholder has the length of the concrete result. *)
  Lemma placeholder_length (w : waveform R C) (c : common R) (pw : waveform (option R) (option C))
        (pc : common (option R)) (r : Q) (s : iqs unit) (v : iqs C) :
    duration _ pc = duration _ c -> pads _ _ pw r = pads _ _ w r ->
    sample_partial pw pc r = VPartial C s -> sample_concrete w c r = VTotal C v ->
    count s = count v.
  Proof.
    intros Hd Hp Hs Hv.
    unfold Waveform.sample_partial in Hs. unfold Waveform.sample_concrete in Hv.
    destruct (sample_count (duration _ c) r) as [e|n] eqn:Hn.
    - rewrite (sample_error R C (c_eval_real R) (c_eval_cplx C) w c r e Hn) in Hv. discriminate.
    - pose proof (sample_count_of R C (c_eval_real R) (c_eval_cplx C) w c r n Hn) as H1.
      rewrite <- Hd in Hn.
      pose proof (sample_count_of (option R) (option C) (p_eval_real R) (p_eval_cplx C) pw pc r n Hn) as H2.
      rewrite Hs in H2. rewrite Hv in H1. rewrite Hp in H2. cbn in H1, H2. congruence.
  Qed.

  (** ** Linearity, phase, zero scale: under the ring laws *)
  Section Algebra.
    Hypothesis cmul_comm : forall a b, cmul a b = cmul b a.
    Hypothesis cmul_assoc : forall a b c, cmul a (cmul b c) = cmul (cmul a b) c.
    Hypothesis cmul_0_l : forall a, cmul czero a = czero.
    Hypothesis inj_mul : forall a b, inj (rmul a b) = cmul (inj a) (inj b).
    Hypothesis inj_0 : inj rzero = czero.
    Hypothesis ris0_spec : forall x, ris0 x = true <-> x = rzero.
    Hypothesis rmul_0_l : forall a, rmul rzero a = rzero.
    Hypothesis radd_0_r : forall a, radd a rzero = a.
    Hypothesis cisc_add : forall a b, cisc (radd a b) = cmul (cisc a) (cisc b).
    Hypothesis cisc_0 : forall z, cmul z (cisc rzero) = z.
    Hypothesis rdiv_mul : forall a b x, rdiv (rmul a b) x = rmul (rdiv a x) b.
    Hypothesis rdiv_0 : forall n, n <> 0%N -> rdiv rzero (ofN n) = rzero.

    Lemma cmul_0_r a : cmul a czero = czero.
    Proof. now rewrite cmul_comm, cmul_0_l. Qed.

    Lemma scale_out s a z w :
      cmul (cmul (inj (rmul s a)) z) w = cmul (inj a) (cmul (cmul (inj s) z) w).
    Proof. rewrite inj_mul, (cmul_comm (inj s) (inj a)), <- !cmul_assoc. reflexivity. Qed.

    Lemma adjust_scale s a p d r l :
      adjust (rmul s a) p d r l = map (cmul (inj a)) (adjust s p d r l).
    Proof.
      unfold Waveform.adjust. apply mapi_from_post. intros k z.
      unfold Waveform.apply_pd_at, Waveform.apply_phase. apply scale_out.
    Qed.

    Lemma adjust_zero p d r l : adjust rzero p d r l = repeat czero (length l).
    Proof.
      unfold Waveform.adjust. apply mapi_from_all. intros k z.
      unfold Waveform.apply_pd_at, Waveform.apply_phase. now rewrite inj_0, !cmul_0_l.
    Qed.

    Lemma phase_out z p d r k :
      apply_pd_at z p d r k = cmul (cisc p) (apply_pd_at z rzero d r k).
    Proof.
      unfold Waveform.apply_pd_at, Waveform.apply_phase, Waveform.angle_at.
      rewrite radd_0_r, cisc_add, cmul_assoc. apply cmul_comm.
    Qed.

    Lemma adjust_phase s p d r l :
      adjust s p d r l = map (cmul (cisc p)) (adjust s rzero d r l).
    Proof. unfold Waveform.adjust. apply mapi_from_post. intros k z. apply phase_out. Qed.

    Lemma Forall_mapi_repeat {A B} (P : B -> Prop) (f : nat -> A -> B) i x n :
      (forall k, P (f k x)) -> Forall P (mapi_from f i (repeat x n)).
    Proof.
      intros H. revert i. induction n as [|n IH]; intros i; cbn; constructor; auto.
    Qed.

    Section WithData.
      Variables RealT CplxT : Type.
      Variable eval_real : RealT -> option R.
      Variable eval_cplx : CplxT -> option C.

      Notation sample :=
        (sample R C rzero rone radd rmul rdiv ris0 ofQ czero cmul inj cisc envelope RealT CplxT eval_real eval_cplx).
      Notation sbuilt :=
        (sample_built R C rzero rone radd rmul rdiv ris0 ofQ czero cmul inj cisc envelope RealT eval_real).

      Definition with_scale (c : common RealT) (x : option RealT) : common RealT :=
        Common (duration _ c) x (phase _ c) (detuning _ c).
      Definition with_phase (c : common RealT) (x : option RealT) : common RealT :=
        Common (duration _ c) (scale _ c) x (detuning _ c).

      Ltac open_sample :=
        unfold Waveform.sample, sample_built, resolve, placeholder, scale_is_zero, evaluate_or,
          with_scale, with_phase in *;
        cbn [duration scale phase detuning] in *.

      Lemma ris0_zero : ris0 rzero = true.
      Proof. now apply ris0_spec. Qed.

      (** *** Homogeneity in the scale *)
      Lemma built_homogeneous k ps lp rp c r x1 x2 s a v2 :
        eval_real x2 = Some s -> eval_real x1 = Some (rmul s a) ->
        sbuilt k ps lp rp (with_scale c (Some x2)) r = VTotal C v2 ->
        exists v1, sbuilt k ps lp rp (with_scale c (Some x1)) r = VTotal C v1 /\
                   to_list v1 = map (cmul (inj a)) (to_list v2).
      Proof.
        intros E2 E1 H2. open_sample. rewrite ?E1, ?E2 in *.
        destruct (sample_count (duration _ c) r) as [e|n]; [discriminate|].
        destruct (ris0 s) eqn:Zs.
        - apply ris0_spec in Zs. subst s. rewrite rmul_0_l, ris0_zero.
          exists (IFlat czero (lp + n + rp)%N).
          assert (Hv : v2 = IFlat czero (lp + n + rp)%N).
          { destruct (match phase _ c with Some x => eval_real x | None => Some rzero end),
              (match detuning _ c with Some x => eval_real x | None => Some rzero end);
              try destruct (eval_all R RealT eval_real ps); congruence. }
          subst v2. split.
          + destruct (match phase _ c with Some x => eval_real x | None => Some rzero end),
              (match detuning _ c with Some x => eval_real x | None => Some rzero end);
              try destruct (eval_all R RealT eval_real ps); reflexivity.
          + cbn [to_list]. rewrite <- repeat_map. now rewrite cmul_0_r.
        - destruct (match phase _ c with Some x => eval_real x | None => Some rzero end) as [p|];
            [|discriminate].
          destruct (match detuning _ c with Some x => eval_real x | None => Some rzero end) as [d|];
            [|discriminate].
          destruct (eval_all R RealT eval_real ps) as [xs|]; [|discriminate].
          injection H2 as <-.
          destruct (ris0 (rmul s a)) eqn:Zsa; (eexists; split; [reflexivity|]); cbn [to_list].
          + apply ris0_spec in Zsa.
            rewrite <- adjust_scale, Zsa, adjust_zero, built_length. reflexivity.
          + apply adjust_scale.
      Qed.

      Lemma scale_homogeneous w c r x1 x2 s a v2 :
        eval_real x2 = Some s -> eval_real x1 = Some (rmul s a) ->
        sample w (with_scale c (Some x2)) r = VTotal C v2 ->
        exists v1, sample w (with_scale c (Some x1)) r = VTotal C v1 /\
                   to_list v1 = map (cmul (inj a)) (to_list v2).
      Proof.
        intros E2 E1 H2.
        destruct w as [iq|k ps|k ps pl pr|]; cbn [Waveform.sample] in *;
          try exact (built_homogeneous _ _ _ _ _ _ _ _ _ _ _ E2 E1 H2).
        - (* Flat *)
          open_sample. rewrite ?E1, ?E2 in *.
          destruct (sample_count (duration _ c) r) as [e|n]; [discriminate|].
          destruct (match phase _ c with Some x => eval_real x | None => Some rzero end) as [p|];
            [|destruct (match detuning _ c with Some x => eval_real x | None => Some rzero end); discriminate].
          destruct (match detuning _ c with Some x => eval_real x | None => Some rzero end) as [d|];
            [|discriminate].
          destruct (eval_cplx iq) as [z|]; [|discriminate].
          injection H2 as <-. eexists; split; [reflexivity|].
          destruct (ris0 d); cbn [to_list].
          + rewrite <- repeat_map. f_equal. unfold Waveform.apply_phase. apply scale_out.
          + assert (Hsc : cmul (inj (rmul s a)) z = cmul (inj a) (cmul (inj s) z)).
            { rewrite inj_mul, (cmul_comm (inj s) (inj a)), <- cmul_assoc. reflexivity. }
            rewrite Hsc, (repeat_map (cmul (inj a))), mapi_from_pre. apply mapi_from_post. intros k v.
            unfold Waveform.apply_pd_at, Waveform.apply_phase.
            rewrite <- !cmul_assoc. reflexivity.
        - (* Boxcar *)
          open_sample. rewrite ?E1, ?E2 in *.
          destruct (sample_count (duration _ c) r) as [e|n]; [discriminate|].
          destruct (match phase _ c with Some x => eval_real x | None => Some rzero end) as [p|];
            [|destruct (match detuning _ c with Some x => eval_real x | None => Some rzero end); discriminate].
          destruct (match detuning _ c with Some x => eval_real x | None => Some rzero end) as [d|];
            [|discriminate].
          injection H2 as <-. eexists; split; [reflexivity|].
          assert (Hpol : forall ang, polar (rdiv (rmul s a) (ofN n)) ang
                                     = cmul (inj a) (polar (rdiv s (ofN n)) ang)).
          { intros ang. unfold Waveform.polar.
            rewrite rdiv_mul, inj_mul, (cmul_comm (inj (rdiv s (ofN n))) (inj a)), <- cmul_assoc.
            reflexivity. }
          destruct (ris0 d); cbn [to_list].
          + rewrite <- repeat_map. f_equal. apply Hpol.
          + rewrite map_map. apply map_ext_all. intros k. apply Hpol.
      Qed.

      (** *** Phase.  [f0] is a phase field that evaluates to zero: absent, or present with value 0. *)
      Lemma built_phase k ps lp rp c r x p f0 v0 :
        eval_real x = Some p ->
        evaluate_or R RealT eval_real f0 rzero = Some rzero ->
        sbuilt k ps lp rp (with_phase c f0) r = VTotal C v0 ->
        exists v, sbuilt k ps lp rp (with_phase c (Some x)) r = VTotal C v /\
                  to_list v = map (cmul (cisc p)) (to_list v0).
      Proof.
        intros E1 E0 H0. open_sample. rewrite ?E1, ?E0 in *.
        destruct (sample_count (duration _ c) r) as [e|n]; [discriminate|].
        destruct (match scale _ c with Some x => match eval_real x with Some v => ris0 v | None => false end
                                  | None => false end) eqn:Z.
        - exists (IFlat czero (lp + n + rp)%N).
          assert (Hv : v0 = IFlat czero (lp + n + rp)%N).
          { destruct (match scale _ c with Some x => eval_real x | None => Some rone end),
              (match detuning _ c with Some x => eval_real x | None => Some rzero end);
              try destruct (eval_all R RealT eval_real ps); congruence. }
          subst v0. split.
          + destruct (match scale _ c with Some x => eval_real x | None => Some rone end),
              (match detuning _ c with Some x => eval_real x | None => Some rzero end);
              try destruct (eval_all R RealT eval_real ps); reflexivity.
          + cbn [to_list]. rewrite <- repeat_map. now rewrite cmul_0_r.
        - destruct (match scale _ c with Some x => eval_real x | None => Some rone end) as [s|];
            [|discriminate].
          destruct (match detuning _ c with Some x => eval_real x | None => Some rzero end) as [d|];
            [|discriminate].
          destruct (eval_all R RealT eval_real ps) as [xs|]; [|discriminate].
          injection H0 as <-. eexists; split; [reflexivity|]. cbn [to_list]. apply adjust_phase.
      Qed.

      Lemma phase_rotates w c r x p f0 v0 :
        eval_real x = Some p ->
        evaluate_or R RealT eval_real f0 rzero = Some rzero ->
        sample w (with_phase c f0) r = VTotal C v0 ->
        exists v, sample w (with_phase c (Some x)) r = VTotal C v /\
                  to_list v = map (cmul (cisc p)) (to_list v0).
      Proof.
        intros E1 E0 H0.
        destruct w as [iq|k ps|k ps pl pr|]; cbn [Waveform.sample] in *;
          try exact (built_phase _ _ _ _ _ _ _ _ _ _ E1 E0 H0).
        - open_sample. rewrite ?E1, ?E0 in *.
          destruct (sample_count (duration _ c) r) as [e|n]; [discriminate|].
          destruct (match scale _ c with Some x => eval_real x | None => Some rone end) as [s|];
            [|discriminate].
          destruct (match detuning _ c with Some x => eval_real x | None => Some rzero end) as [d|];
            [|discriminate].
          destruct (eval_cplx iq) as [z|]; [|discriminate].
          injection H0 as <-. eexists; split; [reflexivity|].
          destruct (ris0 d); cbn [to_list].
          + rewrite <- repeat_map. f_equal. unfold Waveform.apply_phase.
            rewrite cisc_0. apply cmul_comm.
          + apply mapi_from_post. intros k v. apply phase_out.
        - open_sample. rewrite ?E1, ?E0 in *.
          destruct (sample_count (duration _ c) r) as [e|n]; [discriminate|].
          destruct (match scale _ c with Some x => eval_real x | None => Some rone end) as [s|];
            [|discriminate].
          destruct (match detuning _ c with Some x => eval_real x | None => Some rzero end) as [d|];
            [|discriminate].
          injection H0 as <-. eexists; split; [reflexivity|].
          assert (Hpol : forall m ang, polar m (radd ang p) = cmul (cisc p) (polar m (radd ang rzero))).
          { intros m ang. unfold Waveform.polar. rewrite radd_0_r, cisc_add, cmul_assoc. apply cmul_comm. }
          destruct (ris0 d); cbn [to_list].
          + rewrite <- repeat_map. f_equal. unfold Waveform.polar.
            rewrite cisc_0. apply cmul_comm.
          + rewrite map_map. apply map_ext_all. intros k. unfold Waveform.angle_at. apply Hpol.
      Qed.

      (** *** Zero scale *)
      (** For the sampled kinds the shortcut does not even look at the other parameters. *)
      Lemma built_zero_scale k ps lp rp c r x :
        eval_real x = Some rzero ->
        (exists e, sbuilt k ps lp rp (with_scale c (Some x)) r = VErr C e) \/
        (exists n, sample_count (duration _ c) r = inr n /\
                   sbuilt k ps lp rp (with_scale c (Some x)) r = VTotal C (IFlat czero (lp + n + rp)%N)).
      Proof.
        intros E. open_sample. rewrite ?E, ?ris0_zero.
        destruct (sample_count (duration _ c) r) as [e|n]; [left; eexists; reflexivity|].
        right. exists n. split; [reflexivity|].
        destruct (match phase _ c with Some x => eval_real x | None => Some rzero end),
          (match detuning _ c with Some x => eval_real x | None => Some rzero end);
          try destruct (eval_all R RealT eval_real ps); reflexivity.
      Qed.

      Lemma zero_scale_zero w c r x v :
        eval_real x = Some rzero ->
        sample w (with_scale c (Some x)) r = VTotal C v ->
        Forall (fun z => z = czero) (to_list v).
      Proof.
        intros E H.
        destruct w as [iq|k ps|k ps pl pr|]; cbn [Waveform.sample] in *.
        - open_sample. rewrite ?E in *.
          destruct (sample_count (duration _ c) r) as [e|n]; [discriminate|].
          destruct (match phase _ c with Some x => eval_real x | None => Some rzero end) as [p|];
            [|destruct (match detuning _ c with Some x => eval_real x | None => Some rzero end); discriminate].
          destruct (match detuning _ c with Some x => eval_real x | None => Some rzero end) as [d|];
            [|discriminate].
          destruct (eval_cplx iq) as [z|]; [|discriminate].
          injection H as <-. rewrite inj_0, cmul_0_l.
          destruct (ris0 d); cbn [to_list].
          + apply Forall_repeat. unfold Waveform.apply_phase. apply cmul_0_l.
          + apply Forall_mapi_repeat. intros k.
            unfold Waveform.apply_pd_at, Waveform.apply_phase. apply cmul_0_l.
        - destruct (built_zero_scale (KEnv k) ps 0%N 0%N c r x E) as [[e He]|[n [_ Hn]]];
            rewrite H in *; [discriminate|].
          injection Hn as ->. cbn [to_list]. now apply Forall_repeat.
        - destruct (built_zero_scale (KPad k) ps (pad_samples pl r) (pad_samples pr r) c r x E)
            as [[e He]|[n [_ Hn]]]; rewrite H in *; [discriminate|].
          injection Hn as ->. cbn [to_list]. now apply Forall_repeat.
        - open_sample. rewrite ?E in *.
          destruct (sample_count (duration _ c) r) as [e|n]; [discriminate|].
          destruct (match phase _ c with Some x => eval_real x | None => Some rzero end) as [p|];
            [|destruct (match detuning _ c with Some x => eval_real x | None => Some rzero end); discriminate].
          destruct (match detuning _ c with Some x => eval_real x | None => Some rzero end) as [d|];
            [|discriminate].
          injection H as <-.
          destruct (N.eq_dec n 0) as [->|Hn].
          + destruct (ris0 d); cbn; constructor.
          + rewrite (rdiv_0 n Hn).
            assert (Hpol : forall ang, polar rzero ang = czero).
            { intros ang. unfold Waveform.polar. now rewrite inj_0, cmul_0_l. }
            destruct (ris0 d); cbn [to_list].
            * apply Forall_repeat. apply Hpol.
            * apply Forall_map_all. intros k. apply Hpol.
      Qed.
    End WithData.
  End Algebra.
End Laws.

(** * The instance checker *)

(** The length clause as a proposition about an observed output. *)
Definition LenOK (d r : Q) (lp rp : N) (o : oshape) : Prop :=
  forall n, sample_count d r = inr n -> ocount o = Some (lp + n + rp)%N.

Lemma chk_len_sound d r lp rp o : chk_len d r lp rp o = true <-> LenOK d r lp rp o.
Proof.
  unfold chk_len, LenOK. destruct (sample_count d r) as [e|n].
  - split; [intros _ n Hn; discriminate | reflexivity].
  - destruct (ocount o) as [m|]; split.
    + intros H n' Hn'. injection Hn' as <-. apply N.eqb_eq in H. now subst.
    + intros H. specialize (H n eq_refl). injection H as ->. apply N.eqb_refl.
    + discriminate.
    + intros H. specialize (H n eq_refl). discriminate.
Qed.

Lemma oshape_eqb_eq a b : oshape_eqb a b = true <-> a = b.
Proof.
  destruct a as [e|s n|s n], b as [f|t m|t m]; cbn; try (split; discriminate).
  - destruct e, f; cbn; split; congruence.
  - rewrite andb_true_iff, N.eqb_eq. destruct s, t; cbn; split; intros H; try discriminate;
      try (destruct H; discriminate); try (destruct H; subst; reflexivity);
      injection H as ->; auto.
  - rewrite andb_true_iff, N.eqb_eq. destruct s, t; cbn; split; intros H; try discriminate;
      try (destruct H; discriminate); try (destruct H; subst; reflexivity);
      injection H as ->; auto.
Qed.

(** What verdict 0 of [chk_case] certifies about the implementation's observed outputs. *)
Definition CaseOK (x : case) : Prop :=
  let d := duration _ (cc x) in
  let lp := fst (pads Q unit (cw x) (rate x)) in
  let rp := snd (pads Q unit (cw x) (rate x)) in
  LenOK d (rate x) lp rp (oc x) /\ LenOK d (rate x) lp rp (ok x) /\ LenOK d (rate x) lp rp (om x) /\
  f_hom x = true /\ f_phase x = true /\ f_zero x = true /\ f_same x = true /\ oc x = ok x /\
  (forall n m, ocount (om x) = Some n -> ocount (oc x) = Some m -> n = m).

Lemma chk_case_sound x : chk_case x = 0%N -> CaseOK x.
Proof.
  unfold chk_case, CaseOK.
  destruct (pads Q unit (cw x) (rate x)) as [lp rp]. cbn [fst snd].
  destruct (chk_len _ _ lp rp (oc x)) eqn:L1; [|discriminate].
  destruct (chk_len _ _ lp rp (ok x)) eqn:L2; [|discriminate].
  destruct (chk_len _ _ lp rp (om x)) eqn:L3; [|discriminate]. cbn [andb negb].
  destruct (f_hom x); [|discriminate]. destruct (f_phase x); [|discriminate].
  destruct (f_zero x); [|discriminate]. destruct (f_same x); [|discriminate]. cbn [andb negb].
  destruct (oshape_eqb (oc x) (ok x)) eqn:E; [|discriminate]. cbn [negb].
  destruct (chk_same_len (om x) (oc x)) eqn:S; [|discriminate]. intros _.
  apply chk_len_sound in L1, L2, L3. apply oshape_eqb_eq in E.
  repeat split; auto.
  intros n m Hn Hm. unfold chk_same_len in S. rewrite Hn, Hm in S. now apply N.eqb_eq.
Qed.

(** The model's own outputs always satisfy the length clause: verdict 2 can only be raised by the
    implementation's output. *)
Lemma model_len_ok_c w c r :
  LenOK (duration _ c) r (fst (pads Q unit w r)) (snd (pads Q unit w r)) (shape_c w c r).
Proof. intros n Hn. unfold shape_c. now apply sample_shape_count. Qed.

Lemma model_len_ok_p w c r :
  LenOK (duration _ c) r (fst (pads _ _ w r)) (snd (pads _ _ w r)) (shape_p w c r).
Proof. intros n Hn. unfold shape_p. now apply sample_shape_count. Qed.
